(* C11/Lemmas.v — lemmas about the model (C11/Model.v) and the generated definitions (gen/C11_Gen.v).
   Sections over an arbitrary field hold for every field, every gradient oracle, every atom count. *)
From Coq Require Import Arith Lia List Bool ZArith QArith Qcanon Field Ring Permutation String.
From AV.lib Require Import Sums QcInst.
From AV.C11 Require Import Base Model.
From AV.gen Require Import C11_Gen.
Import ListNotations.
Local Open Scope nat_scope.

(* ------------------------------------------------------------------ generated index arithmetic *)
Lemma atom_of_flat i k : k < 3 -> gen_atom_idx (flat i k) = i.
Proof. intros Hk. unfold gen_atom_idx, flat. symmetry. apply Nat.div_unique with k; lia. Qed.

Lemma comp_of_flat i k : k < 3 -> gen_component (flat i k) = k.
Proof. intros Hk. unfold gen_component, flat. symmetry. apply Nat.mod_unique with i; lia. Qed.

Lemma flat_of_row r : flat (gen_atom_idx r) (gen_component r) = r.
Proof. unfold flat, gen_atom_idx, gen_component. pose proof (Nat.div_mod r 3). lia. Qed.

Lemma comp_lt r : gen_component r < 3.
Proof. unfold gen_component. apply Nat.mod_upper_bound. lia. Qed.

Lemma row_serial_flat i k : gen_row_serial i k = flat i k.
Proof. unfold gen_row_serial, flat. lia. Qed.

Lemma row_parallel_flat i k : gen_row_parallel i k = flat i k.
Proof. unfold gen_row_parallel, flat. lia. Qed.

Lemma hrow_flat a c : gen_hrow a c = flat a c.
Proof. unfold gen_hrow, flat. lia. Qed.

Lemma n_rows_eq n : gen_n_rows n = 3 * n.
Proof. unfold gen_n_rows. lia. Qed.

Lemma atom_lt_rows r n : r < 3 * n <-> gen_atom_idx r < n.
Proof.
  unfold gen_atom_idx. pose proof (Nat.div_mod r 3). pose proof (Nat.mod_upper_bound r 3).
  split; intros H1; lia.
Qed.

(* ------------------------------------------------------------------ lists *)
Lemma mem_In r l : mem r l = true <-> In r l.
Proof.
  unfold mem. rewrite existsb_exists. split.
  - intros [y [Hy E]]. apply Nat.eqb_eq in E. subst. exact Hy.
  - intros H. exists r. split; [exact H|apply Nat.eqb_refl].
Qed.

Lemma mem_false r l : mem r l = false <-> ~ In r l.
Proof.
  rewrite <- mem_In. destruct (mem r l); split; intros H.
  - discriminate.
  - exfalso. apply H. reflexivity.
  - intros H2. discriminate.
  - reflexivity.
Qed.

Lemma mem_app r l1 l2 : mem r (l1 ++ l2) = mem r l1 || mem r l2.
Proof. unfold mem. apply existsb_app. Qed.

Lemma filter_true {A} (f : A -> bool) l : (forall y, In y l -> f y = true) -> filter f l = l.
Proof.
  induction l as [|a t IH]; intros H; cbn [filter]; [reflexivity|].
  rewrite (H a) by (left; reflexivity). rewrite IH by (intros; apply H; right; assumption). reflexivity.
Qed.

Lemma filter_filter {A} (f g : A -> bool) l : filter f (filter g l) = filter (fun y => g y && f y) l.
Proof.
  induction l as [|a t IH]; cbn [filter]; [reflexivity|].
  destruct (g a); cbn [andb filter]; [destruct (f a)|]; rewrite IH; reflexivity.
Qed.

Lemma NoDup_filter' {A} (f : A -> bool) l : NoDup l -> NoDup (filter f l).
Proof.
  induction 1 as [|a t Ha Ht IH]; cbn [filter]; [constructor|].
  destruct (f a); [constructor; [|exact IH]|exact IH].
  intros Hin. apply filter_In in Hin. tauto.
Qed.

Lemma NoDup_app_intro {A} (l1 l2 : list A) :
  NoDup l1 -> NoDup l2 -> (forall y, In y l1 -> ~ In y l2) -> NoDup (l1 ++ l2).
Proof.
  induction 1 as [|a t Ha Ht IH]; intros H2 Hd; cbn [app]; [exact H2|].
  constructor.
  - rewrite in_app_iff. intros [H|H]; [auto|]. apply (Hd a); [left; reflexivity|exact H].
  - apply IH; [exact H2|]. intros y Hy. apply Hd. right. exact Hy.
Qed.

(* the rows a calculate() call will evaluate *)
Definition todo (rs calc : list nat) : list nat := filter (fun r => negb (mem r calc)) rs.

Lemma todo_In r rs calc : In r (todo rs calc) <-> In r rs /\ mem r calc = false.
Proof. unfold todo. rewrite filter_In, negb_true_iff. tauto. Qed.

Lemma todo_nil rs : todo rs [] = rs.
Proof. unfold todo. apply filter_true. intros. reflexivity. Qed.

Lemma idxs_of_todo rs calc : idxs_of rs calc = map (fun r => (gen_atom_idx r, gen_component r)) (todo rs calc).
Proof. reflexivity. Qed.

Lemma todo_snoc rs calc a : ~ In a rs -> todo rs (calc ++ [a]) = todo rs calc.
Proof.
  intros Ha. unfold todo. apply filter_ext_in. intros r Hr. rewrite mem_app. cbn [mem existsb].
  destruct (Nat.eqb r a) eqn:Era; [apply Nat.eqb_eq in Era; subst; contradiction|].
  rewrite !orb_false_r. reflexivity.
Qed.

Lemma mark_serial_flat i k : gen_mark_serial i k = flat i k.
Proof. unfold gen_mark_serial, flat. lia. Qed.

(* list.remove *)
Lemma remove_first_filter r l :
  NoDup l -> In r l -> remove_first r l = Some (filter (fun y => negb (Nat.eqb y r)) l).
Proof.
  induction 1 as [|y t Hy Ht IH]; intros Hin; [contradiction|].
  cbn [remove_first filter]. destruct (Nat.eqb y r) eqn:Eyr; cbn [negb].
  - apply Nat.eqb_eq in Eyr. subst y. f_equal. symmetry. apply filter_true.
    intros z Hz. apply negb_true_iff. apply Nat.eqb_neq. intros ->. contradiction.
  - destruct Hin as [->|Hin]; [rewrite Nat.eqb_refl in Eyr; discriminate|].
    rewrite IH by exact Hin. reflexivity.
Qed.

Lemma remove_all_filter rs : NoDup rs -> forall l, NoDup l -> incl rs l ->
  remove_all rs l = Some (filter (fun y => negb (mem y rs)) l).
Proof.
  induction 1 as [|r t Hr Ht IH]; intros l Hl Hincl.
  - cbn [remove_all]. f_equal. symmetry. apply filter_true. intros. reflexivity.
  - cbn [remove_all]. rewrite remove_first_filter by (try exact Hl; apply Hincl; left; reflexivity).
    rewrite IH.
    + f_equal. rewrite filter_filter. apply filter_ext. intros y. cbn [mem existsb].
      destruct (Nat.eqb y r); reflexivity.
    + apply NoDup_filter'. exact Hl.
    + intros z Hz. apply filter_In. split; [apply Hincl; right; exact Hz|].
      apply negb_true_iff. apply Nat.eqb_neq. intros ->. contradiction.
Qed.

Lemma remove_first_absent r l : ~ In r l -> remove_first r l = None.
Proof.
  induction l as [|y t IH]; intros H; cbn [remove_first]; [reflexivity|].
  destruct (Nat.eqb y r) eqn:Eyr; [apply Nat.eqb_eq in Eyr; subst; exfalso; apply H; left; reflexivity|].
  rewrite IH by (intros Hin; apply H; right; exact Hin). reflexivity.
Qed.

(* rows of the requested atoms *)
Lemma hrows_of_eq a : hrows_of a = [flat a 0; flat a 1; flat a 2].
Proof. unfold hrows_of, gen_hrow_components. cbn [seq map]. rewrite !hrow_flat. reflexivity. Qed.

Lemma In_hrows y a : In y (hrows_of a) <-> gen_atom_idx y = a.
Proof.
  rewrite hrows_of_eq. split.
  - intros [<-|[<-|[<-|[]]]]; apply atom_of_flat; lia.
  - intros <-. pose proof (flat_of_row y) as Hy. pose proof (comp_lt y) as Hc.
    destruct (gen_component y) as [|[|[|c]]] eqn:Ec; [| | |lia]; rewrite <- Hy at 1; cbn [In]; tauto.
Qed.

Lemma In_all_hrows y hs : In y (flat_map hrows_of hs) <-> In (gen_atom_idx y) hs.
Proof.
  rewrite in_flat_map. split.
  - intros [a [Ha Hy]]. apply In_hrows in Hy. subst a. exact Ha.
  - intros H. exists (gen_atom_idx y). split; [exact H|]. apply In_hrows. reflexivity.
Qed.

Lemma mem_all_hrows y hs : mem y (flat_map hrows_of hs) = mem (gen_atom_idx y) hs.
Proof.
  destruct (mem (gen_atom_idx y) hs) eqn:Em.
  - apply mem_In. apply In_all_hrows. apply mem_In. exact Em.
  - apply mem_false. rewrite In_all_hrows. apply mem_false. exact Em.
Qed.

Lemma NoDup_all_hrows hs : NoDup hs -> NoDup (flat_map hrows_of hs).
Proof.
  induction 1 as [|a t Ha Ht IH]; cbn [flat_map]; [constructor|].
  apply NoDup_app_intro; [|exact IH|].
  - rewrite hrows_of_eq. unfold flat.
    repeat constructor; cbn [In]; lia.
  - intros y Hy Hy2. apply In_hrows in Hy. apply In_all_hrows in Hy2. subst a. contradiction.
Qed.

(* ================================================================================================ *)
Section Lem.
Variable F : Type.
Variables (F0 F1 : F) (Fadd Fmul Fsub : F -> F -> F) (Fopp : F -> F) (Fdiv : F -> F -> F) (Finv : F -> F).
Hypothesis Fth : field_theory F0 F1 Fadd Fmul Fsub Fopp Fdiv Finv (@eq F).
Add Field FfC11 : Fth.
Variables (Fltb Feqb : F -> F -> bool) (Fsqrt Fabs : F -> F) (Fpi : F).
Let E : fenv := mkFenv F F0 F1 Fadd Fmul Fsub Fopp Fdiv Finv Fltb Feqb Fsqrt Fabs Fpi.

Declare Scope F_scope.
Delimit Scope F_scope with F.
Local Open Scope F_scope.
Notation "0" := F0 : F_scope.
Notation "1" := F1 : F_scope.
Infix "+" := Fadd : F_scope.
Infix "*" := Fmul : F_scope.
Infix "-" := Fsub : F_scope.
Infix "/" := Fdiv : F_scope.
Notation "- x" := (Fopp x) : F_scope.

Notation vec := (nat -> F).
Notation mat := (nat -> nat -> F).
Notation sum := (Sums.sum F F0 Fadd).
Notation dot := (Sums.dot F F0 Fadd Fmul).
Notation matvec := (Sums.matvec F F0 Fadd Fmul).
Notation matmul := (Sums.matmul F F0 Fadd Fmul).
Notation transpose := (Sums.transpose F).
Notation ident := (Sums.ident F F0 F1).
Notation symmetric := (Sums.symmetric F).
Notation vdivs := (Sums.vdivs F Fdiv).

Ltac env := unfold E in *; cbn [fF f0 f1 fadd fmul fsub fopp fdiv finv fltb feqb fsqrt fabs fpi] in *.

Definition two : F := cst E 2 1.
Lemma two_eq : two = (1 + 1) / 1.
Proof. unfold two, cst, ofZ, ofPos. env. field. apply (F_1_neq_0 Fth). Qed.

Lemma cst_0 : cst E 0 1 = 0.
Proof. unfold cst, ofZ, ofPos. env. field. apply (F_1_neq_0 Fth). Qed.

(* ------------------------------------------------------------------ (a) placement *)
Variable Meth : Type.
Variable grad : Meth -> vec -> vec.

Notation st := (st E).
Notation place := (place E).
Notation set_row := (set_row E).

Lemma place_notin res : forall (H : mat) r j, ~ In r (map fst res) -> place H res r j = H r j.
Proof.
  induction res as [|[r0 v0] t IH]; intros H r j Hn; [reflexivity|].
  cbn [Model.place fold_left fst snd]. change (place (set_row H r0 v0) t r j = H r j).
  rewrite IH by (intros Hin; apply Hn; right; exact Hin).
  unfold Model.set_row. destruct (Nat.eqb r r0) eqn:Er; [|reflexivity].
  apply Nat.eqb_eq in Er. exfalso. apply Hn. left. cbn. congruence.
Qed.

Lemma place_in res : forall (H : mat) r v, NoDup (map fst res) -> In (r, v) res ->
  forall j, place H res r j = v j.
Proof.
  induction res as [|[r0 v0] t IH]; intros H r v Hnd Hin j; [contradiction|].
  cbn [map fst] in Hnd. inversion Hnd as [|? ? Hr0 Ht]; subst.
  cbn [Model.place fold_left fst snd]. change (place (set_row H r0 v0) t r j = v j).
  destruct Hin as [Heq|Hin].
  - injection Heq as -> ->. rewrite place_notin by exact Hr0.
    unfold Model.set_row. rewrite Nat.eqb_refl. reflexivity.
  - apply IH; assumption.
Qed.

(* storing the results in ANY order gives the same matrix: the row indices are distinct *)
Lemma place_perm res res' (H : mat) :
  NoDup (map fst res) -> Permutation res res' -> forall r j, place H res r j = place H res' r j.
Proof.
  intros Hnd Hp r j.
  assert (Hnd' : NoDup (map fst res')) by (eapply Permutation_NoDup; [apply Permutation_map; exact Hp|exact Hnd]).
  destruct (in_dec Nat.eq_dec r (map fst res)) as [Hin|Hn].
  - apply in_map_iff in Hin. destruct Hin as [[r' v] [Hr Hin]]. cbn in Hr. subst r'.
    rewrite (place_in res H r v Hnd Hin). symmetry. apply place_in; [exact Hnd'|].
    eapply Permutation_in; eassumption.
  - rewrite place_notin by exact Hn. symmetry. apply place_notin.
    intros Hin. apply Hn. eapply Permutation_in; [apply Permutation_sym; apply Permutation_map; exact Hp|exact Hin].
Qed.

Section Calc.
Variable row_of : nat -> nat -> nat.
Hypothesis row_of_ok : forall r, row_of (gen_atom_idx r) (gen_component r) = r.
Variable collect : list (nat * vec) -> list (nat * vec).
Hypothesis collect_perm : forall l, Permutation l (collect l).

Notation row_fn := (row_fn E Meth grad).
Notation jobs_of := (jobs_of E Meth grad).
Notation job_of := (job_of E Meth grad).
Notation calculate := (calculate_gen E Meth grad row_of collect).

Lemma jobs_rows cdiff m x h rows :
  map fst (jobs_of row_of cdiff m x h (map (fun r => (gen_atom_idx r, gen_component r)) rows)) = rows.
Proof.
  unfold Model.jobs_of, Model.job_of. rewrite !map_map. cbn [fst snd].
  rewrite <- (map_id rows) at 2. apply map_ext. intros r. apply row_of_ok.
Qed.

Lemma jobs_in cdiff m x h rows r : In r rows ->
  In (r, row_fn cdiff m x (grad m x) h (gen_atom_idx r) (gen_component r))
     (jobs_of row_of cdiff m x h (map (fun r => (gen_atom_idx r, gen_component r)) rows)).
Proof.
  intros Hin. unfold Model.jobs_of, Model.job_of. rewrite map_map. cbn [fst snd].
  apply in_map_iff. exists r. split; [|exact Hin]. rewrite row_of_ok. reflexivity.
Qed.

(* what one calculate() call does to the state, from ANY starting state *)
Lemma calculate_spec cdiff m x h n (s : st) :
  let s' := calculate cdiff m x h n s in
  Permutation (calc_rows E s') (calc_rows E s ++ todo (seq 0 (3 * n)) (calc_rows E s)) /\
  ((forall l, collect l = l) -> calc_rows E s' = calc_rows E s ++ todo (seq 0 (3 * n)) (calc_rows E s)) /\
  forall r j, hess E s' r j =
    if (r <? 3 * n)%nat && negb (mem r (calc_rows E s))
    then row_fn cdiff m x (grad m x) h (gen_atom_idx r) (gen_component r) j
    else hess E s r j.
Proof.
  unfold Model.calculate_gen, idxs_to_calculate. rewrite n_rows_eq, idxs_of_todo. cbn [calc_rows hess].
  set (rows := todo (seq 0 (3 * n)) (calc_rows E s)).
  set (jobs := jobs_of row_of cdiff m x h (map (fun r => (gen_atom_idx r, gen_component r)) rows)).
  assert (Hrows : map fst jobs = rows) by (unfold jobs; apply jobs_rows).
  split; [|split].
  - apply Permutation_app_head. rewrite <- Hrows. apply Permutation_sym. apply Permutation_map. apply collect_perm.
  - intros Hid. rewrite Hid, Hrows. reflexivity.
  - intros r j.
    assert (Hnd : NoDup (map fst jobs)).
    { rewrite Hrows. unfold rows, todo. apply NoDup_filter'. apply seq_NoDup. }
    rewrite <- (place_perm jobs (collect jobs) (hess E s) Hnd (collect_perm jobs)).
    destruct ((r <? 3 * n)%nat && negb (mem r (calc_rows E s))) eqn:Ec.
    + apply andb_true_iff in Ec. destruct Ec as [Hlt Hm]. apply Nat.ltb_lt in Hlt. apply negb_true_iff in Hm.
      apply place_in; [exact Hnd|]. unfold jobs. apply jobs_in. unfold rows. apply todo_In.
      split; [apply in_seq; lia|exact Hm].
    + apply place_notin. rewrite Hrows. unfold rows. rewrite todo_In, in_seq.
      intros [Hlt Hm]. rewrite Hm in Ec. cbn [negb] in Ec.
      assert (Hl : (r <? 3 * n)%nat = true) by (apply Nat.ltb_lt; lia). rewrite Hl in Ec. discriminate.
Qed.

(* a fresh calculator: every row 3i+k holds the finite difference for atom i, component k *)
Lemma rows_complete cdiff m x h n (H0 : mat) :
  let s' := calculate cdiff m x h n (mkSt E [] H0) in
  Permutation (calc_rows E s') (seq 0 (3 * n)) /\
  ((forall l, collect l = l) -> calc_rows E s' = seq 0 (3 * n)) /\
  forall i k j, (i < n)%nat -> (k < 3)%nat ->
    hess E s' (flat i k) j = row_fn cdiff m x (grad m x) h i k j.
Proof.
  destruct (calculate_spec cdiff m x h n (mkSt E [] H0)) as [Hp [Hc Hh]]. cbn [calc_rows hess] in *.
  rewrite todo_nil in Hp, Hc. cbn [app] in Hp, Hc.
  split; [exact Hp|]. split; [exact Hc|].
  intros i k j Hi Hk. rewrite Hh. cbn [mem existsb negb]. rewrite andb_true_r.
  assert (Hl : (flat i k <? 3 * n)%nat = true) by (apply Nat.ltb_lt; unfold flat; lia).
  rewrite Hl, atom_of_flat, comp_of_flat by exact Hk. reflexivity.
Qed.

(* ---- hybrid ---- *)
Notation hybrid := (hybrid_calculate E Meth calculate).

Lemma hybrid_spec lm hm x h n hidxs :
  (forall l, collect l = l) ->
  NoDup hidxs -> (forall a, In a hidxs -> (a < n)%nat) ->
  exists s2, hybrid lm hm x h n hidxs = Ok E s2 /\
    (forall r j, (r < 3 * n)%nat ->
       hess E s2 r j =
         if mem (gen_atom_idx r) hidxs
         then row_fn false hm x (grad hm x) h (gen_atom_idx r) (gen_component r) j
         else row_fn false lm x (grad lm x) h (gen_atom_idx r) (gen_component r) j) /\
    (forall r, In r (calc_rows E s2) <-> (r < 3 * n)%nat).
Proof.
  intros Hid Hnd Hlt. unfold hybrid_calculate.
  assert (Hv : hybrid_valid n hidxs = true).
  { unfold hybrid_valid. apply forallb_forall. intros a Ha. apply Nat.ltb_lt. apply Hlt. exact Ha. }
  rewrite Hv. cbn [negb].
  destruct (calculate_spec false lm x h n (mkSt E [] (zeros E))) as [_ [Hc1 Hh1]]. specialize (Hc1 Hid). cbn [calc_rows hess] in Hc1, Hh1.
  set (s1 := calculate false lm x h n (mkSt E [] (zeros E))) in *.
  rewrite todo_nil in Hc1. cbn [app] in Hc1.
  unfold remove_h_method_rows. rewrite Hc1.
  rewrite remove_all_filter; [|apply NoDup_all_hrows; exact Hnd|apply seq_NoDup|].
  2:{ intros y Hy. apply In_all_hrows in Hy. apply in_seq. apply Hlt in Hy. apply atom_lt_rows in Hy. lia. }
  set (c := filter (fun y => negb (mem y (flat_map hrows_of hidxs))) (seq 0 (3 * n))).
  eexists. split; [reflexivity|].
  destruct (calculate_spec false hm x h n (mkSt E c (hess E s1))) as [_ [Hc2 Hh2]]. specialize (Hc2 Hid). cbn [calc_rows hess] in Hc2, Hh2.
  assert (Hmc : forall r, (r < 3 * n)%nat -> mem r c = negb (mem (gen_atom_idx r) hidxs)).
  { intros r Hr. rewrite <- mem_all_hrows. destruct (mem r (flat_map hrows_of hidxs)) eqn:Em; cbn [negb].
    - apply mem_false. unfold c. rewrite filter_In, Em. cbn. intros [_ Hf]. discriminate.
    - apply mem_In. unfold c. rewrite filter_In, Em. split; [apply in_seq; lia|reflexivity]. }
  split.
  - intros r j Hr. rewrite Hh2.
    assert (Hl : (r <? 3 * n)%nat = true) by (apply Nat.ltb_lt; exact Hr).
    rewrite Hl, (Hmc r Hr), negb_involutive. cbn [andb].
    destruct (mem (gen_atom_idx r) hidxs); [reflexivity|].
    rewrite Hh1. cbn [mem existsb negb]. rewrite Hl. reflexivity.
  - intros r. rewrite Hc2, in_app_iff, todo_In, in_seq. split.
    + intros [Hin|[Hin _]]; [|lia]. unfold c in Hin. apply filter_In in Hin. destruct Hin as [Hin _].
      apply in_seq in Hin. lia.
    + intros Hr. destruct (mem r c) eqn:Em; [left; apply mem_In; exact Em|right].
      split; [lia|reflexivity].
Qed.

Lemma hybrid_invalid lm hm x h n hidxs a :
  In a hidxs -> (n <= a)%nat -> hybrid lm hm x h n hidxs = ValueError E.
Proof.
  intros Hin Hge. unfold hybrid_calculate.
  assert (Hv : hybrid_valid n hidxs = false).
  { unfold hybrid_valid. apply not_true_is_false. intros Hf. rewrite forallb_forall in Hf.
    specialize (Hf a Hin). apply Nat.ltb_lt in Hf. lia. }
  rewrite Hv. reflexivity.
Qed.

End Calc.

(* the serial loop (lazy generator, mark after store) computes exactly what the pool form with in-order hand-back does *)
Lemma serial_loop_eq (job : nat * nat -> nat * vec) rows :
  (forall r, fst (job (gen_atom_idx r, gen_component r)) = r) ->
  NoDup rows -> forall s : st,
  serial_loop E job rows s =
    mkSt E (calc_rows E s ++ todo rows (calc_rows E s))
           (place (hess E s) (map job (map (fun r => (gen_atom_idx r, gen_component r)) (todo rows (calc_rows E s))))).
Proof.
  intros Hjob. induction 1 as [|a t Ha Ht IH]; intros s.
  - cbn. rewrite app_nil_r. destruct s; reflexivity.
  - cbn [Model.serial_loop todo filter]. destruct (mem a (calc_rows E s)) eqn:Em; cbn [negb].
    + apply IH.
    + rewrite IH. cbn [calc_rows hess fst snd]. rewrite mark_serial_flat, flat_of_row.
      rewrite (todo_snoc t (calc_rows E s) a Ha). cbn [map Model.place fold_left].
      rewrite <- app_assoc. reflexivity.
Qed.

Lemma calculate_serial_eq cdiff m x h n (s : st) :
  calculate_serial E Meth grad cdiff m x h n s = calculate_gen E Meth grad gen_row_serial (fun l => l) cdiff m x h n s.
Proof.
  unfold calculate_serial, Model.calculate_gen, idxs_to_calculate. rewrite n_rows_eq, idxs_of_todo.
  rewrite serial_loop_eq; [|intros r; unfold Model.job_of; cbn [fst snd]; rewrite row_serial_flat; apply flat_of_row|apply seq_NoDup].
  f_equal. f_equal. symmetry.
  apply (jobs_rows gen_row_serial (fun r => eq_trans (row_serial_flat _ _) (flat_of_row r))).
Qed.

Lemma hybrid_ext (c1 c2 : bool -> Meth -> vec -> F -> nat -> st -> st) :
  (forall cd m x h n s, c1 cd m x h n s = c2 cd m x h n s) ->
  forall lm hm x h n hs, hybrid_calculate E Meth c1 lm hm x h n hs = hybrid_calculate E Meth c2 lm hm x h n hs.
Proof.
  intros He lm hm x h n hs. unfold hybrid_calculate.
  destruct (negb (hybrid_valid n hs)); [reflexivity|]. rewrite He.
  destruct (remove_h_method_rows hs (calc_rows E (c2 false lm x h n (mkSt E [] (zeros E))))); [|reflexivity].
  rewrite He. reflexivity.
Qed.

(* ---- symmetrisation ---- *)
Lemma symmetrise_entry (H : mat) r c : gen_symmetrise E H r c = (H r c + H c r) / two.
Proof. reflexivity. Qed.

Lemma symmetrise_symmetric d (H : mat) : symmetric d (gen_symmetrise E H).
Proof. intros i j _ _. rewrite !symmetrise_entry. f_equal. ring. Qed.

Lemma symmetrise_fix (H : mat) r c : two <> 0 -> H r c = H c r -> gen_symmetrise E H r c = H r c.
Proof.
  intros H2 Hs. rewrite symmetrise_entry, <- Hs.
  assert (H11 : 1 + 1 <> 0).
  { intros H0. apply H2. rewrite two_eq, H0. field. apply (F_1_neq_0 Fth). }
  rewrite two_eq. env. field. repeat split; first [exact H11 | apply (F_1_neq_0 Fth)].
Qed.

(* ------------------------------------------------------------------ (b) translation / rotation vectors *)
Let S_sum_ext := sum_ext F F0 Fadd.
Let S_sum_zero := sum_zero F F0 F1 Fadd Fmul Fsub Fopp Fdiv Finv Fth.
Let S_sum_add := sum_add F F0 F1 Fadd Fmul Fsub Fopp Fdiv Finv Fth.
Let S_sum_sub := sum_sub F F0 F1 Fadd Fmul Fsub Fopp Fdiv Finv Fth.
Let S_sum_scal_l := sum_scal_l F F0 F1 Fadd Fmul Fsub Fopp Fdiv Finv Fth.
Let S_sum_scal_r := sum_scal_r F F0 F1 Fadd Fmul Fsub Fopp Fdiv Finv Fth.
Let S_sum_div_r := sum_div_r F F0 F1 Fadd Fmul Fsub Fopp Fdiv Finv Fth.
Let S_sum_single := sum_single F F0 F1 Fadd Fmul Fsub Fopp Fdiv Finv Fth.

Lemma sum3 n (f : nat -> F) :
  sum (3 * n) f = sum n (fun i => f (flat i 0) + f (flat i 1) + f (flat i 2)).
Proof.
  induction n as [|n IH]; [reflexivity|].
  replace (3 * S n)%nat with (S (S (S (3 * n)))) by lia.
  cbn [Sums.sum]. rewrite IH. unfold flat.
  replace (3 * n + 0)%nat with (3 * n)%nat by lia.
  replace (3 * n + 1)%nat with (S (3 * n)) by lia.
  replace (3 * n + 2)%nat with (S (S (3 * n))) by lia. ring.
Qed.

Lemma flat_div i k : (k < 3)%nat -> (flat i k / 3)%nat = i.
Proof. intros Hk. exact (atom_of_flat i k Hk). Qed.
Lemma flat_mod i k : (k < 3)%nat -> (flat i k mod 3)%nat = k.
Proof. intros Hk. exact (comp_of_flat i k Hk). Qed.

Notation mdot := (mdot E).
Notation tile := (tile E).
Notation rot_vec := (rot_vec E).
Notation com := (com E).
Notation total_mass := (total_mass E).
Notation cross := (cross E).
Notation dot3 := (dot3 E).

Lemma mdot_flat n m (a b : vec) :
  mdot n m a b = sum n (fun i => m i * (a (flat i 0) * b (flat i 0) + a (flat i 1) * b (flat i 1)
                                       + a (flat i 2) * b (flat i 2))).
Proof.
  unfold Model.mdot. env. rewrite sum3. apply S_sum_ext. intros i Hi. unfold mass_rep.
  rewrite !flat_div by lia. ring.
Qed.

(* translations are mutually orthogonal in the mass-weighted inner product when the axes are *)
Lemma trans_trans n m (a b : vec) : mdot n m (tile a) (tile b) = total_mass n m * dot3 a b.
Proof.
  rewrite mdot_flat. unfold Model.total_mass, Model.dot3. env.
  rewrite <- S_sum_scal_r. apply S_sum_ext. intros i Hi. unfold Model.tile. rewrite !flat_mod by lia. ring.
Qed.

(* sum_i m_i (r_i - com) = 0 *)
Lemma com_zero n m (X : vec) k :
  total_mass n m <> 0 -> sum n (fun i => m i * (X (flat i k) - com n m X k)) = 0.
Proof.
  intros HM.
  rewrite (S_sum_ext n _ (fun i => m i * X (flat i k) - m i * com n m X k)) by (intros; ring).
  rewrite S_sum_sub, S_sum_scal_r. unfold Model.com, Model.total_mass in *. env. field. exact HM.
Qed.

(* every translation vector is orthogonal to every rotation vector, for ANY axes a, e *)
Lemma trans_rot n m (X a e : vec) :
  total_mass n m <> 0 -> mdot n m (tile a) (rot_vec n m X e) = 0.
Proof.
  intros HM. rewrite mdot_flat.
  set (d := fun k i => m i * (X (flat i k) - com n m X k)).
  rewrite (S_sum_ext n _ (fun i => (a 1%nat * e 2%nat - a 2%nat * e 1%nat) * d 0%nat i
                                 + (a 2%nat * e 0%nat - a 0%nat * e 2%nat) * d 1%nat i
                                 + (a 0%nat * e 1%nat - a 1%nat * e 0%nat) * d 2%nat i)).
  - rewrite !S_sum_add, !S_sum_scal_l. unfold d. rewrite !com_zero by exact HM. env. ring.
  - intros i Hi. unfold Model.tile, Model.rot_vec. rewrite !flat_mod, !flat_div by lia.
    unfold d, Model.cross. env. ring.
Qed.

Lemma mdot_comm n m (a b : vec) : mdot n m a b = mdot n m b a.
Proof. unfold Model.mdot. apply S_sum_ext. intros. env. ring. Qed.

Lemma mul_nonzero (c1 c2 : F) : c1 <> 0 -> c2 <> 0 -> c1 * c2 <> 0.
Proof.
  intros H1 H2 H0. apply H2. transitivity ((c1 * c2) / c1); [field; exact H1|].
  rewrite H0. field. exact H1.
Qed.

Lemma zero_div (q : F) : q <> 0 -> 0 / q = 0.
Proof. intros Hq. field. exact Hq. Qed.
Lemma mul_zero_r (t : F) : t * 0 = 0.
Proof. ring. Qed.

(* the vectors of _proj_matrix: M^1/2 t, divided by (any non-zero) norm *)
Lemma dot_mw n m (a b : vec) c1 c2 :
  (forall i, (i < n)%nat -> Fsqrt (m i) * Fsqrt (m i) = m i) -> c1 <> 0 -> c2 <> 0 ->
  dot (3 * n) (vdivs (mw_vec E m a) c1) (vdivs (mw_vec E m b) c2) = mdot n m a b / (c1 * c2).
Proof.
  intros Hsq H1 H2. unfold Model.mdot, Sums.dot. env.
  rewrite <- S_sum_div_r by (apply mul_nonzero; assumption).
  apply S_sum_ext. intros j Hj. unfold Sums.vdivs, mw_vec, mass_rep. env.
  assert (Hlt : (j / 3 < n)%nat) by (apply Nat.div_lt_upper_bound; lia).
  pose proof (Hsq _ Hlt) as Hs. set (sq := Fsqrt (m (j / 3)%nat)) in *. rewrite <- Hs. field. split; assumption.
Qed.

(* ------------------------------------------------------------------ (b) back-transformed modes *)
Lemma sum_split a b (f : nat -> F) : sum (a + b) f = sum a f + sum b (fun i => f (a + i)%nat).
Proof.
  induction b as [|b IH].
  - rewrite Nat.add_0_r. cbn [Sums.sum]. ring.
  - rewrite Nat.add_succ_r. cbn [Sums.sum]. rewrite IH. ring.
Qed.

Definition orthonormal_cols (d : nat) (A : mat) : Prop :=
  forall a b, (a < d)%nat -> (b < d)%nat -> dot d (col E A a) (col E A b) = if Nat.eqb a b then 1 else 0.

Lemma matvec_orth d (D : mat) (s : vec) :
  orthonormal_cols d D -> forall i, (i < d)%nat -> matvec d (transpose D) (matvec d D s) i = s i.
Proof.
  intros HD i Hi.
  rewrite <- (matmul_matvec F F0 F1 Fadd Fmul Fsub Fopp Fdiv Finv Fth).
  rewrite (matvec_ext F F0 Fadd Fmul d (matmul d (transpose D) D) ident s s).
  - apply (matvec_ident F F0 F1 Fadd Fmul Fsub Fopp Fdiv Finv Fth). exact Hi.
  - intros a b Ha Hb. exact (HD a b Ha Hb).
  - intros k Hk. reflexivity.
  - exact Hi.
Qed.

Lemma dot_matvec_orth d (D : mat) (s s' : vec) :
  orthonormal_cols d D -> dot d (matvec d D s) (matvec d D s') = dot d s s'.
Proof.
  intros HD. rewrite (dot_matvec_transpose F F0 F1 Fadd Fmul Fsub Fopp Fdiv Finv Fth).
  apply (dot_ext F F0 Fadd Fmul); [|intros i Hi; reflexivity].
  intros i Hi. apply matvec_orth; assumption.
Qed.

Definition unitv (a : nat) : vec := fun r => if Nat.eqb r a then 1 else 0.

Lemma col_is_matvec d (D : mat) a r : (a < d)%nat -> col E D a r = matvec d D (unitv a) r.
Proof.
  intros Ha. unfold Sums.matvec, unitv, col.
  rewrite (S_sum_ext d _ (fun k => if Nat.eqb k a then D r k else 0)) by (intros k Hk; destruct (Nat.eqb k a); ring).
  rewrite S_sum_single by exact Ha. reflexivity.
Qed.

Lemma dot_unitv d (s : vec) a : (a < d)%nat -> dot d s (unitv a) = s a.
Proof.
  intros Ha. unfold Sums.dot, unitv.
  rewrite (S_sum_ext d _ (fun k => if Nat.eqb k a then s k else 0)) by (intros k Hk; destruct (Nat.eqb k a); ring).
  apply S_sum_single. exact Ha.
Qed.

Notation mode_raw := (mode_raw E).
Notation s_prime := (s_prime E).

(* the first n_tr modes are identically zero *)
Lemma mode_tr_zero d ntr (D Sbar : mat) i r : (i < ntr)%nat -> mode E d ntr D Sbar i r = 0.
Proof.
  intros Hi. unfold mode. assert (Hl : (i <? ntr)%nat = true) by (apply Nat.ltb_lt; exact Hi). rewrite Hl.
  unfold Model.mode_raw, Sums.matvec. env.
  rewrite (S_sum_ext d _ (fun _ => 0)); [apply S_sum_zero|].
  intros k Hk. unfold Model.s_prime. rewrite Hl, orb_true_r. env. ring.
Qed.

(* no net translation / rotation: every mode is orthogonal to the first n_tr columns of D *)
Lemma mode_orth_tr d ntr (D Sbar : mat) i a :
  orthonormal_cols d D -> (a < ntr)%nat -> (ntr <= d)%nat ->
  dot d (mode_raw d ntr D Sbar i) (col E D a) = 0.
Proof.
  intros HD Ha Hd. assert (Had : (a < d)%nat) by lia.
  rewrite (dot_ext F F0 Fadd Fmul d _ (mode_raw d ntr D Sbar i) _ (matvec d D (unitv a)))
    by (intros k Hk; first [apply col_is_matvec; exact Had | reflexivity]).
  unfold Model.mode_raw. env. rewrite dot_matvec_orth by exact HD. rewrite dot_unitv by exact Had.
  unfold Model.s_prime. assert (Hl : (a <? ntr)%nat = true) by (apply Nat.ltb_lt; exact Ha). rewrite Hl. reflexivity.
Qed.

(* Gram matrix of the back-transformed vibrational vectors = Gram matrix of the eigh eigenvectors *)
Lemma mode_gram ntr nv (D Sbar : mat) i j :
  orthonormal_cols (ntr + nv) D -> (i < nv)%nat -> (j < nv)%nat ->
  dot (ntr + nv) (mode_raw (ntr + nv) ntr D Sbar (ntr + i)) (mode_raw (ntr + nv) ntr D Sbar (ntr + j))
  = dot nv (col E Sbar i) (col E Sbar j).
Proof.
  intros HD Hi Hj. unfold Model.mode_raw. env. rewrite dot_matvec_orth by exact HD.
  unfold Sums.dot. rewrite sum_split.
  rewrite (S_sum_ext ntr _ (fun _ => 0)).
  - rewrite S_sum_zero.
    rewrite (S_sum_ext nv _ (fun r => col E Sbar i r * col E Sbar j r)); [env; ring|].
    intros r Hr. unfold Model.s_prime, col.
    assert (H1 : (ntr + r <? ntr)%nat = false) by (apply Nat.ltb_ge; lia).
    assert (H2 : (ntr + i <? ntr)%nat = false) by (apply Nat.ltb_ge; lia).
    assert (H3 : (ntr + j <? ntr)%nat = false) by (apply Nat.ltb_ge; lia).
    rewrite H1, H2, H3. cbn [orb].
    replace (ntr + r - ntr)%nat with r by lia. replace (ntr + i - ntr)%nat with i by lia.
    replace (ntr + j - ntr)%nat with j by lia. reflexivity.
  - intros r Hr. unfold Model.s_prime. assert (H1 : (r <? ntr)%nat = true) by (apply Nat.ltb_lt; exact Hr).
    rewrite H1. cbn [orb]. env. ring.
Qed.

(* ------------------------------------------------------------------ modes vs vectors in the span of the first ntr columns *)
Lemma dot_lincomb d (x : vec) k (c : nat -> F) (A : mat) :
  dot d x (fun r => sum k (fun a => c a * A r a)) = sum k (fun a => c a * dot d x (col E A a)).
Proof.
  unfold Sums.dot.
  rewrite (S_sum_ext d _ (fun r => sum k (fun a => x r * (c a * A r a)))) by (intros; rewrite S_sum_scal_l; reflexivity).
  rewrite (sum_swap F F0 F1 Fadd Fmul Fsub Fopp Fdiv Finv Fth). apply S_sum_ext. intros a Ha.
  rewrite <- S_sum_scal_l. apply S_sum_ext. intros r Hr. unfold col. ring.
Qed.

Lemma dot_vdivs_l d (a w : vec) c : dot d (vdivs a c) w = Finv c * dot d a w.
Proof.
  unfold Sums.dot, Sums.vdivs. rewrite <- S_sum_scal_l. apply S_sum_ext. intros r Hr.
  rewrite (Field_theory.Fdiv_def Fth). ring.
Qed.

(* every returned mode is orthogonal to every vector in the span of the first ntr columns of D *)
Lemma mode_orth_span d ntr (D Sbar : mat) i (w : vec) (c : nat -> F) :
  orthonormal_cols d D -> (ntr <= d)%nat ->
  (forall r, (r < d)%nat -> w r = sum ntr (fun a => c a * D r a)) ->
  dot d (mode E d ntr D Sbar i) w = 0.
Proof.
  intros HD Hd Hw.
  assert (Hraw : dot d (mode_raw d ntr D Sbar i) w = 0).
  { rewrite (dot_ext F F0 Fadd Fmul d _ (mode_raw d ntr D Sbar i) _ (fun r => sum ntr (fun a => c a * D r a)))
      by (intros r Hr; first [apply Hw; exact Hr | reflexivity]).
    rewrite dot_lincomb. rewrite (S_sum_ext ntr _ (fun _ => 0)); [apply S_sum_zero|].
    intros a Ha. rewrite (mode_orth_tr d ntr D Sbar i a HD Ha Hd). ring. }
  unfold mode. destruct (i <? ntr)%nat; [exact Hraw|].
  unfold normalised. env. rewrite dot_vdivs_l, Hraw. ring.
Qed.

(* the returned (normalised) vibrational modes are orthonormal when sqrt 1 = 1 *)
Lemma mode_gram_normalised ntr nv (D Sbar : mat) i j :
  Fsqrt 1 = 1 ->
  orthonormal_cols (ntr + nv) D -> orthonormal_cols nv Sbar -> (i < nv)%nat -> (j < nv)%nat ->
  dot (ntr + nv) (mode E (ntr + nv) ntr D Sbar (ntr + i)) (mode E (ntr + nv) ntr D Sbar (ntr + j))
  = if Nat.eqb i j then 1 else 0.
Proof.
  intros Hs HD HS Hi Hj. unfold mode.
  assert (H1 : (ntr + i <? ntr)%nat = false) by (apply Nat.ltb_ge; lia).
  assert (H2 : (ntr + j <? ntr)%nat = false) by (apply Nat.ltb_ge; lia).
  rewrite H1, H2.
  set (mi := mode_raw (ntr + nv) ntr D Sbar (ntr + i)). set (mj := mode_raw (ntr + nv) ntr D Sbar (ntr + j)).
  assert (Ni : dot (ntr + nv) mi mi = 1).
  { unfold mi. rewrite (mode_gram ntr nv D Sbar i i HD Hi Hi), (HS i i Hi Hi), Nat.eqb_refl. reflexivity. }
  assert (Nj : dot (ntr + nv) mj mj = 1).
  { unfold mj. rewrite (mode_gram ntr nv D Sbar j j HD Hj Hj), (HS j j Hj Hj), Nat.eqb_refl. reflexivity. }
  change (normalised E (ntr + nv) mi) with (vdivs mi (Fsqrt (dot (ntr + nv) mi mi))).
  change (normalised E (ntr + nv) mj) with (vdivs mj (Fsqrt (dot (ntr + nv) mj mj))).
  rewrite Ni, Nj, Hs.
  rewrite dot_vdivs_l.
  rewrite (dot_comm F F0 F1 Fadd Fmul Fsub Fopp Fdiv Finv Fth), dot_vdivs_l.
  rewrite (dot_comm F F0 F1 Fadd Fmul Fsub Fopp Fdiv Finv Fth).
  unfold mi, mj. rewrite (mode_gram ntr nv D Sbar i j HD Hi Hj), (HS i j Hi Hj).
  destruct (Nat.eqb i j); field; apply (F_1_neq_0 Fth).
Qed.

(* symmetrising twice = symmetrising once *)
Lemma symmetrise_idem (H : mat) r c : two <> 0 -> gen_symmetrise E (gen_symmetrise E H) r c = gen_symmetrise E H r c.
Proof.
  intros H2. apply symmetrise_fix; [exact H2|]. rewrite !symmetrise_entry. f_equal. ring.
Qed.

End Lem.

(* ================================================================================================ (c) *)
(* the eigenvalue -> wavenumber map at Qc; sqrt and pi are parameters *)
Local Open Scope Qc_scope.

Lemma Qcltb_lt a b : Qcltb a b = true <-> a < b.
Proof.
  unfold Qcltb, Qclt. rewrite negb_true_iff. split.
  - intros H. apply Qnot_le_lt. intros Hle. apply Qle_bool_iff in Hle. congruence.
  - intros H. destruct (Qle_bool b a) eqn:Eb; [|reflexivity].
    apply Qle_bool_iff in Eb. exfalso. apply (Qlt_not_le _ _ H). exact Eb.
Qed.

Lemma Qcnonneg_le x : Qcnonneg x = true <-> 0 <= x.
Proof. unfold Qcnonneg, Qcle. rewrite Qle_bool_iff. reflexivity. Qed.

Lemma Qc_eqb_eq a b : Qc_eqb a b = true <-> a = b.
Proof.
  unfold Qc_eqb. split.
  - intros H. apply Qeq_bool_eq in H. apply Qc_is_canon. exact H.
  - intros ->. apply Qeq_eq_bool. reflexivity.
Qed.

Lemma Qclt_irrefl' a : ~ a < a.
Proof. intros H. apply (Qclt_not_eq _ _ H). reflexivity. Qed.

Lemma Qcinv_pos' x : 0 < x -> 0 < / x.
Proof.
  intros Hx. destruct (Qclt_le_dec 0 (/ x)) as [H|H]; [exact H|exfalso].
  assert (Hne : x <> 0) by (intros Ex; subst x; apply (Qclt_irrefl' _ Hx)).
  assert (H1 : / x * x <= 0 * x) by (apply Qcmult_le_compat_r; [exact H|apply Qclt_le_weak; exact Hx]).
  rewrite Qcmult_inv_l in H1 by exact Hne. rewrite Qcmult_0_l in H1.
  apply (Qcle_not_lt _ _ H1). reflexivity.
Qed.

Lemma Qcmult_pos' a b : 0 < a -> 0 < b -> 0 < a * b.
Proof. intros Ha Hb. rewrite <- (Qcmult_0_l b). apply Qcmult_lt_compat_r; assumption. Qed.

Lemma Qcdiv_pos' a b : 0 < a -> 0 < b -> 0 < a / b.
Proof. intros Ha Hb. unfold Qcdiv. apply Qcmult_pos'; [exact Ha|apply Qcinv_pos'; exact Hb]. Qed.

Lemma Qcabs_nonneg_id y : 0 <= y -> Qcabs y = y.
Proof. intros H. unfold Qcabs. apply Qcnonneg_le in H. rewrite H. reflexivity. Qed.

Lemma Qcabs_ge0 y : 0 <= Qcabs y.
Proof.
  unfold Qcabs. destruct (Qcnonneg y) eqn:Ey; [apply Qcnonneg_le; exact Ey|].
  assert (Hy : y < 0). { apply Qcnot_le_lt. intros H. apply Qcnonneg_le in H. congruence. }
  apply Qclt_le_weak. apply Qclt_minus_iff in Hy. rewrite Qcplus_0_l in Hy. exact Hy.
Qed.

(* |r s| = |r| s for a non-negative factor s *)
Lemma Qcabs_scale r s : 0 <= s -> Qcabs (r * s) = Qcabs r * s.
Proof.
  intros Hs. unfold Qcabs.
  destruct (Qcnonneg r) eqn:Er; destruct (Qcnonneg (r * s)) eqn:Ers; try reflexivity.
  - exfalso. apply Qcnonneg_le in Er.
    assert (H : 0 * s <= r * s) by (apply Qcmult_le_compat_r; assumption).
    rewrite Qcmult_0_l in H. apply Qcnonneg_le in H. congruence.
  - assert (Hr : r <= 0).
    { apply Qclt_le_weak. apply Qcnot_le_lt. intros H. apply Qcnonneg_le in H. congruence. }
    assert (H : r * s <= 0 * s) by (apply Qcmult_le_compat_r; assumption).
    rewrite Qcmult_0_l in H. apply Qcnonneg_le in Ers.
    assert (H0 : r * s = 0) by (apply Qcle_antisym; assumption).
    replace (- r * s) with (- (r * s)) by ring. rewrite H0. reflexivity.
  - ring.
Qed.

Section Freq.
Variable sq : Qc -> Qc.
Variable pi : Qc.
Notation EQ := (envQ sq pi).

Ltac envq := cbn [envQ fF f0 f1 fadd fmul fsub fopp fdiv finv fltb feqb fsqrt fabs fpi].

(* the two branches of gen_freq, with the generated denominator K kept abstract *)
Lemma freq_cases scale lambda :
  exists K : Qc, (0 < pi -> 0 < K) /\
    freq sq pi scale lambda =
      (if Qcltb lambda 0 then - Qcabs (sq (- lambda) / K * scale) else sq lambda / K * scale) /\
    freq sq pi 1 lambda =
      (if Qcltb lambda 0 then - Qcabs (sq (- lambda) / K * 1) else sq lambda / K * 1).
Proof.
  unfold freq, gen_freq, ri_sqrt. envq.
  match goal with |- context [ri_div_real _ _ ?k] => set (K := k) end.
  exists K. split; [|split].
  - intros Hpi. unfold K. envq.
    repeat match goal with
           | |- 0 < Qcmult _ _ => apply Qcmult_pos'
           | |- 0 < pi => exact Hpi
           | |- 0 < cst _ _ _ => vm_compute; reflexivity
           end.
  - destruct (Qcltb lambda 0); cbn [ri_div_real ri_mul_real ri_iscomplex ri_abs ri_real]; envq; [|reflexivity].
    match goal with |- context [Qc_eqb ?y ?z] => destruct (Qc_eqb y z) eqn:Ey end; cbn [negb ri_real]; envq; [|reflexivity].
    apply Qc_eqb_eq in Ey. rewrite Ey. reflexivity.
  - destruct (Qcltb lambda 0); cbn [ri_div_real ri_mul_real ri_iscomplex ri_abs ri_real]; envq; [|reflexivity].
    match goal with |- context [Qc_eqb ?y ?z] => destruct (Qc_eqb y z) eqn:Ey end; cbn [negb ri_real]; envq; [|reflexivity].
    apply Qc_eqb_eq in Ey. rewrite Ey. reflexivity.
Qed.

End Freq.

(* frequencies_proj: list arithmetic *)
Lemma cst0_Qc sq pi : cst (envQ sq pi) 0 1 = 0.
Proof. exact (cst_0 Qc 0 1 Qcplus Qcmult Qcminus Qcopp Qcdiv Qcinv Qcft Qcltb Qc_eqb sq Qcabs pi). Qed.

Lemma n_tr_values n collinear :
  n_tr n collinear = (if are_linear n collinear then 5 else 6)%nat.
Proof. reflexivity. Qed.
