(* C11/Corr.v — helpers used only by the correspondence check (model vs implementation, harness/c11.py).
   The model is instantiated at Qc; floats of the implementation arrive as exact rationals. *)
From Coq Require Import Arith List Bool ZArith QArith Qcanon String.
From AV.lib Require Import Sums QcInst.
From AV.C06 Require Base.
From AV.gen Require Import C06_Gen.
From AV.C11 Require Import Base Model Units.
From AV.gen Require Import C11_Gen.
Import ListNotations.
Local Open Scope nat_scope.

Definition q0 : Qc := Q2Qc 0.
Definition tol : Qc := qc 1 1000000000.          (* 1e-9 relative *)

(* sqrt as a finite table (the implementation's np.sqrt values at the arguments that occur) *)
Fixpoint tab_lookup (t : list (Qc * Qc)) (x : Qc) : Qc :=
  match t with [] => q0 | (k, v) :: r => if Qc_eqb k x then v else tab_lookup r x end.
Definition envT (t : list (Qc * Qc)) (pi : Qc) : fenv := envQ (tab_lookup t) pi.
Definition EQ0 : fenv := envQ (fun x => x) q0.   (* for the parts that use neither sqrt nor pi *)

Fixpoint list_eqb_nat (a b : list nat) : bool :=
  match a, b with
  | [], [] => true
  | x :: a', y :: b' => Nat.eqb x y && list_eqb_nat a' b'
  | _, _ => false
  end.

(* ---- mock gradient methods: g_j(x) = sum_k A_jk x_k + c_j x_j x_((j+1) mod d) + q_j x_j^2 ---- *)
Record mock := mkMock { mA : list (list Qc); mc : list Qc; mq : list Qc }.
Definition mock_grad (tabs : list mock) (d : nat) (m : nat) (x : nat -> Qc) : nat -> Qc :=
  let M := nth m tabs (mkMock [] [] []) in
  let A := mat_of_list (mA M) in
  let c := vec_of_list (mc M) in
  let q := vec_of_list (mq M) in
  fun j => (sum Qc q0 Qcplus d (fun k => (A j k * x k)%Qc) + c j * x j * x ((j + 1) mod d) + q j * x j * x j)%Qc.

Definition st_close (d : nat) (s : st EQ0) (calc : list nat) (raw : list (list Qc)) : bool :=
  list_eqb_nat (calc_rows EQ0 s) calc && closeM tol (list_of_mat d (hess EQ0 s)) raw.

(* one calculate() call from a given starting state (fresh: calc0 = [], H0 = zeros), then `.hessian`;
   [impl] = the (calculated_rows, raw matrix, symmetrised matrix) observed for each core count / branch *)
Definition check_calc (n : nat) (cdiff : bool) (tabs : list mock) (m : nat) (x : list Qc) (h : Qc)
                      (calc0 : list nat) (H0 : list (list Qc))
                      (impl : list (list nat * list (list Qc) * list (list Qc))) : bool :=
  let d := 3 * n in
  let g := mock_grad tabs d in
  let s0 := mkSt EQ0 calc0 (mat_of_list H0) in
  let sp := calculate_parallel EQ0 nat g cdiff m (vec_of_list x) h n s0 in
  let ss := calculate_serial EQ0 nat g cdiff m (vec_of_list x) h n s0 in
  let rawp := list_of_mat d (hess EQ0 sp) in
  let sym := list_of_mat d (hess EQ0 (hessian_prop EQ0 (mkSt EQ0 [] (mat_of_list rawp)))) in
  closeM tol (list_of_mat d (hess EQ0 ss)) rawp && list_eqb_nat (calc_rows EQ0 ss) (calc_rows EQ0 sp) &&
  forallb (fun e => let '(calc, raw, symi) := e in
                    list_eqb_nat (calc_rows EQ0 sp) calc && closeM tol rawp raw && closeM tol sym symi) impl.

(* HybridHessianCalculator: expected None = ValueError *)
Definition check_hybrid (n : nat) (tabs : list mock) (x : list Qc) (h : Qc) (hidxs : list nat)
                        (impl : list (option (list nat * list (list Qc) * list (list Qc)))) : bool :=
  let d := 3 * n in
  let g := mock_grad tabs d in
  match hybrid_calculate EQ0 nat (calculate_parallel EQ0 nat g) 0 1 (vec_of_list x) h n hidxs with
  | ValueError _ => forallb (fun e => match e with None => true | Some _ => false end) impl
  | Ok _ s2 =>
      let raw2 := list_of_mat d (hess EQ0 s2) in
      let sym := list_of_mat d (hess EQ0 (hessian_prop EQ0 (mkSt EQ0 [] (mat_of_list raw2)))) in
      forallb (fun e => match e with
                        | None => false
                        | Some (calc, raw, symi) =>
                            list_eqb_nat (calc_rows EQ0 s2) calc && closeM tol raw2 raw && closeM tol sym symi
                        end) impl
  end.

(* _tr_vecs: the six vectors for given axes (read back from t1..t3 of the implementation) *)
Definition check_tr_vecs (n : nat) (masses X ex ey ez : list Qc) (impl : list (list Qc)) : bool :=
  let vs := tr_vecs EQ0 n (vec_of_list masses) (vec_of_list X) (vec_of_list ex) (vec_of_list ey) (vec_of_list ez) in
  closeM tol (map (list_of_vec (3 * n)) vs) impl.

(* n_tr / n_v *)
Definition check_ntr (n : nat) (collinear : bool) (ntr : nat) (nv : Z) : bool :=
  Nat.eqb (n_tr n collinear) ntr && Z.eqb (n_v n collinear) nv.

(* _eigenvalues_to_freqs and frequencies_proj; sqrt table = np.sqrt(|lambda|) of the implementation *)
Definition check_freqs (sqt : list (Qc * Qc)) (pi scale : Qc) (lambdas expect : list Qc) : bool :=
  closeL tol (map (freq (tab_lookup sqt) pi scale) lambdas) expect.
Definition check_freqs_proj (sqt : list (Qc * Qc)) (pi : Qc) (config functional : option Qc)
                            (n : nat) (collinear : bool) (lambdas expect : list Qc) : bool :=
  let E := envT sqt pi in
  closeL tol (frequencies_proj (tab_lookup sqt) pi (gen_scale E config functional) n collinear lambdas) expect.

(* _mass_weighted: H stored in unit [un] of the Hessian class, masses in amu; sqrt table built at the
   arguments the model itself produces, values = np.sqrt of the implementation at position (i, j) *)
Fixpoint lookup_class (k : string) (l : list (string * list AV.C06.Base.unit)) : list AV.C06.Base.unit :=
  match l with [] => [] | (k', v) :: r => if String.eqb k k' then v else lookup_class k r end.
Definition unit0 : AV.C06.Base.unit := AV.C06.Base.mkUnit "" [] q0 q0.
Definition unit_named (k nm : string) : AV.C06.Base.unit :=
  match find (fun u => String.eqb (AV.C06.Base.uname u) nm) (lookup_class k classes) with Some u => u | None => unit0 end.
Definition unit_alias (k al : string) : AV.C06.Base.unit :=
  match find_unit (lookup_class k classes) al with Some u => u | None => unit0 end.

Definition check_mass_weighted (n : nat) (un : string) (H : list (list Qc)) (masses_amu : list Qc)
                               (sqv : list (list Qc)) (expect : list (list Qc)) : bool :=
  let d := 3 * n in
  let u := unit_named "Hessian" un in
  let j := unit_alias "Hessian" gen_mw_hessian_unit in
  let amu := unit_named "Mass" "amu" in
  let kg := unit_alias "Mass" gen_mw_mass_unit in
  let conv_h := fun x => conv x u j in
  let conv_m := fun x => conv x amu kg in
  let m := vec_of_list masses_amu in
  let mk := vtab n (fun i => conv_m (m i)) in
  let sqt := flat_map (fun i => map (fun jx => let a := mk (i / gen_mw_repeats) in let b := mk (jx / gen_mw_repeats) in
                                               (Qcmult a b, nth jx (nth i sqv []) q0)) (seq 0 d)) (seq 0 d) in
  negb (String.eqb (AV.C06.Base.uname j) "") && negb (String.eqb (AV.C06.Base.uname kg) "") &&
  negb (String.eqb (AV.C06.Base.uname u) "") &&
  closeM tol (list_of_mat d (mass_weighted (envT sqt q0) conv_h conv_m (mat_of_list H) m)) expect.

(* normal_modes_proj: D = _proj_matrix and S_bar = eigh eigenvectors of the implementation (oracles); the norms
   np.linalg.norm(mode) of the implementation serve as the sqrt table at the arguments the model produces *)
Definition check_modes (d ntr : nat) (D Sbar : list (list Qc)) (norms : list Qc) (expect : list (list Qc)) : bool :=
  let Dm := mat_of_list D in
  let Sm := mat_of_list Sbar in
  let raw := fun i => vtab d (mode_raw EQ0 d ntr Dm Sm i) in
  let sqt := map (fun i => (dot Qc q0 Qcplus Qcmult d (raw i) (raw i), nth i norms q0)) (seq 0 d) in
  let ET := envT sqt q0 in
  closeM tol (map (fun i => list_of_vec d (mode ET d ntr Dm Sm i)) (seq 0 d)) expect.

(* _proj_matrix: the first three columns of D are (up to sign) the normalised mass-weighted translation vectors;
   sqm = np.sqrt(mass_i), nrm = np.linalg.norm of the three mass-weighted vectors *)
Definition close_pm (a b : list Qc) : bool := closeL tol a b || closeL tol (map Qcopp a) b.
Definition check_proj_cols (n : nat) (masses sqm ex ey ez nrm : list Qc) (cols : list (list Qc)) : bool :=
  let d := 3 * n in
  let m := vec_of_list masses in
  let t0 := envT (combine masses sqm) q0 in
  let mw := fun e => vtab d (mw_vec t0 m (tile t0 (vec_of_list e))) in
  let es := [ex; ey; ez] in
  let sqt := app (combine masses sqm) (map (fun k => (dot Qc q0 Qcplus Qcmult d (mw (nth k es [])) (mw (nth k es [])), nth k nrm q0)) (seq 0 3)) in
  let ET := envT sqt q0 in
  forallb (fun k => close_pm (list_of_vec d (normalised ET d (mw_vec ET m (tile ET (vec_of_list (nth k es [])))))) (nth k cols []))
          (seq 0 3).

(* two successive accesses of frequencies_proj on ONE object while Config.freq_scale_factor goes from s1 to s2 *)
Definition check_twice (sqt : list (Qc * Qc)) (pi s1 s2 : Qc) (n : nat) (collinear : bool)
                       (lambdas r1 r2 : list Qc) : bool :=
  let '(m1, m2) := freqs_twice (tab_lookup sqt) pi s1 s2 n collinear lambdas in
  closeL tol m1 r1 && closeL tol m2 r2.
