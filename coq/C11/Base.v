(* C11/Base.v — vocabulary the generated file gen/C11_Gen.v is written in (definitions only).

   [fenv]       the arithmetic environment generated terms are parameterised over: an arbitrary
                field plus the numerics that are ORACLES for this property (order test, equality
                test, np.sqrt, np.abs, the constant pi).
   [cst E z d]  the decimal literal z/d of the Python source, built from 0, 1, +, *, -, /.
   [ri]         the np.complex128 values that occur in Hessian._eigenvalues_to_freqs
                (autode/hessians.py): the square root of a REAL number is either purely real
                (x + 0j) or purely imaginary (0 + yj); division / multiplication by a real keeps
                that shape.  np.iscomplex(z) is "imaginary part is non-zero", np.abs(0 + yj) = |y|,
                np.real(x + 0j) = x. *)
From Coq Require Import ZArith List Bool Field_theory.
From AV.lib Require Import Sums.

Record fenv : Type := mkFenv {
  fF : Type;
  f0 : fF; f1 : fF;
  fadd : fF -> fF -> fF; fmul : fF -> fF -> fF; fsub : fF -> fF -> fF; fopp : fF -> fF;
  fdiv : fF -> fF -> fF; finv : fF -> fF;
  fltb : fF -> fF -> bool;        (* a < b   (float comparison)   *)
  feqb : fF -> fF -> bool;        (* a == b                        *)
  fsqrt : fF -> fF;               (* np.sqrt on non-negative reals *)
  fabs : fF -> fF;                (* np.abs                        *)
  fpi : fF                        (* np.pi                         *)
}.

Notation is_field E :=
  (field_theory (f0 E) (f1 E) (fadd E) (fmul E) (fsub E) (fopp E) (fdiv E) (finv E) (@eq (fF E))).

Notation Vec E := (nat -> fF E).
Notation Mat E := (nat -> nat -> fF E).
Notation Sum E := (sum (fF E) (f0 E) (fadd E)).
Notation Dot E := (dot (fF E) (f0 E) (fadd E) (fmul E)).
Notation Vadd E := (vadd (fF E) (fadd E)).
Notation Vsub E := (vsub (fF E) (fsub E)).
Notation Vscal E := (vscal (fF E) (fmul E)).
Notation Vdivs E := (vdivs (fF E) (fdiv E)).
Notation Madd E := (madd (fF E) (fadd E)).
Notation Msub E := (msub (fF E) (fsub E)).
Notation Mscal E := (mscal (fF E) (fmul E)).
Notation Mdivs E := (mdivs (fF E) (fdiv E)).
Notation Transpose E := (transpose (fF E)).
Notation Matvec E := (matvec (fF E) (f0 E) (fadd E) (fmul E)).
Notation Symmetric E := (symmetric (fF E)).

Section Base.
Variable E : fenv.

Fixpoint ofPos (p : positive) : fF E :=
  match p with
  | xH => f1 E
  | xO q => fmul E (fadd E (f1 E) (f1 E)) (ofPos q)
  | xI q => fadd E (f1 E) (fmul E (fadd E (f1 E) (f1 E)) (ofPos q))
  end.
Definition ofZ (z : Z) : fF E :=
  match z with Z0 => f0 E | Zpos p => ofPos p | Zneg p => fopp E (ofPos p) end.
Definition cst (z : Z) (d : positive) : fF E := fdiv E (ofZ z) (ofPos d).

Inductive ri : Type := Re (x : fF E) | Im (y : fF E).

(* np.sqrt(np.complex128(l)) for real l: sqrt(l) if not l < 0, i*sqrt(-l) if l < 0 *)
Definition ri_sqrt (l : fF E) : ri :=
  if fltb E l (f0 E) then Im (fsqrt E (fopp E l)) else Re (fsqrt E l).
Definition ri_div_real (z : ri) (k : fF E) : ri :=
  match z with Re x => Re (fdiv E x k) | Im y => Im (fdiv E y k) end.
Definition ri_mul_real (z : ri) (s : fF E) : ri :=
  match z with Re x => Re (fmul E x s) | Im y => Im (fmul E y s) end.
Definition ri_iscomplex (z : ri) : bool :=
  match z with Re _ => false | Im y => negb (feqb E y (f0 E)) end.
Definition ri_abs (z : ri) : fF E := match z with Re x => fabs E x | Im y => fabs E y end.
Definition ri_real (z : ri) : fF E := match z with Re x => x | Im _ => f0 E end.
End Base.
