(* C11/Props.v — the property theorems.  Every `gen_*` definition is GENERATED from autode/hessians.py on
   every run (gen/C11_Gen.v); `conv` / `classes` from autode/values.py, units.py (gen/C06_Gen.v).
   Theorems over a field hold for EVERY field, every gradient oracle, every atom count n.

   Claimed partial (see harness/c11.py MANIFEST): that the EIGENVALUES of the mass-weighted projected
   Hessian are unchanged by a common rotation / translation / relabelling is a similarity-transform
   fact about an oracle (numpy eigh / qr); it is observed by the implementation oracles, not proved. *)
From Coq Require Import Arith Lia List Bool ZArith QArith Qcanon Field Permutation String.
From AV.lib Require Import Sums QcInst.
From AV.gen Require Import C06_Gen.
From AV.C11 Require Import Base Model Lemmas Units.
Local Open Scope string_scope.
From AV.gen Require Import C11_Gen.
Import ListNotations.
Local Open Scope nat_scope.

Section Field.
Variable F : Type.
Variables (F0 F1 : F) (Fadd Fmul Fsub : F -> F -> F) (Fopp : F -> F) (Fdiv : F -> F -> F) (Finv : F -> F).
Hypothesis Fth : field_theory F0 F1 Fadd Fmul Fsub Fopp Fdiv Finv (@eq F).
Variables (Fltb Feqb : F -> F -> bool) (Fsqrt Fabs : F -> F) (Fpi : F).
Let E : fenv := mkFenv F F0 F1 Fadd Fmul Fsub Fopp Fdiv Finv Fltb Feqb Fsqrt Fabs Fpi.
Variable Meth : Type.
Variable grad : Meth -> (nat -> F) -> (nat -> F).

Local Notation TWO := (TWO E).
Local Notation forward_fd := (forward_fd E Meth grad).
Local Notation fd := (fd E Meth grad).
Local Notation orthonormal := (orthonormal E).

(* A numerically differentiated Hessian is symmetric: for any atom count, any gradient oracle, either
   difference scheme, serial or process-pool evaluation, any starting contents.  (This is a consequence of
   the symmetrising `hessian` property alone: it holds for ANY contents of the raw matrix.)  Reading the
   property again returns the same matrix (the in-place symmetrisation is idempotent; needs 2 <> 0). *)
Theorem numhess_symmetric :
  forall cdiff m x h n (s : st E),
    symmetric F (3 * n) (hess E (hessian_prop E (calculate_serial E Meth grad cdiff m x h n s))) /\
    symmetric F (3 * n) (hess E (hessian_prop E (calculate_parallel E Meth grad cdiff m x h n s))) /\
    (TWO <> F0 -> forall r c, hess E (hessian_prop E (hessian_prop E s)) r c = hess E (hessian_prop E s) r c).
Proof.
  intros. split; [|split]; try apply (symmetrise_symmetric F F0 F1 Fadd Fmul Fsub Fopp Fdiv Finv Fth).
  intros H2 r c. apply (symmetrise_idem F F0 F1 Fadd Fmul Fsub Fopp Fdiv Finv Fth). exact H2.
Qed.

(* After calculate() on a fresh calculator every row 3i+k holds the finite difference of the gradient
   for atom i, component k (forward and central), every row index is recorded (right after it was stored) exactly once — for the
   serial loop, for the process pool, and for ANY order in which the rows are handed back
   (any split over workers): the result does not depend on it. *)
Theorem numhess_rows_complete :
  forall (collect : list (nat * (nat -> F)) -> list (nat * (nat -> F))),
  (forall l, Permutation l (collect l)) ->
  forall cdiff m x h n (H0 : nat -> nat -> F),
  let ser := calculate_serial E Meth grad cdiff m x h n (mkSt E [] H0) in
  let par := calculate_parallel E Meth grad cdiff m x h n (mkSt E [] H0) in
  let any := calculate_gen E Meth grad gen_row_parallel collect cdiff m x h n (mkSt E [] H0) in
  calc_rows E ser = seq 0 (3 * n) /\ calc_rows E par = seq 0 (3 * n) /\ Permutation (calc_rows E any) (seq 0 (3 * n)) /\
  forall i k j, i < n -> k < 3 ->
    hess E ser (3 * i + k) j = fd cdiff m x h i k j /\
    hess E par (3 * i + k) j = fd cdiff m x h i k j /\
    hess E any (3 * i + k) j = fd cdiff m x h i k j.
Proof.
  intros collect Hc cdiff m x h n H0 ser par any.
  assert (Hid : forall l : list (nat * (nat -> F)), Permutation l ((fun l => l) l)) by (intros; apply Permutation_refl).
  assert (R1 : forall r, gen_row_serial (gen_atom_idx r) (gen_component r) = r)
    by (intros; rewrite row_serial_flat; apply flat_of_row).
  assert (R2 : forall r, gen_row_parallel (gen_atom_idx r) (gen_component r) = r)
    by (intros; rewrite row_parallel_flat; apply flat_of_row).
  assert (Idl : forall l : list (nat * (nat -> F)), (fun l => l) l = l) by reflexivity.
  destruct (rows_complete F F0 F1 Fadd Fmul Fsub Fopp Fdiv Finv Fltb Feqb Fsqrt Fabs Fpi Meth grad
              gen_row_serial R1 (fun l => l) Hid cdiff m x h n H0) as [_ [C1 H1]].
  destruct (rows_complete F F0 F1 Fadd Fmul Fsub Fopp Fdiv Finv Fltb Feqb Fsqrt Fabs Fpi Meth grad
              gen_row_parallel R2 (fun l => l) Hid cdiff m x h n H0) as [_ [C2 H2]].
  destruct (rows_complete F F0 F1 Fadd Fmul Fsub Fopp Fdiv Finv Fltb Feqb Fsqrt Fabs Fpi Meth grad
              gen_row_parallel R2 collect Hc cdiff m x h n H0) as [C3 [_ H3]].
  pose proof (calculate_serial_eq F F0 F1 Fadd Fmul Fsub Fopp Fdiv Finv Fltb Feqb Fsqrt Fabs Fpi Meth grad
                cdiff m x h n (mkSt E [] H0)) as Eser.
  unfold ser. split; [etransitivity; [exact (f_equal (calc_rows E) Eser)|exact (C1 Idl)]|].
  split; [exact (C2 Idl)|]. split; [exact C3|].
  intros i k j Hi Hk.
  pose proof (H1 i k j Hi Hk) as P1. pose proof (H2 i k j Hi Hk) as P2. pose proof (H3 i k j Hi Hk) as P3.
  unfold flat in P1, P2, P3.
  split; [|split].
  - etransitivity; [exact (f_equal (fun s => hess E s (3 * i + k) j) Eser)|].
    etransitivity; [exact P1|destruct cdiff; reflexivity].
  - etransitivity; [exact P2|destruct cdiff; reflexivity].
  - etransitivity; [exact P3|destruct cdiff; reflexivity].
Qed.

(* Two-level mode, before symmetrisation: raw row r comes from the high-level method iff its atom r/3 was
   requested and from the low-level method otherwise; every row is recorded; an index outside the species
   is an error.  (hidxs is the iteration order of the set of requested atoms: any order.) *)
Theorem hybrid_rows_exact :
  forall lm hm x h n hidxs, NoDup hidxs ->
  (forall a, In a hidxs -> a < n) ->
  (exists s2, hybrid_calculate E Meth (calculate_serial E Meth grad) lm hm x h n hidxs = Ok E s2 /\
     (forall r j, r < 3 * n ->
        hess E s2 r j = if mem (r / 3) hidxs then forward_fd hm x h (r / 3) (r mod 3) j
                        else forward_fd lm x h (r / 3) (r mod 3) j) /\
     (forall r, In r (calc_rows E s2) <-> r < 3 * n)) /\
  (exists s2, hybrid_calculate E Meth (calculate_parallel E Meth grad) lm hm x h n hidxs = Ok E s2 /\
     (forall r j, r < 3 * n ->
        hess E s2 r j = if mem (r / 3) hidxs then forward_fd hm x h (r / 3) (r mod 3) j
                        else forward_fd lm x h (r / 3) (r mod 3) j) /\
     (forall r, In r (calc_rows E s2) <-> r < 3 * n)).
Proof.
  intros lm hm x h n hidxs Hnd Hlt.
  assert (Hid : forall l : list (nat * (nat -> F)), Permutation l ((fun l => l) l)) by (intros; apply Permutation_refl).
  assert (Idl : forall l : list (nat * (nat -> F)), (fun l => l) l = l) by reflexivity.
  assert (R1 : forall r, gen_row_serial (gen_atom_idx r) (gen_component r) = r)
    by (intros; rewrite row_serial_flat; apply flat_of_row).
  assert (R2 : forall r, gen_row_parallel (gen_atom_idx r) (gen_component r) = r)
    by (intros; rewrite row_parallel_flat; apply flat_of_row).
  split.
  - destruct (hybrid_spec F F0 F1 Fadd Fmul Fsub Fopp Fdiv Finv Fltb Feqb Fsqrt Fabs Fpi Meth grad
                gen_row_serial R1 (fun l => l) Hid lm hm x h n hidxs Idl Hnd Hlt) as [s2 [Hs [Hr Hc]]].
    exists s2. split.
    + etransitivity; [|exact Hs].
      apply (hybrid_ext F F0 F1 Fadd Fmul Fsub Fopp Fdiv Finv Fltb Feqb Fsqrt Fabs Fpi Meth).
      intros. apply (calculate_serial_eq F F0 F1 Fadd Fmul Fsub Fopp Fdiv Finv Fltb Feqb Fsqrt Fabs Fpi Meth grad).
    + split; [|exact Hc].
      intros r j Hrn. etransitivity; [exact (Hr r j Hrn)|].
      unfold gen_atom_idx, gen_component. destruct (mem (r / 3) hidxs); reflexivity.
  - destruct (hybrid_spec F F0 F1 Fadd Fmul Fsub Fopp Fdiv Finv Fltb Feqb Fsqrt Fabs Fpi Meth grad
                gen_row_parallel R2 (fun l => l) Hid lm hm x h n hidxs Idl Hnd Hlt) as [s2 [Hs [Hr Hc]]].
    exists s2. split; [exact Hs|]. split; [|exact Hc].
    intros r j Hrn. etransitivity; [exact (Hr r j Hrn)|].
    unfold gen_atom_idx, gen_component. destruct (mem (r / 3) hidxs); reflexivity.
Qed.

Theorem hybrid_index_outside_species_rejected :
  forall lm hm x h n hidxs a, In a hidxs -> n <= a ->
    hybrid_calculate E Meth (calculate_parallel E Meth grad) lm hm x h n hidxs = ValueError E.
Proof. intros. eapply hybrid_invalid; eassumption. Qed.

(* The honest statement about the matrix the `hessian` property returns: entry (r,c) is the mean of raw
   (r,c) and raw (c,r).  Hence: both atoms requested -> symmetrised high-level differences; neither ->
   symmetrised low-level differences; exactly one requested -> the MEAN of a high-level and a low-level
   difference (not the high-level value: see hybrid_columns_high_level_refuted below). *)
Theorem hybrid_symmetrised_entries :
  forall lm hm x h n hidxs, NoDup hidxs -> (forall a, In a hidxs -> a < n) ->
  exists s2, hybrid_calculate E Meth (calculate_parallel E Meth grad) lm hm x h n hidxs = Ok E s2 /\
    forall r c, r < 3 * n -> c < 3 * n ->
      let lvl := fun q => if mem (q / 3) hidxs then hm else lm in
      hess E (hessian_prop E s2) r c =
        Fdiv (Fadd (forward_fd (lvl r) x h (r / 3) (r mod 3) c) (forward_fd (lvl c) x h (c / 3) (c mod 3) r)) TWO.
Proof.
  intros lm hm x h n hidxs Hnd Hlt.
  destruct (hybrid_rows_exact lm hm x h n hidxs Hnd Hlt) as [_ [s2 [Hs [Hr _]]]].
  exists s2. split; [exact Hs|]. intros r c Hrn Hcn lvl. unfold hessian_prop. cbn [hess].
  etransitivity; [apply (symmetrise_entry F F0 F1 Fadd Fmul Fsub Fopp Fdiv Finv Fltb Feqb Fsqrt Fabs Fpi)|].
  rewrite (Hr r c Hrn), (Hr c r Hcn). unfold lvl.
  destruct (mem (r / 3) hidxs); destruct (mem (c / 3) hidxs); reflexivity.
Qed.

(* Translation vectors are mutually orthogonal and orthogonal to every rotation vector in the mass-weighted
   inner product, for any atom count, any geometry, any masses with non-zero total, any orthogonal axes
   (the eigh / qr output), because sum_i m_i (r_i - com) = 0; the statement is about the vectors
   _proj_matrix builds: M^1/2 t divided by its norm (c1, c2: any non-zero numbers). *)
Theorem tr_vectors_mass_orthogonal :
  forall n (m : nat -> F) (X ex ey ez : nat -> F) c1 c2,
  (forall i, i < n -> Fmul (Fsqrt (m i)) (Fsqrt (m i)) = m i) ->
  total_mass E n m <> F0 -> c1 <> F0 -> c2 <> F0 ->
  dot3 E ex ey = F0 -> dot3 E ex ez = F0 -> dot3 E ey ez = F0 ->
  let w := fun t c => vdivs F Fdiv (mw_vec E m t) c in
  let D := dot F F0 Fadd Fmul (3 * n) in
  D (w (tile E ex) c1) (w (tile E ey) c2) = F0 /\
  D (w (tile E ex) c1) (w (tile E ez) c2) = F0 /\
  D (w (tile E ey) c1) (w (tile E ez) c2) = F0 /\
  forall a e, In a [ex; ey; ez] -> In e [ex; ey; ez] ->
    D (w (tile E a) c1) (w (rot_vec E n m X e) c2) = F0.
Proof.
  intros n m X ex ey ez c1 c2 Hsq HM H1 H2 Hxy Hxz Hyz w D.
  pose proof (mul_nonzero F F0 F1 Fadd Fmul Fsub Fopp Fdiv Finv Fth c1 c2 H1 H2) as Hne.
  pose proof (zero_div F F0 F1 Fadd Fmul Fsub Fopp Fdiv Finv Fth _ Hne) as Hz.
  unfold D, w, E in *. cbn [fF f0 f1 fadd fmul fsub fopp fdiv fsqrt] in *.
  rewrite !(dot_mw F F0 F1 Fadd Fmul Fsub Fopp Fdiv Finv Fth Fltb Feqb Fsqrt Fabs Fpi) by assumption.
  rewrite !(trans_trans F F0 F1 Fadd Fmul Fsub Fopp Fdiv Finv Fth Fltb Feqb Fsqrt Fabs Fpi).
  rewrite Hxy, Hxz, Hyz.
  rewrite !(mul_zero_r F F0 F1 Fadd Fmul Fsub Fopp Fdiv Finv Fth), Hz. repeat split.
  intros a e _ _.
  rewrite (dot_mw F F0 F1 Fadd Fmul Fsub Fopp Fdiv Finv Fth Fltb Feqb Fsqrt Fabs Fpi) by assumption.
  rewrite (trans_rot F F0 F1 Fadd Fmul Fsub Fopp Fdiv Finv Fth Fltb Feqb Fsqrt Fabs Fpi) by exact HM.
  exact Hz.
Qed.

(* Projected normal modes as RETURNED by normal_modes_proj (normalised), given what qr and eigh return
   (D and S_bar have orthonormal columns; sqrt 1 = 1):
   (1) the first n_tr modes are identically zero;
   (2) NO NET TRANSLATION OR ROTATION: every returned mode is orthogonal to every vector w lying in the span of the
       first n_tr columns of D - in particular to each normalised mass-weighted translation / rotation vector
       M^1/2 t / |M^1/2 t| of _tr_vecs, PROVIDED qr put it into that span (the premise `in the span` is the defining
       property of a QR factorisation of a matrix whose first columns are those vectors and have rank n_tr; it is an
       oracle premise, checked numerically by the implementation oracles, and it is where a wrong n_tr would show);
   (3) the returned vibrational modes are orthonormal. *)
Theorem modes_orthonormal_no_net_tr :
  forall ntr nv (D Sbar : nat -> nat -> F),
  orthonormal (ntr + nv) D -> orthonormal nv Sbar -> Fsqrt F1 = F1 ->
  let d := ntr + nv in
  (forall i r, i < ntr -> mode E d ntr D Sbar i r = F0) /\
  (forall (w : nat -> F) (c : nat -> F),
     (forall r, r < d -> w r = sum F F0 Fadd ntr (fun a => Fmul (c a) (D r a))) ->
     forall i, dot F F0 Fadd Fmul d (mode E d ntr D Sbar i) w = F0) /\
  (forall n (m : nat -> F) (X ex ey ez t : nat -> F) (c : nat -> F), d = 3 * n ->
     In t (tr_vecs E n m X ex ey ez) ->
     (forall r, r < d -> normalised E d (mw_vec E m t) r = sum F F0 Fadd ntr (fun a => Fmul (c a) (D r a))) ->
     forall i, dot F F0 Fadd Fmul d (mode E d ntr D Sbar i) (normalised E d (mw_vec E m t)) = F0) /\
  (forall i j, i < nv -> j < nv ->
     dot F F0 Fadd Fmul d (mode E d ntr D Sbar (ntr + i)) (mode E d ntr D Sbar (ntr + j))
     = if Nat.eqb i j then F1 else F0).
Proof.
  intros ntr nv D Sbar HD HS Hs d. split; [|split; [|split]].
  - intros i r Hi. apply (mode_tr_zero F F0 F1 Fadd Fmul Fsub Fopp Fdiv Finv Fth). exact Hi.
  - intros w c Hw i.
    apply (mode_orth_span F F0 F1 Fadd Fmul Fsub Fopp Fdiv Finv Fth Fltb Feqb Fsqrt Fabs Fpi d ntr D Sbar i w c);
      [exact HD|unfold d; lia|exact Hw].
  - intros n m X ex ey ez t c _ _ Hw i.
    apply (mode_orth_span F F0 F1 Fadd Fmul Fsub Fopp Fdiv Finv Fth Fltb Feqb Fsqrt Fabs Fpi d ntr D Sbar i _ c);
      [exact HD|unfold d; lia|exact Hw].
  - intros i j Hi Hj. unfold d.
    apply (mode_gram_normalised F F0 F1 Fadd Fmul Fsub Fopp Fdiv Finv Fth Fltb Feqb Fsqrt Fabs Fpi); assumption.
Qed.

End Field.

(* ------------------------------------------------------------------------------------------------ *)
Local Open Scope Qc_scope.

(* In two-level mode the COLUMNS of a requested atom do not hold the high-level values: the faithful model
   of the code violates "holds the high-level values in exactly the rows and columns of the requested
   atoms" (finding HybridHessianCalculator|columns-averaged).  Witness: 2 atoms, atom 0 requested, the
   high-level gradient couples coordinates 0 and 3 (d g_3 / d x_0 = 1), the low-level gradient is zero:
   row 0 is the high-level difference (entry (0,3) = 1) but the returned matrix has (3,0) = (0,3) = 1/2. *)
Theorem hybrid_columns_high_level_refuted :
  let EQ := envQ (fun x => x) 0 in
  exists s2,
    hybrid_calculate EQ bool (calculate_parallel EQ bool witness_grad) false true (fun _ => 0) 1 2 [0%nat] = Ok EQ s2 /\
    mem (0 / 3) [0%nat] = true /\ mem (3 / 3) [0%nat] = false /\
    (* raw row 0 (requested atom) holds the high-level value 1 in column 3 *)
    hess EQ s2 0%nat 3%nat = 1 /\
    (* ... but in the returned matrix column 0 (and row 0) at atom 1 hold 1/2 *)
    hess EQ (hessian_prop EQ s2) 3%nat 0%nat = Q2Qc (1 # 2) /\
    hess EQ (hessian_prop EQ s2) 0%nat 3%nat = Q2Qc (1 # 2) /\
    Q2Qc (1 # 2) <> 1.
Proof.
  intros EQ. eexists. split; [reflexivity|].
  repeat split; try (vm_compute; reflexivity).
  intros H. discriminate H.
Qed.

(* Frequency map: a negative eigenvalue gives a non-positive frequency (strictly negative when sqrt and
   the scale factor are positive); a non-negative one a non-negative frequency; the scale factor
   (Config.freq_scale_factor is validated to lie in (0,1]) multiplies every frequency. *)
Theorem freq_sign_and_scale :
  forall (sq : Qc -> Qc) (pi scale lambda : Qc),
  (lambda < 0 -> freq sq pi scale lambda <= 0) /\
  (0 < pi -> (forall y, 0 < y -> 0 < sq y) -> 0 < scale -> lambda < 0 -> freq sq pi scale lambda < 0) /\
  (0 < pi -> (forall y, 0 < y -> 0 < sq y) -> 0 < scale -> 0 < lambda -> 0 < freq sq pi scale lambda) /\
  (0 <= scale -> freq sq pi scale lambda = scale * freq sq pi 1 lambda).
Proof.
  intros sq pi scale lambda.
  destruct (freq_cases sq pi scale lambda) as [K [HK [Hf H1]]].
  split; [|split; [|split]].
  - intros Hl. apply Qcltb_lt in Hl. rewrite Hf, Hl.
    apply Qcopp_le_compat with (p := 0) (q := Qcabs (sq (- lambda) / K * scale)). apply Qcabs_ge0.
  - intros Hpi Hsq Hs Hl. pose proof (HK Hpi) as HKp.
    assert (Hy : 0 < sq (- lambda) / K * scale).
    { apply Qcmult_pos'; [apply Qcdiv_pos'; [apply Hsq|exact HKp]|exact Hs].
      apply Qclt_minus_iff in Hl. rewrite Qcplus_0_l in Hl. exact Hl. }
    apply Qcltb_lt in Hl. rewrite Hf, Hl. rewrite Qcabs_nonneg_id by (apply Qclt_le_weak; exact Hy).
    apply Qclt_minus_iff. rewrite Qcplus_0_l, Qcopp_involutive. exact Hy.
  - intros Hpi Hsq Hs Hl. pose proof (HK Hpi) as HKp.
    assert (Hnl : Qcltb lambda 0 = false).
    { destruct (Qcltb lambda 0) eqn:El; [|reflexivity]. apply Qcltb_lt in El. exfalso.
      apply (Qclt_irrefl' 0). exact (Qclt_trans _ _ _ Hl El). }
    rewrite Hf, Hnl. apply Qcmult_pos'; [apply Qcdiv_pos'; [apply Hsq; exact Hl|exact HKp]|exact Hs].
  - intros Hs. rewrite Hf, H1. destruct (Qcltb lambda 0).
    + rewrite (Qcabs_scale _ _ Hs). rewrite Qcmult_1_r. ring.
    + ring.
Qed.

(* Unit independence, as far as it is algebra: (i) the unit strings written in _mass_weighted name units of the
   Hessian and Mass classes of the GENERATED unit table; (ii) re-storing the same Hessian in another of its
   implemented units (the generated conversion `conv`) hands the SAME mass-weighted matrix, entry by entry, to
   the eigen-solver (every Hessian unit is a pure non-zero factor, so conversion through v equals the direct
   one); (iii) is merely congruence: equal inputs give equal outputs of ANY solver.  Nothing is said about the
   solver itself (oracle). *)
Theorem unit_independent :
  (exists cls mcls j kg, In ("Hessian"%string, cls) classes /\ In ("Mass"%string, mcls) classes /\
      find_unit cls gen_mw_hessian_unit = Some j /\
      find_unit mcls gen_mw_mass_unit = Some kg) /\
  forall cls, In ("Hessian"%string, cls) classes ->
  forall u v j, In u cls -> In v cls -> find_unit cls gen_mw_hessian_unit = Some j ->
  forall sq pi (conv_m : Qc -> Qc) (H : nat -> nat -> Qc) (m : nat -> Qc),
    (forall r c, mass_weighted (envQ sq pi) (fun x => conv x v j) conv_m (fun a b => conv (H a b) u v) m r c =
                 mass_weighted (envQ sq pi) (fun x => conv x u j) conv_m H m r c) /\
    (forall (eig : list (list Qc) -> list Qc) scale d,
       map (freq sq pi scale) (eig (list_of_mat d (mass_weighted (envQ sq pi) (fun x => conv x v j) conv_m
                                                   (fun a b => conv (H a b) u v) m))) =
       map (freq sq pi scale) (eig (list_of_mat d (mass_weighted (envQ sq pi) (fun x => conv x u j) conv_m H m)))).
Proof.
  split; [exact mw_units_exist|].
  intros cls Hc u v j Hu Hv Hj sq pi conv_m H m. split.
  - intros r c. apply (mass_weighted_unit_independent sq pi cls Hc u v j Hu Hv Hj).
  - intros eig scale d. apply (frequencies_unit_independent sq pi cls Hc u v j Hu Hv Hj).
Qed.

(* PARTIAL.  What is proved is the list structure of frequencies_proj: n_tr literal zeros, n_tr = 5 iff `are_linear`
   (exactly two atoms, or more with the collinearity test of Atoms.are_linear answering True) else 6, followed by
   the converted eigenvalues of the projected block; with n_v = 3N - n_tr of them the list has 3N entries (N >= 2).
   NOT proved (oracle-level, see README "Partial"): that the OTHER entries are non-zero ("exactly"), and that the
   boolean `collinear` - the answer of Atoms.are_linear, an input here - is the geometric fact; the implementation
   oracle `Atoms.are_linear|near-linear-labelling-dependent` shows it is not label independent.  As coded a single
   atom gets n_tr = 6 and a NEGATIVE n_v (last conjunct). *)
Theorem projected_count_partial :
  forall sq pi scale n collinear lambdas,
  let fs := frequencies_proj sq pi scale n collinear lambdas in
  let ntr := n_tr n collinear in
  (ntr = 5%nat <-> (n = 2%nat \/ (2 < n)%nat /\ collinear = true)) /\
  (ntr = 6%nat <-> ~ (n = 2%nat \/ (2 < n)%nat /\ collinear = true)) /\
  List.length fs = (ntr + List.length lambdas)%nat /\
  (forall i, (i < ntr)%nat -> nth i fs 1 = 0) /\
  (forall i, (i < List.length lambdas)%nat -> nth (ntr + i) fs 0 = freq sq pi scale (nth i lambdas 0)) /\
  ((2 <= n)%nat -> Z.of_nat (List.length lambdas) = n_v n collinear -> List.length fs = (3 * n)%nat) /\
  (n = 1%nat -> ntr = 6%nat /\ (n_v n collinear < 0)%Z).
Proof.
  intros sq pi scale n collinear lambdas fs ntr.
  assert (Hcase : (ntr = 5%nat /\ (n = 2%nat \/ (2 < n)%nat /\ collinear = true)) \/
                  (ntr = 6%nat /\ ~ (n = 2%nat \/ (2 < n)%nat /\ collinear = true))).
  { unfold ntr, n_tr, gen_n_tr, are_linear.
    destruct (n <? 2)%nat eqn:E1; [apply Nat.ltb_lt in E1; right; split; [reflexivity|lia]|].
    apply Nat.ltb_ge in E1.
    destruct (n =? 2)%nat eqn:E2; [apply Nat.eqb_eq in E2; left; split; [reflexivity|lia]|].
    apply Nat.eqb_neq in E2.
    destruct collinear; [left; split; [reflexivity|right; split; [lia|reflexivity]]|].
    right. split; [reflexivity|]. intros [H|[_ H]]; [lia|discriminate]. }
  assert (Hlen : List.length fs = (ntr + List.length lambdas)%nat).
  { unfold fs, frequencies_proj, gen_frequencies_proj. rewrite app_length, repeat_length, map_length. reflexivity. }
  split; [|split; [|split; [|split; [|split; [|split]]]]].
  - destruct Hcase as [[H1 H2]|[H1 H2]]; split; intros; try assumption; try lia; contradiction.
  - destruct Hcase as [[H1 H2]|[H1 H2]]; split; intros; try assumption; try lia; contradiction.
  - exact Hlen.
  - intros i Hi. unfold fs, frequencies_proj, gen_frequencies_proj. fold ntr.
    rewrite app_nth1 by (rewrite repeat_length; exact Hi).
    rewrite (nth_indep _ 1 (cst (envQ sq pi) 0 1)) by (rewrite repeat_length; exact Hi).
    rewrite nth_repeat. apply cst0_Qc.
  - intros i Hi. unfold fs, frequencies_proj, gen_frequencies_proj. fold ntr.
    rewrite app_nth2 by (rewrite repeat_length; lia). rewrite repeat_length.
    replace (ntr + i - ntr)%nat with i by lia.
    rewrite (nth_indep _ 0 (freq sq pi scale 0)) by (rewrite map_length; exact Hi).
    apply map_nth.
  - intros _ Hnv. rewrite Hlen. unfold n_v, gen_n_v in Hnv. fold ntr in Hnv. lia.
  - intros ->. unfold ntr, n_v, n_tr, gen_n_v, gen_n_tr, are_linear. cbn. split; [reflexivity|lia].
Qed.

(* The scale factor used is Config.freq_scale_factor if set, else the functional's, else 1 (generated gen_scale). *)
Theorem scale_precedence :
  forall sq pi (c f : Qc),
    gen_scale (envQ sq pi) (Some c) (Some f) = c /\ gen_scale (envQ sq pi) (Some c) None = c /\
    gen_scale (envQ sq pi) None (Some f) = f /\ gen_scale (envQ sq pi) None None = 1.
Proof.
  intros. repeat split.
Qed.

(* The premise 0 <= scale of freq_sign_and_scale cannot be dropped: for a negative scale factor (Config rejects one,
   a Functional's is not validated) an imaginary mode is NOT multiplied by the factor. *)
Theorem freq_scale_premise_needed :
  exists sq pi scale lambda, 0 < pi /\ scale < 0 /\ lambda < 0 /\
    freq sq pi scale lambda <> scale * freq sq pi 1 lambda.
Proof.
  exists (fun x => x), (Q2Qc 3), (- Q2Qc 1), (- Q2Qc 1).
  split; [vm_compute; reflexivity|]. split; [vm_compute; reflexivity|]. split; [vm_compute; reflexivity|].
  intros H. vm_compute in H. discriminate H.
Qed.

(* frequencies_proj is evaluated ONCE per Hessian object when it is a cached_property (generated list
   gen_cached_properties): a second access after Config.freq_scale_factor changed from s1 to s2 returns the FIRST
   list if cached, the list for s2 otherwise.  With the current source it is cached, and then "the configured scale
   factor multiplies every frequency" fails for an already-queried object (finding
   Hessian.frequencies_proj|scale-factor-cached): second conjunct, with a witness. *)
Theorem frequencies_after_scale_change :
  (forall sq pi s1 s2 n collinear lambdas,
     freqs_twice sq pi s1 s2 n collinear lambdas =
       (frequencies_proj sq pi s1 n collinear lambdas,
        if is_cached "frequencies_proj" then frequencies_proj sq pi s1 n collinear lambdas
        else frequencies_proj sq pi s2 n collinear lambdas)) /\
  (is_cached "frequencies_proj" = true ->
     exists sq pi s1 s2 n collinear lambdas,
       snd (freqs_twice sq pi s1 s2 n collinear lambdas) <> frequencies_proj sq pi s2 n collinear lambdas).
Proof.
  split.
  - intros. unfold freqs_twice, access, frequencies_proj, freq, n_tr.
    destruct (is_cached "frequencies_proj"); reflexivity.
  - intros Hc. exists (fun x => x), (Q2Qc 3), 1, (Q2Qc (1 # 2)), 2%nat, true, [Q2Qc 4].
    unfold freqs_twice, access. rewrite Hc. cbn [snd].
    intros H. vm_compute in H. discriminate H.
Qed.

(* ---- non-vacuity: the hypotheses of the theorems above are satisfiable ---- *)
Example orthonormal_nonvacuous :
  let EQ := envQ (fun x => x) (Q2Qc 3) in
  orthonormal EQ 3 (fun i j => if Nat.eqb i j then 1 else 0) /\ fsqrt EQ (f1 EQ) = f1 EQ /\
  (forall r, (r < 3)%nat -> (fun r => if Nat.eqb r 1 then Q2Qc 5 else 0) r =
     sum Qc 0 Qcplus 2 (fun a => (if Nat.eqb a 1 then Q2Qc 5 else 0) * (if Nat.eqb r a then 1 else 0))).
Proof.
  cbv zeta. split; [|split; [reflexivity|]].
  - intros a b Ha Hb. destruct a as [|[|[|a]]]; destruct b as [|[|[|b]]]; try lia; vm_compute; reflexivity.
  - intros r Hr. destruct r as [|[|[|r]]]; try lia; vm_compute; reflexivity.
Qed.

Example nonvacuous :
  (* a positive-preserving "sqrt", pi, scale and a negative eigenvalue: a strictly negative frequency *)
  (freq (fun x => x) (Q2Qc 3) (Q2Qc (1 # 2)) (- Q2Qc 4) < 0) /\
  (* orthogonal axes, masses with non-zero total whose "sqrt" squares back (m = 1, sqrt = id) *)
  (let EQ := envQ (fun x => x) (Q2Qc 3) in
   let e := fun a (k : nat) => if Nat.eqb k a then 1 else 0 in
   dot3 EQ (e 0%nat) (e 1%nat) = 0 /\ total_mass EQ 3%nat (fun _ => 1) <> 0 /\
   (fun x : Qc => x) 1 * (fun x : Qc => x) 1 = 1) /\
  (* a requested-atom list and a collect function meeting the hypotheses *)
  (NoDup [1%nat; 0%nat] /\ forall l : list (nat * (nat -> Qc)), Permutation l (rev l)) /\
  (* a Hessian unit pair with the mass-weighting target unit *)
  (exists cls u v j, In ("Hessian"%string, cls) classes /\ In u cls /\ In v cls /\ u <> v /\
      find_unit cls gen_mw_hessian_unit = Some j).
Proof.
  split; [vm_compute; reflexivity|]. split; [|split].
  - cbv zeta. split; [vm_compute; reflexivity|]. split; [|vm_compute; reflexivity].
    intros H. vm_compute in H. discriminate H.
  - split; [repeat constructor; cbn [In]; lia|]. intros l. apply Permutation_rev.
  - destruct mw_units_exist as [cls [_ [j [_ [Hc [_ [Hj _]]]]]]].
    unfold classes in Hc. cbn [In] in Hc.
    repeat match goal with H : _ \/ _ |- _ => destruct H as [H|H]; [try discriminate H|] end; try contradiction.
    all: injection Hc as <-.
    all: eexists; exists u_ha_per_ang_sq, u_ha_per_a0_sq; eexists.
    all: split; [unfold classes; cbn [In]; tauto|].
    all: split; [cbn [In]; tauto|]. all: split; [cbn [In]; tauto|].
    all: split; [intros Heq; inversion Heq|exact Hj].
Qed.
