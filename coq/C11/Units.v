(* C11/Units.v — independence of the storage unit, via the C06 conversion (gen/C06_Gen.conv,
   regenerated from autode/values.py::_to and autode/units.py) applied to the Hessian before mass
   weighting (Hessian._mass_weighted: `H = self.to("J ang^-2")`, masses `.to("kg")`). *)
From Coq Require Import ZArith QArith Qcanon List String Bool.
From AV.lib Require Import Sums QcInst.
From AV.C06 Require Base Model Lemmas Props.
From AV.gen Require Import C06_Gen.
From AV.C11 Require Import Base Model Lemmas.
From AV.gen Require Import C11_Gen.
Import ListNotations.
Open Scope string_scope.

Notation unit := AV.C06.Base.unit.
Notation find_unit := AV.C06.Model.find_unit.

(* the unit strings written in _mass_weighted name units of the Hessian / Mass classes *)
Lemma mw_units_exist :
  exists cls mcls j kg, In ("Hessian", cls) classes /\ In ("Mass", mcls) classes /\
    find_unit cls gen_mw_hessian_unit = Some j /\ find_unit mcls gen_mw_mass_unit = Some kg.
Proof.
  unfold classes.
  match goal with |- context [("Hessian", ?c)] => exists c end.
  match goal with |- context [("Mass", ?c)] => exists c end.
  eexists. eexists. split; [cbn [In]; tauto|]. split; [cbn [In]; tauto|]. split; vm_compute; reflexivity.
Qed.

Section U.
Variables (sq : Qc -> Qc) (pi : Qc).
Variable cls : list unit.
Hypothesis Hcls : In ("Hessian", cls) classes.
Variables u v j : unit.
Hypothesis Hu : In u cls.
Hypothesis Hv : In v cls.
Hypothesis Hj : find_unit cls gen_mw_hessian_unit = Some j.

(* the mass-weighted matrix handed to the eigen-solver when the SAME Hessian is stored in unit v
   instead of unit u *)
Lemma mass_weighted_unit_independent (conv_m : Qc -> Qc) (H : nat -> nat -> Qc) (m : nat -> Qc) r c :
  mass_weighted (envQ sq pi) (fun x => conv x v j) conv_m (fun a b => conv (H a b) u v) m r c =
  mass_weighted (envQ sq pi) (fun x => conv x u j) conv_m H m r c.
Proof.
  unfold mass_weighted. f_equal.
  destruct (AV.C06.Lemmas.find_unit_some _ _ _ Hj) as [Hjin _].
  destruct (AV.C06.Props.conv_roundtrip_and_path _ _ Hcls u v j Hu Hv Hjin (H r c)) as [_ [Hp _]].
  exact Hp.
Qed.

(* hence whatever the eigen-solver is (a function of the matrix entries), the frequencies agree *)
Lemma frequencies_unit_independent (eig : list (list Qc) -> list Qc) (fr : Qc -> Qc)
      (conv_m : Qc -> Qc) (H : nat -> nat -> Qc) (m : nat -> Qc) d :
  map fr (eig (list_of_mat d (mass_weighted (envQ sq pi) (fun x => conv x v j) conv_m (fun a b => conv (H a b) u v) m))) =
  map fr (eig (list_of_mat d (mass_weighted (envQ sq pi) (fun x => conv x u j) conv_m H m))).
Proof.
  f_equal. f_equal. unfold list_of_mat. apply map_ext. intros r. apply map_ext. intros c.
  apply mass_weighted_unit_independent.
Qed.
End U.
