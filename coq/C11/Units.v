(* C11/Units.v — independence of the storage unit: the conversion `conv` and the unit table `classes` are
   GENERATED (gen/C06_Gen.v, from autode/values.py::_to, units.py, constants.py and Hessian.implemented_units).
   Only C06/Base.v (the record type of a unit) and the generated file are used; the facts needed about the
   Hessian class are proved here, so this development does not depend on the hand-written C06 files. *)
From Coq Require Import ZArith QArith Qcanon List String Bool Field.
From AV.lib Require Import Sums QcInst.
From AV.C06 Require Base.
From AV.gen Require Import C06_Gen.
From AV.C11 Require Import Base Model Lemmas.
From AV.gen Require Import C11_Gen.
Import ListNotations.
Open Scope string_scope.

Notation unit := AV.C06.Base.unit.
Notation utimes := AV.C06.Base.utimes.
Notation uadd := AV.C06.Base.uadd.
Notation ualiases := AV.C06.Base.ualiases.

(* Value.to(name): the first implemented unit one of whose aliases is the (lower-cased) name *)
Definition has_alias (a : string) (u : unit) : bool := existsb (String.eqb a) (ualiases u).
Definition find_unit (cls : list unit) (a : string) : option unit := find (has_alias a) cls.

(* every unit of the class is a pure factor (no shift) with a non-zero factor *)
Definition factor_only (u : unit) : bool := Qc_eqb (uadd u) (Q2Qc 0) && negb (Qc_eqb (utimes u) (Q2Qc 0)).

Lemma hessian_class_factor_only cls : In ("Hessian", cls) classes -> forallb factor_only cls = true.
Proof.
  unfold classes. cbn [In]. intros H.
  repeat (destruct H as [H|H]; [try discriminate H; injection H as <-; vm_compute; reflexivity|]).
  contradiction.
Qed.

Lemma factor_only_spec u : factor_only u = true -> uadd u = Q2Qc 0 /\ utimes u <> Q2Qc 0.
Proof.
  unfold factor_only. rewrite andb_true_iff, negb_true_iff. intros [H1 H2]. split.
  - apply Qc_eqb_eq. exact H1.
  - intros E. apply Qc_eqb_eq in E. congruence.
Qed.

Lemma conv_path (x : Qc) (u v j : unit) :
  factor_only u = true -> factor_only v = true -> factor_only j = true ->
  conv (conv x u v) v j = conv x u j.
Proof.
  intros Hu Hv Hj. destruct (factor_only_spec _ Hu) as [Au Tu]. destruct (factor_only_spec _ Hv) as [Av Tv].
  destruct (factor_only_spec _ Hj) as [Aj Tj]. unfold conv. rewrite Au, Av, Aj.
  change (Q2Qc 0) with 0%Qc in *. field. split; assumption.
Qed.

(* the unit strings written in _mass_weighted name units of the Hessian / Mass classes *)
Lemma mw_units_exist :
  exists cls mcls j kg, In ("Hessian", cls) classes /\ In ("Mass", mcls) classes /\
    find_unit cls gen_mw_hessian_unit = Some j /\ find_unit mcls gen_mw_mass_unit = Some kg.
Proof.
  unfold classes.
  match goal with |- context [("Hessian", ?c)] => exists c end.
  match goal with |- context [("Mass", ?c)] => exists c end.
  eexists. eexists. split; [cbn [In]; tauto|]. split; [cbn [In]; tauto|]. split; vm_compute; reflexivity.
Qed.

Section U.
Variables (sq : Qc -> Qc) (pi : Qc).
Variable cls : list unit.
Hypothesis Hcls : In ("Hessian", cls) classes.
Variables u v j : unit.
Hypothesis Hu : In u cls.
Hypothesis Hv : In v cls.
Hypothesis Hj : find_unit cls gen_mw_hessian_unit = Some j.

Lemma mass_weighted_unit_independent (conv_m : Qc -> Qc) (H : nat -> nat -> Qc) (m : nat -> Qc) r c :
  mass_weighted (envQ sq pi) (fun x => conv x v j) conv_m (fun a b => conv (H a b) u v) m r c =
  mass_weighted (envQ sq pi) (fun x => conv x u j) conv_m H m r c.
Proof.
  unfold mass_weighted. f_equal.
  pose proof (hessian_class_factor_only cls Hcls) as Hall. rewrite forallb_forall in Hall.
  assert (Hjin : In j cls) by (unfold find_unit in Hj; apply find_some in Hj; tauto).
  apply conv_path; apply Hall; assumption.
Qed.

Lemma frequencies_unit_independent (eig : list (list Qc) -> list Qc) (fr : Qc -> Qc)
      (conv_m : Qc -> Qc) (H : nat -> nat -> Qc) (m : nat -> Qc) d :
  map fr (eig (list_of_mat d (mass_weighted (envQ sq pi) (fun x => conv x v j) conv_m (fun a b => conv (H a b) u v) m))) =
  map fr (eig (list_of_mat d (mass_weighted (envQ sq pi) (fun x => conv x u j) conv_m H m))).
Proof.
  f_equal. f_equal. unfold list_of_mat. apply map_ext. intros r. apply map_ext. intros c.
  apply mass_weighted_unit_independent.
Qed.
End U.
