(* C19/Lemmas.v — lemmas and proofs about C19/Model.v.
   Plan: each literal index loop is proved equal to a structural recursion over the reversed
   not-yet-visited prefix (`go_*`), and the property theorems are proved about that. *)
From Coq Require Import ZArith QArith Qcanon List Bool Arith Lia Field.
From AV.lib Require Import QcInst.
From AV.C19 Require Import Model.
Import ListNotations.
Local Open Scope nat_scope.

(* ------------------------------------------------------------------------------------------ *)
(* boolean comparisons on Qc *)
Lemma Qcleb_iff a b : Qcleb a b = true <-> (a <= b)%Qc.
Proof. unfold Qcleb, Qcle. apply Qle_bool_iff. Qed.

Lemma Qcltb_iff a b : Qcltb a b = true <-> (a < b)%Qc.
Proof.
  unfold Qcltb. rewrite negb_true_iff. split.
  - intro H. apply Qcnot_le_lt. intro L. apply Qcleb_iff in L. unfold Qcleb in L. congruence.
  - intro H. destruct (Qle_bool (this b) (this a)) eqn:E; [|reflexivity].
    exfalso. apply (Qclt_not_le _ _ H). apply Qcleb_iff. exact E.
Qed.

Lemma Qcltb_false_iff a b : Qcltb a b = false <-> (b <= a)%Qc.
Proof.
  split.
  - intro H. apply Qcnot_lt_le. intro L. apply Qcltb_iff in L. congruence.
  - intro H. destruct (Qcltb a b) eqn:E; [|reflexivity].
    apply Qcltb_iff in E. exfalso. exact (Qclt_not_le _ _ E H).
Qed.

Lemma Qcnonneg_iff x : Qcnonneg x = true <-> (Q2Qc 0 <= x)%Qc.
Proof. unfold Qcnonneg, Qcle. change (this (Q2Qc 0)) with 0%Q. apply Qle_bool_iff. Qed.

Lemma Qcabs_sym a b : Qcabs (a - b)%Qc = Qcabs (b - a)%Qc.
Proof.
  unfold Qcabs.
  destruct (Qcnonneg (a - b)%Qc) eqn:E1; destruct (Qcnonneg (b - a)%Qc) eqn:E2.
  - apply Qcnonneg_iff in E1. apply Qcnonneg_iff in E2.
    assert (Hab : (a - b)%Qc = Q2Qc 0).
    { apply Qcle_antisym; [|exact E1].
      replace (a - b)%Qc with (- (b - a))%Qc by ring.
      replace (Q2Qc 0) with (- Q2Qc 0)%Qc by ring. apply Qcopp_le_compat. exact E2. }
    rewrite Hab. replace (b - a)%Qc with (- (a - b))%Qc by ring. rewrite Hab. ring.
  - ring.
  - ring.
  - exfalso.
    assert (H1 : ~ (Q2Qc 0 <= a - b)%Qc) by (intro L; apply Qcnonneg_iff in L; congruence).
    assert (H2 : ~ (Q2Qc 0 <= b - a)%Qc) by (intro L; apply Qcnonneg_iff in L; congruence).
    apply Qcnot_le_lt in H1. apply Qcnot_le_lt in H2.
    unfold Qcminus in H1, H2. apply Qclt_minus_iff in H1.
    replace (Q2Qc 0 + - (a + - b))%Qc with (b + - a)%Qc in H1 by ring.
    exact (Qclt_not_eq _ _ (Qclt_trans _ _ _ H1 H2) eq_refl).
Qed.

(* ------------------------------------------------------------------------------------------ *)
(* list facts *)
Section ListFacts.
Context {A : Type}.

Lemma nth_error_mid (pre : list A) x suf : nth_error (pre ++ x :: suf) (length pre) = Some x.
Proof. rewrite nth_error_app2 by lia. rewrite Nat.sub_diag. reflexivity. Qed.

Lemma remove_nth_mid (pre : list A) x suf : remove_nth (length pre) (pre ++ x :: suf) = pre ++ suf.
Proof.
  unfold remove_nth. rewrite firstn_app, Nat.sub_diag, firstn_all. cbn [firstn]. rewrite app_nil_r.
  rewrite skipn_app. replace (S (length pre) - length pre) with 1 by lia.
  rewrite skipn_all2 by lia. reflexivity.
Qed.

Lemma rev_range_S n : rev_range (S n) = n :: rev_range n.
Proof. unfold rev_range. rewrite seq_S, rev_app_distr. reflexivity. Qed.

Lemma existsb_false_incl (f : A -> bool) (l1 l2 : list A) :
  incl l1 l2 -> existsb f l2 = false -> existsb f l1 = false.
Proof.
  intros Hi H. destruct (existsb f l1) eqn:E; [|reflexivity].
  apply existsb_exists in E. destruct E as [x [Hx Hf]].
  assert (E2 : existsb f l2 = true) by (apply existsb_exists; exists x; split; [apply Hi; exact Hx|exact Hf]).
  congruence.
Qed.

Lemma existsb_false_forall (f : A -> bool) (l : list A) :
  existsb f l = false <-> Forall (fun x => f x = false) l.
Proof.
  induction l as [|x l IH]; cbn [existsb].
  - split; [constructor|reflexivity].
  - rewrite orb_false_iff, IH. split.
    + intros [H1 H2]. constructor; assumption.
    + intro H. inversion H; subst. split; assumption.
Qed.

(* ForallOrdPairs is inherited when a middle element is deleted *)
Lemma FOP_remove_mid (P : A -> A -> Prop) (a : list A) x b :
  ForallOrdPairs P (a ++ x :: b) -> ForallOrdPairs P (a ++ b).
Proof.
  induction a as [|y a IH]; cbn [app]; intro H.
  - inversion H; subst. assumption.
  - inversion H as [|? ? Hy Hr]; subst. constructor.
    + rewrite Forall_app in Hy |- *. destruct Hy as [H1 H2]. split; [exact H1|].
      inversion H2; subst. assumption.
    + apply IH. exact Hr.
Qed.

Lemma FOP_app_inv_r (P : A -> A -> Prop) (a b : list A) :
  ForallOrdPairs P (a ++ b) -> ForallOrdPairs P b.
Proof.
  induction a as [|y a IH]; cbn [app]; intro H; [exact H|].
  inversion H; subst. apply IH. assumption.
Qed.

Lemma FOP_mid (P : A -> A -> Prop) (a : list A) x b :
  ForallOrdPairs P (a ++ x :: b) -> Forall (fun y => P y x) a /\ Forall (P x) b.
Proof.
  induction a as [|y a IH]; cbn [app]; intro H.
  - inversion H; subst. split; [constructor|assumption].
  - inversion H as [|? ? Hy Hr]; subst. destruct (IH Hr) as [H1 H2]. split; [|exact H2].
    constructor; [|exact H1]. rewrite Forall_app in Hy. destruct Hy as [_ Hy]. inversion Hy; subst. assumption.
Qed.

Lemma FOP_filter (P : A -> A -> Prop) (f : A -> bool) (l : list A) :
  ForallOrdPairs P l -> ForallOrdPairs P (filter f l).
Proof.
  induction 1 as [|x l Hx Hl IH]; cbn [filter]; [constructor|].
  destruct (f x); [|exact IH]. constructor; [|exact IH].
  rewrite Forall_forall in Hx |- *. intros y Hy. apply filter_In in Hy. apply Hx. tauto.
Qed.
End ListFacts.

(* ------------------------------------------------------------------------------------------ *)
(* statistics: some element is not above the average, hence some energy is within one (lower-bounded)
   standard deviation of the mean *)
Local Open Scope Qc_scope.
Lemma qlen_cons x l : qlen (x :: l) = qlen l + Q2Qc 1.
Proof.
  unfold qlen. cbn [length]. apply Qc_is_canon. unfold Qcplus, Q2Qc. cbn [this].
  rewrite !Qred_correct. rewrite Nat2Z.inj_succ. unfold Z.succ. rewrite inject_Z_plus. reflexivity.
Qed.

Lemma qlen_nonneg l : Q2Qc 0 <= qlen l.
Proof.
  unfold qlen, Qcle, Q2Qc. cbn [this]. rewrite !Qred_correct.
  unfold Qle, inject_Z. cbn [Qnum Qden]. lia.
Qed.

Lemma qlen_pos l : l <> [] -> Q2Qc 0 < qlen l.
Proof.
  intro H. destruct l as [|x l]; [contradiction|].
  unfold qlen, Qclt, Q2Qc. cbn [this length]. rewrite !Qred_correct.
  unfold Qlt, inject_Z. cbn [Qnum Qden]. lia.
Qed.

Lemma Qc_0_le_1 : Q2Qc 0 <= Q2Qc 1.
Proof. unfold Qcle. cbn. unfold Qle. cbn. lia. Qed.

Lemma Qcmult_le_compat_l x y z : x <= y -> Q2Qc 0 <= z -> z * x <= z * y.
Proof. intros H Hz. rewrite (Qcmult_comm z x), (Qcmult_comm z y). apply Qcmult_le_compat_r; assumption. Qed.

Lemma exists_le_avg (l : list Qc) : l <> [] -> exists x, In x l /\ qlen l * x <= qsum l.
Proof.
  induction l as [|x l IH]; [contradiction|]. intros _.
  destruct l as [|x2 l].
  - exists x. split; [left; reflexivity|]. rewrite qlen_cons. unfold qlen. cbn [length qsum fold_right].
    change (Q2Qc (inject_Z (Z.of_nat 0))) with (Q2Qc 0).
    replace ((Q2Qc 0 + Q2Qc 1) * x) with (x + Q2Qc 0) by ring.
    apply Qcle_refl.
  - destruct IH as [y [Hy Hle]]; [discriminate|].
    set (l' := x2 :: l) in *. rewrite qlen_cons. cbn [qsum fold_right]. fold (qsum l').
    destruct (Qclt_le_dec y x) as [Hlt|Hge].
    + exists y. split; [right; exact Hy|].
      replace ((qlen l' + Q2Qc 1) * y) with (y + qlen l' * y) by ring.
      apply Qcplus_le_compat; [apply Qclt_le_weak; exact Hlt|exact Hle].
    + exists x. split; [left; reflexivity|].
      replace ((qlen l' + Q2Qc 1) * x) with (x + qlen l' * x) by ring.
      apply Qcplus_le_compat; [apply Qcle_refl|].
      eapply Qcle_trans; [|exact Hle]. apply Qcmult_le_compat_l; [exact Hge|apply qlen_nonneg].
Qed.

Lemma qlen_map (f : Qc -> Qc) l : qlen (map f l) = qlen l.
Proof. unfold qlen. rewrite map_length. reflexivity. Qed.

Lemma qlen_neq0 l : l <> [] -> qlen l <> Q2Qc 0.
Proof. intros H E. pose proof (qlen_pos l H) as P. rewrite E in P. exact (Qclt_not_eq _ _ P eq_refl). Qed.

Lemma Qcmaxq_ge_l a b : a <= Qcmaxq a b.
Proof. unfold Qcmaxq. destruct (Qcleb a b) eqn:E; [apply Qcleb_iff; exact E|apply Qcle_refl]. Qed.

Lemma Qcmaxq_ge_r a b : b <= Qcmaxq a b.
Proof.
  unfold Qcmaxq. destruct (Qcleb a b) eqn:E; [apply Qcle_refl|].
  destruct (Qclt_le_dec a b) as [H|H]; [|exact H].
  apply Qclt_le_weak in H. apply Qcleb_iff in H. congruence.
Qed.

Lemma sigma_floor_pos : Q2Qc 0 < sigma_floor_sq.
Proof. unfold sigma_floor_sq, qc, Qclt. cbn. unfold Qlt. cbn. lia. Qed.

Lemma var_lb_nonneg l : Q2Qc 0 <= var_lb l.
Proof.
  unfold var_lb. eapply Qcle_trans; [|apply Qcmaxq_ge_r]. apply Qclt_le_weak. apply sigma_floor_pos.
Qed.

(* some energy has squared deviation <= variance *)
Lemma exists_within_sigma (es : list Qc) : es <> [] ->
  exists e, In e es /\ sqdev (mean es) e <= var es.
Proof.
  intro Hne. set (mu := mean es).
  assert (Hne' : map (sqdev mu) es <> []) by (destruct es; [contradiction|discriminate]).
  destruct (exists_le_avg _ Hne') as [x [Hx Hle]]. apply in_map_iff in Hx.
  destruct Hx as [e [He Hin]]. subst x. exists e. split; [exact Hin|].
  rewrite qlen_map in Hle.
  assert (Hv : qsum (map (sqdev mu) es) = var es * qlen es).
  { unfold var. fold mu. field. apply qlen_neq0. exact Hne. }
  rewrite Hv in Hle. rewrite (Qcmult_comm (qlen es)) in Hle.
  eapply Qcmult_lt_0_le_reg_r; [apply qlen_pos; exact Hne|exact Hle].
Qed.

Lemma sq_ge_1 n : Q2Qc 1 <= n -> Q2Qc 1 <= n * n.
Proof.
  intro H. assert (H0 : Q2Qc 0 <= n) by (eapply Qcle_trans; [apply Qc_0_le_1|exact H]).
  eapply Qcle_trans; [exact H|].
  replace n with (Q2Qc 1 * n) at 1 by ring. apply Qcmult_le_compat_r; assumption.
Qed.

Lemma exists_non_outlier_energy (n_sigma : Qc) (es : list Qc) :
  es <> [] -> Q2Qc 1 <= n_sigma ->
  exists e, In e es /\ outlier n_sigma (mean es) (var_lb es) e = false.
Proof.
  intros Hne Hn. destruct (exists_within_sigma es Hne) as [e [Hin Hle]].
  exists e. split; [exact Hin|]. unfold outlier.
  assert (H0 : Q2Qc 0 <= n_sigma) by (eapply Qcle_trans; [apply Qc_0_le_1|exact Hn]).
  replace (Qcltb n_sigma (Q2Qc 0)) with false by (symmetry; apply Qcltb_false_iff; exact H0).
  apply Qcltb_false_iff.
  eapply Qcle_trans; [exact Hle|].
  eapply Qcle_trans; [apply (Qcmaxq_ge_l (var es) sigma_floor_sq)|]. fold (var_lb es).
  replace (var_lb es) with (Q2Qc 1 * var_lb es) at 1 by ring.
  apply Qcmult_le_compat_r; [apply sq_ge_1; exact Hn|apply var_lb_nonneg].
Qed.
Local Close Scope Qc_scope.

(* ------------------------------------------------------------------------------------------ *)
Section ConformerLemmas.
Variable A : Type.
Variable en : A -> option Qc.

(* ---------- the generic delete-from-the-end loop is `filter` and never crashes ---------- *)
Lemma del_loop_spec (keep : A -> bool) (pre : list A) :
  forall suf, del_loop A keep (rev_range (length pre)) (pre ++ suf) = Ok (filter keep pre ++ suf).
Proof.
  induction pre as [|x p IH] using rev_ind; intro suf.
  - reflexivity.
  - rewrite app_length. cbn [length]. replace (length p + 1) with (S (length p)) by lia.
    rewrite rev_range_S. cbn [del_loop]. rewrite <- app_assoc. cbn [app].
    rewrite nth_error_mid. rewrite filter_app. cbn [filter].
    destruct (keep x).
    + rewrite IH. rewrite <- app_assoc. reflexivity.
    + rewrite remove_nth_mid. rewrite IH. rewrite app_nil_r. reflexivity.
Qed.

Lemma del_loop_filter (keep : A -> bool) (l : list A) :
  del_loop A keep (rev_range (length l)) l = Ok (filter keep l).
Proof. pose proof (del_loop_spec keep l []) as H. rewrite !app_nil_r in H. exact H. Qed.

Lemma remove_no_energy_spec (l : list A) :
  remove_no_energy A en l =
  match l, filter (has_e A en) l with
  | _ :: _, [] => NoConformers
  | _, r => Ok r
  end.
Proof.
  unfold remove_no_energy. rewrite del_loop_filter.
  destruct l as [|x l].
  - reflexivity.
  - destruct (filter (has_e A en) (x :: l)) as [|y r] eqn:E.
    + reflexivity.
    + cbn [length Nat.eqb andb]. reflexivity.
Qed.

Lemma prune_diff_graph_spec (iso : A -> bool) (l : list A) :
  prune_diff_graph A iso l = Ok (filter iso l).
Proof. apply del_loop_filter. Qed.

(* ---------- lowest_energy ---------- *)
Definition le_key (a b : option Qc) : Prop :=
  match a, b with
  | Some x, Some y => (x <= y)%Qc
  | _, None => True
  | None, Some _ => False
  end.

Lemma le_key_refl a : le_key a a.
Proof. destruct a; cbn; [apply Qcle_refl|exact I]. Qed.

Lemma le_key_trans a b c : le_key a b -> le_key b c -> le_key a c.
Proof.
  destruct a, b, c; cbn; try tauto. apply Qcle_trans.
Qed.

Lemma key_lt_le a b : key_lt a b = true -> le_key a b.
Proof.
  destruct a, b; cbn; try discriminate; try tauto.
  intro H. apply Qcltb_iff in H. apply Qclt_le_weak. exact H.
Qed.

Lemma key_nlt_le a b : key_lt a b = false -> le_key b a.
Proof.
  destruct a, b; cbn; try discriminate; try tauto.
  intro H. apply Qcltb_false_iff in H. exact H.
Qed.

Lemma argmin_go_spec (l : list A) : forall best,
  let m := argmin_go A en best l in
  (m = best \/ In m l) /\ le_key (en m) (en best) /\ Forall (fun y => le_key (en m) (en y)) l.
Proof.
  induction l as [|x l IH]; intro best; cbn [argmin_go].
  - split; [left; reflexivity|]. split; [apply le_key_refl|constructor].
  - destruct (key_lt (en x) (en best)) eqn:E.
    + destruct (IH x) as [H1 [H2 H3]]. split; [|split].
      * right. destruct H1 as [H1|H1]; [left; symmetry; exact H1|right; exact H1].
      * eapply le_key_trans; [exact H2|apply key_lt_le; exact E].
      * constructor; [exact H2|exact H3].
    + destruct (IH best) as [H1 [H2 H3]]. split; [|split].
      * destruct H1 as [H1|H1]; [left; exact H1|right; right; exact H1].
      * exact H2.
      * constructor; [|exact H3]. eapply le_key_trans; [exact H2|apply key_nlt_le; exact E].
Qed.

Lemma lowest_energy_none (l : list A) :
  lowest_energy A en l = None <-> Forall (fun y => en y = None) l.
Proof.
  unfold lowest_energy.
  destruct (forallb (fun c => negb (has_e A en c)) l) eqn:E.
  - split; [intros _|reflexivity]. rewrite forallb_forall in E. apply Forall_forall. intros y Hy.
    specialize (E y Hy). unfold has_e in E. destruct (en y); [discriminate|reflexivity].
  - split.
    + destruct l; [cbn in E; discriminate|discriminate].
    + intro H. exfalso. assert (E2 : forallb (fun c => negb (has_e A en c)) l = true).
      { apply forallb_forall. intros y Hy. rewrite Forall_forall in H. unfold has_e. rewrite (H y Hy). reflexivity. }
      congruence.
Qed.

Lemma lowest_energy_some (l : list A) c :
  lowest_energy A en l = Some c ->
  In c l /\ exists e, en c = Some e /\ forall y e', In y l -> en y = Some e' -> (e <= e')%Qc.
Proof.
  unfold lowest_energy.
  destruct (forallb (fun c => negb (has_e A en c)) l) eqn:E; [discriminate|].
  destruct l as [|x l]; [discriminate|]. intro H. injection H as H.
  destruct (argmin_go_spec l x) as [H1 [H2 H3]]. rewrite H in H1, H2, H3.
  assert (Hin : In c (x :: l)) by (destruct H1 as [H1|H1]; [left; symmetry; exact H1|right; exact H1]).
  split; [exact Hin|].
  assert (Hall : forall y, In y (x :: l) -> le_key (en c) (en y)).
  { intros y [Hy|Hy]; [subst y; exact H2|]. rewrite Forall_forall in H3. apply H3. exact Hy. }
  (* some conformer has an energy, hence so does the minimum *)
  assert (Hex : exists y e', In y (x :: l) /\ en y = Some e').
  { destruct (existsb (has_e A en) (x :: l)) eqn:Ex.
    - apply existsb_exists in Ex. destruct Ex as [y [Hy Hh]]. unfold has_e in Hh.
      destruct (en y) as [e'|] eqn:Ey; [|discriminate]. exists y, e'. split; assumption.
    - exfalso. assert (forallb (fun c => negb (has_e A en c)) (x :: l) = true).
      { apply forallb_forall. intros y Hy. rewrite existsb_false_forall in Ex. rewrite Forall_forall in Ex.
        rewrite (Ex y Hy). reflexivity. }
      congruence. }
  destruct Hex as [y0 [e0 [Hy0 Ey0]]].
  pose proof (Hall y0 Hy0) as Hk. rewrite Ey0 in Hk.
  destruct (en c) as [e|] eqn:Ec; [|cbn in Hk; contradiction].
  exists e. split; [reflexivity|]. intros y e' Hy Ey. pose proof (Hall y Hy) as Hk2.
  rewrite Ey in Hk2. exact Hk2.
Qed.

(* ---------- prune_on_rmsd ---------- *)
Section Rmsd.
Variable d : A -> A -> Qc.
Variable tol : Qc.
Notation rnear := (rnear A d tol).

(* structural form: rp = reversed prefix still to visit, suf = part already decided (kept) *)
Fixpoint go_r (rp suf : list A) : list A :=
  match rp with
  | [] => suf
  | x :: rp' => if existsb (rnear x) (rev rp' ++ suf) then go_r rp' suf else go_r rp' (x :: suf)
  end.

Lemma r_loop_spec (pre : list A) :
  forall suf, r_loop A d tol (rev_range (length pre)) (pre ++ suf) = Ok (go_r (rev pre) suf).
Proof.
  induction pre as [|x p IH] using rev_ind; intro suf.
  - reflexivity.
  - rewrite app_length. cbn [length]. replace (length p + 1) with (S (length p)) by lia.
    rewrite rev_range_S. cbn [r_loop]. unfold r_step. rewrite <- app_assoc. cbn [app].
    rewrite nth_error_mid, remove_nth_mid. rewrite rev_app_distr. cbn [rev app go_r].
    rewrite rev_involutive.
    destruct (existsb (rnear x) (p ++ suf)).
    + apply IH.
    + apply IH.
Qed.

Lemma prune_on_rmsd_nil : prune_on_rmsd A d tol [] = Ok [].
Proof. reflexivity. Qed.

Lemma prune_on_rmsd_spec (pre : list A) z :
  prune_on_rmsd A d tol (pre ++ [z]) = Ok (go_r (rev pre) [z]).
Proof.
  unfold prune_on_rmsd. rewrite app_length. cbn [length].
  destruct pre as [|y pre].
  - reflexivity.
  - cbn [length]. replace (S (length pre) + 1 <? 2) with false by (symmetry; apply Nat.ltb_ge; lia).
    replace (S (length pre) + 1 - 1) with (length (y :: pre)) by (cbn [length]; lia).
    apply r_loop_spec.
Qed.

(* QuietR rk suf: visiting rk (reversed) in front of suf deletes nothing *)
Fixpoint QuietR (rk suf : list A) : Prop :=
  match rk with
  | [] => True
  | x :: rk' => existsb (rnear x) (rev rk' ++ suf) = false /\ QuietR rk' (x :: suf)
  end.

Lemma go_r_quiet_fix (rk : list A) : forall suf, QuietR rk suf -> go_r rk suf = rev rk ++ suf.
Proof.
  induction rk as [|x rk IH]; intros suf H; [reflexivity|].
  cbn [go_r rev]. destruct H as [H1 H2]. rewrite H1. rewrite (IH _ H2).
  rewrite <- app_assoc. reflexivity.
Qed.

(* the result is the untouched suffix preceded by a quiet sub-list of the visited prefix *)
Lemma go_r_result (rp : list A) :
  forall suf, exists rk, go_r rp suf = rev rk ++ suf /\ incl rk rp /\ QuietR rk suf.
Proof.
  induction rp as [|x rp IH]; intro suf.
  - exists []. split; [reflexivity|]. split; [apply incl_refl|exact I].
  - cbn [go_r]. destruct (existsb (rnear x) (rev rp ++ suf)) eqn:E.
    + destruct (IH suf) as [rk [H1 [H2 H3]]]. exists rk. split; [exact H1|].
      split; [apply incl_tl; exact H2|exact H3].
    + destruct (IH (x :: suf)) as [rk [H1 [H2 H3]]]. exists (x :: rk). split; [|split].
      * rewrite H1. cbn [rev]. rewrite <- app_assoc. reflexivity.
      * apply incl_cons; [left; reflexivity|apply incl_tl; exact H2].
      * cbn [QuietR]. split; [|exact H3].
        eapply existsb_false_incl; [|exact E].
        intros y Hy. apply in_app_or in Hy. apply in_or_app. destruct Hy as [Hy|Hy]; [left|right; exact Hy].
        apply in_rev in Hy. apply in_rev. rewrite rev_involutive. apply H2. exact Hy.
Qed.

Definition far (x y : A) : Prop := (tol <= d x y)%Qc.

Lemma rnear_false_far x y : rnear x y = false <-> far x y.
Proof. unfold Model.rnear, far. apply Qcltb_false_iff. Qed.

(* a quiet list: every element of rev rk is far from everything else in rev rk ++ suf *)
Lemma QuietR_split (rk : list A) : forall suf k1 x k2,
  QuietR rk suf -> rev rk = k1 ++ x :: k2 -> Forall (far x) (k1 ++ k2 ++ suf).
Proof.
  induction rk as [|y rk IH]; intros suf k1 x k2 HQ Hs.
  - destruct k1; discriminate.
  - cbn [rev] in Hs. destruct HQ as [H1 H2].
    destruct k2 as [|y' k2'] using rev_ind.
    + apply app_inj_tail in Hs. destruct Hs as [Hk Hx]. subst y. rewrite <- Hk.
      cbn [app]. apply existsb_false_forall in H1.
      eapply Forall_impl; [|exact H1]. intros a Ha. apply rnear_false_far. exact Ha.
    + clear IHk2'. rewrite app_comm_cons, app_assoc in Hs. apply app_inj_tail in Hs.
      destruct Hs as [Hk Hy]. subst y'.
      pose proof (IH (y :: suf) k1 x k2' H2 Hk) as HF.
      rewrite <- app_assoc. cbn [app]. exact HF.
Qed.

Lemma go_r_suffix (rp suf : list A) : exists k, go_r rp suf = k ++ suf.
Proof. destruct (go_r_result rp suf) as [rk [H _]]. exists (rev rk). exact H. Qed.

(* separation (ordered pairs) is established by the loop *)
Lemma go_r_separated (rp : list A) : forall suf,
  ForallOrdPairs far suf -> ForallOrdPairs far (go_r rp suf).
Proof.
  induction rp as [|x rp IH]; intros suf H; [exact H|].
  cbn [go_r]. destruct (existsb (rnear x) (rev rp ++ suf)) eqn:E.
  - apply IH. exact H.
  - apply IH. constructor; [|exact H].
    apply existsb_false_forall in E. apply Forall_app in E. destruct E as [_ E].
    eapply Forall_impl; [|exact E]. intros a Ha. apply rnear_false_far. exact Ha.
Qed.

(* the loop only deletes: any ordered-pair property of the input survives *)
Lemma go_r_FOP (P : A -> A -> Prop) (rp : list A) : forall suf,
  ForallOrdPairs P (rev rp ++ suf) -> ForallOrdPairs P (go_r rp suf).
Proof.
  induction rp as [|x rp IH]; intros suf H; [exact H|].
  cbn [go_r]. cbn [rev] in H. rewrite <- app_assoc in H. cbn [app] in H.
  destruct (existsb (rnear x) (rev rp ++ suf)).
  - apply IH. eapply FOP_remove_mid. exact H.
  - apply IH. exact H.
Qed.

Lemma go_r_incl (rp : list A) : forall suf, incl (go_r rp suf) (rev rp ++ suf).
Proof.
  induction rp as [|x rp IH]; intros suf; [apply incl_refl|].
  cbn [go_r rev]. rewrite <- app_assoc. cbn [app].
  destruct (existsb (rnear x) (rev rp ++ suf)).
  - intros y Hy. apply IH in Hy. apply in_app_or in Hy. apply in_or_app.
    destruct Hy; [left; assumption|right; right; assumption].
  - apply IH.
Qed.

(* ----- packaged facts about prune_on_rmsd ----- *)
Lemma list_rev_cases (l : list A) : l = [] \/ exists pre z, l = pre ++ [z].
Proof.
  destruct l as [|x l] using rev_ind; [left; reflexivity|right]. exists l, x. reflexivity.
Qed.

Lemma prune_on_rmsd_shape (l : list A) :
  (l = [] /\ prune_on_rmsd A d tol l = Ok []) \/
  (exists pre z rk, l = pre ++ [z] /\ prune_on_rmsd A d tol l = Ok (rev rk ++ [z]) /\
                    incl rk (rev pre) /\ QuietR rk [z] /\ go_r (rev pre) [z] = rev rk ++ [z]).
Proof.
  destruct (list_rev_cases l) as [->|[pre [z ->]]]; [left; split; reflexivity|right].
  destruct (go_r_result (rev pre) [z]) as [rk [H1 [H2 H3]]].
  exists pre, z, rk. rewrite prune_on_rmsd_spec, H1. repeat split; assumption.
Qed.

Lemma prune_on_rmsd_idem (l r : list A) :
  prune_on_rmsd A d tol l = Ok r -> prune_on_rmsd A d tol r = Ok r.
Proof.
  intro H. destruct (prune_on_rmsd_shape l) as [[_ E]|[pre [z [rk [_ [E [_ [HQ _]]]]]]]];
    rewrite E in H; injection H as <-.
  - reflexivity.
  - rewrite prune_on_rmsd_spec, rev_involutive. rewrite (go_r_quiet_fix rk [z] HQ). reflexivity.
Qed.

Lemma prune_on_rmsd_facts (l : list A) :
  exists r, prune_on_rmsd A d tol l = Ok r /\ incl r l /\ (l <> [] -> r <> []) /\
            (forall dflt, last r dflt = last l dflt) /\
            ForallOrdPairs far r /\
            (forall P : A -> A -> Prop, ForallOrdPairs P l -> ForallOrdPairs P r) /\
            (forall r1 x r2, r = r1 ++ x :: r2 -> r2 <> [] -> Forall (far x) (r1 ++ r2)).
Proof.
  destruct (prune_on_rmsd_shape l) as [[-> E]|[pre [z [rk [-> [E [Hi [HQ Hg]]]]]]]].
  - exists []. split; [exact E|]. split; [apply incl_refl|]. split; [intro H; exact H|].
    split; [reflexivity|]. split; [constructor|]. split; [intros P H; exact H|].
    intros r1 x r2 H. destruct r1; discriminate.
  - exists (rev rk ++ [z]). split; [exact E|]. split; [|split; [|split; [|split; [|split]]]].
    + rewrite <- Hg. intros y Hy. apply go_r_incl in Hy. rewrite rev_involutive in Hy. exact Hy.
    + intros _ H. destruct (rev rk); discriminate.
    + intro dflt. rewrite !last_last. reflexivity.
    + rewrite <- Hg. apply go_r_separated. constructor; constructor.
    + intros P H. rewrite <- Hg. apply go_r_FOP. rewrite rev_involutive. exact H.
    + intros r1 x r2 Hs Hne.
      (* x is not the final element: it belongs to rev rk *)
      destruct r2 as [|y r2'] using rev_ind; [contradiction|]. clear IHr2'.
      rewrite app_comm_cons, app_assoc in Hs. apply app_inj_tail in Hs. destruct Hs as [Hs ->].
      exact (QuietR_split rk [y] r1 x r2' HQ Hs).
Qed.
End Rmsd.

(* ---------- prune_on_energy ---------- *)
Section Energy.
Variables e_tol n_sigma : Qc.
Notation has_e := (has_e A en).
Notation near := (near A en e_tol).
Notation outlier := (outlier n_sigma).

(* structural form: rp = reversed prefix still to visit, suf = decided part of the list, kept = the
   kept_confs list of the code *)
Fixpoint go_k (mu v : Qc) (rp suf kept : list A) : list A :=
  match rp with
  | [] => suf
  | x :: rp' =>
      match en x with
      | None => go_k mu v rp' (x :: suf) kept
      | Some e => if outlier mu v e || existsb (near e) kept then go_k mu v rp' suf kept
                  else go_k mu v rp' (x :: suf) (kept ++ [x])
      end
  end.

(* ... and without the auxiliary list: the kept conformers are exactly the members of suf with an
   energy, and `near` is false on the others *)
Fixpoint go_e (mu v : Qc) (rp suf : list A) : list A :=
  match rp with
  | [] => suf
  | x :: rp' =>
      match en x with
      | None => go_e mu v rp' (x :: suf)
      | Some e => if outlier mu v e || existsb (near e) suf then go_e mu v rp' suf
                  else go_e mu v rp' (x :: suf)
      end
  end.

Lemma go_k_go_e mu v (rp : list A) : forall suf kept,
  (forall e, existsb (near e) kept = existsb (near e) suf) ->
  go_k mu v rp suf kept = go_e mu v rp suf.
Proof.
  induction rp as [|x rp IH]; intros suf kept H; [reflexivity|].
  cbn [go_k go_e]. destruct (en x) as [e|] eqn:Ex.
  - rewrite (H e). destruct (outlier mu v e || existsb (near e) suf); [apply IH; exact H|].
    apply IH. intro e'. rewrite existsb_app. cbn [existsb]. rewrite orb_false_r, (H e'). apply orb_comm.
  - apply IH. intro e'. cbn [existsb]. unfold Model.near at 2. rewrite Ex. cbn [orb]. apply H.
Qed.

Lemma idxs_from_app (p : list A) x : forall k,
  idxs_with_energy_from A en k (p ++ [x]) =
  idxs_with_energy_from A en k p ++ (if has_e x then [k + length p] else []).
Proof.
  induction p as [|y p IH]; intro k; cbn [app idxs_with_energy_from length].
  - rewrite Nat.add_0_r. destruct (has_e x); reflexivity.
  - rewrite IH. replace (S k + length p) with (k + S (length p)) by lia.
    destruct (has_e y); reflexivity.
Qed.

Lemma e_loop_spec (mu v : Qc) (pre : list A) : forall suf kept,
  e_loop A en e_tol n_sigma mu v (rev (idxs_with_energy A en pre)) (pre ++ suf) kept =
  Ok (go_k mu v (rev pre) suf kept).
Proof.
  induction pre as [|x p IH] using rev_ind; intros suf kept.
  - reflexivity.
  - unfold idxs_with_energy in *. rewrite idxs_from_app. cbn [plus].
    rewrite (rev_app_distr p [x]). cbn [rev app go_k]. rewrite <- app_assoc. cbn [app].
    unfold Model.has_e. destruct (en x) as [e|] eqn:Ex.
    + rewrite rev_app_distr. cbn [rev app e_loop]. unfold e_step.
      rewrite nth_error_mid, remove_nth_mid, Ex.
      destruct (outlier mu v e); cbn [orb]; [apply IH|].
      destruct (existsb (near e) kept); [apply IH|].
      replace (p ++ x :: suf) with (p ++ x :: suf) by reflexivity. apply IH.
    + rewrite app_nil_r. apply IH.
Qed.

Lemma idxs_len (l : list A) : forall k,
  length (idxs_with_energy_from A en k l) = length (energies_of A en l).
Proof.
  induction l as [|x l IH]; intro k; [reflexivity|].
  cbn [idxs_with_energy_from energies_of flat_map]. unfold Model.has_e.
  destruct (en x); cbn [app length]; rewrite IH; reflexivity.
Qed.

Definition e_mu (l : list A) := mean (energies_of A en l).
Definition e_v (l : list A) := var_lb (energies_of A en l).

Lemma prune_on_energy_spec (l : list A) :
  prune_on_energy A en e_tol n_sigma l =
  Ok (if length (energies_of A en l) <? 2 then l else go_e (e_mu l) (e_v l) (rev l) []).
Proof.
  unfold prune_on_energy, idxs_with_energy. rewrite idxs_len.
  destruct (length (energies_of A en l) <? 2); [reflexivity|].
  pose proof (e_loop_spec (e_mu l) (e_v l) l [] []) as H. rewrite app_nil_r in H.
  unfold idxs_with_energy, e_mu, e_v in H. rewrite H. rewrite go_k_go_e; [reflexivity|]. intro e. reflexivity.
Qed.

(* ----- what the loop keeps ----- *)
Lemma go_e_suffix mu v (rp : list A) : forall suf, exists k, go_e mu v rp suf = k ++ suf.
Proof.
  induction rp as [|x rp IH]; intro suf; [exists []; reflexivity|].
  cbn [go_e].
  assert (Hcons : exists k, go_e mu v rp (x :: suf) = k ++ suf).
  { destruct (IH (x :: suf)) as [k Hk]. exists (k ++ [x]). rewrite Hk, <- app_assoc. reflexivity. }
  destruct (en x) as [e|]; [|exact Hcons].
  destruct (outlier mu v e || existsb (near e) suf); [apply IH|exact Hcons].
Qed.

Lemma go_e_incl mu v (rp : list A) : forall suf, incl (go_e mu v rp suf) (rev rp ++ suf).
Proof.
  induction rp as [|x rp IH]; intro suf; [apply incl_refl|].
  cbn [go_e rev]. rewrite <- app_assoc. cbn [app].
  assert (Hdrop : incl (go_e mu v rp suf) (rev rp ++ x :: suf)).
  { intros y Hy. apply IH in Hy. apply in_app_or in Hy. apply in_or_app.
    destruct Hy; [left; assumption|right; right; assumption]. }
  destruct (en x) as [e|]; [|apply IH].
  destruct (outlier mu v e || existsb (near e) suf); [exact Hdrop|apply IH].
Qed.

Lemma go_e_FOP (P : A -> A -> Prop) mu v (rp : list A) : forall suf,
  ForallOrdPairs P (rev rp ++ suf) -> ForallOrdPairs P (go_e mu v rp suf).
Proof.
  induction rp as [|x rp IH]; intros suf H; [exact H|].
  cbn [go_e]. cbn [rev] in H. rewrite <- app_assoc in H. cbn [app] in H.
  pose proof (FOP_remove_mid P _ _ _ H) as Hd.
  destruct (en x) as [e|]; [|apply IH; exact H].
  destruct (outlier mu v e || existsb (near e) suf); [apply IH; exact Hd|apply IH; exact H].
Qed.

(* conformers without an energy are never removed *)
Lemma go_e_keeps_none mu v (rp : list A) : forall suf y,
  In y (rev rp ++ suf) -> en y = None -> In y (go_e mu v rp suf).
Proof.
  induction rp as [|x rp IH]; intros suf y Hy Ey; [exact Hy|].
  cbn [go_e]. cbn [rev] in Hy. rewrite <- app_assoc in Hy. cbn [app] in Hy.
  destruct (en x) as [e|] eqn:Ex; [|apply IH; assumption].
  destruct (outlier mu v e || existsb (near e) suf); [|apply IH; assumption].
  apply IH; [|exact Ey]. apply in_app_or in Hy. apply in_or_app.
  destruct Hy as [Hy|[Hy|Hy]]; [left; exact Hy| |right; exact Hy]. subst y. congruence.
Qed.

(* two energies at least e_tol apart *)
Definition apart (x y : A) : Prop :=
  forall e e', en x = Some e -> en y = Some e' -> (e_tol <= Qcabs (e - e'))%Qc.

Lemma near_false_apart x e y : en x = Some e -> near e y = false -> apart x y.
Proof.
  intros Ex H e1 e2 E1 E2. rewrite Ex in E1. injection E1 as <-. unfold Model.near in H.
  rewrite E2 in H. apply Qcltb_false_iff. exact H.
Qed.

Lemma apart_sym x y : apart x y -> apart y x.
Proof. intros H e e' E1 E2. rewrite Qcabs_sym. apply H; assumption. Qed.

Lemma apart_none_l x y : en x = None -> apart x y.
Proof. intros Ex e e' E1. congruence. Qed.

Lemma apart_none_r x y : en y = None -> apart x y.
Proof. intros Ey e e' _ E2. congruence. Qed.

(* pairwise separation of the retained energies *)
Lemma go_e_separated mu v (rp : list A) : forall suf,
  ForallOrdPairs apart suf -> ForallOrdPairs apart (go_e mu v rp suf).
Proof.
  induction rp as [|x rp IH]; intros suf H; [exact H|].
  cbn [go_e]. destruct (en x) as [e|] eqn:Ex.
  - destruct (outlier mu v e || existsb (near e) suf) eqn:E; [apply IH; exact H|].
    apply orb_false_iff in E. destruct E as [_ E]. apply IH. constructor; [|exact H].
    apply existsb_false_forall in E. eapply Forall_impl; [|exact E].
    intros a Ha. eapply near_false_apart; eassumption.
  - apply IH. constructor; [|exact H]. apply Forall_forall. intros a _. apply apart_none_l. exact Ex.
Qed.

Definition nearP (x y : A) : Prop :=
  exists e e', en x = Some e /\ en y = Some e' /\ (Qcabs (e - e') < e_tol)%Qc.
Definition is_outlier mu v (y : A) : Prop := exists e, en y = Some e /\ outlier mu v e = true.
Definition non_outlier mu v (y : A) : Prop := exists e, en y = Some e /\ outlier mu v e = false.

(* every conformer that is not an outlier is itself retained or within e_tol of a retained one *)
Lemma go_e_keeps_near mu v (rp : list A) : forall suf x,
  In x (rev rp) -> non_outlier mu v x ->
  exists y, In y (go_e mu v rp suf) /\ (x = y \/ nearP x y).
Proof.
  induction rp as [|c rp IH]; intros suf x Hx Hno; [destruct Hx|].
  cbn [rev] in Hx. apply in_app_or in Hx. cbn [go_e].
  destruct Hx as [Hx|[<-|[]]].
  - destruct (en c) as [e|]; [|apply IH; assumption].
    destruct (outlier mu v e || existsb (near e) suf); apply IH; assumption.
  - destruct Hno as [e [Ec Eo]]. rewrite Ec, Eo. cbn [orb].
    destruct (existsb (near e) suf) eqn:En.
    + apply existsb_exists in En. destruct En as [o [Ho Hn]].
      destruct (go_e_suffix mu v rp suf) as [k Hk]. exists o. split.
      * rewrite Hk. apply in_or_app. right. exact Ho.
      * right. unfold Model.near in Hn. destruct (en o) as [e'|] eqn:Eo'; [|discriminate].
        exists e, e'. split; [exact Ec|]. split; [exact Eo'|]. apply Qcltb_iff. exact Hn.
    + destruct (go_e_suffix mu v rp (c :: suf)) as [k Hk]. exists c. split; [|left; reflexivity].
      rewrite Hk. apply in_or_app. right. left. reflexivity.
Qed.

(* what is deleted is an outlier or within e_tol of a retained conformer *)
Lemma go_e_deleted mu v (rp : list A) : forall suf x,
  In x (rev rp) -> ~ In x (go_e mu v rp suf) ->
  is_outlier mu v x \/ exists y, In y (go_e mu v rp suf) /\ nearP x y.
Proof.
  intros suf x Hx Hnot.
  destruct (en x) as [e|] eqn:Ex.
  - destruct (outlier mu v e) eqn:Eo; [left; exists e; split; assumption|right].
    destruct (go_e_keeps_near mu v rp suf x Hx) as [y [Hy [<-|Hn]]]; [exists e; split; assumption|contradiction|].
    exists y. split; assumption.
  - exfalso. apply Hnot. apply go_e_keeps_none; [apply in_or_app; left; exact Hx|exact Ex].
Qed.

(* a separated list without outliers is left unchanged *)
Lemma go_e_fix mu v (p : list A) : forall suf,
  ForallOrdPairs apart (p ++ suf) ->
  (forall x e, In x p -> en x = Some e -> outlier mu v e = false) ->
  go_e mu v (rev p) suf = p ++ suf.
Proof.
  induction p as [|x p IH] using rev_ind; intros suf HF Hno; [reflexivity|].
  rewrite rev_app_distr. cbn [rev app go_e]. rewrite <- app_assoc in HF |- *. cbn [app] in HF |- *.
  assert (Hno' : forall y e, In y p -> en y = Some e -> outlier mu v e = false).
  { intros y e Hy. apply Hno. apply in_or_app. left. exact Hy. }
  destruct (en x) as [e|] eqn:Ex; [|apply IH; assumption].
  assert (Hxin : In x (p ++ [x])) by (apply in_or_app; right; left; reflexivity).
  rewrite (Hno x e Hxin Ex). cbn [orb].
  assert (Hq : existsb (near e) suf = false).
  { apply existsb_false_forall. destruct (FOP_mid _ _ _ _ HF) as [_ H2].
    eapply Forall_impl; [|exact H2]. intros y Hy. unfold Model.near.
    destruct (en y) as [e'|] eqn:Ey; [|reflexivity]. apply Qcltb_false_iff. apply Hy; assumption. }
  rewrite Hq. apply IH; assumption.
Qed.

(* ----- packaged facts about prune_on_energy ----- *)
Lemma energies_in (l : list A) e : In e (energies_of A en l) <-> exists x, In x l /\ en x = Some e.
Proof.
  unfold energies_of. rewrite in_flat_map. split.
  - intros [x [Hx He]]. exists x. split; [exact Hx|]. destruct (en x) as [e'|]; [|destruct He].
    destruct He as [->|[]]. reflexivity.
  - intros [x [Hx He]]. exists x. split; [exact Hx|]. rewrite He. left. reflexivity.
Qed.

Lemma prune_on_energy_facts (l : list A) :
  exists r, prune_on_energy A en e_tol n_sigma l = Ok r /\ incl r l /\
            (forall y, In y l -> en y = None -> In y r) /\
            ForallOrdPairs apart r /\
            (forall P : A -> A -> Prop, ForallOrdPairs P l -> ForallOrdPairs P r).
Proof.
  rewrite prune_on_energy_spec. destruct (length (energies_of A en l) <? 2) eqn:E.
  - exists l. split; [reflexivity|]. split; [apply incl_refl|]. split; [auto|]. split; [|auto].
    (* fewer than two energies: nothing to separate *)
    apply Nat.ltb_lt in E. clear - E. induction l as [|x l IH]; [constructor|].
    cbn [energies_of flat_map] in E. constructor.
    + apply Forall_forall. intros y Hy e e' Ex Ey. exfalso.
      rewrite Ex in E. cbn [app length] in E.
      assert (Hin : In e' (energies_of A en l)) by (apply energies_in; exists y; split; assumption).
      unfold energies_of in Hin. destruct (flat_map _ l); [destruct Hin|cbn [length] in E; lia].
    + apply IH. destruct (en x); cbn [app length] in E; [|exact E]. fold (energies_of A en l) in E. lia.
  - eexists. split; [reflexivity|]. split; [|split; [|split]].
    + intros y Hy. apply go_e_incl in Hy. rewrite app_nil_r, rev_involutive in Hy. exact Hy.
    + intros y Hy Ey. apply go_e_keeps_none; [|exact Ey]. rewrite app_nil_r, rev_involutive. exact Hy.
    + apply go_e_separated. constructor.
    + intros P H. apply go_e_FOP. rewrite app_nil_r, rev_involutive. exact H.
Qed.

Lemma FOP_apart_all (r r1 : list A) x r2 :
  ForallOrdPairs apart r -> r = r1 ++ x :: r2 -> Forall (apart x) (r1 ++ r2).
Proof.
  intros H ->. destruct (FOP_mid _ _ _ _ H) as [H1 H2]. apply Forall_app. split; [|exact H2].
  eapply Forall_impl; [|exact H1]. intros a Ha. apply apart_sym. exact Ha.
Qed.

Lemma prune_on_energy_fixpoint (r : list A) :
  ForallOrdPairs apart r ->
  (forall x e, In x r -> en x = Some e -> outlier (e_mu r) (e_v r) e = false) ->
  prune_on_energy A en e_tol n_sigma r = Ok r.
Proof.
  intros HF Hno. rewrite prune_on_energy_spec. destruct (length (energies_of A en r) <? 2); [reflexivity|].
  rewrite (go_e_fix (e_mu r) (e_v r) r []); [rewrite app_nil_r; reflexivity| |exact Hno].
  rewrite app_nil_r. exact HF.
Qed.

(* n_sigma >= 1: some conformer with an energy is not an outlier *)
Lemma exists_non_outlier (l : list A) :
  energies_of A en l <> [] -> (Q2Qc 1 <= n_sigma)%Qc ->
  exists x, In x l /\ non_outlier (e_mu l) (e_v l) x.
Proof.
  intros Hne Hn. destruct (exists_non_outlier_energy n_sigma _ Hne Hn) as [e [Hin Ho]].
  apply energies_in in Hin. destruct Hin as [x [Hx Ex]]. exists x. split; [exact Hx|].
  exists e. split; assumption.
Qed.

Lemma prune_on_energy_keeps_near (l r : list A) x :
  prune_on_energy A en e_tol n_sigma l = Ok r -> In x l -> non_outlier (e_mu l) (e_v l) x ->
  exists y, In y r /\ (x = y \/ nearP x y).
Proof.
  rewrite prune_on_energy_spec. intros H Hx Hno. injection H as <-.
  destruct (length (energies_of A en l) <? 2).
  - exists x. split; [exact Hx|left; reflexivity].
  - apply go_e_keeps_near; [rewrite rev_involutive; exact Hx|exact Hno].
Qed.

Lemma prune_on_energy_deleted (l r : list A) x :
  prune_on_energy A en e_tol n_sigma l = Ok r -> In x l -> ~ In x r ->
  is_outlier (e_mu l) (e_v l) x \/ exists y, In y r /\ nearP x y.
Proof.
  rewrite prune_on_energy_spec. intros H Hx Hnot. injection H as <-.
  destruct (length (energies_of A en l) <? 2); [contradiction|].
  apply go_e_deleted; [rewrite rev_involutive; exact Hx|exact Hnot].
Qed.

Lemma prune_on_energy_nonempty (l r : list A) :
  prune_on_energy A en e_tol n_sigma l = Ok r -> l <> [] -> (Q2Qc 1 <= n_sigma)%Qc -> r <> [].
Proof.
  intros H Hne Hn.
  destruct (energies_of A en l) as [|e0 es] eqn:Ees.
  - (* no energies at all: nothing is touched *)
    rewrite prune_on_energy_spec, Ees in H. cbn [length Nat.ltb Nat.leb] in H. injection H as <-. exact Hne.
  - assert (Hes : energies_of A en l <> []) by (rewrite Ees; discriminate).
    destruct (exists_non_outlier l Hes Hn) as [x [Hx Hno]].
    destruct (prune_on_energy_keeps_near l r x H Hx Hno) as [y [Hy _]].
    intro Hnil. rewrite Hnil in Hy. destruct Hy.
Qed.

(* the property's sentences, as predicates (used by the *_refuted theorems) *)
Definition lowest_non_outlier (l : list A) (m : Qc) : Prop :=
  (exists x, In x l /\ en x = Some m /\ outlier (e_mu l) (e_v l) m = false) /\
  (forall y e, In y l -> en y = Some e -> outlier (e_mu l) (e_v l) e = false -> (m <= e)%Qc).
Definition stays_nonempty (l : list A) : Prop :=
  forall r, prune_on_energy A en e_tol n_sigma l = Ok r -> l <> [] -> r <> [].
Definition idempotent_on (l : list A) : Prop :=
  forall r, prune_on_energy A en e_tol n_sigma l = Ok r -> prune_on_energy A en e_tol n_sigma r = Ok r.
End Energy.
End ConformerLemmas.

(* ------------------------------------------------------------------------------------------ *)
(* Complex bookkeeping *)
Section ComplexLemmas.
Variable At : Type.
Notation mol := (mol At).
Notation m_atoms := (m_atoms At).
Notation g_nodes := (g_nodes At).
Notation g_edges := (g_edges At).

Definition natoms (m : mol) : nat := length (m_atoms m).
Definition nsum (f : mol -> nat) (ms : list mol) : nat := list_sum (map f ms).
Definition zsum (l : list Z) : Z := fold_right Z.add 0%Z l.

(* the accumulator of `sum(..., None)` once it is a plain list: later molecules are appended *)
Lemma fold_add_list (rest : list mol) : forall l0,
  fold_left (fun a m => add_atoms At a (m_atoms m)) rest (AList At l0) =
  AList At (l0 ++ concat (map m_atoms rest)).
Proof.
  induction rest as [|m r IH]; intro l0; cbn [fold_left add_atoms map concat].
  - rewrite app_nil_r. reflexivity.
  - rewrite IH, <- app_assoc. reflexivity.
Qed.

Lemma c_atoms_concat ms : c_atoms At ms = concat (map m_atoms ms).
Proof.
  unfold c_atoms. destruct ms as [|m1 [|m2 r]]; cbn [fold_left add_atoms acc_list map concat].
  - reflexivity.
  - rewrite app_nil_r. reflexivity.
  - rewrite fold_add_list. cbn [acc_list]. rewrite <- app_assoc. reflexivity.
Qed.

Lemma fold_zadd (f : mol -> Z) (ms : list mol) : forall init,
  fold_left (fun acc m => (acc + f m)%Z) ms init = (init + zsum (map f ms))%Z.
Proof.
  induction ms as [|m ms IH]; intro init; cbn [fold_left map zsum fold_right].
  - lia.
  - rewrite IH. fold (zsum (map f ms)). lia.
Qed.

Lemma c_charge_sum ms : c_charge At ms = zsum (map (m_charge At) ms).
Proof. unfold c_charge. rewrite fold_zadd. lia. Qed.

Lemma c_mult_formula ms :
  c_mult At ms = (zsum (map (m_mult At) ms) - (Z.of_nat (length ms) - 1))%Z.
Proof. unfold c_mult. rewrite fold_zadd. lia. Qed.

Lemma fold_nadd (f : mol -> nat) (ms : list mol) : forall init,
  fold_left (fun acc m => acc + f m) ms init = init + nsum f ms.
Proof.
  unfold nsum, list_sum. induction ms as [|m ms IH]; intro init; cbn [fold_left map fold_right].
  - lia.
  - rewrite IH. lia.
Qed.

Lemma n_atoms_sum_eq ms : n_atoms_sum At ms = nsum natoms ms.
Proof. unfold n_atoms_sum. rewrite (fold_nadd natoms). lia. Qed.

Lemma nsum_app f a b : nsum f (a ++ b) = nsum f a + nsum f b.
Proof. unfold nsum. rewrite map_app, list_sum_app. reflexivity. Qed.

Lemma length_concat_atoms ms : length (concat (map m_atoms ms)) = nsum natoms ms.
Proof.
  unfold nsum, list_sum. induction ms as [|m ms IH]; [reflexivity|].
  cbn [map concat fold_right]. rewrite app_length, IH. reflexivity.
Qed.

Definition off (ms : list mol) (k : nat) : nat := nsum natoms (firstn k ms).
Definition goff (ms : list mol) (k : nat) : nat := nsum g_nodes (firstn k ms).

Lemma firstn_S_nth (ms : list mol) : forall k m, nth_error ms k = Some m -> firstn (S k) ms = firstn k ms ++ [m].
Proof.
  induction ms as [|x ms IH]; intros k m H.
  - destruct k; discriminate.
  - destruct k as [|k].
    + cbn in H. injection H as ->. reflexivity.
    + cbn [nth_error] in H. change (firstn (S (S k)) (x :: ms)) with (x :: firstn (S k) ms).
      rewrite (IH k m H). reflexivity.
Qed.

Lemma off_S ms k m : nth_error ms k = Some m -> off ms (S k) = off ms k + natoms m.
Proof.
  intro H. unfold off. rewrite (firstn_S_nth ms k m H), nsum_app. unfold nsum, list_sum. cbn [map fold_right]. lia.
Qed.

Lemma c_atoms_length ms : length (c_atoms At ms) = nsum natoms ms.
Proof. rewrite c_atoms_concat. apply length_concat_atoms. Qed.

Lemma off_all ms : off ms (length ms) = length (c_atoms At ms).
Proof. unfold off. rewrite firstn_all, c_atoms_length. reflexivity. Qed.

Lemma atom_indexes_spec ms k :
  atom_indexes At ms k =
  match nth_error ms k with Some m => Some (seq (off ms k) (natoms m)) | None => None end.
Proof.
  unfold atom_indexes. destruct (k <? length ms) eqn:E.
  - apply Nat.ltb_lt in E. destruct (nth_error ms k) as [m|] eqn:En.
    + rewrite !n_atoms_sum_eq. fold (off ms k). fold (off ms (S k)). rewrite (off_S ms k m En).
      replace (off ms k + natoms m - off ms k) with (natoms m) by lia. reflexivity.
    + apply nth_error_None in En. lia.
  - apply Nat.ltb_ge in E. apply nth_error_None in E. rewrite E. reflexivity.
Qed.

Definition idx_or_nil (ms : list mol) (k : nat) : list nat :=
  match atom_indexes At ms k with Some l => l | None => [] end.

Lemma partition_prefix ms : forall n, n <= length ms ->
  flat_map (idx_or_nil ms) (seq 0 n) = seq 0 (off ms n).
Proof.
  induction n as [|n IH]; intro Hn.
  - reflexivity.
  - rewrite seq_S, flat_map_app, IH by lia. cbn [plus flat_map]. rewrite app_nil_r.
    unfold idx_or_nil. rewrite atom_indexes_spec.
    destruct (nth_error ms n) as [m|] eqn:En; [|apply nth_error_None in En; lia].
    rewrite (off_S ms n m En). rewrite seq_app. reflexivity.
Qed.

Lemma partition_all ms :
  flat_map (idx_or_nil ms) (seq 0 (length ms)) = seq 0 (length (c_atoms At ms)).
Proof. rewrite partition_prefix by lia. rewrite off_all. reflexivity. Qed.

Lemma c_atoms_nth ms k m j :
  nth_error ms k = Some m -> j < natoms m ->
  nth_error (c_atoms At ms) (off ms k + j) = nth_error (m_atoms m) j.
Proof.
  intros Hk Hj. destruct (nth_error_split ms k Hk) as [l1 [l2 [Hms Hl]]].
  assert (Hf : firstn k ms = l1).
  { rewrite Hms, <- Hl. rewrite firstn_app, Nat.sub_diag, firstn_all. cbn [firstn]. apply app_nil_r. }
  unfold off. rewrite Hf. rewrite c_atoms_concat. rewrite Hms at 1.
  rewrite map_app, concat_app. cbn [map concat].
  rewrite nth_error_app2 by (rewrite length_concat_atoms; lia).
  rewrite length_concat_atoms. replace (nsum natoms l1 + j - nsum natoms l1) with j by lia.
  rewrite nth_error_app1 by exact Hj. reflexivity.
Qed.

(* disjoint union graph *)
Lemma union_shift_nodes ms : forall o, fst (union_shift At o ms) = o + nsum g_nodes ms.
Proof.
  unfold nsum, list_sum. induction ms as [|m ms IH]; intro o; cbn [union_shift map fold_right].
  - cbn. lia.
  - specialize (IH (o + g_nodes m)). destruct (union_shift At (o + g_nodes m) ms) as [n es].
    cbn [fst] in *. lia.
Qed.

Lemma goff_0 ms : goff ms 0 = 0.
Proof. reflexivity. Qed.

Lemma goff_cons m ms k : goff (m :: ms) (S k) = g_nodes m + goff ms k.
Proof. unfold goff, nsum, list_sum. cbn [firstn map fold_right]. reflexivity. Qed.

Lemma union_shift_edges ms : forall o a b,
  In (a, b) (snd (union_shift At o ms)) <->
  exists k m a' b', nth_error ms k = Some m /\ In (a', b') (g_edges m) /\
                    a = o + goff ms k + a' /\ b = o + goff ms k + b'.
Proof.
  induction ms as [|m ms IH]; intros o a b.
  - cbn [union_shift snd]. split; [intros []|].
    intros [k [m [a' [b' [H _]]]]]. destruct k; discriminate.
  - cbn [union_shift]. specialize (IH (o + g_nodes m) a b).
    destruct (union_shift At (o + g_nodes m) ms) as [n es]. cbn [snd] in *. split.
    + intro H. apply in_app_or in H. destruct H as [H|H].
      * apply in_map_iff in H. destruct H as [[a' b'] [He Hin]]. unfold shift_edge in He. cbn [fst snd] in He.
        injection He as Ha Hb. exists 0, m, a', b'. cbn [nth_error]. rewrite goff_0.
        split; [reflexivity|]. split; [exact Hin|]. lia.
      * apply IH in H. destruct H as [k [m' [a' [b' [Hk [Hin [Ha Hb]]]]]]].
        exists (S k), m', a', b'. cbn [nth_error]. rewrite goff_cons.
        split; [exact Hk|]. split; [exact Hin|]. lia.
    + intros [k [m' [a' [b' [Hk [Hin [Ha Hb]]]]]]]. apply in_or_app. destruct k as [|k].
      * left. cbn [nth_error] in Hk. injection Hk as <-. rewrite goff_0 in Ha, Hb.
        apply in_map_iff. exists (a', b'). split; [|exact Hin]. unfold shift_edge. cbn [fst snd].
        f_equal; lia.
      * right. apply IH. cbn [nth_error] in Hk. rewrite goff_cons in Ha, Hb.
        exists k, m', a', b'. split; [exact Hk|]. split; [exact Hin|]. lia.
Qed.

(* with the nodes in label order (a freshly built graph) position = label and the code's union is the aligned one *)
Definition sorted_nodes (m : mol) : Prop :=
  g_order At m = seq 0 (g_nodes m) /\ forall a b, In (a, b) (g_edges m) -> a < g_nodes m /\ b < g_nodes m.

Lemma pos_of_seq n : forall s a, s <= a < s + n -> pos_of a (seq s n) = a - s.
Proof.
  induction n as [|n IH]; intros s a H; [lia|]. cbn [seq pos_of].
  destruct (a =? s) eqn:E.
  - apply Nat.eqb_eq in E. lia.
  - apply Nat.eqb_neq in E. rewrite IH by lia. lia.
Qed.

Lemma union_from_sorted ms : (forall m, In m ms -> sorted_nodes m) ->
  forall o, union_from At o ms = union_shift At o ms.
Proof.
  induction ms as [|m ms IH]; intros H o; [reflexivity|].
  cbn [union_from union_shift]. rewrite IH by (intros m' Hm'; apply H; right; exact Hm').
  destruct (union_shift At (o + g_nodes m) ms) as [n es]. f_equal. f_equal.
  destruct (H m (or_introl eq_refl)) as [Ho He].
  apply map_ext_in. intros [a b] Hab. destruct (He a b Hab) as [Ha Hb].
  unfold relabel_edge, shift_edge. cbn [fst snd]. rewrite Ho.
  rewrite !pos_of_seq by lia. f_equal; lia.
Qed.

Lemma nsum_ext_in (f g : mol -> nat) (l : list mol) :
  (forall m, In m l -> f m = g m) -> nsum f l = nsum g l.
Proof.
  unfold nsum, list_sum. induction l as [|x l IH]; intro H; [reflexivity|].
  cbn [map fold_right]. rewrite (H x (or_introl eq_refl)), IH; [reflexivity|].
  intros m Hm. apply H. right. exact Hm.
Qed.

Lemma firstn_incl {B} (l : list B) : forall k, incl (firstn k l) l.
Proof.
  induction l as [|x l IH]; intros k y Hy.
  - destruct k; exact Hy.
  - destruct k as [|k]; [destruct Hy|]. cbn [firstn] in Hy. destruct Hy as [Hy|Hy]; [left; exact Hy|right; exact (IH k y Hy)].
Qed.

Lemma goff_off ms k : (forall m, In m ms -> g_nodes m = natoms m) -> goff ms k = off ms k.
Proof.
  intro H. unfold goff, off. apply nsum_ext_in. intros m Hm. apply H. exact (firstn_incl ms k m Hm).
Qed.
End ComplexLemmas.

(* ------------------------------------------------------------------------------------------ *)
(* rigid motions and the push loop *)
Local Open Scope Qc_scope.
Lemma dist2_translate t p q : dist2 (translate t p) (translate t q) = dist2 p q.
Proof. destruct t as [[tx ty] tz], p as [[x1 y1] z1], q as [[x2 y2] z2]. unfold dist2, translate, px, py, pz. cbn [fst snd]. ring. Qed.

Lemma translate_translate t1 t2 p :
  translate t2 (translate t1 p) = translate (translate t2 t1) p.
Proof.
  destruct t1 as [[a1 b1] c1], t2 as [[a2 b2] c2], p as [[x y] z].
  unfold translate, px, py, pz. cbn [fst snd]. f_equal; [f_equal|]; ring.
Qed.

Lemma dist2_mapply R p q : orthogonal R -> dist2 (mapply R p) (mapply R q) = dist2 p q.
Proof.
  intros [H00 [H11 [H22 [H01 [H02 H12]]]]].
  set (ux := px p - px q). set (uy := py p - py q). set (uz := pz p - pz q).
  assert (E : dist2 (mapply R p) (mapply R q) =
              pdot (col R 0) (col R 0) * (ux * ux) + pdot (col R 1) (col R 1) * (uy * uy) +
              pdot (col R 2) (col R 2) * (uz * uz) +
              (Q2Qc 1 + Q2Qc 1) * (pdot (col R 0) (col R 1) * (ux * uy) + pdot (col R 0) (col R 2) * (ux * uz) +
                                   pdot (col R 1) (col R 2) * (uy * uz))).
  { subst ux uy uz. destruct R as [[[[a1 b1] c1] [[a2 b2] c2]] [[a3 b3] c3]].
    destruct p as [[x1 y1] z1], q as [[x2 y2] z2].
    unfold dist2, mapply, pdot, col, px, py, pz. cbn [fst snd]. ring. }
  rewrite E, H00, H11, H22, H01, H02, H12. subst ux uy uz. unfold dist2. ring.
Qed.

Lemma dist2_rigid R c p q : orthogonal R -> dist2 (rigid R c p) (rigid R c q) = dist2 p q.
Proof. intro H. unfold rigid. rewrite dist2_mapply by exact H. apply dist2_translate. Qed.

Lemma push_spec fuel : forall cur ml point ml',
  push fuel cur ml point = Some ml' ->
  all_far cur ml' = true /\ exists t, ml' = map (translate t) ml.
Proof.
  induction fuel as [|f IH]; intros cur ml point ml' H; [discriminate|].
  cbn [push] in H. destruct (all_far cur (map (translate (step_vec point)) ml)) eqn:E.
  - injection H as <-. split; [exact E|]. exists (step_vec point). reflexivity.
  - destruct (IH _ _ _ _ H) as [H1 [t Ht]]. split; [exact H1|].
    exists (translate t (step_vec point)). rewrite Ht, map_map.
    apply map_ext. intro p. apply translate_translate.
Qed.

Lemma all_far_spec cur ml : all_far cur ml = true ->
  forall p q, In p cur -> In q ml -> Q2Qc 4 < dist2 p q.
Proof.
  unfold all_far. intros H p q Hp Hq. rewrite forallb_forall in H. specialize (H p Hp).
  rewrite forallb_forall in H. apply Qcltb_iff. apply H. exact Hq.
Qed.
Local Close Scope Qc_scope.
