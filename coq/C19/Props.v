(* C19/Props.v — the property theorems for "Conformer pruning/selection and complex assembly keep
   what they promise".  Every theorem is about the literal loop models of C19/Model.v, for ALL
   conformer lists / thresholds / oracles (induction), except the `_refuted` ones, which exhibit a
   concrete input on which the faithful model — and, replayed by harness/c19.py, the real code —
   violates a sentence of the property. *)
From Coq Require Import ZArith QArith Qcanon List Bool Arith Lia.
From AV.lib Require Import QcInst.
From AV.C19 Require Import Model Lemmas.
Import ListNotations.
Local Open Scope nat_scope.

(* =================================== RMSD pruning =========================================== *)

(* prune_on_rmsd never raises, only deletes, never empties a non-empty set (the final conformer
   always survives), for every distance oracle d and tolerance. *)
Theorem rmsd_prune_nonempty :
  forall (A : Type) (d : A -> A -> Qc) (tol : Qc) (l : list A),
  exists r, prune_on_rmsd A d tol l = Ok r /\ incl r l /\ (l <> [] -> r <> []) /\
            (forall dflt, last r dflt = last l dflt).
Proof.
  intros A d tol l. destruct (prune_on_rmsd_facts A d tol l) as [r [H1 [H2 [H3 [H4 _]]]]].
  exists r. repeat split; assumption.
Qed.

(* All remaining pairs are >= tol apart: every retained conformer except the final one is >= tol from
   EVERY other retained conformer (d conf other, the orientation the code evaluates); for the final
   one the orientation d other final holds; with a symmetric d all pairs in both orientations. *)
Theorem rmsd_prune_separated :
  forall (A : Type) (d : A -> A -> Qc) (tol : Qc) (l r : list A),
  prune_on_rmsd A d tol l = Ok r ->
  ForallOrdPairs (fun x y => (tol <= d x y)%Qc) r /\
  (forall r1 x r2, r = r1 ++ x :: r2 -> r2 <> [] -> Forall (fun o => (tol <= d x o)%Qc) (r1 ++ r2)) /\
  ((forall a b, d a b = d b a) ->
   forall r1 x r2, r = r1 ++ x :: r2 -> Forall (fun o => (tol <= d x o)%Qc) (r1 ++ r2)).
Proof.
  intros A d tol l r H. destruct (prune_on_rmsd_facts A d tol l) as [r' [H1 [_ [_ [_ [H5 [_ H7]]]]]]].
  rewrite H in H1. injection H1 as <-. split; [exact H5|]. split; [exact H7|].
  intros Hsym r1 x r2 ->. destruct (FOP_mid _ _ _ _ H5) as [Ha Hb]. apply Forall_app. split; [|exact Hb].
  eapply Forall_impl; [|exact Ha]. intros a Hfa. unfold far in Hfa. rewrite Hsym. exact Hfa.
Qed.

Theorem rmsd_prune_idempotent :
  forall (A : Type) (d : A -> A -> Qc) (tol : Qc) (l r : list A),
  prune_on_rmsd A d tol l = Ok r -> prune_on_rmsd A d tol r = Ok r.
Proof. exact prune_on_rmsd_idem. Qed.

(* The tolerance ARGUMENT of prune_on_rmsd (conformers.py:183-193, after `fix:` 5b3a1b1): for None, a python
   float, any other number, or a Distance in any unit, the call is prune_on_rmsd with the threshold in
   Angstrom that the caller meant - so the three theorems above hold for every call: it never raises, never
   empties, separates by the meant threshold and is idempotent.  (Before the fix an int raised and
   Distance(0.01 nm) was used as 0.01 A; the harness keeps those inputs as regression cases.) *)
Theorem rmsd_tolerance_argument :
  forall (A : Type) (d : A -> A -> Qc) (default : Qc) (t : tol_arg) (l : list A),
  let tol := match t with TNone => default | TFloat x => x | TOther x => x | TDistance x f => (x * f)%Qc end in
  prune_on_rmsd_arg A d default t l = prune_on_rmsd A d tol l /\
  exists r, prune_on_rmsd_arg A d default t l = Ok r /\ (l <> [] -> r <> []) /\
            ForallOrdPairs (fun x y => (tol <= d x y)%Qc) r /\ prune_on_rmsd_arg A d default t r = Ok r.
Proof.
  intros A d default t l tol.
  assert (E : forall l', prune_on_rmsd_arg A d default t l' = prune_on_rmsd A d tol l').
  { intro l'. unfold prune_on_rmsd_arg, prune_on_rmsd. subst tol.
    destruct t; cbn [rmsd_tol_used]; destruct (length l' <? 2); reflexivity. }
  split; [apply E|].
  destruct (prune_on_rmsd_facts A d tol l) as [r [H1 [_ [H3 [_ [H5 _]]]]]].
  exists r. rewrite !E. split; [exact H1|]. split; [exact H3|]. split; [exact H5|].
  exact (prune_on_rmsd_idem A d tol l r H1).
Qed.

(* =================================== energy pruning ========================================= *)

(* No mixture of conformers with and without energies makes prune_on_energy raise (the Crash
   constructor of the literal index loop is unreachable); it only deletes, and conformers without an
   energy are never deleted. *)
Theorem energy_prune_no_crash :
  forall (A : Type) (en : A -> option Qc) (e_tol n_sigma : Qc) (l : list A),
  exists r, prune_on_energy A en e_tol n_sigma l = Ok r /\ incl r l /\
            (forall y, In y l -> en y = None -> In y r).
Proof.
  intros A en e_tol n_sigma l.
  destruct (prune_on_energy_facts A en e_tol n_sigma l) as [r [H1 [H2 [H3 _]]]].
  exists r. repeat split; assumption.
Qed.

(* The remaining energies are pairwise at least e_tol apart (any two retained conformers that both
   have an energy, in either order). *)
Theorem energy_prune_separated :
  forall (A : Type) (en : A -> option Qc) (e_tol n_sigma : Qc) (l r : list A),
  prune_on_energy A en e_tol n_sigma l = Ok r ->
  forall r1 x r2, r = r1 ++ x :: r2 ->
  Forall (fun o => forall e e', en x = Some e -> en o = Some e' -> (e_tol <= Qcabs (e - e'))%Qc) (r1 ++ r2).
Proof.
  intros A en e_tol n_sigma l r H r1 x r2 Hs.
  destruct (prune_on_energy_facts A en e_tol n_sigma l) as [r' [H1 [_ [_ [H4 _]]]]].
  rewrite H in H1. injection H1 as <-. exact (FOP_apart_all A en e_tol r r1 x r2 H4 Hs).
Qed.

(* A conformer whose energy is within e_tol of the lowest non-outlier energy is kept; more generally
   EVERY conformer that is not an outlier is itself retained or within e_tol of a retained conformer,
   and whatever is deleted is an outlier or within e_tol of a retained conformer.
   (Before `fix:` commit 00c84a3, which tests uniqueness against kept conformers only, this was false:
   [1.8, 0.9, 0.0, 5.0], e_tol = 1 retained [1.8, 5.0]; the harness keeps that input as a regression case.) *)
Theorem energy_prune_keeps_near_lowest :
  forall (A : Type) (en : A -> option Qc) (e_tol n_sigma : Qc) (l r : list A),
  prune_on_energy A en e_tol n_sigma l = Ok r ->
  (forall m, lowest_non_outlier A en n_sigma l m ->
     exists y e, In y r /\ en y = Some e /\ (e = m \/ (Qcabs (e - m) < e_tol)%Qc)) /\
  (forall x, In x l -> non_outlier A en n_sigma (e_mu A en l) (e_v A en l) x ->
     exists y, In y r /\ (x = y \/ nearP A en e_tol x y)) /\
  (forall x, In x l -> ~ In x r ->
     is_outlier A en n_sigma (e_mu A en l) (e_v A en l) x \/ exists y, In y r /\ nearP A en e_tol x y).
Proof.
  intros A en e_tol n_sigma l r H. split; [|split].
  - intros m [[x [Hx [Ex Eo]]] _].
    destruct (prune_on_energy_keeps_near A en e_tol n_sigma l r x H Hx) as [y [Hy Hc]];
      [exists m; split; assumption|].
    destruct Hc as [<-|[e1 [e2 [E1 [E2 Hlt]]]]].
    + exists x, m. split; [exact Hy|]. split; [exact Ex|left; reflexivity].
    + exists y, e2. split; [exact Hy|]. split; [exact E2|right].
      rewrite Ex in E1. injection E1 as <-. rewrite Qcabs_sym. exact Hlt.
  - intros x Hx Hno. exact (prune_on_energy_keeps_near A en e_tol n_sigma l r x H Hx Hno).
  - intros x Hx Hnot. exact (prune_on_energy_deleted A en e_tol n_sigma l r x H Hx Hnot).
Qed.

(* Non-emptiness for n_sigma >= 1: some conformer is within one (lower-bounded) standard deviation of the
   mean (sum of squared deviations = n * variance), it is not an outlier, and it or a conformer within
   e_tol of it is kept. *)
Theorem energy_prune_nonempty :
  forall (A : Type) (en : A -> option Qc) (e_tol n_sigma : Qc) (l r : list A),
  prune_on_energy A en e_tol n_sigma l = Ok r -> l <> [] -> (Q2Qc 1 <= n_sigma)%Qc ->
  r <> [] /\
  (energies_of A en l <> [] ->
   exists x, In x l /\ non_outlier A en n_sigma (e_mu A en l) (e_v A en l) x).
Proof.
  intros A en e_tol n_sigma l r H Hne Hn. split.
  - exact (prune_on_energy_nonempty A en e_tol n_sigma l r H Hne Hn).
  - intro Hes. exact (exists_non_outlier A en n_sigma l Hes Hn).
Qed.

(* ... but for n_sigma < 1 "never empties" is FALSE: every conformer can be an outlier.  Two conformers,
   n_sigma = 1/2 -> [].  FINDING (replayed on the real code): Conformers.prune_on_energy|n_sigma<1-empties. *)
Theorem energy_prune_nonempty_nsigma_lt1_refuted :
  exists (e_tol n_sigma : Qc) (l : list (option Qc)),
    (n_sigma < Q2Qc 1)%Qc /\ ~ stays_nonempty (option Qc) (fun x => x) e_tol n_sigma l.
Proof.
  exists (qc 1 100), (qc 1 2), [Some (qc 0 1); Some (qc 1 1)].
  split; [apply Qcltb_iff; vm_compute; reflexivity|].
  intro H. apply (H []); [vm_compute; reflexivity|discriminate|reflexivity].
Qed.

(* Idempotence is FALSE: mean and sigma are recomputed from the survivors, so a second call finds new
   outliers.  Witness n_sigma = 2, e_tol = 1/1000: [0, .01, .02, .03, .04, 3, 10] -> 6 survivors -> 5.
   FINDING: Conformers.prune_on_energy|not-idempotent. *)
Theorem energy_prune_idempotent_refuted :
  exists (e_tol n_sigma : Qc) (l : list (option Qc)),
    ~ idempotent_on (option Qc) (fun x => x) e_tol n_sigma l.
Proof.
  exists (qc 1 1000), (qc 2 1),
    [Some (qc 0 1); Some (qc 1 100); Some (qc 2 100); Some (qc 3 100); Some (qc 4 100); Some (qc 3 1); Some (qc 10 1)].
  intro H.
  specialize (H [Some (qc 0 1); Some (qc 1 100); Some (qc 2 100); Some (qc 3 100); Some (qc 4 100); Some (qc 3 1)]).
  assert (E : prune_on_energy (option Qc) (fun x => x) (qc 1 1000) (qc 2 1)
                [Some (qc 0 1); Some (qc 1 100); Some (qc 2 100); Some (qc 3 100); Some (qc 4 100); Some (qc 3 1)] =
              Ok [Some (qc 0 1); Some (qc 1 100); Some (qc 2 100); Some (qc 3 100); Some (qc 4 100)])
    by (vm_compute; reflexivity).
  rewrite E in H. assert (H' := H ltac:(vm_compute; reflexivity)).
  injection H' as H'. apply (f_equal (@length _)) in H'. cbn in H'. discriminate.
Qed.

(* PARTIAL idempotence: a second call changes nothing unless it finds NEW outliers — the result of a
   call is always pairwise separated, and a separated list without outliers (under its own mean and
   sigma) is a fixed point.  Missing for the full sentence: that proviso (see the refutation above). *)
Theorem energy_prune_idempotent_partial :
  forall (A : Type) (en : A -> option Qc) (e_tol n_sigma : Qc) (l r : list A),
  prune_on_energy A en e_tol n_sigma l = Ok r ->
  (forall x e, In x r -> en x = Some e -> outlier n_sigma (e_mu A en r) (e_v A en r) e = false) ->
  prune_on_energy A en e_tol n_sigma r = Ok r.
Proof.
  intros A en e_tol n_sigma l r H Hno.
  destruct (prune_on_energy_facts A en e_tol n_sigma l) as [r' [H1 [_ [_ [H4 _]]]]].
  rewrite H in H1. injection H1 as <-. apply prune_on_energy_fixpoint; assumption.
Qed.

(* =================================== selection ============================================== *)

(* The conformer selected as lowest is a member with an energy that is minimal over the list it is
   selected from (in particular over the retained conformers); None exactly when no conformer has an
   energy. *)
Theorem lowest_is_min_of_retained :
  forall (A : Type) (en : A -> option Qc) (r : list A),
  (forall c, lowest_energy A en r = Some c ->
     In c r /\ exists e, en c = Some e /\ forall y e', In y r -> en y = Some e' -> (e <= e')%Qc) /\
  (lowest_energy A en r = None <-> Forall (fun y => en y = None) r).
Proof.
  intros A en r. split; [intro c; apply lowest_energy_some|apply lowest_energy_none].
Qed.

(* remove_no_energy keeps exactly the conformers with an energy, in order, and raises NoConformers
   exactly when that empties a non-empty set; it never crashes. *)
Theorem remove_no_energy_exact :
  forall (A : Type) (en : A -> option Qc) (l : list A),
  remove_no_energy A en l =
  match l, filter (has_e A en) l with _ :: _, [] => NoConformers | _, r => Ok r end.
Proof. exact remove_no_energy_spec. Qed.

(* Conformers whose graph differs from the parent (iso = false) are excluded — exactly those — unless
   connectivity changes are allowed.  In find_lowest_energy_conformer the graph filter runs AFTER the
   optional high-level stage, so it is the FINAL geometry (iso_final) that is judged: the selected
   conformer has the parent's graph, and it is the minimum of the final energies (en_h) over the
   finally retained set — for any low-level energies en_l, high-level energies en_h and oracles. *)
Theorem diff_graph_excluded_unless_allowed :
  forall (A : Type) (en_l en_h : A -> option Qc) (iso_final : A -> bool) (e_tol n_sigma : Qc)
         (d : A -> A -> Qc) (r_tol : Qc) (l : list A),
  prune_diff_graph A iso_final l = Ok (filter iso_final l) /\
  (forall c r, select A en_l en_h iso_final e_tol n_sigma d r_tol false l = (Selected A c, Ok r) ->
     iso_final c = true /\ Forall (fun y => iso_final y = true) r /\ In c r /\
     exists e, en_h c = Some e /\ forall y e', In y r -> en_h y = Some e' -> (e <= e')%Qc) /\
  (forall c r, select A en_l en_h iso_final e_tol n_sigma d r_tol true l = (Selected A c, r) ->
     r = prune A en_l e_tol n_sigma d r_tol true l /\
     exists l3, r = Ok l3 /\ In c l3 /\
       exists e, en_h c = Some e /\ forall y e', In y l3 -> en_h y = Some e' -> (e <= e')%Qc).
Proof.
  intros A en_l en_h iso e_tol n_sigma d r_tol l. split; [apply prune_diff_graph_spec|]. split.
  - intros c r. unfold select. destruct (prune A en_l e_tol n_sigma d r_tol true l) as [l2| |]; cbn [bind].
    + rewrite prune_diff_graph_spec. destruct (filter iso l2) as [|x f] eqn:Ef; [discriminate|].
      destruct (lowest_energy A en_h (x :: f)) as [c'|] eqn:E; intro H; [|discriminate].
      injection H as -> <-. destruct (lowest_energy_some A en_h _ _ E) as [Hin He].
      assert (Hall : Forall (fun y => iso y = true) (x :: f)).
      { rewrite <- Ef. apply Forall_forall. intros y Hy. apply filter_In in Hy. apply Hy. }
      split; [rewrite Forall_forall in Hall; apply Hall; exact Hin|]. split; [exact Hall|]. split; [exact Hin|exact He].
    + discriminate.
    + discriminate.
  - intros c r. unfold select. destruct (prune A en_l e_tol n_sigma d r_tol true l) as [l2| |]; cbn [bind].
    + destruct l2 as [|x l2]; [discriminate|].
      destruct (lowest_energy A en_h (x :: l2)) as [c'|] eqn:E; intro H; [|discriminate]. injection H as -> <-.
      split; [reflexivity|]. exists (x :: l2). split; [reflexivity|]. exact (lowest_energy_some A en_h _ _ E).
    + discriminate.
    + discriminate.
Qed.

(* prune = remove_no_energy?; prune_on_energy; prune_on_rmsd never crashes (NoConformers only from
   remove_no_energy), and its result is separated in BOTH senses and contains the final conformer of
   the energy-pruned list. *)
Theorem prune_composition :
  forall (A : Type) (en : A -> option Qc) (e_tol n_sigma : Qc) (d : A -> A -> Qc) (r_tol : Qc)
         (rm : bool) (l : list A),
  (prune A en e_tol n_sigma d r_tol rm l = NoConformers /\ rm = true /\ l <> [] /\ filter (has_e A en) l = []) \/
  (exists r, prune A en e_tol n_sigma d r_tol rm l = Ok r /\ incl r l /\
             ForallOrdPairs (fun x y => (r_tol <= d x y)%Qc) r /\
             ForallOrdPairs (apart A en e_tol) r /\
             (forall l1 r1, (if rm then remove_no_energy A en l else Ok l) = Ok l1 ->
                            prune_on_energy A en e_tol n_sigma l1 = Ok r1 -> r1 <> [] -> r <> [])).
Proof.
  intros A en e_tol n_sigma d r_tol rm l. unfold prune.
  assert (Hstep : forall l1, incl l1 l ->
            exists r, bind (prune_on_energy A en e_tol n_sigma l1) (prune_on_rmsd A d r_tol) = Ok r /\ incl r l /\
                      ForallOrdPairs (fun x y => (r_tol <= d x y)%Qc) r /\ ForallOrdPairs (apart A en e_tol) r /\
                      (forall r1, prune_on_energy A en e_tol n_sigma l1 = Ok r1 -> r1 <> [] -> r <> [])).
  { intros l1 Hl1. destruct (prune_on_energy_facts A en e_tol n_sigma l1) as [r1 [E1 [I1 [_ [S1 _]]]]].
    destruct (prune_on_rmsd_facts A d r_tol r1) as [r2 [E2 [I2 [N2 [_ [S2 [P2 _]]]]]]].
    exists r2. rewrite E1. cbn [bind]. split; [exact E2|]. split; [|split; [exact S2|split; [apply P2; exact S1|]]].
    - intros y Hy. apply Hl1, I1, I2. exact Hy.
    - intros r1' Hr1'. injection Hr1' as <-. exact N2. }
  destruct rm.
  - rewrite remove_no_energy_spec. destruct l as [|x l].
    + right. cbn [filter bind]. destruct (Hstep [] (incl_refl _)) as [r [H1 [H2 [H3 [H4 H5]]]]].
      exists r. split; [exact H1|]. split; [exact H2|]. split; [exact H3|]. split; [exact H4|].
      intros l1 r1 Hl1. injection Hl1 as <-. apply H5.
    + destruct (filter (has_e A en) (x :: l)) as [|y f] eqn:Ef.
      * left. cbn [bind]. repeat split; [discriminate].
      * right. cbn [bind].
        assert (Hi : incl (y :: f) (x :: l)) by (rewrite <- Ef; intros a Ha; apply filter_In in Ha; apply Ha).
        destruct (Hstep (y :: f) Hi) as [r [H1 [H2 [H3 [H4 H5]]]]].
        exists r. split; [exact H1|]. split; [exact H2|]. split; [exact H3|]. split; [exact H4|].
        intros l1 r1 Hl1. injection Hl1 as <-. apply H5.
  - right. cbn [bind]. destruct (Hstep l (incl_refl _)) as [r [H1 [H2 [H3 [H4 H5]]]]].
    exists r. split; [exact H1|]. split; [exact H2|]. split; [exact H3|]. split; [exact H4|].
    intros l1 r1 Hl1. injection Hl1 as <-. apply H5.
Qed.

(* =================================== Complex ================================================ *)

(* The atoms of a complex are the molecules' atoms concatenated in order, for any number of molecules
   (the model follows Python's dispatch of `sum(..., None)` over Atoms objects: None + Atoms,
   Atoms + Atoms, list + Atoms -> Atoms.__radd__; before `fix:` commit facdd37 on Atoms.__radd__ molecules
   3..n were prepended — the harness keeps 3-molecule complexes as regression cases). *)
Theorem complex_atoms_concat :
  forall (At : Type) (ms : list (mol At)),
  c_atoms At ms = concat (map (m_atoms At) ms) /\ length (c_atoms At ms) = nsum At (natoms At) ms.
Proof. intros At ms. split; [apply c_atoms_concat|apply c_atoms_length]. Qed.

(* (definitional: the left fold of Python's sum() equals the sum; the content is in the correspondence) *)
Theorem complex_charge_sum :
  forall (At : Type) (ms : list (mol At)), c_charge At ms = fold_right Z.add 0%Z (map (m_charge At) ms).
Proof. exact c_charge_sum. Qed.

Theorem complex_mult :
  forall (At : Type) (ms : list (mol At)),
  c_mult At ms = (fold_right Z.add 0%Z (map (m_mult At) ms) - (Z.of_nat (length ms) - 1))%Z.
Proof. exact c_mult_formula. Qed.

(* atom_indexes partitions 0..N-1 into contiguous, disjoint ranges in molecule order, the k-th of the
   size of molecule k, and position j of range k IS atom j of molecule k; indexes outside
   0..n_molecules-1 are rejected. *)
Theorem atom_indexes_partition :
  forall (At : Type) (ms : list (mol At)),
  (forall k, atom_indexes At ms k =
             match nth_error ms k with
             | Some m => Some (seq (off At ms k) (length (m_atoms At m)))
             | None => None end) /\
  off At ms 0 = 0 /\
  (forall k m, nth_error ms k = Some m -> off At ms (S k) = off At ms k + length (m_atoms At m)) /\
  off At ms (length ms) = length (c_atoms At ms) /\
  flat_map (idx_or_nil At ms) (seq 0 (length ms)) = seq 0 (length (c_atoms At ms)) /\
  (forall k m j, nth_error ms k = Some m -> j < length (m_atoms At m) ->
                 nth_error (c_atoms At ms) (off At ms k + j) = nth_error (m_atoms At m) j).
Proof.
  intros At ms. split; [apply atom_indexes_spec|]. split; [reflexivity|]. split; [apply off_S|].
  split; [apply off_all|]. split; [apply partition_all|]. apply c_atoms_nth.
Qed.

(* The graph of the complex is nx.disjoint_union_all of the molecules' graphs, which relabels every
   node by its POSITION in the graph's iteration order.  PARTIAL: it is the disjoint union ALIGNED with
   the atoms (node count, edges = the molecules' edges shifted by the number of atoms before the
   molecule, every edge inside one molecule's atom_indexes range) PROVIDED every molecule's graph lists
   its nodes in label order 0..n-1 with in-range edges (`sorted_nodes`).  That proviso is an invariant of
   the two places where autodE builds a molecule's graph - make_graph adds the nodes 0..n-1 in order and,
   since `fix:` e56d617, mol_graphs.reorder_nodes re-inserts them in label order - but graph construction is
   not modelled, so it stays a premise here; both functions are source-pinned and the harness checks the
   premise on every molecule of every case (key `...|graph-nodes-not-in-label-order`).  Before e56d617 a
   re-ordered molecule (node order 2,0,1) violated it and the complex graph was misaligned with the atoms. *)
Theorem complex_graph_disjoint_union_partial :
  forall (At : Type) (ms : list (mol At)),
  (forall m, In m ms -> sorted_nodes At m) ->
  c_graph At ms = union_shift At 0 ms /\
  fst (c_graph At ms) = nsum At (g_nodes At) ms /\
  (forall a b, In (a, b) (snd (c_graph At ms)) <->
     exists k m a' b', nth_error ms k = Some m /\ In (a', b') (g_edges At m) /\
                       a = goff At ms k + a' /\ b = goff At ms k + b') /\
  ((forall m, In m ms -> g_nodes At m = length (m_atoms At m)) ->
   fst (c_graph At ms) = length (c_atoms At ms) /\
   forall a b, In (a, b) (snd (c_graph At ms)) ->
     exists k idxs, atom_indexes At ms k = Some idxs /\ In a idxs /\ In b idxs).
Proof.
  intros At ms Hs. unfold c_graph. rewrite (union_from_sorted At ms Hs 0).
  split; [reflexivity|]. split; [rewrite union_shift_nodes; reflexivity|]. split.
  - intros a b. rewrite union_shift_edges. cbn [plus]. reflexivity.
  - intro Hn0.
    assert (Hn : forall m, In m ms -> g_nodes At m = natoms At m) by (intros m Hm; apply (Hn0 m Hm)).
    split.
    + rewrite union_shift_nodes. cbn [plus]. rewrite (nsum_ext_in At _ (natoms At) ms Hn).
      rewrite c_atoms_length. reflexivity.
    + intros a b Hab. apply union_shift_edges in Hab. cbn [plus] in Hab.
      destruct Hab as [k [m [a' [b' [Hk [Hin [-> ->]]]]]]].
      exists k, (seq (off At ms k) (natoms At m)). rewrite atom_indexes_spec, Hk.
      split; [reflexivity|]. rewrite (goff_off At ms k Hn).
      assert (Hm : In m ms) by (eapply nth_error_In; exact Hk).
      destruct (Hs m Hm) as [_ He]. destruct (He a' b' Hin) as [Ha Hb].
      rewrite (Hn m Hm) in Ha, Hb. split; apply in_seq; lia.
Qed.

(* =================================== rigid-body conformers ================================== *)

(* PARTIAL.  Proved: the three primitive moves used by get_complex_conformer_atoms (translate, rotate by
   an orthogonal matrix about any centre, push along a direction) preserve every distance inside the
   moved set, for every number of atoms.  MISSING: there is no Gallina model of the generator itself (the
   loop over molecules, Atom.rotate's axis/angle -> matrix step, `atoms += shifted`), so that the code
   composes only these moves is NOT proved; it is exercised on the implementation only (stream rigid-body). *)
Theorem rigid_body_preserves_internal_partial :
  (forall R c p q, orthogonal R -> dist2 (rigid R c p) (rigid R c q) = dist2 p q) /\
  (forall t p q, dist2 (translate t p) (translate t q) = dist2 p q) /\
  (forall fuel cur ml point ml', push fuel cur ml point = Some ml' ->
     length ml' = length ml /\
     forall i j p q p' q', nth_error ml i = Some p -> nth_error ml j = Some q ->
                           nth_error ml' i = Some p' -> nth_error ml' j = Some q' ->
                           dist2 p' q' = dist2 p q).
Proof.
  split; [exact dist2_rigid|]. split; [exact dist2_translate|].
  intros fuel cur ml point ml' H. destruct (push_spec fuel cur ml point ml' H) as [_ [t ->]].
  split; [apply map_length|]. intros i j p q p' q' Hp Hq Hp' Hq'.
  rewrite (map_nth_error (translate t) i ml Hp) in Hp'. injection Hp' as <-.
  rewrite (map_nth_error (translate t) j ml Hq) in Hq'. injection Hq' as <-.
  apply dist2_translate.
Qed.

(* PARTIAL.  Proved: WHEN the push loop exits, every atom of the added molecule is more than 2 Angstrom
   (squared: 4) from every atom already placed, and later rigid motions of the whole complex keep that.
   MISSING: termination of the while-loop (the hypothesis `push fuel ... = Some ml'` excludes running out of
   fuel; the bound "after k pushes the distance is >= 0.1 k - r1 - r2" of the design is not proved). *)
Theorem separation_gt_2_on_exit_partial :
  forall fuel cur ml point ml', push fuel cur ml point = Some ml' ->
  forall p q, In p cur -> In q ml' -> (Q2Qc 4 < dist2 p q)%Qc /\
    forall R c, orthogonal R -> (Q2Qc 4 < dist2 (rigid R c p) (rigid R c q))%Qc.
Proof.
  intros fuel cur ml point ml' H p q Hp Hq. destruct (push_spec fuel cur ml point ml' H) as [Hfar _].
  pose proof (all_far_spec cur ml' Hfar p q Hp Hq) as Hd. split; [exact Hd|].
  intros R c HR. rewrite dist2_rigid by exact HR. exact Hd.
Qed.

(* =================================== non-vacuity ============================================ *)
Definition ex_l : list (option Qc) := [Some (qc 0 1); None; Some (qc 1 10); Some (qc 3 1); Some (qc 31 10); Some (qc 40 1)].

(* the hypotheses of the energy theorems are satisfiable on a list where pruning really deletes (an
   outlier and two near-duplicates): the lowest non-outlier energy exists and n_sigma >= 1 *)
Example energy_hypotheses_satisfiable :
  lowest_non_outlier (option Qc) (fun x => x) (qc 3 2) ex_l (qc 0 1) /\
  (Q2Qc 1 <= qc 3 2)%Qc /\
  prune_on_energy (option Qc) (fun x => x) (qc 1 2) (qc 3 2) ex_l = Ok [None; Some (qc 1 10); Some (qc 31 10)].
Proof.
  split; [|split].
  - split.
    + exists (Some (qc 0 1)). split; [left; reflexivity|]. split; [reflexivity|vm_compute; reflexivity].
    + intros y e Hy Ey _. apply Qcleb_iff. unfold ex_l in Hy.
      destruct Hy as [<-|[<-|[<-|[<-|[<-|[<-|[]]]]]]]; try discriminate Ey; injection Ey as <-; vm_compute; reflexivity.
  - apply Qcleb_iff. vm_compute. reflexivity.
  - vm_compute. reflexivity.
Qed.

(* a proper rotation (quarter turn about z) satisfies `orthogonal`, and the push loop does exit *)
Example rigid_hypotheses_satisfiable :
  orthogonal ((Q2Qc 0, qc (-1) 1, Q2Qc 0), (Q2Qc 1, Q2Qc 0, Q2Qc 0), (Q2Qc 0, Q2Qc 0, Q2Qc 1)) /\
  exists ml', push 40 [(Q2Qc 0, Q2Qc 0, Q2Qc 0)] [(Q2Qc 0, Q2Qc 0, Q2Qc 0); (Q2Qc 1, Q2Qc 0, Q2Qc 0)]
                   (Q2Qc 1, Q2Qc 0, Q2Qc 0) = Some ml'.
Proof.
  split.
  - unfold orthogonal, pdot, col, px, py, pz. cbn [fst snd]. repeat split; apply Qc_is_canon; reflexivity.
  - eexists. vm_compute. reflexivity.
Qed.
