(* C19/Model.v — executable model of
     autode/conformers/conformers.py  (Conformers.prune_on_energy / prune_on_rmsd / prune_diff_graph /
                                        remove_no_energy / lowest_energy / prune)
     autode/species/species.py        (find_lowest_energy_conformer: the selection pipeline)
     autode/species/complex.py        (Complex.__init__ bookkeeping, atom_indexes, union graph,
                                        get_complex_conformer_atoms push loop)
   Definitions only.  The loops are modelled LITERALLY (index lists computed up-front, `self[idx]`
   as nth_error with an explicit Crash result, `del self[idx]` as remove_nth).  Lemmas.v proves
   each literal loop equal to a structural recursion and derives the property theorems from that.
   Numerical oracles: the Kabsch heavy-atom RMSD `d`, graph isomorphism `iso`, sqrt (avoided: the
   n-sigma test is compared squared). *)
From Coq Require Import ZArith QArith Qcanon List Bool Arith Lia.
From AV.lib Require Import QcInst.
Import ListNotations.
Local Open Scope nat_scope.

(* result of an in-place list method: the new list, or an exception *)
Inductive res (A : Type) : Type :=
| Ok (l : list A)
| Crash            (* IndexError / TypeError: `self[idx]` out of range, arithmetic on a None energy *)
| NoConformers.    (* autode.exceptions.NoConformers, raised by remove_no_energy only *)
Arguments Ok {A} l.
Arguments Crash {A}.
Arguments NoConformers {A}.

Definition bind {A} (r : res A) (f : list A -> res A) : res A :=
  match r with Ok l => f l | Crash => Crash | NoConformers => NoConformers end.

(* `del self[idx]`  (idx in range whenever it is reached: nth_error was Some) *)
Definition remove_nth {A} (i : nat) (l : list A) : list A := firstn i l ++ skipn (S i) l.

(* ------------------------------------------------------------------------------------------ *)
(* statistics of a list of energies: np.average, np.std (population), squared                  *)
Definition qsum (l : list Qc) : Qc := fold_right Qcplus (Q2Qc 0) l.
Definition qlen (l : list Qc) : Qc := Q2Qc (inject_Z (Z.of_nat (length l))).
Definition mean (l : list Qc) : Qc := (qsum l / qlen l)%Qc.
Definition sqdev (mu e : Qc) : Qc := ((e - mu) * (e - mu))%Qc.
Definition var (l : list Qc) : Qc := (qsum (map (sqdev (mean l)) l) / qlen l)%Qc.
(* conformers.py:115  std_dev_e = max(float(np.std(energies)), 1e-8)   — squared: max(var, 1e-16) *)
Definition sigma_floor_sq : Qc := qc 1 10000000000000000.
Definition var_lb (l : list Qc) : Qc := Qcmaxq (var l) sigma_floor_sq.

Section Conformers.
Variable A : Type.                 (* a conformer *)
Variable en : A -> option Qc.      (* conf.energy  (None = no energy) *)

Definition has_e (x : A) : bool := match en x with Some _ => true | None => false end.

(* ---------------------------------------------------------------------------------------- *)
(* generic "delete from the end" loop:  for idx in reversed(range(len(self))): if not keep: del *)
Fixpoint del_loop (keep : A -> bool) (idxs : list nat) (cur : list A) : res A :=
  match idxs with
  | [] => Ok cur
  | idx :: r =>
      match nth_error cur idx with
      | None => Crash
      | Some c => if keep c then del_loop keep r cur else del_loop keep r (remove_nth idx cur)
      end
  end.
Definition rev_range (n : nat) : list nat := rev (seq 0 n).

(* conformers.py:239-252  remove_no_energy *)
Definition remove_no_energy (l : list A) : res A :=
  match del_loop has_e (rev_range (length l)) l with
  | Ok r => if (length r =? 0) && negb (length r =? length l) then NoConformers else Ok r
  | bad => bad
  end.

(* conformers.py:213-237  prune_diff_graph; iso c = is_isomorphic(make_graph(c), graph) (oracle) *)
Variable iso : A -> bool.
Definition prune_diff_graph (l : list A) : res A := del_loop iso (rev_range (length l)) l.

(* ---------------------------------------------------------------------------------------- *)
(* conformers.py:32-47  lowest_energy:
     if all(c.energy is None ...): return None
     energies = [c.energy if c.energy is not None else np.inf ...]; return self[np.argmin(energies)]
   np.argmin returns the FIRST index of the minimum.  key None = +inf. *)
Definition key_lt (a b : option Qc) : bool :=
  match a, b with
  | Some x, Some y => Qcltb x y
  | Some _, None => true
  | None, _ => false
  end.
Fixpoint argmin_go (best : A) (l : list A) : A :=
  match l with
  | [] => best
  | x :: r => if key_lt (en x) (en best) then argmin_go x r else argmin_go best r
  end.
Definition lowest_energy (l : list A) : option A :=
  if forallb (fun c => negb (has_e c)) l then None
  else match l with [] => None | x :: r => Some (argmin_go x r) end.

(* ---------------------------------------------------------------------------------------- *)
(* conformers.py:81-160  prune_on_energy, as repaired by the `fix:` commits d7bdc37 and 00c84a3
   (uniqueness is tested against the conformers already kept, kept_confs) *)
Variables e_tol n_sigma : Qc.

(* :100-102  idxs_with_energy = [idx for idx, conf in enumerate(self) if conf.energy is not None] *)
Fixpoint idxs_with_energy_from (k : nat) (l : list A) : list nat :=
  match l with
  | [] => []
  | x :: r => if has_e x then k :: idxs_with_energy_from (S k) r else idxs_with_energy_from (S k) r
  end.
Definition idxs_with_energy (l : list A) : list nat := idxs_with_energy_from 0 l.
(* :112  energies = [self[idx].energy for idx in idxs_with_energy] *)
Definition energies_of (l : list A) : list Qc :=
  flat_map (fun x => match en x with Some e => [e] | None => [] end) l.

(* :136  np.abs(conf.energy - avg_e) / std_dev_e > n_sigma      (std_dev_e > 0)
   <=>  n_sigma < 0   or   (e - mu)^2 > n_sigma^2 * max(var, 1e-16) *)
Definition outlier (mu v : Qc) (e : Qc) : bool :=
  if Qcltb n_sigma (Q2Qc 0) then true else Qcltb (n_sigma * n_sigma * v)%Qc (sqdev mu e).

(* :146-149  np.abs(conf.energy - other.energy) < e_tol for other in kept_confs   (every member of
   kept_confs has an energy; one without could only get there after :136 had already raised) *)
Definition near (e : Qc) (o : A) : bool :=
  match en o with Some e' => Qcltb (Qcabs (e - e')%Qc) e_tol | None => false end.

(* :133-154  one pass of the body of  `for idx in reversed(idxs_with_energy)`; state = (self, kept_confs);
   None = an exception escapes *)
Definition e_step (mu v : Qc) (idx : nat) (cur kept : list A) : option (list A * list A) :=
  match nth_error cur idx with
  | None => None                                   (* :134 conf = self[idx]       IndexError *)
  | Some conf =>
      match en conf with
      | None => None                               (* :136 conf.energy - avg_e     TypeError *)
      | Some e =>
          if outlier mu v e then Some (remove_nth idx cur, kept)            (* :141 del self[idx]; continue *)
          else if existsb (near e) kept then Some (remove_nth idx cur, kept) (* :151 non unique: del *)
          else Some (cur, kept ++ [conf])                                   (* :154 kept_confs.append(conf) *)
      end
  end.
Fixpoint e_loop (mu v : Qc) (idxs : list nat) (cur kept : list A) : res A :=
  match idxs with
  | [] => Ok cur
  | idx :: r => match e_step mu v idx cur kept with
                | Some (cur', kept') => e_loop mu v r cur' kept'
                | None => Crash
                end
  end.
Definition prune_on_energy (l : list A) : res A :=
  let idxs := idxs_with_energy l in
  if length idxs <? 2 then Ok l                                     (* :105-110 *)
  else let es := energies_of l in
       e_loop (mean es) (var_lb es) (rev idxs) l [].

(* ---------------------------------------------------------------------------------------- *)
(* conformers.py:162-211  prune_on_rmsd;  d a b = calc_heavy_atom_rmsd(a.atoms, b.atoms) (oracle) *)
Variable d : A -> A -> Qc.
Variable r_tol : Qc.
Definition rnear (c o : A) : bool := Qcltb (d c o) r_tol.
Definition r_step (idx : nat) (cur : list A) : res A :=
  match nth_error cur idx with
  | None => Crash
  | Some conf => if existsb (rnear conf) (remove_nth idx cur)       (* o_idx != idx *)
                 then Ok (remove_nth idx cur) else Ok cur
  end.
Fixpoint r_loop (idxs : list nat) (cur : list A) : res A :=
  match idxs with
  | [] => Ok cur
  | idx :: r => match r_step idx cur with Ok cur' => r_loop r cur' | bad => bad end
  end.
Definition prune_on_rmsd (l : list A) : res A :=
  if length l <? 2 then Ok l                                        (* :173-178 *)
  else r_loop (rev_range (length l - 1)) l.                         (* :195 *)

(* conformers.py:49-79  prune *)
Definition prune (rm_no_e : bool) (l : list A) : res A :=
  bind (if rm_no_e then remove_no_energy l else Ok l)
       (fun l1 => bind (prune_on_energy l1) prune_on_rmsd).

(* outcome of Species.find_lowest_energy_conformer (defined after the section: `select`) *)
Inductive sel : Type :=
| Selected (c : A)
| NoSuitable        (* RuntimeError: conformers present but none has an energy *)
| Raised.           (* NoConformers: from remove_no_energy, or from @requires_conformers (utils.py:399-413)
                       on _set_lowest_energy_conformer when no conformer is left *)

End Conformers.

(* conformers.py:183-193  what prune_on_rmsd does with its rmsd_tol ARGUMENT (only reached for len >= 2), as
   repaired by `fix:` 5b3a1b1:
     rmsd_tol = Config.rmsd_threshold if rmsd_tol is None else rmsd_tol
     if not isinstance(rmsd_tol, Distance): rmsd_tol = Distance(float(rmsd_tol), "Å")     # any number: Å assumed
     rmsd_tol = float(rmsd_tol.to("Å"))                                                   # compare plain numbers in Å
   (before the fix a non-float number raised AttributeError and a Distance in another unit was used as Å). *)
Inductive tol_arg : Type :=
| TNone                              (* None -> Config.rmsd_threshold (an Å Distance) *)
| TFloat (x : Qc)                    (* a python float: Å assumed *)
| TOther (x : Qc)                    (* int, numpy.float32, ...: float(x), Å assumed *)
| TDistance (x : Qc) (to_ang : Qc).  (* Distance(x, unit) with 1 unit = to_ang Å *)
Definition rmsd_tol_used (default : Qc) (t : tol_arg) : Qc :=
  match t with
  | TNone => default
  | TFloat x => x
  | TOther x => x
  | TDistance x f => (x * f)%Qc      (* .to("Å") *)
  end.
Definition prune_on_rmsd_arg (A : Type) (d : A -> A -> Qc) (default : Qc) (t : tol_arg) (l : list A) : res A :=
  if length l <? 2 then Ok l                                        (* :173-178, before the tolerance is touched *)
  else prune_on_rmsd A d (rmsd_tol_used default t) l.

(* conformers.py:123-131  the e_tol ARGUMENT of prune_on_energy (`fix:` d348d0e): None -> 0.0 (no uniqueness
   pruning: |dE| < 0 never holds), an Energy -> its value in Ha, a number -> Ha assumed *)
Definition e_tol_used (o : option Qc) : Qc := match o with None => Q2Qc 0 | Some x => x end.


(* species.py:1454-1520 find_lowest_energy_conformer, the selection part.  The ORDER of the calls is
   part of the model:
     :1499  self.conformers.optimise(method=lmethod)           -> energies en_l, geometries giving RMSD d
     :1500  self.conformers.prune(remove_no_energy=True)       (default e_tol / rmsd_tol / n_sigma)
     :1502-1512  if hmethod is not None: single points on the same geometries (Config.hmethod_sp_conformers)
                 or a full re-optimisation                      -> energies en_h, possibly NEW geometries
     :1514-1516  if not allow_connectivity_changes: self.conformers.prune_diff_graph(self.graph)
                 — AFTER the high-level stage: iso_final judges the FINAL geometry of each conformer
     :1518  self._set_lowest_energy_conformer()                 minimum of en_h over what is left
   Without hmethod en_h = en_l and the final geometry is the low-level one. *)
Definition select (A : Type) (en_l en_h : A -> option Qc) (iso_final : A -> bool) (e_tol n_sigma : Qc)
                  (d : A -> A -> Qc) (r_tol : Qc) (allow : bool) (l : list A) : sel A * res A :=
  let r := bind (prune A en_l e_tol n_sigma d r_tol true l)
                (fun l2 => if allow then Ok l2 else prune_diff_graph A iso_final l2) in
  match r with
  | Ok [] => (Raised A, r)
  | Ok l3 => (match lowest_energy A en_h l3 with Some c => Selected A c | None => NoSuitable A end, r)
  | _ => (Raised A, r)
  end.

(* ------------------------------------------------------------------------------------------ *)
(* complex.py:93-137  Complex.__init__ ; :172-191 atom_indexes ; mol_graphs.py:300-305 union     *)
Section ComplexModel.
Variable At : Type.                                   (* an atom *)
(* g_order: the node labels of mol.graph in ITERATION (insertion) order; g_edges over node labels *)
Record mol := mkMol { m_atoms : list At; m_charge : Z; m_mult : Z;
                      g_nodes : nat; g_order : list nat; g_edges : list (nat * nat) }.

(* atoms = sum((deepcopy(mol.atoms) for mol in args), None)      complex.py:123-126
   `sum` is a left fold with `+`, and autode/atoms.py:593-605 (after `fix:` facdd37) defines
       Atoms.__add__(self, other):  self if other is None else list.__add__(self, other)   -> a PLAIN list
       Atoms.__radd__(self, other): self if other is None else list(other) + list(self)
   so the accumulator is None, then an Atoms, then a plain list; and for  <plain list> + <Atoms>  Python
   tries the reflected method of the right operand FIRST (its class is a proper subclass of list that
   overrides __radd__): Atoms.__radd__(x, acc) = acc ++ x  (before the `fix:` commit it was
   self.__add__(other) = x ++ acc: from the third molecule on the new atoms were PREPENDED). *)
Inductive acc : Type := ANone | AAtoms (l : list At) | AList (l : list At).
Definition add_atoms (a : acc) (x : list At) : acc :=
  match a with
  | ANone => AAtoms x            (* None + Atoms  -> Atoms.__radd__(x, None) = x *)
  | AAtoms l => AList (l ++ x)   (* Atoms + Atoms -> Atoms.__add__ = list.__add__ *)
  | AList l => AList (l ++ x)    (* list + Atoms  -> Atoms.__radd__(x, l) = list(l) + list(x)  (reflected first) *)
  end.
Definition acc_list (a : acc) : list At :=
  match a with ANone => [] | AAtoms l => l | AList l => l end.      (* atoms=None: no atoms *)
Definition c_atoms (ms : list mol) : list At :=
  acc_list (fold_left (fun a m => add_atoms a (m_atoms m)) ms ANone).
(* charge = sum(mol.charge for mol in args) *)
Definition c_charge (ms : list mol) : Z := fold_left (fun acc m => (acc + m_charge m)%Z) ms 0%Z.
(* mult = sum(m.mult for m in args) - (len(args) - 1) *)
Definition c_mult (ms : list mol) : Z :=
  (fold_left (fun acc m => (acc + m_mult m)%Z) ms 0%Z - (Z.of_nat (length ms) - 1))%Z.

Definition n_atoms_sum (ms : list mol) : nat := fold_left (fun acc m => acc + length (m_atoms m)) ms 0.
(* atom_indexes(mol_index): AssertionError (None) unless mol_index in range(n_molecules) *)
Definition atom_indexes (ms : list mol) (k : nat) : option (list nat) :=
  if k <? length ms then
    let first := n_atoms_sum (firstn k ms) in
    let last := n_atoms_sum (firstn (S k) ms) in
    Some (seq first (last - first))                   (* list(range(first, last)) *)
  else None.

(* nx.disjoint_union_all: graph k is relabelled to first_label .. first_label + len(G_k) - 1 *)
(* nx.disjoint_union_all relabels the nodes of every graph by their POSITION in the graph's node
   iteration order (convert_node_labels_to_integers), not by label value: node x of graph k becomes
   first_label_k + (position of x in g_order).  After Species.reorder_atoms (mol_graphs.reorder_nodes =
   nx.relabel_nodes(copy=True)) the iteration order is the OLD order, so position <> label. *)
Fixpoint pos_of (x : nat) (l : list nat) : nat :=
  match l with [] => 0 | y :: r => if x =? y then 0 else S (pos_of x r) end.
Definition relabel_edge (off : nat) (order : list nat) (e : nat * nat) : nat * nat :=
  (off + pos_of (fst e) order, off + pos_of (snd e) order).
Fixpoint union_from (off : nat) (ms : list mol) : nat * list (nat * nat) :=
  match ms with
  | [] => (off, [])
  | m :: r => let (n, es) := union_from (off + g_nodes m) r in
              (n, map (relabel_edge off (g_order m)) (g_edges m) ++ es)
  end.
(* the disjoint union ALIGNED with the atoms (what the property asks for): shift by label value *)
Definition shift_edge (off : nat) (e : nat * nat) : nat * nat := (off + fst e, off + snd e).
Fixpoint union_shift (off : nat) (ms : list mol) : nat * list (nat * nat) :=
  match ms with
  | [] => (off, [])
  | m :: r => let (n, es) := union_shift (off + g_nodes m) r in
              (n, map (shift_edge off) (g_edges m) ++ es)
  end.
Definition c_graph (ms : list mol) : nat * list (nat * nat) := union_from 0 ms.
End ComplexModel.

(* ------------------------------------------------------------------------------------------ *)
(* complex.py:24-90 get_complex_conformer_atoms: rigid motions and the push loop                 *)
Definition pt := (Qc * Qc * Qc)%type.
Definition px (p : pt) := fst (fst p).
Definition py (p : pt) := snd (fst p).
Definition pz (p : pt) := snd p.
Definition dist2 (p q : pt) : Qc :=
  ((px p - px q) * (px p - px q) + (py p - py q) * (py p - py q) + (pz p - pz q) * (pz p - pz q))%Qc.
Definition translate (t p : pt) : pt := ((px p + px t)%Qc, (py p + py t)%Qc, (pz p + pz t)%Qc).
Definition pscale (c : Qc) (p : pt) : pt := ((c * px p)%Qc, (c * py p)%Qc, (c * pz p)%Qc).
(* a 3x3 matrix as three rows *)
Definition mat3 := (pt * pt * pt)%type.
Definition pdot (a b : pt) : Qc := (px a * px b + py a * py b + pz a * pz b)%Qc.
Definition mapply (R : mat3) (p : pt) : pt :=
  let '(r1, r2, r3) := R in (pdot r1 p, pdot r2 p, pdot r3 p).
Definition col (R : mat3) (k : nat) : pt :=
  let '(r1, r2, r3) := R in
  match k with 0 => (px r1, px r2, px r3) | 1 => (py r1, py r2, py r3) | _ => (pz r1, pz r2, pz r3) end.
(* R^T R = I *)
Definition orthogonal (R : mat3) : Prop :=
  pdot (col R 0) (col R 0) = Q2Qc 1 /\ pdot (col R 1) (col R 1) = Q2Qc 1 /\ pdot (col R 2) (col R 2) = Q2Qc 1 /\
  pdot (col R 0) (col R 1) = Q2Qc 0 /\ pdot (col R 0) (col R 2) = Q2Qc 0 /\ pdot (col R 1) (col R 2) = Q2Qc 0.
(* atom.translate(-centroid); atom.rotate(axis, theta)  ==  p |-> R (p - c) *)
Definition rigid (R : mat3) (c : pt) (p : pt) : pt := mapply R (translate (pscale (Q2Qc (-1)) c) p).

(* :79-86  while not far_enough_apart: coord += point*0.1 ; if min(distance_matrix) > 2.0: stop
   (compared squared: > 4).  Fuel stands for the unbounded while loop; out of fuel = None. *)
Definition all_far (cur ml : list pt) : bool :=
  forallb (fun p => forallb (fun q => Qcltb (Q2Qc 4) (dist2 p q)) ml) cur.
Definition step_vec (point : pt) : pt := pscale (qc 1 10) point.
Fixpoint push (fuel : nat) (cur ml : list pt) (point : pt) : option (list pt) :=
  match fuel with
  | 0 => None
  | S f => let ml' := map (translate (step_vec point)) ml in
           if all_far cur ml' then Some ml' else push f cur ml' point
  end.
