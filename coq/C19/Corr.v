(* C19/Corr.v — helpers used only by the correspondence check (model vs implementation).
   Conformers are tagged with their original index so that "which conformers are retained" can be
   compared with the implementation; energies / RMSD matrix / isomorphism bits come from the harness. *)
From Coq Require Import ZArith QArith Qcanon List Bool Arith.
From AV.lib Require Import QcInst.
From AV.C19 Require Import Model.
Import ListNotations.
Local Open Scope nat_scope.

Record tc := mkTc { t_idx : nat; t_en : option Qc; t_iso : bool; t_en2 : option Qc }.

Definition confs (ens : list (option Qc)) (isos : list bool) : list tc :=
  map (fun i => mkTc i (nth i ens None) (nth i isos true) (nth i ens None)) (seq 0 (length ens)).
(* two-stage conformers: low-level energies ens, final (high-level) energies ens2, final graph bits isos *)
Definition confs2 (ens ens2 : list (option Qc)) (isos : list bool) : list tc :=
  map (fun i => mkTc i (nth i ens None) (nth i isos true) (nth i ens2 None)) (seq 0 (length ens)).
Definition confs_n (n : nat) : list tc := map (fun i => mkTc i None true None) (seq 0 n).

(* d i j = entry (i, j) of the implementation's pairwise heavy-atom RMSD matrix (oracle) *)
Definition dmat (m : list (list Qc)) (a b : tc) : Qc := nth (t_idx b) (nth (t_idx a) m []) (Q2Qc 0).

Fixpoint list_eqb {A} (eqb : A -> A -> bool) (a b : list A) : bool :=
  match a, b with
  | [], [] => true
  | x :: a', y :: b' => eqb x y && list_eqb eqb a' b'
  | _, _ => false
  end.

(* what the implementation did: retained original indices, or the exception class *)
Inductive expect := EIdx (l : list nat) | ECrash | ENoConf.
Definition res_matches (r : res tc) (e : expect) : bool :=
  match r, e with
  | Ok l, EIdx idx => list_eqb Nat.eqb (map t_idx l) idx
  | Crash, ECrash => true
  | NoConformers, ENoConf => true
  | _, _ => false
  end.

Definition check_energy (ens : list (option Qc)) (e_tol n_sigma : Qc) (e : expect) : bool :=
  res_matches (prune_on_energy tc t_en e_tol n_sigma (confs ens [])) e.
Definition check_rmsd (n : nat) (m : list (list Qc)) (tol : Qc) (e : expect) : bool :=
  res_matches (prune_on_rmsd tc (dmat m) tol (confs_n n)) e.
(* prune_on_rmsd called with a tolerance ARGUMENT (None / float / other number / Distance with unit factor) *)
Definition check_rmsd_arg (n : nat) (m : list (list Qc)) (default : Qc) (t : tol_arg) (e : expect) : bool :=
  res_matches (prune_on_rmsd_arg tc (dmat m) default t (confs_n n)) e.
(* sets in which the SAME conformer object sits at several positions: ids = the object at each position; energies
   and the RMSD matrix are per object; the expectation is the sequence of objects left *)
Definition confs_ids (ids : list nat) (ens : list (option Qc)) : list tc :=
  map (fun i => mkTc i (nth i ens None) true (nth i ens None)) ids.
Definition check_rmsd_ids (ids : list nat) (m : list (list Qc)) (tol : Qc) (e : expect) : bool :=
  res_matches (prune_on_rmsd tc (dmat m) tol (confs_ids ids [])) e.
Definition check_energy_ids (ids : list nat) (ens : list (option Qc)) (e_tol n_sigma : Qc) (e : expect) : bool :=
  res_matches (prune_on_energy tc t_en e_tol n_sigma (confs_ids ids ens)) e.
Definition check_prune_ids (ids : list nat) (ens : list (option Qc)) (m : list (list Qc)) (e_tol n_sigma r_tol : Qc)
                           (rm : bool) (e : expect) : bool :=
  res_matches (prune tc t_en e_tol n_sigma (dmat m) r_tol rm (confs_ids ids ens)) e.
Definition check_remove_no_energy (ens : list (option Qc)) (e : expect) : bool :=
  res_matches (remove_no_energy tc t_en (confs ens [])) e.
Definition check_diff_graph (isos : list bool) (e : expect) : bool :=
  res_matches (prune_diff_graph tc t_iso (confs (map (fun _ => None) isos) isos)) e.
Definition check_lowest (ens : list (option Qc)) (e : option nat) : bool :=
  match lowest_energy tc t_en (confs ens []), e with
  | Some c, Some i => t_idx c =? i
  | None, None => true
  | _, _ => false
  end.
Definition check_prune (ens : list (option Qc)) (m : list (list Qc)) (e_tol n_sigma r_tol : Qc)
                       (rm : bool) (e : expect) : bool :=
  res_matches (prune tc t_en e_tol n_sigma (dmat m) r_tol rm (confs ens [])) e.

(* find_lowest_energy_conformer: selected index / RuntimeError / exception, and the retained set *)
Inductive esel := ESel (i : nat) | ENoSuitable | ERaised.
Definition check_select (ens ens2 : list (option Qc)) (isos : list bool) (m : list (list Qc))
                        (e_tol n_sigma r_tol : Qc) (allow : bool) (s : esel) (e : expect) : bool :=
  let '(s', r') := select tc t_en t_en2 t_iso e_tol n_sigma (dmat m) r_tol allow (confs2 ens ens2 isos) in
  match s', s with
  | Selected _ c, ESel i => (t_idx c =? i) && res_matches r' e
  | NoSuitable _, ENoSuitable => res_matches r' e
  | Raised _, ERaised => match r' with Ok [] => true | NoConformers => true | _ => false end
  | _, _ => false
  end.

(* ---------- Complex: atoms are identified by unique naturals ---------- *)
Definition pair_eqb (a b : nat * nat) : bool := (fst a =? fst b) && (snd a =? snd b).
(* edges as a sorted list of (min, max) pairs: the order in which networkx lists edges is not modelled *)
Definition norm_edge (e : nat * nat) : nat * nat := (Nat.min (fst e) (snd e), Nat.max (fst e) (snd e)).
Definition pair_leb (a b : nat * nat) : bool := (fst a <? fst b) || ((fst a =? fst b) && (snd a <=? snd b)).
Fixpoint insert_edge (e : nat * nat) (l : list (nat * nat)) : list (nat * nat) :=
  match l with [] => [e] | x :: r => if pair_leb e x then e :: l else x :: insert_edge e r end.
Definition norm_edges (l : list (nat * nat)) : list (nat * nat) := fold_right insert_edge [] (map norm_edge l).
Definition olist_eqb (a b : option (list nat)) : bool :=
  match a, b with
  | Some x, Some y => list_eqb Nat.eqb x y
  | None, None => true
  | _, _ => false
  end.
(* idxs: the implementation's atom_indexes(k) for k = 0 .. length idxs - 1 (None = AssertionError) *)
Definition check_complex (ms : list (mol nat)) (atoms : list nat) (charge mult : Z)
                         (idxs : list (option (list nat))) (nnodes : nat) (edges : list (nat * nat)) : bool :=
  list_eqb Nat.eqb (c_atoms nat ms) atoms &&
  Z.eqb (c_charge nat ms) charge && Z.eqb (c_mult nat ms) mult &&
  list_eqb olist_eqb (map (atom_indexes nat ms) (seq 0 (length idxs))) idxs &&
  (fst (c_graph nat ms) =? nnodes) && list_eqb pair_eqb (norm_edges (snd (c_graph nat ms))) (norm_edges edges).
