(* C14/Corr.v — helpers used only by the correspondence check (model vs implementation).
   The harness runs an operation sequence on a real autode Species and, after every step, observes
   (error class, present flags, freshness bits decided by an independent analytic recomputation from the
   CURRENT coordinates, labels, graph edges, multiplicity).  `check_trace` replays the same sequence on the
   model and compares every observation. *)
From Coq Require Import List Bool Arith ZArith Lia.
From AV.C14 Require Import Model Lemmas.
Import ListNotations.

Record obs := mkObs {
  o_err : nat;                 (* 0 ok, 1 ValueError, 2 AssertionError, 3 anything else *)
  o_e : bool; o_g : bool; o_h : bool;        (* energy / gradient / Hessian reported (not None) *)
  o_ef : bool; o_gf : bool; o_hf : bool;     (* ... and equal to the recomputation at the current geometry *)
  o_df : bool;                 (* frequencies / normal modes returned by a QFreq step are those of the
                                  current geometry and frame (true for every other step) *)
  o_labels : list nat;
  o_edges : list (nat * nat);
  o_mult : Z
}.

Definition err_code (r : out) : nat :=
  match r with OOk => 0 | OErr ValueErr => 1 | OErr AssertErr => 2 | OErr OtherErr => 3 end.
Definition is_some {A} (o : option A) : bool := match o with Some _ => true | None => false end.
Definition is_qfreq (o : op) : bool := match o with Query QFreq => true | _ => false end.

Definition model_obs (o : op) (s' : sp) (r : out) : obs :=
  mkObs (err_code r)
        (negb (match en s' with [] => true | _ => false end)) (is_some (grad s')) (is_some (hess s'))
        (fresh_e_b s') (fresh_g_b s') (fresh_h_b s')
        (if is_qfreq o then fresh_c_b s' else true)
        (labels s') (match graph s' with Some e => e | None => [] end) (mult s').

Definition norm_edge (e : nat * nat) : nat * nat :=
  if fst e <=? snd e then e else (snd e, fst e).
Definition edge_eqb (a b : nat * nat) : bool := (fst a =? fst b) && (snd a =? snd b).
Definition edges_subset (a b : list (nat * nat)) : bool :=
  forallb (fun x => existsb (edge_eqb (norm_edge x)) (map norm_edge b)) a.
Definition edges_eqb (a b : list (nat * nat)) : bool := edges_subset a b && edges_subset b a.

(* field k of two observations agrees *)
Definition field_eqb (k : nat) (a b : obs) : bool :=
  match k with
  | 0 => o_err a =? o_err b
  | 1 => Bool.eqb (o_e a) (o_e b)
  | 2 => Bool.eqb (o_g a) (o_g b)
  | 3 => Bool.eqb (o_h a) (o_h b)
  | 4 => Bool.eqb (o_ef a) (o_ef b)
  | 5 => Bool.eqb (o_gf a) (o_gf b)
  | 6 => Bool.eqb (o_hf a) (o_hf b)
  | 7 => Bool.eqb (o_df a) (o_df b)
  | 8 => nl_eqb (o_labels a) (o_labels b)
  | 9 => edges_eqb (o_edges a) (o_edges b)
  | _ => Z.eqb (o_mult a) (o_mult b)
  end.
Definition n_fields : nat := 11.
Definition obs_eqb (a b : obs) : bool := forallb (fun k => field_eqb k a b) (seq 0 n_fields).

Fixpoint check_trace (s : sp) (tr : list (op * obs)) : bool :=
  match tr with
  | [] => true
  | (o, ob) :: r => let (s', res) := step s o in obs_eqb (model_obs o s' res) ob && check_trace s' r
  end.

(* diagnosis: does field k of the LAST step of the trace agree (earlier steps are only replayed) *)
Fixpoint check_last_field (k : nat) (s : sp) (tr : list (op * obs)) : bool :=
  match tr with
  | [] => true
  | [(o, ob)] => let (s', res) := step s o in field_eqb k (model_obs o s' res) ob
  | (o, _) :: r => check_last_field k (fst (step s o)) r
  end.

(* the model's verdict "everything this species stores is fresh" after a sequence (used by the harness to
   cross-check its own oracle in the other direction) *)
Definition model_fresh_after (s : sp) (ops : list op) : bool := fresh_b (run s ops).
