(* C14/Model.v — executable model of the result-bookkeeping state machine of autode.species.Species
   ("energies, gradient and Hessian always describe the current geometry").  Definitions only.

   The model abstracts numbers away and keeps GHOST identities:
     geom   : identity of the internal geometry (bumped by every non-rigid change)
     frame  : identity of the orientation (bumped by every rigid motion that is not a translation)
     order  : physical identity of the atom stored at each index (permuted by reorder_atoms)
   Every stored result carries the identities of the geometry it was computed for (a `tag`).
   An operation that moves the molecule AND transforms an array with the same motion transforms the
   tag together with the state (both get `S` / the same permutation); an operation that forgot to do
   so would leave the tag behind.  "Fresh" (Lemmas.v) = every stored tag equals the current identities.

   Oracles: the Kabsch RMSD test `rmsd > 1e-8` and the `np.allclose(shift, shift[0])` translation
   test of the coordinates setter enter as the two booleans `big` / `pure` of SetCoords/SetAtoms.
   The correspondence check (harness/c14.py) ties every field of the model to the implementation:
   present/absent flags, error classes, labels, graph edges AND the freshness bits, which on the
   implementation side are decided by recomputing E, dE/dx, d2E/dx2 (and the projected normal modes) from
   the CURRENT coordinates with an analytic potential.

   Source anchors are quoted as species.py:LINE for /repo/autode/species/species.py (tree after
   commits 2fc12a5, ab13883, 4492722, 92378a7, 7a0359e, efc6d55, 8033d29, 6e0c770). *)
From Coq Require Import List Bool Arith ZArith Lia.
Import ListNotations.

(* ---------- results of an operation ---------- *)
Inductive err := ValueErr      (* the documented ValueError *)
               | AssertErr     (* AssertionError (atoms.py:636-641 shape assert of Atoms.coordinates) *)
               | OtherErr.     (* anything else, e.g. AttributeError *)
Inductive out := OOk | OErr (e : err).

Fixpoint nl_eqb (a b : list nat) : bool :=
  match a, b with
  | [], [] => true
  | x :: a', y :: b' => (x =? y) && nl_eqb a' b'
  | _, _ => false
  end.

(* ---------- reorder mappings: list of (key, value) = (current index, required index) ---------- *)
Definition lookup (m : list (nat * nat)) (k : nat) : nat :=
  match find (fun p => fst p =? k) m with Some p => snd p | None => k end.
Definition inv_lookup (m : list (nat * nat)) (v : nat) : nat :=
  match find (fun p => snd p =? v) m with Some p => fst p | None => v end.
Definition subsetb (a b : list nat) : bool := forallb (fun x => existsb (Nat.eqb x) b) a.
Definition set_eqb (a b : list nat) : bool := subsetb a b && subsetb b a.
(* species.py:996-1001  set(keys) == set(values) == set(range(n_atoms)) *)
Definition mapping_ok (n : nat) (m : list (nat * nat)) : bool :=
  set_eqb (map fst m) (seq 0 n) && set_eqb (map snd m) (seq 0 n).
(* species.py:1003-1004, 1028-1031  order = sorted(mapping, key=mapping[k]); new[p] = old[order[p]],
   i.e. new[p] = old[k] for the key k with m[k] = p *)
Definition permute {A} (d : A) (m : list (nat * nat)) (l : list A) : list A :=
  map (fun p => nth (inv_lookup m p) l d) (seq 0 (length l)).
Definition map_edge (m : list (nat * nat)) (e : nat * nat) : nat * nat :=
  (lookup m (fst e), lookup m (snd e)).

(* ---------- ghost tag carried by a stored array ---------- *)
Record tag := mkTag { tgeom : nat; tframe : nat; torder : list nat }.

Record sp := mkSp {
  labels : list nat;            (* element number of atom i                     (self._atoms)   *)
  order  : list nat;            (* ghost: physical identity of the atom at index i              *)
  geom   : nat;                 (* ghost: geometry identity                                      *)
  frame  : nat;                 (* ghost: orientation identity                                   *)
  en     : list nat;            (* self.energies: one geometry identity per stored energy        *)
  grad   : option tag;          (* self._grad   (species.py:89)                                  *)
  hess   : option tag;          (* self._hess   (species.py:90)                                  *)
  hcache : option tag;          (* functools.cached_property values stored on the Hessian OBJECT
                                   (normal modes, projector ...; hessians.py:106-420): the tag of
                                   the Hessian they were computed from, None = nothing cached    *)
  graph  : option (list (nat * nat));   (* self._graph edges (species.py:85)                     *)
  mult   : Z
}.

Definition n_atoms (s : sp) : nat := length (labels s).
Definition cur (s : sp) : tag := mkTag (geom s) (frame s) (order s).

(* Species.__init__ (species.py:78-94) followed by `species.graph = MolecularGraph(edges)` *)
Definition init (ls : list nat) (edges : list (nat * nat)) (m : Z) : sp :=
  mkSp ls (seq 0 (length ls)) 0 0 [] None None None (Some edges) m.

(* species.py:293-298  _clear_energies_gradient_hessian: energies.clear(); gradient=None; hessian=None.
   Dropping the Hessian object drops its cached properties. *)
Definition clear_all (s : sp) : sp :=
  mkSp (labels s) (order s) (geom s) (frame s) [] None None None (graph s) (mult s).
(* species.py:286-289 *)
Definition clear_gh (s : sp) : sp :=
  mkSp (labels s) (order s) (geom s) (frame s) (en s) None None None (graph s) (mult s).
Definition bump_geom (s : sp) : sp :=
  mkSp (labels s) (order s) (S (geom s)) (frame s) (en s) (grad s) (hess s) (hcache s) (graph s) (mult s).
Definition bump_frame (s : sp) : sp :=
  mkSp (labels s) (order s) (geom s) (S (frame s)) (en s) (grad s) (hess s) (hcache s) (graph s) (mult s).

(* ---------- coordinates setter, species.py:254-291 ----------
   rows  = number of coordinate rows supplied.  _reset_properties_for: a different shape clears
           everything (:279-283); THEN Atoms.coordinates asserts the shape (atoms.py:636-641) and raises,
           so the geometry itself is not changed;
   big   = oracle bit `rmsd > 1e-8`                               (species.py:281)
   pure  = oracle bit `np.allclose(shift, shift[0], atol=1e-8)`   (species.py:286), only read if ~big *)
Definition set_coords (rows : nat) (big pure : bool) (s : sp) : sp * out :=
  if negb (rows =? n_atoms s) then (clear_all s, OErr AssertErr)
  else if big then (bump_geom (clear_all s), OOk)              (* :283 clear, :268 new geometry *)
  else if pure then (s, OOk)                                   (* translated: everything kept    *)
  else (bump_frame (clear_gh s), OOk).                         (* :287-288 rotated: E kept       *)

(* coordinates whose total size is not a multiple of 3: `np.asarray(v).reshape((-1, 3))` (species.py:276) raises
   ValueError BEFORE anything is compared or cleared *)
Definition set_coords_ragged (s : sp) : sp * out := (s, OErr ValueErr).

(* ---------- atoms setter, species.py:227-252 (value is not None) ----------
   (`atoms = None` (species.py:236-239) drops the atoms and clears every result; a species without atoms is NOT
   modelled - the harness checks that case directly, key Species.atoms|none-keeps-results) *)
(* ---------- atoms setter, continued ----------
   same length and labels -> coordinates setter with the coordinates of the new atoms (:243-246),
   otherwise the atoms are replaced and everything is cleared (:249-250).  The molecular graph is
   NOT touched by the setter. *)
Definition set_atoms (ls : list nat) (big pure : bool) (s : sp) : sp * out :=
  if nl_eqb ls (labels s) then set_coords (length ls) big pure s
  else (mkSp ls (seq 0 (length ls)) (S (geom s)) (frame s) [] None None None (graph s) (mult s), OOk).

(* ---------- translate / centre, species.py:1071-1086, 1150-1154 ----------
   every Atom is moved in place (by a private copy of the vector); nothing else is touched.  The Hessian object's `.atoms` aliases the
   same Atom objects, so its (translation-invariant) projector and modes stay valid. *)
Definition translate (s : sp) : sp * out := (s, OOk).
Definition centre (s : sp) : sp * out := translate s.

(* ---------- rotate, species.py:1088-1141 ----------
   coordinates, gradient (a NEW float Gradient, :1123-1127) and Hessian (a NEW Hessian object, :1129-1139)
   are transformed with the SAME rotation matrix: the tags move together with the frame and nothing
   memoised survives. *)
Definition retag (t : tag) : tag := mkTag (tgeom t) (S (tframe t)) (torder t).
Definition rotate (s : sp) : sp * out :=
  (mkSp (labels s) (order s) (geom s) (S (frame s)) (en s)
        (option_map retag (grad s)) (option_map retag (hess s)) None (graph s) (mult s), OOk).

(* ---------- energy setter, species.py:666-685 ---------- *)
Definition set_energy (some : bool) (s : sp) : sp * out :=
  if some then
    (mkSp (labels s) (order s) (geom s) (frame s) (en s ++ [geom s]) (grad s) (hess s)
          (hcache s) (graph s) (mult s), OOk)
  else (s, OOk).                                               (* None: "No change required" *)

(* ---------- gradient setter, species.py:411-443 ---------- *)
Inductive garg := GNone                        (* None                                          *)
                | GArr (shape : list nat)      (* numpy array / Gradient with this shape        *)
                | GOther.                      (* e.g. a nested python list: no .shape, no array *)
Definition prod (l : list nat) : nat := fold_right Nat.mul 1 l.
Definition set_grad (a : garg) (s : sp) : sp * out :=
  match a with
  | GNone => (mkSp (labels s) (order s) (geom s) (frame s) (en s) None (hess s) (hcache s)
                   (graph s) (mult s), OOk)
  | GArr sh =>
      (* :420-432  shape (n,3) is taken as it is, shape (3n,) is reshaped, every other shape -> ValueError *)
      if nl_eqb sh [n_atoms s; 3] || nl_eqb sh [3 * n_atoms s] then
        (mkSp (labels s) (order s) (geom s) (frame s) (en s) (Some (cur s)) (hess s)
              (hcache s) (graph s) (mult s), OOk)
      else (s, OErr ValueErr)
  | GOther => (s, OErr ValueErr)                                (* :439-443 *)
  end.

(* ---------- Hessian setter, species.py:364-398 ---------- *)
Inductive harg := HNone | HArr (shape : list nat) | HOther.
Definition set_hess (a : harg) (s : sp) : sp * out :=
  match a with
  | HNone => (mkSp (labels s) (order s) (geom s) (frame s) (en s) (grad s) None None
                   (graph s) (mult s), OOk)
  | HArr sh =>
      (* :373-379 required_shape = (3n, 3n) *)
      if nl_eqb sh [3 * n_atoms s; 3 * n_atoms s] then
        (* numpy array: a NEW Hessian object with atoms=self.atoms; a Hessian INSTANCE: `deepcopy(value)`
           (Hessian.__deepcopy__ builds a new object without memoised values; its own frame atoms are kept as a
           private copy, self.atoms attached when it has none; rotate / reorder_atoms move such frame atoms along).
           Either way: a new object owned by this species, nothing cached yet (commit 8033d29). *)
        (mkSp (labels s) (order s) (geom s) (frame s) (en s) (grad s) (Some (cur s)) None
              (graph s) (mult s), OOk)
      else (s, OErr ValueErr)
  | HOther => (s, OErr ValueErr)                                (* :394-398 *)
  end.

(* ---------- copy, species.py:135-137 (deepcopy) ----------
   Hessian.__deepcopy__ (hessians.py:97-104) builds a new Hessian with deep-copied atoms: same numbers,
   no memoised values. *)
Definition copy (s : sp) : sp :=
  mkSp (labels s) (order s) (geom s) (frame s) (en s) (grad s) (hess s) None (graph s) (mult s).

(* ---------- new_species, species.py:139-163 ---------- *)
Definition new_species (s : sp) : sp :=
  mkSp (labels s) (order s) (geom s) (frame s) [] None None None (graph s) (mult s).

(* ---------- reorder_atoms, species.py:973-1031; mol_graphs.py:462-478 ----------
   atoms (:1004, 1028-1031), gradient rows (:1007-1008), Hessian rows and columns (:1010-1017, a NEW Hessian
   object) and the nodes of an existing graph (:1019-1025; a graph that was never built is not built here)
   are all permuted by the same mapping. *)
Definition retag_order (m : list (nat * nat)) (t : tag) : tag :=
  mkTag (tgeom t) (tframe t) (permute 0 m (torder t)).
Definition reorder (m : list (nat * nat)) (s : sp) : sp * out :=
  if mapping_ok (n_atoms s) m then
    (mkSp (permute 0 m (labels s)) (permute 0 m (order s)) (geom s) (frame s) (en s)
          (option_map (retag_order m) (grad s)) (option_map (retag_order m) (hess s))
          None   (* the cache lives on the replaced Hessian object (no Hessian: nothing was cached) *)
          (option_map (map (map_edge m)) (graph s)) (mult s), OOk)
  else (s, OErr ValueErr).

(* ---------- read-only queries ----------
   graph (species.py:300-317; the graph is set, so nothing is built), formula (:324-354),
   radius (:557-572), sn (:574-598 -> symmetry.py translates the species by -com: a translation),
   frequencies / normal modes (:445-459, 497-514 -> Hessian cached properties). *)
Inductive query := QGraph | QSn | QFreq | QFormula | QRadius.
Definition do_query (q : query) (s : sp) : sp * out :=
  match q with
  | QFreq =>
      match hess s with
      | None => (s, OOk)                                        (* :455-457 returns None *)
      | Some t =>
          (mkSp (labels s) (order s) (geom s) (frame s) (en s) (grad s) (hess s)
                (match hcache s with None => Some t | Some c => Some c end) (graph s) (mult s), OOk)
      end
  | _ => (s, OOk)
  end.

(* ---------- calc_thermo with an existing Hessian, species.py:1312-1396 -> igm.py calculate_thermo_cont:
   reads frequencies (memoised) and sn (a translation) and appends H and G contributions to
   self.energies.  Without a Hessian a calculation would be run: not modelled (OtherErr). *)
Definition thermo (s : sp) : sp * out :=
  match hess s with
  | None => (s, OErr OtherErr)
  | Some _ => set_energy true (fst (do_query QFreq s))
  end.

(* ---------- multiplicity setter, species.py:179-189;  None = not convertible by int() ---------- *)
Definition set_mult (v : option Z) (s : sp) : sp * out :=
  match v with
  | Some z => if (0 <? z)%Z then
                (mkSp (labels s) (order s) (geom s) (frame s) (en s) (grad s) (hess s)
                      (hcache s) (graph s) z, OOk)
              else (s, OErr ValueErr)
  | None => (s, OErr ValueErr)
  end.

(* ---------- graph setter, species.py:319-322 ---------- *)
Definition set_graph (e : list (nat * nat)) (s : sp) : sp * out :=
  (mkSp (labels s) (order s) (geom s) (frame s) (en s) (grad s) (hess s) (hcache s)
        (Some e) (mult s), OOk).

(* ---------- the public operations ---------- *)
Inductive op :=
| SetAtoms (ls : list nat) (big pure : bool)
| SetCoords (rows : nat) (big pure : bool)
| SetCoordsRagged
| Translate | Rotate | Centre
| SetEnergy (some : bool)
| SetGrad (a : garg)
| SetHess (a : harg)
| Copy            (* continue with  s.copy()        *)
| NewSpecies      (* continue with  s.new_species() *)
| Reorder (m : list (nat * nat))
| Query (q : query)
| Thermo
| SetMult (v : option Z)
| SetGraph (e : list (nat * nat)).

Definition step (s : sp) (o : op) : sp * out :=
  match o with
  | SetAtoms ls big pure => set_atoms ls big pure s
  | SetCoords rows big pure => set_coords rows big pure s
  | SetCoordsRagged => set_coords_ragged s
  | Translate => translate s
  | Rotate => rotate s
  | Centre => centre s
  | SetEnergy b => set_energy b s
  | SetGrad a => set_grad a s
  | SetHess a => set_hess a s
  | Copy => (copy s, OOk)
  | NewSpecies => (new_species s, OOk)
  | Reorder m => reorder m s
  | Query q => do_query q s
  | Thermo => thermo s
  | SetMult v => set_mult v s
  | SetGraph e => set_graph e s
  end.

Definition run (s : sp) (ops : list op) : sp := fold_left (fun s o => fst (step s o)) ops s.

(* ---------- several species side by side (copies, new species) ---------- *)
Inductive wop := On (i : nat) (o : op)        (* apply o to species i (a Copy/NewSpecies op replaces it) *)
               | CopyOf (i : nat)             (* append species i .copy()                                *)
               | NewOf (i : nat).             (* append species i .new_species()                         *)
Fixpoint replace_nth {A} (i : nat) (x : A) (l : list A) : list A :=
  match l, i with
  | [], _ => []
  | _ :: r, 0 => x :: r
  | y :: r, S j => y :: replace_nth j x r
  end.
Definition wstep (w : list sp) (x : wop) : list sp :=
  match x with
  | On i o => match nth_error w i with Some s => replace_nth i (fst (step s o)) w | None => w end
  | CopyOf i => match nth_error w i with Some s => w ++ [copy s] | None => w end
  | NewOf i => match nth_error w i with Some s => w ++ [new_species s] | None => w end
  end.
Definition wrun (w : list sp) (xs : list wop) : list sp := fold_left wstep xs w.
