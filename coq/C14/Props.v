(* C14/Props.v — the property theorems for "a species' energies, gradient and Hessian always describe
   its current geometry", over the state machine of Model.v: ALL states, ALL operations, ALL operation
   sequences (induction), no sampling.  Each is closed by a short proof from Lemmas.v.
   The model is tied to /repo on every run by harness/c14.py (step-by-step correspondence of error classes,
   present flags, labels, graph edges and of the freshness bits against an independent recomputation of
   E, dE/dx, d2E/dx2 and the normal modes from the current coordinates). *)
From Coq Require Import List Bool Arith ZArith Lia.
From Coq Require Import QArith Qcanon.
From AV.C14 Require Import Model Lemmas Rigid.
Import ListNotations.
Open Scope nat_scope.

(* ------------------------------------------------------------------------------------------------
   1. Freshness: initially, after every operation, after every sequence of operations
      Fresh s = every energy stored was attached to the current geometry, and the gradient, the Hessian
      and everything memoised on the Hessian object carry the current (geometry, frame, atom order). *)

Theorem fresh_initially : forall ls edges m, Fresh (init ls edges m).
Proof. exact fresh_init. Qed.

(* Every public operation preserves the invariant, from EVERY fresh state (one lemma per operation in
   Lemmas.v: fresh_set_atoms, fresh_set_coords, fresh_translate, fresh_rotate, fresh_centre,
   fresh_set_energy, fresh_set_grad, fresh_set_hess, fresh_copy, fresh_new_species, fresh_reorder,
   fresh_query, fresh_thermo, fresh_set_mult, fresh_set_graph). *)
Theorem fresh_step : forall s o, Fresh s -> Fresh (fst (step s o)).
Proof. exact Lemmas.fresh_step. Qed.

(* ... hence after every operation sequence, of any length, and after each of its prefixes. *)
Theorem fresh_reachable : forall ls edges m ops k, Fresh (run (init ls edges m) (firstn k ops)).
Proof. intros. apply fresh_run. apply fresh_init. Qed.

(* and what a species reports at any time is therefore current: unfolding the invariant *)
Theorem reported_results_are_current : forall ls edges m ops,
  let s := run (init ls edges m) ops in
  (forall g, In g (en s) -> g = geom s) /\
  (forall t, grad s = Some t -> tgeom t = geom s /\ tframe t = frame s /\ torder t = order s) /\
  (forall t, hess s = Some t -> tgeom t = geom s /\ tframe t = frame s /\ torder t = order s) /\
  (forall t, hcache s = Some t -> hess s = Some t /\ t = cur s).
Proof.
  intros ls edges m ops s.
  assert (F : Fresh s) by (apply fresh_run, fresh_init).
  assert (W : CacheWf s) by (apply cachewf_run, cachewf_init).
  destruct F as [[FE [FG FH]] FC]. repeat split.
  - intros g Hg. unfold FreshE in FE. rewrite Forall_forall in FE. now apply FE.
  - now rewrite (FG t H).
  - now rewrite (FG t H).
  - now rewrite (FG t H).
  - now rewrite (FH t H).
  - now rewrite (FH t H).
  - now rewrite (FH t H).
  - now apply W.
  - now apply FC.
Qed.

(* ------------------------------------------------------------------------------------------------
   2. Discard / keep / transform                                                                   *)

(* _partial: "rigid" / "non-rigid" are the two ORACLE BITS of the coordinates setter (big = RMSD after Kabsch
   alignment > 1e-8, pure = all atoms shifted alike); the model has no coordinates, so nothing here relates the bits
   to an actual displacement - that is done numerically by the harness on every step (incl. 1e-6..1e-3 A steps and
   1e-4 rad rotations).  What IS proved: what the setters do with the stored results for each value of the bits.
   A change that is not a rigid-body motion (Kabsch RMSD above threshold, or different atoms)
   discards energies, gradient and Hessian. *)
Theorem nonrigid_change_discards_partial : forall s,
  (forall rows pure s', set_coords rows true pure s = (s', OOk) ->
      en s' = [] /\ grad s' = None /\ hess s' = None /\ hcache s' = None /\ geom s' <> geom s) /\
  (forall ls big pure s', ls <> labels s -> set_atoms ls big pure s = (s', OOk) ->
      en s' = [] /\ grad s' = None /\ hess s' = None /\ hcache s' = None /\ geom s' <> geom s /\ labels s' = ls) /\
  (forall big pure s', set_atoms (labels s) big pure s = (s', OOk) ->
      (s', OOk) = set_coords (n_atoms s) big pure s).
Proof.
  intros s. split; [|split].
  - intros rows pure s' H. unfold set_coords in H.
    destruct (negb (rows =? n_atoms s)); [discriminate|]. inversion H; subst; cbn. repeat split; lia.
  - intros ls big pure s' Hne H. unfold set_atoms in H.
    destruct (nl_eqb ls (labels s)) eqn:E; [apply nl_eqb_spec in E; contradiction|].
    inversion H; subst; cbn. repeat split; lia.
  - intros big pure s' H. unfold set_atoms in H.
    rewrite (proj2 (nl_eqb_spec _ _) eq_refl) in H. now rewrite <- H.
Qed.

Definition rigid (o : op) : bool :=
  match o with
  | Translate | Rotate | Centre => true
  | SetCoords _ false _ => true
  | _ => false
  end.

(* _partial for the same reason.  A rigid-body motion keeps the energies and the geometry identity; a frame-dependent array is either
   gone afterwards or, if it was current before, is current after (transformed with the frame). *)
Theorem rigid_motion_keeps_energies_transforms_or_discards_partial : forall s o s',
  rigid o = true -> step s o = (s', OOk) ->
  en s' = en s /\ geom s' = geom s /\ labels s' = labels s /\
  (grad s' = None \/ (grad s = Some (cur s) -> grad s' = Some (cur s'))) /\
  (hess s' = None \/ (hess s = Some (cur s) -> hess s' = Some (cur s'))).
Proof.
  intros s o s' R H. destruct o; try discriminate R; cbn in H.
  - (* SetCoords *) destruct big; [discriminate R|]. unfold set_coords in H.
    destruct (negb (rows =? n_atoms s)); [discriminate|]. destruct pure; inversion H; subst; cbn.
    + repeat split; right; auto.
    + repeat split; left; reflexivity.
  - inversion H; subst. repeat split; right; auto.
  - inversion H; subst; cbn. repeat split; right; intros ->; reflexivity.
  - inversion H; subst. repeat split; right; auto.
Qed.

(* ------------------------------------------------------------------------------------------------
   3. _partial: the model's states are immutable values, so NO aliasing is representable in it: this theorem only
      fixes what copy / new_species hand over (same identities, no memoised values, no results for new_species) and
      that the world bookkeeping touches one species at a time.  That the real objects (copies, new species,
      conformers, conformer members) share no mutable state is established by the harness' aliasing probes only.
      Copies and new species share no state: whatever is done to the other species of a world, and
      however many further copies are taken, species j is untouched.                              *)
Theorem copies_share_nothing_partial :
  (forall w xs j, j < length w -> (forall x, In x xs -> ~ targets x j) ->
      nth_error (wrun w xs) j = nth_error w j) /\
  (forall s ops, nth_error (wrun [s] (CopyOf 0 :: map (On 1) ops)) 0 = Some s /\
                 nth_error (wrun [s] (CopyOf 0 :: map (On 1) ops)) 1 = Some (run (copy s) ops)) /\
  (forall s ops, nth_error (wrun [s] (NewOf 0 :: map (On 0) ops)) 1 = Some (new_species s) /\
                 nth_error (wrun [s] (NewOf 0 :: map (On 0) ops)) 0 = Some (run s ops)) /\
  (forall s, en (new_species s) = [] /\ grad (new_species s) = None /\ hess (new_species s) = None /\
             labels (new_species s) = labels s /\ graph (new_species s) = graph s).
Proof.
  split; [exact (fun w xs j => wrun_frame xs w j)|].
  assert (G : forall ops a b,
            wrun [a; b] (map (On 1) ops) = [a; run b ops] /\ wrun [a; b] (map (On 0) ops) = [run a ops; b]).
  { induction ops as [|o r IH]; intros a b; [split; reflexivity|]. split.
    - unfold wrun, run; cbn. apply (proj1 (IH a (fst (step b o)))).
    - unfold wrun, run; cbn. apply (proj2 (IH (fst (step a o)) b)). }
  split; [|split].
  - intros s ops. unfold wrun; cbn. fold (wrun [s; copy s] (map (On 1) ops)).
    rewrite (proj1 (G ops s (copy s))). split; reflexivity.
  - intros s ops. unfold wrun; cbn. fold (wrun [s; new_species s] (map (On 0) ops)).
    rewrite (proj2 (G ops s (new_species s))). split; reflexivity.
  - intros s. repeat split.
Qed.

(* ------------------------------------------------------------------------------------------------
   4. Reordering carries the bond graph (and the atoms) along                                      *)
Theorem reorder_carries_graph : forall m s s',
  reorder m s = (s', OOk) ->
  graph s' = option_map (map (map_edge m)) (graph s) /\
  geom s' = geom s /\ frame s' = frame s /\ en s' = en s /\ n_atoms s' = n_atoms s /\
  (* the stored arrays are permuted with the atoms: what was current stays current *)
  (grad s = Some (cur s) -> grad s' = Some (cur s')) /\
  (hess s = Some (cur s) -> hess s' = Some (cur s')) /\
  (grad s = None -> grad s' = None) /\ (hess s = None -> hess s' = None) /\
  (* every atom keeps its element and identity at the index its graph node was renamed to *)
  (NoDup (map fst m) -> length (order s) = n_atoms s ->
   forall i, i < n_atoms s ->
     lookup m i < n_atoms s /\
     nth (lookup m i) (labels s') 0 = nth i (labels s) 0 /\
     nth (lookup m i) (order s') 0 = nth i (order s) 0).
Proof.
  intros m s s' H. unfold reorder in H. destruct (mapping_ok (n_atoms s) m) eqn:Ok; [|discriminate].
  inversion H; subst; cbn. repeat match goal with |- _ /\ _ => split end; try reflexivity.
  - unfold n_atoms; cbn. apply permute_length.
  - intros ->. reflexivity.
  - intros ->. reflexivity.
  - intros ->. reflexivity.
  - intros ->. reflexivity.
  - intros Nk Lo i Hi. repeat split.
    + apply (lookup_perm _ _ _ Ok Nk Hi).
    + apply (permute_nth 0 (n_atoms s)); auto.
    + apply (permute_nth 0 (n_atoms s)); auto.
Qed.

(* ------------------------------------------------------------------------------------------------
   5. _partial: states what the model's queries do (nothing, except memoising on the Hessian object); sn's
      recentring is a translation and therefore the identity on the model's identities.  That the real queries leave
      the distance matrix, results and graph alone is checked by the harness after every query step.
      Read-only queries never alter the geometry, the results or the graph                        *)
Theorem queries_preserve_internal_geometry_partial : forall q s,
  let s' := fst (do_query q s) in
  snd (do_query q s) = OOk /\
  geom s' = geom s /\ frame s' = frame s /\ order s' = order s /\ labels s' = labels s /\
  en s' = en s /\ grad s' = grad s /\ hess s' = hess s /\ graph s' = graph s /\ mult s' = mult s.
Proof.
  intros q s. destruct q; cbn; try (repeat split; reflexivity).
  destruct (hess s) eqn:E; cbn; repeat split; auto.
Qed.

(* thermochemistry is appended to the energies of the CURRENT geometry and changes nothing else *)
Theorem thermo_attaches_to_current_geometry : forall s s',
  thermo s = (s', OOk) ->
  en s' = en s ++ [geom s] /\ geom s' = geom s /\ frame s' = frame s /\ order s' = order s /\
  labels s' = labels s /\ grad s' = grad s /\ hess s' = hess s.
Proof.
  intros s s' H. unfold thermo in H. destruct (hess s) eqn:E; [|discriminate].
  cbn in H. rewrite E in H. cbn in H. inversion H; subst; cbn. repeat split; auto.
Qed.

(* ------------------------------------------------------------------------------------------------
   6. _partial: the decision rules of the setters (read off the code, tied by the malformed-input streams).
      False, see the _refuted theorem below: the constructor does not check the multiplicity.
      Invalid states are rejected with the documented error (ValueError) and leave the species
      unchanged; valid ones are accepted.                                                          *)
Theorem invalid_states_rejected_partial : forall s,
  (* multiplicity *)
  (forall z, (z <= 0)%Z -> step s (SetMult (Some z)) = (s, OErr ValueErr)) /\
  step s (SetMult None) = (s, OErr ValueErr) /\
  (forall z, (0 < z)%Z -> snd (step s (SetMult (Some z))) = OOk /\ mult (fst (step s (SetMult (Some z)))) = z) /\
  (* gradient *)
  (forall sh, sh <> [n_atoms s; 3] -> sh <> [3 * n_atoms s] -> step s (SetGrad (GArr sh)) = (s, OErr ValueErr)) /\
  step s (SetGrad GOther) = (s, OErr ValueErr) /\
  snd (step s (SetGrad (GArr [n_atoms s; 3]))) = OOk /\ snd (step s (SetGrad (GArr [3 * n_atoms s]))) = OOk /\
  (* Hessian *)
  (forall sh, sh <> [3 * n_atoms s; 3 * n_atoms s] -> step s (SetHess (HArr sh)) = (s, OErr ValueErr)) /\
  step s (SetHess HOther) = (s, OErr ValueErr) /\
  snd (step s (SetHess (HArr [3 * n_atoms s; 3 * n_atoms s]))) = OOk /\
  (* atom mapping: accepted iff keys and values are both exactly {0..n-1} *)
  (forall m, snd (step s (Reorder m)) = OOk <->
      ((forall k, In k (map fst m) <-> k < n_atoms s) /\ (forall v, In v (map snd m) <-> v < n_atoms s))) /\
  (forall m, snd (step s (Reorder m)) <> OOk -> step s (Reorder m) = (s, OErr ValueErr)) /\
  (* coordinates of the wrong length: AssertionError; the geometry is kept and nothing stale survives *)
  (forall rows big pure, rows <> n_atoms s ->
      snd (step s (SetCoords rows big pure)) = OErr AssertErr /\
      let s' := fst (step s (SetCoords rows big pure)) in
      geom s' = geom s /\ labels s' = labels s /\ en s' = [] /\ grad s' = None /\ hess s' = None) /\
  (* coordinates whose size is not a multiple of three: ValueError, nothing touched *)
  step s SetCoordsRagged = (s, OErr ValueErr).
Proof.
  intros s. repeat match goal with |- _ /\ _ => split end.
  - intros z Hz. cbn. destruct (0 <? z)%Z eqn:E; [apply Z.ltb_lt in E; lia|reflexivity].
  - reflexivity.
  - intros z Hz. cbn. destruct (0 <? z)%Z eqn:E; [split; reflexivity|apply Z.ltb_ge in E; lia].
  - intros sh H1 H2. unfold step, set_grad.
    destruct (nl_eqb sh [n_atoms s; 3]) eqn:E1; [apply nl_eqb_spec in E1; contradiction|].
    destruct (nl_eqb sh [3 * n_atoms s]) eqn:E2; [apply nl_eqb_spec in E2; contradiction|]. reflexivity.
  - reflexivity.
  - unfold step, set_grad. now rewrite (proj2 (nl_eqb_spec _ _) eq_refl).
  - unfold step, set_grad. rewrite (proj2 (nl_eqb_spec [3 * n_atoms s] _) eq_refl). now rewrite orb_true_r.
  - intros sh Hs. unfold step, set_hess. destruct (nl_eqb sh [3 * n_atoms s; 3 * n_atoms s]) eqn:E;
      [apply nl_eqb_spec in E; contradiction|reflexivity].
  - reflexivity.
  - unfold step, set_hess. now rewrite (proj2 (nl_eqb_spec _ _) eq_refl).
  - intros m. rewrite <- mapping_ok_spec. unfold step, reorder.
    destruct (mapping_ok (n_atoms s) m); split; auto; discriminate.
  - intros m H. unfold step, reorder in *. destruct (mapping_ok (n_atoms s) m); [contradiction H; reflexivity|reflexivity].
  - intros rows big pure Hr. unfold step, set_coords.
    destruct (rows =? n_atoms s) eqn:E; [apply Nat.eqb_eq in E; contradiction|]. cbn. repeat split.
  - reflexivity.
Qed.

(* the multiplicity of a species constructed with a positive one stays positive whatever is done to it *)
Theorem multiplicity_stays_positive : forall ls edges m ops,
  (0 < m)%Z -> (0 < mult (run (init ls edges m) ops))%Z.
Proof. intros. now apply mult_pos_run. Qed.

(* FALSE of the faithful model (and of the code: finding Species.__init__|non-positive-multiplicity-accepted):
   "non-positive multiplicity rejected" - the constructor stores int(mult) unchecked (species.py:83) *)
Theorem nonpositive_multiplicity_at_construction_refuted :
  exists ls edges m, (m <= 0)%Z /\ mult (init ls edges m) = m.
Proof. exists [1], [], 0%Z. split; [lia|reflexivity]. Qed.

(* ------------------------------------------------------------------------------------------------
   7. SUPPORTING lemmas, not linked to Model.v (which has no numbers) and not to calculus (that `gradient` and
      `hessian` below are the derivatives of `energy` is not proved): they justify the design of the ghost tags.
      Why transforming with the frame is right (semantics of the ghost tags): for every pair potential
      (arbitrary radial functions phi_ij of the squared distance, any number of atoms, exact rationals),
      every orthogonal R and every shift t, energy / gradient / Hessian of the moved geometry
      x'_i = R x_i + t are E, R G_i and R H_ij R^-1 - what Species.rotate stores - and a pure translation
      (what Species.translate, centre and the translated coordinates= do) changes none of them.          *)
Theorem rigid_motion_covariance :
  forall (n : nat) (phi dphi ddphi : nat -> nat -> Qc -> Qc) (R : m3) (t : v3) (x : geometry),
  isometry R ->
  energy n phi (moved R t x) = energy n phi x /\
  (forall i, gradient n dphi (moved R t x) i = mv R (gradient n dphi x i)) /\
  (forall i j w, hessian n dphi ddphi (moved R t x) i j (mv R w) = mv R (hessian n dphi ddphi x i j w)).
Proof.
  intros n phi dphi ddphi R t x I. split; [|split].
  - now apply energy_invariant.
  - intros i. now apply gradient_covariant.
  - intros i j w. now apply hessian_covariant.
Qed.

Theorem translation_changes_nothing :
  forall (n : nat) (phi dphi ddphi : nat -> nat -> Qc -> Qc) (t : v3) (x : geometry),
  energy n phi (moved ident3 t x) = energy n phi x /\
  (forall i, gradient n dphi (moved ident3 t x) i = gradient n dphi x i) /\
  (forall i j w, hessian n dphi ddphi (moved ident3 t x) i j w = hessian n dphi ddphi x i j w).
Proof.
  intros n phi dphi ddphi t x. pose proof isometry_ident as I. split; [|split].
  - now apply energy_invariant.
  - intros i. rewrite (gradient_covariant n dphi ident3 t x i I). apply mv_ident.
  - intros i j w. pose proof (hessian_covariant n dphi ddphi ident3 t x i j w I) as H.
    now rewrite !mv_ident in H.
Qed.

(* ------------------------------------------------------------------------------------------------
   Non-vacuity: the hypotheses above are satisfiable by a non-trivial history in which every kind of
   result is present, rotated, translated, copied, queried and reordered by the identity.          *)
Example fresh_nonvacuous :
  let s0 := init [8; 1; 9] [(0, 1); (0, 2)] 1%Z in
  let ops := [SetEnergy true; SetGrad (GArr [3; 3]); SetHess (HArr [9; 9]); Translate; Rotate;
              Query QFreq; SetCoords 3 false true; Query QSn; Thermo; Copy;
              Reorder [(0, 1); (1, 2); (2, 0)]; Query QFreq; Rotate] in
  let s := run s0 ops in
  en s <> [] /\ grad s = Some (cur s) /\ hess s = Some (cur s) /\ frame s = 2 /\ order s = [2; 0; 1] /\
  labels s = [9; 8; 1] /\ graph s = Some [(1, 2); (1, 0)] /\
  hcache (run s0 (firstn 12 ops)) = Some (cur (run s0 (firstn 12 ops))).
Proof. cbn. repeat split; discriminate. Qed.

Example invalid_mapping_example :
  mapping_ok 3 [(0, 1); (1, 0)] = false /\ mapping_ok 3 [(0, 1); (1, 1); (2, 0)] = false /\
  mapping_ok 3 [(0, 2); (1, 0); (2, 1)] = true.
Proof. repeat split. Qed.

(* a genuine rotation (about z, cos = 3/5, sin = 4/5) satisfies the hypothesis of rigid_motion_covariance *)
Example isometry_nonvacuous :
  let c := Q2Qc (3 # 5) in let s := Q2Qc (4 # 5) in
  isometry (M3 (V3 c (- s) 0) (V3 s c 0) (V3 0 0 1))%Qc.
Proof.
  intros c s u v. unfold mv, dot; cbn [vx vy vz r1 r2 r3].
  assert (E : (c * c + s * s = 1)%Qc) by (apply Qc_is_canon; reflexivity).
  transitivity ((c * c + s * s) * (vx u * vx v + vy u * vy v) + vz u * vz v)%Qc; [ring|].
  rewrite E. ring.
Qed.
