(* C14/Rigid.v — why "transform the array with the frame" is the right thing to do: for EVERY pair
   potential  E(x) = sum_{i<j} phi_ij(|x_i - x_j|^2)  (arbitrary radial functions, any number of atoms),
   every orthogonal map R (stated as: R preserves dot products) and every shift t, the energy, gradient
   and Hessian at the moved geometry  x'_i = R x_i + t  are
        E(x') = E(x),      G_i(x') = R G_i(x),      H_ij(x') (R w) = R (H_ij(x) w)   (i.e. H' = R H R^-1),
   and for R = identity (pure translation) all three are unchanged.  This is the semantic content of the
   ghost tags of Model.v: `rotate` applies R to coordinates, gradient rows and Hessian blocks alike
   (species.py:1103-1127), a translation touches none of them.  Exact rationals (Qc), no axioms.
   (The formulas for G and H are the formal derivatives of E for radial functions with derivatives dphi,
   ddphi; the covariance statements hold for arbitrary dphi, ddphi and do not need that fact.) *)
From Coq Require Import QArith Qcanon List Arith Bool Lia.
Import ListNotations.
Open Scope Qc_scope.

Record v3 := V3 { vx : Qc; vy : Qc; vz : Qc }.
Definition vzero : v3 := V3 0 0 0.
Definition vadd (a b : v3) : v3 := V3 (vx a + vx b) (vy a + vy b) (vz a + vz b).
Definition vsub (a b : v3) : v3 := V3 (vx a - vx b) (vy a - vy b) (vz a - vz b).
Definition vscal (c : Qc) (a : v3) : v3 := V3 (c * vx a) (c * vy a) (c * vz a).
Definition dot (a b : v3) : Qc := vx a * vx b + vy a * vy b + vz a * vz b.
Definition sq (a : v3) : Qc := dot a a.

Record m3 := M3 { r1 : v3; r2 : v3; r3 : v3 }.
Definition mv (R : m3) (u : v3) : v3 := V3 (dot (r1 R) u) (dot (r2 R) u) (dot (r3 R) u).
Definition ident3 : m3 := M3 (V3 1 0 0) (V3 0 1 0) (V3 0 0 1).
(* R^T R = I, stated through its action *)
Definition isometry (R : m3) : Prop := forall u v, dot (mv R u) (mv R v) = dot u v.
Definition move (R : m3) (t a : v3) : v3 := vadd (mv R a) t.

Ltac v3eq := unfold move, mv, vadd, vsub, vscal, dot, vzero, ident3; cbn [vx vy vz r1 r2 r3]; f_equal; ring.

Lemma mv_add R a b : mv R (vadd a b) = vadd (mv R a) (mv R b).
Proof. v3eq. Qed.
Lemma mv_sub R a b : mv R (vsub a b) = vsub (mv R a) (mv R b).
Proof. v3eq. Qed.
Lemma mv_scal R c a : mv R (vscal c a) = vscal c (mv R a).
Proof. v3eq. Qed.
Lemma mv_zero R : mv R vzero = vzero.
Proof. v3eq. Qed.
Lemma mv_ident a : mv ident3 a = a.
Proof. destruct a. v3eq. Qed.
Lemma isometry_ident : isometry ident3.
Proof. intros u v. now rewrite !mv_ident. Qed.
Lemma move_sub R t a b : vsub (move R t a) (move R t b) = mv R (vsub a b).
Proof. v3eq. Qed.
Lemma sqdist_move R t a b : isometry R -> sq (vsub (move R t a) (move R t b)) = sq (vsub a b).
Proof. intros I. unfold sq. rewrite move_sub. apply I. Qed.

Definition two : Qc := 1 + 1.
Definition four : Qc := two * two.
Definition qsum (l : list Qc) : Qc := fold_right Qcplus 0 l.
Definition vsum (l : list v3) : v3 := fold_right vadd vzero l.
Lemma mv_vsum R l : mv R (vsum l) = vsum (map (mv R) l).
Proof.
  induction l as [|a l IH]; [apply mv_zero|].
  change (vsum (a :: l)) with (vadd a (vsum l)). rewrite mv_add, IH. reflexivity.
Qed.

Section PairPotential.
  Variable n : nat.                                  (* number of atoms *)
  Variables phi dphi ddphi : nat -> nat -> Qc -> Qc. (* radial function of pair (i,j) and its derivatives
                                                        with respect to the SQUARED distance *)
  Definition geometry := nat -> v3.
  Definition d2 (x : geometry) (i j : nat) : Qc := sq (vsub (x i) (x j)).
  Definition others (i : nat) : list nat := filter (fun j => negb (j =? i)) (seq 0 n).
  Definition above (i : nat) : list nat := filter (fun j => i <? j) (seq 0 n).

  Definition energy (x : geometry) : Qc :=
    qsum (map (fun i => qsum (map (fun j => phi i j (d2 x i j)) (above i))) (seq 0 n)).
  (* dE/dx_i *)
  Definition gradient (x : geometry) (i : nat) : v3 :=
    vsum (map (fun j => vscal (two * dphi i j (d2 x i j)) (vsub (x i) (x j))) (others i)).
  (* d2E/dx_i dx_j as a linear map on displacements w of atom j *)
  Definition hblock (x : geometry) (i j : nat) (w : v3) : v3 :=
    let d := vsub (x i) (x j) in
    vsub vzero (vadd (vscal (four * ddphi i j (d2 x i j) * dot d w) d) (vscal (two * dphi i j (d2 x i j)) w)).
  Definition hessian (x : geometry) (i j : nat) (w : v3) : v3 :=
    if i =? j then vsub vzero (vsum (map (fun k => hblock x i k w) (others i))) else hblock x i j w.

  Definition moved (R : m3) (t : v3) (x : geometry) : geometry := fun i => move R t (x i).

  Lemma d2_moved R t x i j : isometry R -> d2 (moved R t x) i j = d2 x i j.
  Proof. intros I. unfold d2, moved. now apply sqdist_move. Qed.

  Lemma energy_invariant R t x : isometry R -> energy (moved R t x) = energy x.
  Proof.
    intros I. unfold energy. f_equal. apply map_ext. intros i. f_equal. apply map_ext. intros j.
    now rewrite d2_moved.
  Qed.

  Lemma gradient_covariant R t x i : isometry R -> gradient (moved R t x) i = mv R (gradient x i).
  Proof.
    intros I. unfold gradient. rewrite mv_vsum, map_map. f_equal. apply map_ext. intros j.
    rewrite d2_moved by exact I. unfold moved. now rewrite move_sub, mv_scal.
  Qed.

  Lemma hblock_covariant R t x i j w : isometry R ->
    hblock (moved R t x) i j (mv R w) = mv R (hblock x i j w).
  Proof.
    intros I. unfold hblock. cbv zeta. rewrite d2_moved by exact I. unfold moved. rewrite move_sub, I.
    v3eq.
  Qed.

  Lemma hessian_covariant R t x i j w : isometry R ->
    hessian (moved R t x) i j (mv R w) = mv R (hessian x i j w).
  Proof.
    intros I. unfold hessian. destruct (i =? j).
    - rewrite (mv_sub R vzero), mv_zero, mv_vsum, map_map. do 2 f_equal. apply map_ext. intros k.
      now apply hblock_covariant.
    - now apply hblock_covariant.
  Qed.

  Lemma moved_ident_zero x i : moved ident3 vzero x i = x i.
  Proof. unfold moved, move. rewrite mv_ident. destruct (x i). v3eq. Qed.
End PairPotential.
