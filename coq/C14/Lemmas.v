(* C14/Lemmas.v — invariants of the Species state machine and their proofs. *)
From Coq Require Import List Bool Arith ZArith Lia.
From AV.C14 Require Import Model.
Import ListNotations.

(* ---------- the invariant ---------- *)
(* every stored energy was computed for the current geometry *)
Definition FreshE (s : sp) : Prop := Forall (fun g => g = geom s) (en s).
(* gradient / Hessian: current geometry, current frame, current atom order *)
Definition FreshG (s : sp) : Prop := forall t, grad s = Some t -> t = cur s.
Definition FreshH (s : sp) : Prop := forall t, hess s = Some t -> t = cur s.
(* quantities memoised on the Hessian object (normal modes, ...) *)
Definition FreshC (s : sp) : Prop := forall t, hcache s = Some t -> t = cur s.

Definition FreshCore (s : sp) : Prop := FreshE s /\ FreshG s /\ FreshH s.
Definition Fresh (s : sp) : Prop := FreshCore s /\ FreshC s.

(* boolean twins (used by the correspondence check and by the refutation witnesses) *)
Definition tag_eqb (a b : tag) : bool :=
  (tgeom a =? tgeom b) && (tframe a =? tframe b) &&
  nl_eqb (torder a) (torder b).
Definition otag_fresh (s : sp) (o : option tag) : bool :=
  match o with None => true | Some t => tag_eqb t (cur s) end.
Definition fresh_e_b (s : sp) : bool := forallb (fun g => g =? geom s) (en s).
Definition fresh_g_b (s : sp) : bool := otag_fresh s (grad s).
Definition fresh_h_b (s : sp) : bool := otag_fresh s (hess s).
Definition fresh_c_b (s : sp) : bool := otag_fresh s (hcache s).
Definition fresh_b (s : sp) : bool := fresh_e_b s && fresh_g_b s && fresh_h_b s && fresh_c_b s.

Lemma nl_eqb_spec : forall a b, nl_eqb a b = true <-> a = b.
Proof.
  induction a as [|x a IH]; destruct b as [|y b]; cbn; try (split; [discriminate|discriminate]).
  - split; reflexivity.
  - rewrite andb_true_iff, Nat.eqb_eq, IH. split.
    + intros [-> ->]; reflexivity.
    + intros H; inversion H; auto.
Qed.

Lemma tag_eqb_spec a b : tag_eqb a b = true <-> a = b.
Proof.
  destruct a as [g f o], b as [g' f' o']. unfold tag_eqb; cbn [tgeom tframe torder].
  rewrite !andb_true_iff, !Nat.eqb_eq, nl_eqb_spec. split.
  - intros [[-> ->] ->]; reflexivity.
  - intros H; inversion H; auto.
Qed.

Lemma otag_fresh_spec s o : otag_fresh s o = true <-> (forall t, o = Some t -> t = cur s).
Proof.
  destruct o as [t|]; cbn.
  - rewrite tag_eqb_spec. split.
    + intros -> t' H; now inversion H.
    + intros H; now apply H.
  - split; [intros _ t H; discriminate | reflexivity].
Qed.

Lemma fresh_e_b_spec s : fresh_e_b s = true <-> FreshE s.
Proof.
  unfold fresh_e_b, FreshE. rewrite forallb_forall, Forall_forall.
  split; intros H x Hx; specialize (H x Hx); [now apply Nat.eqb_eq|now apply Nat.eqb_eq].
Qed.

Lemma fresh_b_spec s : fresh_b s = true <-> Fresh s.
Proof.
  unfold fresh_b, Fresh, FreshCore, fresh_g_b, fresh_h_b, fresh_c_b.
  rewrite !andb_true_iff, fresh_e_b_spec, !otag_fresh_spec. unfold FreshG, FreshH, FreshC. tauto.
Qed.

(* ---------- small helpers ---------- *)
Lemma FreshE_nil s : en s = [] -> FreshE s.
Proof. unfold FreshE; intros ->; constructor. Qed.

Ltac fresh_unfold := unfold Fresh, FreshCore, FreshE, FreshG, FreshH, FreshC in *.

(* ---------- initial state ---------- *)
Lemma fresh_init ls e m : Fresh (init ls e m).
Proof. fresh_unfold; cbn. repeat split; try constructor; intros t H; discriminate. Qed.

Ltac cleared := fresh_unfold; cbn; repeat split; try constructor; intros ? H; discriminate H.

(* ---------- one lemma per operation ---------- *)
Lemma fresh_set_coords rows big pure s : Fresh s -> Fresh (fst (set_coords rows big pure s)).
Proof.
  intros F. unfold set_coords.
  destruct (negb (rows =? n_atoms s)); [cleared|].
  destruct big; [cleared|destruct pure; [exact F|]].
  destruct F as [[FE _] _]. fresh_unfold; cbn.
  repeat split; try exact FE; intros t H; discriminate.
Qed.

Lemma fresh_set_atoms ls big pure s : Fresh s -> Fresh (fst (set_atoms ls big pure s)).
Proof.
  intros F. unfold set_atoms. destruct (nl_eqb ls (labels s)).
  - now apply fresh_set_coords.
  - cleared.
Qed.

Lemma fresh_translate s : Fresh s -> Fresh (fst (translate s)).
Proof. auto. Qed.

Lemma fresh_centre s : Fresh s -> Fresh (fst (centre s)).
Proof. auto. Qed.

(* rotation: the stored arrays are rotated with the molecule, the memoised values are dropped *)
Lemma fresh_rotate s : Fresh s -> Fresh (fst (rotate s)).
Proof.
  intros [[FE [FG FH]] FC]. fresh_unfold; cbn. repeat split; try exact FE.
  - intros t H. destruct (grad s) as [t0|] eqn:E; [|discriminate]. cbn in H. inversion H; subst.
    rewrite (FG t0 eq_refl). reflexivity.
  - intros t H. destruct (hess s) as [t0|] eqn:E; [|discriminate]. cbn in H. inversion H; subst.
    rewrite (FH t0 eq_refl). reflexivity.
  - intros t H; discriminate.
Qed.

Lemma fresh_set_energy b s : Fresh s -> Fresh (fst (set_energy b s)).
Proof.
  intros F. destruct b; [|exact F]. destruct F as [[FE [FG FH]] FC].
  fresh_unfold; cbn. repeat split; auto.
  apply Forall_app; split; [exact FE|constructor; [reflexivity|constructor]].
Qed.

Lemma fresh_set_grad a s : Fresh s -> Fresh (fst (set_grad a s)).
Proof.
  intros F. destruct a as [|sh|]; unfold set_grad; [| |exact F].
  - destruct F as [[FE [FG FH]] FC]. fresh_unfold; cbn. repeat split; auto. intros t H; discriminate.
  - destruct (nl_eqb sh [n_atoms s; 3] || nl_eqb sh [3 * n_atoms s]); [|exact F].
    destruct F as [[FE [FG FH]] FC]. fresh_unfold; cbn. repeat split; auto.
    intros t H; now inversion H.
Qed.

Lemma fresh_set_hess a s : Fresh s -> Fresh (fst (set_hess a s)).
Proof.
  intros F. destruct a as [|sh|]; unfold set_hess; [| |exact F].
  - destruct F as [[FE [FG FH]] FC]. fresh_unfold; cbn. repeat split; auto; intros t H; discriminate.
  - destruct (nl_eqb sh [3 * n_atoms s; 3 * n_atoms s]); [|exact F].
    destruct F as [[FE [FG FH]] FC]. fresh_unfold; cbn. repeat split; auto.
    + intros t H; now inversion H.
    + intros t H; discriminate.
Qed.

Lemma fresh_copy s : Fresh s -> Fresh (copy s).
Proof.
  intros [[FE [FG FH]] FC]. fresh_unfold; cbn. repeat split; auto. intros t H; discriminate.
Qed.

Lemma fresh_new_species s : Fresh s -> Fresh (new_species s).
Proof. intros _. cleared. Qed.

(* reorder: atoms, gradient rows and Hessian rows/columns are permuted by the same mapping *)
Lemma fresh_reorder m s : Fresh s -> Fresh (fst (reorder m s)).
Proof.
  intros F. unfold reorder. destruct (mapping_ok (n_atoms s) m); [|exact F].
  destruct F as [[FE [FG FH]] FC]. fresh_unfold; unfold cur in *; cbn. repeat split; try exact FE.
  - intros t H. destruct (grad s) as [t0|] eqn:E; [|discriminate]. cbn in H. inversion H; subst.
    rewrite (FG t0 eq_refl). reflexivity.
  - intros t H. destruct (hess s) as [t0|] eqn:E; [|discriminate]. cbn in H. inversion H; subst.
    rewrite (FH t0 eq_refl). reflexivity.
  - intros t H; discriminate.
Qed.

Lemma fresh_query q s : Fresh s -> Fresh (fst (do_query q s)).
Proof.
  intros F. destruct q; try exact F. cbn.
  destruct (hess s) as [t|] eqn:Eh; [|exact F].
  destruct F as [[FE [FG FH]] FC]. fresh_unfold; cbn. repeat split; auto.
  - intros t' H. apply FH. now rewrite Eh.
  - intros t' H. destruct (hcache s) as [c|] eqn:Ec.
    + inversion H; subst. now apply FC.
    + inversion H; subst. now apply FH.
Qed.

Lemma fresh_thermo s : Fresh s -> Fresh (fst (thermo s)).
Proof.
  intros F. unfold thermo. destruct (hess s) eqn:E; [|exact F].
  apply fresh_set_energy. apply (fresh_query QFreq). exact F.
Qed.

Lemma fresh_set_mult v s : Fresh s -> Fresh (fst (set_mult v s)).
Proof.
  intros F. destruct v as [z|]; unfold set_mult; [|exact F]. destruct (0 <? z)%Z; exact F.
Qed.

Lemma fresh_set_graph e s : Fresh s -> Fresh (fst (set_graph e s)).
Proof. intros F; exact F. Qed.

(* ---------- every operation ---------- *)
Lemma fresh_step s o : Fresh s -> Fresh (fst (step s o)).
Proof.
  intros F. destruct o; cbn [step].
  - now apply fresh_set_atoms.
  - now apply fresh_set_coords.
  - exact F.
  - now apply fresh_translate.
  - now apply fresh_rotate.
  - now apply fresh_centre.
  - now apply fresh_set_energy.
  - now apply fresh_set_grad.
  - now apply fresh_set_hess.
  - now apply fresh_copy.
  - now apply fresh_new_species.
  - now apply fresh_reorder.
  - now apply fresh_query.
  - now apply fresh_thermo.
  - now apply fresh_set_mult.
  - now apply fresh_set_graph.
Qed.

(* ---------- sequences ---------- *)
Lemma fresh_run ops : forall s, Fresh s -> Fresh (run s ops).
Proof.
  induction ops as [|o r IH]; intros s F; [exact F|].
  unfold run; cbn. apply IH. now apply fresh_step.
Qed.

(* the memoised values always belong to the stored Hessian object *)
Definition CacheWf (s : sp) : Prop := forall t, hcache s = Some t -> hess s = Some t.

Lemma cachewf_step s o : CacheWf s -> CacheWf (fst (step s o)).
Proof.
  unfold CacheWf. intros W. destruct o; cbn [step]; try exact W.
  - unfold set_atoms. destruct (nl_eqb ls (labels s)); [|cbn; intros t H; discriminate].
    unfold set_coords. destruct (negb (length ls =? n_atoms s)); [cbn; intros t H; discriminate|].
    destruct big; [cbn; intros t H; discriminate|destruct pure; [exact W|cbn; intros t H; discriminate]].
  - unfold set_coords. destruct (negb (rows =? n_atoms s)); [cbn; intros t H; discriminate|].
    destruct big; [cbn; intros t H; discriminate|destruct pure; [exact W|cbn; intros t H; discriminate]].
  - cbn; intros t H; discriminate.
  - destruct some; exact W.
  - destruct a as [|sh|]; unfold set_grad; try exact W. destruct (nl_eqb sh [n_atoms s; 3] || nl_eqb sh [3 * n_atoms s]); exact W.
  - destruct a as [|sh|]; unfold set_hess; try exact W; [cbn; intros t H; discriminate|].
    destruct (nl_eqb sh [3 * n_atoms s; 3 * n_atoms s]); [cbn; intros t H; discriminate|exact W].
  - cbn; intros t H; discriminate.
  - cbn; intros t H; discriminate.
  - unfold reorder. destruct (mapping_ok (n_atoms s) m); [cbn; intros t H; discriminate|exact W].
  - destruct q; try exact W. cbn. destruct (hess s) as [t0|] eqn:E; [|cbn; now rewrite E]. cbn.
    intros t H. destruct (hcache s) as [c|] eqn:Ec; inversion H; subst; [now apply W|reflexivity].
  - unfold thermo. destruct (hess s) as [t0|] eqn:E; [|cbn; now rewrite E]. cbn. rewrite E. cbn.
    intros t H. destruct (hcache s) as [c|] eqn:Ec; inversion H; subst; [now apply W|reflexivity].
  - destruct v as [z|]; unfold set_mult; [|exact W]. destruct (0 <? z)%Z; exact W.
Qed.

Lemma cachewf_run ops : forall s, CacheWf s -> CacheWf (run s ops).
Proof.
  induction ops as [|o r IH]; intros s W; [exact W|]. unfold run; cbn. apply IH. now apply cachewf_step.
Qed.

Lemma cachewf_init ls e m : CacheWf (init ls e m).
Proof. intros t H; discriminate. Qed.

(* ---------- the multiplicity stays positive ---------- *)
Lemma mult_pos_step s o : (0 < mult s)%Z -> (0 < mult (fst (step s o)))%Z.
Proof.
  intros P. destruct o; cbn [step]; try exact P.
  - unfold set_atoms. destruct (nl_eqb ls (labels s)); [|exact P].
    unfold set_coords. destruct (negb (length ls =? n_atoms s)); [exact P|].
    destruct big; [exact P|destruct pure; exact P].
  - unfold set_coords. destruct (negb (rows =? n_atoms s)); [exact P|].
    destruct big; [exact P|destruct pure; exact P].
  - destruct some; exact P.
  - destruct a as [|sh|]; unfold set_grad; try exact P. destruct (nl_eqb sh [n_atoms s; 3] || nl_eqb sh [3 * n_atoms s]); exact P.
  - destruct a as [|sh|]; unfold set_hess; try exact P.
    destruct (nl_eqb sh [3 * n_atoms s; 3 * n_atoms s]); exact P.
  - unfold reorder. destruct (mapping_ok (n_atoms s) m); exact P.
  - destruct q; try exact P. cbn. destruct (hess s); exact P.
  - unfold thermo. destruct (hess s) eqn:E; [|exact P]. cbn. rewrite E. exact P.
  - destruct v as [z|]; unfold set_mult; [|exact P]. destruct (0 <? z)%Z eqn:E; [|exact P].
    cbn. now apply Z.ltb_lt.
Qed.

Lemma mult_pos_run ops : forall s, (0 < mult s)%Z -> (0 < mult (run s ops))%Z.
Proof.
  induction ops as [|o r IH]; intros s P; [exact P|]. unfold run; cbn. apply IH. now apply mult_pos_step.
Qed.

(* ---------- several species: an operation on one leaves the others unchanged ---------- *)
Lemma nth_error_replace_other {A} (x : A) : forall l i j, i <> j -> nth_error (replace_nth i x l) j = nth_error l j.
Proof.
  induction l as [|y r IH]; intros i j Hij; [destruct i; reflexivity|].
  destruct i, j; cbn; try reflexivity; [congruence|]. apply IH; congruence.
Qed.

Lemma nth_error_replace_same {A} (x : A) : forall l i, i < length l -> nth_error (replace_nth i x l) i = Some x.
Proof.
  induction l as [|y r IH]; intros i Hi; cbn in Hi; [lia|].
  destruct i; cbn; [reflexivity|]. apply IH; lia.
Qed.

Lemma replace_nth_length {A} (x : A) : forall l i, length (replace_nth i x l) = length l.
Proof. induction l as [|y r IH]; intros i; [destruct i; reflexivity|]. destruct i; cbn; [reflexivity|now rewrite IH]. Qed.

Definition targets (x : wop) (j : nat) : Prop := match x with On i _ => i = j | _ => False end.

Lemma wstep_frame w x j : j < length w -> ~ targets x j -> nth_error (wstep w x) j = nth_error w j.
Proof.
  intros Hj Ht. destruct x as [i o|i|i]; cbn in *.
  - destruct (nth_error w i); [|reflexivity]. apply nth_error_replace_other. exact Ht.
  - destruct (nth_error w i); [|reflexivity]. now apply nth_error_app1.
  - destruct (nth_error w i); [|reflexivity]. now apply nth_error_app1.
Qed.

Lemma wstep_length w x : length w <= length (wstep w x).
Proof.
  destruct x as [i o|i|i]; cbn; destruct (nth_error w i); try lia.
  - rewrite replace_nth_length; lia.
  - rewrite app_length; cbn; lia.
  - rewrite app_length; cbn; lia.
Qed.

Lemma wrun_frame xs : forall w j, j < length w -> (forall x, In x xs -> ~ targets x j) ->
  nth_error (wrun w xs) j = nth_error w j.
Proof.
  induction xs as [|x r IH]; intros w j Hj Hn; [reflexivity|].
  unfold wrun; cbn. fold (wrun (wstep w x) r). rewrite IH.
  - apply wstep_frame; [exact Hj|]. apply Hn; now left.
  - pose proof (wstep_length w x); lia.
  - intros y Hy. apply Hn; now right.
Qed.

(* ---------- reorder: the mapping acts as a permutation ---------- *)
Lemma subsetb_spec a b : subsetb a b = true <-> incl a b.
Proof.
  unfold subsetb, incl. rewrite forallb_forall. split; intros H x Hx; specialize (H x Hx).
  - apply existsb_exists in H as [y [Hy E]]. apply Nat.eqb_eq in E; now subst.
  - apply existsb_exists. exists x; split; [exact H|apply Nat.eqb_refl].
Qed.

Lemma set_eqb_spec a b : set_eqb a b = true <-> (forall x, In x a <-> In x b).
Proof.
  unfold set_eqb. rewrite andb_true_iff, !subsetb_spec. unfold incl. split.
  - intros [H1 H2] x; split; auto.
  - intros H; split; intros x Hx; now apply H.
Qed.

Lemma mapping_ok_spec n m : mapping_ok n m = true <->
  (forall k, In k (map fst m) <-> k < n) /\ (forall v, In v (map snd m) <-> v < n).
Proof.
  unfold mapping_ok. rewrite andb_true_iff, !set_eqb_spec.
  split; intros [H1 H2]; split; intros x.
  - rewrite H1, in_seq; lia.
  - rewrite H2, in_seq; lia.
  - rewrite H1, in_seq; lia.
  - rewrite H2, in_seq; lia.
Qed.

Lemma nth_map_seq' {A} (f : nat -> A) d n i : i < n -> nth i (map f (seq 0 n)) d = f i.
Proof.
  intros Hi. rewrite (nth_indep _ d (f 0)) by (rewrite map_length, seq_length; exact Hi).
  rewrite (map_nth f (seq 0 n) 0 i). now rewrite seq_nth.
Qed.

Lemma NoDup_map_inj {A B} (f : A -> B) : forall l a b, NoDup (map f l) -> In a l -> In b l -> f a = f b -> a = b.
Proof.
  induction l as [|x r IH]; intros a b Hn Ha Hb E; [destruct Ha|].
  cbn in Hn. inversion Hn as [|? ? Hx Hr]; subst.
  destruct Ha as [->|Ha], Hb as [->|Hb]; auto.
  - exfalso; apply Hx. rewrite E. now apply in_map.
  - exfalso; apply Hx. rewrite <- E. now apply in_map.
Qed.

Lemma find_some_fst (m : list (nat * nat)) k : In k (map fst m) ->
  exists p, find (fun p => fst p =? k) m = Some p /\ In p m /\ fst p = k.
Proof.
  intros Hk. apply in_map_iff in Hk as [q [Eq Hq]].
  destruct (find (fun p => fst p =? k) m) as [p|] eqn:F.
  - apply find_some in F as [Hp E]. apply Nat.eqb_eq in E. now exists p.
  - exfalso. pose proof (find_none _ _ F q Hq) as H. cbn in H. rewrite Eq, Nat.eqb_refl in H. discriminate.
Qed.

Lemma find_some_snd (m : list (nat * nat)) v : In v (map snd m) ->
  exists p, find (fun p => snd p =? v) m = Some p /\ In p m /\ snd p = v.
Proof.
  intros Hk. apply in_map_iff in Hk as [q [Eq Hq]].
  destruct (find (fun p => snd p =? v) m) as [p|] eqn:F.
  - apply find_some in F as [Hp E]. apply Nat.eqb_eq in E. now exists p.
  - exfalso. pose proof (find_none _ _ F q Hq) as H. cbn in H. rewrite Eq, Nat.eqb_refl in H. discriminate.
Qed.

Lemma mapping_values_nodup n m : mapping_ok n m = true -> NoDup (map fst m) -> NoDup (map snd m).
Proof.
  intros Ok Nk. apply mapping_ok_spec in Ok as [K V].
  assert (Ln : length m = n).
  { apply Nat.le_antisymm.
    - rewrite <- (map_length fst m), <- (seq_length n 0). apply NoDup_incl_length; [exact Nk|].
      intros x Hx. apply in_seq. apply K in Hx. lia.
    - rewrite <- (map_length fst m), <- (seq_length n 0) at 1. apply NoDup_incl_length; [apply seq_NoDup|].
      intros x Hx. apply in_seq in Hx. apply K. lia. }
  apply (@NoDup_incl_NoDup _ (seq 0 n)); [apply seq_NoDup| |].
  - rewrite map_length, seq_length. lia.
  - intros x Hx. apply in_seq in Hx. apply V. lia.
Qed.

Lemma lookup_perm n m i : mapping_ok n m = true -> NoDup (map fst m) -> i < n ->
  lookup m i < n /\ inv_lookup m (lookup m i) = i.
Proof.
  intros Ok Nk Hi. pose proof (mapping_values_nodup _ _ Ok Nk) as Nv.
  apply mapping_ok_spec in Ok as [K V].
  destruct (find_some_fst m i (proj2 (K i) Hi)) as [p [Fp [Hp Ep]]].
  unfold lookup. rewrite Fp.
  assert (Hv : In (snd p) (map snd m)) by now apply in_map.
  split; [now apply V|].
  destruct (find_some_snd m (snd p) Hv) as [q [Fq [Hq Eq]]].
  unfold inv_lookup. rewrite Fq.
  rewrite (NoDup_map_inj snd m q p Nv Hq Hp Eq). exact Ep.
Qed.

Lemma permute_nth {A} (d : A) n m (l : list A) i :
  mapping_ok n m = true -> NoDup (map fst m) -> length l = n -> i < n ->
  nth (lookup m i) (permute d m l) d = nth i l d.
Proof.
  intros Ok Nk Ll Hi. destruct (lookup_perm n m i Ok Nk Hi) as [Hlt Hinv].
  unfold permute. rewrite nth_map_seq' by lia. now rewrite Hinv.
Qed.

Lemma permute_length {A} (d : A) m (l : list A) : length (permute d m l) = length l.
Proof. unfold permute. now rewrite map_length, seq_length. Qed.
