(* C02/Props.v — the property theorems.  builtin_ops / organic_pre / organic_guards / organic_body /
   calc_mult_gen / top_* / mg_* are GENERATED from /repo on every run (coq/gen/C02_Gen.v):
   run_builtin = init_smiles, run_rdkit = init_organic_smiles when no fallback condition fires,
   run_organic = init_organic_smiles, init_top = Molecule._init_smiles.

   Every theorem quantifies over ALL inputs I (parsed SMILES molecule + oracle facts) and all initial
   charge/multiplicity values of the blank molecule.  "delivers st g atoms" = no statement raised,
   the molecule has graph g and atoms [atoms]. *)
From Coq Require Import ZArith List Bool Arith Lia.
From AV.C02 Require Import Model Lemmas.
From AV.gen Require Import C02_Gen.
Import ListNotations.

(* Both paths end with edges = SMILES bonds including one bond per explicit hydrogen. *)
Theorem both_paths_same_bonds :
  forall I c m, wf_mol (mol I) = true ->
  (exists g a, delivers (run_builtin I (init_state c m)) g a /\
               forall i j, has_edge g i j = bond_spec (mol I) i j) /\
  (rdk_agrees (mol I) (rd I) ->
   exists g a, delivers (run_rdkit I (init_state c m)) g a /\
               forall i j, has_edge g i j = bond_spec (mol I) i j).
Proof.
  intros I c m W. split.
  - exists (builtin_graph I), (builder_atoms I). split.
    + split; [apply builtin_no_crash, W | split; [apply builtin_graph_eq | apply builtin_atoms_eq]].
    + intros i j. apply builtin_has_edge.
  - intros A. exists (rdkit_graph I), (rdkit_atoms I). split.
    + split; [apply rdkit_no_crash; assumption | split; [apply rdkit_graph_eq | apply rdkit_atoms_eq]].
    + intros i j. apply rdkit_has_edge, A.
Qed.

(* The final pi set is EXACTLY the bonds that are multiple or aromatic in the SMILES, on each path.
   (The proof uses that the marks are put on the graph made by RebuildGraph and that the built-in
   rule is `order > 1 or both ends aromatic`: with the marks before the rebuild the generated graph
   term is a bare `rebuild ...` whose pi set is empty - rebuild_forgets_marks below - and with the rule
   RTrue the rule lemma fails.)  Built-in path: for molecules in which every bond between two lower-case
   atoms is an aromatic bond; see pi_builtin_aromatic_linker_refuted for the others. *)
Theorem pi_flags_exact :
  forall I c m, wf_mol (mol I) = true ->
  (arom_consistent (mol I) ->
   exists g a, delivers (run_builtin I (init_state c m)) g a /\
               forall i j, edge_pi g i j = pi_spec (mol I) i j) /\
  (rdk_agrees (mol I) (rd I) ->
   exists g a, delivers (run_rdkit I (init_state c m)) g a /\
               forall i j, edge_pi g i j = pi_spec (mol I) i j).
Proof.
  intros I c m W. split.
  - intros AC. exists (builtin_graph I), (builder_atoms I). split.
    + split; [apply builtin_no_crash, W | split; [apply builtin_graph_eq | apply builtin_atoms_eq]].
    + intros i j. apply builtin_edge_pi, AC.
  - intros A. exists (rdkit_graph I), (rdkit_atoms I). split.
    + split; [apply rdkit_no_crash; assumption | split; [apply rdkit_graph_eq | apply rdkit_atoms_eq]].
    + intros i j. apply rdkit_edge_pi, A.
Qed.

(* FALSE without arom_consistent: a single bond joining two aromatic rings (biphenyl) is marked pi by the
   built-in path although it is neither multiple nor aromatic.  Reported by the check as
   init_smiles|pi-aromatic-linker with a replay on the implementation. *)
Theorem pi_builtin_aromatic_linker_refuted :
  exists I g, wf_mol (mol I) = true /\ m_graph (run_builtin I (init_state 0%Z 1)) = Some g /\
              edge_pi g 0 1 = true /\ pi_spec (mol I) 0 1 = false.
Proof. exists w_linker, (builtin_graph w_linker). repeat split; reflexivity. Qed.

(* The final stereo set is exactly the marked atoms, on each path. *)
Theorem stereo_flags_exact :
  forall I c m, wf_mol (mol I) = true ->
  (exists g a, delivers (run_builtin I (init_state c m)) g a /\
               forall k, node_stereo g k = stereo_spec (mol I) k) /\
  (rdk_agrees (mol I) (rd I) ->
   exists g a, delivers (run_rdkit I (init_state c m)) g a /\
               forall k, node_stereo g k = stereo_spec (mol I) k).
Proof.
  intros I c m W. split.
  - exists (builtin_graph I), (builder_atoms I). split.
    + split; [apply builtin_no_crash, W | split; [apply builtin_graph_eq | apply builtin_atoms_eq]].
    + intros k. apply builtin_node_stereo.
  - intros A. exists (rdkit_graph I), (rdkit_atoms I). split.
    + split; [apply rdkit_no_crash; assumption | split; [apply rdkit_graph_eq | apply rdkit_atoms_eq]].
    + intros k. apply rdkit_node_stereo; assumption.
Qed.

(* SMILES atom classes are carried onto the graph nodes (hydrogens have none) - on the built-in path also when
   Builder.build fails and the atoms come from canonical_atoms_at_origin (Lemmas.origin_keeps_ok reads the regenerated
   constant: the proof breaks if builder.py drops atom_class there again, the defect repaired by ae1a4b7). *)
Theorem atom_classes_carried :
  forall I c m, wf_mol (mol I) = true ->
  (exists g a, delivers (run_builtin I (init_state c m)) g a /\
               forall k, node_class g k = class_spec (mol I) k) /\
  (rdk_agrees (mol I) (rd I) ->
   exists g a, delivers (run_rdkit I (init_state c m)) g a /\
               forall k, node_class g k = class_spec (mol I) k).
Proof.
  intros I c m W. split.
  - exists (builtin_graph I), (builder_atoms I). split.
    + split; [apply builtin_no_crash, W | split; [apply builtin_graph_eq | apply builtin_atoms_eq]].
    + intros k. apply builtin_node_class.
  - intros A. exists (rdkit_graph I), (rdkit_atoms I). split.
    + split; [apply rdkit_no_crash; assumption | split; [apply rdkit_graph_eq | apply rdkit_atoms_eq]].
    + intros k. apply rdkit_node_class, A.
Qed.

(* Forcing either path gives identical bonds, pi and stereo annotation, node classes, elements, charge
   and multiplicity - whenever the RDKit oracle agrees with the SMILES and no aromatic linker is present. *)
Theorem paths_agree :
  forall I c, wf_mol (mol I) = true -> rdk_agrees (mol I) (rd I) -> arom_consistent (mol I) ->
  exists g1 a1 g2 a2,
    delivers (run_builtin I (init_state c 1)) g1 a1 /\ delivers (run_rdkit I (init_state c 1)) g2 a2 /\
    (forall i j, has_edge g1 i j = has_edge g2 i j) /\
    (forall i j, edge_pi g1 i j = edge_pi g2 i j) /\
    (forall k, node_stereo g1 k = node_stereo g2 k) /\
    (forall k, node_class g1 k = node_class g2 k) /\
    map nd_z (g_nodes g1) = map nd_z (g_nodes g2) /\ map ma_z a1 = map ma_z a2 /\
    m_charge (run_builtin I (init_state c 1)) = m_charge (run_rdkit I (init_state c 1)) /\
    m_mult (run_builtin I (init_state c 1)) = m_mult (run_rdkit I (init_state c 1)).
Proof.
  intros I c W A AC.
  exists (builtin_graph I), (builder_atoms I), (rdkit_graph I), (rdkit_atoms I).
  split; [split; [apply builtin_no_crash, W | split; [apply builtin_graph_eq | apply builtin_atoms_eq]]|].
  split; [split; [apply rdkit_no_crash; assumption | split; [apply rdkit_graph_eq | apply rdkit_atoms_eq]]|].
  split; [intros i j; now rewrite builtin_has_edge, rdkit_has_edge|].
  split; [intros i j; now rewrite builtin_edge_pi, rdkit_edge_pi|].
  split; [intros k; now rewrite builtin_node_stereo, rdkit_node_stereo|].
  split; [intros k; now rewrite builtin_node_class, rdkit_node_class|].
  split; [change (z_l (g_nodes (builtin_graph I)) = z_l (g_nodes (rdkit_graph I)));
          now rewrite builtin_node_z, rdkit_node_z|].
  split; [now rewrite builder_atoms_z, rdkit_atoms_z, (ra_atoms _ _ A)|].
  split; [now rewrite builtin_charge_eq, rdkit_charge_eq, (ra_charge _ _ A)|].
  rewrite builtin_mult_eq, rdkit_mult_eq. cbn [Nat.eqb]. symmetry. apply rdkit_mult_spec, A.
Qed.

(* Atoms: the SMILES atoms in SMILES order followed by one explicit hydrogen per implicit/bracket H;
   H-count arithmetic of the hydrogen expansion: atom k gets exactly n_hydrogens(k) new single bonds,
   the new hydrogens are the indices n .. n+total-1, each with exactly one bond. *)
Theorem atoms_heavy_order_hydrogens_explicit :
  forall I c m, wf_mol (mol I) = true ->
  (exists g a, delivers (run_builtin I (init_state c m)) g a /\
               map ma_z a = z_spec (mol I) /\ map nd_z (g_nodes g) = z_spec (mol I)) /\
  (rdk_agrees (mol I) (rd I) ->
   exists g a, delivers (run_rdkit I (init_state c m)) g a /\
               map ma_z a = z_spec (mol I) /\ map nd_z (g_nodes g) = z_spec (mol I)) /\
  length (z_spec (mol I)) = length (s_atoms (mol I)) + total_h (s_atoms (mol I)) /\
  map sb_j (h_bonds (mol I)) = seq (length (s_atoms (mol I))) (total_h (s_atoms (mol I))) /\
  (forall k, count_occ Nat.eq_dec (map sb_i (h_bonds (mol I))) k = nth k (map sa_nh (s_atoms (mol I))) 0) /\
  (forall b, In b (h_bonds (mol I)) -> sb_order b = 1 /\ sb_i b < length (s_atoms (mol I))).
Proof.
  intros I c m W. split; [|split; [|split; [|split; [|split]]]].
  - exists (builtin_graph I), (builder_atoms I). split.
    + split; [apply builtin_no_crash, W | split; [apply builtin_graph_eq | apply builtin_atoms_eq]].
    + split; [apply builder_atoms_z | apply builtin_node_z].
  - intros A. exists (rdkit_graph I), (rdkit_atoms I). split.
    + split; [apply rdkit_no_crash; assumption | split; [apply rdkit_graph_eq | apply rdkit_atoms_eq]].
    + split; [rewrite rdkit_atoms_z; apply (ra_atoms _ _ A) | apply rdkit_node_z, A].
  - apply z_spec_length.
  - apply h_bonds_j.
  - intros k. unfold h_bonds. rewrite h_bonds_i_count. cbn [Nat.leb]. now rewrite Nat.sub_0_r.
  - intros b Hb. apply h_bonds_shape in Hb as (H1 & _ & H3 & _). split; [exact H1 | lia].
Qed.

(* Charge and multiplicity, built-in path: the sum of the atomic charges; the lowest multiplicity
   compatible with the electron count unless the caller fixed another one. *)
Theorem charge_and_multiplicity_builtin :
  forall I c m,
  m_charge (run_builtin I (init_state c m)) = charge_spec (mol I) /\
  m_mult (run_builtin I (init_state c m)) = (if m =? 1 then mult_spec (mol I) else m).
Proof. intros I c m. split; [apply builtin_charge_eq | apply builtin_mult_eq]. Qed.

(* RDKit path: the same, provided RDKit's radical-electron count has the parity of the electron count (ra_rad).
   Partial in that sense only: the parity fact itself is an oracle property, checked per molecule by the harness. *)
Theorem charge_and_multiplicity_rdkit_partial :
  forall I c m, rdk_agrees (mol I) (rd I) ->
  m_charge (run_rdkit I (init_state c m)) = charge_spec (mol I) /\
  m_mult (run_rdkit I (init_state c m)) = (if m =? 1 then mult_spec (mol I) else m).
Proof.
  intros I c m A. split; [rewrite rdkit_charge_eq; apply (ra_charge _ _ A)|].
  rewrite rdkit_mult_eq. destruct (m =? 1) eqn:E.
  - apply Nat.eqb_eq in E. subst m. apply rdkit_mult_spec, A.
  - apply Nat.eqb_neq in E. apply calc_mult_gen_keeps, E.
Qed.

(* The translated calc_multiplicity turns a default multiplicity into a doublet exactly for an odd number of radical
   electrons (any number: C[C] with 3 gives 2).  Breaks if the defect repaired by ae1a4b7 (only ONE radical electron
   gave a doublet) is re-introduced. *)
Theorem calc_multiplicity_parity :
  forall n, calc_mult_gen 1 n = if Nat.odd n then 2 else 1.
Proof. exact calc_mult_gen_parity. Qed.

(* What the RDKit path does WITHOUT assuming the oracle is right (only that its indices are in range): no statement
   raises and the store is a copy of the oracle - atoms, bonds, pi = RDKit's non-single bonds, stereo = RDKit's chiral
   centres and stereo-bond ends, charge - plus the SMILES classes zipped onto the first atoms.  The RDKit halves of the
   theorems above are this statement composed with rdk_agrees ("the oracle equals the specification"). *)
Theorem rdkit_path_copies_oracle :
  forall I c m, s_atoms (mol I) <> [] -> rdk_wf (rd I) ->
  exists g a, delivers (run_rdkit I (init_state c m)) g a /\
    map ma_z a = r_atoms (rd I) /\
    (forall i j, has_edge g i j = existsb (fun b => same_pair (rb_i b) (rb_j b) i j) (r_bonds (rd I))) /\
    (forall i j, edge_pi g i j = existsb (fun b => rb_nonsingle b && same_pair (rb_i b) (rb_j b) i j) (r_bonds (rd I))) /\
    (forall k, node_stereo g k = existsb (Nat.eqb k) (rdk_marks (rd I)) && (k <? length (r_atoms (rd I)))) /\
    m_charge (run_rdkit I (init_state c m)) = r_charge (rd I) /\
    m_mult (run_rdkit I (init_state c m)) = calc_mult_gen m (r_nrad (rd I)).
Proof.
  intros I c m N W. exists (rdkit_graph I), (rdkit_atoms I).
  split; [split; [apply rdkit_no_crash_wf; assumption | split; [apply rdkit_graph_eq | apply rdkit_atoms_eq]]|].
  split; [apply rdkit_atoms_z|].
  split; [intros i j; apply rdkit_has_edge_oracle|].
  split; [intros i j; apply rdkit_edge_pi_oracle|].
  split; [intros k; apply rdkit_node_stereo_oracle|].
  split; [apply rdkit_charge_eq | apply rdkit_mult_eq].
Qed.

(* Path selection (decision table): metal in a bracket -> init_smiles; otherwise init_organic_smiles, which
   hands over to init_smiles exactly when max ring >= 8, or a single atom, or RDKit returns None - and then
   the result is that of init_smiles on the untouched molecule; otherwise the RDKit path runs. *)
Theorem path_selection_table :
  forall I metal,
  trace I metal = (if metal then [PBuiltin]
                   else if (8 <=? bo_max_ring (bo I)) || (length (explicit_atoms (mol I)) =? 1) || r_none (rd I)
                        then [POrganic; PBuiltin] else [POrganic]) /\
  (forall c m, wf_mol (mol I) = true ->
     (8 <=? bo_max_ring (bo I)) || (length (explicit_atoms (mol I)) =? 1) || r_none (rd I) = true ->
     run_organic I (init_state c m) = run_builtin I (init_state c m)) /\
  (forall st, (8 <=? bo_max_ring (bo I)) || (length (explicit_atoms (mol I)) =? 1) || r_none (rd I) = false ->
     run_organic I st = run_rdkit I st).
Proof.
  intros I metal. split; [|split].
  - rewrite trace_table, guards_table. reflexivity.
  - intros c m W G. apply fallback_is_builtin; [exact W | now rewrite guards_table].
  - intros st G. apply no_fallback_is_rdkit. now rewrite guards_table.
Qed.

(* The constructor composes with the graph theorems: a molecule delivered by Molecule._init_smiles (no explicit
   charge) IS the final store of init_smiles or of the RDKit path, as the decision table says. *)
Theorem constructor_result_is_a_path_result :
  forall I metal um st, wf_mol (mol I) = true -> init_top I metal None um = Built st ->
  let st0 := init_state 0%Z (match um with Some m => m | None => 1 end) in
  (metal = true -> st = run_builtin I st0) /\
  (metal = false ->
     if (8 <=? bo_max_ring (bo I)) || (length (explicit_atoms (mol I)) =? 1) || r_none (rd I)
     then st = run_builtin I st0 else st = run_rdkit I st0).
Proof.
  intros I metal um st W H st0. split; intros M; subst metal.
  - rewrite init_top_metal in H. cbv zeta in H. fold st0 in H.
    destruct (m_crash (run_builtin I st0)); [discriminate | now injection H as <-].
  - rewrite init_top_organic in H. cbv zeta in H. fold st0 in H.
    destruct (m_crash (run_organic I st0)); [discriminate|]. injection H as <-.
    rewrite <- guards_table. destruct (existsb (guard_holds I) organic_guards) eqn:G.
    + apply fallback_is_builtin; assumption.
    + apply no_fallback_is_rdkit, G.
Qed.

(* An explicit charge must equal the SMILES charge (else ValueError, no molecule); an explicit
   multiplicity other than 1 is kept on both paths. *)
Theorem explicit_charge_and_mult_respected :
  forall I metal c um,
  (forall st, init_top I metal (Some c) um = Built st -> m_charge st = c) /\
  (forall k c0, k <> 1 -> m_mult (run_builtin I (init_state c0 k)) = k /\
                          m_mult (run_rdkit I (init_state c0 k)) = k).
Proof.
  intros I metal c um. split.
  - intros st. apply init_top_charge.
  - intros k c0 Hk. split.
    + rewrite builtin_mult_eq. apply Nat.eqb_neq in Hk. now rewrite Hk.
    + rewrite rdkit_mult_eq. apply calc_mult_gen_keeps, Hk.
Qed.

(* A make_graph(bond_list=...) AFTER the marks forgets them: the defect repaired by 7a3bed2 cannot be
   re-introduced without the theorems above failing. *)
Theorem rebuild_forgets_marks :
  forall I st s l, m_atoms st = Some l ->
  exists g, m_graph (step I (RebuildGraph s) st) = Some g /\
            (forall i j, edge_pi g i j = false) /\ (forall k, node_stereo g k = false).
Proof.
  intros I st s l H. cbn [step]. rewrite H. eexists. split; [reflexivity|]. split.
  - intros i j. apply edge_pi_rebuild.
  - intros k. apply node_stereo_rebuild.
Qed.

(* The make_graph the model writes by hand is the one in the repository: nodes are created with
   stereo=False and the atom's class, edges with pi=False (constants read from mol_graphs.py); and the
   translated calc_multiplicity never overrides a multiplicity other than 1. *)
Theorem translated_helpers_match_model :
  (forall k n, k <> 1 -> calc_mult_gen k n = k) /\
  mg_node_stereo_default = false /\ mg_edge_pi_default = false /\ mg_copies_atom_class = true.
Proof. split; [intros k n H; apply calc_mult_gen_keeps, H | apply make_graph_defaults_ok]. Qed.

(* Non-vacuity: the hypotheses are satisfiable - formaldehyde with an atom class, and F/C=C/F with two
   double-bond stereo marks; on the latter both paths mark exactly atoms 1 and 2 and bond (1,2). *)
Example hypotheses_satisfiable :
  (wf_mol (mol w_formaldehyde) = true /\ rdk_agrees (mol w_formaldehyde) (rd w_formaldehyde) /\
   arom_consistent (mol w_formaldehyde) /\ class_spec (mol w_formaldehyde) 0 = Some 7) /\
  (wf_mol (mol w_difluoroethene) = true /\ rdk_agrees (mol w_difluoroethene) (rd w_difluoroethene) /\
   arom_consistent (mol w_difluoroethene) /\
   map (node_stereo (rdkit_graph w_difluoroethene)) (seq 0 6) = [false; true; true; false; false; false] /\
   map (node_stereo (builtin_graph w_difluoroethene)) (seq 0 6) = [false; true; true; false; false; false] /\
   edge_pi (rdkit_graph w_difluoroethene) 2 1 = true /\ edge_pi (builtin_graph w_difluoroethene) 0 1 = false).
Proof.
  split.
  - split; [reflexivity|]. split; [apply w_formaldehyde_agrees|]. split; [apply w_formaldehyde_arom | reflexivity].
  - split; [reflexivity|]. split; [apply w_difluoroethene_agrees|]. split; [apply w_difluoroethene_arom|].
    repeat split; reflexivity.
Qed.
