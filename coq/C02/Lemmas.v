(* C02/Lemmas.v — lemmas about the graph attribute store and about the GENERATED operation lists
   (coq/gen/C02_Gen.v, regenerated from /repo on every run). *)
From Coq Require Import ZArith List Bool Arith Lia.
From AV.C02 Require Import Model.
From AV.gen Require Import C02_Gen.
Import ListNotations.

(* ========================================================================================== *)
(* 1. unordered pairs *)
Lemma same_pair_spec a b i j :
  same_pair a b i j = true <-> (a = i /\ b = j) \/ (a = j /\ b = i).
Proof.
  unfold same_pair. rewrite orb_true_iff, !andb_true_iff, !Nat.eqb_eq. tauto.
Qed.

Lemma same_pair_false a b i j :
  same_pair a b i j = false <-> ~ ((a = i /\ b = j) \/ (a = j /\ b = i)).
Proof.
  rewrite <- same_pair_spec. split; intro H.
  - rewrite H. discriminate.
  - destruct (same_pair a b i j); [exfalso; apply H; reflexivity | reflexivity].
Qed.

Ltac sp_prop :=
  repeat match goal with
  | H : same_pair _ _ _ _ = true |- _ => apply same_pair_spec in H
  | H : same_pair _ _ _ _ = false |- _ => apply same_pair_false in H
  end.

(* decide a boolean identity between same_pair atoms by case analysis *)
Ltac sp_cases :=
  repeat match goal with
  | |- context [same_pair ?a ?b ?i ?j] =>
      let E := fresh "E" in destruct (same_pair a b i j) eqn:E
  end;
  sp_prop; cbn [andb orb negb]; try reflexivity; exfalso; lia.

Lemma same_pair_of_eq x y a b i j :
  same_pair x y a b = true -> same_pair a b i j = same_pair x y i j.
Proof. intros H. sp_cases. Qed.

Lemma same_pair_sym x y a b : same_pair x y a b = same_pair a b x y.
Proof. sp_cases. Qed.

(* ========================================================================================== *)
(* 2. edges: add_edge / fresh_edges / set_pi *)
Lemma has_edge_add_edge es a b i j :
  has_edge_l (add_edge es a b) i j = has_edge_l es i j || same_pair a b i j.
Proof.
  induction es as [|e r IH]; cbn [add_edge has_edge_l existsb].
  - unfold e_is; cbn [ed_i ed_j]. now rewrite orb_false_r.
  - destruct (e_is e a b) eqn:E; cbn [has_edge_l existsb].
    + unfold e_is in *; cbn [ed_i ed_j].
      rewrite (same_pair_of_eq _ _ _ _ i j E).
      destruct (same_pair (ed_i e) (ed_j e) i j); cbn [orb]; [reflexivity | now rewrite orb_false_r].
    + fold (has_edge_l (add_edge r a b) i j). rewrite IH. fold (has_edge_l r i j).
      now rewrite orb_assoc.
Qed.

Definition pair_is (i j : nat) (p : nat * nat) : bool := same_pair (fst p) (snd p) i j.

Lemma has_edge_fold_add bs : forall acc i j,
  has_edge_l (fold_left (fun es b => add_edge es (fst b) (snd b)) bs acc) i j
  = has_edge_l acc i j || existsb (pair_is i j) bs.
Proof.
  induction bs as [|b r IH]; intros acc i j; cbn [fold_left existsb].
  - now rewrite orb_false_r.
  - rewrite IH, has_edge_add_edge. unfold pair_is at 2. now rewrite orb_assoc.
Qed.

Lemma has_edge_fresh bs i j : has_edge_l (fresh_edges bs) i j = existsb (pair_is i j) bs.
Proof. unfold fresh_edges. rewrite has_edge_fold_add. reflexivity. Qed.

Definition all_unpi (es : list edge) : bool := forallb (fun e => negb (ed_pi e)) es.

Lemma all_unpi_add_edge es a b : all_unpi es = true -> all_unpi (add_edge es a b) = true.
Proof.
  induction es as [|e r IH]; cbn [add_edge all_unpi forallb]; intros H.
  - reflexivity.
  - apply andb_true_iff in H as [H1 H2]. destruct (e_is e a b); cbn [all_unpi forallb ed_pi negb].
    + exact H2.
    + rewrite H1. cbn [andb]. apply IH, H2.
Qed.

Lemma all_unpi_fresh bs : all_unpi (fresh_edges bs) = true.
Proof.
  unfold fresh_edges.
  assert (G : forall acc, all_unpi acc = true ->
            all_unpi (fold_left (fun es b => add_edge es (fst b) (snd b)) bs acc) = true).
  { induction bs as [|b r IH]; intros acc Ha; cbn [fold_left]; [exact Ha|].
    apply IH, all_unpi_add_edge, Ha. }
  apply G. reflexivity.
Qed.

Lemma edge_pi_unpi es i j : all_unpi es = true -> edge_pi_l es i j = false.
Proof.
  induction es as [|e r IH]; cbn [all_unpi forallb edge_pi_l existsb]; intros H; [reflexivity|].
  apply andb_true_iff in H as [H1 H2]. apply negb_true_iff in H1. rewrite H1, andb_false_r.
  cbn [orb]. apply IH, H2.
Qed.

Lemma has_edge_set_pi es p i j : has_edge_l (set_pi es p) i j = has_edge_l es i j.
Proof.
  induction es as [|e r IH]; cbn [set_pi map has_edge_l existsb]; [reflexivity|].
  fold (set_pi r p). fold (has_edge_l (set_pi r p) i j). rewrite IH. fold (has_edge_l r i j).
  f_equal. destruct (e_is e (fst p) (snd p)); reflexivity.
Qed.

Lemma edge_pi_set_pi es p i j :
  edge_pi_l (set_pi es p) i j = edge_pi_l es i j || (pair_is i j p && has_edge_l es i j).
Proof.
  induction es as [|e r IH]; cbn [set_pi map edge_pi_l has_edge_l existsb].
  - now rewrite andb_false_r.
  - fold (set_pi r p). fold (edge_pi_l (set_pi r p) i j). rewrite IH.
    fold (edge_pi_l r i j). fold (has_edge_l r i j).
    unfold pair_is, e_is. destruct p as [a b]; cbn [fst snd].
    destruct (same_pair (ed_i e) (ed_j e) a b) eqn:E; cbn [ed_i ed_j ed_pi].
    + rewrite (same_pair_of_eq _ _ _ _ i j E).
      destruct (same_pair (ed_i e) (ed_j e) i j), (ed_pi e), (edge_pi_l r i j), (has_edge_l r i j); reflexivity.
    + destruct (same_pair (ed_i e) (ed_j e) i j) eqn:E2; cbn [andb orb].
      * assert (F : same_pair a b i j = false).
        { destruct (same_pair a b i j) eqn:E3; [|reflexivity]. sp_prop. exfalso. lia. }
        rewrite F. cbn [andb]. now rewrite !orb_false_r.
      * reflexivity.
Qed.

Lemma has_edge_fold_set_pi ps : forall es i j,
  has_edge_l (fold_left set_pi ps es) i j = has_edge_l es i j.
Proof.
  induction ps as [|p r IH]; intros es i j; cbn [fold_left]; [reflexivity|].
  now rewrite IH, has_edge_set_pi.
Qed.

Lemma edge_pi_fold_set_pi ps : forall es i j,
  edge_pi_l (fold_left set_pi ps es) i j
  = edge_pi_l es i j || (existsb (pair_is i j) ps && has_edge_l es i j).
Proof.
  induction ps as [|p r IH]; intros es i j; cbn [fold_left existsb].
  - now rewrite orb_false_r.
  - rewrite IH, edge_pi_set_pi, has_edge_set_pi.
    destruct (edge_pi_l es i j), (pair_is i j p), (has_edge_l es i j), (existsb (pair_is i j) r); reflexivity.
Qed.

(* marks put on a freshly rebuilt graph: the final pi set is exactly the marked pairs that are edges *)
Lemma edge_pi_mark_fresh atoms bs ps i j :
  edge_pi (mark_pi (rebuild atoms bs) ps) i j
  = existsb (pair_is i j) ps && existsb (pair_is i j) bs.
Proof.
  unfold edge_pi, mark_pi, rebuild; cbn [g_edges].
  rewrite edge_pi_fold_set_pi, has_edge_fresh, (edge_pi_unpi _ _ _ (all_unpi_fresh bs)). reflexivity.
Qed.

Lemma has_edge_mark_fresh atoms bs ps i j :
  has_edge (mark_pi (rebuild atoms bs) ps) i j = existsb (pair_is i j) bs.
Proof.
  unfold has_edge, mark_pi, rebuild; cbn [g_edges]. now rewrite has_edge_fold_set_pi, has_edge_fresh.
Qed.

(* a rebuild AFTER the marks forgets them (the defect repaired by 7a3bed2) *)
Lemma edge_pi_rebuild atoms bs i j : edge_pi (rebuild atoms bs) i j = false.
Proof. unfold edge_pi, rebuild; cbn [g_edges]. apply edge_pi_unpi, all_unpi_fresh. Qed.

Lemma edges_present_sub (g : graph) ps :
  (forall p, In p ps -> has_edge g (fst p) (snd p) = true) -> edges_present g ps = true.
Proof. intros H. unfold edges_present. apply forallb_forall. exact H. Qed.

Lemma pair_is_self p : pair_is (fst p) (snd p) p = true.
Proof. unfold pair_is. apply same_pair_spec. left. split; reflexivity. Qed.

Lemma existsb_pair_is_in i j (l : list (nat * nat)) p :
  In p l -> pair_is i j p = true -> existsb (pair_is i j) l = true.
Proof. intros Hin Hp. apply existsb_exists. exists p. split; assumption. Qed.

(* ========================================================================================== *)
(* 3. nodes: set_stereo *)
Definition stereo_l (ns : list node) (k : nat) : bool :=
  match nth_error ns k with Some n => nd_stereo n | None => false end.
Definition class_l (ns : list node) (k : nat) : option nat :=
  match nth_error ns k with Some n => nd_class n | None => None end.
Definition z_l (ns : list node) : list nat := map nd_z ns.

Lemma set_stereo_length ns : forall k, length (set_stereo ns k) = length ns.
Proof.
  induction ns as [|n r IH]; intros [|k]; cbn [set_stereo length]; try reflexivity. now rewrite IH.
Qed.

Lemma stereo_set_stereo ns : forall k q,
  stereo_l (set_stereo ns k) q = stereo_l ns q || ((q =? k) && (q <? length ns)).
Proof.
  induction ns as [|n r IH]; intros k q.
  - destruct k; cbn [set_stereo]; unfold stereo_l; destruct q; cbn; now rewrite ?andb_false_r.
  - destruct k as [|k]; cbn [set_stereo].
    + destruct q as [|q]; unfold stereo_l; cbn [nth_error nd_stereo length].
      * now rewrite orb_true_r.
      * cbn [Nat.eqb andb]. now rewrite orb_false_r.
    + destruct q as [|q]; unfold stereo_l; cbn [nth_error length].
      * cbn [Nat.eqb andb]. now rewrite orb_false_r.
      * fold (stereo_l (set_stereo r k) q). fold (stereo_l r q). rewrite IH.
        cbn [Nat.eqb]. replace (S q <? S (length r)) with (q <? length r) by reflexivity. reflexivity.
Qed.

Lemma class_set_stereo ns : forall k q, class_l (set_stereo ns k) q = class_l ns q.
Proof.
  induction ns as [|n r IH]; intros [|k] [|q]; cbn [set_stereo]; unfold class_l; cbn [nth_error nd_class];
    try reflexivity.
  fold (class_l (set_stereo r k) q). fold (class_l r q). apply IH.
Qed.

Lemma z_set_stereo ns : forall k, z_l (set_stereo ns k) = z_l ns.
Proof.
  induction ns as [|n r IH]; intros [|k]; cbn [set_stereo z_l map nd_z]; try reflexivity.
  f_equal. apply IH.
Qed.

Lemma fold_set_stereo_length ks : forall ns, length (fold_left set_stereo ks ns) = length ns.
Proof. induction ks as [|k r IH]; intros ns; cbn [fold_left]; [reflexivity|]. now rewrite IH, set_stereo_length. Qed.

Lemma stereo_fold ks : forall ns q,
  stereo_l (fold_left set_stereo ks ns) q
  = stereo_l ns q || (existsb (Nat.eqb q) ks && (q <? length ns)).
Proof.
  induction ks as [|k r IH]; intros ns q; cbn [fold_left existsb].
  - now rewrite orb_false_r.
  - rewrite IH, stereo_set_stereo, set_stereo_length.
    destruct (stereo_l ns q), (q =? k), (q <? length ns), (existsb (Nat.eqb q) r); reflexivity.
Qed.

Lemma class_fold ks : forall ns q, class_l (fold_left set_stereo ks ns) q = class_l ns q.
Proof. induction ks as [|k r IH]; intros ns q; cbn [fold_left]; [reflexivity|]. now rewrite IH, class_set_stereo. Qed.

Lemma z_fold ks : forall ns, z_l (fold_left set_stereo ks ns) = z_l ns.
Proof. induction ks as [|k r IH]; intros ns; cbn [fold_left]; [reflexivity|]. now rewrite IH, z_set_stereo. Qed.

Lemma stereo_fresh atoms q : stereo_l (fresh_nodes atoms) q = false.
Proof.
  unfold stereo_l, fresh_nodes. rewrite nth_error_map. destruct (nth_error atoms q); reflexivity.
Qed.

Lemma class_fresh atoms q :
  class_l (fresh_nodes atoms) q = match nth_error atoms q with Some a => ma_class a | None => None end.
Proof.
  unfold class_l, fresh_nodes. rewrite nth_error_map. destruct (nth_error atoms q); reflexivity.
Qed.

Lemma z_fresh atoms : z_l (fresh_nodes atoms) = map ma_z atoms.
Proof. unfold z_l, fresh_nodes. rewrite map_map. reflexivity. Qed.

Lemma fresh_nodes_length atoms : length (fresh_nodes atoms) = length atoms.
Proof. unfold fresh_nodes. apply map_length. Qed.

(* node observations of  mark_pi (mark_stereo (rebuild ...) ks) ps *)
Lemma node_stereo_marked atoms bs ks ps q :
  node_stereo (mark_pi (mark_stereo (rebuild atoms bs) ks) ps) q
  = existsb (Nat.eqb q) ks && (q <? length atoms).
Proof.
  unfold node_stereo, mark_pi, mark_stereo, rebuild; cbn [g_nodes].
  change (stereo_l (fold_left set_stereo ks (fresh_nodes atoms)) q = existsb (Nat.eqb q) ks && (q <? length atoms)).
  now rewrite stereo_fold, stereo_fresh, fresh_nodes_length.
Qed.

Lemma node_class_marked atoms bs ks ps q :
  node_class (mark_pi (mark_stereo (rebuild atoms bs) ks) ps) q
  = match nth_error atoms q with Some a => ma_class a | None => None end.
Proof.
  unfold node_class, mark_pi, mark_stereo, rebuild; cbn [g_nodes].
  change (class_l (fold_left set_stereo ks (fresh_nodes atoms)) q = match nth_error atoms q with Some a => ma_class a | None => None end).
  now rewrite class_fold, class_fresh.
Qed.

Lemma node_stereo_rebuild atoms bs q : node_stereo (rebuild atoms bs) q = false.
Proof. unfold node_stereo, rebuild; cbn [g_nodes]. apply stereo_fresh. Qed.

Lemma nodes_present_lt (g : graph) ks :
  (forall k, In k ks -> k < length (g_nodes g)) -> nodes_present g ks = true.
Proof. intros H. unfold nodes_present. apply forallb_forall. intros k Hk. apply Nat.ltb_lt, H, Hk. Qed.

(* general observation lemmas for interleaved marks *)
Lemma edge_pi_mark_stereo g ks i j : edge_pi (mark_stereo g ks) i j = edge_pi g i j.
Proof. reflexivity. Qed.
Lemma has_edge_mark_stereo g ks i j : has_edge (mark_stereo g ks) i j = has_edge g i j.
Proof. reflexivity. Qed.
Lemma node_stereo_mark_pi g ps q : node_stereo (mark_pi g ps) q = node_stereo g q.
Proof. reflexivity. Qed.
Lemma node_class_mark_pi g ps q : node_class (mark_pi g ps) q = node_class g q.
Proof. reflexivity. Qed.
Lemma nodes_mark_pi g ps : g_nodes (mark_pi g ps) = g_nodes g.
Proof. reflexivity. Qed.
Lemma edges_mark_stereo g ks : g_edges (mark_stereo g ks) = g_edges g.
Proof. reflexivity. Qed.
Lemma nodes_len_mark_stereo g ks : length (g_nodes (mark_stereo g ks)) = length (g_nodes g).
Proof. unfold mark_stereo; cbn [g_nodes]. apply fold_set_stereo_length. Qed.

Lemma node_stereo_mark_stereo g ks q :
  node_stereo (mark_stereo g ks) q
  = node_stereo g q || (existsb (Nat.eqb q) ks && (q <? length (g_nodes g))).
Proof. unfold node_stereo, mark_stereo; cbn [g_nodes]. apply (stereo_fold ks (g_nodes g) q). Qed.

Lemma node_class_mark_stereo g ks q : node_class (mark_stereo g ks) q = node_class g q.
Proof. unfold node_class, mark_stereo; cbn [g_nodes]. apply (class_fold ks (g_nodes g) q). Qed.

Lemma node_z_list_mark_stereo g ks : z_l (g_nodes (mark_stereo g ks)) = z_l (g_nodes g).
Proof. unfold mark_stereo; cbn [g_nodes]. apply z_fold. Qed.

Lemma edge_pi_mark_pi g ps i j :
  edge_pi (mark_pi g ps) i j = edge_pi g i j || (existsb (pair_is i j) ps && has_edge g i j).
Proof. unfold edge_pi, has_edge, mark_pi; cbn [g_edges]. apply edge_pi_fold_set_pi. Qed.

Lemma has_edge_mark_pi g ps i j : has_edge (mark_pi g ps) i j = has_edge g i j.
Proof. unfold has_edge, mark_pi; cbn [g_edges]. apply has_edge_fold_set_pi. Qed.

Lemma has_edge_rebuild atoms bs i j : has_edge (rebuild atoms bs) i j = existsb (pair_is i j) bs.
Proof. unfold has_edge, rebuild; cbn [g_edges]. apply has_edge_fresh. Qed.

Lemma node_class_rebuild atoms bs q :
  node_class (rebuild atoms bs) q = match nth_error atoms q with Some a => ma_class a | None => None end.
Proof. unfold node_class, rebuild; cbn [g_nodes]. apply (class_fresh atoms q). Qed.

Lemma nodes_len_rebuild atoms bs : length (g_nodes (rebuild atoms bs)) = length atoms.
Proof. unfold rebuild; cbn [g_nodes]. apply fresh_nodes_length. Qed.

(* ========================================================================================== *)
(* 4. explicit hydrogens: arithmetic *)
Lemma explicit_atoms_length m :
  length (explicit_atoms m) = length (s_atoms m) + total_h (s_atoms m).
Proof. unfold explicit_atoms. now rewrite app_length, map_length, repeat_length. Qed.

Lemma map_repeat {A B} (f : A -> B) x n : map f (repeat x n) = repeat (f x) n.
Proof. induction n; cbn; [reflexivity | now rewrite IHn]. Qed.

Lemma explicit_atoms_z m : map sa_z (explicit_atoms m) = z_spec m.
Proof.
  unfold explicit_atoms, z_spec. rewrite map_app, map_map, map_repeat. reflexivity.
Qed.

Lemma h_bonds_j idx next l : map sb_j (h_bonds_from idx next l) = seq next (total_h l).
Proof.
  revert idx next. induction l as [|a r IH]; intros idx next; cbn [h_bonds_from total_h map]; [reflexivity|].
  rewrite map_app, map_map, IH. cbn [sb_j]. rewrite map_id. now rewrite seq_app.
Qed.

Lemma h_bonds_i_count l : forall idx next k,
  count_occ Nat.eq_dec (map sb_i (h_bonds_from idx next l)) k
  = if idx <=? k then nth (k - idx) (map sa_nh l) 0 else 0.
Proof.
  induction l as [|a r IH]; intros idx next k; cbn [h_bonds_from map].
  - destruct (idx <=? k); [destruct (k - idx)|]; reflexivity.
  - rewrite map_app, count_occ_app, map_map, IH. cbn [sb_i].
    assert (C : forall n s, count_occ Nat.eq_dec (map (fun _ : nat => idx) (seq s n)) k = if idx =? k then n else 0).
    { induction n as [|n IHn]; intros s; cbn [seq map count_occ].
      - now destruct (idx =? k).
      - rewrite IHn. destruct (Nat.eq_dec idx k) as [e|ne].
        + subst. now rewrite Nat.eqb_refl.
        + apply Nat.eqb_neq in ne. now rewrite ne. }
    rewrite C. destruct (idx =? k) eqn:E1.
    + apply Nat.eqb_eq in E1. subst k.
      replace (S idx <=? idx) with false by (symmetry; apply Nat.leb_gt; lia).
      rewrite Nat.leb_refl, Nat.sub_diag. cbn [nth]. lia.
    + apply Nat.eqb_neq in E1. destruct (idx <=? k) eqn:E2.
      * apply Nat.leb_le in E2. replace (S idx <=? k) with true by (symmetry; apply Nat.leb_le; lia).
        replace (k - idx) with (S (k - S idx)) by lia. reflexivity.
      * apply Nat.leb_gt in E2. replace (S idx <=? k) with false by (symmetry; apply Nat.leb_gt; lia).
        reflexivity.
Qed.

Lemma h_bonds_shape l : forall idx next b, In b (h_bonds_from idx next l) ->
  sb_order b = 1 /\ sb_arom b = false /\ idx <= sb_i b < idx + length l /\ next <= sb_j b < next + total_h l.
Proof.
  induction l as [|a r IH]; intros idx next b Hin; cbn [h_bonds_from] in Hin; [contradiction|].
  apply in_app_or in Hin as [Hin|Hin].
  - apply in_map_iff in Hin as [h [Hb Hh]]. apply in_seq in Hh. subst b. cbn [sb_order sb_arom sb_i sb_j length total_h].
    repeat split; lia.
  - apply IH in Hin as (H1 & H2 & H3 & H4). cbn [length total_h]. repeat split; try assumption; lia.
Qed.

(* ========================================================================================== *)
(* 5. the parser's stereo marks as a node list *)
Lemma marked_from_spec l : forall k q,
  existsb (Nat.eqb q) (marked_from k l)
  = if q <? k then false else match nth_error l (q - k) with Some a => sa_mark a | None => false end.
Proof.
  induction l as [|a r IH]; intros k q; cbn [marked_from].
  - cbn [existsb]. destruct (q <? k); [reflexivity|]. now destruct (q - k).
  - assert (T : existsb (Nat.eqb q) (marked_from (S k) r)
               = if q <? S k then false else match nth_error r (q - S k) with Some a => sa_mark a | None => false end)
      by apply IH.
    destruct (q <? k) eqn:E1.
    + apply Nat.ltb_lt in E1.
      assert (F1 : (q <? S k) = true) by (apply Nat.ltb_lt; lia). rewrite F1 in T.
      destruct (sa_mark a); cbn [existsb]; rewrite ?T; [|reflexivity].
      replace (q =? k) with false by (symmetry; apply Nat.eqb_neq; lia). reflexivity.
    + apply Nat.ltb_ge in E1. destruct (Nat.eq_dec q k) as [e|ne].
      * subst q. rewrite Nat.sub_diag. cbn [nth_error].
        assert (F1 : (k <? S k) = true) by (apply Nat.ltb_lt; lia). rewrite F1 in T.
        destruct (sa_mark a); cbn [existsb]; rewrite ?T, ?Nat.eqb_refl; reflexivity.
      * assert (F1 : (q <? S k) = false) by (apply Nat.ltb_ge; lia). rewrite F1 in T.
        replace (q - k) with (S (q - S k)) by lia. cbn [nth_error].
        destruct (sa_mark a); cbn [existsb]; rewrite T; [|reflexivity].
        replace (q =? k) with false by (symmetry; apply Nat.eqb_neq; lia). reflexivity.
Qed.

Lemma marked_from_lt l : forall k q, In q (marked_from k l) -> q < k + length l.
Proof.
  induction l as [|a r IH]; intros k q Hin; cbn [marked_from] in Hin; [contradiction|].
  cbn [length]. destruct (sa_mark a).
  - destruct Hin as [e|Hin]; [lia|]. apply IH in Hin. lia.
  - apply IH in Hin. lia.
Qed.

Lemma nth_error_explicit_mark m q :
  match nth_error (explicit_atoms m) q with Some a => sa_mark a | None => false end = stereo_spec m q.
Proof.
  unfold explicit_atoms, stereo_spec.
  destruct (Nat.lt_ge_cases q (length (s_atoms m))) as [Hlt|Hge].
  - rewrite nth_error_app1 by (rewrite map_length; exact Hlt). rewrite nth_error_map.
    destruct (nth_error (s_atoms m) q); reflexivity.
  - rewrite nth_error_app2 by (rewrite map_length; exact Hge).
    assert (N : nth_error (s_atoms m) q = None) by (apply nth_error_None; exact Hge). rewrite N.
    destruct (nth_error (repeat h_atom (total_h (s_atoms m))) (q - length (map zero_h (s_atoms m)))) eqn:E; [|reflexivity].
    apply nth_error_In, repeat_spec in E. subst. reflexivity.
Qed.

Lemma marks_exact m q :
  existsb (Nat.eqb q) (marked_from 0 (explicit_atoms m)) = stereo_spec m q.
Proof.
  rewrite marked_from_spec. replace (q <? 0) with false by (symmetry; apply Nat.ltb_ge; lia).
  rewrite Nat.sub_0_r. apply nth_error_explicit_mark.
Qed.

Lemma stereo_spec_lt m q : stereo_spec m q = true -> q < length (s_atoms m).
Proof.
  unfold stereo_spec. destruct (nth_error (s_atoms m) q) eqn:E; [|discriminate]. intros _.
  apply nth_error_Some. congruence.
Qed.

Lemma nth_error_explicit_class m q :
  match nth_error (explicit_atoms m) q with Some a => sa_class a | None => None end = class_spec m q.
Proof.
  unfold explicit_atoms, class_spec.
  destruct (Nat.lt_ge_cases q (length (s_atoms m))) as [Hlt|Hge].
  - rewrite nth_error_app1 by (rewrite map_length; exact Hlt). rewrite nth_error_map.
    destruct (nth_error (s_atoms m) q); reflexivity.
  - rewrite nth_error_app2 by (rewrite map_length; exact Hge).
    assert (N : nth_error (s_atoms m) q = None) by (apply nth_error_None; exact Hge). rewrite N.
    destruct (nth_error (repeat h_atom (total_h (s_atoms m))) (q - length (map zero_h (s_atoms m)))) eqn:E; [|reflexivity].
    apply nth_error_In, repeat_spec in E. subst. reflexivity.
Qed.

(* aromatic flag of an explicit atom = that of the SMILES atom (hydrogens are not aromatic) *)
Lemma arom_at_explicit m k : arom_at (explicit_atoms m) k = arom_at (s_atoms m) k.
Proof.
  unfold arom_at, explicit_atoms.
  destruct (Nat.lt_ge_cases k (length (s_atoms m))) as [Hlt|Hge].
  - rewrite nth_error_app1 by (rewrite map_length; exact Hlt). rewrite nth_error_map.
    destruct (nth_error (s_atoms m) k); reflexivity.
  - rewrite nth_error_app2 by (rewrite map_length; exact Hge).
    assert (N : nth_error (s_atoms m) k = None) by (apply nth_error_None; exact Hge). rewrite N.
    destruct (nth_error (repeat h_atom (total_h (s_atoms m))) (k - length (map zero_h (s_atoms m)))) eqn:E; [|reflexivity].
    apply nth_error_In, repeat_spec in E. subst. reflexivity.
Qed.

(* ========================================================================================== *)
(* 6. list helpers *)
Lemma existsb_map {A B} (f : B -> bool) (g : A -> B) l : existsb f (map g l) = existsb (fun x => f (g x)) l.
Proof. induction l as [|x r IH]; cbn [map existsb]; [reflexivity | now rewrite IH]. Qed.

Lemma existsb_filter {A} (f g : A -> bool) l : existsb f (filter g l) = existsb (fun x => g x && f x) l.
Proof.
  induction l as [|x r IH]; cbn [filter existsb]; [reflexivity|].
  destruct (g x); cbn [existsb andb orb]; now rewrite IH.
Qed.

Lemma existsb_ext_in {A} (f g : A -> bool) l : (forall x, In x l -> f x = g x) -> existsb f l = existsb g l.
Proof.
  induction l as [|x r IH]; intros H; cbn [existsb]; [reflexivity|].
  rewrite (H x (or_introl eq_refl)), IH; [reflexivity|]. intros y Hy. apply H. right. exact Hy.
Qed.

Lemma existsb_and_const {A} (c : bool) (f : A -> bool) l : existsb (fun x => c && f x) l = c && existsb f l.
Proof. induction l as [|x r IH]; cbn [existsb]; [now rewrite andb_false_r|]. rewrite IH. now destruct c. Qed.

Lemma existsb_weaken {A} (f g : A -> bool) l :
  (forall x, f x = true -> g x = true) -> existsb f l = true -> existsb g l = true.
Proof.
  intros H E. apply existsb_exists in E as [x [Hin Hx]]. apply existsb_exists. exists x. split; [exact Hin | apply H, Hx].
Qed.

Lemma andb_absorb (a b : bool) : (a = true -> b = true) -> a && b = a.
Proof. destruct a, b; intros H; try reflexivity. discriminate (H eq_refl). Qed.

Lemma is_nil_false_length {A} (l : list A) : 0 < length l -> is_nil l = false.
Proof. destruct l; cbn; [lia | reflexivity]. Qed.

Lemma wf_mol_nonempty m : wf_mol m = true -> 0 < length (s_atoms m).
Proof.
  unfold wf_mol. intros H. apply andb_true_iff in H as [H _]. destruct (s_atoms m); [discriminate | cbn; lia].
Qed.

(* ========================================================================================== *)
(* 7. the generated programs *)
Definition run_builtin (I : inputs) (st : mstate) : mstate := run_ops I builtin_ops st.
(* the RDKit path proper: no fallback condition fired *)
Definition run_rdkit (I : inputs) (st : mstate) : mstate := run_ops I organic_body (run_ops I organic_pre st).
Definition run_organic : inputs -> mstate -> mstate :=
  run_organic_with organic_pre organic_guards organic_body builtin_ops.
Definition init_top : inputs -> bool -> option Z -> option nat -> outcome :=
  init_top_with top_if_metal top_otherwise top_charge_check run_builtin run_organic.
Definition trace : inputs -> bool -> list pathname := trace_with top_if_metal top_otherwise organic_guards.

Ltac run_cbn :=
  unfold run_builtin, run_rdkit, builtin_ops, organic_body, organic_pre, run_ops, init_state;
  cbn [fold_left step upd_hs upd_fine upd_charge upd_mult upd_atoms upd_graph upd_rdobj
       m_charge m_mult m_atoms m_graph m_fine m_rdobj m_hs m_crash cur_graph assign_atoms new_atoms
       is_none negb orb andb].

(* tie of the hand-written parts of Model.v to the generated constants *)
Lemma make_graph_defaults_ok :
  mg_node_stereo_default = false /\ mg_edge_pi_default = false /\ mg_copies_atom_class = true.
Proof. repeat split; reflexivity. Qed.

(* ---------------------------------------------- built-in path --------------------------- *)
Definition builder_atoms (I : inputs) : list matom :=
  if bo_build_ok (bo I) then canonical I else at_origin I origin_keeps_class.
Definition builtin_rule : pirule := ROr (ROrderGt 1) RBothArom.
Definition builtin_graph (I : inputs) : graph :=
  mark_pi (mark_stereo (rebuild (builder_atoms I) (bond_pairs I true BoParser))
                       (stereo_idxs I StParserMarks))
          (pi_pairs I true (PiParser builtin_rule)).

Lemma builtin_graph_eq I c m : m_graph (run_builtin I (init_state c m)) = Some (builtin_graph I).
Proof. reflexivity. Qed.
Lemma builtin_atoms_eq I c m : m_atoms (run_builtin I (init_state c m)) = Some (builder_atoms I).
Proof. reflexivity. Qed.
Lemma builtin_charge_eq I c m : m_charge (run_builtin I (init_state c m)) = p_charge (s_atoms (mol I)).
Proof. reflexivity. Qed.
Lemma builtin_mult_eq I c m :
  m_mult (run_builtin I (init_state c m)) = if m =? 1 then p_mult false (s_atoms (mol I)) else m.
Proof. reflexivity. Qed.
Lemma builtin_fine_eq I c m : m_fine (run_builtin I (init_state c m)) = false.
Proof. reflexivity. Qed.
Lemma builtin_rdobj_eq I c m : m_rdobj (run_builtin I (init_state c m)) = false.
Proof. reflexivity. Qed.

Lemma builder_atoms_length I : length (builder_atoms I) = length (explicit_atoms (mol I)).
Proof. unfold builder_atoms, canonical, at_origin. destruct (bo_build_ok (bo I)); apply map_length. Qed.

Lemma pair_is_pair_of i j b : pair_is i j (pair_of b) = b_is b i j.
Proof. reflexivity. Qed.

Lemma builtin_no_crash I c m : wf_mol (mol I) = true -> m_crash (run_builtin I (init_state c m)) = false.
Proof.
  intros W. pose proof (wf_mol_nonempty _ W) as N. run_cbn.
  rewrite (is_nil_false_length (s_atoms (mol I)) N).
  fold (builder_atoms I).
  rewrite (is_nil_false_length (builder_atoms I))
    by (rewrite builder_atoms_length, explicit_atoms_length; lia).
  rewrite nodes_present_lt.
  2:{ intros k Hk. rewrite nodes_len_rebuild, builder_atoms_length.
      cbn [stereo_idxs] in Hk. apply marked_from_lt in Hk. lia. }
  rewrite edges_present_sub.
  2:{ intros p Hp. rewrite has_edge_mark_stereo, has_edge_rebuild.
      cbn [pi_pairs bond_pairs parser_bonds] in *.
      apply in_map_iff in Hp as [b [Hb Hin]]. apply filter_In in Hin as [Hin _].
      apply (existsb_pair_is_in _ _ _ p); [|apply pair_is_self].
      subst p. apply in_map. exact Hin. }
  reflexivity.
Qed.

Lemma builtin_has_edge I i j : has_edge (builtin_graph I) i j = bond_spec (mol I) i j.
Proof.
  unfold builtin_graph. rewrite has_edge_mark_pi, has_edge_mark_stereo, has_edge_rebuild.
  cbn [bond_pairs parser_bonds]. rewrite existsb_map. reflexivity.
Qed.

(* the pi set the translated rule produces, for ANY rule: exactly the bonds satisfying it *)
Lemma builtin_edge_pi_rule I r i j :
  edge_pi (mark_pi (mark_stereo (rebuild (builder_atoms I) (bond_pairs I true BoParser))
                                (stereo_idxs I StParserMarks)) (pi_pairs I true (PiParser r))) i j
  = existsb (fun b => b_is b i j && rule_holds (explicit_atoms (mol I)) r b) (explicit_bonds (mol I)).
Proof.
  rewrite edge_pi_mark_pi, edge_pi_mark_stereo, edge_pi_rebuild, has_edge_mark_stereo, has_edge_rebuild.
  cbn [orb pi_pairs bond_pairs parser_bonds]. rewrite !existsb_map, existsb_filter.
  rewrite andb_absorb.
  - apply existsb_ext_in. intros b _. rewrite pair_is_pair_of. apply andb_comm.
  - apply existsb_weaken. intros b H. apply andb_true_iff in H as [_ H]. exact H.
Qed.

Lemma builtin_rule_is_spec m b :
  arom_consistent m -> In b (explicit_bonds m) ->
  rule_holds (explicit_atoms m) builtin_rule b = is_pi_bond b.
Proof.
  intros AC Hin. unfold builtin_rule, is_pi_bond. cbn [rule_holds]. f_equal.
  rewrite !arom_at_explicit. unfold explicit_bonds in Hin. apply in_app_or in Hin as [Hin|Hin].
  - symmetry. apply AC, Hin.
  - apply h_bonds_shape in Hin as (_ & Ha & _ & Hj). rewrite Ha.
    assert (N : arom_at (s_atoms m) (sb_j b) = false).
    { unfold arom_at. assert (E : nth_error (s_atoms m) (sb_j b) = None) by (apply nth_error_None; lia).
      now rewrite E. }
    rewrite N. apply andb_false_r.
Qed.

Lemma builtin_edge_pi I i j :
  arom_consistent (mol I) -> edge_pi (builtin_graph I) i j = pi_spec (mol I) i j.
Proof.
  intros AC. unfold builtin_graph. rewrite builtin_edge_pi_rule. unfold pi_spec.
  apply existsb_ext_in. intros b Hin. now rewrite (builtin_rule_is_spec _ _ AC Hin).
Qed.

Lemma builtin_node_stereo I q : node_stereo (builtin_graph I) q = stereo_spec (mol I) q.
Proof.
  unfold builtin_graph. rewrite node_stereo_mark_pi, node_stereo_mark_stereo, node_stereo_rebuild.
  cbn [orb stereo_idxs]. rewrite marks_exact, nodes_len_rebuild, builder_atoms_length, explicit_atoms_length.
  apply andb_absorb. intros H. apply stereo_spec_lt in H. apply Nat.ltb_lt. lia.
Qed.

(* canonical_atoms_at_origin passes atom_class on (read from builder.py; repaired by ae1a4b7): this lemma fails,
   and with it atom_classes_carried, if the repository drops it again *)
Lemma origin_keeps_ok : origin_keeps_class = true.
Proof. reflexivity. Qed.

Lemma builtin_node_class I q : node_class (builtin_graph I) q = class_spec (mol I) q.
Proof.
  unfold builtin_graph. rewrite node_class_mark_pi, node_class_mark_stereo, node_class_rebuild.
  unfold builder_atoms, canonical, at_origin. rewrite origin_keeps_ok.
  destruct (bo_build_ok (bo I)); rewrite nth_error_map;
    rewrite <- nth_error_explicit_class; destruct (nth_error (explicit_atoms (mol I)) q); reflexivity.
Qed.

Lemma builder_atoms_z I : map ma_z (builder_atoms I) = z_spec (mol I).
Proof.
  unfold builder_atoms, canonical, at_origin. destruct (bo_build_ok (bo I)); rewrite map_map; cbn [ma_z];
    apply explicit_atoms_z.
Qed.

Lemma builtin_node_z I : z_l (g_nodes (builtin_graph I)) = z_spec (mol I).
Proof.
  unfold builtin_graph. rewrite nodes_mark_pi, node_z_list_mark_stereo. unfold rebuild; cbn [g_nodes].
  rewrite z_fresh. apply builder_atoms_z.
Qed.

Lemma p_mult_12 h l : p_mult h l = 1 \/ p_mult h l = 2.
Proof.
  unfold p_mult. pose proof (Z.mod_pos_bound (n_electrons h l) 2 ltac:(lia)) as B.
  assert (C : (n_electrons h l mod 2 = 0 \/ n_electrons h l mod 2 = 1)%Z) by lia.
  destruct C as [C|C]; rewrite C; [left|right]; reflexivity.
Qed.

(* ---------------------------------------------- RDKit path ------------------------------ *)
Definition rdkit_atoms (I : inputs) : list matom :=
  copy_classes (map (fun z => mkMAtom z None) (r_atoms (rd I))) (s_atoms (mol I)).
Definition rdkit_graph (I : inputs) : graph :=
  mark_stereo (mark_pi (mark_stereo (rebuild (rdkit_atoms I) (bond_pairs I true BoRdkit))
                                    (stereo_idxs I StRdkitChiral))
                       (pi_pairs I true PiRdkitNonSingle))
              (stereo_idxs I StRdkitBondStereo).

Lemma rdkit_graph_eq I c m : m_graph (run_rdkit I (init_state c m)) = Some (rdkit_graph I).
Proof. reflexivity. Qed.
Lemma rdkit_atoms_eq I c m : m_atoms (run_rdkit I (init_state c m)) = Some (rdkit_atoms I).
Proof. reflexivity. Qed.
Lemma rdkit_charge_eq I c m : m_charge (run_rdkit I (init_state c m)) = r_charge (rd I).
Proof. reflexivity. Qed.
Lemma rdkit_mult_eq I c m : m_mult (run_rdkit I (init_state c m)) = calc_mult_gen m (r_nrad (rd I)).
Proof. reflexivity. Qed.
Lemma rdkit_fine_eq I c m : m_fine (run_rdkit I (init_state c m)) = negb (r_unreasonable (rd I)).
Proof. run_cbn. now destruct (r_unreasonable (rd I)). Qed.
Lemma rdkit_rdobj_eq I c m : m_rdobj (run_rdkit I (init_state c m)) = true.
Proof. reflexivity. Qed.

Lemma copy_classes_length a : forall p, length (copy_classes a p) = length a.
Proof. induction a as [|x r IH]; intros [|y p]; cbn [copy_classes length]; try reflexivity. now rewrite IH. Qed.

Lemma copy_classes_z a : forall p, map ma_z (copy_classes a p) = map ma_z a.
Proof. induction a as [|x r IH]; intros [|y p]; cbn [copy_classes map ma_z]; try reflexivity. now rewrite IH. Qed.

Lemma copy_classes_class a : forall p q,
  match nth_error (copy_classes a p) q with Some x => ma_class x | None => None end
  = match nth_error a q with
    | Some x => match nth_error p q with Some y => sa_class y | None => ma_class x end
    | None => None
    end.
Proof.
  induction a as [|x r IH]; intros [|y p] q; cbn [copy_classes].
  - now destruct q.
  - now destruct q.
  - destruct (nth_error (x :: r) q); [now destruct q | reflexivity].
  - destruct q as [|q]; cbn [nth_error ma_class]; [reflexivity | apply IH].
Qed.

Lemma rdkit_atoms_length I : length (rdkit_atoms I) = length (r_atoms (rd I)).
Proof. unfold rdkit_atoms. now rewrite copy_classes_length, map_length. Qed.

Lemma rdkit_atoms_z I : map ma_z (rdkit_atoms I) = r_atoms (rd I).
Proof. unfold rdkit_atoms. rewrite copy_classes_z, map_map. cbn [ma_z]. apply map_id. Qed.

Lemma z_spec_length m : length (z_spec m) = length (s_atoms m) + total_h (s_atoms m).
Proof. unfold z_spec. now rewrite app_length, map_length, repeat_length. Qed.

Lemma in_rdk_marks_chiral r k : In k (r_chiral r) -> existsb (Nat.eqb k) (rdk_marks r) = true.
Proof.
  intros H. apply existsb_exists. exists k. split; [|apply Nat.eqb_refl].
  unfold rdk_marks. apply in_or_app. left. exact H.
Qed.
Lemma in_rdk_marks_bond r k :
  In k (flat_map (fun b => [rb_i b; rb_j b]) (filter rb_stereo (r_bonds r))) ->
  existsb (Nat.eqb k) (rdk_marks r) = true.
Proof.
  intros H. apply existsb_exists. exists k. split; [|apply Nat.eqb_refl].
  unfold rdk_marks. apply in_or_app. right. exact H.
Qed.

Lemma rdkit_no_crash I c m :
  wf_mol (mol I) = true -> rdk_agrees (mol I) (rd I) ->
  m_crash (run_rdkit I (init_state c m)) = false.
Proof.
  intros W A. pose proof (wf_mol_nonempty _ W) as N. run_cbn.
  rewrite (is_nil_false_length (s_atoms (mol I)) N). fold (rdkit_atoms I).
  assert (LA : length (rdkit_atoms I) = length (s_atoms (mol I)) + total_h (s_atoms (mol I))).
  { rewrite rdkit_atoms_length, (ra_atoms _ _ A). apply z_spec_length. }
  rewrite (is_nil_false_length (rdkit_atoms I)) by lia.
  assert (ML : forall k, existsb (Nat.eqb k) (rdk_marks (rd I)) = true -> k < length (rdkit_atoms I)).
  { intros k Hk. rewrite (ra_marks _ _ A) in Hk. apply stereo_spec_lt in Hk. lia. }
  rewrite nodes_present_lt.
  2:{ intros k Hk. rewrite nodes_len_rebuild. apply ML, in_rdk_marks_chiral. exact Hk. }
  rewrite edges_present_sub.
  2:{ intros p Hp. rewrite has_edge_mark_stereo, has_edge_rebuild. cbn [pi_pairs bond_pairs] in *.
      apply in_map_iff in Hp as [b [Hb Hin]]. apply filter_In in Hin as [Hin _].
      apply (existsb_pair_is_in _ _ _ p); [|apply pair_is_self]. subst p. apply in_map. exact Hin. }
  rewrite nodes_present_lt.
  2:{ intros k Hk. rewrite nodes_mark_pi, nodes_len_mark_stereo, nodes_len_rebuild.
      apply ML, in_rdk_marks_bond. exact Hk. }
  reflexivity.
Qed.

Lemma pair_is_rpair_of i j b : pair_is i j (rpair_of b) = same_pair (rb_i b) (rb_j b) i j.
Proof. reflexivity. Qed.

Lemma rdkit_has_edge I i j :
  rdk_agrees (mol I) (rd I) -> has_edge (rdkit_graph I) i j = bond_spec (mol I) i j.
Proof.
  intros A. unfold rdkit_graph.
  rewrite has_edge_mark_stereo, has_edge_mark_pi, has_edge_mark_stereo, has_edge_rebuild.
  cbn [bond_pairs]. rewrite existsb_map. apply (ra_bonds _ _ A).
Qed.

Lemma b_is_of_same_pair b a c i j : same_pair a c i j = true -> b_is b a c = b_is b i j.
Proof. unfold b_is. intros H. sp_cases. Qed.

Lemma pi_spec_same_pair m a c i j : same_pair a c i j = true -> pi_spec m a c = pi_spec m i j.
Proof.
  intros H. unfold pi_spec. apply existsb_ext_in. intros b _. now rewrite (b_is_of_same_pair b _ _ _ _ H).
Qed.

Lemma pi_spec_bond_spec m i j : pi_spec m i j = true -> bond_spec m i j = true.
Proof.
  unfold pi_spec, bond_spec. apply existsb_weaken. intros b H. apply andb_true_iff in H as [H _]. exact H.
Qed.

Lemma rdkit_edge_pi I i j :
  rdk_agrees (mol I) (rd I) -> edge_pi (rdkit_graph I) i j = pi_spec (mol I) i j.
Proof.
  intros A. unfold rdkit_graph.
  rewrite edge_pi_mark_stereo, edge_pi_mark_pi, edge_pi_mark_stereo, edge_pi_rebuild,
          has_edge_mark_stereo, has_edge_rebuild.
  cbn [orb pi_pairs bond_pairs]. rewrite !existsb_map, existsb_filter.
  rewrite andb_absorb.
  2:{ apply existsb_weaken. intros b H. apply andb_true_iff in H as [_ H]. exact H. }
  transitivity (existsb (fun b => pi_spec (mol I) i j && same_pair (rb_i b) (rb_j b) i j) (r_bonds (rd I))).
  - apply existsb_ext_in. intros b Hin. rewrite pair_is_rpair_of, (ra_pi _ _ A b Hin).
    destruct (same_pair (rb_i b) (rb_j b) i j) eqn:E; [|now rewrite !andb_false_r].
    now rewrite (pi_spec_same_pair _ _ _ _ _ E).
  - rewrite existsb_and_const, (ra_bonds _ _ A). apply andb_absorb, pi_spec_bond_spec.
Qed.

Lemma existsb_app_eq {A} (f : A -> bool) a b : existsb f (a ++ b) = existsb f a || existsb f b.
Proof. apply existsb_app. Qed.

Lemma rdkit_node_stereo I q :
  wf_mol (mol I) = true -> rdk_agrees (mol I) (rd I) ->
  node_stereo (rdkit_graph I) q = stereo_spec (mol I) q.
Proof.
  intros W A. unfold rdkit_graph.
  rewrite node_stereo_mark_stereo, node_stereo_mark_pi, node_stereo_mark_stereo, node_stereo_rebuild,
          nodes_mark_pi, nodes_len_mark_stereo, nodes_len_rebuild.
  cbn [orb stereo_idxs]. rewrite <- andb_orb_distrib_l, <- existsb_app.
  fold (rdk_marks (rd I)). rewrite (ra_marks _ _ A).
  apply andb_absorb. intros H. apply stereo_spec_lt in H. apply Nat.ltb_lt.
  rewrite rdkit_atoms_length, (ra_atoms _ _ A), z_spec_length. lia.
Qed.

Lemma rdkit_node_class I q :
  rdk_agrees (mol I) (rd I) -> node_class (rdkit_graph I) q = class_spec (mol I) q.
Proof.
  intros A. unfold rdkit_graph.
  rewrite node_class_mark_stereo, node_class_mark_pi, node_class_mark_stereo, node_class_rebuild.
  unfold rdkit_atoms. rewrite copy_classes_class, nth_error_map. unfold class_spec.
  destruct (nth_error (s_atoms (mol I)) q) eqn:E.
  - assert (L : q < length (r_atoms (rd I))).
    { rewrite (ra_atoms _ _ A), z_spec_length. assert (q < length (s_atoms (mol I))) by (apply nth_error_Some; congruence). lia. }
    apply nth_error_Some in L. destruct (nth_error (r_atoms (rd I)) q); [reflexivity | congruence].
  - destruct (nth_error (r_atoms (rd I)) q); reflexivity.
Qed.

Lemma rdkit_node_z I : rdk_agrees (mol I) (rd I) -> z_l (g_nodes (rdkit_graph I)) = z_spec (mol I).
Proof.
  intros A. unfold rdkit_graph.
  rewrite node_z_list_mark_stereo, nodes_mark_pi, node_z_list_mark_stereo. unfold rebuild; cbn [g_nodes].
  rewrite z_fresh, rdkit_atoms_z. apply (ra_atoms _ _ A).
Qed.

Lemma Z_odd_of_nat n : Z.odd (Z.of_nat n) = Nat.odd n /\ Z.even (Z.of_nat n) = Nat.even n.
Proof.
  induction n as [|n [IHo IHe]]; [split; reflexivity|].
  rewrite Nat2Z.inj_succ, Z.odd_succ, Z.even_succ, Nat.odd_succ, Nat.even_succ. split; assumption.
Qed.

Lemma mod2_of_nat n : (Z.of_nat n mod 2 = if Nat.odd n then 1 else 0)%Z.
Proof. rewrite Zmod_odd. now rewrite (proj1 (Z_odd_of_nat n)). Qed.

(* the TRANSLATED calc_multiplicity on a default multiplicity: doublet exactly for an odd radical-electron count *)
Lemma calc_mult_gen_parity n : calc_mult_gen 1 n = if Nat.odd n then 2 else 1.
Proof. unfold calc_mult_gen. cbn [Nat.eqb andb]. destruct (Nat.odd n), (1 <? n); reflexivity. Qed.

Lemma rdkit_mult_spec I : rdk_agrees (mol I) (rd I) ->
  calc_mult_gen 1 (r_nrad (rd I)) = mult_spec (mol I).
Proof.
  intros A. pose proof (ra_rad _ _ A) as P. rewrite calc_mult_gen_parity. unfold mult_spec, p_mult. rewrite <- P, mod2_of_nat.
  destruct (Nat.odd (r_nrad (rd I))); reflexivity.
Qed.

(* ---- the RDKit path without any assumption that the oracle is right: it copies the oracle into the store ---- *)
Lemma rdkit_no_crash_wf I c m :
  s_atoms (mol I) <> [] -> rdk_wf (rd I) -> m_crash (run_rdkit I (init_state c m)) = false.
Proof.
  intros N (NA & HC & HB). run_cbn.
  rewrite (is_nil_false_length (s_atoms (mol I))) by (destruct (s_atoms (mol I)); [congruence | cbn; lia]).
  fold (rdkit_atoms I).
  assert (LA : 0 < length (rdkit_atoms I)).
  { rewrite rdkit_atoms_length. destruct (r_atoms (rd I)); [congruence | cbn; lia]. }
  rewrite (is_nil_false_length (rdkit_atoms I)) by exact LA.
  rewrite nodes_present_lt.
  2:{ intros k Hk. rewrite nodes_len_rebuild, rdkit_atoms_length. apply HC, Hk. }
  rewrite edges_present_sub.
  2:{ intros p Hp. rewrite has_edge_mark_stereo, has_edge_rebuild. cbn [pi_pairs bond_pairs] in *.
      apply in_map_iff in Hp as [b [Hb Hin]]. apply filter_In in Hin as [Hin _].
      apply (existsb_pair_is_in _ _ _ p); [|apply pair_is_self]. subst p. apply in_map. exact Hin. }
  rewrite nodes_present_lt.
  2:{ intros k Hk. rewrite nodes_mark_pi, nodes_len_mark_stereo, nodes_len_rebuild, rdkit_atoms_length.
      cbn [stereo_idxs] in Hk. apply in_flat_map in Hk as [b [Hb Hk]]. apply filter_In in Hb as [Hb _].
      destruct (HB b Hb) as [H1 H2]. destruct Hk as [<-|[<-|[]]]; assumption. }
  reflexivity.
Qed.

Lemma rdkit_has_edge_oracle I i j :
  has_edge (rdkit_graph I) i j = existsb (fun b => same_pair (rb_i b) (rb_j b) i j) (r_bonds (rd I)).
Proof.
  unfold rdkit_graph. rewrite has_edge_mark_stereo, has_edge_mark_pi, has_edge_mark_stereo, has_edge_rebuild.
  cbn [bond_pairs]. now rewrite existsb_map.
Qed.

Lemma rdkit_edge_pi_oracle I i j :
  edge_pi (rdkit_graph I) i j
  = existsb (fun b => rb_nonsingle b && same_pair (rb_i b) (rb_j b) i j) (r_bonds (rd I)).
Proof.
  unfold rdkit_graph.
  rewrite edge_pi_mark_stereo, edge_pi_mark_pi, edge_pi_mark_stereo, edge_pi_rebuild, has_edge_mark_stereo, has_edge_rebuild.
  cbn [orb pi_pairs bond_pairs]. rewrite !existsb_map, existsb_filter. rewrite andb_absorb.
  - apply existsb_ext_in. intros b _. now rewrite pair_is_rpair_of.
  - apply existsb_weaken. intros b H. apply andb_true_iff in H as [_ H]. exact H.
Qed.

Lemma rdkit_node_stereo_oracle I q :
  node_stereo (rdkit_graph I) q
  = existsb (Nat.eqb q) (rdk_marks (rd I)) && (q <? length (r_atoms (rd I))).
Proof.
  unfold rdkit_graph.
  rewrite node_stereo_mark_stereo, node_stereo_mark_pi, node_stereo_mark_stereo, node_stereo_rebuild,
          nodes_mark_pi, nodes_len_mark_stereo, nodes_len_rebuild, rdkit_atoms_length.
  cbn [orb stereo_idxs]. rewrite <- andb_orb_distrib_l, <- existsb_app. reflexivity.
Qed.

(* ========================================================================================== *)
(* 8. path selection *)
Definition delivers (st : mstate) (g : graph) (atoms : list matom) : Prop :=
  m_crash st = false /\ m_graph st = Some g /\ m_atoms st = Some atoms.

Lemma guards_table I :
  existsb (guard_holds I) organic_guards
  = (8 <=? bo_max_ring (bo I)) || (length (explicit_atoms (mol I)) =? 1) || r_none (rd I).
Proof. unfold organic_guards. cbn [existsb guard_holds]. now rewrite orb_false_r, orb_assoc. Qed.

Lemma fallback_is_builtin I c m :
  wf_mol (mol I) = true -> existsb (guard_holds I) organic_guards = true ->
  run_organic I (init_state c m) = run_builtin I (init_state c m).
Proof.
  intros W G. pose proof (wf_mol_nonempty _ W) as N.
  unfold run_organic, run_organic_with. rewrite G. run_cbn.
  rewrite (is_nil_false_length (s_atoms (mol I)) N). reflexivity.
Qed.

Lemma no_fallback_is_rdkit I st :
  existsb (guard_holds I) organic_guards = false -> run_organic I st = run_rdkit I st.
Proof. intros G. unfold run_organic, run_organic_with, run_rdkit. now rewrite G. Qed.

Lemma trace_table I metal :
  trace I metal = if metal then [PBuiltin]
                  else if existsb (guard_holds I) organic_guards then [POrganic; PBuiltin] else [POrganic].
Proof. unfold trace, trace_with, top_if_metal, top_otherwise. now destruct metal. Qed.

Lemma init_top_metal I uc um :
  init_top I true uc um =
  let st := run_builtin I (init_state (match uc with Some c => c | None => 0%Z end)
                                      (match um with Some m => m | None => 1 end)) in
  if m_crash st then Crashed
  else match uc with
       | Some c => if negb (c =? m_charge st)%Z then RaisedValueError else Built st
       | None => Built st
       end.
Proof. reflexivity. Qed.

Lemma init_top_organic I uc um :
  init_top I false uc um =
  let st := run_organic I (init_state (match uc with Some c => c | None => 0%Z end)
                                      (match um with Some m => m | None => 1 end)) in
  if m_crash st then Crashed
  else match uc with
       | Some c => if negb (c =? m_charge st)%Z then RaisedValueError else Built st
       | None => Built st
       end.
Proof. reflexivity. Qed.

Lemma init_top_charge I metal c um st : init_top I metal (Some c) um = Built st -> m_charge st = c.
Proof.
  destruct metal; [rewrite init_top_metal | rewrite init_top_organic]; cbv zeta;
  match goal with |- context [m_crash ?s] => destruct (m_crash s); [discriminate|] end;
  match goal with |- context [(c =? ?x)%Z] => destruct (c =? x)%Z eqn:E end; cbn [negb]; try discriminate;
  intros H; injection H as <-; symmetry; apply Z.eqb_eq, E.
Qed.

Lemma calc_mult_gen_keeps k n : k <> 1 -> calc_mult_gen k n = k.
Proof. intros H. unfold calc_mult_gen. apply Nat.eqb_neq in H. rewrite H. reflexivity. Qed.

(* ========================================================================================== *)
(* 9. witnesses *)
(* two lower-case (aromatic) atoms joined by a single, non-aromatic bond: the two ends of the linker of
   biphenyl  c1ccccc1-c1ccccc1  (atoms 5 and 6 there) *)
Definition w_linker : inputs :=
  mkIn (mkSMol [mkSAtom 6 true 0 0%Z None false; mkSAtom 6 true 0 0%Z None false] [mkSBond 0 1 1 false])
       (mkRdk false 0%Z 0 [6; 6] [mkRBond 0 1 false false] [] false) (mkBld 0 true) (mkGraph [] []).

(* C[C] : CH3-C with three unpaired electrons on the second carbon (15 electrons) *)
Definition w_carbyne : inputs :=
  mkIn (mkSMol [mkSAtom 6 false 3 0%Z None false; mkSAtom 6 false 0 0%Z None false] [mkSBond 0 1 1 false])
       (mkRdk false 0%Z 3 [6; 6; 1; 1; 1]
              [mkRBond 0 1 false false; mkRBond 0 2 false false; mkRBond 0 3 false false; mkRBond 0 4 false false]
              [] false) (mkBld 0 true) (mkGraph [] []).

(* non-vacuity:  [CH2:7]=[N+]([H])/...  kept small:  [CH2:7]=O  with a marked carbon is not chemistry, so
   the example is formaldehyde with an atom class, plus a separate marked example below *)
Definition w_formaldehyde : inputs :=
  mkIn (mkSMol [mkSAtom 6 false 2 0%Z (Some 7) false; mkSAtom 8 false 0 0%Z None false] [mkSBond 0 1 2 false])
       (mkRdk false 0%Z 0 [6; 8; 1; 1]
              [mkRBond 0 1 true false; mkRBond 0 2 false false; mkRBond 0 3 false false] [] false)
       (mkBld 0 true) (mkGraph [] []).

(* F/C=C/F : both carbons carry double-bond stereo marks *)
Definition w_difluoroethene : inputs :=
  mkIn (mkSMol [mkSAtom 9 false 0 0%Z None false; mkSAtom 6 false 1 0%Z None true;
                mkSAtom 6 false 1 0%Z None true; mkSAtom 9 false 0 0%Z None false]
               [mkSBond 0 1 1 false; mkSBond 1 2 2 false; mkSBond 2 3 1 false])
       (mkRdk false 0%Z 0 [9; 6; 6; 9; 1; 1]
              [mkRBond 0 1 false false; mkRBond 1 2 true true; mkRBond 2 3 false false;
               mkRBond 1 4 false false; mkRBond 2 5 false false] [] false)
       (mkBld 0 true) (mkGraph [] []).

Lemma w_formaldehyde_agrees : rdk_agrees (mol w_formaldehyde) (rd w_formaldehyde).
Proof.
  constructor.
  - reflexivity.
  - intros i j. reflexivity.
  - intros b Hb. cbn in Hb. destruct Hb as [<-|[<-|[<-|[]]]]; reflexivity.
  - intros k. destruct k as [|[|[|k]]]; reflexivity.
  - reflexivity.
  - reflexivity.
Qed.

Lemma w_difluoroethene_agrees : rdk_agrees (mol w_difluoroethene) (rd w_difluoroethene).
Proof.
  constructor.
  - reflexivity.
  - intros i j. reflexivity.
  - intros b Hb. cbn in Hb. destruct Hb as [<-|[<-|[<-|[<-|[<-|[]]]]]]; reflexivity.
  - intros k. destruct k as [|[|[|[|[|k]]]]]; reflexivity.
  - reflexivity.
  - reflexivity.
Qed.

Lemma w_formaldehyde_arom : arom_consistent (mol w_formaldehyde).
Proof. intros b Hb. cbn in Hb. destruct Hb as [<-|[]]. reflexivity. Qed.
Lemma w_difluoroethene_arom : arom_consistent (mol w_difluoroethene).
Proof. intros b Hb. cbn in Hb. destruct Hb as [<-|[<-|[<-|[]]]]; reflexivity. Qed.
