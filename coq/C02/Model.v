(* C02/Model.v — executable model of how autodE builds a Molecule from a SMILES string
   (autode/smiles/smiles.py init_organic_smiles / init_smiles, autode/species/molecule.py
   _init_smiles, autode/smiles/builder.py _explicit_all_hydrogens, autode/mol_graphs.py make_graph).

   The two initialisation functions are NOT written here: tr/translate_c02.py reads them from the
   repository on every run and emits them as lists of the abstract operations [op] below
   (coq/gen/C02_Gen.v).  This file gives the meaning of one operation on the molecule's attribute
   store; Lemmas.v / Props.v reason about the generated lists.

   3D coordinates are not part of the store: RDKit embedding, Builder.build and get_simanl_atoms are
   oracles (their only visible effects here: did the build fail, were the coordinates "reasonable"). *)
From Coq Require Import ZArith List Bool Arith Lia.
Import ListNotations.

(* ------------------------------------------------------------------------------------------ *)
(* Input 1: the parsed SMILES = parser.atoms / parser.bonds as Parser.parse leaves them
   (before a Builder makes the hydrogens explicit).  sa_z = atomic number, sa_arom = written in
   lower case (SMILESAtom.is_aromatic, base.py:81-83), sa_nh = n_hydrogens (implicit or bracket H
   count), sa_mark = has_stereochem (base.py:86-88).  sb_arom is SPEC-side information: is the bond
   aromatic in the SMILES (the parser does not store it; only the statement of the property uses it). *)
Record satom := mkSAtom { sa_z : nat; sa_arom : bool; sa_nh : nat; sa_charge : Z;
                          sa_class : option nat; sa_mark : bool }.
Record sbond := mkSBond { sb_i : nat; sb_j : nat; sb_order : nat; sb_arom : bool }.
Record smol := mkSMol { s_atoms : list satom; s_bonds : list sbond }.

(* builder.py:163-187 _explicit_all_hydrogens: for idx, atom in enumerate(atoms): for each of its
   n_hydrogens append SMILESAtom("H", n_hydrogens=0) with index n_atoms + len(h_atoms) - 1 and the
   bond SMILESBond(idx, h_idx, "-"); then atom.n_hydrogens = 0; finally atoms += h_atoms. *)
Definition h_atom : satom := mkSAtom 1 false 0 0%Z None false.
Definition zero_h (a : satom) : satom :=
  mkSAtom (sa_z a) (sa_arom a) 0 (sa_charge a) (sa_class a) (sa_mark a).
Fixpoint total_h (l : list satom) : nat :=
  match l with [] => 0 | a :: r => sa_nh a + total_h r end.
Fixpoint h_bonds_from (idx next : nat) (l : list satom) : list sbond :=
  match l with
  | [] => []
  | a :: r => map (fun h => mkSBond idx h 1 false) (seq next (sa_nh a))
              ++ h_bonds_from (S idx) (next + sa_nh a) r
  end.
Definition h_bonds (m : smol) : list sbond := h_bonds_from 0 (length (s_atoms m)) (s_atoms m).
Definition explicit_atoms (m : smol) : list satom :=
  map zero_h (s_atoms m) ++ repeat h_atom (total_h (s_atoms m)).
Definition explicit_bonds (m : smol) : list sbond := s_bonds m ++ h_bonds m.

(* parser.py:48-68: charge = sum of atomic charges; mult = (n_electrons % 2) + 1 with
   n_electrons = sum Z - charge + sum n_hydrogens.  The Builder zeroes n_hydrogens on the SAME atom
   objects (builder.py:184) and its hydrogens are not in parser.atoms, so a multiplicity read after the
   builder ran misses every hydrogen: [hs_done] models that. *)
Fixpoint sum_z (l : list satom) : nat := match l with [] => 0 | a :: r => sa_z a + sum_z r end.
Fixpoint p_charge (l : list satom) : Z :=
  match l with [] => 0%Z | a :: r => (sa_charge a + p_charge r)%Z end.
Definition n_electrons (hs_done : bool) (l : list satom) : Z :=
  (Z.of_nat (sum_z l) - p_charge l + (if hs_done then 0 else Z.of_nat (total_h l)))%Z.
Definition p_mult (hs_done : bool) (l : list satom) : nat :=
  Z.to_nat (n_electrons hs_done l mod 2) + 1.

(* ------------------------------------------------------------------------------------------ *)
(* Input 2: oracle facts.  RDKit (smiles.py:66-118): MolFromSmiles returned None?, formal charge,
   NumRadicalElectrons, element of every atom after AddHs (mol block order), every bond with
   "type != SINGLE" and "GetStereo() != STEREONONE", FindMolChiralCenters; were the embedded
   coordinates unreasonable (smiles.py:95).  Builder: max_ring_n after set_atoms_bonds
   (builder.py:122-133), did Builder.build raise SMILESBuildFailed/NotImplementedError
   (smiles.py:145-150).  [lazy]: the distance-perceived graph Species.graph would create if the
   graph is touched before any make_graph(bond_list=...) (species.py:301-317). *)
Record rbond := mkRBond { rb_i : nat; rb_j : nat; rb_nonsingle : bool; rb_stereo : bool }.
Record rdk := mkRdk { r_none : bool; r_charge : Z; r_nrad : nat; r_atoms : list nat;
                      r_bonds : list rbond; r_chiral : list nat; r_unreasonable : bool }.
Record bld := mkBld { bo_max_ring : nat; bo_build_ok : bool }.

(* The attribute store *)
Record matom := mkMAtom { ma_z : nat; ma_class : option nat }.
Record node := mkNode { nd_z : nat; nd_stereo : bool; nd_class : option nat }.
Record edge := mkEdge { ed_i : nat; ed_j : nat; ed_pi : bool }.
Record graph := mkGraph { g_nodes : list node; g_edges : list edge }.

Record inputs := mkIn { mol : smol; rd : rdk; bo : bld; lazy : graph }.

(* m_hs: local to one Parser/Builder pair — have the hydrogens been made explicit (so parser.bonds
   contains the H bonds and builder.atoms exists).  m_crash: some statement would have raised
   (KeyError on a missing node/edge, NoAtomsInMolecule, TypeError on builder.atoms = None ...): the
   constructor then delivers no molecule, so the rest of the store is irrelevant when it is set. *)
Record mstate := mkState { m_charge : Z; m_mult : nat; m_atoms : option (list matom);
                           m_graph : option graph; m_fine : bool; m_rdobj : bool;
                           m_hs : bool; m_crash : bool }.

(* molecule.py:58-67: Species(charge = charge or 0, mult = mult or 1), no atoms, no graph,
   rdkit_conf_gen_is_fine = True, rdkit_mol_obj = None *)
Definition init_state (c : Z) (m : nat) : mstate := mkState c m None None true false false false.

(* ------------------------------------------------------------------------------------------ *)
(* The abstract operations *)
Inductive charge_src := ChRdkit | ChParser.
(* MuCalcRdkit f: molecule.mult = calc_multiplicity(molecule, NumRadicalElectrons(rdkit_mol)) where f is the
   TRANSLATED calc_multiplicity (gen/C02_Gen.v: calc_mult_gen) *)
Inductive mult_src := MuCalcRdkit (f : nat -> nat -> nat) | MuParserIfDefault.
(* keeps: does Builder.canonical_atoms_at_origin pass atom_class on (read from builder.py by the translator) *)
Inductive atoms_src := AtRdkit | AtBuilderCanonical | AtBuilderOrigin (keeps : bool) | AtBuilderTry (keeps : bool) | AtSimanl.
Inductive bonds_src := BoRdkit | BoParser.
Inductive stereo_src := StRdkitChiral | StRdkitBondStereo | StParserMarks.
Inductive pirule := RTrue | ROrderGt (k : nat) | RBothArom | ROr (a b : pirule) | RAnd (a b : pirule).
Inductive pi_src := PiRdkitNonSingle | PiParser (r : pirule).

Inductive op :=
| NewParserBuilder               (* parser, builder = Parser(), Builder(); parser.parse(smiles) *)
| BuilderSetAtomsBonds           (* builder.set_atoms_bonds(atoms=parser.atoms, bonds=parser.bonds) *)
| BuilderBuild                   (* builder.build(atoms=parser.atoms, bonds=parser.bonds), may fail (oracle) *)
| SetFine (b : bool)             (* molecule.rdkit_conf_gen_is_fine = b *)
| SetCharge (s : charge_src)
| SetMult (s : mult_src)
| SetAtoms (s : atoms_src)
| ResimIfUnreasonable (setfine : bool) (* if not has_reasonable_coordinates: [fine=False]; atoms = get_simanl_atoms *)
| CopyAtomClasses                (* for atom, satom in zip(molecule.atoms, parser.atoms): atom.atom_class = ... *)
| RebuildGraph (s : bonds_src)   (* make_graph(molecule, bond_list=...) *)
| MarkStereo (s : stereo_src)
| MarkPi (s : pi_src)
| CheckBonds (s : bonds_src)     (* check_bonds: works on a copy, only logs *)
| StoreRdkitMol.                 (* molecule.rdkit_mol_obj = rdkit_mol *)

Inductive guard := GMaxRingGe (k : nat) | GNAtomsEq (k : nat) | GRdkitNone.
Inductive pathname := PBuiltin | POrganic.

(* ------------------------------------------------------------------------------------------ *)
(* Graph primitives (networkx semantics, undirected) *)
Definition same_pair (a b i j : nat) : bool :=
  ((a =? i) && (b =? j)) || ((a =? j) && (b =? i)).
Definition e_is (e : edge) (i j : nat) : bool := same_pair (ed_i e) (ed_j e) i j.

Definition has_edge_l (es : list edge) (i j : nat) : bool := existsb (fun e => e_is e i j) es.
Definition edge_pi_l (es : list edge) (i j : nat) : bool :=
  existsb (fun e => e_is e i j && ed_pi e) es.
Definition has_edge (g : graph) := has_edge_l (g_edges g).
Definition edge_pi (g : graph) := edge_pi_l (g_edges g).

(* Graph.add_edge(i, j, pi=False, active=False): an existing edge keeps its place and gets the
   attributes overwritten; otherwise the edge is appended (mol_graphs.py:189-190) *)
Fixpoint add_edge (es : list edge) (i j : nat) : list edge :=
  match es with
  | [] => [mkEdge i j false]
  | e :: r => if e_is e i j then mkEdge (ed_i e) (ed_j e) false :: r else e :: add_edge r i j
  end.
Definition fresh_edges (bs : list (nat * nat)) : list edge :=
  fold_left (fun es b => add_edge es (fst b) (snd b)) bs [].

(* mol_graphs.py:176-193: every atom becomes a node (atom_label, stereo=False, atom_class =
   atom.atom_class AT THIS MOMENT); every listed bond an edge with pi=False *)
Definition fresh_nodes (atoms : list matom) : list node :=
  map (fun a => mkNode (ma_z a) false (ma_class a)) atoms.
Definition rebuild (atoms : list matom) (bs : list (nat * nat)) : graph :=
  mkGraph (fresh_nodes atoms) (fresh_edges bs).

(* graph.edges[i, j]["pi"] = True  (KeyError if there is no such edge: see [step]) *)
Definition set_pi (es : list edge) (p : nat * nat) : list edge :=
  map (fun e => if e_is e (fst p) (snd p) then mkEdge (ed_i e) (ed_j e) true else e) es.
Definition mark_pi (g : graph) (ps : list (nat * nat)) : graph :=
  mkGraph (g_nodes g) (fold_left set_pi ps (g_edges g)).

(* graph.nodes[k]["stereo"] = True *)
Fixpoint set_stereo (ns : list node) (k : nat) : list node :=
  match ns, k with
  | [], _ => []
  | n :: r, 0 => mkNode (nd_z n) true (nd_class n) :: r
  | n :: r, S k' => n :: set_stereo r k'
  end.
Definition mark_stereo (g : graph) (ks : list nat) : graph :=
  mkGraph (fold_left set_stereo ks (g_nodes g)) (g_edges g).

Definition node_stereo (g : graph) (k : nat) : bool :=
  match nth_error (g_nodes g) k with Some n => nd_stereo n | None => false end.
Definition node_class (g : graph) (k : nat) : option nat :=
  match nth_error (g_nodes g) k with Some n => nd_class n | None => None end.
Definition node_z (g : graph) (k : nat) : option nat :=
  match nth_error (g_nodes g) k with Some n => Some (nd_z n) | None => None end.

Definition edges_present (g : graph) (ps : list (nat * nat)) : bool :=
  forallb (fun p => has_edge g (fst p) (snd p)) ps.
Definition nodes_present (g : graph) (ks : list nat) : bool :=
  forallb (fun k => k <? length (g_nodes g)) ks.

(* ------------------------------------------------------------------------------------------ *)
(* Data each operation reads *)
Definition pair_of (b : sbond) : nat * nat := (sb_i b, sb_j b).
Definition rpair_of (b : rbond) : nat * nat := (rb_i b, rb_j b).

(* parser.bonds IS the list the builder appends the H bonds to (builder.py:1002, 180) *)
Definition parser_bonds (I : inputs) (hs : bool) : list sbond :=
  if hs then explicit_bonds (mol I) else s_bonds (mol I).
Definition bond_pairs (I : inputs) (hs : bool) (s : bonds_src) : list (nat * nat) :=
  match s with
  | BoRdkit => map rpair_of (r_bonds (rd I))
  | BoParser => map pair_of (parser_bonds I hs)
  end.

Definition arom_at (atoms : list satom) (k : nat) : bool :=
  match nth_error atoms k with Some a => sa_arom a | None => false end.
Fixpoint rule_holds (atoms : list satom) (r : pirule) (b : sbond) : bool :=
  match r with
  | RTrue => true
  | ROrderGt k => k <? sb_order b
  | RBothArom => arom_at atoms (sb_i b) && arom_at atoms (sb_j b)
  | ROr a c => rule_holds atoms a b || rule_holds atoms c b
  | RAnd a c => rule_holds atoms a b && rule_holds atoms c b
  end.

Definition pi_pairs (I : inputs) (hs : bool) (s : pi_src) : list (nat * nat) :=
  match s with
  | PiRdkitNonSingle => map rpair_of (filter rb_nonsingle (r_bonds (rd I)))
  | PiParser r => map pair_of (filter (rule_holds (explicit_atoms (mol I)) r) (parser_bonds I hs))
  end.

Fixpoint marked_from (k : nat) (l : list satom) : list nat :=
  match l with
  | [] => []
  | a :: r => if sa_mark a then k :: marked_from (S k) r else marked_from (S k) r
  end.
Definition stereo_idxs (I : inputs) (s : stereo_src) : list nat :=
  match s with
  | StRdkitChiral => r_chiral (rd I)
  | StRdkitBondStereo =>
      flat_map (fun b => [rb_i b; rb_j b]) (filter rb_stereo (r_bonds (rd I)))
  | StParserMarks => marked_from 0 (explicit_atoms (mol I))    (* enumerate(builder.atoms) *)
  end.

(* builder.py:58-84: canonical_atoms keep atom_class; canonical_atoms_at_origin = [Atom(atom.label) ...]
   drops it (keeps = false) unless the repository passes atom_class there too *)
Definition canonical (I : inputs) : list matom :=
  map (fun a => mkMAtom (sa_z a) (sa_class a)) (explicit_atoms (mol I)).
Definition at_origin (I : inputs) (keeps : bool) : list matom :=
  map (fun a => mkMAtom (sa_z a) (if keeps then sa_class a else None)) (explicit_atoms (mol I)).
Definition new_atoms (I : inputs) (s : atoms_src) (cur : option (list matom)) : list matom :=
  match s with
  | AtRdkit => map (fun z => mkMAtom z None) (r_atoms (rd I))    (* conformers.py:328-355 *)
  | AtBuilderCanonical => canonical I
  | AtBuilderOrigin k => at_origin I k
  | AtBuilderTry k => if bo_build_ok (bo I) then canonical I else at_origin I k
  | AtSimanl => match cur with Some l => l | None => [] end      (* deepcopy of species.atoms, moved *)
  end.

(* species.py:228-252: the atoms setter only moves the existing atoms when the new list has the same
   length and labels (atom_class of the NEW atoms is then not taken over) *)
Fixpoint same_labels (a b : list matom) : bool :=
  match a, b with
  | [], [] => true
  | x :: a', y :: b' => (ma_z x =? ma_z y) && same_labels a' b'
  | _, _ => false
  end.
Definition assign_atoms (cur : option (list matom)) (new : list matom) : list matom :=
  match cur with
  | Some old => if same_labels old new then old else new
  | None => new
  end.

Fixpoint copy_classes (atoms : list matom) (ps : list satom) : list matom :=
  match atoms, ps with
  | a :: ar, p :: pr => mkMAtom (ma_z a) (sa_class p) :: copy_classes ar pr
  | _, _ => atoms
  end.

Definition is_nil {A} (l : list A) : bool := match l with [] => true | _ => false end.
Definition is_none {A} (o : option A) : bool := match o with None => true | _ => false end.

(* molecule.graph: lazily perceived when no graph has been stored (species.py:310-317) *)
Definition cur_graph (I : inputs) (st : mstate) : graph :=
  match m_graph st with Some g => g | None => lazy I end.

(* ------------------------------------------------------------------------------------------ *)
(* Record updates *)
Definition upd_charge st c := mkState c (m_mult st) (m_atoms st) (m_graph st) (m_fine st) (m_rdobj st) (m_hs st) (m_crash st).
Definition upd_mult st m := mkState (m_charge st) m (m_atoms st) (m_graph st) (m_fine st) (m_rdobj st) (m_hs st) (m_crash st).
Definition upd_atoms st a c := mkState (m_charge st) (m_mult st) a (m_graph st) (m_fine st) (m_rdobj st) (m_hs st) (m_crash st || c).
Definition upd_graph st g c := mkState (m_charge st) (m_mult st) (m_atoms st) g (m_fine st) (m_rdobj st) (m_hs st) (m_crash st || c).
Definition upd_fine st f := mkState (m_charge st) (m_mult st) (m_atoms st) (m_graph st) f (m_rdobj st) (m_hs st) (m_crash st).
Definition upd_rdobj st r := mkState (m_charge st) (m_mult st) (m_atoms st) (m_graph st) (m_fine st) r (m_hs st) (m_crash st).
Definition upd_hs st h c := mkState (m_charge st) (m_mult st) (m_atoms st) (m_graph st) (m_fine st) (m_rdobj st) h (m_crash st || c).

(* One operation.  Crash conditions are accumulated (sticky) instead of stopping the run: a raised
   exception means no molecule is delivered, so the remaining fields are only meaningful when
   m_crash = false at the end. *)
Definition step (I : inputs) (o : op) (st : mstate) : mstate :=
  match o with
  | NewParserBuilder => upd_hs st false false
  | BuilderSetAtomsBonds => upd_hs st true (is_nil (s_atoms (mol I)))      (* builder.py:998-999 *)
  | BuilderBuild => upd_hs st true (is_nil (s_atoms (mol I)))
  | SetFine b => upd_fine st b
  | SetCharge ChRdkit => upd_charge st (r_charge (rd I))
  | SetCharge ChParser => upd_charge st (p_charge (s_atoms (mol I)))
  | SetMult (MuCalcRdkit f) => upd_mult st (f (m_mult st) (r_nrad (rd I)))
  | SetMult MuParserIfDefault =>
      upd_mult st (if m_mult st =? 1 then p_mult (m_hs st) (s_atoms (mol I)) else m_mult st)
  | SetAtoms s =>
      upd_atoms st (Some (assign_atoms (m_atoms st) (new_atoms I s (m_atoms st))))
                (match s with
                 | AtBuilderCanonical | AtBuilderOrigin _ | AtBuilderTry _ => negb (m_hs st)
                 | AtSimanl => is_none (m_atoms st)
                 | AtRdkit => false
                 end)
  | ResimIfUnreasonable setfine =>
      (* has_reasonable_coordinates / get_simanl_atoms touch molecule.graph: lazily perceived if absent;
         get_simanl_atoms returns moved copies of the same atoms: labels and classes are unchanged *)
      let st1 := upd_graph st (Some (cur_graph I st)) (is_none (m_atoms st)) in
      upd_fine st1 (if setfine && r_unreasonable (rd I) then false else m_fine st)
  | CopyAtomClasses =>
      upd_atoms st (match m_atoms st with
                    | Some l => Some (copy_classes l (s_atoms (mol I)))
                    | None => None end) (is_none (m_atoms st))
  | RebuildGraph s =>
      match m_atoms st with
      | Some l => upd_graph st (Some (rebuild l (bond_pairs I (m_hs st) s))) (is_nil l)   (* mol_graphs.py:169 *)
      | None => upd_graph st None true
      end
  | MarkStereo s =>
      let g := cur_graph I st in
      upd_graph st (Some (mark_stereo g (stereo_idxs I s)))
        (is_none (m_atoms st) || negb (nodes_present g (stereo_idxs I s))
         || (match s with StParserMarks => negb (m_hs st) | _ => false end))
  | MarkPi s =>
      let g := cur_graph I st in
      upd_graph st (Some (mark_pi g (pi_pairs I (m_hs st) s)))
        (is_none (m_atoms st) || negb (edges_present g (pi_pairs I (m_hs st) s))
         || (match s with PiParser _ => negb (m_hs st) | _ => false end))
  | CheckBonds _ => st
  | StoreRdkitMol => upd_rdobj st true
  end.

Definition run_ops (I : inputs) (ops : list op) (st : mstate) : mstate :=
  fold_left (fun s o => step I o s) ops st.

Definition guard_holds (I : inputs) (g : guard) : bool :=
  match g with
  | GMaxRingGe k => k <=? bo_max_ring (bo I)
  | GNAtomsEq k => length (explicit_atoms (mol I)) =? k       (* builder.n_atoms after set_atoms_bonds *)
  | GRdkitNone => r_none (rd I)
  end.

(* init_organic_smiles: [pre]; if any guard holds: return init_smiles(molecule, smiles) (a NEW parser
   and builder, same molecule); otherwise [body] *)
Definition run_organic_with (pre : list op) (guards : list guard) (body builtin : list op)
           (I : inputs) (st : mstate) : mstate :=
  let st1 := run_ops I pre st in
  if existsb (guard_holds I) guards then run_ops I builtin st1 else run_ops I body st1.

(* Molecule._init_smiles (molecule.py:92-119) *)
Inductive outcome := Built (st : mstate) | RaisedValueError | Crashed.
Definition init_top_with (if_metal otherwise : pathname) (charge_check : bool)
           (run_builtin run_organic : inputs -> mstate -> mstate)
           (I : inputs) (metal : bool) (uc : option Z) (um : option nat) : outcome :=
  let st0 := init_state (match uc with Some c => c | None => 0%Z end)
                        (match um with Some m => m | None => 1 end) in
  let run p := match p with PBuiltin => run_builtin I st0 | POrganic => run_organic I st0 end in
  let st := run (if metal then if_metal else otherwise) in
  if m_crash st then Crashed
  else match uc with
       | Some c => if charge_check && negb (c =? m_charge st)%Z then RaisedValueError else Built st
       | None => Built st
       end.

(* which initialisation functions are entered, in order *)
Definition trace_with (if_metal otherwise : pathname) (guards : list guard) (I : inputs) (metal : bool)
  : list pathname :=
  match (if metal then if_metal else otherwise) with
  | PBuiltin => [PBuiltin]
  | POrganic => if existsb (guard_holds I) guards then [POrganic; PBuiltin] else [POrganic]
  end.

(* ------------------------------------------------------------------------------------------ *)
(* What the SMILES denotes (the specification side) *)
Definition b_is (b : sbond) (i j : nat) : bool := same_pair (sb_i b) (sb_j b) i j.
Definition bond_spec (m : smol) (i j : nat) : bool := existsb (fun b => b_is b i j) (explicit_bonds m).
Definition is_pi_bond (b : sbond) : bool := (1 <? sb_order b) || sb_arom b.
Definition pi_spec (m : smol) (i j : nat) : bool :=
  existsb (fun b => b_is b i j && is_pi_bond b) (explicit_bonds m).
Definition stereo_spec (m : smol) (k : nat) : bool :=
  match nth_error (s_atoms m) k with Some a => sa_mark a | None => false end.
Definition class_spec (m : smol) (k : nat) : option nat :=
  match nth_error (s_atoms m) k with Some a => sa_class a | None => None end.
Definition z_spec (m : smol) : list nat :=
  map sa_z (s_atoms m) ++ repeat 1 (total_h (s_atoms m)).
Definition charge_spec (m : smol) : Z := p_charge (s_atoms m).
(* lowest multiplicity compatible with the electron count (autodE's documented convention: several
   unpaired electrons default to a singlet) *)
Definition mult_spec (m : smol) : nat := p_mult false (s_atoms m).

(* the parser's guarantees about its output (SMILESBonds.append / insert refuse duplicates and
   self-bonds, base.py:268-282; indices refer to parsed atoms) *)
Definition wf_bond (n : nat) (b : sbond) : bool :=
  (sb_i b <? n) && (sb_j b <? n) && negb (sb_i b =? sb_j b).
Definition wf_mol (m : smol) : bool :=
  negb (is_nil (s_atoms m)) && forallb (wf_bond (length (s_atoms m))) (s_bonds m).

(* ------------------------------------------------------------------------------------------ *)
(* Hypotheses used by the theorems (Props.v).  Each is evaluated on every generated molecule by the
   harness (harness/c02.py), with RDKit called independently of autodE. *)

(* every atom RDKit marks: chiral centres and both ends of stereo double bonds (smiles.py:105-116) *)
Definition rdk_marks (r : rdk) : list nat :=
  r_chiral r ++ flat_map (fun b => [rb_i b; rb_j b]) (filter rb_stereo (r_bonds r)).

(* "the RDKit oracle agrees with the SMILES": same atoms, same bonds, non-single bond types exactly on
   the multiple/aromatic bonds, stereo perceived exactly on the marked atoms, same formal charge, a radical
   electron count with the parity of the electron count.  NOTE: this says the ORACLE equals the specification;
   the RDKit-path theorems that assume it therefore only add "the operation list copies the oracle into the store
   and nothing later undoes it" (Props.rdkit_path_copies_oracle states exactly that, without this premise). *)
Record rdk_agrees (m : smol) (r : rdk) : Prop := mkAgrees {
  ra_atoms : r_atoms r = z_spec m;
  ra_bonds : forall i j, existsb (fun b => same_pair (rb_i b) (rb_j b) i j) (r_bonds r) = bond_spec m i j;
  ra_pi : forall b, In b (r_bonds r) -> rb_nonsingle b = pi_spec m (rb_i b) (rb_j b);
  ra_marks : forall k, existsb (Nat.eqb k) (rdk_marks r) = stereo_spec m k;
  ra_charge : r_charge r = charge_spec m;
  ra_rad : (Z.of_nat (r_nrad r) mod 2 = n_electrons false (s_atoms m) mod 2)%Z
}.

(* a bond between two lower-case atoms is an aromatic bond (false for a biphenyl-type linker) *)
Definition arom_consistent (m : smol) : Prop :=
  forall b, In b (s_bonds m) ->
    sb_arom b = arom_at (s_atoms m) (sb_i b) && arom_at (s_atoms m) (sb_j b).

(* minimal sanity of the RDKit oracle (no reference to the specification): some atoms, indices in range *)
Definition rdk_wf (r : rdk) : Prop :=
  r_atoms r <> [] /\
  (forall k, In k (r_chiral r) -> k < length (r_atoms r)) /\
  (forall b, In b (r_bonds r) -> rb_i b < length (r_atoms r) /\ rb_j b < length (r_atoms r)).
