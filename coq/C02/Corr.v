(* C02/Corr.v — helpers used only by the correspondence check (model vs implementation).
   Deliberately independent of Lemmas.v: when a source change breaks the proofs, the regenerated model
   can still be run against the implementation. *)
From Coq Require Import ZArith List Bool Arith.
From AV.C02 Require Import Model.
From AV.gen Require Import C02_Gen.
Import ListNotations.

(* same definitions as in Lemmas.v *)
Definition run_builtin (I : inputs) (st : mstate) : mstate := run_ops I builtin_ops st.
Definition run_organic : inputs -> mstate -> mstate :=
  run_organic_with organic_pre organic_guards organic_body builtin_ops.
Definition init_top : inputs -> bool -> option Z -> option nat -> outcome :=
  init_top_with top_if_metal top_otherwise top_charge_check run_builtin run_organic.
Definition trace : inputs -> bool -> list pathname := trace_with top_if_metal top_otherwise organic_guards.

(* what the harness observes on a delivered Molecule *)
Record obs := mkObs { o_charge : Z; o_mult : nat; o_z : list nat; o_classes : list (option nat);
                      o_edges : list (nat * nat); o_pi : list (nat * nat); o_stereo : list nat;
                      o_fine : bool; o_rdobj : bool }.
Inductive eobs := EBuilt (o : obs) | EValueError | ECrash.

Fixpoint list_eqb {A} (eqb : A -> A -> bool) (a b : list A) : bool :=
  match a, b with
  | [], [] => true
  | x :: a', y :: b' => eqb x y && list_eqb eqb a' b'
  | _, _ => false
  end.
Definition onat_eqb (a b : option nat) : bool :=
  match a, b with Some x, Some y => x =? y | None, None => true | _, _ => false end.
Definition count {A} (f : A -> bool) (l : list A) : nat := length (filter f l).

(* observed sets are duplicate-free (networkx); the model's edge list is duplicate-free by add_edge:
   inclusion + equal cardinality = equality *)
Definition check_graph (g : graph) (o : obs) : bool :=
  list_eqb Nat.eqb (map nd_z (g_nodes g)) (o_z o)
  && list_eqb onat_eqb (map nd_class (g_nodes g)) (o_classes o)
  && forallb (fun p => has_edge g (fst p) (snd p)) (o_edges o)
  && (length (g_edges g) =? length (o_edges o))
  && forallb (fun p => edge_pi g (fst p) (snd p)) (o_pi o)
  && (count ed_pi (g_edges g) =? length (o_pi o))
  && forallb (node_stereo g) (o_stereo o)
  && (count nd_stereo (g_nodes g) =? length (o_stereo o)).

Definition check_state (st : mstate) (e : eobs) : bool :=
  match e with
  | ECrash => m_crash st
  | EValueError => false
  | EBuilt o =>
      negb (m_crash st) && (m_charge st =? o_charge o)%Z && (m_mult st =? o_mult o)
      && Bool.eqb (m_fine st) (o_fine o) && Bool.eqb (m_rdobj st) (o_rdobj o)
      && match m_atoms st, m_graph st with
         | Some a, Some g => list_eqb Nat.eqb (map ma_z a) (o_z o) && check_graph g o
         | _, _ => false
         end
  end.

(* init_smiles / init_organic_smiles called directly on a blank Molecule(charge c, mult m) *)
Definition check_builtin (I : inputs) (c : Z) (m : nat) (e : eobs) : bool :=
  check_state (run_builtin I (init_state c m)) e.
Definition check_organic (I : inputs) (c : Z) (m : nat) (e : eobs) : bool :=
  check_state (run_organic I (init_state c m)) e.

(* Molecule(smiles=..., charge=uc, mult=um) *)
Definition check_top (I : inputs) (metal : bool) (uc : option Z) (um : option nat) (e : eobs) : bool :=
  match init_top I metal uc um, e with
  | Built st, EBuilt _ => check_state st e
  | RaisedValueError, EValueError => true
  | Crashed, ECrash => true
  | _, _ => false
  end.

Definition path_eqb (a b : pathname) : bool :=
  match a, b with PBuiltin, PBuiltin => true | POrganic, POrganic => true | _, _ => false end.
Definition check_trace (I : inputs) (metal : bool) (tr : list pathname) : bool :=
  list_eqb path_eqb (trace I metal) tr.

(* boolean versions of the theorems' hypotheses, evaluated per case for the coverage record *)
Definition arom_consistent_b (m : smol) : bool :=
  forallb (fun b => Bool.eqb (sb_arom b) (arom_at (s_atoms m) (sb_i b) && arom_at (s_atoms m) (sb_j b))) (s_bonds m).
Definition rdk_agrees_b (m : smol) (r : rdk) : bool :=
  let n := length (z_spec m) in
  list_eqb Nat.eqb (r_atoms r) (z_spec m)
  && forallb (fun b => bond_spec m (rb_i b) (rb_j b)) (r_bonds r)
  && forallb (fun b => existsb (fun rb => same_pair (rb_i rb) (rb_j rb) (sb_i b) (sb_j b)) (r_bonds r)) (explicit_bonds m)
  && forallb (fun b => Bool.eqb (rb_nonsingle b) (pi_spec m (rb_i b) (rb_j b))) (r_bonds r)
  && forallb (fun k => Bool.eqb (existsb (Nat.eqb k) (rdk_marks r)) (stereo_spec m k)) (seq 0 n)
  && forallb (fun k => k <? n) (rdk_marks r)
  && (r_charge r =? charge_spec m)%Z
  && (Z.of_nat (r_nrad r) mod 2 =? n_electrons false (s_atoms m) mod 2)%Z.
(* [wf; arom_consistent; rdk_agrees; build ok] *)
Definition hyp_flags (I : inputs) : list bool :=
  [wf_mol (mol I); arom_consistent_b (mol I); rdk_agrees_b (mol I) (rd I); bo_build_ok (bo I) || origin_keeps_class].
Definition hyp_check (I : inputs) (expected : list bool) : bool := list_eqb Bool.eqb (hyp_flags I) expected.
