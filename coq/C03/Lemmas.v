(* C03/Lemmas.v — lemmas and proofs for the C03 model.  No axioms: Qc, nat, lists. *)
From Coq Require Import ZArith QArith Qcanon List Bool Arith Lia Permutation Sorted.
From AV.lib Require Import QcInst.
From AV.C03 Require Import Vec.
From AV.gen Require Import C03_Gen.
From AV.C03 Require Import Model.
Import ListNotations.
Open Scope Qc_scope.

(* ================================================================== order on Qc *)
Lemma Qcleb_le a b : Qcleb a b = true <-> a <= b.
Proof. unfold Qcleb, Qcle. apply Qle_bool_iff. Qed.

Lemma Qcltb_lt a b : Qcltb a b = true <-> a < b.
Proof.
  unfold Qcltb, Qclt. rewrite negb_true_iff. split.
  - intros H. apply Qnot_le_lt. intros Hle. apply Qle_bool_iff in Hle. congruence.
  - intros H. destruct (Qle_bool (this b) (this a)) eqn:E; [|reflexivity].
    apply Qle_bool_iff in E. exfalso. apply (Qlt_not_le _ _ H). exact E.
Qed.

Lemma Qcleb_false_lt a b : Qcleb a b = false -> b < a.
Proof. intros H. apply Qcnot_le_lt. intros Hle. apply Qcleb_le in Hle. congruence. Qed.

Lemma Qcopp_nonneg_nonpos x : 0 <= - x -> x <= 0.
Proof.
  intros H. apply Qcopp_le_compat in H.
  replace (- - x) with x in H by ring. replace (- 0) with 0 in H by ring. exact H.
Qed.

Lemma Qcnonneg_le x : Qcnonneg x = true <-> 0 <= x.
Proof. unfold Qcnonneg, Qcle. apply Qle_bool_iff. Qed.

Lemma Qcabs_opp x : Qcabs (- x) = Qcabs x.
Proof.
  unfold Qcabs.
  destruct (Qcnonneg (- x)) eqn:E1; destruct (Qcnonneg x) eqn:E2.
  - apply Qcnonneg_le in E1, E2. apply Qcopp_nonneg_nonpos in E1.
    assert (x = 0) by (apply Qcle_antisym; assumption). subst. ring.
  - reflexivity.
  - ring.
  - exfalso.
    assert (H1 : ~ 0 <= - x) by (intros H; apply Qcnonneg_le in H; congruence).
    assert (H2 : ~ 0 <= x) by (intros H; apply Qcnonneg_le in H; congruence).
    apply Qcnot_le_lt in H2. apply H1. apply Qclt_le_weak in H2. apply Qcopp_le_compat in H2.
    replace (- 0) with 0 in H2 by ring. exact H2.
Qed.

Lemma Qc_sq_one x : x * x = 1 -> x = 1 \/ x = - (1).
Proof.
  intros H. assert (E : (x - 1) * (x + 1) = 0) by (replace ((x - 1) * (x + 1)) with (x * x - 1) by ring; rewrite H; ring).
  apply Qcmult_integral in E. destruct E as [E|E]; [left|right].
  - replace x with ((x - 1) + 1) by ring. rewrite E. ring.
  - replace x with ((x + 1) - 1) by ring. rewrite E. ring.
Qed.

Lemma Qcsq_nonneg x : 0 <= x * x.
Proof.
  destruct (Qclt_le_dec x 0) as [H|H].
  - replace (x * x) with ((- x) * (- x)) by ring.
    assert (0 <= - x).
    { apply Qclt_le_weak in H. apply Qcopp_le_compat in H. replace (- 0) with 0 in H by ring. exact H. }
    replace 0 with (0 * - x) by ring. apply Qcmult_le_compat_r; assumption.
  - replace 0 with (0 * x) by ring. apply Qcmult_le_compat_r; assumption.
Qed.

(* squared form of  s <= thr  for a non-negative s *)
Lemma sq_le_iff s thr : 0 <= s -> (0 <= thr /\ s * s <= thr * thr) <-> s <= thr.
Proof.
  intros Hs. split.
  - intros [Ht Hsq]. destruct (Qclt_le_dec thr s) as [Hlt|Hle]; [|exact Hle]. exfalso.
    assert (Hspos : 0 < s) by (apply (Qcle_lt_trans _ thr); assumption).
    assert (H1 : thr * thr <= thr * s).
    { rewrite (Qcmult_comm thr s). apply Qcmult_le_compat_r; [apply Qclt_le_weak; exact Hlt|exact Ht]. }
    assert (H2 : thr * s < s * s) by (apply Qcmult_lt_compat_r; assumption).
    apply (Qclt_not_le _ _ H2). apply (Qcle_trans _ (thr * thr)); assumption.
  - intros H. split; [apply (Qcle_trans _ s); assumption|].
    apply (Qcle_trans _ (s * thr)).
    + rewrite (Qcmult_comm s thr). apply Qcmult_le_compat_r; assumption.
    + apply Qcmult_le_compat_r; [exact H|apply (Qcle_trans _ s); assumption].
Qed.

(* ================================================================== 3-vector algebra *)
Ltac v3 := repeat match goal with R : M3 |- _ => destruct R end;
           repeat match goal with v : V3 |- _ => destruct v end;
           unfold rigid, dist2, det3, col1, col2, col3; unfold norm2, triple, mv3;
           unfold cross3, dot3, vsub3, vadd3, vneg3, vscal3;
           cbn [vx vy vz row1 row2 row3].

Lemma dot3_comm a b : dot3 a b = dot3 b a.
Proof. v3. ring. Qed.

Lemma mv3_vsub3 R a b : mv3 R (vsub3 a b) = vsub3 (mv3 R a) (mv3 R b).
Proof. v3. f_equal; ring. Qed.

Lemma mv3_vneg3 R a : mv3 R (vneg3 a) = vneg3 (mv3 R a).
Proof. v3. f_equal; ring. Qed.

Lemma rigid_diff R t p q : vsub3 (rigid R t p) (rigid R t q) = mv3 R (vsub3 p q).
Proof. v3. f_equal; ring. Qed.

Lemma dot3_mv3_expand R a b :
  dot3 (mv3 R a) (mv3 R b) =
    vx a * vx b * dot3 (col1 R) (col1 R) + vy a * vy b * dot3 (col2 R) (col2 R) +
    vz a * vz b * dot3 (col3 R) (col3 R) +
    (vx a * vy b + vy a * vx b) * dot3 (col1 R) (col2 R) +
    (vx a * vz b + vz a * vx b) * dot3 (col1 R) (col3 R) +
    (vy a * vz b + vz a * vy b) * dot3 (col2 R) (col3 R).
Proof. v3. ring. Qed.

(* R^T R = I  ==>  (R a).(R b) = a.b *)
Lemma dot3_orth R a b : orth R -> dot3 (mv3 R a) (mv3 R b) = dot3 a b.
Proof.
  intros (H11 & H22 & H33 & H12 & H13 & H23). rewrite dot3_mv3_expand.
  rewrite H11, H22, H33, H12, H13, H23. unfold dot3. ring.
Qed.

Lemma norm2_orth R a : orth R -> norm2 (mv3 R a) = norm2 a.
Proof. intros H. unfold norm2. apply dot3_orth; exact H. Qed.

(* det (R [a b c]) = det R det [a b c]   (any R) *)
Lemma triple_mv3 R a b c : triple (mv3 R a) (mv3 R b) (mv3 R c) = det3 R * triple a b c.
Proof. v3. ring. Qed.

Lemma det3_sq_gram R :
  det3 R * det3 R =
    dot3 (col1 R) (col1 R) * dot3 (col2 R) (col2 R) * dot3 (col3 R) (col3 R)
    + (1 + 1) * dot3 (col1 R) (col2 R) * dot3 (col1 R) (col3 R) * dot3 (col2 R) (col3 R)
    - dot3 (col1 R) (col1 R) * (dot3 (col2 R) (col3 R) * dot3 (col2 R) (col3 R))
    - dot3 (col2 R) (col2 R) * (dot3 (col1 R) (col3 R) * dot3 (col1 R) (col3 R))
    - dot3 (col3 R) (col3 R) * (dot3 (col1 R) (col2 R) * dot3 (col1 R) (col2 R)).
Proof. v3. ring. Qed.

Lemma orth_det R : orth R -> det3 R = 1 \/ det3 R = - (1).
Proof.
  intros (H11 & H22 & H33 & H12 & H13 & H23). apply Qc_sq_one. rewrite det3_sq_gram.
  rewrite H11, H22, H33, H12, H13, H23. ring.
Qed.

(* Lagrange / Binet-Cauchy *)
Lemma lagrange a b c e :
  dot3 (cross3 a b) (cross3 c e) = dot3 a c * dot3 b e - dot3 a e * dot3 b c.
Proof. v3. ring. Qed.

Lemma dot_cross_orth R a b c e : orth R ->
  dot3 (cross3 (mv3 R a) (mv3 R b)) (cross3 (mv3 R c) (mv3 R e)) = dot3 (cross3 a b) (cross3 c e).
Proof. intros H. rewrite !lagrange. rewrite !(dot3_orth R) by exact H. reflexivity. Qed.

Lemma norm2_cross_orth R a b : orth R -> norm2 (cross3 (mv3 R a) (mv3 R b)) = norm2 (cross3 a b).
Proof. intros H. unfold norm2. apply dot_cross_orth; exact H. Qed.

(* ((a x b) x b) . (c x e)  in invariants and triple products *)
Lemma sin_form a b c e :
  dot3 (cross3 (cross3 a b) b) (cross3 c e) = dot3 a b * triple c e b - dot3 b b * triple c e a.
Proof. v3. ring. Qed.

Lemma sin_orth R a b c e : orth R ->
  dot3 (cross3 (cross3 (mv3 R a) (mv3 R b)) (mv3 R b)) (cross3 (mv3 R c) (mv3 R e)) =
  det3 R * dot3 (cross3 (cross3 a b) b) (cross3 c e).
Proof.
  intros H. rewrite !sin_form. rewrite !triple_mv3. rewrite !(dot3_orth R) by exact H. ring.
Qed.

(* the dihedral sine numerator is |xy|^2 times the triple product of the three bond vectors *)
Lemma dihedral_sin_triple xw xy yz :
  dot3 (cross3 (cross3 xw xy) xy) (cross3 (vneg3 xy) yz) = norm2 xy * triple xw xy yz.
Proof. v3. ring. Qed.

Lemma dist2_sym p q : dist2 p q = dist2 q p.
Proof. v3. ring. Qed.

Lemma dist2_rigid R t p q : orth R -> dist2 (rigid R t p) (rigid R t q) = dist2 p q.
Proof. intros H. unfold dist2. rewrite rigid_diff. apply norm2_orth; exact H. Qed.

(* ================================================================== lists, sorting *)
Lemma insert_by_perm key x l : Permutation (insert_by key x l) (x :: l).
Proof.
  induction l as [|y r IH]; cbn [insert_by]; [apply Permutation_refl|].
  destruct (Qcleb (key x) (key y)); [apply Permutation_refl|].
  apply (Permutation_trans (l' := y :: x :: r)); [apply perm_skip; exact IH|apply perm_swap].
Qed.

Lemma sort_by_perm key l : Permutation (sort_by key l) l.
Proof.
  induction l as [|x r IH]; cbn [sort_by fold_right]; [apply Permutation_refl|].
  apply (Permutation_trans (insert_by_perm key x _)). apply perm_skip. exact IH.
Qed.

Lemma In_sort_by key l x : In x (sort_by key l) <-> In x l.
Proof.
  split; intros H.
  - apply (Permutation_in _ (sort_by_perm key l)); exact H.
  - apply (Permutation_in _ (Permutation_sym (sort_by_perm key l))); exact H.
Qed.

Definition key_le (key : nat -> Qc) (x y : nat) : Prop := key x <= key y.

Lemma insert_by_sorted key x l :
  StronglySorted (key_le key) l -> StronglySorted (key_le key) (insert_by key x l).
Proof.
  induction l as [|y r IH]; intros Hs; cbn [insert_by].
  - constructor; constructor.
  - inversion Hs as [|? ? Hr Hy]; subst.
    destruct (Qcleb (key x) (key y)) eqn:E.
    + apply Qcleb_le in E. constructor; [exact Hs|]. constructor; [exact E|].
      eapply Forall_impl; [|exact Hy]. intros z Hz. unfold key_le in *. apply (Qcle_trans _ (key y)); assumption.
    + apply Qcleb_false_lt in E. constructor; [apply IH; exact Hr|].
      apply (Permutation_Forall (Permutation_sym (insert_by_perm key x r))).
      constructor; [unfold key_le; apply Qclt_le_weak; exact E|exact Hy].
Qed.

Lemma sort_by_sorted key l : StronglySorted (key_le key) (sort_by key l).
Proof.
  induction l as [|x r IH]; cbn [sort_by fold_right]; [constructor|]. apply insert_by_sorted. exact IH.
Qed.

Lemma insert_idx_perm x l : Permutation (insert_idx x l) (x :: l).
Proof.
  induction l as [|y r IH]; cbn [insert_idx]; [apply Permutation_refl|].
  destruct (Nat.leb x y); [apply Permutation_refl|].
  apply (Permutation_trans (l' := y :: x :: r)); [apply perm_skip; exact IH|apply perm_swap].
Qed.

Lemma sort_idx_perm l : Permutation (sort_idx l) l.
Proof.
  induction l as [|x r IH]; cbn [sort_idx fold_right]; [apply Permutation_refl|].
  apply (Permutation_trans (insert_idx_perm x _)). apply perm_skip. exact IH.
Qed.

Lemma cap_order_perm key l : Permutation (cap_order key l) l.
Proof. unfold cap_order. apply (Permutation_trans (sort_by_perm key _)). apply sort_idx_perm. Qed.

Lemma In_cap_order key l x : In x (cap_order key l) <-> In x l.
Proof.
  split; intros H.
  - apply (Permutation_in _ (cap_order_perm key l)); exact H.
  - apply (Permutation_in _ (Permutation_sym (cap_order_perm key l))); exact H.
Qed.

Lemma cap_order_sorted key l : StronglySorted (key_le key) (cap_order key l).
Proof. unfold cap_order. apply sort_by_sorted. Qed.

(* ---- the cap order is lexicographic: by distance, equal distances by atom index ---- *)
Definition lex_le (key : nat -> Qc) (x y : nat) : Prop := key x < key y \/ (key x = key y /\ (x <= y)%nat).

Lemma insert_idx_sorted x l : StronglySorted le l -> StronglySorted le (insert_idx x l).
Proof.
  induction l as [|y r IH]; intros Hs; cbn [insert_idx]; [constructor; constructor|].
  inversion Hs as [|? ? Hr Hy]; subst. destruct (Nat.leb_spec x y) as [E|E].
  - constructor; [exact Hs|]. constructor; [exact E|]. eapply Forall_impl; [|exact Hy]. intros z Hz. lia.
  - constructor; [apply IH; exact Hr|].
    apply (Permutation_Forall (Permutation_sym (insert_idx_perm x r))). constructor; [lia|exact Hy].
Qed.

Lemma sort_idx_sorted l : StronglySorted le (sort_idx l).
Proof. induction l as [|x r IH]; cbn [sort_idx fold_right]; [constructor|]. apply insert_idx_sorted, IH. Qed.

Lemma insert_by_lex key x l : Forall (fun y => (x <= y)%nat) l ->
  StronglySorted (lex_le key) l -> StronglySorted (lex_le key) (insert_by key x l).
Proof.
  induction l as [|y r IH]; intros Hx Hs; cbn [insert_by]; [constructor; constructor|].
  inversion Hs as [|? ? Hr Hy]; subst. inversion Hx as [|? ? Hxy Hxr]; subst.
  destruct (Qcleb (key x) (key y)) eqn:E.
  - apply Qcleb_le in E. constructor; [exact Hs|].
    assert (Lxy : lex_le key x y).
    { destruct (Qcle_lt_or_eq _ _ E) as [L|L]; [left; exact L|right; split; [exact L|exact Hxy]]. }
    constructor; [exact Lxy|]. rewrite Forall_forall in *. intros z Hz. specialize (Hy z Hz). specialize (Hxr z Hz).
    destruct Lxy as [L|[L1 L2]], Hy as [M|[M1 M2]].
    + left. apply (Qclt_trans _ (key y)); assumption.
    + left. rewrite <- M1. exact L.
    + left. rewrite L1. exact M.
    + right. split; [congruence|exact Hxr].
  - apply Qcleb_false_lt in E. constructor; [apply IH; assumption|].
    apply (Permutation_Forall (Permutation_sym (insert_by_perm key x r))).
    constructor; [left; exact E|exact Hy].
Qed.

Lemma sort_by_lex key l : StronglySorted le l -> StronglySorted (lex_le key) (sort_by key l).
Proof.
  induction l as [|x r IH]; intros Hs; cbn [sort_by fold_right]; [constructor|].
  inversion Hs as [|? ? Hr Hx]; subst. apply insert_by_lex; [|apply IH; exact Hr].
  apply (Permutation_Forall (Permutation_sym (sort_by_perm key r))). exact Hx.
Qed.

Lemma cap_order_lex key l : StronglySorted (lex_le key) (cap_order key l).
Proof. unfold cap_order. apply sort_by_lex, sort_idx_sorted. Qed.

Lemma sorted_firstn_skipn {A} (R : A -> A -> Prop) l :
  StronglySorted R l -> forall m x y, In x (firstn m l) -> In y (skipn m l) -> R x y.
Proof.
  induction 1 as [|a l Hs IH Ha]; intros m x y Hx Hy.
  - destruct m; cbn in Hx; contradiction.
  - destruct m as [|m]; cbn [firstn skipn] in Hx, Hy; [contradiction|].
    destruct Hx as [<-|Hx].
    + rewrite Forall_forall in Ha. apply Ha. rewrite <- (firstn_skipn m l). apply in_or_app. right. exact Hy.
    + eapply IH; eassumption.
Qed.

Lemma perm_filter_length {A} (p : A -> bool) l l' :
  Permutation l l' -> length (filter p l) = length (filter p l').
Proof.
  induction 1 as [|x l l' _ IH|x y l|l l' l'' _ IH1 _ IH2]; cbn [filter].
  - reflexivity.
  - destruct (p x); cbn [length]; congruence.
  - destruct (p x), (p y); reflexivity.
  - congruence.
Qed.

Lemma filter_ext' {A} (p q : A -> bool) l : (forall x, p x = q x) -> filter p l = filter q l.
Proof. intros H. induction l as [|x l IH]; cbn [filter]; [reflexivity|]. rewrite H, IH. reflexivity. Qed.

Lemma filter_filter' {A} (p q : A -> bool) l : filter q (filter p l) = filter (fun x => p x && q x) l.
Proof.
  induction l as [|x l IH]; cbn [filter]; [reflexivity|].
  destruct (p x); cbn [filter andb]; [destruct (q x)|]; rewrite IH; reflexivity.
Qed.

Lemma filter_len_le {A} (p : A -> bool) l : (length (filter p l) <= length l)%nat.
Proof. induction l as [|x l IH]; cbn [filter length]; [lia|]. destruct (p x); cbn [length]; lia. Qed.

Lemma filter_true {A} (l : list A) : filter (fun _ => true) l = l.
Proof. induction l as [|x l IH]; cbn [filter]; congruence. Qed.

Lemma existsb_ext' {A} (p q : A -> bool) l : (forall x, p x = q x) -> existsb p l = existsb q l.
Proof. intros H. induction l as [|x l IH]; cbn [existsb]; [reflexivity|]. rewrite H, IH. reflexivity. Qed.

Lemma existsb_eqb_In k L : existsb (Nat.eqb k) L = true <-> In k L.
Proof.
  rewrite existsb_exists. split.
  - intros (x & Hx & E). apply Nat.eqb_eq in E. subst. exact Hx.
  - intros H. exists k. split; [exact H|apply Nat.eqb_refl].
Qed.

Lemma bool_iff_eq (b1 b2 : bool) : (b1 = true <-> b2 = true) -> b1 = b2.
Proof. destruct b1, b2; intros [H1 H2]; try reflexivity; [symmetry; apply H1|apply H2]; reflexivity. Qed.

Lemma NoDup_map_inj_on {A B} (f : A -> B) l :
  (forall x y, In x l -> In y l -> f x = f y -> x = y) -> NoDup l -> NoDup (map f l).
Proof.
  induction l as [|a l IH]; intros Hinj Hnd; cbn [map]; [constructor|].
  inversion Hnd as [|? ? Hn Hl]; subst. constructor.
  - intros Hin. apply in_map_iff in Hin. destruct Hin as (y & E & Hy).
    assert (y = a) by (apply Hinj; [right; exact Hy|left; reflexivity|exact E]). subst. contradiction.
  - apply IH; [|exact Hl]. intros x y Hx Hy. apply Hinj; right; assumption.
Qed.

Lemma NoDup_snoc {A} (l : list A) x : NoDup l -> ~ In x l -> NoDup (l ++ [x]).
Proof.
  intros Hl Hx. apply (Permutation_NoDup (l := x :: l)); [apply Permutation_cons_append|].
  constructor; assumption.
Qed.

(* ================================================================== graphs: basic facts *)
Lemma eqe_sym a b e : eqe a b e = eqe b a e.
Proof. unfold eqe. apply orb_comm. Qed.

Lemma eqe_true a b e : eqe a b e = true <-> (fst e = a /\ snd e = b) \/ (fst e = b /\ snd e = a).
Proof. unfold eqe. rewrite orb_true_iff, !andb_true_iff, !Nat.eqb_eq. reflexivity. Qed.

Lemma has_edge_sym g a b : has_edge g a b = has_edge g b a.
Proof. unfold has_edge. apply existsb_ext'. intros e. apply eqe_sym. Qed.

Lemma has_edge_app g h a b : has_edge (g ++ h) a b = has_edge g a b || has_edge h a b.
Proof. unfold has_edge. apply existsb_app. Qed.

Lemma neighbours_app g h v : neighbours (g ++ h) v = neighbours g v ++ neighbours h v.
Proof. unfold neighbours. apply flat_map_app. Qed.

Lemma In_nb_of a b e : In b (nb_of a e) <-> eqe a b e = true.
Proof.
  rewrite eqe_true. destruct e as [x y]. unfold nb_of. cbn [fst snd].
  destruct (Nat.eqb_spec x a) as [E1|E1]; [|destruct (Nat.eqb_spec y a) as [E2|E2]]; cbn [In].
  - split; [intros [H|[]]; left; split; congruence|].
    intros [[_ H]|[H1 H2]]; left; congruence.
  - split; [intros [H|[]]; right; split; congruence|].
    intros [[H _]|[H _]]; [contradiction|left; exact H].
  - split; [intros []|]. intros [[H _]|[_ H]]; contradiction.
Qed.

Lemma has_edge_In g a b : has_edge g a b = true <-> In b (neighbours g a).
Proof.
  unfold has_edge, neighbours. rewrite existsb_exists, in_flat_map.
  split; intros (e & He & H); exists e; (split; [exact He|]); apply In_nb_of; exact H.
Qed.

Lemma has_edge_filter_sub p g a b : has_edge (filter p g) a b = true -> has_edge g a b = true.
Proof.
  unfold has_edge. rewrite !existsb_exists. intros (e & He & H). apply filter_In in He.
  exists e. split; [apply He|exact H].
Qed.

Lemma has_edge_filter_removed p g a b :
  has_edge g a b = true -> has_edge (filter p g) a b = false ->
  exists e, In e g /\ eqe a b e = true /\ p e = false.
Proof.
  unfold has_edge. rewrite existsb_exists. intros (e & He & H) Hf. exists e. split; [exact He|]. split; [exact H|].
  destruct (p e) eqn:P; [|reflexivity]. exfalso.
  assert (existsb (eqe a b) (filter p g) = true).
  { apply existsb_exists. exists e. split; [apply filter_In; split; assumption|exact H]. }
  congruence.
Qed.

Lemma neighbours_filter_length p g v :
  (length (neighbours (filter p g) v) <= length (neighbours g v))%nat.
Proof.
  induction g as [|e g IH]; cbn [filter neighbours flat_map]; [lia|].
  fold (neighbours g v). destruct (p e); cbn [neighbours flat_map]; fold (neighbours (filter p g) v);
    rewrite ?app_length; lia.
Qed.

(* ================================================================== make_graph *)
Lemma has_edge_add_bond bond i g j a b :
  has_edge (add_bond bond i g j) a b = true <->
  has_edge g a b = true \/
  (i <> j /\ bond i j = true /\ ((i = a /\ j = b) \/ (i = b /\ j = a))).
Proof.
  unfold add_bond. destruct (Nat.eqb_spec i j) as [E|E].
  - split; [auto|]. intros [H|[H _]]; [exact H|contradiction].
  - destruct (bond i j) eqn:B; cbn [andb].
    + destruct (has_edge g i j) eqn:Hg; cbn [negb].
      * split; [auto|]. intros [H|(_ & _ & [[<- <-]|[<- <-]])]; [exact H|exact Hg|].
        rewrite has_edge_sym. exact Hg.
      * rewrite has_edge_app, orb_true_iff. unfold has_edge at 2. cbn [existsb]. rewrite orb_false_r.
        rewrite eqe_true. cbn [fst snd]. split; (intros [H|H]; [left; exact H|right]).
        -- split; [exact E|]. split; [reflexivity|exact H].
        -- destruct H as (_ & _ & H). exact H.
    + split; [auto|]. intros [H|(_ & H & _)]; [exact H|discriminate].
Qed.

Lemma has_edge_inner bond i L : forall g a b,
  has_edge (fold_left (add_bond bond i) L g) a b = true <->
  has_edge g a b = true \/
  exists j, In j L /\ i <> j /\ bond i j = true /\ ((i = a /\ j = b) \/ (i = b /\ j = a)).
Proof.
  induction L as [|j L IH]; intros g a b; cbn [fold_left].
  - split; [auto|]. intros [H|(j & [] & _)]. exact H.
  - rewrite IH, has_edge_add_bond. split.
    + intros [[H|H]|(j' & Hj & H)]; [left; exact H|right; exists j; split; [left; reflexivity|exact H]|].
      right. exists j'. split; [right; exact Hj|exact H].
    + intros [H|(j' & [<-|Hj] & H)]; [left; left; exact H|left; right; exact H|].
      right. exists j'. split; assumption.
Qed.

Lemma has_edge_outer bond (ord : nat -> list nat) I : forall g a b,
  has_edge (fold_left (fun g i => fold_left (add_bond bond i) (ord i) g) I g) a b = true <->
  has_edge g a b = true \/
  exists i j, In i I /\ In j (ord i) /\ i <> j /\ bond i j = true /\ ((i = a /\ j = b) \/ (i = b /\ j = a)).
Proof.
  induction I as [|i I IH]; intros g a b; cbn [fold_left].
  - split; [auto|]. intros [H|(i & j & [] & _)]. exact H.
  - rewrite IH, has_edge_inner. split.
    + intros [[H|(j & Hj & H)]|(i' & j & Hi & H)].
      * left; exact H.
      * right. exists i, j. split; [left; reflexivity|]. split; assumption.
      * right. exists i', j. split; [right; exact Hi|exact H].
    + intros [H|(i' & j & [<-|Hi] & H)].
      * left; left; exact H.
      * left; right. exists j. exact H.
      * right. exists i', j. split; assumption.
Qed.

(* the perceived edge set before the valence cap: a pair is an edge iff it passes the distance
   test in one of the two orders the double loop visits it *)
Lemma has_edge_make_graph n d bond a b :
  has_edge (make_graph n d bond) a b = true <->
  (a < n)%nat /\ (b < n)%nat /\ a <> b /\ (bond a b = true \/ bond b a = true).
Proof.
  unfold make_graph. rewrite has_edge_outer. cbn [has_edge existsb]. split.
  - intros [H|(i & j & Hi & Hj & Hne & Hb & H)]; [discriminate|].
    apply In_sort_by in Hj. apply in_seq in Hi, Hj.
    destruct H as [[<- <-]|[<- <-]]; repeat split; try lia; auto.
  - intros (Ha & Hb & Hne & [H|H]); right.
    + exists a, b. split; [apply in_seq; lia|]. split; [apply In_sort_by, in_seq; lia|]. auto.
    + exists b, a. split; [apply in_seq; lia|]. split; [apply In_sort_by, in_seq; lia|]. auto.
Qed.

(* simple graphs: no atom lists a neighbour twice *)
Definition simple (g : graph) : Prop := forall v, NoDup (neighbours g v).

Lemma simple_add_bond bond i g j : simple g -> simple (add_bond bond i g j).
Proof.
  intros Hs. unfold add_bond. destruct (Nat.eqb_spec i j) as [E|E]; [exact Hs|].
  destruct (bond i j); cbn [andb]; [|exact Hs].
  destruct (has_edge g i j) eqn:Hg; cbn [negb]; [exact Hs|].
  intros v. rewrite neighbours_app. unfold neighbours at 2. cbn [flat_map]. rewrite app_nil_r.
  unfold nb_of. cbn [fst snd].
  destruct (Nat.eqb_spec i v) as [E1|E1]; [|destruct (Nat.eqb_spec j v) as [E2|E2]].
  - subst v. apply NoDup_snoc; [apply Hs|]. intros H. apply has_edge_In in H. congruence.
  - subst v. apply NoDup_snoc; [apply Hs|]. intros H. apply has_edge_In in H.
    rewrite has_edge_sym in H. congruence.
  - rewrite app_nil_r. apply Hs.
Qed.

Lemma simple_make_graph n d bond : simple (make_graph n d bond).
Proof.
  unfold make_graph.
  assert (Hin : forall i L g, simple g -> simple (fold_left (add_bond bond i) L g)).
  { intros i L. induction L as [|j L IH]; intros g Hg; cbn [fold_left]; [exact Hg|].
    apply IH. apply simple_add_bond. exact Hg. }
  assert (Hout : forall I g, simple g ->
            simple (fold_left (fun g i => fold_left (add_bond bond i) (sort_by (d i) (seq 0 n)) g) I g)).
  { intros I. induction I as [|i I IH]; intros g Hg; cbn [fold_left]; [exact Hg|]. apply IH, Hin, Hg. }
  apply Hout. intros v. constructor.
Qed.

(* ================================================================== the valence cap *)
Definition rm_many (i : nat) (L : list nat) (g : graph) : graph :=
  filter (fun e => negb (existsb (fun j => eqe i j e) L)) g.

Lemma fold_remove_edge i L : forall g, fold_left (fun g j => remove_edge g i j) L g = rm_many i L g.
Proof.
  induction L as [|j L IH]; intros g; cbn [fold_left].
  - unfold rm_many. cbn [existsb negb]. symmetry. apply filter_true.
  - rewrite IH. unfold rm_many, remove_edge. rewrite filter_filter'. apply filter_ext'.
    intros e. cbn [existsb]. rewrite negb_orb. reflexivity.
Qed.

Lemma eqe_at_fst i y j : eqe i j (i, y) = Nat.eqb y j.
Proof.
  unfold eqe. cbn [fst snd]. rewrite Nat.eqb_refl. cbn [andb].
  destruct (Nat.eqb_spec y j) as [E|E]; [reflexivity|]. cbn [orb].
  destruct (Nat.eqb_spec i j), (Nat.eqb_spec y i); cbn [andb]; try reflexivity. exfalso. congruence.
Qed.

Lemma eqe_at_snd i x j : x <> i -> eqe i j (x, i) = Nat.eqb x j.
Proof.
  intros H. unfold eqe. cbn [fst snd]. rewrite Nat.eqb_refl, andb_true_r.
  destruct (Nat.eqb_spec x i); [contradiction|]. reflexivity.
Qed.

Lemma neighbours_rm_many i L g :
  neighbours (rm_many i L g) i = filter (fun k => negb (existsb (Nat.eqb k) L)) (neighbours g i).
Proof.
  unfold rm_many. induction g as [|e g IH]; [reflexivity|].
  cbn [filter neighbours flat_map]. fold (neighbours g i).
  destruct e as [x y]. unfold nb_of at 2. cbn [fst snd].
  destruct (Nat.eqb_spec x i) as [E1|E1]; [subst x|destruct (Nat.eqb_spec y i) as [E2|E2]; [subst y|]].
  - rewrite (existsb_ext' (fun j => eqe i j (i, y)) (Nat.eqb y)) by (intros j; apply eqe_at_fst).
    cbn [app filter]. destruct (existsb (Nat.eqb y) L); cbn [negb].
    + exact IH.
    + cbn [neighbours flat_map]. unfold nb_of at 1. cbn [fst snd]. rewrite Nat.eqb_refl. cbn [app].
      f_equal. exact IH.
  - rewrite (existsb_ext' (fun j => eqe i j (x, i)) (Nat.eqb x)) by (intros j; apply eqe_at_snd; exact E1).
    cbn [app filter]. destruct (existsb (Nat.eqb x) L); cbn [negb].
    + exact IH.
    + cbn [neighbours flat_map]. unfold nb_of at 1. cbn [fst snd].
      destruct (Nat.eqb_spec x i); [contradiction|]. rewrite Nat.eqb_refl. cbn [app]. f_equal. exact IH.
  - cbn [app]. destruct (negb (existsb (fun j => eqe i j (x, y)) L)); [|exact IH].
    cbn [neighbours flat_map]. unfold nb_of at 1. cbn [fst snd].
    destruct (Nat.eqb_spec x i); [contradiction|]. destruct (Nat.eqb_spec y i); [contradiction|]. exact IH.
Qed.

Lemma prune_node_cases d mv g i :
  (prune_node d mv g i = g /\ (degree g i <= mv i)%nat) \/
  (prune_node d mv g i = rm_many i (skipn (mv i) (cap_order (d i) (neighbours g i))) g /\ (mv i < degree g i)%nat).
Proof.
  unfold prune_node, degree. destruct (Nat.leb_spec (length (neighbours g i)) (mv i)) as [H|H].
  - left. split; [reflexivity|exact H].
  - right. split; [apply fold_remove_edge|exact H].
Qed.

Lemma degree_prune_node_self d mv g i : (degree (prune_node d mv g i) i <= mv i)%nat.
Proof.
  destruct (prune_node_cases d mv g i) as [[-> H]|[-> H]]; [exact H|].
  unfold degree. rewrite neighbours_rm_many.
  set (nb := neighbours g i). set (srt := cap_order (d i) nb). set (L := skipn (mv i) srt).
  set (p := fun k => negb (existsb (Nat.eqb k) L)).
  rewrite (perm_filter_length p nb srt) by (apply Permutation_sym, cap_order_perm).
  rewrite <- (firstn_skipn (mv i) srt). fold L. rewrite filter_app, app_length.
  assert (E : filter p L = []).
  { assert (G : forall M, (forall x, In x M -> In x L) -> filter p M = []).
    { induction M as [|x M IHM]; intros HM; [reflexivity|]. cbn [filter]. unfold p at 1.
      assert (Hx : existsb (Nat.eqb x) L = true) by (apply existsb_eqb_In, HM; left; reflexivity).
      rewrite Hx. cbn [negb]. apply IHM. intros y Hy. apply HM. right. exact Hy. }
    apply G. auto. }
  rewrite E. cbn [length]. rewrite Nat.add_0_r.
  apply (Nat.le_trans _ (length (firstn (mv i) srt))); [apply filter_len_le|apply firstn_le_length].
Qed.

Lemma prune_node_is_filter d mv g i : exists p, prune_node d mv g i = filter p g.
Proof.
  destruct (prune_node_cases d mv g i) as [[-> _]|[-> _]].
  - exists (fun _ => true). symmetry. apply filter_true.
  - eexists. reflexivity.
Qed.

Lemma degree_prune_node_mono d mv g i v : (degree (prune_node d mv g i) v <= degree g v)%nat.
Proof. destruct (prune_node_is_filter d mv g i) as [p ->]. apply neighbours_filter_length. Qed.

Lemma has_edge_prune_node_sub d mv g i a b :
  has_edge (prune_node d mv g i) a b = true -> has_edge g a b = true.
Proof. destruct (prune_node_is_filter d mv g i) as [p ->]. apply has_edge_filter_sub. Qed.

Lemma prune_upto_S d mv m g : prune_upto d mv (S m) g = prune_node d mv (prune_upto d mv m g) m.
Proof. unfold prune_upto. rewrite seq_S, fold_left_app. reflexivity. Qed.

Lemma degree_prune_upto_mono d mv m g v : (degree (prune_upto d mv m g) v <= degree g v)%nat.
Proof.
  induction m as [|m IH]; [apply Nat.le_refl|]. rewrite prune_upto_S.
  apply (Nat.le_trans _ _ _ (degree_prune_node_mono _ _ _ _ _) IH).
Qed.

Lemma has_edge_prune_upto_sub d mv m g a b :
  has_edge (prune_upto d mv m g) a b = true -> has_edge g a b = true.
Proof.
  induction m as [|m IH]; [auto|]. rewrite prune_upto_S. intros H. apply IH.
  apply has_edge_prune_node_sub in H. exact H.
Qed.

(* no atom exceeds its maximal valence after the cap - for EVERY graph *)
Lemma valence_cap_upto d mv m g v : (v < m)%nat -> (degree (prune_upto d mv m g) v <= mv v)%nat.
Proof.
  induction m as [|m IH]; intros Hv; [lia|]. rewrite prune_upto_S.
  destruct (Nat.eq_dec v m) as [->|Hne]; [apply degree_prune_node_self|].
  apply (Nat.le_trans _ _ _ (degree_prune_node_mono _ _ _ _ _)). apply IH. lia.
Qed.

(* an edge removed while atom i is treated: i is over-coordinated, the edge is at i, and every
   neighbour i keeps is at most as far as the removed one *)
Lemma prune_node_removed d mv g i a b :
  has_edge g a b = true -> has_edge (prune_node d mv g i) a b = false ->
  (mv i < degree g i)%nat /\
  exists j, ((i = a /\ j = b) \/ (i = b /\ j = a)) /\
    has_edge g i j = true /\ has_edge (prune_node d mv g i) i j = false /\
    forall k, has_edge (prune_node d mv g i) i k = true -> d i k <= d i j.
Proof.
  intros Hg Hp. destruct (prune_node_cases d mv g i) as [[E H]|[E H]]; [rewrite E in Hp; congruence|].
  split; [exact H|]. rewrite E in *.
  set (L := skipn (mv i) (cap_order (d i) (neighbours g i))) in *.
  destruct (has_edge_filter_removed _ _ _ _ Hg Hp) as (e & He & Hab & Hrm).
  apply negb_false_iff, existsb_exists in Hrm. destruct Hrm as (j & Hj & Hij).
  assert (Hrest : has_edge g i j = true /\ has_edge (rm_many i L g) i j = false /\
                  forall k, has_edge (rm_many i L g) i k = true -> d i k <= d i j).
  { split; [|split].
    - unfold has_edge. apply existsb_exists. exists e. split; assumption.
    - destruct (has_edge (rm_many i L g) i j) eqn:X; [|reflexivity]. exfalso.
      apply has_edge_In in X. rewrite neighbours_rm_many in X. apply filter_In in X.
      destruct X as [_ X]. apply negb_true_iff in X.
      assert (existsb (Nat.eqb j) L = true) by (apply existsb_eqb_In; exact Hj). congruence.
    - intros k Hk. apply has_edge_In in Hk. rewrite neighbours_rm_many in Hk. apply filter_In in Hk.
      destruct Hk as [Hk1 Hk2]. apply negb_true_iff in Hk2.
      assert (HkL : ~ In k L) by (intros X; apply existsb_eqb_In in X; congruence).
      assert (Hks : In k (cap_order (d i) (neighbours g i))) by (apply In_cap_order; exact Hk1).
      rewrite <- (firstn_skipn (mv i) (cap_order (d i) (neighbours g i))) in Hks.
      apply in_app_or in Hks. destruct Hks as [Hks|Hks]; [|contradiction].
      exact (sorted_firstn_skipn (key_le (d i)) _ (cap_order_sorted (d i) _) (mv i) k j Hks Hj). }
  apply eqe_true in Hab, Hij. exists j. split; [|exact Hrest].
  destruct Hab as [[A1 A2]|[A1 A2]], Hij as [[B1 B2]|[B1 B2]]; [left|right|right|left]; split; congruence.
Qed.

(* equally long bonds at an over-coordinated atom are removed in atom-index order (/repo 3e32450): a kept
   neighbour at the same distance as a removed one has the smaller index *)
Lemma prune_node_ties_by_index d mv g i j k :
  has_edge g i j = true -> has_edge (prune_node d mv g i) i j = false ->
  has_edge (prune_node d mv g i) i k = true -> d i k = d i j -> (k < j)%nat.
Proof.
  intros Hg Hp Hk Heq. destruct (prune_node_cases d mv g i) as [[E H]|[E H]]; [rewrite E in Hp; congruence|].
  rewrite E in *. set (L := skipn (mv i) (cap_order (d i) (neighbours g i))) in *.
  assert (Hj : In j L).
  { apply has_edge_In in Hg. destruct (existsb (Nat.eqb j) L) eqn:X; [apply existsb_eqb_In; exact X|]. exfalso.
    assert (Y : has_edge (rm_many i L g) i j = true).
    { apply has_edge_In. rewrite neighbours_rm_many. apply filter_In. split; [exact Hg|rewrite X; reflexivity]. }
    congruence. }
  apply has_edge_In in Hk. rewrite neighbours_rm_many in Hk. apply filter_In in Hk. destruct Hk as [Hk1 Hk2].
  apply negb_true_iff in Hk2. assert (HkL : ~ In k L) by (intros X; apply existsb_eqb_In in X; congruence).
  assert (Hks : In k (cap_order (d i) (neighbours g i))) by (apply In_cap_order; exact Hk1).
  rewrite <- (firstn_skipn (mv i) (cap_order (d i) (neighbours g i))) in Hks.
  apply in_app_or in Hks. destruct Hks as [Hks|Hks]; [|contradiction].
  pose proof (sorted_firstn_skipn (lex_le (d i)) _ (cap_order_lex (d i) _) (mv i) k j Hks Hj) as [Lt|[_ Le]].
  - rewrite Heq in Lt. exfalso. apply (Qclt_not_eq _ _ Lt). reflexivity.
  - destruct (Nat.eq_dec k j) as [->|Ne]; [contradiction|lia].
Qed.

(* every bond of g that the cap removed was removed at one of its two atoms, as above *)
Lemma prune_upto_removed d mv m g a b :
  has_edge g a b = true -> has_edge (prune_upto d mv m g) a b = false ->
  exists i, (i < m)%nat /\
    let g' := prune_upto d mv i g in
    (mv i < degree g' i)%nat /\
    exists j, ((i = a /\ j = b) \/ (i = b /\ j = a)) /\
      has_edge g' i j = true /\ has_edge (prune_node d mv g' i) i j = false /\
      forall k, has_edge (prune_node d mv g' i) i k = true -> d i k <= d i j.
Proof.
  induction m as [|m IH]; intros Hg Hp; [unfold prune_upto in Hp; cbn [seq fold_left] in Hp; congruence|].
  destruct (has_edge (prune_upto d mv m g) a b) eqn:Hm.
  - exists m. split; [lia|]. rewrite prune_upto_S in Hp. cbv zeta.
    exact (prune_node_removed d mv _ m a b Hm Hp).
  - destruct (IH Hg eq_refl) as (i & Hi & H). exists i. split; [lia|exact H].
Qed.

(* without over-coordinated atoms the cap changes nothing *)
Lemma prune_upto_id d mv g m : (forall v, (v < m)%nat -> (degree g v <= mv v)%nat) -> prune_upto d mv m g = g.
Proof.
  induction m as [|m IH]; intros H; [reflexivity|]. rewrite prune_upto_S, IH by (intros v Hv; apply H; lia).
  unfold prune_node. fold (degree g m). destruct (Nat.leb_spec (degree g m) (mv m)) as [_|X]; [reflexivity|].
  specialize (H m (Nat.lt_succ_diag_r m)). lia.
Qed.

(* ================================================================== relabelling *)
Section Perm.
  Variable n : nat.
  Variables d d' : nat -> nat -> Qc.
  Variables bond bond' : nat -> nat -> bool.
  Variables s t : nat -> nat.
  Hypothesis s_lt : forall i, (i < n)%nat -> (s i < n)%nat.
  Hypothesis t_lt : forall i, (i < n)%nat -> (t i < n)%nat.
  Hypothesis ts : forall i, (i < n)%nat -> t (s i) = i.
  Hypothesis st : forall i, (i < n)%nat -> s (t i) = i.
  Hypothesis bond_s : forall i j, (i < n)%nat -> (j < n)%nat -> bond' (s i) (s j) = bond i j.

  Lemma s_inj i j : (i < n)%nat -> (j < n)%nat -> s i = s j -> i = j.
  Proof using All. intros Hi Hj E. rewrite <- (ts i Hi), <- (ts j Hj), E. reflexivity. Qed.

  Lemma edges_perm a b : (a < n)%nat -> (b < n)%nat ->
    has_edge (make_graph n d' bond') (s a) (s b) = has_edge (make_graph n d bond) a b.
  Proof using All.
    intros Ha Hb. apply bool_iff_eq. rewrite !has_edge_make_graph.
    rewrite !bond_s by assumption. split.
    - intros (_ & _ & Hne & H). repeat split; try assumption. intros E. apply Hne. congruence.
    - intros (_ & _ & Hne & H). repeat split; auto. intros E. apply Hne. apply s_inj; assumption.
  Qed.

  Lemma degree_perm_le v : (v < n)%nat ->
    (degree (make_graph n d bond) v <= degree (make_graph n d' bond') (s v))%nat.
  Proof using All.
    intros Hv. unfold degree. rewrite <- (map_length s (neighbours (make_graph n d bond) v)).
    assert (Hlt : forall u, In u (neighbours (make_graph n d bond) v) -> (u < n)%nat).
    { intros u Hu. apply has_edge_In, has_edge_make_graph in Hu. tauto. }
    apply NoDup_incl_length.
    - apply NoDup_map_inj_on; [|apply simple_make_graph]. intros x y Hx Hy. apply s_inj; auto.
    - intros u' Hu'. apply in_map_iff in Hu'. destruct Hu' as (u & <- & Hu).
      apply has_edge_In. rewrite edges_perm by auto. apply has_edge_In. exact Hu.
  Qed.
End Perm.

Lemma degree_perm n d d' bond bond' s t :
  (forall i, (i < n)%nat -> (s i < n)%nat) -> (forall i, (i < n)%nat -> (t i < n)%nat) ->
  (forall i, (i < n)%nat -> t (s i) = i) -> (forall i, (i < n)%nat -> s (t i) = i) ->
  (forall i j, (i < n)%nat -> (j < n)%nat -> bond' (s i) (s j) = bond i j) ->
  forall v, (v < n)%nat -> degree (make_graph n d' bond') (s v) = degree (make_graph n d bond) v.
Proof.
  intros Hs Ht Hts Hst Hb v Hv. apply Nat.le_antisymm.
  - pose proof (degree_perm_le n d' d bond' bond t s Ht Hs Hst Hts) as H.
    rewrite <- (Hts v Hv) at 2. apply H; [|apply Hs; exact Hv].
    intros i j Hi Hj. rewrite <- (Hb (t i) (t j)) by auto. rewrite !Hst by assumption. reflexivity.
  - apply (degree_perm_le n d d' bond bond' s t); assumption.
Qed.

(* whole perceived graph (after the cap) is carried along by a relabelling when no atom is
   over-coordinated *)
Lemma perceived_perm n d d' bond bond' mv mv' s t :
  (forall i, (i < n)%nat -> (s i < n)%nat) -> (forall i, (i < n)%nat -> (t i < n)%nat) ->
  (forall i, (i < n)%nat -> t (s i) = i) -> (forall i, (i < n)%nat -> s (t i) = i) ->
  (forall i j, (i < n)%nat -> (j < n)%nat -> bond' (s i) (s j) = bond i j) ->
  (forall i, (i < n)%nat -> mv' (s i) = mv i) ->
  (forall v, (v < n)%nat -> (degree (make_graph n d bond) v <= mv v)%nat) ->
  prune n d mv (make_graph n d bond) = make_graph n d bond /\
  prune n d' mv' (make_graph n d' bond') = make_graph n d' bond' /\
  forall a b, (a < n)%nat -> (b < n)%nat ->
    has_edge (prune n d' mv' (make_graph n d' bond')) (s a) (s b) =
    has_edge (prune n d mv (make_graph n d bond)) a b.
Proof.
  intros Hs Ht Hts Hst Hb Hmv Hno.
  assert (E1 : prune n d mv (make_graph n d bond) = make_graph n d bond) by (apply prune_upto_id; exact Hno).
  assert (E2 : prune n d' mv' (make_graph n d' bond') = make_graph n d' bond').
  { apply prune_upto_id. intros v' Hv'. rewrite <- (Hst v' Hv').
    rewrite (degree_perm n d d' bond bond' s t) by auto. rewrite Hmv by auto. apply Hno. auto. }
  split; [exact E1|]. split; [exact E2|]. intros a b Ha Hb'. rewrite E1, E2.
  apply (edges_perm n d d' bond bond' s t); assumption.
Qed.

(* ================================================================== structures: distance matrix *)
Lemma dm_dmat ps i j : (i < length ps)%nat -> (j < length ps)%nat ->
  dm (dmat ps) i j = dist2 (nth i ps vzero) (nth j ps vzero).
Proof.
  intros Hi Hj. unfold dm, dmat.
  rewrite (nth_indep _ [] ((fun p => map (dist2 p) ps) vzero)) by (rewrite map_length; exact Hi).
  rewrite (map_nth (fun p => map (dist2 p) ps)).
  rewrite (nth_indep _ 0 (dist2 (nth i ps vzero) vzero)) by (rewrite map_length; exact Hj).
  rewrite (map_nth (dist2 (nth i ps vzero))). reflexivity.
Qed.

(* the distance matrix does not change under p |-> R p + t with R^T R = I (rotation or reflection) *)
Lemma dmat_rigid R t ps : orth R -> dmat (map (rigid R t) ps) = dmat ps.
Proof.
  intros H. unfold dmat. rewrite map_map. apply map_ext. intros p. rewrite map_map.
  apply map_ext. intros q. apply dist2_rigid. exact H.
Qed.

Lemma dm_dmat_sym ps i j : (i < length ps)%nat -> (j < length ps)%nat -> dm (dmat ps) i j = dm (dmat ps) j i.
Proof. intros Hi Hj. rewrite !dm_dmat by assumption. apply dist2_sym. Qed.

(* ---------- eqm_bond_distance is symmetric (swept over the GENERATED table) ---------- *)
Lemma Qceqb_eq a b : Qceqb a b = true -> a = b.
Proof. unfold Qceqb. intros H. apply Qeq_bool_eq in H. apply Qc_is_canon. exact H. Qed.

Definition bond_lengths_sym_b : bool :=
  forallb (fun e => match e with (a, b, v) =>
             match lookup_pair b a bond_lengths with Some w => Qceqb v w | None => false end end) bond_lengths.

Lemma bond_lengths_sym_ok : bond_lengths_sym_b = true.
Proof. vm_compute. reflexivity. Qed.

Lemma lookup_pair_In a b l v : lookup_pair a b l = Some v -> In (a, b, v) l.
Proof.
  induction l as [|[[a' b'] w] l IH]; cbn [lookup_pair]; [discriminate|].
  destruct (Nat.eqb_spec a a') as [E1|E1]; cbn [andb]; [destruct (Nat.eqb_spec b b') as [E2|E2]|].
  - intros H. injection H as <-. left. congruence.
  - intros H. right. apply IH, H.
  - intros H. right. apply IH, H.
Qed.

Lemma lookup_pair_sym a b : lookup_pair a b bond_lengths = lookup_pair b a bond_lengths.
Proof.
  pose proof bond_lengths_sym_ok as S. unfold bond_lengths_sym_b in S. rewrite forallb_forall in S.
  destruct (lookup_pair a b bond_lengths) as [v|] eqn:E1.
  - specialize (S _ (lookup_pair_In _ _ _ _ E1)). cbn beta iota in S.
    destruct (lookup_pair b a bond_lengths) as [w|]; [|discriminate]. apply Qceqb_eq in S. congruence.
  - destruct (lookup_pair b a bond_lengths) as [w|] eqn:E2; [|reflexivity].
    specialize (S _ (lookup_pair_In _ _ _ _ E2)). cbn beta iota in S. rewrite E1 in S. discriminate.
Qed.

Lemma r0_sym a b : r0 a b = r0 b a.
Proof. unfold r0. rewrite (lookup_pair_sym a b). destruct (lookup_pair b a bond_lengths); [reflexivity|ring]. Qed.

Lemma bonded_sym tol a b d2 : bonded tol a b d2 = bonded tol b a d2.
Proof. unfold bonded. rewrite (r0_sym a b). reflexivity. Qed.

Lemma bond_of_sym tol el ps i j : (i < length ps)%nat -> (j < length ps)%nat ->
  bond_of tol el (dmat ps) i j = bond_of tol el (dmat ps) j i.
Proof. intros Hi Hj. unfold bond_of. rewrite (dm_dmat_sym ps i j) by assumption. apply bonded_sym. Qed.

(* the model's squared test is the code's test `within` (GENERATED from mol_graphs.py:213) applied
   to the distance s = sqrt(d2) *)
Lemma bonded_is_within tol ei ej d2 s : 0 <= s -> s * s = d2 ->
  bonded tol ei ej d2 = within s (r0 ei ej) tol.
Proof.
  intros Hs Hd. unfold bonded, within. cbv zeta. apply bool_iff_eq.
  rewrite andb_true_iff, !Qcleb_le. rewrite <- Hd.
  replace (r0 ei ej * (Q2Qc (1 # 1) + tol)) with (r0 ei ej * (1 + tol)) by reflexivity.
  apply sq_le_iff. exact Hs.
Qed.

(* ================================================================== shape predicates *)
Lemma forallb_map_ext {A B} (f : A -> B) (P : B -> bool) (Q : A -> bool) l :
  (forall x, P (f x) = Q x) -> forallb P (map f l) = forallb Q l.
Proof. intros H. induction l as [|x l IH]; cbn [map forallb]; [reflexivity|]. rewrite H, IH. reflexivity. Qed.

Lemma lin_off_rigid R t ct p0 p1 p : orth R ->
  lin_off ct (rigid R t p0) (rigid R t p1) (rigid R t p) = lin_off ct p0 p1 p.
Proof.
  intros H. unfold lin_off. cbv zeta. rewrite !rigid_diff.
  rewrite !(dot3_orth R) by exact H. rewrite !(norm2_orth R) by exact H. reflexivity.
Qed.

Lemma Qcltb_irrefl' a : Qcltb a a = false.
Proof. destruct (Qcltb a a) eqn:E; [|reflexivity]. apply Qcltb_lt in E. exfalso. apply (Qclt_not_eq _ _ E). reflexivity. Qed.

(* a zero vector (the atom itself, or a coincident atom) is never "off" *)
Lemma lin_off_self_l ct p b : lin_off ct p p b = false.
Proof.
  unfold lin_off. cbv zeta.
  replace (dot3 (vsub3 p p) (vsub3 b p)) with 0 by (v3; ring).
  replace (norm2 (vsub3 p p)) with 0 by (v3; ring).
  replace (0 * 0) with 0 by ring. replace (ct * ct * (0 * norm2 (vsub3 b p))) with 0 by ring.
  rewrite Qcltb_irrefl'. apply andb_false_r.
Qed.

Lemma lin_off_self_r ct p a : lin_off ct p a p = false.
Proof.
  unfold lin_off. cbv zeta.
  replace (dot3 (vsub3 a p) (vsub3 p p)) with 0 by (v3; ring).
  replace (norm2 (vsub3 p p)) with 0 by (v3; ring).
  replace (0 * 0) with 0 by ring. replace (ct * ct * (norm2 (vsub3 a p) * 0)) with 0 by ring.
  rewrite Qcltb_irrefl'. apply andb_false_r.
Qed.

Lemma forallb_perm {A} (f : A -> bool) l l' : Permutation l l' -> forallb f l = forallb f l'.
Proof.
  intros H. apply bool_iff_eq. rewrite !forallb_forall. split; intros G x Hx; apply G.
  - apply (Permutation_in _ (Permutation_sym H)); exact Hx.
  - apply (Permutation_in _ H); exact Hx.
Qed.

Lemma forallb_ext' {A} (f g : A -> bool) l : (forall x, f x = g x) -> forallb f l = forallb g l.
Proof. intros H. induction l as [|x l IH]; cbn [forallb]; [reflexivity|]. rewrite H, IH. reflexivity. Qed.

Lemma others_perm {A} (d : A) i l : (i < length l)%nat -> Permutation (nth i l d :: others i l) l.
Proof.
  revert i. induction l as [|x l IH]; intros i Hi; cbn [length] in Hi; [lia|].
  destruct i as [|i]; unfold others; cbn [nth firstn skipn app]; [apply Permutation_refl|].
  apply (Permutation_trans (l' := x :: nth i l d :: others i l)); [apply perm_swap|].
  apply perm_skip. apply IH. lia.
Qed.

Lemma map_nth_seq {A} (d : A) l : map (fun i => nth i l d) (seq 0 (length l)) = l.
Proof.
  induction l as [|x l IH]; [reflexivity|]. cbn [length seq map nth]. f_equal.
  rewrite <- seq_shift, map_map. exact IH.
Qed.

Lemma forallb_seq_nth {A} (d : A) (h : A -> bool) l :
  forallb (fun i => h (nth i l d)) (seq 0 (length l)) = forallb h l.
Proof.
  transitivity (forallb h (map (fun i => nth i l d) (seq 0 (length l)))).
  - induction (seq 0 (length l)) as [|i r IH]; cbn [map forallb]; [reflexivity|]. rewrite IH. reflexivity.
  - rewrite map_nth_seq. reflexivity.
Qed.

(* the loops over "the other atoms" may as well run over all atoms *)
Lemma linear_inner_all ct p o ps : Permutation (p :: o) ps ->
  forallb (fun a => forallb (fun b => negb (lin_off ct p a b)) o) o =
  forallb (fun a => forallb (fun b => negb (lin_off ct p a b)) ps) ps.
Proof.
  intros H. rewrite <- (forallb_perm _ _ _ H).
  rewrite (forallb_ext' (fun a => forallb (fun b => negb (lin_off ct p a b)) ps)
                        (fun a => forallb (fun b => negb (lin_off ct p a b)) (p :: o)))
    by (intros a; symmetry; apply forallb_perm; exact H).
  cbn [forallb]. rewrite lin_off_self_l. cbn [negb andb].
  rewrite (forallb_ext' (fun b => negb (lin_off ct p p b)) (fun _ => true))
    by (intros b; rewrite lin_off_self_l; reflexivity).
  assert (T : forallb (fun _ : V3 => true) o = true) by (apply forallb_forall; reflexivity).
  rewrite T. cbn [andb]. apply forallb_ext'. intros a. rewrite lin_off_self_r. reflexivity.
Qed.

Lemma are_linear_model_eq ct ps :
  are_linear_model ct ps =
  if Nat.ltb (length ps) 2 then false else if Nat.eqb (length ps) 2 then true else are_linear_sym ct ps.
Proof.
  destruct ps as [|a [|b [|c r]]]; try reflexivity.
  set (l := a :: b :: c :: r). change (are_linear_model ct l) with
    (forallb (fun i => let p := nth i l vzero in let o := others i l in
                forallb (fun x => forallb (fun y => negb (lin_off ct p x y)) o) o) (seq 0 (length l))).
  replace (Nat.ltb (length l) 2) with false by reflexivity. replace (Nat.eqb (length l) 2) with false by reflexivity.
  unfold are_linear_sym. rewrite <- (forallb_seq_nth vzero _ l).
  apply bool_iff_eq. rewrite !forallb_forall. split; intros G i Hi; specialize (G i Hi); cbv zeta in *.
  - rewrite <- (linear_inner_all ct _ (others i l) l); [exact G|apply others_perm; apply in_seq in Hi; lia].
  - rewrite (linear_inner_all ct _ (others i l) l); [exact G|apply others_perm; apply in_seq in Hi; lia].
Qed.

Lemma are_linear_sym_rigid R t ct ps : orth R ->
  are_linear_sym ct (map (rigid R t) ps) = are_linear_sym ct ps.
Proof.
  intros H. unfold are_linear_sym. apply forallb_map_ext. intros p. apply forallb_map_ext. intros a.
  apply forallb_map_ext. intros b. rewrite lin_off_rigid by exact H. reflexivity.
Qed.

Lemma are_linear_rigid R t ct ps : orth R ->
  are_linear_model ct (map (rigid R t) ps) = are_linear_model ct ps.
Proof. intros H. rewrite !are_linear_model_eq, map_length, are_linear_sym_rigid by exact H. reflexivity. Qed.

Lemma are_linear_sym_perm ct ps ps' : Permutation ps ps' -> are_linear_sym ct ps = are_linear_sym ct ps'.
Proof.
  intros H. unfold are_linear_sym. rewrite (forallb_perm _ _ _ H). apply forallb_ext'. intros p.
  rewrite (forallb_perm _ _ _ H). apply forallb_ext'. intros a. apply forallb_perm. exact H.
Qed.

(* linearity does not depend on the order the atoms are listed in *)
Lemma are_linear_perm ct ps ps' : Permutation ps ps' -> are_linear_model ct ps = are_linear_model ct ps'.
Proof.
  intros H. rewrite !are_linear_model_eq, (Permutation_length H), (are_linear_sym_perm ct _ _ H). reflexivity.
Qed.

Lemma Qcabs_det_mul dt x : dt = 1 \/ dt = - (1) -> Qcabs (dt * x) = Qcabs x.
Proof.
  intros [->| ->].
  - replace (1 * x) with x by ring. reflexivity.
  - replace (- (1) * x) with (- x) by ring. apply Qcabs_opp.
Qed.

(* normals of the mirror/rotated structure: cross products of the transformed edge vectors *)
Definition nrel (R : M3) (nv' nv : V3) : Prop :=
  exists a b, nv = cross3 a b /\ nv' = cross3 (mv3 R a) (mv3 R b).

Lemma nrel_zero R : nrel R vzero vzero.
Proof. exists vzero, vzero. split; unfold vzero, cross3, mv3, dot3; cbn [vx vy vz]; f_equal; ring. Qed.

Lemma find_normal_rigid R t p0 p1 cands : orth R -> forall last last', nrel R last' last ->
  nrel R (find_normal (rigid R t p0) (rigid R t p1) (map (rigid R t) cands) last')
         (find_normal p0 p1 cands last).
Proof.
  intros H. induction cands as [|pj r IH]; intros last last' Hl; cbn [map find_normal]; [exact Hl|].
  cbv zeta. unfold planar_normal. rewrite !rigid_diff. rewrite (norm2_cross_orth R) by exact H.
  assert (Hn : nrel R (cross3 (mv3 R (vsub3 p1 p0)) (mv3 R (vsub3 pj p0))) (cross3 (vsub3 p1 p0) (vsub3 pj p0))).
  { eexists _, _. split; reflexivity. }
  destruct (Qcltb (planar_normal_eps * planar_normal_eps) (norm2 (cross3 (vsub3 p1 p0) (vsub3 pj p0)))).
  - exact Hn.
  - apply IH. exact Hn.
Qed.

(* this is where the absolute value is needed: under a reflection the triple product changes sign *)
Lemma planar_off_rigid R t tol nv' nv p0 p : orth R -> nrel R nv' nv ->
  planar_off tol nv' (rigid R t p0) (rigid R t p) = planar_off tol nv p0 p.
Proof.
  intros H (a & b & -> & ->). unfold planar_off. rewrite rigid_diff.
  change (dot3 (cross3 (mv3 R a) (mv3 R b)) (mv3 R (vsub3 p p0))) with
         (triple (mv3 R a) (mv3 R b) (mv3 R (vsub3 p p0))).
  rewrite triple_mv3. rewrite Qcabs_det_mul by (apply orth_det; exact H). reflexivity.
Qed.

Lemma are_planar_rigid R t tol ps : orth R ->
  are_planar_model tol (map (rigid R t) ps) = are_planar_model tol ps.
Proof.
  intros H. unfold are_planar_model. rewrite map_length.
  destruct (Nat.ltb (length ps) planar_min_atoms); [reflexivity|].
  destruct ps as [|p0 [|p1 rest]]; try reflexivity. cbn [map]. cbv zeta.
  apply forallb_map_ext. intros x. f_equal. apply planar_off_rigid; [exact H|].
  apply find_normal_rigid; [exact H|apply nrel_zero].
Qed.

(* ================================================================== distance, angle, dihedral *)
Lemma nth_error_map' {A B} (f : A -> B) l i : nth_error (map f l) i = option_map f (nth_error l i).
Proof.
  revert i. induction l as [|x l IH]; intros [|i]; cbn [map nth_error option_map]; try reflexivity. apply IH.
Qed.

Lemma distance2_rigid R t ps i j : orth R ->
  distance2_model (map (rigid R t) ps) i j = distance2_model ps i j.
Proof.
  intros H. unfold distance2_model. rewrite !nth_error_map'.
  destruct (nth_error ps i), (nth_error ps j); cbn [option_map]; try reflexivity.
  rewrite dist2_rigid by exact H. reflexivity.
Qed.

Lemma angle_rigid R t ps i j k : orth R ->
  angle_model (map (rigid R t) ps) i j k = angle_model ps i j k.
Proof.
  intros H. unfold angle_model. rewrite !nth_error_map'.
  destruct (nth_error ps i), (nth_error ps j), (nth_error ps k); cbn [option_map]; try reflexivity.
  cbv zeta. rewrite !rigid_diff. rewrite !(norm2_orth R) by exact H. rewrite (dot3_orth R) by exact H.
  reflexivity.
Qed.

Definition scale_sin (c : Qc) (r : Qc * Qc * Qc) : Qc * Qc * Qc :=
  match r with (sn, cs, l2) => (c * sn, cs, l2) end.

Lemma dihedral_orth R t ps w x y z : orth R ->
  dihedral_model (map (rigid R t) ps) w x y z = option_map (scale_sin (det3 R)) (dihedral_model ps w x y z).
Proof.
  intros H. unfold dihedral_model. rewrite !nth_error_map'.
  destruct (nth_error ps w), (nth_error ps x), (nth_error ps y), (nth_error ps z); cbn [option_map]; try reflexivity.
  cbv zeta. rewrite !rigid_diff. rewrite <- !mv3_vneg3.
  rewrite !(norm2_cross_orth R) by exact H. rewrite (norm2_orth R) by exact H.
  rewrite (sin_orth R) by exact H. rewrite (dot_cross_orth R) by exact H.
  match goal with |- context [if ?c then _ else _] => destruct c end; reflexivity.
Qed.
