(* C03/Vec.v — 3-vectors and 3x3 matrices over exact rationals Qc (definitions only).
   This is the vocabulary the generated file gen/C03_Gen.v (planarity test translated from
   autode/atoms.py) and C03/Model.v are written in. *)
From Coq Require Import ZArith QArith Qcanon List Bool.
From AV.lib Require Import QcInst.
Open Scope Qc_scope.

Record V3 := mkV3 { vx : Qc; vy : Qc; vz : Qc }.
Record M3 := mkM3 { row1 : V3; row2 : V3; row3 : V3 }.

Definition vzero : V3 := mkV3 0 0 0.
Definition vadd3 (a b : V3) : V3 := mkV3 (vx a + vx b) (vy a + vy b) (vz a + vz b).
Definition vsub3 (a b : V3) : V3 := mkV3 (vx a - vx b) (vy a - vy b) (vz a - vz b).
Definition vneg3 (a : V3) : V3 := mkV3 (- vx a) (- vy a) (- vz a).
Definition vscal3 (c : Qc) (a : V3) : V3 := mkV3 (c * vx a) (c * vy a) (c * vz a).
Definition dot3 (a b : V3) : Qc := vx a * vx b + vy a * vy b + vz a * vz b.
Definition cross3 (a b : V3) : V3 :=
  mkV3 (vy a * vz b - vz a * vy b) (vz a * vx b - vx a * vz b) (vx a * vy b - vy a * vx b).
(* scalar triple product (a x b) . c *)
Definition triple (a b c : V3) : Qc := dot3 (cross3 a b) c.
Definition norm2 (a : V3) : Qc := dot3 a a.
Definition dist2 (p q : V3) : Qc := norm2 (vsub3 p q).

(* matrices by rows; R v; det; columns *)
Definition mv3 (R : M3) (a : V3) : V3 := mkV3 (dot3 (row1 R) a) (dot3 (row2 R) a) (dot3 (row3 R) a).
Definition det3 (R : M3) : Qc := triple (row1 R) (row2 R) (row3 R).
Definition col1 (R : M3) : V3 := mkV3 (vx (row1 R)) (vx (row2 R)) (vx (row3 R)).
Definition col2 (R : M3) : V3 := mkV3 (vy (row1 R)) (vy (row2 R)) (vy (row3 R)).
Definition col3 (R : M3) : V3 := mkV3 (vz (row1 R)) (vz (row2 R)) (vz (row3 R)).
(* R^T R = I : the columns are orthonormal *)
Definition orth (R : M3) : Prop :=
  dot3 (col1 R) (col1 R) = 1 /\ dot3 (col2 R) (col2 R) = 1 /\ dot3 (col3 R) (col3 R) = 1 /\
  dot3 (col1 R) (col2 R) = 0 /\ dot3 (col1 R) (col3 R) = 0 /\ dot3 (col2 R) (col3 R) = 0.
(* the rigid motion / reflection  p |-> R p + t *)
Definition rigid (R : M3) (t p : V3) : V3 := vadd3 (mv3 R p) t.

(* boolean comparisons on Qc used by the executable model (QcInst: Qcleb, Qcltb, Qcabs) *)
Definition Qceqb (a b : Qc) : bool := Qeq_bool (this a) (this b).
