(* C03/Model.v — executable model of autodE's graph perception and shape predicates over exact
   rationals (definitions only; proofs are in Lemmas.v).

   Anchors (line numbers of /repo at build time):
     autode/mol_graphs.py:195-225   make_graph: distance-criterion double loop
     autode/mol_graphs.py:228-256   remove_bonds_invalid_valancies: the valence cap
     autode/atoms.py:318-338        Atom.maximal_valance
     autode/atoms.py:724-760        Atoms.eqm_bond_distance
     autode/atoms.py:830-866        Atoms.are_linear (every atom, every pair of the others)
     autode/atoms.py:859-900        Atoms.are_planar
     autode/atoms.py:993-1122       AtomCollection.angle / dihedral
   Element tables, the bond test `within` and the out-of-plane test `planar_off` are GENERATED from
   the source on every run (gen/C03_Gen.v). *)
From Coq Require Import ZArith QArith Qcanon List Bool Arith.
From AV.lib Require Import QcInst.
From AV.C03 Require Import Vec.
From AV.gen Require Import C03_Gen.
Import ListNotations.
Open Scope Qc_scope.

(* ------------------------------------------------------------------ element data *)
(* Atom.is_metal: `self.label in metals` *)
Definition is_metal (e : nat) : bool := existsb (Nat.eqb e) metals.
Fixpoint lookup_nat (e : nat) (l : list (nat * nat)) : option nat :=
  match l with [] => None | (k, v) :: r => if Nat.eqb e k then Some v else lookup_nat e r end.
(* Atom.maximal_valance (atoms.py:318): metal -> 6; listed -> table; else 6 *)
Definition max_valence (e : nat) : nat :=
  if is_metal e then metal_valence
  else match lookup_nat e max_valances with Some v => v | None => fallback_valence end.

Fixpoint lookup_pair (a b : nat) (l : list (nat * nat * Qc)) : option Qc :=
  match l with
  | [] => None
  | (a', b', v) :: r => if Nat.eqb a a' && Nat.eqb b b' then Some v else lookup_pair a b r
  end.
(* Atom.covalent_radius: Distance(_covalent_radii_pm[Z-1], 'pm').to('Å')  (IndexError beyond the
   table is modelled by elems_ok below) *)
Definition cov_radius (e : nat) : Qc := nth e cov_radii_pm 0 / pm_per_ang.
(* Atoms.eqm_bond_distance (atoms.py:724) for i <> j: tabulated dimer length if the concatenated
   symbols are a key of _bond_lengths, else the sum of the covalent radii *)
Definition r0 (ei ej : nat) : Qc :=
  match lookup_pair ei ej bond_lengths with
  | Some v => v
  | None => cov_radius ei + cov_radius ej
  end.
(* mol_graphs.py:213  dist <= r0 * (1 + tol), in squared form (dist >= 0 is a square root):
   d2 <= (r0 (1+tol))^2 and the threshold is not negative *)
Definition bonded (tol : Qc) (ei ej : nat) (d2 : Qc) : bool :=
  let thr := r0 ei ej * (1 + tol) in Qcleb 0 thr && Qcleb d2 (thr * thr).

(* ------------------------------------------------------------------ distance matrix *)
(* scipy distance_matrix(coords, coords), squared *)
Definition dmat (ps : list V3) : list (list Qc) := map (fun p => map (dist2 p) ps) ps.
Definition dm (D : list (list Qc)) (i j : nat) : Qc := nth j (nth i D []) 0.

(* ------------------------------------------------------------------ graphs *)
(* A graph is the list of its edges IN INSERTION ORDER.  networkx keeps, for every node, its
   neighbours in the order the incident edges were added, and remove_edge keeps the order of the
   others: `neighbours` below reproduces graph.neighbors(i) exactly. *)
Definition edge := (nat * nat)%type.
Definition graph := list edge.
Definition eqe (a b : nat) (e : edge) : bool :=
  (Nat.eqb (fst e) a && Nat.eqb (snd e) b) || (Nat.eqb (fst e) b && Nat.eqb (snd e) a).
Definition has_edge (g : graph) (a b : nat) : bool := existsb (eqe a b) g.
Definition nb_of (v : nat) (e : edge) : list nat :=
  if Nat.eqb (fst e) v then [snd e] else if Nat.eqb (snd e) v then [fst e] else [].
Definition neighbours (g : graph) (v : nat) : list nat := flat_map (nb_of v) g.
Definition degree (g : graph) (v : nat) : nat := length (neighbours g v).
Definition remove_edge (g : graph) (i j : nat) : graph := filter (fun e => negb (eqe i j e)) g.

(* stable insertion sort of indexes by a rational key.  Python's sorted(..., key=...) is stable.
   The order np.argsort gives to EXACTLY equal distances is unspecified (numpy's SIMD sort is not
   stable); it only influences the neighbour order of an atom and hence which of two equally long
   bonds the cap removes: such ties are excluded from the correspondence (counted). *)
Fixpoint insert_by (key : nat -> Qc) (x : nat) (l : list nat) : list nat :=
  match l with
  | [] => [x]
  | y :: r => if Qcleb (key x) (key y) then x :: l else y :: insert_by key x r
  end.
Definition sort_by (key : nat -> Qc) (l : list nat) : list nat := fold_right (insert_by key) [] l.

(* sorting of atom indexes by index (for the tie-break of the valence cap) *)
Fixpoint insert_idx (x : nat) (l : list nat) : list nat :=
  match l with
  | [] => [x]
  | y :: r => if Nat.leb x y then x :: l else y :: insert_idx x r
  end.
Definition sort_idx (l : list nat) : list nat := fold_right insert_idx [] l.
(* mol_graphs.py:249 (as repaired by /repo 3e32450): sorted(neighbours, key = (round(distance, 6), k)):
   by distance, equally long bonds by atom index.  The model orders by the EXACT squared distance and
   breaks exact ties by index (stable sort of the index-sorted list); the rounding to 1e-6 A is not
   modelled: two neighbours of an over-coordinated atom whose distances differ by less than the
   rounding resolution (0 < |d - d'| <= 1.1e-6 A), or a distance within 1e-9 of a rounding boundary,
   form a margin class that the correspondence skips and counts. *)
Definition cap_order (key : nat -> Qc) (nb : list nat) : list nat := sort_by key (sort_idx nb).

Section Algo.
  Variable n : nat.                     (* species.n_atoms *)
  Variable d : nat -> nat -> Qc.        (* dist_mat[i, j] (squared) *)
  Variable bond : nat -> nat -> bool.   (* the test of mol_graphs.py:213 for the ordered pair (i, j) *)
  Variable mv : nat -> nat.             (* species.atoms[i].maximal_valance *)

  (* mol_graphs.py:204-217, body of the inner loop *)
  Definition add_bond (i : nat) (g : graph) (j : nat) : graph :=
    if Nat.eqb i j then g
    else if bond i j && negb (has_edge g i j) then g ++ [(i, j)] else g.
  (* mol_graphs.py:200-217.  QUIRK (line 200): `for i, _ in enumerate(sorted(species.atoms,
     key=weight))` discards the sorted atoms and keeps only the counter, so i runs 0..n-1 in the
     given atom order; the inner loop runs over np.argsort(dist_mat[i]). *)
  Definition make_graph : graph :=
    fold_left (fun g i => fold_left (add_bond i) (sort_by (d i) (seq 0 n)) g) (seq 0 n) [].

  (* mol_graphs.py:238-254, body of the loop over nodes *)
  Definition prune_node (g : graph) (i : nat) : graph :=
    let nb := neighbours g i in
    if Nat.leb (length nb) (mv i) then g
    else fold_left (fun g j => remove_edge g i j) (skipn (mv i) (cap_order (d i) nb)) g.
  (* graph.nodes is 0..n-1 in order (nodes are added by enumerate, mol_graphs.py:180) *)
  Definition prune_upto (m : nat) (g : graph) : graph := fold_left prune_node (seq 0 m) g.
  Definition prune (g : graph) : graph := prune_upto n g.
End Algo.

(* ------------------------------------------------------------------ make_graph on a structure *)
Definition elem (el : list nat) (i : nat) : nat := nth i el 0%nat.
Definition bond_of (tol : Qc) (el : list nat) (D : list (list Qc)) (i j : nat) : bool :=
  bonded tol (elem el i) (elem el j) (dm D i j).
(* graph before the valence cap (allow_invalid_valancies=True) *)
Definition perceive_edges (tol : Qc) (el : list nat) (D : list (list Qc)) : graph :=
  make_graph (length el) (dm D) (bond_of tol el D).
(* graph after remove_bonds_invalid_valancies *)
Definition perceive (tol : Qc) (el : list nat) (D : list (list Qc)) : graph :=
  prune (length el) (dm D) (fun i => max_valence (elem el i)) (perceive_edges tol el D).

(* eqm_bond_distance(i, j) is evaluated for every ordered pair i <> j (mol_graphs.py:209) and
   Atom.covalent_radius raises IndexError for an element beyond the radii table, unless the pair is
   a key of _bond_lengths *)
Definition r0_defined (ei ej : nat) : bool :=
  match lookup_pair ei ej bond_lengths with
  | Some _ => true
  | None => Nat.ltb ei (length cov_radii_pm) && Nat.ltb ej (length cov_radii_pm)
  end.
Definition elems_ok (el : list nat) : bool :=
  forallb (fun i => forallb (fun j => Nat.eqb i j || r0_defined (elem el i) (elem el j))
                            (seq 0 (length el))) (seq 0 (length el)).
Inductive gresult := GraphOk (g : graph) | NoAtoms | RadiusIndexError.
(* make_graph(species, rel_tolerance=tol): el = element indexes, ps = coordinates *)
Definition make_graph_model (tol : Qc) (el : list nat) (ps : list V3) : gresult :=
  match el with
  | [] => NoAtoms                                   (* mol_graphs.py:169 *)
  | _ => if elems_ok el then GraphOk (perceive tol el (dmat ps)) else RadiusIndexError
  end.
Definition make_graph_unpruned_model (tol : Qc) (el : list nat) (ps : list V3) : gresult :=
  match el with
  | [] => NoAtoms
  | _ => if elems_ok el then GraphOk (perceive_edges tol el (dmat ps)) else RadiusIndexError
  end.

(* relabelling of a graph by a map on node indexes *)
Definition relabel (s : nat -> nat) (g : graph) : graph := map (fun e => (s (fst e), s (snd e))) g.

(* ------------------------------------------------------------------ shape predicates *)
(* Atoms.are_linear (atoms.py:830, as repaired by /repo commit 5a4ab9d).  For EVERY atom i the unit
   vectors from i to every other atom (np.delete(coords, i) - coords[i], normalised) are compared
   pairwise (vecs @ vecs.T, diagonal included): with c = cos of the angle at i between atoms a and b
   the code tests | |c| - 1 | > tol, tol = |1 - cos(angle_tol)|.  Since |c| <= 1 this is
   |c| < ct := 1 - tol, i.e. (for ct >= 0)  (v.w)^2 < ct^2 |v|^2 |w|^2  with v, w UNnormalised.
   A zero vector (coincident atoms) gives nan in the code and every comparison with nan is False:
   0 < 0 here. *)
Definition lin_off (ct : Qc) (p a b : V3) : bool :=
  let v := vsub3 a p in let w := vsub3 b p in
  Qcleb 0 ct && Qcltb (dot3 v w * dot3 v w) (ct * ct * (norm2 v * norm2 w)).
Definition others {A} (i : nat) (l : list A) : list A := firstn i l ++ skipn (S i) l.   (* np.delete(l, i) *)
Definition are_linear_model (ct : Qc) (ps : list V3) : bool :=
  match ps with
  | [] | [_] => false
  | [_; _] => true
  | _ => forallb (fun i => let p := nth i ps vzero in let o := others i ps in
                           forallb (fun a => forallb (fun b => negb (lin_off ct p a b)) o) o)
                 (seq 0 (length ps))
  end.
(* the same test over ALL ordered triples of the list (the extra triples have a zero vector) *)
Definition are_linear_sym (ct : Qc) (ps : list V3) : bool :=
  forallb (fun p => forallb (fun a => forallb (fun b => negb (lin_off ct p a b)) ps) ps) ps.

(* Atoms.are_planar (atoms.py:859).  The normal is planar_normal p0 p1 pj (GENERATED:
   np.cross(arr[1]-x0, arr[j]-x0)) for the first j in range(2, n) with |normal| > eps (the last one
   tried if none is: all atoms colinear); it is NOT normalised, so the quantity compared with the
   distance tolerance is a triple product (a volume).  planar_off is the GENERATED test
   |normal . (arr[i]-x0)| > tol, applied for i in range(2, n).  |v| > eps is squared: |v|^2 > eps^2. *)
Fixpoint find_normal (p0 p1 : V3) (cands : list V3) (last : V3) : V3 :=
  match cands with
  | [] => last
  | pj :: r => let nv := planar_normal p0 p1 pj in
               if Qcltb (planar_normal_eps * planar_normal_eps) (norm2 nv) then nv
               else find_normal p0 p1 r nv
  end.
Definition are_planar_model (tol : Qc) (ps : list V3) : bool :=
  if Nat.ltb (length ps) planar_min_atoms then true
  else match ps with
       | p0 :: p1 :: rest =>
           let nv := find_normal p0 p1 rest vzero in
           forallb (fun p => negb (planar_off tol nv p0 p)) rest
       | _ => true
       end.

(* ------------------------------------------------------------------ distance / angle / dihedral *)
(* Atoms.distance: squared; ValueError when an index is absent *)
Definition distance2_model (ps : list V3) (i j : nat) : option Qc :=
  match nth_error ps i, nth_error ps j with
  | Some a, Some b => Some (dist2 a b)
  | _, _ => None
  end.
Definition zero_tol2 : Qc := qc 1 10000000000000000.   (* np.isclose(x, 0.0): |x| <= 1e-8, squared *)
(* AtomCollection.angle (atoms.py:993): cos(theta) = num / sqrt(den2); returns (num, den2).
   None: an index is absent or `np.isclose(norms, 0.0)` (ValueError) *)
Definition angle_model (ps : list V3) (i j k : nat) : option (Qc * Qc) :=
  match nth_error ps i, nth_error ps j, nth_error ps k with
  | Some a, Some b, Some c =>
      let v1 := vsub3 a b in let v2 := vsub3 c b in
      let den2 := norm2 v1 * norm2 v2 in
      if Qcleb den2 zero_tol2 then None else Some (dot3 v1 v2, den2)
  | _, _, _ => None
  end.
(* AtomCollection.dihedral (atoms.py:1049):
     vec1 = xw x xy, vec2 = (-xy) x yz,  value = -atan2((vec1^ x xy^).vec2^, vec1^.vec2^)
   with ^ = normalised.  Returned: (S, C, L) with S = (vec1 x xy).vec2, C = vec1.vec2, L = |xy|^2
   (unnormalised), so that value = -atan2(S / sqrt L, C).  None: absent index or a zero vector. *)
Definition dihedral_model (ps : list V3) (w x y z : nat) : option (Qc * Qc * Qc) :=
  match nth_error ps w, nth_error ps x, nth_error ps y, nth_error ps z with
  | Some pw, Some px, Some py, Some pz =>
      let xw := vsub3 pw px in let yz := vsub3 pz py in let xy := vsub3 py px in
      let v1 := cross3 xw xy in let v2 := cross3 (vneg3 xy) yz in
      if Qcleb (norm2 v1) zero_tol2 || Qcleb (norm2 v2) zero_tol2 || Qcleb (norm2 xy) zero_tol2 then None
      else Some (dot3 (cross3 v1 xy) v2, dot3 v1 v2, norm2 xy)
  | _, _, _, _ => None
  end.

(* the pre-805490b planarity test (no abs), kept to show that the abs is what reflection needs *)
Definition planar_off_onesided (tol : Qc) (nv p0 pi : V3) : bool := Qcltb tol (dot3 nv (vsub3 pi p0)).
Definition are_planar_onesided (tol : Qc) (ps : list V3) : bool :=
  match ps with
  | p0 :: p1 :: p2 :: rest =>
      forallb (fun p => negb (planar_off_onesided tol (cross3 (vsub3 p1 p0) (vsub3 p2 p0)) p0 p)) rest
  | _ => true
  end.
