(* C03/Corr.v — helpers used only by the correspondence check (model vs implementation). *)
From Coq Require Import ZArith QArith Qcanon List String Bool Arith.
From AV.lib Require Import QcInst.
From AV.C03 Require Import Vec.
From AV.gen Require Import C03_Gen.
From AV.C03 Require Import Model.
Import ListNotations.
Open Scope Qc_scope.

Definition P3 (x y z : Qc) : V3 := mkV3 x y z.

(* same edge SET (the implementation side is sorted(graph.edges)) *)
Definition edges_match (g ex : graph) : bool :=
  forallb (fun e => has_edge ex (fst e) (snd e)) g &&
  forallb (fun e => has_edge g (fst e) (snd e)) ex && Nat.eqb (List.length g) (List.length ex).
Definition gres_match (r ex : gresult) : bool :=
  match r, ex with
  | GraphOk g, GraphOk e => edges_match g e
  | NoAtoms, NoAtoms => true
  | RadiusIndexError, RadiusIndexError => true
  | _, _ => false
  end.
(* make_graph(species) / make_graph(species, allow_invalid_valancies=True) *)
Definition check_graph (tol : Qc) (el : list nat) (ps : list V3) (ex : gresult) : bool :=
  gres_match (make_graph_model tol el ps) ex.
Definition check_unpruned (tol : Qc) (el : list nat) (ps : list V3) (ex : gresult) : bool :=
  gres_match (make_graph_unpruned_model tol el ps) ex.
(* [list(graph.neighbors(i)) for i in range(n)]: networkx adjacency order = model edge order *)
Fixpoint list_nat_eqb (a b : list nat) : bool :=
  match a, b with
  | [], [] => true
  | x :: a', y :: b' => Nat.eqb x y && list_nat_eqb a' b'
  | _, _ => false
  end.
Definition check_adjacency (tol : Qc) (el : list nat) (ps : list V3) (adj : list (list nat)) : bool :=
  match make_graph_model tol el ps with
  | GraphOk g => Nat.eqb (List.length adj) (List.length el) &&
                 forallb (fun i => list_nat_eqb (neighbours g i) (nth i adj [])) (seq 0 (List.length el))
  | _ => false
  end.

(* Species.reorder_atoms(mapping) on a species holding its perceived graph: the edges afterwards are
   the model graph of the ORIGINAL listing relabelled old -> sigma[old] *)
Definition check_reorder (tol : Qc) (el : list nat) (ps : list V3) (sigma : list nat) (ex : graph) : bool :=
  match make_graph_model tol el ps with
  | GraphOk g => edges_match (relabel (fun i => nth i sigma 0%nat) g) ex
  | _ => false
  end.

Definition check_linear (ct : Qc) (ps : list V3) (b : bool) : bool := Bool.eqb (are_linear_model ct ps) b.
Definition check_planar (tol : Qc) (ps : list V3) (b : bool) : bool := Bool.eqb (are_planar_model tol ps) b.

Definition t12 : Qc := qc 1 1000000000000.     (* 1e-12 *)
Definition t9 : Qc := qc 1 1000000000.          (* 1e-9 *)
Definition t6 : Qc := qc 1 1000000.             (* 1e-6 *)
Definition within_abs (tol scale a b : Qc) : bool := Qcleb (Qcabs (a - b)) (tol * scale).
Definition same_sign_or_small (x y : Qc) : bool := Qcleb 0 (x * y) || Qcleb (Qcabs x) t6.

(* species.distance(i, j) = d  (None: ValueError) *)
Definition check_distance (ps : list V3) (i j : nat) (d : option Qc) : bool :=
  match distance2_model ps i j, d with
  | Some d2, Some x => within_abs t12 (Qcmaxq 1 d2) (x * x) d2
  | None, None => true
  | _, _ => false
  end.
(* species.angle(i, j, k) = theta, passed as c = cos(theta) *)
Definition check_angle (ps : list V3) (i j k : nat) (c : option Qc) : bool :=
  match angle_model ps i j k, c with
  | Some (num, den2), Some x => within_abs t9 den2 (x * x * den2) (num * num) && same_sign_or_small x num
  | None, None => true
  | _, _ => false
  end.
(* species.dihedral(w, x, y, z) = phi, passed as (s, c) = (sin(-phi), cos(-phi)):
   (s, c) must be parallel to (S / sqrt L, C) *)
Definition check_dihedral (ps : list V3) (w x y z : nat) (sc : option (Qc * Qc)) : bool :=
  match dihedral_model ps w x y z, sc with
  | Some (S', C', L'), Some (s, c) =>
      within_abs t9 (C' * C' * L' + S' * S') (s * s * (C' * C') * L') (c * c * (S' * S')) &&
      same_sign_or_small s S' && same_sign_or_small c C'
  | None, None => true
  | _, _ => false
  end.

(* translator validation against the RUNTIME objects of the package *)
Definition check_elem (e : nat) (sym : string) (mvv : nat) (cov : Qc) (metal : bool) : bool :=
  String.eqb (nth e elements ""%string) sym && Nat.eqb (max_valence e) mvv &&
  close t12 (cov_radius e) cov && Bool.eqb (is_metal e) metal.
Definition check_r0 (ei ej : nat) (v : Qc) : bool := close t12 (r0 ei ej) v.
Definition check_consts (rel pl lin : Qc) : bool :=
  close t12 rel_tolerance_default rel && within_abs t12 pl planar_tol_default pl &&
  within_abs (t12 * t6 * qc 1 100) 1 linear_cos_default lin.
Definition n_elements : nat := List.length elements.
Definition n_radii : nat := List.length cov_radii_pm.
