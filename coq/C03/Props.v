(* C03/Props.v — the property theorems for C03 "Perceived connectivity and shape predicates depend
   only on the geometry".  Statements only; each is closed by lemmas of Lemmas.v.
   The element tables, the bond test `within`, the normal `planar_normal` and the out-of-plane test
   `planar_off` are GENERATED from /repo on every run (gen/C03_Gen.v).

   A structure is  el : list nat  (element indexes) with  ps : list V3  (coordinates);  a rigid
   motion or reflection is  map (rigid R t) ps  with  orth R  (R^T R = I, hence det R = +-1).
   NOT modelled (claimed partial): the rotational symmetry number search of
   thermochemistry/symmetry.py; its frame independence is exercised by the harness only. *)
From Coq Require Import ZArith QArith Qcanon List Bool Arith Lia Permutation.
From AV.lib Require Import QcInst.
From AV.C03 Require Import Vec.
From AV.gen Require Import C03_Gen.
From AV.C03 Require Import Model Lemmas.
Import ListNotations.
Open Scope Qc_scope.

(* ------------------------------------------------------------------ orthogonal maps *)
Theorem orthogonal_det_pm1 : forall R, orth R -> det3 R = 1 \/ det3 R = - (1).
Proof. exact orth_det. Qed.

(* triple (R a) (R b) (R c) = det R * triple a b c  (every matrix R) *)
Theorem triple_product_det : forall R a b c,
  triple (mv3 R a) (mv3 R b) (mv3 R c) = det3 R * triple a b c.
Proof. exact triple_mv3. Qed.

(* ------------------------------------------------------------------ distances, angles, dihedrals *)
(* distances are invariant under every rigid motion and reflection *)
Theorem dist2_rigid_invariant : forall R t, orth R ->
  (forall p q, dist2 (rigid R t p) (rigid R t q) = dist2 p q) /\
  (forall ps i j, distance2_model (map (rigid R t) ps) i j = distance2_model ps i j).
Proof. intros R t H. split; intros; [apply dist2_rigid|apply distance2_rigid]; exact H. Qed.

(* the cosine of an angle (numerator and squared denominator, and the zero-vector error) *)
Theorem cos_angle_rigid_invariant : forall R t, orth R ->
  forall ps i j k, angle_model (map (rigid R t) ps) i j k = angle_model ps i j k.
Proof. intros R t H ps i j k. apply angle_rigid. exact H. Qed.

(* proper rigid motion (det R = 1): both dihedral numerators and |xy|^2 are unchanged, hence the
   dihedral -atan2(S / sqrt L, C) is *)
Theorem dihedral_rigid_invariant : forall R t, orth R -> det3 R = 1 ->
  forall ps w x y z, dihedral_model (map (rigid R t) ps) w x y z = dihedral_model ps w x y z.
Proof.
  intros R t H Hd ps w x y z. rewrite dihedral_orth by exact H. rewrite Hd.
  destruct (dihedral_model ps w x y z) as [[[s c] l]|]; cbn [option_map scale_sin]; [|reflexivity].
  replace (1 * s) with s by ring. reflexivity.
Qed.

(* reflection (det R = -1): the sine numerator changes sign, the cosine numerator does not, hence
   the dihedral changes sign *)
Theorem dihedral_reflection_sign : forall R t, orth R -> det3 R = - (1) ->
  forall ps w x y z,
    dihedral_model (map (rigid R t) ps) w x y z =
    option_map (fun r => match r with (s, c, l) => (- s, c, l) end) (dihedral_model ps w x y z).
Proof.
  intros R t H Hd ps w x y z. rewrite dihedral_orth by exact H. rewrite Hd.
  destruct (dihedral_model ps w x y z) as [[[s c] l]|]; cbn [option_map scale_sin]; [|reflexivity].
  replace (- (1) * s) with (- s) by ring. reflexivity.
Qed.

(* the sine numerator is |xy|^2 (xw . (xy x yz)): a signed volume *)
Theorem dihedral_sine_is_triple : forall xw xy yz,
  dot3 (cross3 (cross3 xw xy) xy) (cross3 (vneg3 xy) yz) = norm2 xy * triple xw xy yz.
Proof. exact dihedral_sin_triple. Qed.

(* ------------------------------------------------------------------ perceived graph: frames *)
(* the perceived graph (edge list in insertion order, before and after the valence cap, and the
   error cases) is a function of the element list and the distance matrix only.
   NOTE: this holds by construction of the model (make_graph_model factors through dmat); its content
   is model fidelity, which the correspondence checks.  The code orders the neighbours of an
   over-coordinated atom by (round(distance, 6), index) (/repo 3e32450: before that, equal distances at
   a cut were decided by float rounding and the graph of symmetric over-coordinated structures changed
   under rotation); the model orders by (exact distance, index).  The two agree except when two
   distances differ by less than the rounding resolution or sit on a rounding boundary: that margin
   class is skipped and counted by the harness. *)
Theorem graph_function_of_distance_matrix : forall tol el ps ps',
  dmat ps = dmat ps' ->
  make_graph_model tol el ps = make_graph_model tol el ps' /\
  make_graph_unpruned_model tol el ps = make_graph_unpruned_model tol el ps'.
Proof.
  intros tol el ps ps' H. unfold make_graph_model, make_graph_unpruned_model. rewrite H. split; reflexivity.
Qed.

(* hence it is unchanged by every translation, rotation and mirror reflection (R ranges over RATIONAL
   orthogonal matrices; exact arithmetic - see the note above for the tie class) *)
Theorem graph_rigid_invariant : forall R t, orth R -> forall tol el ps,
  make_graph_model tol el (map (rigid R t) ps) = make_graph_model tol el ps /\
  make_graph_unpruned_model tol el (map (rigid R t) ps) = make_graph_unpruned_model tol el ps.
Proof. intros R t H tol el ps. apply graph_function_of_distance_matrix. apply dmat_rigid. exact H. Qed.

(* ------------------------------------------------------------------ valence cap *)
(* for EVERY graph, distance table and cap: after remove_bonds_invalid_valancies no atom has more
   neighbours than its maximal valence *)
Theorem valence_cap_respected_any_graph : forall n d mv (g : graph) v,
  (v < n)%nat -> (degree (prune n d mv g) v <= mv v)%nat.
Proof. intros n d mv g v Hv. apply valence_cap_upto. exact Hv. Qed.

Theorem valence_cap_respected : forall tol el ps g,
  make_graph_model tol el ps = GraphOk g ->
  forall v, (v < length el)%nat -> (degree g v <= max_valence (elem el v))%nat.
Proof.
  intros tol el ps g H v Hv. unfold make_graph_model in H. destruct el as [|e el']; [discriminate|].
  destruct (elems_ok (e :: el')); [|discriminate]. injection H as <-.
  unfold perceive. apply (valence_cap_respected_any_graph _ _ (fun i => max_valence (elem (e :: el') i))). exact Hv.
Qed.

(* ------------------------------------------------------------------ bonded iff within tolerance *)
(* squared form = the code's test on the distance itself *)
Theorem bonded_squared_form : forall tol ei ej d2 s, 0 <= s -> s * s = d2 ->
  bonded tol ei ej d2 = within s (r0 ei ej) tol.
Proof. exact bonded_is_within. Qed.

Theorem distance_matrix_entries : forall ps i j, (i < length ps)%nat -> (j < length ps)%nat ->
  dm (dmat ps) i j = dist2 (nth i ps vzero) (nth j ps vzero).
Proof. exact dm_dmat. Qed.

(* Before the cap: two different atoms are bonded EXACTLY when their separation passes the
   tolerance-scaled equilibrium-length test (which is symmetric in the two atoms). *)
Theorem unpruned_bonded_iff_within_tolerance : forall tol el ps, length ps = length el ->
  forall a b,
    has_edge (perceive_edges tol el (dmat ps)) a b = true <->
    (a < length el)%nat /\ (b < length el)%nat /\ a <> b /\
    bonded tol (elem el a) (elem el b) (dm (dmat ps) a b) = true.
Proof.
  intros tol el ps Hl a b. unfold perceive_edges. rewrite has_edge_make_graph. split.
  - intros (Ha & Hb & Hne & H). repeat split; try assumption.
    destruct H as [H|H]; [exact H|]. change (bond_of tol el (dmat ps) a b = true).
    rewrite bond_of_sym by (rewrite Hl; assumption). exact H.
  - intros (Ha & Hb & Hne & H). repeat split; try assumption. left. exact H.
Qed.

(* After the cap: (1) every bond is within tolerance; (2) a pair within tolerance that is NOT bonded
   was removed by the valence cap while one of its two atoms, i, was treated: at that moment i had
   more neighbours than its maximal valence, the bond was present, and every neighbour i kept is at
   most as far from i as the removed one (the removed bonds are the longest at that atom). *)
Theorem bonded_iff_within_tolerance_or_pruned : forall tol el ps, length ps = length el ->
  let n := length el in
  let D := dmat ps in
  let mv := fun i => max_valence (elem el i) in
  let g0 := perceive_edges tol el D in
  (forall a b, has_edge (perceive tol el D) a b = true ->
     (a < n)%nat /\ (b < n)%nat /\ a <> b /\ bonded tol (elem el a) (elem el b) (dm D a b) = true) /\
  (forall a b, (a < n)%nat -> (b < n)%nat -> a <> b ->
     bonded tol (elem el a) (elem el b) (dm D a b) = true ->
     has_edge (perceive tol el D) a b = false ->
     exists i j, ((i = a /\ j = b) \/ (i = b /\ j = a)) /\ (i < n)%nat /\
       let g' := prune_upto (dm D) mv i g0 in
       (mv i < degree g' i)%nat /\
       has_edge g' i j = true /\ has_edge (prune_node (dm D) mv g' i) i j = false /\
       forall k, has_edge (prune_node (dm D) mv g' i) i k = true -> dm D i k <= dm D i j).
Proof.
  intros tol el ps Hl n D mv g0. split.
  - intros a b H. unfold perceive, prune in H. apply has_edge_prune_upto_sub in H.
    apply (unpruned_bonded_iff_within_tolerance tol el ps Hl). exact H.
  - intros a b Ha Hb Hne Hbd Hno.
    assert (H0 : has_edge g0 a b = true).
    { apply (unpruned_bonded_iff_within_tolerance tol el ps Hl). repeat split; assumption. }
    destruct (prune_upto_removed (dm D) mv n g0 a b H0 Hno) as (i & Hi & Hdeg & j & Hij & H1 & H2 & H3).
    exists i, j. split; [exact Hij|]. split; [exact Hi|]. cbv zeta. repeat split; assumption.
Qed.

(* Equally long bonds at the valence limit are removed in atom-index order (/repo 3e32450), so which
   of them survives does not depend on rounding: a neighbour that i KEEPS at exactly the distance of
   a neighbour j it LOSES has a smaller index than j.  (For every graph, distance table and cap.) *)
Theorem cap_ties_removed_by_index : forall d mv (g : graph) i j k,
  has_edge g i j = true -> has_edge (prune_node d mv g i) i j = false ->
  has_edge (prune_node d mv g i) i k = true -> d i k = d i j -> (k < j)%nat.
Proof. exact prune_node_ties_by_index. Qed.

(* ------------------------------------------------------------------ shape predicates *)
Theorem linear_rigid_invariant : forall R t, orth R -> forall ct ps,
  are_linear_model ct (map (rigid R t) ps) = are_linear_model ct ps.
Proof. intros R t H ct ps. apply are_linear_rigid. exact H. Qed.

(* linearity (as repaired by /repo 5a4ab9d: angles measured at every atom) does not depend on the
   order the atoms are listed in - for EVERY structure, over-coordinated or not, near the tolerance
   or not *)
Theorem linear_perm_invariant : forall ct ps ps', Permutation ps ps' ->
  are_linear_model ct ps = are_linear_model ct ps'.
Proof. exact are_linear_perm. Qed.

(* the literal loops (every atom i, every pair of the OTHER atoms) decide the same as the test over
   all ordered triples *)
Theorem linear_all_triples : forall ct ps,
  are_linear_model ct ps =
  if Nat.ltb (length ps) 2 then false else if Nat.eqb (length ps) 2 then true else are_linear_sym ct ps.
Proof. exact are_linear_model_eq. Qed.

(* rotation, translation AND reflection (orth R covers det R = -1).  The proof goes through the
   GENERATED test planar_off and needs its absolute value (Lemmas.planar_off_rigid): this is what
   /repo commit 805490b repaired. *)
Theorem planar_rigid_invariant : forall R t, orth R -> forall tol ps,
  are_planar_model tol (map (rigid R t) ps) = are_planar_model tol ps.
Proof. intros R t H tol ps. apply are_planar_rigid. exact H. Qed.

(* the one-sided test the code had before 805490b is NOT reflection invariant *)
Theorem planar_onesided_reflection_refuted : exists R t tol ps,
  orth R /\ det3 R = - (1) /\
  are_planar_onesided tol (map (rigid R t) ps) <> are_planar_onesided tol ps.
Proof.
  exists (mkM3 (mkV3 1 0 0) (mkV3 0 1 0) (mkV3 0 0 (- (1)))), vzero, (qc 1 10000),
         [mkV3 0 0 0; mkV3 1 0 0; mkV3 0 1 0; mkV3 0 0 1].
  split; [unfold orth; vm_compute; repeat split; apply Qc_is_canon; reflexivity|].
  split; [vm_compute; apply Qc_is_canon; reflexivity|]. vm_compute. discriminate.
Qed.

(* ------------------------------------------------------------------ atom order *)
(* s relabels the atoms (t is its inverse on 0..n-1); the relabelled structure lists atom i of the
   original at position s i *)
Definition relabelled (n : nat) (s t : nat -> nat) (el el' : list nat) (ps ps' : list V3) : Prop :=
  length el = n /\ length el' = n /\ length ps = n /\ length ps' = n /\
  (forall i, (i < n)%nat -> (s i < n)%nat) /\ (forall i, (i < n)%nat -> (t i < n)%nat) /\
  (forall i, (i < n)%nat -> t (s i) = i) /\ (forall i, (i < n)%nat -> s (t i) = i) /\
  (forall i, (i < n)%nat -> elem el' (s i) = elem el i /\ nth (s i) ps' vzero = nth i ps vzero).

Lemma relabelled_bond n s t el el' ps ps' tol : relabelled n s t el el' ps ps' ->
  forall i j, (i < n)%nat -> (j < n)%nat ->
    bond_of tol el' (dmat ps') (s i) (s j) = bond_of tol el (dmat ps) i j.
Proof.
  intros (L1 & L2 & L3 & L4 & Hs & Ht & Hts & Hst & Hx) i j Hi Hj. unfold bond_of.
  rewrite !dm_dmat by (rewrite ?L3, ?L4; auto).
  destruct (Hx i Hi) as [E1 P1]. destruct (Hx j Hj) as [E2 P2]. rewrite E1, E2, P1, P2. reflexivity.
Qed.

(* the unpruned edge set is carried along by every relabelling *)
Theorem edges_perm_equivariant : forall n s t el el' ps ps' tol,
  relabelled n s t el el' ps ps' ->
  forall a b, (a < n)%nat -> (b < n)%nat ->
    has_edge (perceive_edges tol el' (dmat ps')) (s a) (s b) =
    has_edge (perceive_edges tol el (dmat ps)) a b.
Proof.
  intros n s t el el' ps ps' tol H a b Ha Hb.
  pose proof (relabelled_bond n s t el el' ps ps' tol H) as Hbond.
  destruct H as (L1 & L2 & L3 & L4 & Hs & Ht & Hts & Hst & Hx).
  unfold perceive_edges. rewrite L1, L2.
  apply (edges_perm n (dm (dmat ps)) (dm (dmat ps')) _ _ s t); assumption.
Qed.

(* with no over-coordinated atom the WHOLE perceived graph is carried along (and the cap is the
   identity on both listings) *)
Theorem graph_perm_equivariant_no_overcoordination : forall n s t el el' ps ps' tol,
  relabelled n s t el el' ps ps' ->
  (forall v, (v < n)%nat -> (degree (perceive_edges tol el (dmat ps)) v <= max_valence (elem el v))%nat) ->
  forall a b, (a < n)%nat -> (b < n)%nat ->
    has_edge (perceive tol el' (dmat ps')) (s a) (s b) = has_edge (perceive tol el (dmat ps)) a b.
Proof.
  intros n s t el el' ps ps' tol H Hno a b Ha Hb.
  pose proof (relabelled_bond n s t el el' ps ps' tol H) as Hbond.
  destruct H as (L1 & L2 & L3 & L4 & Hs & Ht & Hts & Hst & Hx).
  unfold perceive, perceive_edges in *. rewrite L1, L2 in *.
  apply (perceived_perm n (dm (dmat ps)) (dm (dmat ps')) _ _
           (fun i => max_valence (elem el i)) (fun i => max_valence (elem el' i)) s t); try assumption.
  intros i Hi. destruct (Hx i Hi) as [E _]. rewrite E. reflexivity.
Qed.

(* with over-coordinated atoms the result depends on the order the atoms are listed in (the cap
   treats nodes in index order): four hydrogens on a line at 0, 4/5, 33/20, 51/20; listing them as
   (a, c, b, d) loses the bond c-d that the listing (a, b, c, d) keeps.  The property exempts this. *)
Definition h4_el : list nat := [0; 0; 0; 0]%nat.
Definition h4_ps : list V3 := [mkV3 0 0 0; mkV3 (qc 4 5) 0 0; mkV3 (qc 33 20) 0 0; mkV3 (qc 51 20) 0 0].
Definition h4_ps' : list V3 := [mkV3 0 0 0; mkV3 (qc 33 20) 0 0; mkV3 (qc 4 5) 0 0; mkV3 (qc 51 20) 0 0].
Definition swap12 (i : nat) : nat := match i with 1 => 2 | 2 => 1 | _ => i end%nat.

Theorem graph_perm_overcoordinated_witness :
  relabelled 4 swap12 swap12 h4_el h4_el h4_ps h4_ps' /\
  has_edge (perceive rel_tolerance_default h4_el (dmat h4_ps)) 2 3 = true /\
  has_edge (perceive rel_tolerance_default h4_el (dmat h4_ps')) (swap12 2) (swap12 3) = false.
Proof.
  split; [|split; vm_compute; reflexivity].
  unfold relabelled. repeat split; try reflexivity;
    try (intros i Hi; do 4 (destruct i as [|i]; [cbn; try lia; reflexivity|]); lia).
  all: do 4 (destruct i as [|i]; [reflexivity|]); lia.
Qed.

(* ------------------------------------------------------------------ non-vacuity *)
Definition rot_x : M3 := mkM3 (mkV3 1 0 0) (mkV3 0 (qc 3 5) (qc (-4) 5)) (mkV3 0 (qc 4 5) (qc 3 5)).
Definition mirror_x : M3 := mkM3 (mkV3 (- (1)) 0 0) (mkV3 0 (qc 3 5) (qc (-4) 5)) (mkV3 0 (qc 4 5) (qc 3 5)).

Example nonvacuous :
  (orth rot_x /\ det3 rot_x = 1) /\ (orth mirror_x /\ det3 mirror_x = - (1)) /\
  (* the cap acts: the H4 chain has over-coordinated atoms and loses bonds *)
  make_graph_unpruned_model rel_tolerance_default h4_el h4_ps = GraphOk [(0, 1); (1, 2); (2, 3)]%nat /\
  make_graph_model rel_tolerance_default h4_el h4_ps = GraphOk [(0, 1); (2, 3)]%nat /\
  (* a tetrahedral corner is not planar, a square is; a bent chain is not linear *)
  are_planar_model planar_tol_default [mkV3 0 0 0; mkV3 1 0 0; mkV3 0 1 0; mkV3 0 0 1] = false /\
  are_planar_model planar_tol_default [mkV3 0 0 0; mkV3 1 0 0; mkV3 1 1 0; mkV3 0 1 0] = true /\
  are_linear_model linear_cos_default [mkV3 0 0 0; mkV3 1 0 0; mkV3 (qc 2 1) 0 0] = true /\
  are_linear_model linear_cos_default [mkV3 0 0 0; mkV3 1 0 0; mkV3 (qc 2 1) 1 0] = false /\
  (* a dihedral with non-zero sine numerator *)
  dihedral_model [mkV3 1 1 0; mkV3 1 0 0; mkV3 0 0 0; mkV3 0 0 1] 0 1 2 3 = Some (1, 0, 1).
Proof.
  repeat split; try (vm_compute; apply Qc_is_canon; reflexivity); vm_compute; reflexivity.
Qed.
