(* Sums.v — finite sums, vectors and matrices over an arbitrary field with Leibniz equality.
   Vectors are functions nat -> F, matrices nat -> nat -> F; the dimension n is explicit.
   Every lemma holds for every n (induction on n); no axioms. *)
From Coq Require Import Arith Lia Field Ring List.
Import ListNotations.

Section Sums.
Variable F : Type.
Variables (F0 F1 : F) (Fadd Fmul Fsub : F -> F -> F) (Fopp : F -> F)
          (Fdiv : F -> F -> F) (Finv : F -> F).
Hypothesis Fth : field_theory F0 F1 Fadd Fmul Fsub Fopp Fdiv Finv (@eq F).
Add Field FfSums : Fth.

Declare Scope F_scope.
Delimit Scope F_scope with F.
Local Open Scope F_scope.
Notation "0" := F0 : F_scope.
Notation "1" := F1 : F_scope.
Infix "+" := Fadd : F_scope.
Infix "*" := Fmul : F_scope.
Infix "-" := Fsub : F_scope.
Infix "/" := Fdiv : F_scope.
Notation "- x" := (Fopp x) : F_scope.

Definition vec := nat -> F.
Definition mat := nat -> nat -> F.

Fixpoint sum (n : nat) (f : nat -> F) : F :=
  match n with O => 0 | S k => sum k f + f k end.

Lemma sum_ext n f g : (forall i, (i < n)%nat -> f i = g i) -> sum n f = sum n g.
Proof.
  induction n as [|n IH]; intros H; cbn [sum]; [reflexivity|].
  rewrite IH by (intros i Hi; apply H; lia). rewrite (H n) by lia. reflexivity.
Qed.

Lemma sum_zero n : sum n (fun _ => 0) = 0.
Proof. induction n as [|n IH]; cbn [sum]; [reflexivity|]. rewrite IH. ring. Qed.

Lemma sum_add n f g : sum n (fun i => f i + g i) = sum n f + sum n g.
Proof. induction n as [|n IH]; cbn [sum]; [ring|]. rewrite IH. ring. Qed.

Lemma sum_sub n f g : sum n (fun i => f i - g i) = sum n f - sum n g.
Proof. induction n as [|n IH]; cbn [sum]; [ring|]. rewrite IH. ring. Qed.

Lemma sum_opp n f : sum n (fun i => - f i) = - sum n f.
Proof. induction n as [|n IH]; cbn [sum]; [ring|]. rewrite IH. ring. Qed.

Lemma sum_scal_l n c f : sum n (fun i => c * f i) = c * sum n f.
Proof. induction n as [|n IH]; cbn [sum]; [ring|]. rewrite IH. ring. Qed.

Lemma sum_scal_r n c f : sum n (fun i => f i * c) = sum n f * c.
Proof. induction n as [|n IH]; cbn [sum]; [ring|]. rewrite IH. ring. Qed.

Lemma sum_div_r n c f : c <> 0 -> sum n (fun i => f i / c) = sum n f / c.
Proof. intros Hc. induction n as [|n IH]; cbn [sum]; [field; exact Hc|]. rewrite IH. field; exact Hc. Qed.

Lemma sum_swap n m (f : nat -> nat -> F) :
  sum n (fun i => sum m (fun j => f i j)) = sum m (fun j => sum n (fun i => f i j)).
Proof.
  induction n as [|n IH]; cbn [sum].
  - rewrite sum_zero. reflexivity.
  - rewrite IH. rewrite <- sum_add. reflexivity.
Qed.

(* Kronecker-delta selection *)
Lemma sum_single n k (f : nat -> F) :
  (k < n)%nat -> sum n (fun i => if Nat.eqb i k then f i else 0) = f k.
Proof.
  induction n as [|n IH]; intros Hk; [lia|]. cbn [sum].
  destruct (Nat.eqb n k) eqn:E.
  - apply Nat.eqb_eq in E; subst k.
    rewrite (sum_ext n _ (fun _ => 0)).
    + rewrite sum_zero. ring.
    + intros i Hi. destruct (Nat.eqb i n) eqn:E2; [apply Nat.eqb_eq in E2; lia|reflexivity].
  - apply Nat.eqb_neq in E. rewrite IH by lia. ring.
Qed.

(* ---------- vector and matrix operations ---------- *)
Definition vadd (a b : vec) : vec := fun i => a i + b i.
Definition vsub (a b : vec) : vec := fun i => a i - b i.
Definition vneg (a : vec) : vec := fun i => - a i.
Definition vscal (c : F) (a : vec) : vec := fun i => c * a i.
Definition vdivs (a : vec) (c : F) : vec := fun i => a i / c.
Definition dot (n : nat) (a b : vec) : F := sum n (fun i => a i * b i).
Definition outer (a b : vec) : mat := fun i j => a i * b j.
Definition matvec (n : nat) (A : mat) (v : vec) : vec := fun i => sum n (fun j => A i j * v j).
Definition vecmat (n : nat) (v : vec) (A : mat) : vec := fun j => sum n (fun i => v i * A i j).
Definition matmul (n : nat) (A B : mat) : mat := fun i j => sum n (fun k => A i k * B k j).
Definition madd (A B : mat) : mat := fun i j => A i j + B i j.
Definition msub (A B : mat) : mat := fun i j => A i j - B i j.
Definition mneg (A : mat) : mat := fun i j => - A i j.
Definition mscal (c : F) (A : mat) : mat := fun i j => c * A i j.
Definition mdivs (A : mat) (c : F) : mat := fun i j => A i j / c.
Definition transpose (A : mat) : mat := fun i j => A j i.
Definition ident : mat := fun i j => if Nat.eqb i j then 1 else 0.
Definition symmetric (n : nat) (A : mat) : Prop := forall i j, (i < n)%nat -> (j < n)%nat -> A i j = A j i.
Definition veq (n : nat) (a b : vec) : Prop := forall i, (i < n)%nat -> a i = b i.
Definition meq (n : nat) (A B : mat) : Prop := forall i j, (i < n)%nat -> (j < n)%nat -> A i j = B i j.

Lemma dot_comm n a b : dot n a b = dot n b a.
Proof. unfold dot. apply sum_ext. intros. ring. Qed.

Lemma dot_ext n a a' b b' : veq n a a' -> veq n b b' -> dot n a b = dot n a' b'.
Proof. intros Ha Hb. unfold dot. apply sum_ext. intros i Hi. rewrite Ha, Hb by exact Hi. reflexivity. Qed.

Lemma dot_vadd_l n a b c : dot n (vadd a b) c = dot n a c + dot n b c.
Proof. unfold dot, vadd. rewrite <- sum_add. apply sum_ext. intros. ring. Qed.

Lemma dot_vsub_l n a b c : dot n (vsub a b) c = dot n a c - dot n b c.
Proof. unfold dot, vsub. rewrite <- sum_sub. apply sum_ext. intros. ring. Qed.

Lemma dot_vadd_r n a b c : dot n c (vadd a b) = dot n c a + dot n c b.
Proof. rewrite dot_comm, dot_vadd_l, (dot_comm n a), (dot_comm n b). reflexivity. Qed.

Lemma dot_vsub_r n a b c : dot n c (vsub a b) = dot n c a - dot n c b.
Proof. rewrite dot_comm, dot_vsub_l, (dot_comm n a), (dot_comm n b). reflexivity. Qed.

Lemma dot_vscal_l n k a b : dot n (vscal k a) b = k * dot n a b.
Proof. unfold dot, vscal. rewrite <- sum_scal_l. apply sum_ext. intros. ring. Qed.

Lemma dot_vscal_r n k a b : dot n a (vscal k b) = k * dot n a b.
Proof. rewrite dot_comm, dot_vscal_l, dot_comm. reflexivity. Qed.

Lemma dot_vneg_l n a b : dot n (vneg a) b = - dot n a b.
Proof. unfold dot, vneg. rewrite <- sum_opp. apply sum_ext. intros. ring. Qed.

Lemma matvec_outer n a b v i : matvec n (outer a b) v i = a i * dot n b v.
Proof. unfold matvec, outer, dot. rewrite <- sum_scal_l. apply sum_ext. intros. ring. Qed.

Lemma matvec_madd n A B v i : matvec n (madd A B) v i = matvec n A v i + matvec n B v i.
Proof. unfold matvec, madd. rewrite <- sum_add. apply sum_ext. intros. ring. Qed.

Lemma matvec_msub n A B v i : matvec n (msub A B) v i = matvec n A v i - matvec n B v i.
Proof. unfold matvec, msub. rewrite <- sum_sub. apply sum_ext. intros. ring. Qed.

Lemma matvec_mscal n c A v i : matvec n (mscal c A) v i = c * matvec n A v i.
Proof. unfold matvec, mscal. rewrite <- sum_scal_l. apply sum_ext. intros. ring. Qed.

Lemma matvec_mdivs n c A v i : c <> 0 -> matvec n (mdivs A c) v i = matvec n A v i / c.
Proof. intros Hc. unfold matvec, mdivs. rewrite <- sum_div_r by exact Hc. apply sum_ext. intros. field; exact Hc. Qed.

Lemma matvec_vadd n A u v i : matvec n A (vadd u v) i = matvec n A u i + matvec n A v i.
Proof. unfold matvec, vadd. rewrite <- sum_add. apply sum_ext. intros. ring. Qed.

Lemma matvec_vsub n A u v i : matvec n A (vsub u v) i = matvec n A u i - matvec n A v i.
Proof. unfold matvec, vsub. rewrite <- sum_sub. apply sum_ext. intros. ring. Qed.

Lemma matvec_vscal n A c v i : matvec n A (vscal c v) i = c * matvec n A v i.
Proof. unfold matvec, vscal. rewrite <- sum_scal_l. apply sum_ext. intros. ring. Qed.

Lemma matvec_ext n A B u v : meq n A B -> veq n u v -> veq n (matvec n A u) (matvec n B v).
Proof. intros HA Hu i Hi. unfold matvec. apply sum_ext. intros j Hj. rewrite HA, Hu by assumption. reflexivity. Qed.

Lemma matvec_ident n v i : (i < n)%nat -> matvec n ident v i = v i.
Proof.
  intros Hi. unfold matvec, ident.
  rewrite (sum_ext n _ (fun j => if Nat.eqb j i then v j else 0)).
  - apply sum_single; exact Hi.
  - intros j Hj. rewrite (Nat.eqb_sym i j). destruct (Nat.eqb j i); ring.
Qed.

(* x . (A y) = (A^T x) . y  and for symmetric A:  x.(A y) = (A x).y *)
Lemma dot_matvec_transpose n A x y : dot n x (matvec n A y) = dot n (matvec n (transpose A) x) y.
Proof.
  unfold dot, matvec, transpose.
  rewrite (sum_ext n _ (fun i => sum n (fun j => x i * (A i j * y j)))) by (intros; rewrite sum_scal_l; reflexivity).
  rewrite sum_swap. apply sum_ext. intros j Hj.
  rewrite <- sum_scal_r. apply sum_ext. intros. ring.
Qed.

Lemma dot_matvec_sym n A x y : symmetric n A -> dot n x (matvec n A y) = dot n (matvec n A x) y.
Proof.
  intros HA. rewrite dot_matvec_transpose. apply dot_ext; [|intros i Hi; reflexivity].
  intros i Hi. unfold matvec, transpose. apply sum_ext. intros j Hj. rewrite HA by assumption. reflexivity.
Qed.

Lemma vecmat_is_matvec_transpose n v A j : vecmat n v A j = matvec n (transpose A) v j.
Proof. unfold vecmat, matvec, transpose. apply sum_ext. intros. ring. Qed.

Lemma vecmat_sym n v A j : symmetric n A -> (j < n)%nat -> vecmat n v A j = matvec n A v j.
Proof. intros HA Hj. unfold vecmat, matvec. apply sum_ext. intros i Hi. rewrite (HA i j) by assumption. ring. Qed.

Lemma outer_sym_self n a : symmetric n (outer a a).
Proof. intros i j _ _. unfold outer. ring. Qed.

Lemma symmetric_madd n A B : symmetric n A -> symmetric n B -> symmetric n (madd A B).
Proof. intros HA HB i j Hi Hj. unfold madd. rewrite HA, HB by assumption. reflexivity. Qed.

Lemma symmetric_msub n A B : symmetric n A -> symmetric n B -> symmetric n (msub A B).
Proof. intros HA HB i j Hi Hj. unfold msub. rewrite HA, HB by assumption. reflexivity. Qed.

Lemma symmetric_mscal n c A : symmetric n A -> symmetric n (mscal c A).
Proof. intros HA i j Hi Hj. unfold mscal. rewrite HA by assumption. reflexivity. Qed.

Lemma symmetric_mdivs n c A : symmetric n A -> symmetric n (mdivs A c).
Proof. intros HA i j Hi Hj. unfold mdivs. rewrite HA by assumption. reflexivity. Qed.

Lemma symmetric_outer_pair n a b : symmetric n (madd (outer a b) (outer b a)).
Proof. intros i j _ _. unfold madd, outer. ring. Qed.

Lemma matmul_matvec n A B v i :
  matvec n (matmul n A B) v i = matvec n A (matvec n B v) i.
Proof.
  unfold matvec, matmul.
  rewrite (sum_ext n _ (fun j => sum n (fun k => A i k * B k j * v j))) by (intros; rewrite sum_scal_r; reflexivity).
  rewrite sum_swap. apply sum_ext. intros k Hk. rewrite <- sum_scal_l. apply sum_ext. intros. ring.
Qed.

End Sums.
