(* QcInst.v — executable instance of Sums at canonical rationals Qc, with list conversions,
   tabulation (to avoid recomputation under vm_compute) and tolerance comparison helpers
   used only by the correspondence checks (never by a property theorem). *)
From Coq Require Import ZArith QArith Qcanon List Bool Lia Field.
From AV.lib Require Import Sums.
Import ListNotations.

Definition qc (n : Z) (d : positive) : Qc := Q2Qc (n # d).

Definition Qcfield := Qcft.

Definition vec_of_list (l : list Qc) : nat -> Qc := fun i => nth i l (Q2Qc 0).
Definition mat_of_list (l : list (list Qc)) : nat -> nat -> Qc :=
  fun i j => nth j (nth i l nil) (Q2Qc 0).
Definition list_of_vec (n : nat) (v : nat -> Qc) : list Qc := map v (seq 0 n).
Definition list_of_mat (n : nat) (A : nat -> nat -> Qc) : list (list Qc) :=
  map (fun i => map (A i) (seq 0 n)) (seq 0 n).

(* tabulation: same function on indices < n, evaluated once *)
Definition vtab (n : nat) (v : nat -> Qc) : nat -> Qc :=
  let l := list_of_vec n v in fun i => nth i l (Q2Qc 0).
Definition mtab (n : nat) (A : nat -> nat -> Qc) : nat -> nat -> Qc :=
  let l := list_of_mat n A in fun i j => nth j (nth i l nil) (Q2Qc 0).

Lemma nth_map_seq {A} (f : nat -> A) d n i : (i < n)%nat -> nth i (map f (seq 0 n)) d = f i.
Proof.
  intros Hi. rewrite (nth_indep _ d (f 0%nat)) by (rewrite map_length, seq_length; exact Hi).
  rewrite (map_nth f (seq 0 n) 0%nat i). rewrite seq_nth by exact Hi. reflexivity.
Qed.

Lemma vtab_eq n v i : (i < n)%nat -> vtab n v i = v i.
Proof. intros Hi. unfold vtab, list_of_vec. apply nth_map_seq; exact Hi. Qed.

Lemma mtab_eq n A i j : (i < n)%nat -> (j < n)%nat -> mtab n A i j = A i j.
Proof.
  intros Hi Hj. unfold mtab, list_of_mat.
  rewrite (nth_map_seq (fun i => map (A i) (seq 0 n)) nil n i Hi).
  apply nth_map_seq; exact Hj.
Qed.

(* ---- comparison helpers for correspondence (floats vs exact rationals) ---- *)
Definition Qcnonneg (x : Qc) : bool := Qle_bool 0 (this x).
Definition Qcabs (x : Qc) : Qc := if Qcnonneg x then x else (- x)%Qc.
Definition Qcleb (a b : Qc) : bool := Qle_bool (this a) (this b).
Definition Qcltb (a b : Qc) : bool := negb (Qle_bool (this b) (this a)).
Definition Qcmaxq (a b : Qc) : Qc := if Qcleb a b then b else a.
(* |a-b| <= tol * max(1,|b|) *)
Definition close (tol a b : Qc) : bool :=
  Qcleb (Qcabs (a - b)%Qc) (tol * Qcmaxq (Q2Qc 1) (Qcabs b))%Qc.
Fixpoint closeL (tol : Qc) (a b : list Qc) : bool :=
  match a, b with
  | [], [] => true
  | x :: a', y :: b' => close tol x y && closeL tol a' b'
  | _, _ => false
  end.
Fixpoint closeM (tol : Qc) (a b : list (list Qc)) : bool :=
  match a, b with
  | [], [] => true
  | x :: a', y :: b' => closeL tol x y && closeM tol a' b'
  | _, _ => false
  end.

(* indices of failing cases: the harness prints this single small list *)
Fixpoint bad_idx_from (k : nat) (l : list bool) : list nat :=
  match l with
  | [] => []
  | b :: r => if b then bad_idx_from (S k) r else k :: bad_idx_from (S k) r
  end.
Definition bad_idx (l : list bool) : list nat := bad_idx_from 0 l.
