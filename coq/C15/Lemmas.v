(* C15/Lemmas.v — proofs about the registry / naming / reuse / clean-up model of Model.v. *)
From Coq Require Import List String Ascii Bool ZArith Arith Lia.
From Coq Require DecimalString DecimalNat.
From AV.C15 Require Import Base Model.
From AV.gen Require Import C15_Gen.
Import ListNotations.
Open Scope list_scope.

(* ================================================================== generic list facts *)
Lemma NoDup_snoc {A} (l : list A) (x : A) : NoDup (l ++ [x]) <-> NoDup l /\ ~ In x l.
Proof.
  split.
  - intros H. apply NoDup_remove in H. rewrite app_nil_r in H. exact H.
  - intros [H1 H2]. induction l as [|a l IH]; simpl.
    + constructor; [intros []|constructor].
    + inversion H1 as [|? ? Ha Hl]; subst. constructor.
      * rewrite in_app_iff. intros [Hi|[Hi|[]]]; [exact (Ha Hi)|subst; apply H2; left; reflexivity].
      * apply IH; [exact Hl|intros Hi; apply H2; right; exact Hi].
Qed.

Lemma NoDup_app_r {A} (a b : list A) : NoDup (a ++ b) -> NoDup b.
Proof. induction a as [|x a IH]; simpl; intros H; [exact H|]. inversion H; subst. apply IH. assumption. Qed.

Lemma leqb_spec {A} (eqb : A -> A -> bool) : (forall x y, eqb x y = true <-> x = y) ->
  forall a b, leqb eqb a b = true <-> a = b.
Proof.
  intros H. induction a as [|x a IH]; destruct b as [|y b]; simpl; try (split; congruence).
  rewrite andb_true_iff, H, IH. split; [intros [-> ->]; reflexivity|intros E; injection E as -> ->; split; reflexivity].
Qed.
Lemma oeqb_spec {A} (eqb : A -> A -> bool) : (forall x y, eqb x y = true <-> x = y) ->
  forall a b, oeqb eqb a b = true <-> a = b.
Proof.
  intros H [x|] [y|]; simpl; try (split; congruence).
  rewrite H. split; [intros ->; reflexivity|intros E; injection E as ->; reflexivity].
Qed.
Lemma str_eqb_true a b : str_eqb a b = true <-> a = b.
Proof. apply leqb_spec. exact Ascii.eqb_eq. Qed.
Lemma str_eqb_refl a : str_eqb a a = true.
Proof. apply str_eqb_true. reflexivity. Qed.
Lemma str_eqb_false a b : str_eqb a b = false <-> a <> b.
Proof. rewrite <- str_eqb_true. destruct (str_eqb a b); split; congruence. Qed.
Lemma rat_eqb_spec a b : rat_eqb a b = true <-> a = b.
Proof.
  destruct a as [a1 a2], b as [b1 b2]. unfold rat_eqb. simpl. rewrite andb_true_iff, Z.eqb_eq, Pos.eqb_eq.
  split; [intros [-> ->]; reflexivity|intros E; injection E as -> ->; split; reflexivity].
Qed.
Lemma dr_eqb_spec a b : dr_eqb a b = true <-> a = b.
Proof.
  destruct a as [[a1 a2] a3], b as [[b1 b2] b3]. unfold dr_eqb. simpl.
  rewrite !andb_true_iff, !Nat.eqb_eq, rat_eqb_spec.
  split; [intros [[-> ->] ->]; reflexivity|intros E; injection E as -> -> ->; repeat split].
Qed.
Lemma dz_eqb_spec a b : dz_eqb a b = true <-> a = b.
Proof.
  destruct a as [[a1 a2] a3], b as [[b1 b2] b3]. unfold dz_eqb. simpl.
  rewrite !andb_true_iff, !Nat.eqb_eq, Z.eqb_eq.
  split; [intros [[-> ->] ->]; reflexivity|intros E; injection E as -> -> ->; repeat split].
Qed.
Lemma pc_eqb_spec a b : pc_eqb a b = true <-> a = b.
Proof.
  destruct a as [[[a1 a2] a3] a4], b as [[[b1 b2] b3] b4]. unfold pc_eqb. simpl.
  rewrite !andb_true_iff, !rat_eqb_spec.
  split; [intros [[[-> ->] ->] ->]; reflexivity|intros E; injection E as -> -> -> ->; repeat split].
Qed.
Lemma fval_eqb_spec a b : fval_eqb a b = true <-> a = b.
Proof.
  destruct a, b; simpl; try (split; congruence).
  - rewrite str_eqb_true. split; [intros ->; reflexivity|intros E; injection E as ->; reflexivity].
  - rewrite Z.eqb_eq. split; [intros ->; reflexivity|intros E; injection E as ->; reflexivity].
  - rewrite (leqb_spec str_eqb str_eqb_true). split; [intros ->; reflexivity|intros E; injection E as ->; reflexivity].
  - rewrite (oeqb_spec str_eqb str_eqb_true). split; [intros ->; reflexivity|intros E; injection E as ->; reflexivity].
  - rewrite (leqb_spec Nat.eqb Nat.eqb_eq). split; [intros ->; reflexivity|intros E; injection E as ->; reflexivity].
  - rewrite (leqb_spec dr_eqb dr_eqb_spec). split; [intros ->; reflexivity|intros E; injection E as ->; reflexivity].
  - rewrite (leqb_spec dz_eqb dz_eqb_spec). split; [intros ->; reflexivity|intros E; injection E as ->; reflexivity].
  - rewrite (oeqb_spec _ (leqb_spec pc_eqb pc_eqb_spec)). split; [intros ->; reflexivity|intros E; injection E as ->; reflexivity].
Qed.
Lemma ident_eqb_true a b : ident_eqb a b = true <-> a = b.
Proof. apply leqb_spec. exact fval_eqb_spec. Qed.

(* ================================================================== decimal suffixes *)
Definition is_digit (c : ascii) : bool := let n := nat_of_ascii c in Nat.leb 48 n && Nat.leb n 57.
Definition digits (s : str) : Prop := Forall (fun c => is_digit c = true) s.

Lemma uint_digits d : digits (s2l (DecimalString.NilEmpty.string_of_uint d)).
Proof. induction d; cbn; constructor; try reflexivity; exact IHd. Qed.
Lemma dec_digits n : digits (dec n).
Proof. apply uint_digits. Qed.

Lemma s2l_inj a b : s2l a = s2l b -> a = b.
Proof.
  intros H. rewrite <- (string_of_list_ascii_of_string a), <- (string_of_list_ascii_of_string b).
  unfold s2l in H. rewrite H. reflexivity.
Qed.
Lemma dec_inj n m : dec n = dec m -> n = m.
Proof.
  unfold dec. intros H. apply s2l_inj in H.
  assert (E : Some (Nat.to_uint n) = Some (Nat.to_uint m)).
  { rewrite <- !DecimalString.NilEmpty.usu. rewrite H. reflexivity. }
  injection E as E. rewrite <- (DecimalNat.Unsigned.of_to n), <- (DecimalNat.Unsigned.of_to m), E. reflexivity.
Qed.

Lemma digit_not_ws c : is_digit c = true -> is_ws c = false.
Proof. destruct c as [[] [] [] [] [] [] [] []]; vm_compute; congruence. Qed.
Lemma digit_okc c : is_digit c = true -> (negb (is_ws c) && Nat.ltb (nat_of_ascii c) 128) = true.
Proof. destruct c as [[] [] [] [] [] [] [] []]; vm_compute; congruence. Qed.
Lemma uscore_not_digit : is_digit uscore = false.
Proof. reflexivity. Qed.

(* a word that reappears shifted by a non-empty block of digits consists of digits only *)
Lemma digits_period n : forall V E Z1 Z2 : str, List.length V <= n -> E <> [] -> digits E ->
  V ++ Z2 = E ++ V ++ Z1 -> digits V.
Proof.
  induction n as [|n IH]; intros V E Z1 Z2 Hn HE HD Heq.
  - destruct V; [constructor|simpl in Hn; lia].
  - destruct (app_eq_app _ _ _ _ Heq) as [l [[H1 H2]|[H1 H2]]].
    + subst V. apply Forall_app. split; [exact HD|].
      apply (IH l E Z1 Z2); [|exact HE|exact HD|].
      * rewrite app_length in Hn. destruct E; [congruence|simpl in Hn; lia].
      * rewrite <- app_assoc in H2. symmetry. exact H2.
    + subst E. apply Forall_app in HD. tauto.
Qed.

(* f"{X}_{m}" followed by a decimal suffix determines X and the suffix *)
Lemma name_suffix_inj (X1 X2 m d1 d2 : str) : digits d1 -> digits d2 ->
  (X1 ++ uscore :: m) ++ d1 = (X2 ++ uscore :: m) ++ d2 -> X1 = X2 /\ d1 = d2.
Proof.
  assert (G : forall X1 X2 d1 d2 : str, digits d1 -> digits d2 -> forall e, d1 = e ++ d2 ->
              (X1 ++ uscore :: m) ++ d1 = (X2 ++ uscore :: m) ++ d2 -> X1 = X2 /\ d1 = d2).
  { clear. intros X1 X2 d1 d2 D1 D2 e He Heq. subst d1.
    rewrite app_assoc in Heq. apply app_inv_tail in Heq.
    destruct e as [|c e].
    - rewrite app_nil_r in Heq. apply app_inv_tail in Heq. split; [exact Heq|reflexivity].
    - exfalso. apply Forall_app in D1. destruct D1 as [De _].
      (* reverse: rev(c::e) ++ rev(_m) ++ rev X1 = rev(_m) ++ rev X2 *)
      apply (f_equal (@List.rev ascii)) in Heq. rewrite !rev_app_distr in Heq.
      assert (DV : digits (List.rev (uscore :: m))).
      { apply (digits_period (List.length (List.rev (uscore :: m))) _ (List.rev (c :: e)) (List.rev X1) (List.rev X2)).
        - lia.
        - intros E. apply (f_equal (@List.length ascii)) in E. rewrite rev_length in E. simpl in E. lia.
        - apply Forall_rev. exact De.
        - symmetry. exact Heq. }
      simpl in DV. apply Forall_app in DV. destruct DV as [_ DV]. inversion DV as [|? ? Hu _]; subst.
      rewrite uscore_not_digit in Hu. discriminate. }
  intros D1 D2 Heq.
  (* the shorter suffix is a tail of the longer one *)
  assert (L : exists e, d1 = e ++ d2 \/ d2 = e ++ d1).
  { apply (f_equal (@List.rev ascii)) in Heq. rewrite !rev_app_distr in Heq.
    destruct (app_eq_app _ _ _ _ Heq) as [l [[H1 _]|[H1 _]]].
    - exists (List.rev l). left. rewrite <- (rev_involutive d1), H1, rev_app_distr, rev_involutive. reflexivity.
    - exists (List.rev l). right. rewrite <- (rev_involutive d2), H1, rev_app_distr, rev_involutive. reflexivity. }
  destruct L as [e [He|He]].
  - exact (G X1 X2 d1 d2 D1 D2 e He Heq).
  - destruct (G X2 X1 d2 d1 D2 D1 e He (eq_sym Heq)) as [A B]. split; congruence.
Qed.

(* candidates of one base name, indexed: 0 = the base name, S j = base ++ str(j) *)
Definition candi (b : str) (t : nat) : str := match t with 0 => b | S j => b ++ dec j end.
Lemma cand_candi b k : cand b k = candi b (match k with None => 0 | Some j => S j end).
Proof. destruct k; reflexivity. Qed.
Lemma candi_suffix b t : exists d, digits d /\ candi b t = b ++ d.
Proof.
  destruct t as [|j]; simpl.
  - exists []. split; [constructor|rewrite app_nil_r; reflexivity].
  - exists (dec j). split; [apply dec_digits|reflexivity].
Qed.
Lemma candi_S_inj b i j : candi b (S i) = candi b (S j) -> i = j.
Proof. simpl. intros H. apply app_inv_head in H. apply dec_inj. exact H. Qed.

(* two requests with the same method whose (hyphen-normalised) requested names differ never
   compete for a calculation name *)
Lemma candi_names_independent (X1 X2 m : str) s t :
  candi (X1 ++ uscore :: m) s = candi (X2 ++ uscore :: m) t -> X1 = X2.
Proof.
  destruct (candi_suffix (X1 ++ uscore :: m) s) as [d1 [D1 E1]].
  destruct (candi_suffix (X2 ++ uscore :: m) t) as [d2 [D2 E2]].
  rewrite E1, E2. intros H. exact (proj1 (name_suffix_inj X1 X2 m d1 d2 D1 D2 H)).
Qed.

(* ================================================================== whitespace / tokens *)
(* a character the model is faithful for: 7-bit ASCII (Python's str.split() also separates at
   non-ASCII blanks such as U+00A0 / U+0085, which the byte-level model does not see) and no blank *)
Definition okc (c : ascii) : bool := negb (is_ws c) && Nat.ltb (nat_of_ascii c) 128.
Lemma okc_not_ws c : okc c = true -> is_ws c = false.
Proof. unfold okc. intros H. apply andb_true_iff in H. destruct H as [H _]. apply negb_true_iff. exact H. Qed.
Definition no_ws (s : str) : bool := forallb okc s.
Definition clean (s : str) : Prop := no_ws s = true /\ s <> [].

Lemma tok_no_ws s : no_ws s = true -> forall cur,
  tok cur s = match List.rev cur ++ s with [] => [] | w => [w] end.
Proof.
  induction s as [|c s IH]; intros H cur; simpl.
  - rewrite app_nil_r. destruct cur as [|a cur]; [reflexivity|].
    simpl. destruct (List.rev cur ++ [a]) eqn:E; [destruct (List.rev cur); discriminate|reflexivity].
  - simpl in H. apply andb_true_iff in H. destruct H as [Hc Hs]. apply okc_not_ws in Hc. rewrite Hc.
    rewrite (IH Hs (c :: cur)). simpl. rewrite <- app_assoc. reflexivity.
Qed.
Lemma tokens_clean s : clean s -> tokens s = [s].
Proof.
  intros [H1 H2]. unfold tokens. rewrite (tok_no_ws s H1 []). simpl. destruct s; [congruence|reflexivity].
Qed.
Lemma no_ws_app a b : no_ws (a ++ b) = no_ws a && no_ws b.
Proof. unfold no_ws. apply forallb_app. Qed.
Lemma digits_no_ws d : digits d -> no_ws d = true.
Proof.
  intros H. unfold no_ws. apply forallb_forall. intros c Hc.
  unfold digits in H. rewrite Forall_forall in H. exact (digit_okc c (H c Hc)).
Qed.
Lemma candi_clean b t : clean b -> clean (candi b t).
Proof.
  intros [H1 H2]. destruct (candi_suffix b t) as [d [D E]]. rewrite E. split.
  - rewrite no_ws_app, H1, (digits_no_ws d D). reflexivity.
  - destruct b; [congruence|discriminate].
Qed.

(* a request whose requested name and method contain no whitespace *)
Definition clean_req (r : request) : Prop := no_ws (rq_name r) = true /\ no_ws (rq_method r) = true.
Lemma strip_hyphen_no_ws s : no_ws s = true -> no_ws (strip_hyphen s) = true.
Proof.
  intros H. unfold strip_hyphen. destruct s as [|c s]; [exact H|].
  destruct (hyphen_rule && Ascii.eqb c hyphen); [|exact H].
  change (no_ws ([uscore] ++ c :: s) = true). rewrite no_ws_app, H. reflexivity.
Qed.
Lemma base_name_clean r : clean_req r -> clean (base_name r).
Proof.
  intros [H1 H2]. unfold base_name. split.
  - rewrite no_ws_app, (strip_hyphen_no_ws _ H1). change (no_ws ([uscore] ++ rq_method r) = true).
    rewrite no_ws_app, H2. reflexivity.
  - destruct (strip_hyphen (rq_name r)); discriminate.
Qed.

(* ================================================================== the identity embeds the name *)
Definition is_final (f : ifield) : bool := match f with IFinalName => true | _ => false end.
Lemma finalname_in : In IFinalName id_fields.
Proof.
  assert (H : existsb is_final id_fields = true) by reflexivity.
  apply existsb_exists in H. destruct H as [f [Hi Hf]]. destruct f; try discriminate. exact Hi.
Qed.
Lemma ident_of_name fields r r' N N' :
  In IFinalName fields -> ident_of fields r N = ident_of fields r' N' -> N = N'.
Proof.
  intros Hin H. unfold ident_of in H.
  assert (E : forall l, In IFinalName l -> map (fun f => iget f N r) l = map (fun f => iget f N' r') l -> N = N').
  { clear. induction l as [|f l IH]; intros Hin H; [destruct Hin|].
    simpl in H. injection H as H1 H2. destruct Hin as [->|Hin]; [simpl in H1; congruence|exact (IH Hin H2)]. }
  exact (E _ Hin H).
Qed.
Lemma idf_name r r' N N' : idf r N = idf r' N' -> N = N'.
Proof. apply ident_of_name. exact finalname_in. Qed.

(* ================================================================== dictionaries *)
Lemma d_exists_In d n : d_exists d n = true <-> In n (map fst d).
Proof.
  unfold d_exists. rewrite existsb_exists. split.
  - intros [e [He Hn]]. apply str_eqb_true in Hn. subst n. apply in_map. exact He.
  - intros H. apply in_map_iff in H. destruct H as [e [He Hi]]. exists e. split; [exact Hi|].
    apply str_eqb_true. exact He.
Qed.
Lemma d_exists_false d n : d_exists d n = false <-> ~ In n (map fst d).
Proof. rewrite <- d_exists_In. destruct (d_exists d n); split; congruence. Qed.
Lemma d_identical_In d i : d_identical d i = true <-> In i (map snd d).
Proof.
  unfold d_identical. rewrite existsb_exists. split.
  - intros [e [He Hn]]. apply ident_eqb_true in Hn. subst i. apply in_map. exact He.
  - intros H. apply in_map_iff in H. destruct H as [e [He Hi]]. exists e. split; [exact Hi|].
    apply ident_eqb_true. exact He.
Qed.
Lemma d_identical_false d i : d_identical d i = false <-> ~ In i (map snd d).
Proof. rewrite <- d_identical_In. destruct (d_identical d i); split; congruence. Qed.

Lemma dset_new k v d : d_exists d k = false -> dset k v d = d ++ [(k, v)].
Proof.
  induction d as [|[k' v'] d IH]; intros H; simpl; [reflexivity|].
  simpl in H. apply orb_false_iff in H. destruct H as [H1 H2].
  assert (E : str_eqb k k' = false).
  { apply str_eqb_false. apply str_eqb_false in H1. congruence. }
  rewrite E, (IH H2). reflexivity.
Qed.
Lemma dset_length k v d : List.length (dset k v d) <= S (List.length d).
Proof.
  induction d as [|[k' v'] d IH]; simpl; [lia|]. destruct (str_eqb k k'); simpl; lia.
Qed.
Definition bstep (d : dict) (l : record) : dict :=
  match parse_line l with Some (k, v) => dset k v d | None => d end.
Lemma build_fold R : build R = fold_left bstep R [].
Proof. reflexivity. Qed.
Lemma fold_bstep_length R : forall acc, List.length (fold_left bstep R acc) <= List.length acc + List.length R.
Proof.
  induction R as [|l R IH]; intros acc; simpl; [lia|].
  specialize (IH (bstep acc l)). unfold bstep in *. destruct (parse_line l) as [[k v]|].
  - pose proof (dset_length k v acc). lia.
  - lia.
Qed.
Lemma build_length R : List.length (build R) <= List.length R.
Proof. rewrite build_fold. pose proof (fold_bstep_length R []). simpl in H. exact H. Qed.
Lemma build_snoc R l : build (R ++ [l]) = bstep (build R) l.
Proof. rewrite !build_fold, fold_left_app. reflexivity. Qed.

(* ================================================================== well-formed registries *)
Definition names (R : registry) : list str := map fst R.
Definition ids (R : registry) : list ident := map snd R.
Definition wf_rec (l : record) : Prop := clean (fst l) /\ exists r, snd l = idf r (fst l).
Definition WF (R : registry) : Prop := Forall wf_rec R /\ NoDup (names R).

Lemma WF_nil : WF [].
Proof. split; constructor. Qed.
Lemma WF_snoc R l : WF (R ++ [l]) <-> WF R /\ wf_rec l /\ ~ In (fst l) (names R).
Proof.
  unfold WF, names. rewrite Forall_app, map_app. simpl. rewrite NoDup_snoc. split.
  - intros [[H1 H2] [H3 H4]]. inversion H2; subst. tauto.
  - intros [[H1 H2] [H3 H4]]. repeat split; try assumption. constructor; [exact H3|constructor].
Qed.
Lemma parse_clean l : clean (fst l) -> parse_line l = Some l.
Proof. intros H. unfold parse_line. rewrite (tokens_clean _ H). destruct l; reflexivity. Qed.
Lemma build_wf R : WF R -> build R = R.
Proof.
  induction R as [|l R IH] using rev_ind; intros H; [reflexivity|].
  apply WF_snoc in H. destruct H as [H1 [[H2 _] H3]].
  rewrite build_snoc, (IH H1). unfold bstep. rewrite (parse_clean l H2). destruct l as [k v].
  apply dset_new. apply d_exists_false. exact H3.
Qed.
Lemma NoDup_fst_unique {A B} (l : list (A * B)) a b b' :
  NoDup (map fst l) -> In (a, b) l -> In (a, b') l -> b = b'.
Proof.
  induction l as [|[x y] l IH]; intros N H1 H2; [destruct H1|].
  simpl in N. inversion N as [|? ? Nx Nl]; subst.
  destruct H1 as [E1|H1], H2 as [E2|H2].
  - congruence.
  - injection E1 as -> ->. exfalso. apply Nx. change a with (fst (a, b')). apply in_map. exact H2.
  - injection E2 as -> ->. exfalso. apply Nx. change a with (fst (a, b)). apply in_map. exact H1.
  - exact (IH Nl H1 H2).
Qed.
Lemma WF_unique R n i i' : WF R -> In (n, i) R -> In (n, i') R -> i = i'.
Proof. intros [_ N]. apply NoDup_fst_unique. exact N. Qed.
(* on a well-formed registry an identity is found only under the name it was computed for *)
Lemma WF_id_in R r c : WF R -> In (idf r c) (ids R) -> In (c, idf r c) R.
Proof.
  intros [F _] H. unfold ids in H. apply in_map_iff in H. destruct H as [[n i] [E Hi]]. simpl in E. subst i.
  rewrite Forall_forall in F. destruct (F _ Hi) as [_ [r0 E0]]. simpl in E0.
  assert (Ec : c = n) by exact (idf_name _ _ _ _ E0). subst c. exact Hi.
Qed.
Lemma in_names R n : In n (names R) <-> exists i, In (n, i) R.
Proof.
  unfold names. rewrite in_map_iff. split.
  - intros [[a b] [E H]]. simpl in E. subst a. exists b. exact H.
  - intros [i H]. exists (n, i). split; [reflexivity|exact H].
Qed.

(* ================================================================== the suffix loop *)
Section Loop.
Variables (d : dict) (b : str) (idn : str -> ident).
(* a candidate name that is taken by a different calculation *)
Definition busy (c : str) : Prop := d_identical d (idn c) = false /\ d_exists d c = true.
(* a candidate name the search stops at: appended (a = true) or found identical (a = false) *)
Definition final (c : str) (a : bool) : Prop :=
  if a then d_identical d (idn c) = false /\ d_exists d c = false else d_identical d (idn c) = true.

Lemma loop_sound fuel : forall n nm a, suffix_loop fuel n d b idn = FU nm a ->
  exists j, j < fuel /\ nm = b ++ dec (n + j) /\ (forall i, i < j -> busy (b ++ dec (n + i))) /\ final nm a.
Proof.
  induction fuel as [|f IH]; intros n nm a H; simpl in H; [discriminate|].
  destruct (d_identical d (idn (b ++ dec n))) eqn:E1.
  - injection H as <- <-. exists 0. rewrite Nat.add_0_r.
    split; [lia|]. split; [reflexivity|]. split; [intros i Hi; lia|exact E1].
  - destruct (d_exists d (b ++ dec n)) eqn:E2; simpl in H.
    + destruct (IH _ _ _ H) as [j [Hj [Hn [Hb Hf]]]]. exists (S j).
      split; [lia|]. split; [rewrite Hn; f_equal; f_equal; lia|]. split; [|exact Hf].
      intros i Hi. destruct i as [|i]; [rewrite Nat.add_0_r; split; assumption|].
      replace (n + S i) with (S n + i) by lia. apply Hb. lia.
    + injection H as <- <-. exists 0. rewrite Nat.add_0_r.
      split; [lia|]. split; [reflexivity|]. split; [intros i Hi; lia|split; assumption].
Qed.
Lemma loop_complete fuel : forall n j a, j < fuel -> (forall i, i < j -> busy (b ++ dec (n + i))) ->
  final (b ++ dec (n + j)) a -> suffix_loop fuel n d b idn = FU (b ++ dec (n + j)) a.
Proof.
  induction fuel as [|f IH]; intros n j a Hj Hb Hf; [lia|]. simpl.
  destruct j as [|j].
  - rewrite Nat.add_0_r in *. destruct a; simpl in Hf.
    + destruct Hf as [H1 H2]. rewrite H1, H2. reflexivity.
    + rewrite Hf. reflexivity.
  - destruct (Hb 0 ltac:(lia)) as [H1 H2]. rewrite Nat.add_0_r in H1, H2. rewrite H1, H2. simpl.
    replace (n + S j) with (S n + j) by lia. apply IH; [lia| |replace (S n + j) with (n + S j) by lia; exact Hf].
    intros i Hi. replace (S n + i) with (n + S i) by lia. apply Hb. lia.
Qed.
Lemma loop_oof fuel : forall n, suffix_loop fuel n d b idn = FUOutOfFuel ->
  forall k, k < fuel -> d_exists d (b ++ dec (n + k)) = true.
Proof.
  induction fuel as [|f IH]; intros n H k Hk; [lia|]. simpl in H.
  destruct (d_identical d (idn (b ++ dec n))); [discriminate|].
  destruct (d_exists d (b ++ dec n)) eqn:E; simpl in H; [|discriminate].
  destruct k as [|k]; [rewrite Nat.add_0_r; exact E|].
  replace (n + S k) with (S n + k) by lia. apply IH; [exact H|lia].
Qed.
End Loop.

Lemma fu_sound fuel R b idn nm a : fix_unique_fuel fuel R b idn = FU nm a ->
  exists t, t <= fuel /\ nm = candi b t /\ (forall s, s < t -> busy (build R) idn (candi b s)) /\
            final (build R) idn nm a.
Proof.
  unfold fix_unique_fuel. intros H.
  destruct (d_identical (build R) (idn b)) eqn:E1.
  - injection H as <- <-. exists 0.
    split; [lia|]. split; [reflexivity|]. split; [intros s Hs; lia|exact E1].
  - destruct (d_exists (build R) b) eqn:E2; simpl in H.
    + destruct (loop_sound _ _ _ _ _ _ _ H) as [j [Hj [Hn [Hb Hf]]]]. exists (S j).
      split; [lia|]. split; [exact Hn|]. split; [|exact Hf].
      intros s Hs. destruct s as [|s]; [split; assumption|]. simpl. apply (Hb s). lia.
    + injection H as <- <-. exists 0.
      split; [lia|]. split; [reflexivity|]. split; [intros s Hs; lia|split; assumption].
Qed.
Lemma fu_complete fuel R b idn t a : t <= fuel ->
  (forall s, s < t -> busy (build R) idn (candi b s)) -> final (build R) idn (candi b t) a ->
  fix_unique_fuel fuel R b idn = FU (candi b t) a.
Proof.
  intros Ht Hb Hf. unfold fix_unique_fuel. destruct t as [|j].
  - simpl in Hf. destruct a; simpl in Hf.
    + destruct Hf as [H1 H2]. rewrite H1, H2. reflexivity.
    + rewrite Hf. reflexivity.
  - destruct (Hb 0 ltac:(lia)) as [H1 H2]. simpl in H1, H2. rewrite H1, H2. simpl.
    apply (loop_complete (build R) b idn fuel 0 j a); [lia| |exact Hf].
    intros i Hi. apply (Hb (S i)). lia.
Qed.

Lemma NoDup_map_inj {A B} (f : A -> B) l : (forall x y, f x = f y -> x = y) -> NoDup l -> NoDup (map f l).
Proof.
  intros Hf N. induction N as [|x l Hx N IH]; simpl; constructor; [|exact IH].
  intros H. apply in_map_iff in H. destruct H as [y [E Hy]]. apply Hf in E. subst y. exact (Hx Hy).
Qed.
(* the fuel |registry| + 1 is never exhausted: the candidates name0, name1, ... are pairwise
   different and the dictionary has at most |registry| keys *)
Lemma fix_unique_total R b idn : fix_unique R b idn <> FUOutOfFuel.
Proof.
  unfold fix_unique, fix_unique_fuel. intros H.
  destruct (d_identical (build R) (idn b)); [discriminate|].
  destruct (d_exists (build R) b); cbn [negb] in H; [|discriminate].
  pose proof (loop_oof _ _ _ _ _ H) as A.
  set (L := map (fun k => b ++ dec k) (seq 0 (S (List.length R)))).
  assert (N : NoDup L).
  { apply NoDup_map_inj; [|apply seq_NoDup]. intros x y E. apply app_inv_head in E. apply dec_inj. exact E. }
  assert (I : incl L (map fst (build R))).
  { intros c Hc. unfold L in Hc. apply in_map_iff in Hc. destruct Hc as [k [<- Hk]]. apply in_seq in Hk.
    apply d_exists_In. apply (A k). destruct Hk as [_ Hk]. exact Hk. }
  pose proof (NoDup_incl_length N I) as Len. unfold L in Len.
  rewrite !map_length, seq_length in Len. pose proof (build_length R) as H0.
  exact (Nat.nle_succ_diag_l _ (Nat.le_trans _ _ _ Len H0)).
Qed.

(* ================================================================== one request against a well-formed registry *)
Lemma wf_exists R n : WF R -> (d_exists (build R) n = true <-> In n (names R)).
Proof. intros H. rewrite (build_wf R H). apply d_exists_In. Qed.
Lemma wf_identical R i : WF R -> (d_identical (build R) i = true <-> In i (ids R)).
Proof. intros H. rewrite (build_wf R H). apply d_identical_In. Qed.

Lemma reg_step_from_spec R b r R' N : reg_step_from R b r = (R', N) ->
  exists t a, t <= S (List.length R) /\ N = candi b t /\
    (forall s, s < t -> busy (build R) (idf r) (candi b s)) /\
    final (build R) (idf r) N a /\ R' = (if a then R ++ [(N, idf r N)] else R) /\
    fix_unique R b (idf r) = FU N a.
Proof.
  unfold reg_step_from. destruct (fix_unique R b (idf r)) as [nm a|] eqn:E.
  - destruct (fu_sound _ _ _ _ _ _ E) as [t [Ht [Hn [Hb Hf]]]]. intros H. exists t, a.
    destruct a; injection H as <- <-; repeat (split; try assumption); reflexivity.
  - exfalso. exact (fix_unique_total _ _ _ E).
Qed.
Lemma reg_step_spec R r R' N : reg_step R r = (R', N) ->
  exists t a, t <= S (List.length R) /\ N = candi (base_name r) t /\
    (forall s, s < t -> busy (build R) (idf r) (candi (base_name r) s)) /\
    final (build R) (idf r) N a /\ R' = (if a then R ++ [(N, idf r N)] else R) /\
    fix_unique R (base_name r) (idf r) = FU N a.
Proof. apply reg_step_from_spec. Qed.

Lemma incl_names R R' : incl R R' -> incl (names R) (names R').
Proof. intros H n Hn. apply in_names in Hn. destruct Hn as [i Hi]. apply in_names. exists i. exact (H _ Hi). Qed.

(* whatever clean name the object carries when the registry is consulted *)
Lemma reg_step_from_wf R b r R' N : WF R -> clean b -> reg_step_from R b r = (R', N) ->
  WF R' /\ incl R R' /\ In (N, idf r N) R' /\ exists t, N = candi b t.
Proof.
  intros W C H. destruct (reg_step_from_spec _ _ _ _ _ H) as [t [a [_ [Hn [_ [Hf [HR _]]]]]]].
  destruct a; simpl in Hf; subst R'.
  - destruct Hf as [_ Hx]. split; [|split; [|split]].
    + apply WF_snoc. split; [exact W|]. split.
      * split; [|exists r; reflexivity]. simpl. rewrite Hn. apply candi_clean. exact C.
      * simpl. intros Hin. apply (wf_exists R N W) in Hin. congruence.
    + apply incl_appl. apply incl_refl.
    + apply in_or_app. right. left. reflexivity.
    + exists t. exact Hn.
  - split; [exact W|]. split; [apply incl_refl|]. split; [|exists t; exact Hn].
    apply (wf_identical R _ W) in Hf. apply WF_id_in; assumption.
Qed.
Lemma reg_step_wf R r R' N : WF R -> clean_req r -> reg_step R r = (R', N) ->
  WF R' /\ incl R R' /\ In (N, idf r N) R' /\ exists t, N = candi (base_name r) t.
Proof. intros W C. apply reg_step_from_wf; [exact W|apply base_name_clean; exact C]. Qed.

Lemma reg_run_app R h1 h2 :
  reg_run R (h1 ++ h2) =
  let '(R1, n1) := reg_run R h1 in let '(R2, n2) := reg_run R1 h2 in (R2, n1 ++ n2).
Proof.
  revert R. induction h1 as [|r h1 IH]; intros R; simpl.
  - destruct (reg_run R h2). reflexivity.
  - destruct (reg_step R r) as [Ra n]. rewrite IH. destruct (reg_run Ra h1) as [R1 n1].
    destruct (reg_run R1 h2). reflexivity.
Qed.

Lemma reg_run_wf h : forall R R' ns, WF R -> Forall clean_req h -> reg_run R h = (R', ns) ->
  WF R' /\ incl R R' /\
  forall p r N, nth_error h p = Some r -> nth_error ns p = Some N ->
                In (N, idf r N) R' /\ exists t, N = candi (base_name r) t.
Proof.
  induction h as [|r0 h IH]; intros R R' ns W C H; simpl in H.
  - injection H as <- <-. split; [exact W|]. split; [apply incl_refl|]. intros p r N Hp. destruct p; discriminate.
  - inversion C as [|? ? C0 Ch]; subst.
    destruct (reg_step R r0) as [R1 n0] eqn:E1. destruct (reg_run R1 h) as [R2 ns2] eqn:E2.
    injection H as <- <-.
    destruct (reg_step_wf _ _ _ _ W C0 E1) as [W1 [I1 [B1 T1]]].
    destruct (IH _ _ _ W1 Ch E2) as [W2 [I2 B2]].
    split; [exact W2|]. split; [intros x Hx; exact (I2 _ (I1 _ Hx))|].
    intros p r N Hp Hn. destruct p as [|p]; simpl in Hp, Hn.
    + injection Hp as <-. injection Hn as <-. split; [exact (I2 _ B1)|exact T1].
    + exact (B2 _ _ _ Hp Hn).
Qed.

(* the registry is consulted again with the same request, later, after any further requests *)
Lemma reg_step_again R r R1 N R2 : WF R -> clean_req r -> reg_step R r = (R1, N) ->
  WF R2 -> incl R1 R2 -> reg_step R2 r = (R2, N).
Proof.
  intros W C H W2 I.
  destruct (reg_step_wf _ _ _ _ W C H) as [W1 [I1 [B1 _]]].
  destruct (reg_step_spec _ _ _ _ H) as [t [a [Ht [Hn [Hb [_ _]]]]]].
  assert (Len : List.length R <= List.length R2).
  { pose proof (NoDup_incl_length (proj2 W) (incl_names _ _ (fun x Hx => I _ (I1 _ Hx)))) as L.
    unfold names in L. rewrite !map_length in L. exact L. }
  assert (F : fix_unique R2 (base_name r) (idf r) = FU N false).
  { unfold fix_unique. rewrite Hn. apply fu_complete.
    - lia.
    - intros s Hs. destruct (Hb s Hs) as [Hi He]. split.
      + apply d_identical_false. rewrite (build_wf R2 W2). intros Hin.
        pose proof (WF_id_in R2 r _ W2 Hin) as In2.
        apply (wf_exists R _ W) in He. apply in_names in He. destruct He as [i0 Hi0].
        pose proof (WF_unique R2 _ _ _ W2 In2 (I _ (I1 _ Hi0))) as Eq. subst i0.
        apply d_identical_false in Hi. apply Hi. rewrite (build_wf R W).
        change (In (snd (candi (base_name r) s, idf r (candi (base_name r) s))) (map snd R)).
        apply in_map. exact Hi0.
      + apply (wf_exists R2 _ W2). apply (incl_names R R2 (fun x Hx => I _ (I1 _ Hx))).
        apply (wf_exists R _ W). exact He.
    - simpl. apply (wf_identical R2 _ W2). rewrite <- Hn.
      change (In (snd (N, idf r N)) (map snd R2)). apply in_map. exact (I _ B1). }
  unfold reg_step, reg_step_from. rewrite F. reflexivity.
Qed.

(* ================================================================== which property fields the identity determines *)
Lemma covers_sound f p N N' r1 r2 : covers f p = true -> iget f N r1 = iget f N' r2 -> pget p r1 = pget p r2.
Proof. destruct f, p; simpl; intros H E; try discriminate; exact E. Qed.
Lemma ident_of_fields fields r1 r2 N N' : ident_of fields r1 N = ident_of fields r2 N' ->
  forall f, In f fields -> iget f N r1 = iget f N' r2.
Proof.
  unfold ident_of. induction fields as [|g l IH]; intros H f Hf; [destruct Hf|].
  simpl in H. injection H as H1 H2. destruct Hf as [->|Hf]; [exact H1|exact (IH H2 f Hf)].
Qed.
Lemma covered_sound fields p r1 r2 N N' : covered p fields = true ->
  ident_of fields r1 N = ident_of fields r2 N' -> pget p r1 = pget p r2.
Proof.
  unfold covered. intros H E. apply existsb_exists in H. destruct H as [f [Hf Hc]].
  exact (covers_sound f p N N' r1 r2 Hc (ident_of_fields _ _ _ _ _ E f Hf)).
Qed.
(* a property field no hashed field looks at cannot change the identity *)
Definition agree_except (p : pfield) (r1 r2 : request) : Prop := forall q, q <> p -> pget q r1 = pget q r2.
Lemma untouched_same fields p r1 r2 N : untouched p fields = true -> agree_except p r1 r2 ->
  ident_of fields r1 N = ident_of fields r2 N.
Proof.
  unfold untouched, ident_of. intros H A. apply negb_true_iff in H.
  apply map_ext_in. intros f Hf.
  assert (T : touches f p = false).
  { destruct (touches f p) eqn:E; [|reflexivity]. exfalso.
    assert (X : existsb (fun f => touches f p) fields = true) by (apply existsb_exists; exists f; split; assumption).
    congruence. }
  clear H Hf. unfold agree_except in A.
  destruct f; simpl; try reflexivity.
  - assert (E := A PMethod). destruct p; simpl in T; try discriminate; simpl in E; injection (E ltac:(discriminate)) as ->; reflexivity.
  - assert (E := A PKeywords). destruct p; simpl in T; try discriminate; simpl in E; injection (E ltac:(discriminate)) as ->; reflexivity.
  - assert (E := A PSpName). destruct p; simpl in T; try discriminate; simpl in E; injection (E ltac:(discriminate)) as ->; reflexivity.
  - assert (E := A PCharge). destruct p; simpl in T; try discriminate; simpl in E; injection (E ltac:(discriminate)) as ->; reflexivity.
  - assert (E := A PMult). destruct p; simpl in T; try discriminate; simpl in E; injection (E ltac:(discriminate)) as ->; reflexivity.
  - assert (E := A PComposition). destruct p; simpl in T; try discriminate; simpl in E; injection (E ltac:(discriminate)) as ->; reflexivity.
  - assert (E := A PComposition). destruct p; simpl in T; try discriminate; simpl in E; injection (E ltac:(discriminate)) as ->; reflexivity.
  - assert (E := A PSolvent). destruct p; simpl in T; try discriminate; simpl in E; injection (E ltac:(discriminate)) as ->; reflexivity.
  - assert (E := A PSolvModel). destruct p; simpl in T; try discriminate; simpl in E; injection (E ltac:(discriminate)) as ->; reflexivity.
  - assert (E := A PCart). destruct p; simpl in T; try discriminate; simpl in E; injection (E ltac:(discriminate)) as ->; reflexivity.
  - assert (E := A PDist). destruct p; simpl in T; try discriminate; simpl in E; injection (E ltac:(discriminate)) as ->; reflexivity.
  - assert (E := A PDist). destruct p; simpl in T; try discriminate; simpl in E; injection (E ltac:(discriminate)) as ->; reflexivity.
  - assert (E := A PPointCharges). destruct p; simpl in T; try discriminate; simpl in E; injection (E ltac:(discriminate)) as ->; reflexivity.
Qed.

(* ================================================================== files *)
Lemma in_fs_remove nm fs f : In f (fs_remove nm fs) -> In f fs /\ f_name f <> nm.
Proof.
  unfold fs_remove. intros H. apply filter_In in H. destruct H as [H1 H2]. split; [exact H1|].
  apply negb_true_iff in H2. apply str_eqb_false. exact H2.
Qed.
Lemma in_fs_write g fs f : In f (fs_write g fs) -> f = g \/ (In f fs /\ f_name f <> f_name g).
Proof. unfold fs_write. intros [H|H]; [left; congruence|right; apply in_fs_remove; exact H]. Qed.
Lemma in_fs_remove_all nms : forall fs f, In f (fs_remove_all nms fs) -> In f fs /\ ~ In (f_name f) nms.
Proof.
  unfold fs_remove_all. induction nms as [|nm nms IH]; intros fs f H; simpl in H; [split; [exact H|intros []]|].
  destruct (IH _ _ H) as [H1 H2]. apply in_fs_remove in H1. destruct H1 as [H1 H3].
  split; [exact H1|]. intros [E|E]; [congruence|exact (H2 E)].
Qed.
Lemma fs_remove_all_keeps nms : forall fs f, In f fs -> ~ In (f_name f) nms -> In f (fs_remove_all nms fs).
Proof.
  unfold fs_remove_all. induction nms as [|nm nms IH]; intros fs f H1 H2; simpl; [exact H1|].
  apply IH; [|intros E; apply H2; right; exact E].
  unfold fs_remove. apply filter_In. split; [exact H1|]. apply negb_true_iff. apply str_eqb_false.
  intros E. apply H2. left. congruence.
Qed.
Lemma fs_find_some fs nm f : fs_find fs nm = Some f -> In f fs /\ f_name f = nm.
Proof. unfold fs_find. intros H. apply find_some in H. destruct H as [H1 H2]. split; [exact H1|apply str_eqb_true; exact H2]. Qed.

Lemma app_eq_len {A} (a b c d : list A) : a ++ b = c ++ d -> List.length b = List.length d -> a = c /\ b = d.
Proof.
  revert c. induction a as [|x a IH]; intros c H L.
  - destruct c as [|y c]; [split; [reflexivity|exact H]|].
    simpl in H. subst b. simpl in L. rewrite app_length in L. lia.
  - destruct c as [|y c].
    + simpl in H. subst d. simpl in L. rewrite app_length in L. lia.
    + simpl in H. injection H as -> H. destruct (IH c H L) as [-> ->]. split; reflexivity.
Qed.

Definition ext_len_ok (e : string * string * string) : bool := Nat.eqb (List.length (s2l (snd e))) 4.
Lemma lookup_ext_len t : forallb ext_len_ok t = true -> forall m i o, lookup_ext m t = Some (i, o) -> List.length o = 4.
Proof.
  induction t as [|[[k i0] o0] t IH]; intros H m i o L; simpl in L; [discriminate|].
  simpl in H. apply andb_true_iff in H. destruct H as [H1 H2].
  destruct (str_eqb (s2l k) m).
  - injection L as <- <-. apply Nat.eqb_eq in H1. exact H1.
  - exact (IH H2 _ _ _ L).
Qed.
(* every output extension of the generated table (and the default) has four characters *)
Lemma out_ext_len m : List.length (out_ext m) = 4.
Proof.
  unfold out_ext. destruct (lookup_ext m ext_table) as [[i o]|] eqn:E; [|reflexivity].
  apply (lookup_ext_len ext_table) with (m := m) (i := i); [reflexivity|exact E].
Qed.
Lemma side_name_not_out N m : side_name N <> N ++ out_ext m.
Proof.
  unfold side_name. intros H. apply app_inv_head in H. apply (f_equal (@List.length ascii)) in H.
  rewrite out_ext_len in H. vm_compute in H. discriminate.
Qed.

(* ================================================================== the directory invariant *)
Definition clean_op (o : op) : Prop :=
  clean_req (o_req o) /\ match o_start o with Some b => clean b | None => True end.
Lemma clean_op_start o : clean_op o -> clean (op_start o).
Proof. intros [C S]. unfold op_start. destruct (o_start o); [exact S|apply base_name_clean; exact C]. Qed.
(* an output file is named after its owner and method, and the owner's registry line is the
   identity of the request that produced it *)
Definition out_ok (R : registry) (f : file) : Prop :=
  match f_kind f with
  | KOutput c => f_name f = f_owner f ++ out_ext (rq_method (c_producer c)) /\
                 In (f_owner f, idf (c_producer c) (f_owner f)) R
  | KTraj c => f_name f = trj_name (f_owner f) /\ In (f_owner f, idf (c_producer c) (f_owner f)) R
  | _ => True
  end.
Definition Inv (st : state) : Prop := WF (st_reg st) /\ Forall (out_ok (st_reg st)) (st_fs st).

Lemma out_ok_incl R R' f : incl R R' -> out_ok R f -> out_ok R' f.
Proof. intros I. unfold out_ok. destruct (f_kind f); try exact (fun x => x); intros [H1 H2]; split; [exact H1|exact (I _ H2)|exact H1|exact (I _ H2)]. Qed.
Lemma Forall_fs_write (P : file -> Prop) g fs : P g -> Forall P fs -> Forall P (fs_write g fs).
Proof.
  intros Hg H. apply Forall_forall. intros f Hf. apply in_fs_write in Hf.
  destruct Hf as [->|[Hf _]]; [exact Hg|]. rewrite Forall_forall in H. exact (H _ Hf).
Qed.
Lemma Forall_stage_inputs (P : file -> Prop) N l : (forall nm, P (mkFile nm N KInput)) ->
  forall fs, Forall P fs -> Forall P (stage_inputs N l fs).
Proof.
  intros Hn. unfold stage_inputs. induction l as [|nm l IH]; intros fs H; simpl; [exact H|].
  apply IH. apply Forall_fs_write; [apply Hn|exact H].
Qed.
Lemma Forall_remove_all (P : file -> Prop) nms fs : Forall P fs -> Forall P (fs_remove_all nms fs).
Proof.
  intros H. apply Forall_forall. intros f Hf. apply in_fs_remove_all in Hf. rewrite Forall_forall in H. exact (H _ (proj1 Hf)).
Qed.
Lemma Forall_stage_cleanup (P : file -> Prop) cm b N inputs outF fs : Forall P fs -> Forall P (stage_cleanup cm b N inputs outF fs).
Proof.
  intros H. unfold stage_cleanup. destruct cm; [exact H|destruct b; [apply Forall_remove_all|]; exact H| |];
  apply Forall_remove_all; exact H.
Qed.
Lemma Forall_stage_program (P : file -> Prop) skip oc N outF r fs :
  P (mkFile (side_name N) N KSide) -> (forall b, P (mkFile outF N (KOutput (mkContent b r)))) ->
  Forall P fs -> Forall P (stage_program skip oc N outF r fs).
Proof.
  intros H1 H2 H. unfold stage_program. destruct skip; [exact H|].
  destruct oc; [| |exact H]; apply Forall_fs_write; try exact H1; apply Forall_fs_write; try apply H2; exact H.
Qed.

(* the stages of exec_op, named *)
Definition ex_N (st : state) (o : op) : str := snd (reg_step_from (st_reg st) (op_start o) (o_req o)).
Definition ex_R (st : state) (o : op) : registry := fst (reg_step_from (st_reg st) (op_start o) (o_req o)).
Definition ex_outF (st : state) (o : op) : str := ex_N st o ++ out_ext (rq_method (o_req o)).
Definition ex_inputs (st : state) (o : op) : list str := (ex_N st o ++ in_ext (rq_method (o_req o))) :: o_aux o.
Definition ex_fs1 (st : state) (o : op) : fsys := stage_inputs (ex_N st o) (ex_inputs st o) (st_fs st).
Definition ex_declared (st : state) (o : op) : list str := ex_inputs st o ++ o_stale o.
Definition ex_inp_ok (st : state) (o : op) : bool := forallb (fs_exists (ex_fs1 st o)) (ex_declared st o).
Definition ex_skip (st : state) (o : op) : bool :=
  reuse_rule (fs_exists (ex_fs1 st o) (ex_outF st o)) (fs_normal (ex_fs1 st o) (ex_outF st o)).
Definition ex_fs2 (st : state) (o : op) : fsys :=
  if ex_inp_ok st o then stage_program (ex_skip st o) (o_out o) (ex_N st o) (ex_outF st o) (o_req o) (ex_fs1 st o)
  else ex_fs1 st o.
Definition ex_res (st : state) (o : op) : option request * bool * bool :=
  if ex_inp_ok st o then stage_result (ex_fs2 st o) (ex_outF st o) else (None, true, false).
Lemma exec_op_unfold st o :
  exec_op st o =
  (mkState (ex_R st o)
           (stage_cleanup (o_cm o) (snd (ex_res st o)) (ex_N st o) (ex_declared st o) (ex_outF st o) (ex_fs2 st o)),
   mkObs (ex_N st o) (ex_inp_ok st o && negb (ex_skip st o)) (fst (fst (ex_res st o))) (snd (fst (ex_res st o)))).
Proof. reflexivity. Qed.

Lemma ex_step_wf st o : Inv st -> clean_op o ->
  WF (ex_R st o) /\ incl (st_reg st) (ex_R st o) /\ In (ex_N st o, idf (o_req o) (ex_N st o)) (ex_R st o).
Proof.
  intros [W _] C. unfold ex_R, ex_N. destruct (reg_step_from (st_reg st) (op_start o) (o_req o)) as [R1 N] eqn:E.
  destruct (reg_step_from_wf _ _ _ _ _ W (clean_op_start o C) E) as [W1 [I1 [B1 _]]]. simpl. tauto.
Qed.
Lemma ex_fs2_ok st o : Inv st -> clean_op o -> Forall (out_ok (ex_R st o)) (ex_fs2 st o).
Proof.
  intros HI C. destruct (ex_step_wf st o HI C) as [W1 [I1 B1]]. destruct HI as [_ F].
  assert (F1 : Forall (out_ok (ex_R st o)) (ex_fs1 st o)).
  { unfold ex_fs1. apply Forall_stage_inputs; [intros nm; exact I|].
    apply Forall_forall. intros f Hf. rewrite Forall_forall in F. exact (out_ok_incl _ _ _ I1 (F _ Hf)). }
  unfold ex_fs2. destruct (ex_inp_ok st o); [|exact F1]. apply Forall_stage_program.
  - exact I.
  - intros b. unfold out_ok. simpl. split; [reflexivity|exact B1].
  - exact F1.
Qed.
Lemma exec_op_inv st o : Inv st -> clean_op o -> Inv (fst (exec_op st o)).
Proof.
  intros I C. rewrite exec_op_unfold. simpl. split.
  - exact (proj1 (ex_step_wf st o I C)).
  - apply Forall_stage_cleanup. exact (ex_fs2_ok st o I C).
Qed.
Lemma run_ops_app st h1 h2 :
  run_ops st (h1 ++ h2) =
  let '(st1, o1) := run_ops st h1 in let '(st2, o2) := run_ops st1 h2 in (st2, o1 ++ o2).
Proof.
  revert st. induction h1 as [|o h1 IH]; intros st; cbn [app run_ops].
  - destruct (run_ops st h2). reflexivity.
  - destruct (exec_op st o) as [sa ob]. rewrite IH. destruct (run_ops sa h1) as [s1 o1].
    destruct (run_ops s1 h2). reflexivity.
Qed.
Lemma run_ops_inv ops : forall st, Inv st -> Forall clean_op ops -> Inv (fst (run_ops st ops)).
Proof.
  induction ops as [|o ops IH]; intros st I C; cbn [run_ops]; [exact I|].
  inversion C as [|? ? C0 Cs]; subst.
  pose proof (exec_op_inv st o I C0) as I1. destruct (exec_op st o) as [s1 ob]. cbn [fst] in I1.
  specialize (IH s1 I1 Cs). destruct (run_ops s1 ops). exact IH.
Qed.
(* ---- optimisations through CalculationExecutorO *)
Lemma exec_opt_inv st r : Inv st -> clean_req r -> Inv (fst (exec_opt st r)).
Proof.
  intros [W F] C. unfold exec_opt, exec_opt_late.
  destruct (reg_step (st_reg st) r) as [R1 N] eqn:E.
  destruct (reg_step_wf _ _ _ _ W C E) as [W1 [I1 [B1 _]]]. cbn [fst snd].
  assert (F1 : Forall (out_ok R1) (st_fs st)).
  { apply Forall_forall. intros f Hf. rewrite Forall_forall in F. exact (out_ok_incl _ _ _ I1 (F _ Hf)). }
  destruct (fs_find (st_fs st) (trj_name N)) as [[nm own k]|]; [destruct k|]; cbn [fst]; split; cbn [st_reg st_fs]; try assumption.
  apply Forall_fs_write; [exact I|]. apply Forall_fs_write; [|exact F1].
  unfold out_ok. simpl. split; [reflexivity|exact B1].
Qed.
Lemma opt_parsed_same_identity st r r' : Inv st -> clean_req r ->
  ob_energy (snd (exec_opt st r)) = Some r' ->
  idf r' (ob_name (snd (exec_opt st r))) = idf r (ob_name (snd (exec_opt st r))).
Proof.
  intros [W F] C. unfold exec_opt, exec_opt_late.
  destruct (reg_step (st_reg st) r) as [R1 N] eqn:E.
  destruct (reg_step_wf _ _ _ _ W C E) as [W1 [I1 [B1 _]]]. cbn [fst snd].
  destruct (fs_find (st_fs st) (trj_name N)) as [[nm own k]|] eqn:Ef; [destruct k|]; cbn [snd ob_energy ob_name]; try discriminate.
  - intros H. injection H as <-. apply fs_find_some in Ef. destruct Ef as [Hin Hnm]. simpl in Hnm.
    rewrite Forall_forall in F. pose proof (F _ Hin) as Hok. unfold out_ok in Hok. simpl in Hok.
    destruct Hok as [Hname Hbind]. rewrite Hnm in Hname. unfold trj_name in Hname. apply app_inv_tail in Hname. subst own.
    exact (WF_unique _ _ _ _ W1 (I1 _ Hbind) B1).
  - intros H. injection H as <-. reflexivity.
Qed.
(* an optimisation is skipped only when a trajectory saved under ITS OWN name exists *)
Lemma opt_skip_means_trajectory st r : ob_invoked (snd (exec_opt st r)) = false ->
  fs_exists (st_fs st) (trj_name (snd (reg_step (st_reg st) r))) = true.
Proof.
  unfold exec_opt, exec_opt_late, fs_exists.
  destruct (fs_find (st_fs st) (trj_name (snd (reg_step (st_reg st) r)))) as [[nm own k]|]; [reflexivity|].
  cbn [snd ob_invoked]. discriminate.
Qed.

Definition clean_gop (g : gop) : Prop := match g with GExt o => clean_op o | GOpt r => clean_req r end.
Lemma exec_gop_inv st g : Inv st -> clean_gop g -> Inv (fst (exec_gop st g)).
Proof. destruct g; simpl; [apply exec_op_inv|apply exec_opt_inv]. Qed.
Lemma run_gops_app st h1 h2 :
  run_gops st (h1 ++ h2) =
  let '(st1, o1) := run_gops st h1 in let '(st2, o2) := run_gops st1 h2 in (st2, o1 ++ o2).
Proof.
  revert st. induction h1 as [|g h1 IH]; intros st; cbn [app run_gops].
  - destruct (run_gops st h2). reflexivity.
  - destruct (exec_gop st g) as [sa ob]. rewrite IH. destruct (run_gops sa h1) as [s1 o1].
    destruct (run_gops s1 h2). reflexivity.
Qed.
Lemma run_gops_inv gs : forall st, Inv st -> Forall clean_gop gs -> Inv (fst (run_gops st gs)).
Proof.
  induction gs as [|g gs IH]; intros st HI C; cbn [run_gops]; [exact HI|].
  inversion C as [|? ? C0 Cs]; subst.
  pose proof (exec_gop_inv st g HI C0) as I1. destruct (exec_gop st g) as [s1 ob]. cbn [fst] in I1.
  specialize (IH s1 I1 Cs). destruct (run_gops s1 gs). exact IH.
Qed.
(* states reachable by any mixed history of clean external calculations and optimisations *)
Definition reachable (st : state) : Prop := exists gs, Forall clean_gop gs /\ fst (run_gops init_state gs) = st.
Lemma Inv_init : Inv init_state.
Proof. split; [exact WF_nil|constructor]. Qed.
Lemma reachable_inv st : reachable st -> Inv st.
Proof. intros [gs [C <-]]. apply run_gops_inv; [exact Inv_init|exact C]. Qed.

(* ================================================================== reuse *)
Lemma reuse_rule_sound e n : reuse_rule e n = true -> e = true /\ n = true.
Proof. destruct e, n; vm_compute; intros H; try discriminate; split; reflexivity. Qed.
Lemma reuse_rule_complete : reuse_rule true true = true.
Proof. reflexivity. Qed.

(* whatever output the result is parsed from was produced by a calculation with the SAME identity *)
Lemma parsed_same_identity st o r' : Inv st -> clean_op o ->
  ob_energy (snd (exec_op st o)) = Some r' ->
  idf r' (ex_N st o) = idf (o_req o) (ex_N st o).
Proof.
  intros I C. rewrite exec_op_unfold. cbn [snd ob_energy]. unfold ex_res.
  destruct (ex_inp_ok st o); [|discriminate]. unfold stage_result.
  destruct (fs_find (ex_fs2 st o) (ex_outF st o)) as [[nm own k]|] eqn:E; [|discriminate].
  destruct k as [|c| |c]; simpl; try discriminate. intros H. injection H as <-.
  apply fs_find_some in E. destruct E as [Hin Hnm]. simpl in Hnm.
  pose proof (ex_fs2_ok st o I C) as F. rewrite Forall_forall in F.
  pose proof (F _ Hin) as Hok. unfold out_ok in Hok. simpl in Hok. destruct Hok as [Hname Hbind].
  destruct (ex_step_wf st o I C) as [W1 [_ B1]].
  assert (Eo : own = ex_N st o).
  { rewrite Hnm in Hname. unfold ex_outF in Hname.
    apply app_eq_len in Hname; [symmetry; exact (proj1 Hname)|rewrite !out_ext_len; reflexivity]. }
  subst own. exact (WF_unique _ _ _ _ W1 Hbind B1).
Qed.
(* the declared input files exist (no NoInputError) and the program is not invoked: the output
   existed and had terminated normally *)
Lemma skip_means_normal st o : ex_inp_ok st o = true -> ob_invoked (snd (exec_op st o)) = false ->
  fs_exists (ex_fs1 st o) (ex_outF st o) = true /\ fs_normal (ex_fs1 st o) (ex_outF st o) = true /\
  ex_fs2 st o = ex_fs1 st o.
Proof.
  intros Hok. rewrite exec_op_unfold. cbn [snd ob_invoked]. rewrite Hok. cbn [andb]. intros H. apply negb_false_iff in H.
  pose proof H as H'. unfold ex_skip in H'. apply reuse_rule_sound in H'. destruct H' as [H1 H2].
  split; [exact H1|]. split; [exact H2|]. unfold ex_fs2, stage_program. rewrite Hok, H. reflexivity.
Qed.
Lemma not_normal_means_invoked st o : ex_inp_ok st o = true ->
  fs_exists (ex_fs1 st o) (ex_outF st o) && fs_normal (ex_fs1 st o) (ex_outF st o) = false ->
  ob_invoked (snd (exec_op st o)) = true.
Proof.
  intros Hok H. rewrite exec_op_unfold. cbn [snd ob_invoked]. rewrite Hok. cbn [andb]. apply negb_true_iff. unfold ex_skip.
  destruct (fs_exists (ex_fs1 st o) (ex_outF st o)), (fs_normal (ex_fs1 st o) (ex_outF st o));
    simpl in H; try discriminate;
    (match goal with |- ?x = false => destruct x eqn:E end;
     [apply reuse_rule_sound in E; destruct E; discriminate|reflexivity]).
Qed.
(* a declared input file that does not exist: NoInputError, nothing is run, nothing is parsed *)
Lemma missing_input_means_nothing st o : ex_inp_ok st o = false ->
  ob_invoked (snd (exec_op st o)) = false /\ ob_energy (snd (exec_op st o)) = None /\
  ob_raised (snd (exec_op st o)) = true.
Proof. intros H. rewrite exec_op_unfold. cbn [snd ob_invoked ob_energy ob_raised]. unfold ex_res. rewrite H. repeat split. Qed.
Lemma fs_find_fresh_output side out fs : f_name side <> f_name out ->
  fs_find (fs_write side (fs_write out fs)) (f_name out) = Some out.
Proof.
  intros H. unfold fs_find, fs_write. simpl.
  assert (E1 : str_eqb (f_name side) (f_name out) = false) by (apply str_eqb_false; exact H).
  assert (E2 : str_eqb (f_name out) (f_name side) = false) by (apply str_eqb_false; congruence).
  rewrite E1, E2. simpl. rewrite str_eqb_refl. reflexivity.
Qed.
Lemma fs_find_fresh_output' side outF own k fs : f_name side <> outF ->
  fs_find (fs_write side (fs_write (mkFile outF own k) fs)) outF = Some (mkFile outF own k).
Proof. intros H. exact (fs_find_fresh_output side (mkFile outF own k) fs H). Qed.
(* when the program is invoked and writes an output, the parsed result is the one just written *)
Lemma invoked_result_is_fresh st o : ob_invoked (snd (exec_op st o)) = true -> o_out o <> ONoOutput ->
  ob_energy (snd (exec_op st o)) = Some (o_req o) /\
  ob_raised (snd (exec_op st o)) = match o_out o with ONormal => false | _ => true end.
Proof.
  rewrite exec_op_unfold. cbn [snd ob_invoked ob_energy ob_raised]. intros H Ho.
  apply andb_true_iff in H. destruct H as [Hok H]. apply negb_true_iff in H.
  unfold ex_res, ex_fs2, stage_program, stage_result. rewrite Hok, H.
  destruct (o_out o); [| |congruence];
    rewrite fs_find_fresh_output' by (simpl; apply side_name_not_out); simpl; split; reflexivity.
Qed.

(* ================================================================== clean-up *)
Lemma owned_fs_write (P : str -> Prop) N g fs : f_owner g = N ->
  (forall f, In f fs -> P (f_name f) -> f_owner f = N) ->
  forall f, In f (fs_write g fs) -> P (f_name f) -> f_owner f = N.
Proof. intros Hg H f Hf Hp. apply in_fs_write in Hf. destruct Hf as [->|[Hf _]]; [exact Hg|exact (H f Hf Hp)]. Qed.
Lemma inputs_owned N l : forall fs done, (forall f, In f fs -> In (f_name f) done -> f_owner f = N) ->
  forall f, In f (stage_inputs N l fs) -> In (f_name f) (done ++ l) -> f_owner f = N.
Proof.
  unfold stage_inputs. induction l as [|nm l IH]; intros fs done H f Hf Hn; simpl in Hf.
  - rewrite app_nil_r in Hn. exact (H f Hf Hn).
  - apply (IH (fs_write (mkFile nm N KInput) fs) (done ++ [nm])); [|exact Hf|rewrite <- app_assoc; exact Hn].
    intros g Hg Hgn. apply in_fs_write in Hg. destruct Hg as [->|[Hg Hne]]; [reflexivity|].
    simpl in Hne. apply in_app_iff in Hgn. destruct Hgn as [Hd|[E|[]]]; [exact (H g Hg Hd)|congruence].
Qed.
(* after the program stage every file whose name is one of the declared input files belongs to
   this calculation *)
Lemma ex_fs2_inputs_owned st o : forall f, In f (ex_fs2 st o) -> In (f_name f) (ex_inputs st o) -> f_owner f = ex_N st o.
Proof.
  assert (Q : forall f, In f (ex_fs1 st o) -> In (f_name f) (ex_inputs st o) -> f_owner f = ex_N st o).
  { intros g Hg Hn. apply (inputs_owned (ex_N st o) (ex_inputs st o) (st_fs st) []) with (f := g);
      [intros ? ? []|exact Hg|exact Hn]. }
  unfold ex_fs2, stage_program. destruct (ex_inp_ok st o); [|exact Q]. destruct (ex_skip st o); [exact Q|].
  destruct (o_out o); [| |exact Q];
    apply (owned_fs_write (fun nm => In nm (ex_inputs st o))); try reflexivity;
    apply (owned_fs_write (fun nm => In nm (ex_inputs st o))); try reflexivity; exact Q.
Qed.
Lemma prefixb_app p s : prefixb p (p ++ s) = true.
Proof. induction p as [|a p IH]; simpl; [reflexivity|]. rewrite Ascii.eqb_refl, IH. reflexivity. Qed.
Lemma prefixb_true p s : prefixb p s = true -> exists t, s = p ++ t.
Proof.
  revert s. induction p as [|a p IH]; intros s H; simpl in H; [exists s; reflexivity|].
  destruct s as [|b s]; [discriminate|]. apply andb_true_iff in H. destruct H as [H1 H2].
  apply Ascii.eqb_eq in H1. subst b. destruct (IH s H2) as [t ->]. exists t. reflexivity.
Qed.

(* ================================================================== concurrent workers *)
Lemma bool_iff (a b : bool) : (a = true <-> b = true) -> a = b.
Proof. destruct a, b; intros [H1 H2]; try reflexivity; [symmetry; apply H1; reflexivity|apply H2; reflexivity]. Qed.
Lemma upd_same {A} w (x : A) f : upd w x f w = x.
Proof. unfold upd. rewrite Nat.eqb_refl. reflexivity. Qed.
Lemma upd_other {A} w (x : A) f v : v <> w -> upd w x f v = f v.
Proof. unfold upd. intros H. apply Nat.eqb_neq in H. rewrite H. reflexivity. Qed.

Section Conc.
Variables (R0 : registry) (ws : list request).
Hypothesis W0 : WF R0.
Hypothesis Cws : Forall clean_req ws.
(* no two workers ever compete for a name: their candidate names are disjoint *)
Definition independent : Prop :=
  forall i j ri rj, i <> j -> nth_error ws i = Some ri -> nth_error ws j = Some rj ->
  forall s t, candi (base_name ri) s <> candi (base_name rj) t.
Hypothesis Ind : independent.

(* what a worker decides when it runs alone against the initial file *)
Definition solo (r : request) : fu_result := fix_unique R0 (base_name r) (idf r).
Definition solo_line (r : request) : list record :=
  match solo r with FU nm true => [(nm, idf r nm)] | _ => [] end.

Lemma solo_spec r : exists nm a t, solo r = FU nm a /\ t <= S (List.length R0) /\ nm = candi (base_name r) t /\
  (forall s, s < t -> busy (build R0) (idf r) (candi (base_name r) s)) /\ final (build R0) (idf r) nm a.
Proof.
  unfold solo. destruct (fix_unique R0 (base_name r) (idf r)) as [nm a|] eqn:E.
  - destruct (fu_sound _ _ _ _ _ _ E) as [t H]. exists nm, a, t. tauto.
  - exfalso. exact (fix_unique_total _ _ _ E).
Qed.
Lemma solo_line_spec r l : In l (solo_line r) ->
  exists t, l = (candi (base_name r) t, idf r (candi (base_name r) t)) /\ ~ In (fst l) (names R0).
Proof.
  unfold solo_line. destruct (solo_spec r) as [nm [a [t [E [_ [Hn [_ Hf]]]]]]]. rewrite E.
  destruct a; [|intros []]. intros [<-|[]]. exists t. split; [rewrite Hn; reflexivity|].
  simpl. simpl in Hf. destruct Hf as [_ Hx]. intros Hin. apply (wf_exists R0 nm W0) in Hin. congruence.
Qed.

(* lines written by OTHER workers do not change what worker w decides *)
Lemma frame w r E : nth_error ws w = Some r -> WF (R0 ++ E) ->
  (forall l, In l E -> exists w' r', w' <> w /\ nth_error ws w' = Some r' /\ In l (solo_line r')) ->
  fix_unique (R0 ++ E) (base_name r) (idf r) = solo r.
Proof.
  intros Hw WR HE.
  assert (NE : forall s, ~ In (candi (base_name r) s) (names E)).
  { intros s Hin. apply in_names in Hin. destruct Hin as [i Hi].
    destruct (HE _ Hi) as [w' [r' [Hne [Hw' Hl]]]]. destruct (solo_line_spec r' _ Hl) as [t [El _]].
    injection El as E1 _. exact (Ind w w' r r' (fun e => Hne (eq_sym e)) Hw Hw' s t E1). }
  assert (EX : forall s, d_exists (build (R0 ++ E)) (candi (base_name r) s) = d_exists (build R0) (candi (base_name r) s)).
  { intros s. apply bool_iff. rewrite (wf_exists _ _ WR), (wf_exists _ _ W0). unfold names. rewrite map_app, in_app_iff.
    split; [intros [H|H]; [exact H|exfalso; exact (NE s H)]|intros H; left; exact H]. }
  assert (ID : forall s, d_identical (build (R0 ++ E)) (idf r (candi (base_name r) s)) =
                         d_identical (build R0) (idf r (candi (base_name r) s))).
  { intros s. apply bool_iff. rewrite (wf_identical _ _ WR), (wf_identical _ _ W0). unfold ids. rewrite map_app, in_app_iff.
    split; [intros [H|H]; [exact H|exfalso]|intros H; left; exact H].
    apply in_map_iff in H. destruct H as [[n i] [Ei Hi]]. simpl in Ei. subst i.
    destruct (HE _ Hi) as [w' [r' [_ [_ Hl]]]]. destruct (solo_line_spec r' _ Hl) as [t [El _]].
    assert (En : n = candi (base_name r') t) by congruence.
    assert (Eid : idf r (candi (base_name r) s) = idf r' (candi (base_name r') t)) by congruence.
    apply idf_name in Eid. apply (NE s). rewrite Eid, <- En.
    change n with (fst (n, idf r (candi (base_name r) s))). apply in_map. exact Hi. }
  destruct (solo_spec r) as [nm [a [t [Es [Ht [Hn [Hb Hf]]]]]]]. rewrite Es. subst nm.
  unfold fix_unique. apply fu_complete.
  - rewrite app_length. lia.
  - intros s Hs. destruct (Hb s Hs) as [H1 H2]. split; [rewrite ID; exact H1|rewrite EX; exact H2].
  - unfold final in *. destruct a; [destruct Hf as [H1 H2]; split; [rewrite ID; exact H1|rewrite EX; exact H2]|rewrite ID; exact Hf].
Qed.

Definition CI (st : registry * (nat -> decision)) (ph : nat -> nat) : Prop :=
  (exists E, fst st = R0 ++ E /\ WF (fst st) /\
     forall l, In l E <-> exists w r, nth_error ws w = Some r /\ ph w = 2 /\ In l (solo_line r)) /\
  (forall w r, nth_error ws w = Some r ->
     match ph w with 0 => snd st w = None | _ => snd st w = Some (solo r) end).

Lemma CI_step st ph e : CI st ph ->
  match e with EvRead w => ph w = 0 | EvAppend w => ph w = 1 end ->
  CI (conc_step ws st e) (match e with EvRead w => upd w 1 ph | EvAppend w => upd w 2 ph end).
Proof.
  destruct st as [R ds]. intros [[E [HR [WR HE]]] HD] Hph. simpl in HR, WR, HD. destruct e as [w|w]; simpl.
  - (* read *)
    destruct (nth_error ws w) as [r|] eqn:Hw.
    + split; simpl.
      * exists E. split; [exact HR|]. split; [exact WR|]. intros l. rewrite HE. split; intros [w' [r' [H1 [H2 H3]]]]; exists w', r'.
        -- split; [exact H1|]. split; [|exact H3]. rewrite upd_other; [exact H2|]. intros ->. congruence.
        -- split; [exact H1|]. split; [|exact H3]. destruct (Nat.eq_dec w' w) as [->|Hne]; [rewrite upd_same in H2; discriminate|].
           rewrite upd_other in H2 by exact Hne. exact H2.
      * intros w' r' Hw'. destruct (Nat.eq_dec w' w) as [->|Hne].
        -- rewrite !upd_same. rewrite Hw in Hw'. injection Hw' as <-. f_equal. rewrite HR. rewrite HR in WR.
           apply (frame w r E Hw WR). intros l Hl. apply HE in Hl. destruct Hl as [w' [r' [H1 [H2 H3]]]].
           exists w', r'. split; [intros ->; congruence|]. split; assumption.
        -- rewrite !upd_other by exact Hne. exact (HD w' r' Hw').
    + split; simpl.
      * exists E. split; [exact HR|]. split; [exact WR|]. intros l. rewrite HE. split; intros [w' [r' [H1 [H2 H3]]]]; exists w', r'.
        -- split; [exact H1|]. split; [|exact H3]. rewrite upd_other; [exact H2|]. intros ->. congruence.
        -- split; [exact H1|]. split; [|exact H3]. destruct (Nat.eq_dec w' w) as [->|Hne]; [congruence|].
           rewrite upd_other in H2 by exact Hne. exact H2.
      * intros w' r' Hw'. destruct (Nat.eq_dec w' w) as [->|Hne]; [congruence|].
        rewrite upd_other by exact Hne. exact (HD w' r' Hw').
  - (* append *)
    assert (PH : forall w' r', nth_error ws w' = Some r' ->
                 match upd w 2 ph w' with 0 => ds w' = None | _ => ds w' = Some (solo r') end).
    { intros w' r' Hw'. destruct (Nat.eq_dec w' w) as [->|Hne].
      - rewrite upd_same. specialize (HD w r' Hw'). rewrite Hph in HD. exact HD.
      - rewrite upd_other by exact Hne. exact (HD w' r' Hw'). }
    assert (MEM0 : forall r, nth_error ws w = Some r -> solo_line r = [] ->
                   forall l, In l E <-> exists w' r', nth_error ws w' = Some r' /\ upd w 2 ph w' = 2 /\ In l (solo_line r')).
    { intros r Hw Hs l. rewrite HE. split; intros [w' [r' [H1 [H2 H3]]]]; exists w', r'.
      - split; [exact H1|]. split; [|exact H3]. rewrite upd_other; [exact H2|]. intros ->. congruence.
      - split; [exact H1|]. split; [|exact H3]. destruct (Nat.eq_dec w' w) as [->|Hne].
        + rewrite Hw in H1. injection H1 as <-. rewrite Hs in H3. destruct H3.
        + rewrite upd_other in H2 by exact Hne. exact H2. }
    destruct (nth_error ws w) as [r|] eqn:Hw.
    + pose proof (HD w r Hw) as Dw. rewrite Hph in Dw. rewrite Dw.
      destruct (solo r) as [nm [|]|] eqn:Es.
      * (* the worker appends its line *)
        assert (SL : solo_line r = [(nm, idf r nm)]) by (unfold solo_line; rewrite Es; reflexivity).
        destruct (solo_line_spec r (nm, idf r nm)) as [t [El Hn0]]; [rewrite SL; left; reflexivity|].
        injection El as Enm _. simpl in Hn0.
        split; simpl; [|exact PH].
        exists (E ++ [(nm, idf r nm)]). split; [rewrite HR, app_assoc; reflexivity|]. split.
        -- apply WF_snoc. split; [exact WR|]. split.
           ++ split; [|exists r; reflexivity]. simpl. rewrite Enm. apply candi_clean. apply base_name_clean.
              rewrite Forall_forall in Cws. apply Cws. exact (nth_error_In _ _ Hw).
           ++ simpl. rewrite HR. unfold names. rewrite map_app, in_app_iff. intros [Hin|Hin]; [exact (Hn0 Hin)|].
              apply in_names in Hin. destruct Hin as [i Hi]. apply HE in Hi. destruct Hi as [w' [r' [H1 [H2 H3]]]].
              destruct (solo_line_spec r' _ H3) as [t' [El' _]]. injection El' as E1 _.
              assert (Hne : w <> w') by (intros ->; congruence).
              apply (Ind w w' r r' Hne Hw H1 t t'). congruence.
        -- intros l. rewrite in_app_iff, HE. split.
           ++ intros [[w' [r' [H1 [H2 H3]]]]|[<-|[]]].
              ** exists w', r'. split; [exact H1|]. split; [|exact H3]. rewrite upd_other; [exact H2|]. intros ->. congruence.
              ** exists w, r. split; [exact Hw|]. split; [apply upd_same|rewrite SL; left; reflexivity].
           ++ intros [w' [r' [H1 [H2 H3]]]]. destruct (Nat.eq_dec w' w) as [->|Hne].
              ** rewrite Hw in H1. injection H1 as <-. rewrite SL in H3. right. exact H3.
              ** left. exists w', r'. rewrite upd_other in H2 by exact Hne. tauto.
      * split; simpl; [|exact PH]. exists E. split; [exact HR|]. split; [exact WR|].
        apply (MEM0 r eq_refl). unfold solo_line. rewrite Es. reflexivity.
      * split; simpl; [|exact PH]. exists E. split; [exact HR|]. split; [exact WR|].
        apply (MEM0 r eq_refl). unfold solo_line. rewrite Es. reflexivity.
    + split; simpl; [|exact PH]. exists E. split; [exact HR|]. split; [exact WR|].
      intros l. rewrite HE. split; intros [w' [r' [H1 [H2 H3]]]]; exists w', r'.
      * split; [exact H1|]. split; [|exact H3]. rewrite upd_other; [exact H2|]. intros ->. congruence.
      * split; [exact H1|]. split; [|exact H3]. destruct (Nat.eq_dec w' w) as [->|Hne]; [congruence|].
        rewrite upd_other in H2 by exact Hne. exact H2.
Qed.

Lemma CI_run evs : forall st ph, CI st ph -> sched_ok ph evs -> CI (fold_left (conc_step ws) evs st) (run_ph ph evs).
Proof.
  induction evs as [|e evs IH]; intros st ph H S; simpl; [exact H|].
  destruct e as [w|w]; simpl in S; destruct S as [S1 S2].
  - apply IH; [exact (CI_step st ph (EvRead w) H S1)|exact S2].
  - apply IH; [exact (CI_step st ph (EvAppend w) H S1)|exact S2].
Qed.
Lemma CI_init : CI (R0, fun _ => None) (fun _ => 0).
Proof.
  split; simpl.
  - exists []. split; [rewrite app_nil_r; reflexivity|]. split; [exact W0|].
    intros l. split; [intros []|intros [w [r [_ [H _]]]]; discriminate].
  - intros w r _. reflexivity.
Qed.

Lemma conc_result evs : sched_ok (fun _ => 0) evs ->
  (forall w, w < List.length ws -> run_ph (fun _ => 0) evs w = 2) ->
  exists E, fst (conc_run ws R0 evs) = R0 ++ E /\ NoDup (names E) /\ WF (fst (conc_run ws R0 evs)) /\
    (forall l, In l E <-> exists r, In r ws /\ In l (solo_line r)) /\
    (forall w r, nth_error ws w = Some r -> snd (conc_run ws R0 evs) w = Some (solo r)).
Proof.
  intros S Hall. pose proof (CI_run evs _ _ CI_init S) as [[E [HR [WR HE]]] HD].
  unfold conc_run. exists E. split; [exact HR|]. split; [|split; [exact WR|split]].
  - destruct WR as [_ N]. rewrite HR in N. unfold names in N. rewrite map_app in N.
    exact (NoDup_app_r _ _ N).
  - intros l. rewrite HE. split.
    + intros [w [r [H1 [_ H3]]]]. exists r. split; [exact (nth_error_In _ _ H1)|exact H3].
    + intros [r [H1 H3]]. apply In_nth_error in H1. destruct H1 as [w Hw]. exists w, r.
      split; [exact Hw|]. split; [|exact H3]. apply Hall. apply nth_error_Some. congruence.
  - intros w r Hw. specialize (HD w r Hw). rewrite (Hall w) in HD; [exact HD|]. apply nth_error_Some. congruence.
Qed.
End Conc.

(* workers that use one method and pairwise different (hyphen-normalised) requested names — the
   parallel conformer case — never compete for a name *)
Lemma independent_same_method ws m :
  (forall r, In r ws -> rq_method r = m) ->
  NoDup (map (fun r => strip_hyphen (rq_name r)) ws) -> independent ws.
Proof.
  intros Hm N i j ri rj Hne Hi Hj s t E.
  unfold base_name in E. rewrite (Hm ri (nth_error_In _ _ Hi)), (Hm rj (nth_error_In _ _ Hj)) in E.
  apply candi_names_independent in E.
  apply Hne. rewrite NoDup_nth_error in N. apply N.
  - rewrite map_length. apply nth_error_Some. congruence.
  - rewrite (map_nth_error _ _ _ Hi), (map_nth_error _ _ _ Hj), E. reflexivity.
Qed.

(* ================================================================== registry round trip *)
Lemma registry_roundtrip_wf R r : WF R -> clean_req r ->
  d_exists (build (fst (reg_step R r))) (snd (reg_step R r)) = true /\
  d_identical (build (fst (reg_step R r))) (idf r (snd (reg_step R r))) = true.
Proof.
  intros W C. destruct (reg_step R r) as [R' N] eqn:E. simpl.
  destruct (reg_step_wf _ _ _ _ W C E) as [W' [_ [B _]]]. split.
  - apply (wf_exists R' N W'). apply in_names. exists (idf r N). exact B.
  - apply (wf_identical R' _ W'). change (In (snd (N, idf r N)) (map snd R')). apply in_map. exact B.
Qed.

(* files of other calculations survive every clean-up mode except `everything` *)
Lemma cleanup_keeps_foreign st o f : o_stale o = [] -> o_cm o <> CEverything ->
  In f (ex_fs2 st o) -> f_owner f <> ex_N st o -> In f (st_fs (fst (exec_op st o))).
Proof.
  intros Hst Hcm Hin Hown. rewrite exec_op_unfold. simpl.
  assert (K : In f (fs_remove_all (cleanup_selection false (ex_N st o) (ex_declared st o) (ex_outF st o) (map f_name (ex_fs2 st o))) (ex_fs2 st o))).
  { apply fs_remove_all_keeps; [exact Hin|]. unfold cleanup_selection, ex_declared. rewrite Hst, !app_nil_r.
    intros Hn. apply Hown. exact (ex_fs2_inputs_owned st o f Hin Hn). }
  unfold stage_cleanup. destruct (o_cm o); [exact Hin| |exact K|congruence].
  destruct (snd (ex_res st o)); [exact K|exact Hin].
Qed.
Lemma cleanup_everything_keeps_unmatched st o f : o_stale o = [] -> o_cm o = CEverything ->
  In f (ex_fs2 st o) -> f_owner f <> ex_N st o -> f_name f <> ex_outF st o ->
  matches match_rule (ex_N st o) (f_name f) = false -> In f (st_fs (fst (exec_op st o))).
Proof.
  intros Hst Hcm Hin Hown Hout Hm. rewrite exec_op_unfold. simpl. unfold stage_cleanup. rewrite Hcm.
  apply fs_remove_all_keeps; [exact Hin|]. unfold cleanup_selection, ex_declared. rewrite Hst, app_nil_r, in_app_iff.
  intros [Hn|[Hn|Hn]].
  - apply Hown. exact (ex_fs2_inputs_owned st o f Hin Hn).
  - congruence.
  - apply filter_In in Hn. destruct Hn as [_ Hn]. congruence.
Qed.

(* ================================================================== distinct requests, distinct names *)
Lemma distinct_names_gen : forall (h : list request) p q ra rb Na Nb,
  Forall clean_req h ->
  nth_error h p = Some ra -> nth_error h q = Some rb ->
  nth_error (snd (reg_run [] h)) p = Some Na -> nth_error (snd (reg_run [] h)) q = Some Nb ->
  (exists pf, covered pf id_fields = true /\ pget pf ra <> pget pf rb) \/
  strip_hyphen (rq_name ra) <> strip_hyphen (rq_name rb) ->
  Na <> Nb.
Proof.
  intros h p q ra rb Na Nb C Hp Hq Hna Hnb D E. subst Nb.
  destruct (reg_run [] h) as [R ns] eqn:ER. simpl in Hna, Hnb.
  destruct (reg_run_wf h _ _ _ WF_nil C ER) as [W [_ B]].
  destruct (B _ _ _ Hp Hna) as [Ba [ta Ta]]. destruct (B _ _ _ Hq Hnb) as [Bb [tb Tb]].
  pose proof (WF_unique _ _ _ _ W Ba Bb) as Eid.
  destruct D as [[pf [Hc Hd]]|Hn].
  - apply Hd. exact (covered_sound id_fields pf ra rb Na Na Hc Eid).
  - apply Hn.
    assert (Em : pget PMethod ra = pget PMethod rb) by (apply (covered_sound id_fields PMethod ra rb Na Na); [reflexivity|exact Eid]).
    simpl in Em. injection Em as Em.
    rewrite Ta in Tb. unfold base_name in Tb. rewrite Em in Tb.
    exact (candi_names_independent _ _ _ _ _ Tb).
Qed.

(* ================================================================== statement vocabulary and witnesses of Props.v *)
(* --- witnesses used by the refutations ----------------------------------------------------- *)
Definition w_sp : species := mkSpecies (s2l "m") 0 1 [s2l "O"; s2l "H"; s2l "H"] None [] [].
Definition w_req (nm kw : string) (sp : species) (pcs : option (list pcharge)) : request :=
  mkReq (s2l nm) (s2l "xtb") (Some (s2l "gbsa")) (s2l kw) sp pcs.
(* two calculations run one after the other in an empty directory, the program terminating
   normally: they SHARE a name, the second one is not executed and takes over the first one's
   result *)
Definition shares (ra rb : request) : Prop :=
  let res := snd (run_ops init_state [mkOp ra ONormal CNone [] None []; mkOp rb ONormal CNone [] None []]) in
  map ob_name res = [snd (reg_step [] ra); snd (reg_step [] ra)] /\
  map ob_invoked res = [true; false] /\
  map ob_energy res = [Some ra; Some ra].

Definition distinct_clause (pf : pfield) : Prop :=
  forall (h : list request) p q ra rb Na Nb, Forall clean_req h ->
  nth_error h p = Some ra -> nth_error h q = Some rb ->
  nth_error (snd (reg_run [] h)) p = Some Na -> nth_error (snd (reg_run [] h)) q = Some Nb ->
  pget pf ra <> pget pf rb -> Na <> Nb.
Lemma distinct_clause_covered pf : covered pf id_fields = true -> distinct_clause pf.
Proof.
  intros Hc h p q ra rb Na Nb C Hp Hq Hna Hnb Hd.
  apply (distinct_names_gen h p q ra rb Na Nb C Hp Hq Hna Hnb). left. exists pf. split; assumption.
Qed.
Definition refuted_clause (pf : pfield) : Prop :=
  exists ra rb, clean_req ra /\ clean_req rb /\ agree_except pf ra rb /\ pget pf ra <> pget pf rb /\ shares ra rb.

Ltac decide_clause wa wb :=
  match goal with
  | |- (if ?c then _ else _) =>
      first [ (assert (E : c = true) by (vm_compute; reflexivity)); rewrite E; apply distinct_clause_covered; exact E
            | (assert (E : c = false) by (vm_compute; reflexivity)); rewrite E;
              exists wa, wb;
              split; [split; reflexivity|]; split; [split; reflexivity|];
              split; [intros q Hq; destruct q; try reflexivity; congruence|];
              split; [vm_compute; congruence|];
              vm_compute; repeat split ]
  end.

Definition w_pc : list pcharge := [((1%Z, 1%positive), (0%Z, 1%positive), (0%Z, 1%positive), (3%Z, 1%positive))].
Definition hashed_atoms : nat :=
  match find (fun f => match f with IAtomsFirst _ => true | _ => false end) id_fields with
  | Some (IAtomsFirst n) => n | _ => 0 end.
Definition w_big (last : string) : species :=
  mkSpecies (s2l "m") 0 1 (repeat (s2l "H") hashed_atoms ++ [s2l last]) None [] [].
Definition hashed_decimals : nat :=
  match find (fun f => match f with IDistRound _ => true | _ => false end) id_fields with
  | Some (IDistRound d) => d | _ => 0 end.
Definition w_dist (q : rat) : species := mkSpecies (s2l "m") 0 1 [s2l "O"; s2l "H"; s2l "H"] None [] [(0, 1, q)].
Definition w_eps : rat := ((4 * 10 ^ Z.of_nat hashed_decimals + 1)%Z, Z.to_pos (4 * 10 ^ Z.of_nat hashed_decimals)).
Definition w_ops : list op :=
  [mkOp (w_req "a" "SPKeywords('k1')" w_sp None) ONormal CNone [] None [];
   mkOp (w_req "a" "SPKeywords('k2')" w_sp None) ONormal CNone [] None []].
Definition w_clean : op := mkOp (w_req "a" "SPKeywords('k1')" w_sp None) ONormal CEverything [] None [].
