(* C15/Model.v — executable model of how autodE names calculations, registers them in the
   per-directory file `.autode_calculations`, decides whether an existing output is reused, and
   selects files in clean_up.  Definitions only; proofs are in Lemmas.v.

   Source (read line by line; quirks kept):
     autode/calculations/executors.py
        :45-46    self.name = f"{_string_without_leading_hyphen(name)}_{method.name}"
        :78-91    run: generate_input; output.filename; _execute_external; set_properties; clean_up
        :93-102   generate_input: _fix_unique() (unless AUTODE_FIXUNIQUE == "False"), then file names
        :127-147  _execute_external: skip when output.exists and terminated_normally
        :187-210  clean_up: input files; with everything=True also the output and every directory
                  entry whose name STARTS WITH self.name
        :251-260  __str__: identity = sha1/base64 of the concatenated fields  (gen: id_fields)
        :262-324  _fix_unique: registry reader, is_identical / exists, suffix loop
        :519-520  _string_without_leading_hyphen
     autode/species/species.py:96-108, autode/constraints.py:28-42 (expanded into id_fields)
     autode/wrappers/*.py input/output_filename_for  (gen: ext_table)

   Trusted abstractions (see harness TRUSTED_BASE): the identity is the TUPLE of the hashed field
   values (sha1 + base64 + the f-string concatenation are taken to be injective on the values that
   occur), it is one non-empty whitespace-free token when printed, and one appended registry line
   is one record (names containing line breaks are outside the faithful domain of the model). *)
From Coq Require Import List String Ascii Bool ZArith Arith Lia.
From Coq Require DecimalString.
From AV.C15 Require Import Base.
From AV.gen Require Import C15_Gen.
Import ListNotations.
Open Scope list_scope.

Definition str := list ascii.
Definition s2l (s : string) : str := list_ascii_of_string s.

(* exact rationals as reduced fractions sent by the harness (syntactic equality = value equality) *)
Definition rat := (Z * positive)%type.
Definition pcharge := (rat * rat * rat * rat)%type.          (* charge, x, y, z *)

Record species := mkSpecies {
  sp_name : str; sp_charge : Z; sp_mult : Z;
  sp_atoms : list str;                       (* atom labels, in order *)
  sp_solvent : option str;                   (* solvent name *)
  sp_cart : list nat;                        (* cartesian constraints as printed: list(set(idxs)) *)
  sp_dist : list (nat * nat * rat) }.        (* distance constraints (i, j, r) in dict order *)

Record request := mkReq {
  rq_name : str;                             (* the name the caller asked for *)
  rq_method : str;                           (* method.name *)
  rq_solvtype : option str;                  (* method.implicit_solvation_type *)
  rq_keywords : str;                         (* repr(keywords) *)
  rq_species : species;
  rq_pcs : option (list pcharge) }.          (* embedded point charges *)

(* ------------------------------------------------------------------ field values *)
Inductive fval :=
| VS (s : str) | VZ (z : Z) | VLS (l : list str) | VOS (o : option str) | VLN (l : list nat)
| VDR (l : list (nat * nat * rat)) | VDZ (l : list (nat * nat * Z)) | VPC (o : option (list pcharge)).

Definition str_eq_dec : forall a b : str, {a = b} + {a <> b} := list_eq_dec ascii_dec.
Definition rat_eq_dec : forall a b : rat, {a = b} + {a <> b}.
Proof. decide equality; [apply Pos.eq_dec | apply Z.eq_dec]. Defined.
Definition ostr_eq_dec : forall a b : option str, {a = b} + {a <> b}.
Proof. decide equality; apply str_eq_dec. Defined.
Definition dr_eq_dec : forall a b : nat * nat * rat, {a = b} + {a <> b}.
Proof. decide equality; [apply rat_eq_dec | decide equality; apply Nat.eq_dec]. Defined.
Definition dz_eq_dec : forall a b : nat * nat * Z, {a = b} + {a <> b}.
Proof. decide equality; [apply Z.eq_dec | decide equality; apply Nat.eq_dec]. Defined.
Definition pc_eq_dec : forall a b : pcharge, {a = b} + {a <> b}.
Proof. repeat (decide equality; try apply rat_eq_dec). Defined.
Definition opcs_eq_dec : forall a b : option (list pcharge), {a = b} + {a <> b}.
Proof. decide equality; apply (list_eq_dec pc_eq_dec). Defined.
Definition fval_eq_dec : forall a b : fval, {a = b} + {a <> b}.
Proof.
  decide equality; [apply str_eq_dec | apply Z.eq_dec | apply (list_eq_dec str_eq_dec) | apply ostr_eq_dec
                   | apply (list_eq_dec Nat.eq_dec) | apply (list_eq_dec dr_eq_dec)
                   | apply (list_eq_dec dz_eq_dec) | apply opcs_eq_dec].
Defined.

Definition ident := list fval.               (* the hashed tuple; sha1/base64 trusted injective *)
Definition ident_eq_dec : forall a b : ident, {a = b} + {a <> b} := list_eq_dec fval_eq_dec.
(* boolean equalities (proved equivalent to Leibniz equality in Lemmas.v); the sumbool deciders
   above are kept for statements, these are what the executable model runs *)
Fixpoint leqb {A} (eqb : A -> A -> bool) (a b : list A) : bool :=
  match a, b with
  | [], [] => true
  | x :: a', y :: b' => eqb x y && leqb eqb a' b'
  | _, _ => false
  end.
Definition oeqb {A} (eqb : A -> A -> bool) (a b : option A) : bool :=
  match a, b with Some x, Some y => eqb x y | None, None => true | _, _ => false end.
Definition str_eqb (a b : str) : bool := leqb Ascii.eqb a b.
Definition rat_eqb (a b : rat) : bool := Z.eqb (fst a) (fst b) && Pos.eqb (snd a) (snd b).
Definition dr_eqb (a b : nat * nat * rat) : bool :=
  Nat.eqb (fst (fst a)) (fst (fst b)) && Nat.eqb (snd (fst a)) (snd (fst b)) && rat_eqb (snd a) (snd b).
Definition dz_eqb (a b : nat * nat * Z) : bool :=
  Nat.eqb (fst (fst a)) (fst (fst b)) && Nat.eqb (snd (fst a)) (snd (fst b)) && Z.eqb (snd a) (snd b).
Definition pc_eqb (a b : pcharge) : bool :=
  rat_eqb (fst (fst (fst a))) (fst (fst (fst b))) && rat_eqb (snd (fst (fst a))) (snd (fst (fst b))) &&
  rat_eqb (snd (fst a)) (snd (fst b)) && rat_eqb (snd a) (snd b).
Definition fval_eqb (a b : fval) : bool :=
  match a, b with
  | VS x, VS y => str_eqb x y
  | VZ x, VZ y => Z.eqb x y
  | VLS x, VLS y => leqb str_eqb x y
  | VOS x, VOS y => oeqb str_eqb x y
  | VLN x, VLN y => leqb Nat.eqb x y
  | VDR x, VDR y => leqb dr_eqb x y
  | VDZ x, VDZ y => leqb dz_eqb x y
  | VPC x, VPC y => oeqb (leqb pc_eqb) x y
  | _, _ => false
  end.
Definition ident_eqb (a b : ident) : bool := leqb fval_eqb a b.

(* Python round(q, d) for a double with exact value q: round-half-even of q * 10^d, as an integer
   number of 10^-d units (two values print the same iff these integers agree) *)
Definition round_rat (d : nat) (q : rat) : Z :=
  let num := (fst q * 10 ^ Z.of_nat d)%Z in
  let dn := Zpos (snd q) in
  let fl := (num / dn)%Z in
  let r2 := (2 * (num - fl * dn))%Z in
  if (r2 <? dn)%Z then fl else if (dn <? r2)%Z then (fl + 1)%Z
  else if Z.even fl then fl else (fl + 1)%Z.

(* value of one hashed field for a request that currently carries calculation name N *)
Definition iget (f : ifield) (N : str) (r : request) : fval :=
  let s := rq_species r in
  match f with
  | IFinalName => VS N
  | IMethod => VS (rq_method r)
  | IKeywords => VS (rq_keywords r)
  | ISpName => VS (sp_name s)
  | ICharge => VZ (sp_charge s)
  | IMult => VZ (sp_mult s)
  | IAtomsFirst n => VLS (firstn n (sp_atoms s))
  | IAtomsAll => VLS (sp_atoms s)
  | ISolvent => VOS (sp_solvent s)
  | ISolvType => VOS (rq_solvtype r)
  | ICart => VLN (sp_cart s)
  | IDistRound d => VDZ (map (fun e => (fst (fst e), snd (fst e), round_rat d (snd e))) (sp_dist s))
  | IDistExact => VDR (sp_dist s)
  | IPointCharges => VPC (rq_pcs r)
  end.

Definition ident_of (fields : list ifield) (r : request) (N : str) : ident :=
  map (fun f => iget f N r) fields.
(* str(self) of executors.py:251-260 with the generated field list *)
Definition idf (r : request) (N : str) : ident := ident_of id_fields r N.

(* the fields the PROPERTY lists (constraints split into their two kinds) *)
Inductive pfield :=
| PName | PMethod | PKeywords | PSpName | PComposition | PCharge | PMult | PSolvent | PSolvModel
| PCart | PDist | PPointCharges.
Definition all_pfields : list pfield :=
  [PName; PMethod; PKeywords; PSpName; PComposition; PCharge; PMult; PSolvent; PSolvModel; PCart; PDist; PPointCharges].
Definition pget (p : pfield) (r : request) : fval :=
  let s := rq_species r in
  match p with
  | PName => VS (rq_name r) | PMethod => VS (rq_method r) | PKeywords => VS (rq_keywords r)
  | PSpName => VS (sp_name s) | PComposition => VLS (sp_atoms s) | PCharge => VZ (sp_charge s)
  | PMult => VZ (sp_mult s) | PSolvent => VOS (sp_solvent s) | PSolvModel => VOS (rq_solvtype r)
  | PCart => VLN (sp_cart s) | PDist => VDR (sp_dist s) | PPointCharges => VPC (rq_pcs r)
  end.
(* hashed field f determines property field p completely *)
Definition covers (f : ifield) (p : pfield) : bool :=
  match f, p with
  | IMethod, PMethod | IKeywords, PKeywords | ISpName, PSpName | ICharge, PCharge | IMult, PMult
  | IAtomsAll, PComposition | ISolvent, PSolvent | ISolvType, PSolvModel | ICart, PCart
  | IDistExact, PDist | IPointCharges, PPointCharges => true
  | _, _ => false
  end.
Definition covered (p : pfield) (fields : list ifield) : bool := existsb (fun f => covers f p) fields.
(* hashed field f depends on property field p at all *)
Definition touches (f : ifield) (p : pfield) : bool :=
  match f, p with
  | IAtomsFirst _, PComposition | IDistRound _, PDist => true
  | _, _ => covers f p
  end.
Definition untouched (p : pfield) (fields : list ifield) : bool := negb (existsb (fun f => touches f p) fields).

(* ------------------------------------------------------------------ names (executors.py:46, 519-520, 314) *)
Definition hyphen : ascii := "-"%char.
Definition uscore : ascii := "_"%char.
Definition strip_hyphen (s : str) : str :=
  match s with
  | c :: _ => if hyphen_rule && Ascii.eqb c hyphen then uscore :: s else s
  | [] => s
  end.
Definition base_name (r : request) : str := strip_hyphen (rq_name r) ++ uscore :: rq_method r.
Definition dec (n : nat) : str := s2l (DecimalString.NilEmpty.string_of_uint (Nat.to_uint n)).     (* f"{n}" *)
Definition cand (b : str) (k : option nat) : str := match k with None => b | Some n => b ++ dec n end.

(* ------------------------------------------------------------------ registry file (executors.py:262-324) *)
Definition record := (str * ident)%type.          (* one line written by print(self.name, str(self)) *)
Definition registry := list record.               (* the file, oldest line first; [] = no file yet *)

(* ASCII characters str.split() treats as separators *)
Definition is_ws (c : ascii) : bool :=
  let n := nat_of_ascii c in
  (Nat.leb 9 n && Nat.leb n 13) || (Nat.leb 28 n && Nat.leb n 32).
Fixpoint tok (cur : str) (s : str) : list str :=
  match s with
  | [] => match cur with [] => [] | _ => [List.rev cur] end
  | c :: r => if is_ws c then match cur with [] => tok [] r | _ => List.rev cur :: tok [] r end
              else tok (c :: cur) r
  end.
Definition tokens (s : str) : list str := tok [] s.       (* str.split() *)
(* `if len(line.split()) == 2: calc_name, identifier = line.split()`: the printed identity is one
   token, so the line is accepted exactly when the NAME is one token; the key is that token *)
Definition parse_line (l : record) : option record :=
  match tokens (fst l) with [t] => Some (t, snd l) | _ => None end.
Definition dict := list record.
Fixpoint dset (k : str) (v : ident) (d : dict) : dict :=          (* register[k] = v *)
  match d with
  | [] => [(k, v)]
  | (k', v') :: r => if str_eqb k k' then (k, v) :: r else (k', v') :: dset k v r
  end.
Definition build (R : registry) : dict :=
  fold_left (fun d l => match parse_line l with Some (k, v) => dset k v d | None => d end) R [].
Definition d_exists (d : dict) (n : str) : bool := existsb (fun e => str_eqb (fst e) n) d.
Definition d_identical (d : dict) (i : ident) : bool := existsb (fun e => ident_eqb (snd e) i) d.

Inductive fu_result := FU (name : str) (append : bool) | FUOutOfFuel.
(* while True: self.name = f"{name}{n}"; identical -> return; not exists -> append, return; n += 1 *)
Fixpoint suffix_loop (fuel n : nat) (d : dict) (b : str) (idn : str -> ident) : fu_result :=
  match fuel with
  | 0 => FUOutOfFuel
  | S f => let nm := b ++ dec n in
           if d_identical d (idn nm) then FU nm false
           else if negb (d_exists d nm) then FU nm true
           else suffix_loop f (S n) d b idn
  end.
(* A missing register file behaves exactly like an empty one (append and return, :282-285). *)
Definition fix_unique_fuel (fuel : nat) (R : registry) (b : str) (idn : str -> ident) : fu_result :=
  let d := build R in
  if d_identical d (idn b) then FU b false
  else if negb (d_exists d b) then FU b true
  else suffix_loop fuel 0 d b idn.
Definition fix_unique (R : registry) (b : str) (idn : str -> ident) : fu_result :=
  fix_unique_fuel (S (List.length R)) R b idn.

(* one request against the registry: new file content and the final calculation name *)
(* b is the name the executor object carries when generate_input runs: the freshly built
   f"{name}_{method}" for a new Calculation, or the FINAL name of an earlier run when an existing
   Calculation object (or a .copy() of it) is changed and run again — _fix_unique starts from
   self.name (executors.py:312) *)
Definition reg_step_from (R : registry) (b : str) (r : request) : registry * str :=
  match fix_unique R b (idf r) with
  | FU nm true => (R ++ [(nm, idf r nm)], nm)
  | FU nm false => (R, nm)
  | FUOutOfFuel => (R, b)                  (* dead: Props.fix_unique_terminates *)
  end.
Definition reg_step (R : registry) (r : request) : registry * str := reg_step_from R (base_name r) r.
Fixpoint reg_run (R : registry) (h : list request) : registry * list str :=
  match h with
  | [] => (R, [])
  | r :: t => let '(R1, n) := reg_step R r in let '(R2, ns) := reg_run R1 t in (R2, n :: ns)
  end.

(* ------------------------------------------------------------------ files *)
Fixpoint lookup_ext (m : str) (t : list (string * string * string)) : option (str * str) :=
  match t with
  | [] => None
  | (k, i, o) :: r => if str_eqb (s2l k) m then Some (s2l i, s2l o) else lookup_ext m r
  end.
Definition in_ext (m : str) : str := match lookup_ext m ext_table with Some (i, _) => i | None => s2l ".inp" end.
Definition out_ext (m : str) : str := match lookup_ext m ext_table with Some (_, o) => o | None => s2l ".out" end.

Record content := mkContent { c_normal : bool; c_producer : request }.   (* an output file *)
Inductive fkind := KInput | KOutput (c : content) | KSide
| KTraj (c : content).       (* <name>_opt_trj.zip written by autodE's own optimiser (CalculationExecutorO) *)
Record file := mkFile { f_name : str; f_owner : str; f_kind : fkind }.   (* owner = name of the calculation that wrote it *)
Definition fsys := list file.
Definition fs_remove (nm : str) (fs : fsys) : fsys := filter (fun f => negb (str_eqb (f_name f) nm)) fs.
Definition fs_write (f : file) (fs : fsys) : fsys := f :: fs_remove (f_name f) fs.
Definition fs_find (fs : fsys) (nm : str) : option file := find (fun f => str_eqb (f_name f) nm) fs.
Definition fs_exists (fs : fsys) (nm : str) : bool := match fs_find fs nm with Some _ => true | None => false end.
Definition fs_normal (fs : fsys) (nm : str) : bool :=
  match fs_find fs nm with Some (mkFile _ _ (KOutput c)) => c_normal c | _ => false end.

Fixpoint prefixb (p s : str) : bool :=
  match p, s with
  | [], _ => true
  | a :: p', b :: s' => Ascii.eqb a b && prefixb p' s'
  | _ :: _, [] => false
  end.
Definition matches (rule : mrule) (N fn : str) : bool :=
  match rule with
  | MPrefix => prefixb N fn
  | MPrefixDot => prefixb (N ++ ["."%char]) fn
  end.
(* clean_up (executors.py:187-210) given that it is not a no-op: the file names handed to os.remove *)
Definition cleanup_selection (everything : bool) (N : str) (inputs : list str) (outF : str) (dir : list str) : list str :=
  inputs ++ (if everything then outF :: filter (matches match_rule N) dir else []).
Definition fs_remove_all (nms : list str) (fs : fsys) : fsys := fold_left (fun f nm => fs_remove nm f) nms fs.

(* ------------------------------------------------------------------ one calculation, end to end *)
Inductive outcome := ONormal | OAbnormal | ONoOutput.     (* what the scripted external program does IF it is invoked *)
Inductive cmode := CNone | CAuto | CForce | CEverything.  (* keep files | keep_input_files=False | clean_up(force) | clean_up(force, everything) *)
Record op := mkOp { o_req : request;                       (* the CURRENT fields of the calculation object *)
                    o_out : outcome; o_cm : cmode;
                    o_aux : list str;                      (* additional input files the wrapper declares (oracle) *)
                    o_start : option str;                  (* Some b: a re-used / copied Calculation object that
                                                              already carries calculation name b; None: new object *)
                    o_stale : list str }.                  (* additional files a re-used object still DECLARES from
                                                              earlier runs but does not write again (wrappers only
                                                              ever append to input.additional_filenames) *)
Definition op_start (o : op) : str := match o_start o with Some b => b | None => base_name (o_req o) end.
Record obs := mkObs { ob_name : str; ob_invoked : bool;
                      ob_energy : option request;          (* whose output the parsed energy comes from *)
                      ob_raised : bool }.
Record state := mkState { st_reg : registry; st_fs : fsys }.
Definition side_name (N : str) : str := N ++ s2l "_side.tmp".    (* scratch file the scripted program leaves *)

(* generate_input: the input file and the additional files are (re)written under the final name *)
Definition stage_inputs (N : str) (inputs : list str) (fs : fsys) : fsys :=
  fold_left (fun f nm => fs_write (mkFile nm N KInput) f) inputs fs.
(* _execute_external: unless skipped, the scripted program runs and writes (or not) the output *)
Definition stage_program (skip : bool) (oc : outcome) (N outF : str) (r : request) (fs1 : fsys) : fsys :=
  if skip then fs1 else
  match oc with
  | ONormal => fs_write (mkFile (side_name N) N KSide) (fs_write (mkFile outF N (KOutput (mkContent true r))) fs1)
  | OAbnormal => fs_write (mkFile (side_name N) N KSide) (fs_write (mkFile outF N (KOutput (mkContent false r))) fs1)
  | ONoOutput => fs1
  end.
(* set_properties needs the output to exist and parses the file named after THIS calculation; an
   exception there skips run()'s own clean_up; Calculation.run finally raises if the output did not
   terminate normally.  -> (whose energy, raised?, was run()'s clean_up reached?) *)
Definition stage_result (fs2 : fsys) (outF : str) : option request * bool * bool :=
  match fs_find fs2 outF with
  | Some (mkFile _ _ (KOutput c)) => (Some (c_producer c), negb (c_normal c), true)
  | _ => (None, true, false)
  end.
Definition stage_cleanup (cm : cmode) (reached : bool) (N : str) (inputs : list str) (outF : str) (fs2 : fsys) : fsys :=
  let dir := map f_name fs2 in
  match cm with
  | CNone => fs2
  | CAuto => if reached then fs_remove_all (cleanup_selection false N inputs outF dir) fs2 else fs2
  | CForce => fs_remove_all (cleanup_selection false N inputs outF dir) fs2
  | CEverything => fs_remove_all (cleanup_selection true N inputs outF dir) fs2
  end.

Definition exec_op (st : state) (o : op) : state * obs :=
  let r := o_req o in
  let m := rq_method r in
  let R1 := fst (reg_step_from (st_reg st) (op_start o) r) in                  (* generate_input: _fix_unique *)
  let N := snd (reg_step_from (st_reg st) (op_start o) r) in
  let outF := N ++ out_ext m in
  let inputs := (N ++ in_ext m) :: o_aux o in                                 (* written by this run *)
  let declared := inputs ++ o_stale o in                                      (* input.filenames *)
  let fs1 := stage_inputs N inputs (st_fs st) in
  let inp_ok := forallb (fs_exists fs1) declared in                           (* input.exists, else NoInputError (:134-135) *)
  let skip := reuse_rule (fs_exists fs1 outF) (fs_normal fs1 outF) in           (* _execute_external *)
  let fs2 := if inp_ok then stage_program skip (o_out o) N outF r fs1 else fs1 in
  let res := if inp_ok then stage_result fs2 outF else (None, true, false) in
  let fs3 := stage_cleanup (o_cm o) (snd res) N declared outF fs2 in
  (mkState R1 fs3, mkObs N (inp_ok && negb skip) (fst (fst res)) (snd (fst res))).

(* ------------------------------------------------------------------ optimisations with autodE's own optimisers *)
(* CalculationExecutorO (executors.py:343-474): the name is made unique in __init__ (:350); run()
   reloads <name>_opt_trj.zip when it exists (:357-360) and otherwise runs the optimiser, which
   saves that trajectory and prints <name>_opt_trj.xyz (:364-382).  The method does not use
   external io, so clean_up is a no-op (:188-189) and nothing else is written. *)
Definition trj_name (N : str) : str := N ++ s2l trj_suffix.
Definition trj_xyz (N : str) : str := N ++ s2l "_opt_trj.xyz".
(* r0: the fields the object had when it was BUILT (the only moment the registry is consulted),
   r: the fields it has when run() is called *)
Definition exec_opt_late (st : state) (r0 r : request) : state * obs :=
  let R1 := fst (reg_step (st_reg st) r0) in
  let N := snd (reg_step (st_reg st) r0) in
  match fs_find (st_fs st) (trj_name N) with
  | Some (mkFile _ _ (KTraj c)) => (mkState R1 (st_fs st), mkObs N false (Some (c_producer c)) false)
  | Some _ => (mkState R1 (st_fs st), mkObs N false None true)      (* not a trajectory: the reload fails *)
  | None => (mkState R1 (fs_write (mkFile (trj_xyz N) N KSide)
                          (fs_write (mkFile (trj_name N) N (KTraj (mkContent true r))) (st_fs st))),
             mkObs N true (Some r) false)
  end.
(* the calculation is built and run without being changed in between *)
Definition exec_opt (st : state) (r : request) : state * obs := exec_opt_late st r r.
(* a history may mix both kinds of calculation *)
Inductive gop := GExt (o : op) | GOpt (r : request).
Definition exec_gop (st : state) (g : gop) : state * obs :=
  match g with GExt o => exec_op st o | GOpt r => exec_opt st r end.
Fixpoint run_gops (st : state) (gs : list gop) : state * list obs :=
  match gs with
  | [] => (st, [])
  | g :: t => let '(st1, ob) := exec_gop st g in let '(st2, obs) := run_gops st1 t in (st2, ob :: obs)
  end.

Fixpoint run_ops (st : state) (ops : list op) : state * list obs :=
  match ops with
  | [] => (st, [])
  | o :: t => let '(st1, ob) := exec_op st o in let '(st2, obs) := run_ops st1 t in (st2, ob :: obs)
  end.
Definition init_state : state := mkState [] [].

(* ------------------------------------------------------------------ concurrent workers *)
(* Each worker performs _fix_unique as two steps: read the whole file (and decide), later append
   its line.  ASSUMPTION (stated, not proved): an append of one line is atomic (O_APPEND, one
   write), i.e. it adds exactly that record at the end of the file and touches nothing else. *)
Inductive event := EvRead (w : nat) | EvAppend (w : nat).
Definition decision := option fu_result.          (* None: has not read yet *)
Definition upd {A} (w : nat) (x : A) (f : nat -> A) : nat -> A := fun v => if Nat.eqb v w then x else f v.
Definition conc_step (ws : list request) (st : registry * (nat -> decision)) (e : event) : registry * (nat -> decision) :=
  let '(R, ds) := st in
  match e with
  | EvRead w => match nth_error ws w with
                | Some r => (R, upd w (Some (fix_unique R (base_name r) (idf r))) ds)
                | None => st
                end
  | EvAppend w => match nth_error ws w, ds w with
                  | Some r, Some (FU nm true) => (R ++ [(nm, idf r nm)], ds)
                  | _, _ => st
                  end
  end.
Definition conc_run (ws : list request) (R : registry) (evs : list event) : registry * (nat -> decision) :=
  fold_left (conc_step ws) evs (R, fun _ => None).
(* a schedule in which every worker reads once and appends once afterwards; ph w = 0 not started,
   1 has read, 2 has appended *)
Fixpoint sched_ok (ph : nat -> nat) (evs : list event) : Prop :=
  match evs with
  | [] => True
  | EvRead w :: t => ph w = 0 /\ sched_ok (upd w 1 ph) t
  | EvAppend w :: t => ph w = 1 /\ sched_ok (upd w 2 ph) t
  end.
Fixpoint run_ph (ph : nat -> nat) (evs : list event) : nat -> nat :=
  match evs with
  | [] => ph
  | EvRead w :: t => run_ph (upd w 1 ph) t
  | EvAppend w :: t => run_ph (upd w 2 ph) t
  end.
