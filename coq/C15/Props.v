(* C15/Props.v — the property theorems: "Calculations never reuse files or results of a different
   calculation".  `id_fields`, `reuse_rule`, `match_rule`, `hyphen_rule`, `ext_table` are GENERATED
   from /repo on every run (gen/C15_Gen.v); everything else is the hand model of Model.v, tied to
   the implementation by the correspondence check of harness/c15.py.

   Quantifiers: every theorem below is over ALL request histories (lists of requests / operations
   of any length, in any order), proved by induction in Lemmas.v.  "clean" requests are those whose
   requested name and method name contain no whitespace; `whitespace_name_refuted` shows that this
   hypothesis cannot be dropped (the code really misbehaves there).

   Statements of the property that are FALSE of the faithful model are proved as `..._refuted`
   with a concrete witness.  Where the falsity depends on the GENERATED field list the theorem has
   the adaptive form  `if covered P id_fields then <clause holds> else <witness>`  so that it
   stays provable when /repo is repaired; the harness evaluates which branch is in force.

   Statement vocabulary (defined at the end of Lemmas.v): `distinct_clause P` = requests differing in
   property field P never share a name, in any clean history; `refuted_clause P` = there are two
   clean requests that agree in every other property field, differ in P, and `shares` — run one
   after the other in an empty directory they get the same name, the second is not executed and
   takes over the first one's result. *)
From Coq Require Import List String Ascii Bool ZArith Arith Lia.
From AV.C15 Require Import Base Model Lemmas.
From AV.gen Require Import C15_Gen.
Import ListNotations.
Open Scope list_scope.

(* ------------------------------------------------------------------------------------------ *)
(* 1. The suffix loop of _fix_unique always terminates: the explicit fuel |registry|+1 is never
      exhausted, for EVERY registry content (well-formed or not) and every identity function. *)
Theorem fix_unique_terminates : forall (R : registry) (b : str) (idn : str -> ident),
  fix_unique R b idn <> FUOutOfFuel.
Proof. exact fix_unique_total. Qed.

(* ------------------------------------------------------------------------------------------ *)
(* 2. Repeating an identical request maps to the same name, and leaves the registry untouched:
      after any clean history h1, issue r (it gets name N); after ANY further clean history h2
      (any requests, any order), r gets N again and appends nothing. *)
Theorem same_request_same_name : forall (h1 h2 : list request) (r : request),
  Forall clean_req h1 -> clean_req r -> Forall clean_req h2 ->
  let R1 := fst (reg_run [] h1) in
  let Ra := fst (reg_step R1 r) in
  let N := snd (reg_step R1 r) in
  let R2 := fst (reg_run Ra h2) in
  reg_step R2 r = (R2, N).
Proof.
  intros h1 h2 r C1 Cr C2 R1 Ra N R2.
  destruct (reg_run [] h1) as [R1' n1] eqn:E1.
  destruct (reg_run_wf h1 _ _ _ WF_nil C1 E1) as [W1 _].
  subst R1. simpl in *.
  destruct (reg_step R1' r) as [Ra' N'] eqn:Er. subst Ra N. simpl in *.
  destruct (reg_step_wf _ _ _ _ W1 Cr Er) as [Wa _].
  destruct (reg_run Ra' h2) as [R2' n2] eqn:E2. subst R2. simpl.
  destruct (reg_run_wf h2 _ _ _ Wa C2 E2) as [W2 [I2 _]].
  exact (reg_step_again R1' r Ra' N' R2' W1 Cr Er W2 I2).
Qed.

(* ------------------------------------------------------------------------------------------ *)
(* 3. Requests that differ in a field the identity determines, or in the (hyphen-normalised)
      requested name, NEVER end up with the same calculation name — at whatever positions p, q
      of whatever clean history they are issued.  The fields of a model request are the PRINTED
      forms the code hashes (repr(keywords), str(list(set(cartesian))), the distance dict in
      insertion order, solvent name ...): "different keywords" here means "keywords that print
      differently".  Keyword objects that print alike but carry different method strings, and equal
      constraints given in another order, are outside this statement; both are reported by
      implementation oracles (finding keys keyword-method-string-not-hashed,
      constraint-insertion-order-dependent). *)
Theorem distinct_requests_distinct_names : forall (h : list request) p q ra rb Na Nb,
  Forall clean_req h ->
  nth_error h p = Some ra -> nth_error h q = Some rb ->
  nth_error (snd (reg_run [] h)) p = Some Na -> nth_error (snd (reg_run [] h)) q = Some Nb ->
  (exists pf, covered pf id_fields = true /\ pget pf ra <> pget pf rb) \/
  strip_hyphen (rq_name ra) <> strip_hyphen (rq_name rb) ->
  Na <> Nb.
Proof. exact distinct_names_gen. Qed.

(* which fields of the property's list the generated identity determines today (a field dropped
   from the hashed string breaks this theorem) *)
Theorem fields_determined_by_identity :
  forall pf, In pf [PMethod; PKeywords; PSpName; PCharge; PMult; PSolvent; PSolvModel; PCart] ->
  covered pf id_fields = true.
Proof. intros pf H. simpl in H. repeat (destruct H as [<-|H]; [reflexivity|]). destruct H. Qed.

(* 4a. Embedded point charges.  executors.py:251-257 does not hash them: two calculations that
       differ ONLY in their point charges share name, files and results. *)
Theorem point_charges_distinct_or_refuted :
  if covered PPointCharges id_fields then distinct_clause PPointCharges else refuted_clause PPointCharges.
Proof. decide_clause (w_req "a" "SPKeywords('k1')" w_sp None) (w_req "a" "SPKeywords('k1')" w_sp (Some w_pc)). Qed.

(* 4b. Composition.  species.py:103-104 hashes the labels of the first N atoms only. *)
Theorem composition_distinct_or_refuted :
  if covered PComposition id_fields then distinct_clause PComposition else refuted_clause PComposition.
Proof. decide_clause (w_req "a" "SPKeywords('k1')" (w_big "H") None) (w_req "a" "SPKeywords('k1')" (w_big "C") None). Qed.

(* 4c. Distance constraints.  constraints.py:36-38 hashes the values rounded to D decimals. *)
Theorem distance_constraints_distinct_or_refuted :
  if covered PDist id_fields then distinct_clause PDist else refuted_clause PDist.
Proof. decide_clause (w_req "a" "SPKeywords('k1')" (w_dist (1%Z, 1%positive)) None) (w_req "a" "SPKeywords('k1')" (w_dist w_eps) None). Qed.

(* 4d. Requested name.  Theorem 3 holds up to _string_without_leading_hyphen only: "-a" and "_-a"
       are different requested names that give the same calculation. *)
Theorem hyphen_alias_refuted :
  if hyphen_rule then refuted_clause PName
  else forall ra rb, rq_name ra <> rq_name rb -> strip_hyphen (rq_name ra) <> strip_hyphen (rq_name rb).
Proof.
  match goal with |- (if ?c then _ else _) =>
    first [ (assert (E : c = true) by reflexivity); rewrite E;
            exists (w_req "-a" "SPKeywords('k1')" w_sp None), (w_req "_-a" "SPKeywords('k1')" w_sp None);
            split; [split; reflexivity|]; split; [split; reflexivity|];
            split; [intros q Hq; destruct q; try reflexivity; congruence|];
            split; [vm_compute; congruence|]; vm_compute; repeat split
          | (assert (E : c = false) by reflexivity); rewrite E; intros ra rb H; unfold strip_hyphen; rewrite E;
            destruct (rq_name ra), (rq_name rb); exact H ] end.
Qed.

(* ------------------------------------------------------------------------------------------ *)
(* 5. Registry round trip.  For clean requests every line that _fix_unique relies on is read
      back: after the step the final name is a key of the parsed registry and its identity is
      found. *)
Theorem registry_roundtrip : forall (h : list request) (r : request),
  Forall clean_req h -> clean_req r ->
  let R := fst (reg_run [] h) in
  d_exists (build (fst (reg_step R r))) (snd (reg_step R r)) = true /\
  d_identical (build (fst (reg_step R r))) (idf r (snd (reg_step R r))) = true.
Proof.
  intros h r C Cr R. destruct (reg_run [] h) as [R' ns] eqn:E.
  destruct (reg_run_wf h _ _ _ WF_nil C E) as [W _]. subst R. simpl.
  exact (registry_roundtrip_wf R' r W Cr).
Qed.
(* Without the cleanliness hypothesis this is false (executors.py:290 ignores every line whose
   name contains whitespace): the appended line is never read back, so two DIFFERENT
   calculations (different keywords, a field the identity does cover) called "a b" share name,
   files and results. *)
Theorem whitespace_name_refuted :
  exists ra rb, pget PKeywords ra <> pget PKeywords rb /\ covered PKeywords id_fields = true /\
    build (fst (reg_step [] ra)) = [] /\ shares ra rb.
Proof.
  exists (w_req "a b" "SPKeywords('k1')" w_sp None), (w_req "a b" "SPKeywords('k2')" w_sp None).
  split; [vm_compute; congruence|]. split; [reflexivity|]. split; [reflexivity|]. vm_compute. repeat split.
Qed.

(* ------------------------------------------------------------------------------------------ *)
(* 6. Restart (PARTIAL).  In the MODEL the registry file and the directory are the only state that is
      carried from one operation to the next: running a history in one go equals running a prefix,
      discarding everything else, and running the rest from the state left on disk.  This is a
      statement about how the model is set up (it holds for any step function of that shape); that
      the CODE keeps no further state between calculations issued through NEW objects is not proved
      but exercised by the `restart` stream (the same sequences split over two fresh interpreters).
      Per-object state (the name / declared files a re-used object carries) is an INPUT of each
      operation (o_start, o_stale) and does not survive a restart. *)
Theorem restart_equivalence_partial : forall (st : state) (h1 h2 : list gop),
  run_gops st (h1 ++ h2) =
  let '(st1, o1) := run_gops st h1 in let '(st2, o2) := run_gops st1 h2 in (st2, o1 ++ o2).
Proof. exact run_gops_app. Qed.

(* ------------------------------------------------------------------------------------------ *)
(* 7. An existing output is reused only if it exists and terminated normally; otherwise the
      program is run, and what is parsed afterwards is the output just written. *)
Theorem reuse_only_if_normal : forall (st : state) (o : op),
  (ex_inp_ok st o = true -> ob_invoked (snd (exec_op st o)) = false ->
     fs_exists (ex_fs1 st o) (ex_outF st o) = true /\ fs_normal (ex_fs1 st o) (ex_outF st o) = true) /\
  (ex_inp_ok st o = true ->
   fs_exists (ex_fs1 st o) (ex_outF st o) && fs_normal (ex_fs1 st o) (ex_outF st o) = false ->
     ob_invoked (snd (exec_op st o)) = true) /\
  (ob_invoked (snd (exec_op st o)) = true -> o_out o <> ONoOutput ->
     ob_energy (snd (exec_op st o)) = Some (o_req o)) /\
  (* a declared input file is missing (NoInputError): nothing is run and nothing is parsed *)
  (ex_inp_ok st o = false ->
     ob_invoked (snd (exec_op st o)) = false /\ ob_energy (snd (exec_op st o)) = None /\
     ob_raised (snd (exec_op st o)) = true).
Proof.
  intros st o. split; [|split; [|split]].
  - intros Hok H. destruct (skip_means_normal st o Hok H) as [H1 [H2 _]]. split; assumption.
  - exact (not_normal_means_invoked st o).
  - intros H1 H2. exact (proj1 (invoked_result_is_fresh st o H1 H2)).
  - exact (missing_input_means_nothing st o).
Qed.

(* 8. Never the result of a different calculation: in EVERY state reachable by clean operations
      (any outcomes of the external program, any clean-up modes, any order), whenever a result is
      parsed — from a reused output or a fresh one — the file it comes from was produced by a
      request with the SAME identity, hence one that agrees in every field the identity
      determines.  The operation may be issued through a NEW Calculation object or through an
      existing one (or a copy) that was changed and run again (o_start = the name it carried): a
      request is determined by its current fields, not by the history of the object. *)
Theorem parsed_results_same_identity : forall (st : state) (o : op) (r' : request),
  reachable st -> clean_op o ->
  ob_energy (snd (exec_op st o)) = Some r' ->
  idf r' (ob_name (snd (exec_op st o))) = idf (o_req o) (ob_name (snd (exec_op st o))) /\
  forall pf, covered pf id_fields = true -> pget pf r' = pget pf (o_req o).
Proof.
  intros st o r' Hr C H. pose proof (parsed_same_identity st o r' (reachable_inv st Hr) C H) as E.
  split; [exact E|]. intros pf Hc. exact (covered_sound id_fields pf r' (o_req o) _ _ Hc E).
Qed.

(* 8b. The same for optimisations run by autodE's own optimisers (CalculationExecutorO, saved
       trajectory <name>_opt_trj.zip): in every reachable directory — histories may mix external
       calculations and optimisations — the optimiser is skipped only when a trajectory saved under
       the calculation's OWN final name exists, and the result taken (reloaded or fresh) was produced
       by a request of the same identity. *)
Theorem optimisation_results_same_identity : forall (st : state) (r r' : request),
  reachable st -> clean_req r ->
  (ob_invoked (snd (exec_opt st r)) = false ->
     fs_exists (st_fs st) (trj_name (ob_name (snd (exec_opt st r)))) = true) /\
  (ob_energy (snd (exec_opt st r)) = Some r' ->
     idf r' (ob_name (snd (exec_opt st r))) = idf r (ob_name (snd (exec_opt st r))) /\
     forall pf, covered pf id_fields = true -> pget pf r' = pget pf r).
Proof.
  intros st r r' Hr C. split.
  - intros H. pose proof (opt_skip_means_trajectory st r H) as E.
    unfold exec_opt, exec_opt_late. destruct (fs_find (st_fs st) (trj_name (snd (reg_step (st_reg st) r)))) as [[nm own k]|]; [destruct k|]; exact E.
  - intros H. pose proof (opt_parsed_same_identity st r r' (reachable_inv st Hr) C H) as E.
    split; [exact E|]. intros pf Hc. exact (covered_sound id_fields pf r' r _ _ Hc E).
Qed.

(* 8b'. Theorem 8b is about optimisations that are built and run WITHOUT being changed in between.
        CalculationExecutorO consults the registry only in __init__ (executors.py:350); run() never
        does.  If the object is changed after it was built (or run a second time after a change),
        it keeps its name, finds the trajectory of the calculation it was before and takes over
        that result without running: rb (distance constraint 1.4) gets the result of ra (1.0). *)
Theorem optimisation_late_change_refuted :
  let ra := w_req "a" "OptKeywords()" (w_dist (1%Z, 1%positive)) None in
  let rb := w_req "a" "OptKeywords()" (w_dist (7%Z, 5%positive)) None in
  let st1 := fst (exec_opt init_state ra) in
  (forall N, idf ra N <> idf rb N) /\
  ob_invoked (snd (exec_opt_late st1 ra rb)) = false /\
  ob_energy (snd (exec_opt_late st1 ra rb)) = Some ra /\
  ob_name (snd (exec_opt st1 rb)) <> ob_name (snd (exec_opt_late st1 ra rb)).
Proof.
  cbv zeta. split; [intros N; vm_compute; congruence|].
  split; [vm_compute; reflexivity|]. split; [vm_compute; reflexivity|vm_compute; congruence].
Qed.

(* 8c. "An identical request gets the same name" (theorem 2) is about requests issued through NEW
       Calculation objects.  It is FALSE when an existing object is re-used: _fix_unique starts from
       the name the object carries (executors.py:312), so a calculation changed to k2 and then back
       to its original input is named a_xtb00 and run again instead of re-using a_xtb.  (Safety is
       not affected: theorems 8/8b hold for re-used objects too.) *)
Theorem reused_object_same_request_refuted :
  let r1 := w_req "a" "SPKeywords('k1')" w_sp None in
  let r2 := w_req "a" "SPKeywords('k2')" w_sp None in
  exists n1 n2 n3,
    map ob_name (snd (run_ops init_state [mkOp r1 ONormal CNone [] None []; mkOp r2 ONormal CNone [] (Some n1) [];
                                          mkOp r1 ONormal CNone [] (Some n2) []])) = [n1; n2; n3] /\
    n3 <> n1 /\
    map ob_invoked (snd (run_ops init_state [mkOp r1 ONormal CNone [] None []; mkOp r2 ONormal CNone [] (Some n1) [];
                                             mkOp r1 ONormal CNone [] (Some n2) []])) = [true; true; true].
Proof.
  cbv zeta. exists (s2l "a_xtb"), (s2l "a_xtb0"), (s2l "a_xtb00").
  split; [vm_compute; reflexivity|]. split; [vm_compute; congruence|vm_compute; reflexivity].
Qed.

(* ------------------------------------------------------------------------------------------ *)
(* 9. Clean-up (PARTIAL).  "Own" files are those WRITTEN in this run (input file, the additional
      files the wrapper wrote: oracle o_aux, output, scratch).  For an object that declares no stale
      additional file: in every mode except `everything` every file of the directory that belongs
      to another calculation survives; with everything=True the same holds for files the selection
      rule does not match. *)
Theorem cleanup_only_own_files_partial : forall (st : state) (o : op) (f : file),
  o_stale o = [] ->
  In f (ex_fs2 st o) -> f_owner f <> ex_N st o ->
  (o_cm o <> CEverything -> In f (st_fs (fst (exec_op st o)))) /\
  (o_cm o = CEverything -> f_name f <> ex_outF st o -> matches match_rule (ex_N st o) (f_name f) = false ->
     In f (st_fs (fst (exec_op st o)))).
Proof.
  intros st o f Hst Hin Hown. split.
  - intros H. exact (cleanup_keeps_foreign st o f Hst H Hin Hown).
  - intros H1 H2 H3. exact (cleanup_everything_keeps_unmatched st o f Hst H1 Hin Hown H2 H3).
Qed.
(* The hypothesis `o_stale o = []` (the object declares no additional file it did not write in this
   run) cannot be dropped: wrappers only ever APPEND to input.additional_filenames, so a re-used
   object still declares the point-charge / xcontrol files of the calculation it was before, and the
   plain clean_up(force=True) of the new calculation a_xtb0 deletes a file that belongs to a_xtb. *)
Theorem cleanup_stale_declaration_refuted :
  let r1 := w_req "a" "SPKeywords('k1')" w_sp (Some w_pc) in
  let r2 := w_req "a" "SPKeywords('k2')" w_sp (Some w_pc) in
  let st1 := fst (exec_op init_state (mkOp r1 ONormal CNone [s2l "a_xtb_xtb.pc"] None [])) in
  let o2 := mkOp r2 ONormal CForce [s2l "a_xtb0_xtb.pc"] (Some (s2l "a_xtb")) [s2l "a_xtb_xtb.pc"] in
  ex_N st1 o2 = s2l "a_xtb0" /\
  (exists f, In f (ex_fs2 st1 o2) /\ f_name f = s2l "a_xtb_xtb.pc" /\ f_owner f = s2l "a_xtb") /\
  fs_exists (st_fs (fst (exec_op st1 o2))) (s2l "a_xtb_xtb.pc") = false.
Proof.
  cbv zeta. split; [vm_compute; reflexivity|]. split; [|vm_compute; reflexivity].
  exists (mkFile (s2l "a_xtb_xtb.pc") (s2l "a_xtb") KInput). split; [vm_compute; tauto|split; reflexivity].
Qed.
(* The full clause is false (executors.py:199 matches by name PREFIX): after `a` was run twice
   with different keywords (names a_xtb and a_xtb0), cleaning up the first with everything=True
   deletes the second one's output and input. *)
Theorem cleanup_prefix_refuted :
  match match_rule with
  | MPrefix =>
      exists f, Forall clean_op (w_ops ++ [w_clean]) /\
        In f (ex_fs2 (fst (run_ops init_state w_ops)) w_clean) /\
        f_owner f <> ex_N (fst (run_ops init_state w_ops)) w_clean /\
        (exists c, f_kind f = KOutput c /\ pget PKeywords (c_producer c) <> pget PKeywords (o_req w_clean)) /\
        fs_exists (st_fs (fst (exec_op (fst (run_ops init_state w_ops)) w_clean))) (f_name f) = false
  | MPrefixDot => True
  end.
Proof.
  match goal with |- match ?m with _ => _ end => first
    [ (assert (E : m = MPrefix) by reflexivity); rewrite E;
      exists (mkFile (s2l "a_xtb0.out") (s2l "a_xtb0") (KOutput (mkContent true (w_req "a" "SPKeywords('k2')" w_sp None))));
      split; [repeat constructor|];
      split; [vm_compute; tauto|];
      split; [vm_compute; congruence|];
      split; [eexists; split; [reflexivity|vm_compute; congruence]|];
      vm_compute; reflexivity
    | (assert (E : m = MPrefixDot) by reflexivity); rewrite E; exact I ] end.
Qed.

(* ------------------------------------------------------------------------------------------ *)
(* 10. Concurrent workers (PARTIAL in scope: each worker performs ONE registration — one read of
       the whole file and, later, one append; workers that issue several calculations without
       synchronisation, run()/clean_up and the optimisation executor are not covered).
       ASSUMPTION (stated in Model.v, not proved): appending one registry
       line is atomic.  For workers whose candidate names are pairwise disjoint, EVERY interleaving
       of their (read whole file; later append) steps ends with the initial lines intact and in
       place, followed by exactly the lines the workers would have appended running alone — none
       lost, none duplicated, none foreign — and every worker decides exactly as if it ran alone
       (same final name as in any sequential order). *)
Theorem interleaving_no_lost_entry : forall (R0 : registry) (ws : list request) (evs : list event),
  WF R0 -> Forall clean_req ws -> independent ws ->
  sched_ok (fun _ => 0) evs -> (forall w, w < List.length ws -> run_ph (fun _ => 0) evs w = 2) ->
  exists E, fst (conc_run ws R0 evs) = R0 ++ E /\ NoDup (names E) /\ WF (fst (conc_run ws R0 evs)) /\
    (forall l, In l E <-> exists r, In r ws /\ In l (solo_line R0 r)) /\
    (forall w r, nth_error ws w = Some r -> snd (conc_run ws R0 evs) w = Some (solo R0 r)).
Proof. intros R0 ws evs W C I S H. exact (conc_result R0 ws W C I evs S H). Qed.
(* the hypothesis holds for the parallel-conformer case: one method, pairwise different names *)
Theorem distinct_names_are_independent : forall (ws : list request) (m : str),
  (forall r, In r ws -> rq_method r = m) ->
  NoDup (map (fun r => strip_hyphen (rq_name r)) ws) -> independent ws.
Proof. exact independent_same_method. Qed.
(* reachable registries are well formed, so the theorem applies to every directory produced by
   clean requests *)
Theorem reachable_registry_wf : forall (h : list request), Forall clean_req h -> WF (fst (reg_run [] h)).
Proof.
  intros h C. destruct (reg_run [] h) as [R ns] eqn:E. exact (proj1 (reg_run_wf h _ _ _ WF_nil C E)).
Qed.

(* ------------------------------------------------------------------------------------------ *)
(* non-vacuity: clean requests exist, histories reach suffixed names, and a two-worker schedule
   satisfying all hypotheses of the interleaving theorem exists *)
Example nonvacuous :
  let r1 := w_req "a" "SPKeywords('k1')" w_sp None in
  let r2 := w_req "a" "SPKeywords('k2')" w_sp None in
  let r3 := w_req "b" "SPKeywords('k1')" w_sp None in
  clean_req r1 /\ clean_req r2 /\
  map (@string_of_list_ascii) (snd (reg_run [] [r1; r2; r1; r2])) = ["a_xtb"; "a_xtb0"; "a_xtb"; "a_xtb0"]%string /\
  independent [r1; r3] /\
  sched_ok (fun _ => 0) [EvRead 0; EvRead 1; EvAppend 1; EvAppend 0] /\
  (forall w, w < 2 -> run_ph (fun _ => 0) [EvRead 0; EvRead 1; EvAppend 1; EvAppend 0] w = 2) /\
  map (fun l => string_of_list_ascii (fst l)) (fst (conc_run [r1; r3] [] [EvRead 0; EvRead 1; EvAppend 1; EvAppend 0]))
    = ["b_xtb"; "a_xtb"]%string.
Proof.
  cbv zeta. split; [split; reflexivity|]. split; [split; reflexivity|]. split; [vm_compute; reflexivity|].
  split.
  - apply (independent_same_method _ (s2l "xtb")).
    + intros r [<-|[<-|[]]]; reflexivity.
    + vm_compute. repeat constructor; simpl; intuition discriminate.
  - split; [simpl; tauto|]. split; [|vm_compute; reflexivity].
    intros w Hw. destruct w as [|[|w]]; [reflexivity|reflexivity|lia].
Qed.
