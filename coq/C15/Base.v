(* C15/Base.v — the vocabulary the generated file gen/C15_Gen.v is written in. *)
From Coq Require Import List String.
Import ListNotations.

(* A piece of request data that CalculationExecutor.__str__ (executors.py:251-260), Species.__str__
   (species.py:96-108) and Constraints.__str__ (constraints.py:28-42) can put into the hashed
   identity string.  The translator maps every `{...}` of those three f-strings to one constructor
   and fails closed on anything else.  Constructors that the current source does not use
   (IAtomsAll, IDistExact, IPointCharges) are the repaired forms of the lossy ones. *)
Inductive ifield :=
| IFinalName                  (* {self.name}: the (possibly suffixed) calculation name *)
| IMethod                     (* {self.method.name} *)
| IKeywords                   (* {repr(self.input.keywords)} *)
| ISpName                     (* Species: {self.name} *)
| ICharge                     (* Species: {self.charge} *)
| IMult                       (* Species: {self.mult} *)
| IAtomsFirst (n : nat)       (* Species: labels of self.atoms[:n] *)
| IAtomsAll                   (* Species: labels of all atoms *)
| ISolvent                    (* Species: solvent name or "none" *)
| ISolvType                   (* {self.method.implicit_solvation_type} *)
| ICart                       (* Constraints: str(list(set(cartesian))) *)
| IDistRound (d : nat)        (* Constraints: {key: round(val, d)} *)
| IDistExact                  (* Constraints: unrounded distances *)
| IPointCharges.              (* embedded point charges *)

(* How clean_up(everything=True) selects directory entries (executors.py:198-200). *)
Inductive mrule :=
| MPrefix        (* fn.startswith(self.name) *)
| MPrefixDot.    (* fn.startswith(self.name + ".") *)
