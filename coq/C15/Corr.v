(* C15/Corr.v — helpers used only by the correspondence check (model vs implementation).
   The harness defines the request universe `U` in the preamble and sends, per executed
   operation sequence, what the implementation did; the checkers below recompute everything
   with the model and compare. *)
From Coq Require Import List String Ascii Bool ZArith Arith.
From AV.C15 Require Import Base Model.
From AV.gen Require Import C15_Gen.
Import ListNotations.
Open Scope list_scope.

Definition bytes_of_codes (l : list nat) : str := map ascii_of_nat l.

Definition species_eqb (a b : species) : bool :=
  str_eqb (sp_name a) (sp_name b) && Z.eqb (sp_charge a) (sp_charge b) && Z.eqb (sp_mult a) (sp_mult b) &&
  leqb str_eqb (sp_atoms a) (sp_atoms b) && oeqb str_eqb (sp_solvent a) (sp_solvent b) &&
  leqb Nat.eqb (sp_cart a) (sp_cart b) && leqb dr_eqb (sp_dist a) (sp_dist b).
Definition request_eqb (a b : request) : bool :=
  str_eqb (rq_name a) (rq_name b) && str_eqb (rq_method a) (rq_method b) &&
  oeqb str_eqb (rq_solvtype a) (rq_solvtype b) && str_eqb (rq_keywords a) (rq_keywords b) &&
  species_eqb (rq_species a) (rq_species b) && oeqb (leqb pc_eqb) (rq_pcs a) (rq_pcs b).

Fixpoint list_eqb {A} (eqb : A -> A -> bool) (a b : list A) : bool :=
  match a, b with
  | [], [] => true
  | x :: a', y :: b' => eqb x y && list_eqb eqb a' b'
  | _, _ => false
  end.
Definition subset {A} (eqb : A -> A -> bool) (a b : list A) : bool := forallb (fun x => existsb (eqb x) b) a.
Definition set_eqb {A} (eqb : A -> A -> bool) (a b : list A) : bool :=
  Nat.eqb (List.length a) (List.length b) && subset eqb a b && subset eqb b a.

(* the first index of js whose universe element satisfies p (999 when none) *)
Fixpoint first_idx (p : nat -> bool) (js : list nat) : nat :=
  match js with [] => 999 | j :: r => if p j then j else first_idx p r end.

Definition dummy_species : species := mkSpecies [] 0 0 [] None [] [].
Definition dummy_req : request := mkReq [] [] None [] dummy_species None.
Definition req (U : list request) (j : nat) : request := nth j U dummy_req.

(* an operation as sent by the harness: (request index, outcome, clean-up mode, additional files,
   the name a re-used Calculation object already carried) *)
Definition hop := (nat * outcome * cmode * list str * option str * list str)%type.
Definition to_op (U : list request) (h : hop) : op :=
  let '(j, oc, cm, aux, start, stale) := h in mkOp (req U j) oc cm aux start stale.
(* either kind of calculation: external program, or optimisation by autodE's own optimiser *)
(* HOptLate j0 j: an optimisation object built with the fields of request j0 and changed to
   request j before run() *)
Inductive hgop := HExt (h : hop) | HOpt (j : nat) | HOptLate (j0 j : nat).
Definition exec_hgop (U : list request) (st : state) (h : hgop) : state * obs :=
  match h with
  | HExt h => exec_op st (to_op U h)
  | HOpt j => exec_opt st (req U j)
  | HOptLate j0 j => exec_opt_late st (req U j0) (req U j)
  end.
Fixpoint run_hgops (U : list request) (st : state) (hs : list hgop) : state * list obs :=
  match hs with
  | [] => (st, [])
  | h :: t => let '(st1, ob) := exec_hgop U st h in let '(st2, obs) := run_hgops U st1 t in (st2, ob :: obs)
  end.
(* an observation as sent by the harness: (final name, invoked?, index of the request whose output
   the energy was parsed from, raised?) *)
Definition hobs := (str * bool * option nat * bool)%type.
Definition obs_eqb (U : list request) (m : obs) (h : hobs) : bool :=
  let '(nm, inv, en, rs) := h in
  str_eqb (ob_name m) nm && Bool.eqb (ob_invoked m) inv && Bool.eqb (ob_raised m) rs &&
  match ob_energy m, en with
  | Some r, Some j => request_eqb r (req U j)
  | None, None => true
  | _, _ => false
  end.

(* registry line -> (name, first index of js whose identity under that name is the line's) *)
Definition canon_line (U : list request) (js : list nat) (l : record) : str * nat :=
  (fst l, first_idx (fun j => ident_eqb (idf (req U j) (fst l)) (snd l)) js).
Definition line_eqb (a b : str * nat) : bool := str_eqb (fst a) (fst b) && Nat.eqb (snd a) (snd b).
(* output / trajectory file -> (file name, terminated normally?, producer); the harness sends the
   universe index of the producer (two universe entries may be the same model request, e.g. keyword
   objects that print alike, so producers are compared as requests) *)
Definition outs_of (fs : fsys) : list (str * bool * request) :=
  flat_map (fun f => match f_kind f with
                     | KOutput c | KTraj c => [(f_name f, c_normal c, c_producer c)]
                     | _ => [] end) fs.
Definition out_match (U : list request) (m : str * bool * request) (h : str * bool * nat) : bool :=
  str_eqb (fst (fst m)) (fst (fst h)) && Bool.eqb (snd (fst m)) (snd (fst h)) && request_eqb (snd m) (req U (snd h)).
Definition outs_eqb (U : list request) (ms : list (str * bool * request)) (hs : list (str * bool * nat)) : bool :=
  Nat.eqb (List.length ms) (List.length hs) &&
  forallb (fun m => existsb (out_match U m) hs) ms && forallb (fun h => existsb (fun m => out_match U m h) ms) hs.

(* one executed sequence: per-operation observations, final registry (in file order), final
   directory listing and the content of every output file in it *)
Definition chk_seq (U : list request) (js : list nat) (hops : list hgop) (eobs : list hobs)
           (ereg : list (str * nat)) (efiles : list str) (eouts : list (str * bool * nat)) : bool :=
  let '(st, obs) := run_hgops U init_state hops in
  Nat.eqb (List.length obs) (List.length eobs) &&
  forallb (fun p => obs_eqb U (fst p) (snd p)) (combine obs eobs) &&
  list_eqb line_eqb (map (canon_line U js) (st_reg st)) ereg &&
  set_eqb str_eqb (map f_name (st_fs st)) efiles &&
  outs_eqb U (outs_of (st_fs st)) eouts.

(* the same sequence executed in two processes: the second starts from what the first left on disk *)
Definition chk_seq_restart (U : list request) (js : list nat) (h1 h2 : list hgop) (eobs : list hobs)
           (ereg : list (str * nat)) (efiles : list str) (eouts : list (str * bool * nat)) : bool :=
  chk_seq U js (h1 ++ h2) eobs ereg efiles eouts.

(* identity classes: do two universe requests have the same identity under a common name? *)
Definition chk_same_id (U : list request) (nm : str) (i j : nat) (same : bool) : bool :=
  Bool.eqb (ident_eqb (idf (req U i) nm) (idf (req U j) nm)) same.
(* base name of a request *)
Definition chk_base (U : list request) (j : nat) (nm : str) : bool := str_eqb (base_name (req U j)) nm.

(* concurrent round: registry before (as appended records rebuilt from universe indices), the
   workers' requests, the registry after.  Theorem interleaving_no_lost_entry: after = before ++ a
   permutation of the workers' solo lines. *)
Definition mk_reg (U : list request) (l : list (str * nat)) : registry :=
  map (fun e => (fst e, idf (req U (snd e)) (fst e))) l.
Definition solo_line_c (R0 : registry) (r : request) : list record :=
  match fix_unique R0 (base_name r) (idf r) with FU nm true => [(nm, idf r nm)] | _ => [] end.
Definition rec_eqb (a b : record) : bool := str_eqb (fst a) (fst b) && ident_eqb (snd a) (snd b).
Definition chk_conc (U : list request) (before : list (str * nat)) (workers : list nat)
           (after : list (str * nat)) : bool :=
  let R0 := mk_reg U before in
  let R1 := mk_reg U after in
  let n := List.length R0 in
  list_eqb rec_eqb (firstn n R1) R0 &&
  set_eqb rec_eqb (skipn n R1) (flat_map (fun w => solo_line_c R0 (req U w)) workers).
(* the name each worker ends with equals its solo decision *)
Definition chk_conc_name (U : list request) (before : list (str * nat)) (w : nat) (nm : str) : bool :=
  match fix_unique (mk_reg U before) (base_name (req U w)) (idf (req U w)) with
  | FU n _ => str_eqb n nm
  | FUOutOfFuel => false
  end.

(* which clauses the generated model refutes today (printed by the harness, compared with the
   implementation-side oracles) *)
Definition status_flags : list bool :=
  [covered PPointCharges id_fields; covered PComposition id_fields; covered PDist id_fields;
   negb hyphen_rule; match match_rule with MPrefix => false | MPrefixDot => true end].
