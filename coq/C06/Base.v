(* C06/Base.v — the record types the generated unit table (gen/C06_Gen.v) is written in. *)
From Coq Require Import ZArith QArith Qcanon List String.
Import ListNotations.

Record unit := mkUnit { uname : string; ualiases : list string; utimes : Qc; uadd : Qc }.

(* how units.py declares a factor *)
Inductive decl :=
| DBase                                   (* BaseUnit: identity *)
| DConst (c : string)                     (* Constants.<c> *)
| DLit (q : Qc)                           (* numeric literal *)
| DComposite (tops pers : list unit)      (* CompositeUnit with numerator tops and denominator pers *)
| DExpr.                                  (* anything else *)
