(* C06/Refuted.v — clauses of the property that are FALSE of the faithful model, each with a concrete
   witness and tied to a finding key of harness/c06.py.  These are not needed for the property: the
   harness builds this file separately and a witness that stops compiling (defect repaired) is only
   noted.  Statements + short proofs by evaluation on the witness. *)
From Coq Require Import ZArith QArith Qcanon List String Bool.
From AV.lib Require Import QcInst.
From AV.C06 Require Import Base Model Lemmas.
From AV.gen Require Import C06_Gen.
Import ListNotations.
Open Scope Qc_scope.

Definition cls_of (k : string) : list unit :=
  match find (fun e => String.eqb (fst e) k) classes with Some e => snd e | None => [] end.
Definition unit_of (k nm : string) : unit :=
  match find (fun u => String.eqb (uname u) nm) (cls_of k) with Some u => u | None => mkUnit "" [] 0 0 end.

(* key  factor:J m^-2 kg^-1|has-factor-of-J-ang^-2-kg^-1   (units.py:262)
   the unit NAMED J m^-2 kg^-1 does not have the factor its name states (it is 1e20 smaller: the
   factor of J ang^-2 kg^-1) *)
Theorem factor_J_m2_kg_refuted :
  exists u, In u all_units /\ uname u = "J m^-2 kg^-1"%string /\ matches_reference u = false /\
            misnamed_ok u = true.
Proof. exists u_J_per_ang_sq_kg. split; [vm_compute; tauto|]. repeat split; vm_compute; reflexivity. Qed.

(* key  Value.__eq__|tolerance-in-left-operand-unit   (values.py:176-185)
   a = 1 Å, b = 99.9999995 pm (Distance):  a == b  but not  b == a;  a <= b but not b >= a;
   and the answer changes when both are first converted to the common unit pm *)
Theorem value_eq_asymmetric_refuted :
  exists cls a b, In ("Distance"%string, cls) classes /\ In (vu a) cls /\ In (vu b) cls /\
    v_eq cls a b = Some true /\ v_eq cls b a = Some false /\
    v_le cls a b = Some true /\ v_ge cls b a = Some false /\
    (exists a', to_unit cls a (vu b) = Some a' /\ v_eq cls a' b = Some false).
Proof.
  exists (cls_of "Distance"), (mkValue 1 (unit_of "Distance" "Å")),
         (mkValue (qc 999999995 10000000) (unit_of "Distance" "pm")).
  split; [vm_compute; tauto|]. split; [vm_compute; tauto|]. split; [vm_compute; tauto|].
  repeat split; try (vm_compute; reflexivity).
  eexists. split; vm_compute; reflexivity.
Qed.

(* keys  ValueArray.__add__|units-ignored, ValueArray.__sub__|units-ignored, ValueArray.__lt__|units-ignored
   (no override in values.py:611-716: numpy adds / compares the raw numbers)
   [1] Å + [1] bohr = [2] Å, not 1.529177 Å;  [1] Å < [1] bohr is False although 1 bohr < 1 Å means
   [1] bohr < [1] Å must hold and does not either *)
Theorem array_arith_ignores_units_refuted :
  exists cls a b, In ("Coordinates"%string, cls) classes /\ In (aunit a) cls /\ In (aunit b) cls /\
    axs (arr_add a b) <> zipq Qcplus (axs a) (map (fun y => conv y (aunit b) (aunit a)) (axs b)) /\
    axs (arr_sub a b) <> zipq Qcminus (axs a) (map (fun y => conv y (aunit b) (aunit a)) (axs b)) /\
    arr_lt b a <> zipq Qcltb (axs b) (map (fun y => conv y (aunit a) (aunit b)) (axs a)).
Proof.
  exists (cls_of "Coordinates"), (mkArr [1] (unit_of "Coordinates" "Å")), (mkArr [1] (unit_of "Coordinates" "bohr")).
  split; [vm_compute; tauto|]. split; [vm_compute; tauto|]. split; [vm_compute; tauto|].
  repeat split; vm_compute; discriminate.
Qed.

(* keys  Value.__add__|ndarray-operand-units-dropped, Value.__sub__|ndarray-operand-units-dropped
   (values.py:216-217, 246-247)   Distance(1 m) + Coordinate(1,1,1 Å) = (2,2,2) Å *)
Theorem scalar_array_arith_drops_units_refuted :
  exists cls (a : value) (b : arr), In ("Coordinates"%string, cls) classes /\ In (vu a) cls /\ In (aunit b) cls /\
    axs (va_add a b) <> map (fun y => y + conv (vx a) (vu a) (aunit b)) (axs b) /\
    axs (va_sub a b) <> map (fun y => conv (vx a) (vu a) (aunit b) - y) (axs b).
Proof.
  exists (cls_of "Coordinates"), (mkValue 1 (unit_of "Coordinates" "m")), (mkArr [1] (unit_of "Coordinates" "Å")).
  split; [vm_compute; tauto|]. split; [vm_compute; tauto|]. split; [vm_compute; tauto|].
  split; vm_compute; discriminate.
Qed.

(* no key (not a defect: documented limit of the clause).  For the affine Kelvin/Celsius pair no sum
   can agree with "convert both to a common unit first" for EVERY common unit:
   300 K + 20 C taken in K is 593.15 K, taken in C it is 46.85 C = 320 K.  The code takes the sum in
   the left operand's unit (add_sub_via_common_unit). *)
Theorem temperature_sum_depends_on_unit :
  exists cls a b s1 s2 s2k, In ("Temperature"%string, cls) classes /\
    v_add cls a b = Some s1 /\ v_add cls b a = Some s2 /\ to_unit cls s2 (vu a) = Some s2k /\
    vx s1 <> vx s2k.
Proof.
  exists (cls_of "Temperature"), (mkValue (qc 300 1) (unit_of "Temperature" "kelvin")),
         (mkValue (qc 20 1) (unit_of "Temperature" "celsius")).
  eexists. eexists. eexists. split; [vm_compute; tauto|].
  split; [vm_compute; reflexivity|]. split; [vm_compute; reflexivity|]. split; [vm_compute; reflexivity|].
  vm_compute. discriminate.
Qed.
