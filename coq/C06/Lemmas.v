(* C06/Lemmas.v — proofs about the generated conversion arithmetic and the hand model. *)
From Coq Require Import ZArith QArith Qcanon List String Bool Field Lia.
From AV.lib Require Import QcInst.
From AV.C06 Require Import Base Model.
From AV.gen Require Import C06_Gen.
Import ListNotations.
Open Scope Qc_scope.

(* ------------------------------------------------------------------ Qc helpers *)
Lemma Qceqb_eq a b : Qceqb a b = true -> a = b.
Proof. unfold Qceqb. intros H. apply Qeq_bool_eq in H. apply Qc_is_canon. exact H. Qed.

Lemma Qcltb_lt a b : Qcltb a b = true <-> a < b.
Proof.
  unfold Qcltb, Qclt. rewrite negb_true_iff. split.
  - intros H. apply Qnot_le_lt. intros Hle. apply Qle_bool_iff in Hle. congruence.
  - intros H. destruct (Qle_bool b a) eqn:E; [|reflexivity].
    apply Qle_bool_iff in E. exfalso. apply (Qlt_not_le _ _ H). exact E.
Qed.

Lemma Qcltb_irrefl a : Qcltb a a = false.
Proof. destruct (Qcltb a a) eqn:E; [|reflexivity]. apply Qcltb_lt in E. exfalso. apply (Qclt_not_eq _ _ E). reflexivity. Qed.

Lemma Qclt_irrefl a : ~ a < a.
Proof. intros H. apply (Qclt_not_eq _ _ H). reflexivity. Qed.

Lemma Qcinv_pos x : 0 < x -> 0 < / x.
Proof.
  intros Hx. destruct (Qclt_le_dec 0 (/ x)) as [H|H]; [exact H|exfalso].
  assert (Hne : x <> 0) by (intros E; subst x; apply (Qclt_irrefl _ Hx)).
  assert (H1 : / x * x <= 0 * x) by (apply Qcmult_le_compat_r; [exact H|apply Qclt_le_weak; exact Hx]).
  rewrite Qcmult_inv_l in H1 by exact Hne. rewrite Qcmult_0_l in H1.
  apply (Qcle_not_lt _ _ H1). reflexivity.
Qed.

Lemma Qcmult_pos a b : 0 < a -> 0 < b -> 0 < a * b.
Proof. intros Ha Hb. rewrite <- (Qcmult_0_l b). apply Qcmult_lt_compat_r; assumption. Qed.

Lemma Qcdiv_pos a b : 0 < a -> 0 < b -> 0 < a / b.
Proof. intros Ha Hb. unfold Qcdiv. apply Qcmult_pos; [exact Ha|apply Qcinv_pos; exact Hb]. Qed.

Lemma pos_nonzero x : 0 < x -> x <> 0.
Proof. intros H E. subst x. apply (Qclt_irrefl _ H). Qed.

(* ------------------------------------------------------------------ conversion algebra *)
Definition compatible (u v : unit) : Prop := uadd u = uadd v \/ utimes u = utimes v.

Lemma conv_roundtrip_gen x u v :
  utimes u <> 0 -> utimes v <> 0 -> compatible u v -> conv (conv x u v) v u = x.
Proof.
  intros Hu Hv [Ha|Ht]; unfold conv.
  - rewrite Ha. field. split; assumption.
  - rewrite Ht. field. exact Hv.
Qed.

Lemma conv_path_gen x u v w :
  utimes u <> 0 -> utimes v <> 0 -> utimes w <> 0 ->
  (uadd u = uadd v \/ utimes v = utimes w) ->
  conv (conv x u v) v w = conv x u w.
Proof.
  intros Hu Hv Hw [Ha|Ht]; unfold conv.
  - rewrite Ha. field. split; assumption.
  - rewrite Ht. field. split; assumption.
Qed.

Lemma conv_same x u : utimes u <> 0 -> conv x u u = x.
Proof. intros Hu. unfold conv. field. exact Hu. Qed.

Lemma conv_diff x y u v : utimes u <> 0 -> conv y u v - conv x u v = (y - x) * (utimes v / utimes u).
Proof. intros Hu. unfold conv. field. exact Hu. Qed.

Lemma conv_monotone x y u v : 0 < utimes u -> 0 < utimes v -> x < y -> conv x u v < conv y u v.
Proof.
  intros Hu Hv Hxy. apply Qclt_minus_iff.
  replace (conv y u v + - conv x u v) with ((y - x) * (utimes v / utimes u)).
  - apply Qcmult_pos; [|apply Qcdiv_pos; assumption].
    apply Qclt_minus_iff in Hxy. exact Hxy.
  - rewrite <- conv_diff by (apply pos_nonzero; exact Hu). reflexivity.
Qed.

(* conversion commutes with addition/subtraction of a difference in linear (shift-free) units *)
Lemma conv_linear_add x y u v : utimes u <> 0 -> uadd u = 0 -> uadd v = 0 ->
  conv (x + y) u v = conv x u v + conv y u v.
Proof. intros Hu Hau Hav. unfold conv. rewrite Hau, Hav. field. exact Hu. Qed.

Lemma conv_linear_sub x y u v : utimes u <> 0 -> uadd u = 0 -> uadd v = 0 ->
  conv (x - y) u v = conv x u v - conv y u v.
Proof. intros Hu Hau Hav. unfold conv. rewrite Hau, Hav. field. exact Hu. Qed.

(* differences are shift-free in every class: (x - y) converts by the factor alone *)
Lemma conv_sub_affine x y u v : utimes u <> 0 ->
  conv x u v - conv y u v = (x - y) * (utimes v / utimes u).
Proof. intros Hu. rewrite conv_diff by exact Hu. reflexivity. Qed.

(* ------------------------------------------------------------------ class_ok soundness *)
Lemma all_same_In l x y : all_same Qceqb l = true -> In x l -> In y l -> x = y.
Proof.
  destruct l as [|h r]; [intros _ []|]. cbn [all_same]. intros H Hx Hy.
  rewrite forallb_forall in H.
  assert (E : forall z, In z (h :: r) -> h = z).
  { intros z [->|Hz]; [reflexivity|]. apply Qceqb_eq. apply H. exact Hz. }
  rewrite <- (E x Hx), <- (E y Hy). reflexivity.
Qed.

Lemma class_ok_sound cls : class_ok cls = true ->
  forall u v, In u cls -> In v cls -> 0 < utimes u /\ 0 < utimes v /\ compatible u v.
Proof.
  unfold class_ok, times_positive. rewrite andb_true_iff, orb_true_iff, forallb_forall.
  intros [Hp Hs] u v Hu Hv. split; [apply Qcltb_lt, Hp, Hu|]. split; [apply Qcltb_lt, Hp, Hv|].
  destruct Hs as [Hs|Hs]; [left|right];
    apply (all_same_In _ _ _ Hs); apply in_map; assumption.
Qed.

(* within a class, compatibility is uniform: either all shifts agree or all factors agree *)
Lemma class_ok_path cls : class_ok cls = true ->
  forall u v w, In u cls -> In v cls -> In w cls -> uadd u = uadd v \/ utimes v = utimes w.
Proof.
  unfold class_ok. rewrite andb_true_iff, orb_true_iff. intros [_ Hs] u v w Hu Hv Hw.
  destruct Hs as [Hs|Hs]; [left|right]; apply (all_same_In _ _ _ Hs); apply in_map; assumption.
Qed.

(* ------------------------------------------------------------------ alias lookup *)
Lemma find_unit_some cls a u : find_unit cls a = Some u -> In u cls /\ has_alias a u = true.
Proof. unfold find_unit. apply find_some. Qed.

Lemma find_unit_none cls a : (forall u, In u cls -> has_alias a u = false) -> find_unit cls a = None.
Proof.
  unfold find_unit. induction cls as [|h r IH]; intros H; cbn [find]; [reflexivity|].
  rewrite (H h (or_introl eq_refl)). apply IH. intros u Hu. apply H. right. exact Hu.
Qed.

Lemma has_alias_In a u : has_alias a u = true <-> In a (ualiases u).
Proof.
  unfold has_alias. rewrite existsb_exists. split.
  - intros [x [Hx E]]. apply String.eqb_eq in E. subst x. exact Hx.
  - intros H. exists a. split; [exact H|apply String.eqb_refl].
Qed.

Lemma aliases_disjoint_unique cls : aliases_disjoint cls = true ->
  forall a u, find_unit cls a = Some u ->
  forall v, In v cls -> has_alias a v = true -> v = u.
Proof.
  induction cls as [|h r IH]; intros Hd a u Hf v Hv Ha; [destruct Hv|].
  cbn [aliases_disjoint] in Hd. apply andb_true_iff in Hd as [Hh Hr].
  unfold find_unit in Hf. cbn [find] in Hf.
  destruct (has_alias a h) eqn:Eh.
  - injection Hf as <-. destruct Hv as [->|Hv]; [reflexivity|exfalso].
    rewrite forallb_forall in Hh. apply has_alias_In in Eh. specialize (Hh a Eh).
    rewrite negb_true_iff in Hh.
    assert (existsb (has_alias a) r = true) by (apply existsb_exists; exists v; split; assumption).
    congruence.
  - destruct Hv as [->|Hv]; [congruence|]. apply (IH Hr a u Hf v Hv Ha).
Qed.

(* ------------------------------------------------------------------ the value model *)
Lemma to_name_foreign cls a name :
  has_alias name (vu a) = false -> (forall u, In u cls -> has_alias name u = false) ->
  to_name cls a name = None.
Proof. intros H1 H2. unfold to_name. rewrite H1, (find_unit_none _ _ H2). reflexivity. Qed.

Lemma uquery_self u : ualiases u <> [] -> has_alias (uquery u) u = true.
Proof.
  intros H. apply has_alias_In. unfold uquery. destruct (ualiases u) as [|x r]; [congruence|]. left. reflexivity.
Qed.

Lemma to_unit_self cls a : ualiases (vu a) <> [] -> to_unit cls a (vu a) = Some a.
Proof. intros H. unfold to_unit, to_name. rewrite (uquery_self _ H). reflexivity. Qed.

Lemma v_lt_irrefl cls a : ualiases (vu a) <> [] -> v_lt cls a a = Some false.
Proof.
  intros H. unfold v_lt, other_in. rewrite (to_unit_self _ _ H). cbn [option_map]. rewrite Qcltb_irrefl. reflexivity.
Qed.

(* When b's unit is found in the class (the normal case) the comparison is the float comparison
   after conversion into a's unit. *)
Definition converts (cls : list unit) (a b : value) : Prop :=
  has_alias (uquery (vu a)) (vu b) = false /\ find_unit cls (uquery (vu a)) = Some (vu a).

Lemma other_in_conv cls a b : converts cls a b -> other_in cls a b = Some (conv (vx b) (vu b) (vu a)).
Proof. intros [H1 H2]. unfold other_in, to_unit, to_name. rewrite H1, H2. reflexivity. Qed.

Lemma lt_asym_conv xa xb ua ub :
  0 < utimes ua -> 0 < utimes ub -> compatible ua ub ->
  xa < conv xb ub ua -> xb < conv xa ua ub -> False.
Proof.
  intros Ha Hb Hc H1 H2.
  apply (conv_monotone _ _ ua ub Ha Hb) in H1.
  rewrite conv_roundtrip_gen in H1; try (apply pos_nonzero; assumption).
  - apply (Qclt_irrefl xb). eapply Qclt_trans; eassumption.
  - destruct Hc as [Hc|Hc]; [left|right]; symmetry; exact Hc.
Qed.

(* comparing in a's unit is the same as comparing in any common unit w of the class *)
Lemma lt_common_unit xa xb ua ub w :
  0 < utimes ua -> 0 < utimes ub -> 0 < utimes w ->
  (uadd ub = uadd ua \/ utimes ua = utimes w) ->
  (xa < conv xb ub ua <-> conv xa ua w < conv xb ub w).
Proof.
  intros Ha Hb Hw Hc.
  rewrite <- (conv_path_gen xb ub ua w) by (try apply pos_nonzero; assumption).
  split.
  - apply conv_monotone; assumption.
  - intros H. destruct (Qclt_le_dec xa (conv xb ub ua)) as [Hl|Hl]; [exact Hl|exfalso].
    apply Qcle_lt_or_eq in Hl as [Hl|Hl].
    + apply (conv_monotone _ _ ua w Ha Hw) in Hl. apply (Qclt_irrefl (conv xa ua w)). eapply Qclt_trans; eassumption.
    + rewrite Hl in H. apply (Qclt_irrefl _ H).
Qed.

Lemma v_le_iff cls a b l e : v_lt cls a b = Some l -> v_eq cls a b = Some e -> v_le cls a b = Some (l || e).
Proof. intros H1 H2. unfold v_le. rewrite H1, H2. reflexivity. Qed.

(* ------------------------------------------------------------------ finite sweeps over the generated table *)
Lemma all_classes_ok : forallb (fun e => class_ok (snd e)) classes = true.
Proof. vm_compute. reflexivity. Qed.

Lemma all_aliases_disjoint : forallb (fun e => aliases_disjoint (snd e) && nonempty_aliases (snd e)) classes = true.
Proof. vm_compute. reflexivity. Qed.

Lemma all_factors_declared : forallb factor_ok declared = true.
Proof. vm_compute. reflexivity. Qed.

Lemma all_factors_reference : forallb (fun e => matches_reference (fst (fst e))) declared = true.
Proof. vm_compute. reflexivity. Qed.

Lemma celsius_shift : exists u, In u (map (fun e => fst (fst e)) declared) /\ uname u = "celsius"%string /\
   utimes u = Q2Qc 1 /\ close ref_tol (uadd u) (qc 27315 100) = true.
Proof.
  exists u_celsius. split; [|split; [reflexivity|split; [vm_compute; reflexivity|vm_compute; reflexivity]]].
  vm_compute. tauto.
Qed.

Lemma class_in_ok cname cls : In (cname, cls) classes -> class_ok cls = true.
Proof. intros H. pose proof all_classes_ok as A. rewrite forallb_forall in A. apply (A _ H). Qed.

Lemma class_in_disjoint cname cls : In (cname, cls) classes -> aliases_disjoint cls = true /\ nonempty_aliases cls = true.
Proof. intros H. pose proof all_aliases_disjoint as A. rewrite forallb_forall in A. specialize (A _ H). apply andb_true_iff in A. exact A. Qed.
