(* C06/Lemmas.v — proofs about the generated conversion arithmetic and the hand model. *)
From Coq Require Import ZArith QArith Qcanon List String Bool Field Lia.
From AV.lib Require Import QcInst.
From AV.C06 Require Import Base Model.
From AV.gen Require Import C06_Gen.
Import ListNotations.
Open Scope Qc_scope.

(* ------------------------------------------------------------------ Qc helpers *)
Lemma Qceqb_eq a b : Qceqb a b = true -> a = b.
Proof. unfold Qceqb. intros H. apply Qeq_bool_eq in H. apply Qc_is_canon. exact H. Qed.

Lemma Qcltb_lt a b : Qcltb a b = true <-> a < b.
Proof.
  unfold Qcltb, Qclt. rewrite negb_true_iff. split.
  - intros H. apply Qnot_le_lt. intros Hle. apply Qle_bool_iff in Hle. congruence.
  - intros H. destruct (Qle_bool b a) eqn:E; [|reflexivity].
    apply Qle_bool_iff in E. exfalso. apply (Qlt_not_le _ _ H). exact E.
Qed.

Lemma Qcltb_irrefl a : Qcltb a a = false.
Proof. destruct (Qcltb a a) eqn:E; [|reflexivity]. apply Qcltb_lt in E. exfalso. apply (Qclt_not_eq _ _ E). reflexivity. Qed.

Lemma Qclt_irrefl a : ~ a < a.
Proof. intros H. apply (Qclt_not_eq _ _ H). reflexivity. Qed.

Lemma Qcinv_pos x : 0 < x -> 0 < / x.
Proof.
  intros Hx. destruct (Qclt_le_dec 0 (/ x)) as [H|H]; [exact H|exfalso].
  assert (Hne : x <> 0) by (intros E; subst x; apply (Qclt_irrefl _ Hx)).
  assert (H1 : / x * x <= 0 * x) by (apply Qcmult_le_compat_r; [exact H|apply Qclt_le_weak; exact Hx]).
  rewrite Qcmult_inv_l in H1 by exact Hne. rewrite Qcmult_0_l in H1.
  apply (Qcle_not_lt _ _ H1). reflexivity.
Qed.

Lemma Qcmult_pos a b : 0 < a -> 0 < b -> 0 < a * b.
Proof. intros Ha Hb. rewrite <- (Qcmult_0_l b). apply Qcmult_lt_compat_r; assumption. Qed.

Lemma Qcdiv_pos a b : 0 < a -> 0 < b -> 0 < a / b.
Proof. intros Ha Hb. unfold Qcdiv. apply Qcmult_pos; [exact Ha|apply Qcinv_pos; exact Hb]. Qed.

Lemma pos_nonzero x : 0 < x -> x <> 0.
Proof. intros H E. subst x. apply (Qclt_irrefl _ H). Qed.

(* ------------------------------------------------------------------ conversion algebra *)
Definition compatible (u v : unit) : Prop := uadd u = uadd v \/ utimes u = utimes v.

Lemma conv_roundtrip_gen x u v :
  utimes u <> 0 -> utimes v <> 0 -> compatible u v -> conv (conv x u v) v u = x.
Proof.
  intros Hu Hv [Ha|Ht]; unfold conv.
  - rewrite Ha. field. split; assumption.
  - rewrite Ht. field. exact Hv.
Qed.

Lemma conv_path_gen x u v w :
  utimes u <> 0 -> utimes v <> 0 -> utimes w <> 0 ->
  (uadd u = uadd v \/ utimes v = utimes w) ->
  conv (conv x u v) v w = conv x u w.
Proof.
  intros Hu Hv Hw [Ha|Ht]; unfold conv.
  - rewrite Ha. field. split; assumption.
  - rewrite Ht. field. split; assumption.
Qed.

Lemma conv_same x u : utimes u <> 0 -> conv x u u = x.
Proof. intros Hu. unfold conv. field. exact Hu. Qed.

Lemma conv_diff x y u v : utimes u <> 0 -> conv y u v - conv x u v = (y - x) * (utimes v / utimes u).
Proof. intros Hu. unfold conv. field. exact Hu. Qed.

Lemma conv_monotone x y u v : 0 < utimes u -> 0 < utimes v -> x < y -> conv x u v < conv y u v.
Proof.
  intros Hu Hv Hxy. apply Qclt_minus_iff.
  replace (conv y u v + - conv x u v) with ((y - x) * (utimes v / utimes u)).
  - apply Qcmult_pos; [|apply Qcdiv_pos; assumption].
    apply Qclt_minus_iff in Hxy. exact Hxy.
  - rewrite <- conv_diff by (apply pos_nonzero; exact Hu). reflexivity.
Qed.

(* conversion commutes with addition/subtraction of a difference in linear (shift-free) units *)
Lemma conv_linear_add x y u v : utimes u <> 0 -> uadd u = 0 -> uadd v = 0 ->
  conv (x + y) u v = conv x u v + conv y u v.
Proof. intros Hu Hau Hav. unfold conv. rewrite Hau, Hav. field. exact Hu. Qed.

Lemma conv_linear_sub x y u v : utimes u <> 0 -> uadd u = 0 -> uadd v = 0 ->
  conv (x - y) u v = conv x u v - conv y u v.
Proof. intros Hu Hau Hav. unfold conv. rewrite Hau, Hav. field. exact Hu. Qed.

(* differences are shift-free in every class: (x - y) converts by the factor alone *)
Lemma conv_sub_affine x y u v : utimes u <> 0 ->
  conv x u v - conv y u v = (x - y) * (utimes v / utimes u).
Proof. intros Hu. rewrite conv_diff by exact Hu. reflexivity. Qed.

(* ------------------------------------------------------------------ class_ok soundness *)
Lemma all_same_In l x y : all_same Qceqb l = true -> In x l -> In y l -> x = y.
Proof.
  destruct l as [|h r]; [intros _ []|]. cbn [all_same]. intros H Hx Hy.
  rewrite forallb_forall in H.
  assert (E : forall z, In z (h :: r) -> h = z).
  { intros z [->|Hz]; [reflexivity|]. apply Qceqb_eq. apply H. exact Hz. }
  rewrite <- (E x Hx), <- (E y Hy). reflexivity.
Qed.

Lemma class_ok_sound cls : class_ok cls = true ->
  forall u v, In u cls -> In v cls -> 0 < utimes u /\ 0 < utimes v /\ compatible u v.
Proof.
  unfold class_ok, times_positive. rewrite andb_true_iff, orb_true_iff, forallb_forall.
  intros [Hp Hs] u v Hu Hv. split; [apply Qcltb_lt, Hp, Hu|]. split; [apply Qcltb_lt, Hp, Hv|].
  destruct Hs as [Hs|Hs]; [left|right];
    apply (all_same_In _ _ _ Hs); apply in_map; assumption.
Qed.

(* within a class, compatibility is uniform: either all shifts agree or all factors agree *)
Lemma class_ok_path cls : class_ok cls = true ->
  forall u v w, In u cls -> In v cls -> In w cls -> uadd u = uadd v \/ utimes v = utimes w.
Proof.
  unfold class_ok. rewrite andb_true_iff, orb_true_iff. intros [_ Hs] u v w Hu Hv Hw.
  destruct Hs as [Hs|Hs]; [left|right]; apply (all_same_In _ _ _ Hs); apply in_map; assumption.
Qed.

(* ------------------------------------------------------------------ alias lookup *)
Lemma find_unit_some cls a u : find_unit cls a = Some u -> In u cls /\ has_alias a u = true.
Proof. unfold find_unit. apply find_some. Qed.

Lemma find_unit_none cls a : (forall u, In u cls -> has_alias a u = false) -> find_unit cls a = None.
Proof.
  unfold find_unit. induction cls as [|h r IH]; intros H; cbn [find]; [reflexivity|].
  rewrite (H h (or_introl eq_refl)). apply IH. intros u Hu. apply H. right. exact Hu.
Qed.

Lemma has_alias_In a u : has_alias a u = true <-> In a (ualiases u).
Proof.
  unfold has_alias. rewrite existsb_exists. split.
  - intros [x [Hx E]]. apply String.eqb_eq in E. subst x. exact Hx.
  - intros H. exists a. split; [exact H|apply String.eqb_refl].
Qed.

Lemma aliases_disjoint_unique cls : aliases_disjoint cls = true ->
  forall a u, find_unit cls a = Some u ->
  forall v, In v cls -> has_alias a v = true -> v = u.
Proof.
  induction cls as [|h r IH]; intros Hd a u Hf v Hv Ha; [destruct Hv|].
  cbn [aliases_disjoint] in Hd. apply andb_true_iff in Hd as [Hh Hr].
  unfold find_unit in Hf. cbn [find] in Hf.
  destruct (has_alias a h) eqn:Eh.
  - injection Hf as <-. destruct Hv as [->|Hv]; [reflexivity|exfalso].
    rewrite forallb_forall in Hh. apply has_alias_In in Eh. specialize (Hh a Eh).
    rewrite negb_true_iff in Hh.
    assert (existsb (has_alias a) r = true) by (apply existsb_exists; exists v; split; assumption).
    congruence.
  - destruct Hv as [->|Hv]; [congruence|]. apply (IH Hr a u Hf v Hv Ha).
Qed.

(* ------------------------------------------------------------------ the value model *)
Lemma to_name_foreign cls a name :
  has_alias name (vu a) = false -> (forall u, In u cls -> has_alias name u = false) ->
  to_name cls a name = None.
Proof. intros H1 H2. unfold to_name. rewrite H1, (find_unit_none _ _ H2). reflexivity. Qed.

Lemma uquery_self u : ualiases u <> [] -> has_alias (uquery u) u = true.
Proof.
  intros H. apply has_alias_In. unfold uquery. destruct (ualiases u) as [|x r]; [congruence|]. left. reflexivity.
Qed.

Lemma to_unit_self cls a : ualiases (vu a) <> [] -> to_unit cls a (vu a) = Some a.
Proof. intros H. unfold to_unit, to_name. rewrite (uquery_self _ H). reflexivity. Qed.

Lemma v_lt_irrefl cls a : ualiases (vu a) <> [] -> v_lt cls a a = Some false.
Proof.
  intros H. unfold v_lt, other_in. rewrite (to_unit_self _ _ H). cbn [option_map]. rewrite Qcltb_irrefl. reflexivity.
Qed.

(* When b's unit is found in the class (the normal case) the comparison is the float comparison
   after conversion into a's unit. *)
Definition converts (cls : list unit) (a b : value) : Prop :=
  has_alias (uquery (vu a)) (vu b) = false /\ find_unit cls (uquery (vu a)) = Some (vu a).

Lemma other_in_conv cls a b : converts cls a b -> other_in cls a b = Some (conv (vx b) (vu b) (vu a)).
Proof. intros [H1 H2]. unfold other_in, to_unit, to_name. rewrite H1, H2. reflexivity. Qed.

Lemma lt_asym_conv xa xb ua ub :
  0 < utimes ua -> 0 < utimes ub -> compatible ua ub ->
  xa < conv xb ub ua -> xb < conv xa ua ub -> False.
Proof.
  intros Ha Hb Hc H1 H2.
  apply (conv_monotone _ _ ua ub Ha Hb) in H1.
  rewrite conv_roundtrip_gen in H1; try (apply pos_nonzero; assumption).
  - apply (Qclt_irrefl xb). eapply Qclt_trans; eassumption.
  - destruct Hc as [Hc|Hc]; [left|right]; symmetry; exact Hc.
Qed.

(* comparing in a's unit is the same as comparing in any common unit w of the class *)
Lemma lt_common_unit xa xb ua ub w :
  0 < utimes ua -> 0 < utimes ub -> 0 < utimes w ->
  (uadd ub = uadd ua \/ utimes ua = utimes w) ->
  (xa < conv xb ub ua <-> conv xa ua w < conv xb ub w).
Proof.
  intros Ha Hb Hw Hc.
  rewrite <- (conv_path_gen xb ub ua w) by (try apply pos_nonzero; assumption).
  split.
  - apply conv_monotone; assumption.
  - intros H. destruct (Qclt_le_dec xa (conv xb ub ua)) as [Hl|Hl]; [exact Hl|exfalso].
    apply Qcle_lt_or_eq in Hl as [Hl|Hl].
    + apply (conv_monotone _ _ ua w Ha Hw) in Hl. apply (Qclt_irrefl (conv xa ua w)). eapply Qclt_trans; eassumption.
    + rewrite Hl in H. apply (Qclt_irrefl _ H).
Qed.

Lemma v_le_iff cls a b l e : v_lt cls a b = Some l -> v_eq cls a b = Some e -> v_le cls a b = Some (l || e).
Proof. intros H1 H2. unfold v_le. rewrite H1, H2. reflexivity. Qed.

(* ------------------------------------------------------------------ finite sweeps over the generated table *)
Lemma all_classes_ok : forallb (fun e => class_ok (snd e)) classes = true.
Proof. vm_compute. reflexivity. Qed.

Lemma all_aliases_disjoint : forallb (fun e => aliases_disjoint (snd e) && nonempty_aliases (snd e)) classes = true.
Proof. vm_compute. reflexivity. Qed.

Lemma all_factors_declared : forallb factor_ok declared = true.
Proof. vm_compute. reflexivity. Qed.

(* (all_factors_reference: see all_factors_reference_r3 below -- relative tolerance, reference by
   physical dimension; one unit is misnamed on the unchanged tree) *)

Lemma celsius_shift : exists u, In u (map (fun e => fst (fst e)) declared) /\ uname u = "celsius"%string /\
   utimes u = Q2Qc 1 /\ rclose ref_tol (uadd u) (qc 27315 100) = true.
Proof.
  exists u_celsius. split; [|split; [reflexivity|split; [vm_compute; reflexivity|vm_compute; reflexivity]]].
  vm_compute. tauto.
Qed.

Lemma class_in_ok cname cls : In (cname, cls) classes -> class_ok cls = true.
Proof. intros H. pose proof all_classes_ok as A. rewrite forallb_forall in A. apply (A _ H). Qed.

Lemma class_in_disjoint cname cls : In (cname, cls) classes -> aliases_disjoint cls = true /\ nonempty_aliases cls = true.
Proof. intros H. pose proof all_aliases_disjoint as A. rewrite forallb_forall in A. specialize (A _ H). apply andb_true_iff in A. exact A. Qed.

(* ================================================================== round 3 additions *)

(* ------------------------------------------------------------------ decidable unit equality *)
Lemma list_eqb'_eq (a b : list string) : list_eqb' String.eqb a b = true -> a = b.
Proof.
  revert b. induction a as [|x a IH]; intros [|y b] H; cbn [list_eqb'] in H; try discriminate; [reflexivity|].
  apply andb_true_iff in H as [H1 H2]. apply String.eqb_eq in H1. subst y. f_equal. apply IH. exact H2.
Qed.

Lemma ueqb_eq u v : ueqb u v = true -> u = v.
Proof.
  unfold ueqb. intros H. repeat (apply andb_true_iff in H as [H ?]).
  destruct u as [n1 a1 t1 s1], v as [n2 a2 t2 s2]. cbn [uname ualiases utimes uadd] in *.
  apply String.eqb_eq in H. apply list_eqb'_eq in H2. apply Qceqb_eq in H1, H0. subst. reflexivity.
Qed.

Lemma mem_unit_In u l : mem_unit u l = true -> In u l.
Proof.
  unfold mem_unit. rewrite existsb_exists. intros [v [Hv E]]. apply ueqb_eq in E. subst v. exact Hv.
Qed.

(* ------------------------------------------------------------------ alias uniqueness, two-sided *)
Lemma find_unit_exists cls a u : In u cls -> has_alias a u = true -> exists w, find_unit cls a = Some w.
Proof.
  unfold find_unit. induction cls as [|h r IH]; intros Hu Ha; [destruct Hu|].
  cbn [find]. destruct (has_alias a h) eqn:E; [eexists; reflexivity|].
  destruct Hu as [->|Hu]; [congruence|]. apply IH; assumption.
Qed.

Lemma disjoint_two cls : aliases_disjoint cls = true ->
  forall a u v, In u cls -> In v cls -> has_alias a u = true -> has_alias a v = true -> u = v.
Proof.
  intros Hd a u v Hu Hv Au Av. destruct (find_unit_exists cls a u Hu Au) as [w Hw].
  rewrite (aliases_disjoint_unique cls Hd a w Hw u Hu Au).
  rewrite (aliases_disjoint_unique cls Hd a w Hw v Hv Av). reflexivity.
Qed.

Lemma nonempty_In cls u : nonempty_aliases cls = true -> In u cls -> ualiases u <> [].
Proof.
  unfold nonempty_aliases. rewrite forallb_forall. intros H Hu. specialize (H _ Hu).
  destruct (ualiases u); [discriminate|congruence].
Qed.

Lemma find_unit_self cls u : aliases_disjoint cls = true -> ualiases u <> [] -> In u cls ->
  find_unit cls (uquery u) = Some u.
Proof.
  intros Hd Hn Hu. pose proof (uquery_self u Hn) as Hq.
  destruct (find_unit_exists cls _ u Hu Hq) as [w Hw]. rewrite Hw. f_equal.
  symmetry. exact (aliases_disjoint_unique cls Hd _ w Hw u Hu Hq).
Qed.

(* ------------------------------------------------------------------ lookup + conversion, inside a class *)
(* converting a quantity whose unit belongs to the class into a NAME that the class resolves to v
   always succeeds and yields conv x u v labelled v -- also when the name is the current unit *)
Lemma to_name_in_class cls a name v :
  aliases_disjoint cls = true -> 0 < utimes (vu a) -> In (vu a) cls ->
  find_unit cls name = Some v ->
  exists r, to_name cls a name = Some r /\ vx r = conv (vx a) (vu a) v /\ vu r = v.
Proof.
  intros Hd Pa Ha Hf. unfold to_name. destruct (has_alias name (vu a)) eqn:E.
  - assert (vu a = v) as <- by exact (aliases_disjoint_unique cls Hd name v Hf (vu a) Ha E).
    exists a. split; [reflexivity|]. split; [|reflexivity].
    rewrite conv_same by (apply pos_nonzero; exact Pa). reflexivity.
  - rewrite Hf. eexists. split; [reflexivity|]. split; reflexivity.
Qed.

Lemma to_unit_in_class cls a v :
  aliases_disjoint cls = true -> nonempty_aliases cls = true -> 0 < utimes (vu a) ->
  In (vu a) cls -> In v cls ->
  exists r, to_unit cls a v = Some r /\ vx r = conv (vx a) (vu a) v /\ vu r = v.
Proof.
  intros Hd Hn Pa Ha Hv. unfold to_unit. apply to_name_in_class; try assumption.
  apply find_unit_self; try assumption. exact (nonempty_In cls v Hn Hv).
Qed.

(* the operand conversion of every dunder: other.to(self.units) -- no premise beyond membership *)
Lemma other_in_total cname cls a b : In (cname, cls) classes -> In (vu a) cls -> In (vu b) cls ->
  other_in cls a b = Some (conv (vx b) (vu b) (vu a)).
Proof.
  intros Hc Ha Hb. destruct (class_in_disjoint _ _ Hc) as [Hd Hn].
  destruct (class_ok_sound _ (class_in_ok _ _ Hc) _ _ Hb Ha) as [Pb _].
  destruct (to_unit_in_class cls b (vu a) Hd Hn Pb Hb Ha) as [r [Hr [Hx _]]].
  unfold other_in. rewrite Hr. cbn [option_map]. rewrite Hx. reflexivity.
Qed.

(* ------------------------------------------------------------------ order lemmas over any common unit *)
Lemma gt_is_lt_swapped xa xb ua ub :
  0 < utimes ua -> 0 < utimes ub -> compatible ua ub ->
  (conv xb ub ua < xa <-> xb < conv xa ua ub).
Proof.
  intros Pa Pb Hc. assert (Hc' : compatible ub ua) by (destruct Hc as [H|H]; [left|right]; symmetry; exact H).
  split; intros H.
  - apply (conv_monotone _ _ ua ub Pa Pb) in H.
    rewrite conv_roundtrip_gen in H; try (apply pos_nonzero; assumption); assumption.
  - apply (conv_monotone _ _ ub ua Pb Pa) in H.
    rewrite conv_roundtrip_gen in H; try (apply pos_nonzero; assumption); assumption.
Qed.

Lemma Qcltb_iff a b c d : (a < b <-> c < d) -> Qcltb a b = Qcltb c d.
Proof.
  intros H. destruct (Qcltb a b) eqn:E1, (Qcltb c d) eqn:E2; try reflexivity.
  - apply Qcltb_lt in E1. apply H in E1. apply Qcltb_lt in E1. congruence.
  - apply Qcltb_lt in E2. apply H in E2. apply Qcltb_lt in E2. congruence.
Qed.

Lemma Qcnonneg_true x : Qcnonneg x = true <-> 0 <= x.
Proof. unfold Qcnonneg. rewrite Qle_bool_iff. reflexivity. Qed.
Lemma Qcnonneg_false x : Qcnonneg x = false -> x < 0.
Proof.
  intros H. destruct (Qclt_le_dec x 0) as [L|L]; [exact L|]. apply Qcnonneg_true in L. congruence.
Qed.
Lemma Qcabs_nonneg x : 0 <= Qcabs x.
Proof.
  unfold Qcabs. destruct (Qcnonneg x) eqn:E; [apply Qcnonneg_true; exact E|].
  apply Qcnonneg_false in E. apply Qclt_le_weak in E. apply Qcopp_le_compat in E. exact E.
Qed.
Lemma Qcabs_opp x : Qcabs (- x) = Qcabs x.
Proof.
  unfold Qcabs. destruct (Qcnonneg x) eqn:E1, (Qcnonneg (- x)) eqn:E2; try reflexivity.
  - apply Qcnonneg_true in E1, E2.
    assert (x = 0) as ->. { apply Qcle_antisym; [|exact E1]. apply Qcopp_le_compat in E2. rewrite Qcopp_involutive in E2. exact E2. }
    reflexivity.
  - rewrite Qcopp_involutive. reflexivity.
  - exfalso. apply Qcnonneg_false in E1, E2. apply Qclt_minus_iff in E2. rewrite Qcopp_involutive, Qcplus_0_l in E2.
    apply (Qclt_irrefl x). eapply Qclt_trans; eassumption.
Qed.

Lemma Qcabs_sub_sym a b : Qcabs (a - b) = Qcabs (b - a).
Proof. rewrite <- Qcabs_opp. f_equal. ring. Qed.

(* ------------------------------------------------------------------ finite sweeps (round 3) *)
Lemma all_units_disjoint : aliases_disjoint all_units = true.
Proof. vm_compute. reflexivity. Qed.

Lemma all_class_units_declared :
  forallb (fun e => forallb (fun u => mem_unit u all_units) (snd e)) classes = true.
Proof. vm_compute. reflexivity. Qed.

Lemma class_unit_declared cname cls u : In (cname, cls) classes -> In u cls -> In u all_units.
Proof.
  intros Hc Hu. pose proof all_class_units_declared as A. rewrite forallb_forall in A.
  specialize (A _ Hc). cbn [snd] in A. rewrite forallb_forall in A. apply mem_unit_In. apply A. exact Hu.
Qed.

Lemma all_factors_reference_r3 :
  forallb (fun u => matches_reference u || (misnamed (uname u) && misnamed_ok u)) all_units = true.
Proof. vm_compute. reflexivity. Qed.

Lemma consts_consistent_ok : consts_consistent = true.
Proof. vm_compute. reflexivity. Qed.

(* a unit of a different kind: its aliases resolve to nothing in the class *)
Lemma foreign_alias_unknown cname cls f name :
  In (cname, cls) classes -> In f all_units -> ~ In f cls -> has_alias name f = true ->
  forall u, In u cls -> has_alias name u = false.
Proof.
  intros Hc Hf Hnot Hal u Hu. destruct (has_alias name u) eqn:E; [exfalso|reflexivity].
  apply Hnot. rewrite (disjoint_two all_units all_units_disjoint name f u Hf (class_unit_declared _ _ _ Hc Hu) Hal E).
  exact Hu.
Qed.

(* ------------------------------------------------------------------ arrays *)
Lemma all_close_refl l : all_close l l = true.
Proof.
  induction l as [|x l IH]; [reflexivity|]. cbn [all_close]. rewrite IH, andb_true_r.
  replace (x - x) with 0 by ring. unfold Qcleb. apply Qle_bool_iff. change (0 <= tiny + tiny * Qcabs x).
  pose proof (Qcabs_nonneg x) as Habs.
  assert (Ht : 0 <= tiny) by (vm_compute; discriminate).
  replace 0 with (0 + 0) by ring. apply Qcplus_le_compat; [exact Ht|].
  replace 0 with (0 * Qcabs x) by ring. apply Qcmult_le_compat_r; assumption.
Qed.

Lemma map_conv_roundtrip xs u v : utimes u <> 0 -> utimes v <> 0 -> compatible u v ->
  map (fun x => conv x v u) (map (fun x => conv x u v) xs) = xs.
Proof.
  intros Hu Hv Hc. rewrite map_map. rewrite <- (map_id xs) at 2. apply map_ext.
  intros x. apply conv_roundtrip_gen; assumption.
Qed.

Lemma conv_lt_iff x y u w : 0 < utimes u -> 0 < utimes w -> (x < y <-> conv x u w < conv y u w).
Proof.
  intros Pu Pw. split; [apply conv_monotone; assumption|].
  intros H. destruct (Qclt_le_dec x y) as [L|L]; [exact L|exfalso].
  apply Qcle_lt_or_eq in L as [L|L].
  - apply (conv_monotone _ _ u w Pu Pw) in L. apply (Qclt_irrefl (conv x u w)). eapply Qclt_trans; eassumption.
  - rewrite L in H. apply (Qclt_irrefl _ H).
Qed.

Lemma gt_common_unit xa xb ua ub w :
  0 < utimes ua -> 0 < utimes ub -> 0 < utimes w ->
  (uadd ub = uadd ua \/ utimes ua = utimes w) ->
  (conv xb ub ua < xa <-> conv xb ub w < conv xa ua w).
Proof.
  intros Ha Hb Hw Hc.
  rewrite <- (conv_path_gen xb ub ua w) by (try apply pos_nonzero; assumption).
  apply conv_lt_iff; assumption.
Qed.

Lemma Some_true_iff (b : bool) (P : Prop) : (b = true <-> P) -> (Some b = Some true <-> P).
Proof. intros H. split; [intros E; injection E as E; apply H; exact E|intros p; f_equal; apply H; exact p]. Qed.
