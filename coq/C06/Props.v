(* C06/Props.v — the property theorems (statements only; each closed by a lemma of Lemmas.v).
   "classes", "declared", "constants" and "conv" are GENERATED from /repo on every run. *)
From Coq Require Import ZArith QArith Qcanon List String Bool.
From AV.lib Require Import QcInst.
From AV.C06 Require Import Base Model Lemmas.
From AV.gen Require Import C06_Gen.
Import ListNotations.
Open Scope Qc_scope.

(* There-and-back is the identity and conversion through an intermediate unit equals the direct
   conversion: for EVERY value class of the package, EVERY triple of its implemented units and
   EVERY rational magnitude. *)
Theorem conv_roundtrip_and_path :
  forall cname cls, In (cname, cls) classes ->
  forall u v w, In u cls -> In v cls -> In w cls ->
  forall x : Qc,
    conv (conv x u v) v u = x /\ conv (conv x u v) v w = conv x u w /\ conv x u u = x.
Proof.
  intros cname cls Hc u v w Hu Hv Hw x.
  pose proof (class_in_ok _ _ Hc) as Hok.
  destruct (class_ok_sound _ Hok u v Hu Hv) as [Pu [Pv Cuv]].
  destruct (class_ok_sound _ Hok w w Hw Hw) as [Pw _].
  split; [|split].
  - apply conv_roundtrip_gen; try apply pos_nonzero; assumption.
  - apply conv_path_gen; try apply pos_nonzero; try assumption.
    exact (class_ok_path _ Hok u v w Hu Hv Hw).
  - apply conv_same. apply pos_nonzero; assumption.
Qed.

(* Factors agree with the constants the package declares: each unit's factor equals the constant /
   literal / composite product it is declared from, and equals the independent reference expression
   over the declared constants (Model.expected_factor); Celsius is the affine shift 273.15. *)
Theorem factors_match_constants :
  (forall e, In e declared -> factor_ok e = true /\ matches_reference (fst (fst e)) = true) /\
  (exists u, In u (map (fun e => fst (fst e)) declared) /\ uname u = "celsius"%string /\
             utimes u = Q2Qc 1 /\ close ref_tol (uadd u) (qc 27315 100) = true).
Proof.
  split; [|exact celsius_shift].
  intros e He. pose proof all_factors_declared as A. pose proof all_factors_reference as B.
  rewrite forallb_forall in A, B. split; [apply A|apply (B e)]; exact He.
Qed.

(* Alias lookup is unambiguous inside every class, and a name that is no alias of the class's units
   (nor of the current unit) is rejected: requesting a unit of a different kind is an error. *)
Theorem alias_lookup_unambiguous_and_foreign_rejected :
  forall cname cls, In (cname, cls) classes ->
  (forall a u, find_unit cls a = Some u -> forall v, In v cls -> has_alias a v = true -> v = u) /\
  (forall (a : value) name, has_alias name (vu a) = false ->
      (forall u, In u cls -> has_alias name u = false) -> to_name cls a name = None) /\
  (forall xs u name, has_alias name u = false ->
      (forall v, In v cls -> has_alias name v = false) -> to_array cls xs u name = None).
Proof.
  intros cname cls Hc. destruct (class_in_disjoint _ _ Hc) as [Hd _]. split; [|split].
  - exact (aliases_disjoint_unique cls Hd).
  - intros a name H1 H2. apply to_name_foreign; assumption.
  - intros xs u name H1 H2. unfold to_array. rewrite H1, (find_unit_none _ _ H2). reflexivity.
Qed.

(* Arrays convert elementwise exactly like scalars (same unit found, same error, each entry the
   scalar conversion of that entry). *)
Theorem array_conv_elementwise :
  forall cls xs u name,
  to_array cls xs u name =
  match to_name cls (mkValue (Q2Qc 0) u) name with
  | None => None
  | Some r => Some (map (fun x => match to_name cls (mkValue x u) name with
                                  | Some r' => vx r' | None => x end) xs, vu r)
  end.
Proof.
  intros cls xs u name. unfold to_array, to_name. cbn [vu vx].
  destruct (has_alias name u) eqn:E.
  - cbn [vu]. rewrite map_id. reflexivity.
  - destruct (find_unit cls name) as [w|]; reflexivity.
Qed.

(* Comparison is a consistent order: never a<a; never both a<b and b<a; a<=b iff a<b or a==b;
   and comparing gives the same answer as first converting both to ANY common unit of the class. *)
Theorem comparison_consistent_order :
  forall cname cls, In (cname, cls) classes ->
  forall a b : value, In (vu a) cls -> In (vu b) cls ->
  v_lt cls a a = Some false /\
  (converts cls a b -> converts cls b a -> ~ (v_lt cls a b = Some true /\ v_lt cls b a = Some true)) /\
  (forall l e, v_lt cls a b = Some l -> v_eq cls a b = Some e -> v_le cls a b = Some (l || e)) /\
  (converts cls a b -> forall w, In w cls ->
     (v_lt cls a b = Some true <-> conv (vx a) (vu a) w < conv (vx b) (vu b) w)).
Proof.
  intros cname cls Hc a b Ha Hb.
  pose proof (class_in_ok _ _ Hc) as Hok. destruct (class_in_disjoint _ _ Hc) as [_ Hne].
  destruct (class_ok_sound _ Hok _ _ Ha Hb) as [Pa [Pb Cab]].
  assert (Na : ualiases (vu a) <> []).
  { unfold nonempty_aliases in Hne. rewrite forallb_forall in Hne. specialize (Hne _ Ha).
    destruct (ualiases (vu a)); [discriminate|congruence]. }
  split; [apply v_lt_irrefl; exact Na|]. split; [|split].
  - intros Cv1 Cv2 [H1 H2]. unfold v_lt in H1, H2.
    rewrite (other_in_conv _ _ _ Cv1) in H1. rewrite (other_in_conv _ _ _ Cv2) in H2.
    cbn [option_map] in H1, H2. injection H1 as H1. injection H2 as H2.
    apply Qcltb_lt in H1, H2. exact (lt_asym_conv _ _ _ _ Pa Pb Cab H1 H2).
  - apply v_le_iff.
  - intros Cv w Hw. destruct (class_ok_sound _ Hok _ _ Hw Hw) as [Pw _].
    unfold v_lt. rewrite (other_in_conv _ _ _ Cv). cbn [option_map].
    rewrite <- (lt_common_unit (vx a) (vx b) (vu a) (vu b) w Pa Pb Pw (class_ok_path _ Hok _ _ _ Hb Ha Hw)).
    split; [intros H; injection H as H; apply Qcltb_lt; exact H|intros H; apply Qcltb_lt in H; rewrite H; reflexivity].
Qed.

(* Adding / subtracting quantities in different units equals the operation after conversion to a
   common unit: the result, expressed in any unit w of the class, is the sum / difference of the
   operands expressed in w (shift-free classes; for the affine temperature class the difference of
   two temperatures converts by the factor alone). *)
Theorem add_sub_via_common_unit :
  forall cname cls, In (cname, cls) classes ->
  forall a b : value, In (vu a) cls -> In (vu b) cls -> converts cls a b ->
  forall w, In w cls ->
  (uadd (vu a) = 0 -> uadd (vu b) = 0 -> uadd w = 0 ->
     (forall r, v_add cls a b = Some r -> vu r = vu a /\
          conv (vx r) (vu r) w = conv (vx a) (vu a) w + conv (vx b) (vu b) w) /\
     (forall r, v_sub cls a b = Some r -> vu r = vu a /\
          conv (vx r) (vu r) w = conv (vx a) (vu a) w - conv (vx b) (vu b) w)) /\
  (forall r, v_sub cls a b = Some r ->
          vx r * (utimes w / utimes (vu a)) = conv (vx a) (vu a) w - conv (vx b) (vu b) w).
Proof.
  intros cname cls Hc a b Ha Hb Cv w Hw.
  pose proof (class_in_ok _ _ Hc) as Hok.
  destruct (class_ok_sound _ Hok _ _ Ha Hb) as [Pa [Pb Cab]].
  destruct (class_ok_sound _ Hok _ _ Hw Hw) as [Pw _].
  pose proof (pos_nonzero _ Pa) as Na. pose proof (pos_nonzero _ Pb) as Nb. pose proof (pos_nonzero _ Pw) as Nw.
  split.
  - intros Za Zb Zw. split; intros r Hr; unfold v_add, v_sub in Hr;
      rewrite (other_in_conv _ _ _ Cv) in Hr; cbn [option_map] in Hr; injection Hr as <-; cbn [vu vx];
      (split; [reflexivity|]).
    + rewrite conv_linear_add by assumption.
      rewrite (conv_path_gen (vx b) (vu b) (vu a) w) by (try assumption; left; congruence). reflexivity.
    + rewrite conv_linear_sub by assumption.
      rewrite (conv_path_gen (vx b) (vu b) (vu a) w) by (try assumption; left; congruence). reflexivity.
  - intros r Hr. unfold v_sub in Hr. rewrite (other_in_conv _ _ _ Cv) in Hr. cbn [option_map] in Hr.
    injection Hr as <-. cbn [vx].
    rewrite <- (conv_path_gen (vx b) (vu b) (vu a) w) by
      (try assumption; exact (class_ok_path _ Hok _ _ _ Hb Ha Hw)).
    rewrite conv_sub_affine by exact Na. reflexivity.
Qed.

(* non-vacuity: the generated table has classes, units, and convertible pairs *)
Example nonvacuous :
  (exists cname cls u v, In (cname, cls) classes /\ In u cls /\ In v cls /\ u <> v /\
     converts cls (mkValue (qc 3 2) u) (mkValue (qc 5 4) v)) /\ (10 <= List.length classes)%nat.
Proof.
  split.
  - exists "Energy"%string, [u_ha; u_kcalmol; u_kjmol; u_ev; u_J], u_ha, u_kcalmol.
    split; [vm_compute; tauto|]. split; [left; reflexivity|]. split; [right; left; reflexivity|].
    split; [intros E; inversion E|]. split; vm_compute; reflexivity.
  - vm_compute. repeat constructor.
Qed.
