(* C06/Props.v — the property theorems (statements only; each closed by lemmas of Lemmas.v).
   "classes", "declared", "constants" and "conv" are GENERATED from /repo on every run.
   Clauses of the property that are FALSE of the faithful model are in Refuted.v (each tied to a
   finding key of harness/c06.py); the theorem that would have contained the clause says so. *)
From Coq Require Import ZArith QArith Qcanon List String Bool.
From AV.lib Require Import QcInst.
From AV.C06 Require Import Base Model Lemmas.
From AV.gen Require Import C06_Gen.
Import ListNotations.
Open Scope Qc_scope.

(* There-and-back is the identity and conversion through an intermediate unit equals the direct
   conversion: for EVERY value class of the package, EVERY triple of its implemented units and
   EVERY rational magnitude.  (Used by C11/Units.v: statement unchanged.) *)
Theorem conv_roundtrip_and_path :
  forall cname cls, In (cname, cls) classes ->
  forall u v w, In u cls -> In v cls -> In w cls ->
  forall x : Qc,
    conv (conv x u v) v u = x /\ conv (conv x u v) v w = conv x u w /\ conv x u u = x.
Proof.
  intros cname cls Hc u v w Hu Hv Hw x.
  pose proof (class_in_ok _ _ Hc) as Hok.
  destruct (class_ok_sound _ Hok u v Hu Hv) as [Pu [Pv Cuv]].
  destruct (class_ok_sound _ Hok w w Hw Hw) as [Pw _].
  split; [|split].
  - apply conv_roundtrip_gen; try apply pos_nonzero; assumption.
  - apply conv_path_gen; try apply pos_nonzero; try assumption.
    exact (class_ok_path _ Hok u v w Hu Hv Hw).
  - apply conv_same. apply pos_nonzero; assumption.
Qed.

(* The same through the code path a user calls: Value.to(unit) = alias lookup + conversion.  For a
   quantity a of the class and units v w of the class, a.to(v) succeeds, is labelled v, a.to(v).to(ua)
   has a's number and unit, and a.to(v).to(w) is a.to(w). *)
Theorem to_unit_roundtrip_and_path :
  forall cname cls, In (cname, cls) classes ->
  forall (a : value) v w, In (vu a) cls -> In v cls -> In w cls ->
  exists b, to_unit cls a v = Some b /\ vu b = v /\ vx b = conv (vx a) (vu a) v /\
    (exists a', to_unit cls b (vu a) = Some a' /\ vx a' = vx a /\ vu a' = vu a) /\
    (exists c d, to_unit cls b w = Some c /\ to_unit cls a w = Some d /\ vx c = vx d /\ vu c = w /\ vu d = w).
Proof.
  intros cname cls Hc a v w Ha Hv Hw.
  destruct (class_in_disjoint _ _ Hc) as [Hd Hn]. pose proof (class_in_ok _ _ Hc) as Hok.
  destruct (class_ok_sound _ Hok _ _ Ha Hv) as [Pa [Pv Cav]].
  destruct (to_unit_in_class cls a v Hd Hn Pa Ha Hv) as [b [Hb [Hbx Hbu]]].
  exists b. split; [exact Hb|]. split; [exact Hbu|]. split; [exact Hbx|].
  assert (Pb : 0 < utimes (vu b)) by (rewrite Hbu; exact Pv).
  assert (Hbin : In (vu b) cls) by (rewrite Hbu; exact Hv).
  split.
  - destruct (to_unit_in_class cls b (vu a) Hd Hn Pb Hbin Ha) as [a' [Ha' [Hx Hu]]].
    exists a'. split; [exact Ha'|]. split; [|exact Hu].
    rewrite Hx, Hbx, Hbu. apply conv_roundtrip_gen; try apply pos_nonzero; assumption.
  - destruct (to_unit_in_class cls b w Hd Hn Pb Hbin Hw) as [c [Hc' [Hcx Hcu]]].
    destruct (to_unit_in_class cls a w Hd Hn Pa Ha Hw) as [d [Hd' [Hdx Hdu]]].
    exists c, d. split; [exact Hc'|]. split; [exact Hd'|]. split; [|split; assumption].
    rewrite Hcx, Hdx, Hbx, Hbu.
    destruct (class_ok_sound _ Hok _ _ Hw Hw) as [Pw _].
    apply conv_path_gen; try apply pos_nonzero; try assumption.
    exact (class_ok_path _ Hok _ _ _ Ha Hv Hw).
Qed.

(* Factors agree with the physical constants the package declares.  Tolerances are RELATIVE (1e-12),
   so a factor of 1e-47 is checked to twelve digits like a factor of 1e+10.
   (1) every unit is consistent with the way units.py declares it (constant / literal / product of
       the component units);
   (2) every unit's factor equals the reference derived from what its NAME means (Model.dim_of:
       energy unit x length unit^k x mass unit^k over the declared constants) -- EXCEPT the unit
       named "J m^-2 kg^-1", which carries the factor of J ang^-2 kg^-1 (1e20 too small for its
       name): Refuted.factor_J_m2_kg_refuted, finding key in harness/c06.py.  For that unit the
       theorem states exactly that alternative;
   (3) the redundant constants of constants.py agree with each other;
   (4) Celsius is the affine shift 273.15 with factor 1. *)
Theorem factors_match_constants :
  (forall e, In e declared -> factor_ok e = true) /\
  (forall u, In u all_units ->
      matches_reference u = true \/ (uname u = "J m^-2 kg^-1"%string /\ misnamed_ok u = true)) /\
  consts_consistent = true /\
  (exists u, In u all_units /\ uname u = "celsius"%string /\
             utimes u = Q2Qc 1 /\ rclose ref_tol (uadd u) (qc 27315 100) = true).
Proof.
  split; [|split; [|split; [exact consts_consistent_ok|exact celsius_shift]]].
  - intros e He. pose proof all_factors_declared as A. rewrite forallb_forall in A. apply A. exact He.
  - intros u Hu. pose proof all_factors_reference_r3 as B. rewrite forallb_forall in B.
    specialize (B u Hu). apply orb_true_iff in B as [B|B]; [left; exact B|right].
    apply andb_true_iff in B as [B1 B2]. split; [apply String.eqb_eq; exact B1|exact B2].
Qed.

(* Alias lookup is unambiguous -- inside every class AND across the whole package: a name is an alias
   of at most one unit.  Hence requesting a unit of a DIFFERENT KIND (any alias of any declared unit
   that is not among the class's implemented units), or a name nobody declares, is the error branch
   for scalars and arrays: never a silent reinterpretation. *)
Theorem alias_lookup_unambiguous_and_foreign_rejected :
  (forall a u v, In u all_units -> In v all_units -> has_alias a u = true -> has_alias a v = true -> u = v) /\
  forall cname cls, In (cname, cls) classes ->
  (forall a u, find_unit cls a = Some u -> forall v, In v cls -> has_alias a v = true -> v = u) /\
  (forall f name, In f all_units -> ~ In f cls -> has_alias name f = true ->
     (forall a : value, In (vu a) cls -> to_name cls a name = None) /\
     (forall s : arr, In (aunit s) cls ->
        arr_to cls s name = (s, RErr) /\ arr_to_ cls s name = (s, RErr))) /\
  (forall (a : value) name, has_alias name (vu a) = false ->
      (forall u, In u cls -> has_alias name u = false) -> to_name cls a name = None).
Proof.
  split; [intros a u v; exact (disjoint_two all_units all_units_disjoint a u v)|].
  intros cname cls Hc. destruct (class_in_disjoint _ _ Hc) as [Hd _]. split; [|split].
  - exact (aliases_disjoint_unique cls Hd).
  - intros f name Hf Hnot Hal.
    pose proof (foreign_alias_unknown cname cls f name Hc Hf Hnot Hal) as Hno. split.
    + intros a Ha. apply to_name_foreign; [apply Hno; exact Ha|exact Hno].
    + intros s Hs. unfold arr_to, arr_to_. rewrite (Hno _ Hs), (find_unit_none _ _ Hno). split; reflexivity.
  - intros a name H1 H2. apply to_name_foreign; assumption.
Qed.

(* Arrays convert elementwise exactly like scalars, in place or by copy.  `arr_to`/`arr_to_` model
   ValueArray.to/to_ with the object state explicit: (source object afterwards, what is returned).
   By copy leaves the source untouched; both raise for the same names and a refusal leaves the source
   untouched; the array one holds after b = a.to(name) equals the array a is after a.to_(name); it is
   labelled with the unit the name resolves to and every entry is the scalar conversion
   Value.to(name) of that entry. *)
Theorem array_conv_elementwise_inplace_copy :
  forall cname cls, In (cname, cls) classes -> forall (s : arr) name, In (aunit s) cls ->
  fst (arr_to cls s name) = s /\
  (snd (arr_to cls s name) = RErr <-> snd (arr_to_ cls s name) = RErr) /\
  (snd (arr_to_ cls s name) = RErr -> fst (arr_to_ cls s name) = s) /\
  (forall b, arr_result s (snd (arr_to cls s name)) = Some b ->
     fst (arr_to_ cls s name) = b /\
     exists v, find_unit cls name = Some v /\ aunit b = v /\
       axs b = map (fun x => conv x (aunit s) v) (axs s) /\
       forall x, exists r, to_name cls (mkValue x (aunit s)) name = Some r /\ vu r = v /\
                           vx r = conv x (aunit s) v).
Proof.
  intros cname cls Hc s name Hs.
  destruct (class_in_disjoint _ _ Hc) as [Hd Hn]. pose proof (class_in_ok _ _ Hc) as Hok.
  destruct (class_ok_sound _ Hok _ _ Hs Hs) as [Ps _].
  unfold arr_to, arr_to_. destruct (has_alias name (aunit s)) eqn:E.
  - cbn [fst snd arr_result]. split; [reflexivity|]. split; [split; discriminate|]. split; [discriminate|].
    intros b Hb. injection Hb as <-. split; [reflexivity|].
    destruct (find_unit_exists cls name _ Hs E) as [v Hv].
    assert (aunit s = v) as <- by exact (aliases_disjoint_unique cls Hd name v Hv _ Hs E).
    exists (aunit s). split; [exact Hv|]. split; [reflexivity|]. split.
    + rewrite <- (map_id (axs s)) at 1. apply map_ext. intros x. symmetry. apply conv_same, pos_nonzero, Ps.
    + intros x. destruct (to_name_in_class cls (mkValue x (aunit s)) name (aunit s) Hd Ps Hs Hv) as [r [Hr [Hx Hu]]].
      exists r. split; [exact Hr|]. split; [exact Hu|exact Hx].
  - destruct (find_unit cls name) as [v|] eqn:F; cbn [fst snd arr_result].
    + split; [reflexivity|]. split; [split; discriminate|]. split; [discriminate|].
      intros b Hb. injection Hb as <-. split; [reflexivity|].
      exists v. split; [reflexivity|]. split; [reflexivity|]. split; [reflexivity|].
      intros x. destruct (to_name_in_class cls (mkValue x (aunit s)) name v Hd Ps Hs F) as [r [Hr [Hx Hu]]].
      exists r. split; [exact Hr|]. split; [exact Hu|exact Hx].
    + split; [reflexivity|]. split; [split; reflexivity|]. split; [reflexivity|]. intros b Hb. discriminate.
Qed.

(* An array equals (ValueArray.__eq__) its own conversion into any unit of the class, in both
   operand orders: equality of arrays is the comparison after conversion to a common unit. *)
Theorem array_eq_after_conversion :
  forall cname cls, In (cname, cls) classes -> forall (s : arr) w, In (aunit s) cls -> In w cls ->
  forall b, arr_result s (snd (arr_to cls s (uquery w))) = Some b ->
  arr_eq cls s b = Some true /\ arr_eq cls b s = Some true.
Proof.
  intros cname cls Hc s w Hs Hw b Hb.
  destruct (class_in_disjoint _ _ Hc) as [Hd Hn]. pose proof (class_in_ok _ _ Hc) as Hok.
  destruct (class_ok_sound _ Hok _ _ Hs Hw) as [Ps [Pw Csw]].
  pose proof (nonempty_In cls _ Hn Hs) as Ns. pose proof (nonempty_In cls _ Hn Hw) as Nw.
  pose proof (find_unit_self cls _ Hd Ns Hs) as Fs. pose proof (find_unit_self cls _ Hd Nw Hw) as Fw.
  unfold arr_to in Hb. destruct (has_alias (uquery w) (aunit s)) eqn:E.
  - cbn [snd arr_result] in Hb. injection Hb as <-.
    unfold arr_eq, arr_to. rewrite (uquery_self _ Ns). cbn [snd arr_result]. rewrite all_close_refl. split; reflexivity.
  - rewrite Fw in Hb. cbn [snd arr_result] in Hb. injection Hb as <-.
    assert (E2 : has_alias (uquery (aunit s)) w = false).
    { destruct (has_alias (uquery (aunit s)) w) eqn:E2; [|reflexivity].
      pose proof (disjoint_two cls Hd _ _ _ Hs Hw (uquery_self _ Ns) E2) as Heq.
      rewrite <- Heq in E. rewrite (uquery_self _ Ns) in E. discriminate. }
    unfold arr_eq, arr_to. cbn [aunit axs]. rewrite E2, Fs, E, Fw. cbn [snd arr_result axs].
    rewrite map_conv_roundtrip by (try apply pos_nonzero; assumption). rewrite !all_close_refl. split; reflexivity.
Qed.

(* Comparison is a consistent order and equals the comparison after converting both operands to ANY
   common unit of the class.  No premise beyond "both units belong to the class" (same or different
   units): never a<a; never both a<b and b<a; a<=b = (a<b or a==b) and a>=b = (a>b or a==b), all
   defined; a<b (a>b) iff it holds in every common unit w; a>b is b<a -- which is also what CPython
   evaluates when the right operand is of a proper subclass (vs_lt/vs_gt).
   NOT stated here: that `==` (hence <=, >=) of two quantities in DIFFERENT units is the common-unit
   comparison -- false of Value.__eq__ (Refuted.value_eq_asymmetric_refuted); see equality_partial. *)
Theorem comparison_consistent_order :
  forall cname cls, In (cname, cls) classes ->
  forall a b : value, In (vu a) cls -> In (vu b) cls ->
  v_lt cls a a = Some false /\ v_gt cls a a = Some false /\
  ~ (v_lt cls a b = Some true /\ v_lt cls b a = Some true) /\
  (exists l e, v_lt cls a b = Some l /\ v_eq cls a b = Some e /\ v_le cls a b = Some (l || e)) /\
  (exists g e, v_gt cls a b = Some g /\ v_eq cls a b = Some e /\ v_ge cls a b = Some (g || e)) /\
  (forall w, In w cls ->
     (v_lt cls a b = Some true <-> conv (vx a) (vu a) w < conv (vx b) (vu b) w) /\
     (v_gt cls a b = Some true <-> conv (vx b) (vu b) w < conv (vx a) (vu a) w)) /\
  v_gt cls a b = v_lt cls b a /\ vs_lt cls a b = v_lt cls a b /\ vs_gt cls a b = v_gt cls a b.
Proof.
  intros cname cls Hc a b Ha Hb.
  pose proof (class_in_ok _ _ Hc) as Hok.
  destruct (class_ok_sound _ Hok _ _ Ha Hb) as [Pa [Pb Cab]].
  assert (Cba : compatible (vu b) (vu a)) by (destruct Cab as [H|H]; [left|right]; symmetry; exact H).
  pose proof (other_in_total _ _ a b Hc Ha Hb) as Oab. pose proof (other_in_total _ _ b a Hc Hb Ha) as Oba.
  pose proof (other_in_total _ _ a a Hc Ha Ha) as Oaa.
  assert (Gab : v_gt cls a b = v_lt cls b a).
  { unfold v_gt, v_lt. rewrite Oab, Oba. cbn [option_map]. f_equal.
    apply Qcltb_iff. apply gt_is_lt_swapped; assumption. }
  assert (Gba : v_gt cls b a = v_lt cls a b).
  { unfold v_gt, v_lt. rewrite Oab, Oba. cbn [option_map]. f_equal.
    apply Qcltb_iff. apply gt_is_lt_swapped; assumption. }
  split; [|split; [|split; [|split; [|split; [|split; [|split; [exact Gab|split; [exact Gba|]]]]]]]].
  - unfold v_lt. rewrite Oaa. cbn [option_map]. rewrite conv_same by (apply pos_nonzero; exact Pa).
    rewrite Qcltb_irrefl. reflexivity.
  - unfold v_gt. rewrite Oaa. cbn [option_map]. rewrite conv_same by (apply pos_nonzero; exact Pa).
    rewrite Qcltb_irrefl. reflexivity.
  - intros [H1 H2]. unfold v_lt in H1, H2. rewrite Oab in H1. rewrite Oba in H2.
    cbn [option_map] in H1, H2. injection H1 as H1. injection H2 as H2.
    apply Qcltb_lt in H1, H2. exact (lt_asym_conv _ _ _ _ Pa Pb Cab H1 H2).
  - unfold v_le, v_lt, v_eq. rewrite Oab. cbn [option_map]. eexists. eexists. repeat split; reflexivity.
  - unfold v_ge, v_gt, v_eq. rewrite Oab. cbn [option_map]. eexists. eexists. repeat split; reflexivity.
  - intros w Hw. destruct (class_ok_sound _ Hok _ _ Hw Hw) as [Pw _].
    pose proof (class_ok_path _ Hok _ _ _ Hb Ha Hw) as Hp.
    unfold v_lt, v_gt. rewrite Oab. cbn [option_map]. split; apply Some_true_iff.
    + rewrite Qcltb_lt. apply lt_common_unit; assumption.
    + rewrite Qcltb_lt. apply gt_common_unit; assumption.
  - unfold vs_gt. symmetry. exact Gab.
Qed.

(* A plain float operand (left or right: CPython routes  y < a  to a.__gt__(y) because Value
   subclasses float) is compared with the raw number, consistently. *)
Theorem float_operand_order :
  forall (a : value) (y : Qc),
  vf_lt a (vx a) = false /\ vf_gt a (vx a) = false /\ fv_lt (vx a) a = false /\ fv_gt (vx a) a = false /\
  ~ (vf_lt a y = true /\ fv_lt y a = true) /\
  (fv_lt y a = true <-> y < vx a) /\ (fv_gt y a = true <-> vx a < y) /\
  vf_le a y = (vf_lt a y || vf_eq a y) /\ fv_le y a = (fv_lt y a || fv_eq y a).
Proof.
  intros a y. unfold fv_lt, fv_gt, fv_le, fv_eq, vf_le, vf_ge, vf_lt, vf_gt. rewrite !Qcltb_irrefl.
  repeat split; try reflexivity; try (apply Qcltb_lt); try (intros H; apply Qcltb_lt; exact H).
  intros [H1 H2]. apply Qcltb_lt in H1, H2. apply (Qclt_irrefl y). eapply Qclt_trans; eassumption.
Qed.

(* Equality -- the part that holds.  Value.__eq__ is |a - b.to(a.units)| < 1e-8 in the LEFT
   operand's unit: defined for all operands of a class, symmetric when both have the same unit.
   Energy.__eq__ (Energy family, both operands of one class) compares in Ha with 0.0000159: it is
   symmetric and gives the same answer after converting both operands to any common unit w.
   MISSING (false of the model, Refuted.value_eq_asymmetric_refuted): symmetry / unit-independence
   of Value.__eq__, <=, >= for DIFFERENT units of the non-Energy classes. *)
Theorem equality_partial :
  forall cname cls, In (cname, cls) classes ->
  forall a b : value, In (vu a) cls -> In (vu b) cls ->
  v_eq cls a b = Some (Qcltb (Qcabs (vx a - conv (vx b) (vu b) (vu a))) eq_tol) /\
  (vu a = vu b -> v_eq cls a b = v_eq cls b a) /\
  (forall h, find_unit cls "ha" = Some h ->
     e_eq cls true a b = Some (Qcltb (Qcabs (conv (vx b) (vu b) h - conv (vx a) (vu a) h)) tol_ha) /\
     e_eq cls true a b = e_eq cls true b a /\
     (forall w a' b', In w cls -> to_unit cls a w = Some a' -> to_unit cls b w = Some b' ->
        e_eq cls true a' b' = e_eq cls true a b)).
Proof.
  intros cname cls Hc a b Ha Hb.
  destruct (class_in_disjoint _ _ Hc) as [Hd Hn]. pose proof (class_in_ok _ _ Hc) as Hok.
  destruct (class_ok_sound _ Hok _ _ Ha Hb) as [Pa [Pb Cab]].
  pose proof (other_in_total _ _ a b Hc Ha Hb) as Oab. pose proof (other_in_total _ _ b a Hc Hb Ha) as Oba.
  split; [|split].
  - unfold v_eq. rewrite Oab. reflexivity.
  - intros E. unfold v_eq. rewrite Oab, Oba. cbn [option_map]. rewrite E.
    rewrite !conv_same by (apply pos_nonzero; rewrite <- E; exact Pa).
    rewrite Qcabs_sub_sym. reflexivity.
  - intros h Hh.
    assert (Key : forall p q : value, In (vu p) cls -> In (vu q) cls ->
              e_eq cls true p q = Some (Qcltb (Qcabs (conv (vx q) (vu q) h - conv (vx p) (vu p) h)) tol_ha)).
    { intros p q Hp Hq. destruct (class_ok_sound _ Hok _ _ Hp Hq) as [Pp [Pq _]].
      destruct (to_name_in_class cls q "ha" h Hd Pq Hq Hh) as [y [Hy [Hyx _]]].
      destruct (to_name_in_class cls p "ha" h Hd Pp Hp Hh) as [x [Hx [Hxx _]]].
      unfold e_eq. cbn [negb]. rewrite Hy, Hx, Hyx, Hxx. reflexivity. }
    split; [apply Key; assumption|]. split.
    + rewrite (Key a b Ha Hb), (Key b a Hb Ha). rewrite Qcabs_sub_sym. reflexivity.
    + intros w a' b' Hw Ha' Hb'.
      destruct (to_unit_in_class cls a w Hd Hn Pa Ha Hw) as [ra [Hra [Hrax Hrau]]].
      destruct (to_unit_in_class cls b w Hd Hn Pb Hb Hw) as [rb [Hrb [Hrbx Hrbu]]].
      rewrite Ha' in Hra. injection Hra as <-. rewrite Hb' in Hrb. injection Hrb as <-.
      assert (Hh' : In h cls) by (apply (find_unit_some _ _ _ Hh)).
      destruct (class_ok_sound _ Hok _ _ Hw Hh') as [Pw [Ph _]].
      rewrite (Key a' b') by (rewrite ?Hrau, ?Hrbu; exact Hw). rewrite (Key a b Ha Hb).
      rewrite Hrax, Hrbx, Hrau, Hrbu.
      rewrite (conv_path_gen (vx a) (vu a) w h) by
        (try apply pos_nonzero; try assumption; exact (class_ok_path _ Hok _ _ _ Ha Hw Hh')).
      rewrite (conv_path_gen (vx b) (vu b) w h) by
        (try apply pos_nonzero; try assumption; exact (class_ok_path _ Hok _ _ _ Hb Hw Hh')).
      reflexivity.
Qed.

(* Adding / subtracting quantities in different (or equal) units equals the operation after
   conversion to a common unit: the result, expressed in ANY unit w of the class, is the sum /
   difference of the operands expressed in w -- for the shift-free units; the result is always
   defined and labelled with the left operand's unit.  For every class (incl. the affine temperature
   class) the difference converts by the factor alone, and the sum is the sum taken in the LEFT
   operand's unit (for Celsius/Kelvin no unit-independent sum exists:
   Refuted.temperature_sum_depends_on_unit). *)
Theorem add_sub_via_common_unit :
  forall cname cls, In (cname, cls) classes ->
  forall a b : value, In (vu a) cls -> In (vu b) cls ->
  (exists s d, v_add cls a b = Some s /\ v_sub cls a b = Some d /\ vu s = vu a /\ vu d = vu a /\
     vx s = vx a + conv (vx b) (vu b) (vu a) /\ vx d = vx a - conv (vx b) (vu b) (vu a) /\
     forall w, In w cls ->
       (uadd (vu a) = 0 -> uadd (vu b) = 0 -> uadd w = 0 ->
          conv (vx s) (vu s) w = conv (vx a) (vu a) w + conv (vx b) (vu b) w /\
          conv (vx d) (vu d) w = conv (vx a) (vu a) w - conv (vx b) (vu b) w) /\
       vx d * (utimes w / utimes (vu a)) = conv (vx a) (vu a) w - conv (vx b) (vu b) w).
Proof.
  intros cname cls Hc a b Ha Hb.
  pose proof (class_in_ok _ _ Hc) as Hok.
  destruct (class_ok_sound _ Hok _ _ Ha Hb) as [Pa [Pb Cab]].
  pose proof (pos_nonzero _ Pa) as Na. pose proof (pos_nonzero _ Pb) as Nb.
  pose proof (other_in_total _ _ a b Hc Ha Hb) as Oab.
  unfold v_add, v_sub. rewrite Oab. cbn [option_map].
  eexists. eexists. split; [reflexivity|]. split; [reflexivity|]. cbn [vu vx].
  split; [reflexivity|]. split; [reflexivity|]. split; [reflexivity|]. split; [reflexivity|].
  intros w Hw. destruct (class_ok_sound _ Hok _ _ Hw Hw) as [Pw _]. pose proof (pos_nonzero _ Pw) as Nw.
  split.
  - intros Za Zb Zw. split.
    + rewrite conv_linear_add by assumption.
      rewrite (conv_path_gen (vx b) (vu b) (vu a) w) by (try assumption; left; congruence). reflexivity.
    + rewrite conv_linear_sub by assumption.
      rewrite (conv_path_gen (vx b) (vu b) (vu a) w) by (try assumption; left; congruence). reflexivity.
  - rewrite <- (conv_path_gen (vx b) (vu b) (vu a) w) by
      (try assumption; exact (class_ok_path _ Hok _ _ _ Hb Ha Hw)).
    rewrite conv_sub_affine by exact Na. reflexivity.
Qed.

(* non-vacuity: the generated table has >= 10 classes WITH units, every one of them satisfies the
   hypotheses of the theorems above with two different units whenever it has two, the Energy class
   resolves "ha", and the foreign-unit clause has instances *)
Example nonvacuous :
  (10 <= List.length (filter (fun e => match snd e with [] => false | _ => true end) classes))%nat /\
  (exists cname cls u v, In (cname, cls) classes /\ In u cls /\ In v cls /\ u <> v /\
     converts cls (mkValue (qc 3 2) u) (mkValue (qc 5 4) v)) /\
  (exists cls h, In ("Energy"%string, cls) classes /\ find_unit cls "ha" = Some h) /\
  (exists cname cls f, In (cname, cls) classes /\ cls <> [] /\ In f all_units /\ ~ In f cls).
Proof.
  split; [vm_compute; repeat constructor|]. split; [|split].
  - exists "Energy"%string, [u_ha; u_kcalmol; u_kjmol; u_ev; u_J], u_ha, u_kcalmol.
    split; [vm_compute; tauto|]. split; [left; reflexivity|]. split; [right; left; reflexivity|].
    split; [intros E; inversion E|]. split; vm_compute; reflexivity.
  - exists [u_ha; u_kcalmol; u_kjmol; u_ev; u_J], u_ha. split; [vm_compute; tauto|vm_compute; reflexivity].
  - exists "Temperature"%string, [u_kelvin; u_celsius], u_ha.
    split; [vm_compute; tauto|]. split; [discriminate|]. split; [vm_compute; tauto|].
    intros [E|[E|[]]]; inversion E.
Qed.
