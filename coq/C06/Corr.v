(* C06/Corr.v — helpers used only by the correspondence check (model vs implementation). *)
From Coq Require Import ZArith QArith Qcanon List String Bool.
From AV.lib Require Import QcInst.
From AV.C06 Require Import Base Model.
From AV.gen Require Import C06_Gen.
Import ListNotations.
Open Scope string_scope.

Fixpoint list_eqb {A} (eqb : A -> A -> bool) (a b : list A) : bool :=
  match a, b with
  | [], [] => true
  | x :: a', y :: b' => eqb x y && list_eqb eqb a' b'
  | _, _ => false
  end.
Definition unit_eqb (u v : unit) : bool :=
  String.eqb (uname u) (uname v) && list_eqb String.eqb (ualiases u) (ualiases v) &&
  Qceqb (utimes u) (utimes v) && Qceqb (uadd u) (uadd v).
Fixpoint lookup_class (k : string) (l : list (string * list unit)) : list unit :=
  match l with [] => [] | (k', v) :: r => if String.eqb k k' then v else lookup_class k r end.
Definition cls (k : string) := lookup_class k classes.
(* the runtime implemented_units of class k are exactly the generated ones *)
Definition check_class (k : string) (us : list unit) : bool := list_eqb unit_eqb (cls k) us.
Definition check_const (k : string) (v : Qc) : bool :=
  match lookupc k constants with Some c => Qceqb c v | None => false end.

Definition tol : Qc := qc 1 100000000000.   (* 1e-11 relative *)
Definition unit_named (k : string) (nm : string) : unit :=
  match find (fun u => String.eqb (uname u) nm) (cls k) with Some u => u | None => mkUnit "" [] (Q2Qc 0) (Q2Qc 0) end.

(* scale of a conversion: |x * tv/tu| + |au - av|.  The float result must agree with the exact one to
   `tol` RELATIVE to that scale (a purely relative test would be unfair under affine cancellation,
   an absolute one -- lib `close` -- is blind for results << 1).  Scale 0 (x = 0, no shift) demands
   the exact result 0. *)
Definition conv_scale (x : Qc) (u v : unit) : Qc :=
  (Qcabs (x * (utimes v / utimes u)) + Qcabs (uadd u - uadd v))%Qc.
Fixpoint closeS (u v : unit) (xs ys zs : list Qc) : bool :=   (* xs sources, ys model, zs implementation *)
  match xs, ys, zs with
  | [], [], [] => true
  | x :: xs', y :: ys', z :: zs' => sclose tol (conv_scale x u v) y z && closeS u v xs' ys' zs'
  | _, _, _ => false
  end.
(* expected result of  cls(x, units=un).to(name):  Some (float, unit name)  or None (TypeError) *)
Definition check_to (k un : string) (x : Qc) (name : string) (expect : option (Qc * string)) : bool :=
  match to_name (cls k) (mkValue x (unit_named k un)) name, expect with
  | Some r, Some (y, rn) => sclose tol (conv_scale x (unit_named k un) (vu r)) (vx r) y && String.eqb (uname (vu r)) rn
  | None, None => true
  | _, _ => false
  end.
Definition check_to_array (k un : string) (xs : list Qc) (name : string) (expect : option (list Qc * string)) : bool :=
  match to_array (cls k) xs (unit_named k un) name, expect with
  | Some (ys, v), Some (zs, rn) => closeS (unit_named k un) v xs ys zs && String.eqb (uname v) rn
  | None, None => true
  | _, _ => false
  end.
(* object-state model of ValueArray.to / to_ :
   to : `same` = the returned object IS the source; expect = returned numbers+unit or None (raised);
        after = numbers+unit of the source afterwards *)
Definition arr_matches (s b : arr) (e : list Qc * string) : bool :=
  closeS (aunit s) (aunit b) (axs s) (axs b) (fst e) && String.eqb (uname (aunit b)) (snd e).
Definition check_arr_to (k un : string) (xs : list Qc) (name : string) (same : bool)
    (expect : option (list Qc * string)) (after : list Qc * string) : bool :=
  let s := mkArr xs (unit_named k un) in
  match arr_to (cls k) s name, expect with
  | (s', RSame), Some e => same && arr_matches s s e && arr_matches s s' after
  | (s', RNew b), Some e => negb same && arr_matches s b e && arr_matches s s' after
  | (s', RErr), None => arr_matches s s' after
  | _, _ => false
  end.
Definition check_arr_to_ (k un : string) (xs : list Qc) (name : string) (raised : bool)
    (after : list Qc * string) : bool :=
  let s := mkArr xs (unit_named k un) in
  match arr_to_ (cls k) s name with
  | (s', RNone) => negb raised && arr_matches s s' after
  | (s', RErr) => raised && arr_matches s s' after
  | _ => false
  end.
Definition arr_named (k un : string) (xs : list Qc) : arr := mkArr xs (unit_named k un).
Definition arr_close (r : arr) (e : list Qc * string) : bool :=
  closeL tol (axs r) (fst e) && String.eqb (uname (aunit r)) (snd e).
Definition oq_close (a : option Qc) (b : Qc) : bool :=
  match a with Some x => close tol x b | None => false end.
Definition lb_eqb (a b : list bool) : bool := list_eqb Bool.eqb a b.

Definition mk (k un : string) (x : Qc) : value := mkValue x (unit_named k un).
Definition ob_eqb (a b : option bool) : bool :=
  match a, b with Some x, Some y => Bool.eqb x y | None, None => true | _, _ => false end.
Definition ov_close (a : option value) (b : option (Qc * string)) : bool :=
  match a, b with
  | Some r, Some (y, rn) => close tol (vx r) y && String.eqb (uname (vu r)) rn
  | None, None => true | _, _ => false end.
Definition v_close (r : value) (b : Qc * string) : bool :=
  close tol (vx r) (fst b) && String.eqb (uname (vu r)) (snd b).
