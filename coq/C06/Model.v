(* C06/Model.v — executable model of autode.values: unit lookup, conversion (the arithmetic of
   `_to` is GENERATED: gen/C06_Gen.conv), and the comparison / arithmetic dunders of `Value`
   including Python's reflected-operator dispatch (Value subclasses float and overrides
   __lt__/__gt__/__le__/__ge__/__eq__/__add__/__radd__/__sub__/__mul__/__rmul__).
   Definitions only; proofs are in Lemmas.v. *)
From Coq Require Import ZArith QArith Qcanon List String Bool.
From AV.lib Require Import QcInst.
From AV.C06 Require Import Base.
From AV.gen Require Import C06_Gen.
Import ListNotations.
Open Scope string_scope.

(* ---------- unit lookup:  next(u for u in implemented_units if name.lower() in u.aliases) ---------- *)
Definition has_alias (a : string) (u : unit) : bool := existsb (String.eqb a) (ualiases u).
Definition find_unit (cls : list unit) (a : string) : option unit := find (has_alias a) cls.

(* a quantity: a number and its unit *)
Record value := mkValue { vx : Qc; vu : unit }.

(* Value.to(name):  `value.units == units` (alias test on the CURRENT unit) returns the value itself,
   otherwise the class's implemented units are searched; no match -> TypeError (None). *)
Definition to_name (cls : list unit) (a : value) (name : string) : option value :=
  if has_alias name (vu a) then Some a
  else match find_unit cls name with
       | Some v => Some (mkValue (conv (vx a) (vu a) v) v)
       | None => None
       end.
(* Value.to(unit object): the query string is unit.name.lower() = head of its alias list *)
Definition uquery (u : unit) : string := hd ""%string (ualiases u).
Definition to_unit (cls : list unit) (a : value) (u : unit) : option value := to_name cls a (uquery u).

(* ValueArray.to / to_ : numpy elementwise in-place  *= ; +=  *)
Definition to_array (cls : list unit) (xs : list Qc) (u : unit) (name : string) : option (list Qc * unit) :=
  if has_alias name u then Some (xs, u)
  else match find_unit cls name with
       | Some v => Some (map (fun x => conv x u v) xs, v)
       | None => None
       end.

(* ---------- comparisons (other is a Value of the same class) ---------- *)
Definition other_in (cls : list unit) (a b : value) : option Qc :=
  option_map vx (to_unit cls b (vu a)).

Definition eq_tol : Qc := qc 1 100000000.   (* 1e-8, Value.__eq__ *)

Definition v_lt (cls : list unit) (a b : value) : option bool :=
  option_map (fun y => Qcltb (vx a) y) (other_in cls a b).
Definition v_gt (cls : list unit) (a b : value) : option bool :=
  option_map (fun y => Qcltb y (vx a)) (other_in cls a b).
Definition v_eq (cls : list unit) (a b : value) : option bool :=
  option_map (fun y => Qcltb (Qcabs (vx a - y)%Qc) eq_tol) (other_in cls a b).
Definition v_le (cls : list unit) (a b : value) : option bool :=
  match v_lt cls a b, v_eq cls a b with
  | Some l, Some e => Some (l || e) | _, _ => None end.
Definition v_ge (cls : list unit) (a b : value) : option bool :=
  match v_gt cls a b, v_eq cls a b with
  | Some l, Some e => Some (l || e) | _, _ => None end.

(* comparisons with a plain float y on the right:  a < y, a > y, ... *)
Definition vf_lt (a : value) (y : Qc) : bool := Qcltb (vx a) y.
Definition vf_gt (a : value) (y : Qc) : bool := Qcltb y (vx a).
Definition vf_eq (a : value) (y : Qc) : bool := Qcltb (Qcabs (vx a - y)%Qc) eq_tol.
Definition vf_le (a : value) (y : Qc) : bool := vf_lt a y || vf_eq a y.
Definition vf_ge (a : value) (y : Qc) : bool := vf_gt a y || vf_eq a y.
(* plain float on the LEFT: Python tries the reflected method of the subclass first:
   y < a  ->  a.__gt__(y);   y > a -> a.__lt__(y);  y <= a -> a.__ge__(y); y >= a -> a.__le__(y);
   y == a -> a.__eq__(y) *)
Definition fv_lt (y : Qc) (a : value) : bool := vf_gt a y.
Definition fv_gt (y : Qc) (a : value) : bool := vf_lt a y.
Definition fv_le (y : Qc) (a : value) : bool := vf_ge a y.
Definition fv_ge (y : Qc) (a : value) : bool := vf_le a y.
Definition fv_eq (y : Qc) (a : value) : bool := vf_eq a y.

(* ---------- arithmetic ---------- *)
Definition v_add (cls : list unit) (a b : value) : option value :=
  option_map (fun y => mkValue (vx a + y)%Qc (vu a)) (other_in cls a b).
Definition v_sub (cls : list unit) (a b : value) : option value :=
  option_map (fun y => mkValue (vx a - y)%Qc (vu a)) (other_in cls a b).
Definition vf_add (a : value) (y : Qc) : value := mkValue (vx a + y)%Qc (vu a).
Definition vf_sub (a : value) (y : Qc) : value := mkValue (vx a - y)%Qc (vu a).
Definition fv_add (y : Qc) (a : value) : value := vf_add a y.           (* __radd__ *)
Definition v_neg (a : value) : value := mkValue (- vx a)%Qc (vu a).
Definition vf_mul (a : value) (y : Qc) : value := mkValue (vx a * y)%Qc (vu a).
(* Value * Value returns a bare float in the left operand's unit *)
Definition v_mul (cls : list unit) (a b : value) : option Qc :=
  option_map (fun y => (vx a * y)%Qc) (other_in cls a b).

(* ---------- class well-formedness (decidable; swept over the generated table) ---------- *)
Definition Qceqb (a b : Qc) : bool := Qeq_bool (this a) (this b).
Definition all_same {A} (eqb : A -> A -> bool) (l : list A) : bool :=
  match l with [] => true | x :: r => forallb (eqb x) r end.
Definition times_nonzero (cls : list unit) : bool := forallb (fun u => negb (Qceqb (utimes u) (Q2Qc 0))) cls.
Definition times_positive (cls : list unit) : bool := forallb (fun u => Qcltb (Q2Qc 0) (utimes u)) cls.
(* every pair of units of a class differs only by a factor or only by a shift *)
Definition class_ok (cls : list unit) : bool :=
  times_positive cls && (all_same Qceqb (map uadd cls) || all_same Qceqb (map utimes cls)).

(* no alias belongs to two different units of one class *)
Fixpoint aliases_disjoint (cls : list unit) : bool :=
  match cls with
  | [] => true
  | u :: r => forallb (fun a => negb (existsb (has_alias a) r)) (ualiases u) && aliases_disjoint r
  end.
Definition nonempty_aliases (cls : list unit) : bool :=
  forallb (fun u => match ualiases u with [] => false | _ => true end) cls.

(* ---------- relative closeness (own helper; lib `close` is absolute below 1) ---------- *)
(* |a-b| <= tol*|b| : purely relative, so a factor of 1e-47 is checked to the same number of digits
   as a factor of 1e+10; b = 0 demands a = 0 exactly. *)
Definition rclose (tol a b : Qc) : bool := Qcleb (Qcabs (a - b)%Qc) (tol * Qcabs b)%Qc.
(* |a-b| <= tol*s for an explicit scale s (used where cancellation makes the result small) *)
Definition sclose (tol s a b : Qc) : bool := Qcleb (Qcabs (a - b)%Qc) (tol * s)%Qc.

(* ---------- the declared factor of every unit (spec side of factors_match_constants) ---------- *)
Fixpoint lookupc (k : string) (l : list (string * Qc)) : option Qc :=
  match l with [] => None | (k', v) :: r => if String.eqb k k' then Some v else lookupc k r end.

Definition prodq (l : list Qc) : Qc := fold_left Qcmult l (Q2Qc 1).
Definition decl_value (d : decl) : option Qc :=
  match d with
  | DBase => Some (Q2Qc 1)
  | DConst c => lookupc c constants
  | DLit q => Some q
  | DComposite tops pers => Some (prodq (map utimes tops) / prodq (map utimes pers))%Qc
  | DExpr => None
  end.
Definition rel_tol : Qc := qc 1 1000000000000.   (* 1e-12 RELATIVE: float rounding of composite products *)
(* consistency of a unit with the way units.py declares it (constant / literal / composite product).
   For DConst/DLit both sides are folded by the translator from the same expression: the content is
   in the DComposite rows and in the runtime comparison `check_class` (generated = runtime objects). *)
Definition factor_ok (e : unit * decl * decl) : bool :=
  let '(u, dt, da) := e in
  match decl_value dt, decl_value da with
  | Some t, Some a => rclose rel_tol (utimes u) t && Qceqb (uadd u) a
  | _, _ => false
  end.

(* ---------- independent reference, derived from what each unit's NAME means ----------
   Every value class has a base unit (factor 1): Ha, Å, amu, rad, cm^-1, mb, kelvin and products of
   those.  A unit's factor is "how many of this unit make one base unit".  The reference below is
   NOT read off units.py: it lists, per unit name, the physical dimension the name states
   (energy unit, length unit ^ power, mass unit ^ power) and derives the factor from the primitive
   factors, which are the constants the package declares (constants.py):
       1 Ha = ha_to_eV eV = ha_to_kJmol kJ/mol = ha_to_kcalmol kcal/mol = ha_to_kJmol*1000/n_a J
       1 Å  = 1/a0_to_ang bohr = 0.1 nm = 100 pm = 1e-10 m
       1 amu = amu_to_kg kg = amu_to_me m_e                                                   *)
Definition cst (k : string) : Qc := match lookupc k constants with Some v => v | None => Q2Qc 0 end.
Definition pi_q : Qc := qc 314159265358979323846 100000000000000000000.   (* pi to 1e-20 *)
Definition f_energy (n : string) : option Qc :=
  if String.eqb n "Ha" then Some (Q2Qc 1)
  else if String.eqb n "eV" then Some (cst "ha_to_eV")
  else if String.eqb n "kJ mol-1" then Some (cst "ha_to_kJmol")
  else if String.eqb n "kcal mol-1" then Some (cst "ha_to_kcalmol")
  else if String.eqb n "J" then Some (cst "ha_to_kJmol" * qc 1000 1 / cst "n_a")%Qc
  else None.
Definition f_length (n : string) : option Qc :=
  if String.eqb n "Å" then Some (Q2Qc 1)
  else if String.eqb n "bohr" then Some (Q2Qc 1 / cst "a0_to_ang")%Qc
  else if String.eqb n "nm" then Some (qc 1 10)
  else if String.eqb n "pm" then Some (qc 100 1)
  else if String.eqb n "m" then Some (qc 1 10000000000)
  else None.
Definition f_mass (n : string) : option Qc :=
  if String.eqb n "amu" then Some (Q2Qc 1)
  else if String.eqb n "kg" then Some (cst "amu_to_kg")
  else if String.eqb n "m_e" then Some (cst "amu_to_me")
  else None.
Definition qpow (x : Qc) (k : Z) : Qc :=
  match k with
  | Z0 => Q2Qc 1
  | Zpos p => Qcpower x (Pos.to_nat p)
  | Zneg p => (/ Qcpower x (Pos.to_nat p))%Qc
  end.
(* what the NAME of a unit says: energy unit (or none) x length^kl x mass^km, or a stand-alone
   (times, add) for the kinds that are not products of energy/length/mass *)
Inductive dim :=
| Dim (e : string) (l : string) (kl : Z) (m : string) (km : Z)   (* "" = absent *)
| Alone (t a : Qc).
Definition dim_of (name : string) : option dim :=
  let z := Q2Qc 0 in let one := Q2Qc 1 in
  let E n := Some (Dim n "" 0 "" 0) in let L n := Some (Dim "" n 1 "" 0) in let M n := Some (Dim "" "" 0 n 1) in
  if String.eqb name "Ha" then E "Ha" else if String.eqb name "eV" then E "eV"
  else if String.eqb name "kJ mol-1" then E "kJ mol-1" else if String.eqb name "kcal mol-1" then E "kcal mol-1"
  else if String.eqb name "J" then E "J"
  else if String.eqb name "Å" then L "Å" else if String.eqb name "bohr" then L "bohr"
  else if String.eqb name "nm" then L "nm" else if String.eqb name "pm" then L "pm" else if String.eqb name "m" then L "m"
  else if String.eqb name "amu" then M "amu" else if String.eqb name "kg" then M "kg" else if String.eqb name "m_e" then M "m_e"
  else if String.eqb name "amu Å^2" then Some (Dim "" "Å" 2 "amu" 1)
  else if String.eqb name "kg m^2" then Some (Dim "" "m" 2 "kg" 1)
  else if String.eqb name "Ha(Å)^-1" then Some (Dim "Ha" "Å" (-1) "" 0)
  else if String.eqb name "Ha(bohr)^-1" then Some (Dim "Ha" "bohr" (-1) "" 0)
  else if String.eqb name "eV(Å)^-1" then Some (Dim "eV" "Å" (-1) "" 0)
  else if String.eqb name "kcal mol-1(Å)^-1" then Some (Dim "kcal mol-1" "Å" (-1) "" 0)
  else if String.eqb name "Ha Å^-2" then Some (Dim "Ha" "Å" (-2) "" 0)
  else if String.eqb name "Ha a0^-2" then Some (Dim "Ha" "bohr" (-2) "" 0)
  else if String.eqb name "J ang^-2" then Some (Dim "J" "Å" (-2) "" 0)
  else if String.eqb name "J m^-2" then Some (Dim "J" "m" (-2) "" 0)
  else if String.eqb name "J m^-2 kg^-1" then Some (Dim "J" "m" (-2) "kg" (-1))
  else if String.eqb name "J ang^-2 kg^-1" then Some (Dim "J" "Å" (-2) "kg" (-1))
  (* kinds with a single non-base unit or no physical constant involved *)
  else if String.eqb name "Å amu^1/2" then Some (Alone one z)
  else if String.eqb name "rad" then Some (Alone one z)
  else if String.eqb name "°" then Some (Alone (qc 180 1 / pi_q)%Qc z)          (* 180/pi degrees per radian *)
  else if String.eqb name "cm^-1" then Some (Alone one z)
  else if String.eqb name "s^-1" then Some (Alone (qc 29979245800 1) z)          (* c in cm/s (exact SI) *)
  else if String.eqb name "mb" then Some (Alone one z)
  else if String.eqb name "byte" then Some (Alone (qc 1000000 1) z)
  else if String.eqb name "gb" then Some (Alone (qc 1 1000) z)
  else if String.eqb name "tb" then Some (Alone (qc 1 1000000) z)
  else if String.eqb name "kelvin" then Some (Alone one z)
  else if String.eqb name "celsius" then Some (Alone one (qc 27315 100))          (* K = C + 273.15 *)
  else None.
Definition opt_or_one (f : string -> option Qc) (n : string) : option Qc :=
  if String.eqb n "" then Some (Q2Qc 1) else f n.
Definition expected_factor (name : string) : option (Qc * Qc) :=   (* (times, add) *)
  match dim_of name with
  | Some (Alone t a) => Some (t, a)
  | Some (Dim e l kl m km) =>
      match opt_or_one f_energy e, opt_or_one f_length l, opt_or_one f_mass m with
      | Some fe, Some fl, Some fm => Some (fe * qpow fl kl * qpow fm km, Q2Qc 0)%Qc
      | _, _, _ => None
      end
  | None => None
  end.
Definition ref_tol : Qc := qc 1 1000000000000.   (* 1e-12 RELATIVE: float rounding of a few products/quotients *)
Definition matches_reference (u : unit) : bool :=
  match expected_factor (uname u) with
  | Some (t, a) => rclose ref_tol (utimes u) t && rclose ref_tol (uadd u) a
  | None => false
  end.
(* the one unit whose NAME and factor disagree on the unchanged tree (finding
   `factor:J m^-2 kg^-1|has-factor-of-J-ang^-2-kg^-1`, units.py:262): kept out of the universally
   quantified theorem and characterised exactly by `misnamed_ok` *)
Definition misnamed (name : string) : bool := String.eqb name "J m^-2 kg^-1".
Definition misnamed_ok (u : unit) : bool :=   (* right, or exactly the factor of J ang^-2 kg^-1 *)
  matches_reference u ||
  match expected_factor "J ang^-2 kg^-1" with Some (t, _) => rclose ref_tol (utimes u) t && Qceqb (uadd u) (Q2Qc 0) | None => false end.

(* the redundant constants of constants.py agree with each other (the table is read from /repo) *)
Definition consts_consistent : bool :=
  let one := Q2Qc 1 in
  rclose rel_tol (cst "ha_to_J") (cst "ha_to_kJmol" * qc 1000 1 / cst "n_a")%Qc &&
  rclose rel_tol (cst "J_to_ha" * cst "ha_to_J")%Qc one &&
  rclose rel_tol (cst "ha_to_eV" * cst "eV_to_ha")%Qc one &&
  rclose rel_tol (cst "ang_to_a0" * cst "a0_to_ang")%Qc one &&
  rclose rel_tol (cst "a0_to_m") (cst "a0_to_ang" * cst "ang_to_m")%Qc &&
  rclose rel_tol (cst "ang_to_nm") (qc 1 10) && rclose rel_tol (cst "ang_to_pm") (qc 100 1) &&
  rclose rel_tol (cst "ang_to_m") (qc 1 10000000000) &&
  rclose rel_tol (cst "rad_to_deg") (qc 180 1 / pi_q)%Qc &&
  rclose rel_tol (cst "per_cm_to_hz") (qc 29979245800 1) &&
  (* kcal_to_kJ = 4.184 against the ratio of two constants quoted to six figures: 2e-6 *)
  rclose (qc 2 1000000) (cst "ha_to_kJmol" / cst "ha_to_kcalmol")%Qc (cst "kcal_to_kJ").

(* ---------- decidable equality of units; the flat list of all declared units ---------- *)
Fixpoint list_eqb' {A} (eqb : A -> A -> bool) (a b : list A) : bool :=
  match a, b with
  | [], [] => true
  | x :: a', y :: b' => eqb x y && list_eqb' eqb a' b'
  | _, _ => false
  end.
Definition ueqb (u v : unit) : bool :=
  String.eqb (uname u) (uname v) && list_eqb' String.eqb (ualiases u) (ualiases v) &&
  Qceqb (utimes u) (utimes v) && Qceqb (uadd u) (uadd v).
Definition all_units : list unit := map (fun e => fst (fst e)) declared.
Definition mem_unit (u : unit) (l : list unit) : bool := existsb (ueqb u) l.

(* ---------- arrays with explicit object state: ValueArray.to / to_ / __eq__ ---------- *)
Record arr := mkArr { axs : list Qc; aunit : unit }.
Inductive aret :=
| RSame            (* the very same object is returned (values.py:45-46: `return value`) *)
| RNew (r : arr)   (* a fresh array *)
| RNone            (* to_ returns None *)
| RErr.            (* TypeError *)
(* ValueArray.to(name): (the source object afterwards, what is returned) *)
Definition arr_to (cls : list unit) (s : arr) (name : string) : arr * aret :=
  if has_alias name (aunit s) then (s, RSame)
  else match find_unit cls name with
       | Some v => (s, RNew (mkArr (map (fun x => conv x (aunit s) v) (axs s)) v))
       | None => (s, RErr)
       end.
(* ValueArray.to_(name): converts the object itself *)
Definition arr_to_ (cls : list unit) (s : arr) (name : string) : arr * aret :=
  if has_alias name (aunit s) then (s, RNone)
  else match find_unit cls name with
       | Some v => (mkArr (map (fun x => conv x (aunit s) v) (axs s)) v, RNone)
       | None => (s, RErr)
       end.
(* the array one holds after  b = a.to(name)  (b is a itself in the same-unit case) *)
Definition arr_result (s : arr) (r : aret) : option arr :=
  match r with RSame => Some s | RNew b => Some b | RNone => None | RErr => None end.

(* ValueArray.__eq__ (values.py:621-636): other.to(self.units), same shape, np.allclose with
   atol = rtol = 1e-64 *)
Definition tiny : Qc := Q2Qc (1 # (10 ^ 64)).
Fixpoint all_close (a b : list Qc) : bool :=
  match a, b with
  | [], [] => true
  | x :: a', y :: b' => Qcleb (Qcabs (x - y)%Qc) (tiny + tiny * Qcabs y)%Qc && all_close a' b'
  | _, _ => false      (* different shape *)
  end.
Definition arr_eq (cls : list unit) (a b : arr) : option bool :=
  match arr_result b (snd (arr_to cls b (uquery (aunit a)))) with
  | Some b' => Some (all_close (axs a) (axs b'))
  | None => None
  end.
(* numpy arithmetic / ordering of two ValueArrays (no override in values.py): elementwise on the raw
   numbers, the result carries the LEFT operand's units (__array_finalize__) *)
Fixpoint zipq {B} (f : Qc -> Qc -> B) (a b : list Qc) : list B :=
  match a, b with x :: a', y :: b' => f x y :: zipq f a' b' | _, _ => [] end.
Definition arr_add (a b : arr) : arr := mkArr (zipq Qcplus (axs a) (axs b)) (aunit a).
Definition arr_sub (a b : arr) : arr := mkArr (zipq Qcminus (axs a) (axs b)) (aunit a).
Definition arr_lt (a b : arr) : list bool := zipq Qcltb (axs a) (axs b).
(* Value op ndarray (values.py:216-217, 246-247): `other + float(self)`, `float(self) - other` *)
Definition va_add (a : value) (b : arr) : arr := mkArr (map (fun y => (y + vx a)%Qc) (axs b)) (aunit b).
Definition va_sub (a : value) (b : arr) : arr := mkArr (map (fun y => (vx a - y)%Qc) (axs b)) (aunit b).

(* ---------- Energy.__eq__ (values.py:332-349) ---------- *)
Definition tol_ha : Qc := qc 159 10000000.   (* 0.0000159 *)
(* `sub` = isinstance(other, self.__class__) *)
Definition e_eq (cls : list unit) (sub : bool) (a b : value) : option bool :=
  if negb sub then Some false
  else match to_name cls b "ha", to_name cls a "ha" with
       | Some y, Some x => Some (Qcltb (Qcabs (vx y - vx x)%Qc) tol_ha)
       | _, _ => None
       end.

(* ---------- right operand of a proper SUBCLASS: CPython tries the reflected method first ----------
   Energy(x) < PotentialEnergy(y)  is evaluated as  PotentialEnergy.__gt__(y, x), i.e. x is converted
   into y's unit *)
Definition vs_lt (cls : list unit) (a b : value) : option bool := v_gt cls b a.
Definition vs_gt (cls : list unit) (a b : value) : option bool := v_lt cls b a.
(* float - Value: no __rsub__, float.__sub__ gives a bare float *)
Definition fv_sub (y : Qc) (a : value) : Qc := (y - vx a)%Qc.
