(* C06/Model.v — executable model of autode.values: unit lookup, conversion (the arithmetic of
   `_to` is GENERATED: gen/C06_Gen.conv), and the comparison / arithmetic dunders of `Value`
   including Python's reflected-operator dispatch (Value subclasses float and overrides
   __lt__/__gt__/__le__/__ge__/__eq__/__add__/__radd__/__sub__/__mul__/__rmul__).
   Definitions only; proofs are in Lemmas.v. *)
From Coq Require Import ZArith QArith Qcanon List String Bool.
From AV.lib Require Import QcInst.
From AV.C06 Require Import Base.
From AV.gen Require Import C06_Gen.
Import ListNotations.
Open Scope string_scope.

(* ---------- unit lookup:  next(u for u in implemented_units if name.lower() in u.aliases) ---------- *)
Definition has_alias (a : string) (u : unit) : bool := existsb (String.eqb a) (ualiases u).
Definition find_unit (cls : list unit) (a : string) : option unit := find (has_alias a) cls.

(* a quantity: a number and its unit *)
Record value := mkValue { vx : Qc; vu : unit }.

(* Value.to(name):  `value.units == units` (alias test on the CURRENT unit) returns the value itself,
   otherwise the class's implemented units are searched; no match -> TypeError (None). *)
Definition to_name (cls : list unit) (a : value) (name : string) : option value :=
  if has_alias name (vu a) then Some a
  else match find_unit cls name with
       | Some v => Some (mkValue (conv (vx a) (vu a) v) v)
       | None => None
       end.
(* Value.to(unit object): the query string is unit.name.lower() = head of its alias list *)
Definition uquery (u : unit) : string := hd ""%string (ualiases u).
Definition to_unit (cls : list unit) (a : value) (u : unit) : option value := to_name cls a (uquery u).

(* ValueArray.to / to_ : numpy elementwise in-place  *= ; +=  *)
Definition to_array (cls : list unit) (xs : list Qc) (u : unit) (name : string) : option (list Qc * unit) :=
  if has_alias name u then Some (xs, u)
  else match find_unit cls name with
       | Some v => Some (map (fun x => conv x u v) xs, v)
       | None => None
       end.

(* ---------- comparisons (other is a Value of the same class) ---------- *)
Definition other_in (cls : list unit) (a b : value) : option Qc :=
  option_map vx (to_unit cls b (vu a)).

Definition eq_tol : Qc := qc 1 100000000.   (* 1e-8, Value.__eq__ *)

Definition v_lt (cls : list unit) (a b : value) : option bool :=
  option_map (fun y => Qcltb (vx a) y) (other_in cls a b).
Definition v_gt (cls : list unit) (a b : value) : option bool :=
  option_map (fun y => Qcltb y (vx a)) (other_in cls a b).
Definition v_eq (cls : list unit) (a b : value) : option bool :=
  option_map (fun y => Qcltb (Qcabs (vx a - y)%Qc) eq_tol) (other_in cls a b).
Definition v_le (cls : list unit) (a b : value) : option bool :=
  match v_lt cls a b, v_eq cls a b with
  | Some l, Some e => Some (l || e) | _, _ => None end.
Definition v_ge (cls : list unit) (a b : value) : option bool :=
  match v_gt cls a b, v_eq cls a b with
  | Some l, Some e => Some (l || e) | _, _ => None end.

(* comparisons with a plain float y on the right:  a < y, a > y, ... *)
Definition vf_lt (a : value) (y : Qc) : bool := Qcltb (vx a) y.
Definition vf_gt (a : value) (y : Qc) : bool := Qcltb y (vx a).
Definition vf_eq (a : value) (y : Qc) : bool := Qcltb (Qcabs (vx a - y)%Qc) eq_tol.
Definition vf_le (a : value) (y : Qc) : bool := vf_lt a y || vf_eq a y.
Definition vf_ge (a : value) (y : Qc) : bool := vf_gt a y || vf_eq a y.
(* plain float on the LEFT: Python tries the reflected method of the subclass first:
   y < a  ->  a.__gt__(y);   y > a -> a.__lt__(y);  y <= a -> a.__ge__(y); y >= a -> a.__le__(y);
   y == a -> a.__eq__(y) *)
Definition fv_lt (y : Qc) (a : value) : bool := vf_gt a y.
Definition fv_gt (y : Qc) (a : value) : bool := vf_lt a y.
Definition fv_le (y : Qc) (a : value) : bool := vf_ge a y.
Definition fv_ge (y : Qc) (a : value) : bool := vf_le a y.
Definition fv_eq (y : Qc) (a : value) : bool := vf_eq a y.

(* ---------- arithmetic ---------- *)
Definition v_add (cls : list unit) (a b : value) : option value :=
  option_map (fun y => mkValue (vx a + y)%Qc (vu a)) (other_in cls a b).
Definition v_sub (cls : list unit) (a b : value) : option value :=
  option_map (fun y => mkValue (vx a - y)%Qc (vu a)) (other_in cls a b).
Definition vf_add (a : value) (y : Qc) : value := mkValue (vx a + y)%Qc (vu a).
Definition vf_sub (a : value) (y : Qc) : value := mkValue (vx a - y)%Qc (vu a).
Definition fv_add (y : Qc) (a : value) : value := vf_add a y.           (* __radd__ *)
Definition v_neg (a : value) : value := mkValue (- vx a)%Qc (vu a).
Definition vf_mul (a : value) (y : Qc) : value := mkValue (vx a * y)%Qc (vu a).
(* Value * Value returns a bare float in the left operand's unit *)
Definition v_mul (cls : list unit) (a b : value) : option Qc :=
  option_map (fun y => (vx a * y)%Qc) (other_in cls a b).

(* ---------- class well-formedness (decidable; swept over the generated table) ---------- *)
Definition Qceqb (a b : Qc) : bool := Qeq_bool (this a) (this b).
Definition all_same {A} (eqb : A -> A -> bool) (l : list A) : bool :=
  match l with [] => true | x :: r => forallb (eqb x) r end.
Definition times_nonzero (cls : list unit) : bool := forallb (fun u => negb (Qceqb (utimes u) (Q2Qc 0))) cls.
Definition times_positive (cls : list unit) : bool := forallb (fun u => Qcltb (Q2Qc 0) (utimes u)) cls.
(* every pair of units of a class differs only by a factor or only by a shift *)
Definition class_ok (cls : list unit) : bool :=
  times_positive cls && (all_same Qceqb (map uadd cls) || all_same Qceqb (map utimes cls)).

(* no alias belongs to two different units of one class *)
Fixpoint aliases_disjoint (cls : list unit) : bool :=
  match cls with
  | [] => true
  | u :: r => forallb (fun a => negb (existsb (has_alias a) r)) (ualiases u) && aliases_disjoint r
  end.
Definition nonempty_aliases (cls : list unit) : bool :=
  forallb (fun u => match ualiases u with [] => false | _ => true end) cls.

(* ---------- the declared factor of every unit (spec side of factors_match_constants) ---------- *)
Fixpoint lookupc (k : string) (l : list (string * Qc)) : option Qc :=
  match l with [] => None | (k', v) :: r => if String.eqb k k' then Some v else lookupc k r end.

Definition prodq (l : list Qc) : Qc := fold_left Qcmult l (Q2Qc 1).
Definition decl_value (d : decl) : option Qc :=
  match d with
  | DBase => Some (Q2Qc 1)
  | DConst c => lookupc c constants
  | DLit q => Some q
  | DComposite tops pers => Some (prodq (map utimes tops) / prodq (map utimes pers))%Qc
  | DExpr => None
  end.
Definition rel_tol : Qc := qc 1 1000000000000.   (* 1e-12: float rounding of composite products *)
Definition factor_ok (e : unit * decl * decl) : bool :=
  let '(u, dt, da) := e in
  match decl_value dt, decl_value da with
  | Some t, Some a => close rel_tol (utimes u) t && Qceqb (uadd u) a
  | _, _ => false
  end.

(* independent reference: what each unit's factor must be in terms of the package's declared
   constants (hand-written from the physical meaning of the unit; keyed by the unit's name). *)
Definition cst (k : string) : Qc := match lookupc k constants with Some v => v | None => Q2Qc 0 end.
Definition expected_factor (name : string) : option (Qc * Qc) :=   (* (times, add) *)
  let z := Q2Qc 0 in let one := Q2Qc 1 in
  if String.eqb name "Ha" then Some (one, z)
  else if String.eqb name "eV" then Some (one / cst "eV_to_ha", z)%Qc
  else if String.eqb name "kJ mol-1" then Some (cst "ha_to_kJmol", z)
  else if String.eqb name "kcal mol-1" then Some (cst "ha_to_kcalmol", z)
  else if String.eqb name "J" then Some (cst "ha_to_kJmol" * qc 1000 1 / cst "n_a", z)%Qc
  else if String.eqb name "rad" then Some (one, z)
  else if String.eqb name "°" then Some (cst "rad_to_deg", z)
  else if String.eqb name "Å" then Some (one, z)
  else if String.eqb name "bohr" then Some (one / cst "a0_to_ang", z)%Qc
  else if String.eqb name "nm" then Some (qc 1 10, z)
  else if String.eqb name "pm" then Some (qc 100 1, z)
  else if String.eqb name "m" then Some (qc 1 10000000000, z)
  else if String.eqb name "Å amu^1/2" then Some (one, z)
  else if String.eqb name "amu" then Some (one, z)
  else if String.eqb name "kg" then Some (cst "amu_to_kg", z)
  else if String.eqb name "m_e" then Some (cst "amu_to_me", z)
  else if String.eqb name "amu Å^2" then Some (one, z)
  else if String.eqb name "kg m^2" then Some (cst "amu_to_kg" * qc 1 10000000000 * qc 1 10000000000, z)%Qc
  else if String.eqb name "Ha(Å)^-1" then Some (one, z)
  else if String.eqb name "Ha(bohr)^-1" then Some (cst "a0_to_ang", z)
  else if String.eqb name "eV(Å)^-1" then Some (one / cst "eV_to_ha", z)%Qc
  else if String.eqb name "kcal mol-1(Å)^-1" then Some (cst "ha_to_kcalmol", z)
  else if String.eqb name "Ha Å^-2" then Some (one, z)
  else if String.eqb name "Ha a0^-2" then Some (cst "a0_to_ang" * cst "a0_to_ang", z)%Qc
  else if String.eqb name "J ang^-2" then Some (cst "ha_to_kJmol" * qc 1000 1 / cst "n_a", z)%Qc
  else if String.eqb name "J m^-2" then Some (cst "ha_to_kJmol" * qc 1000 1 / cst "n_a" * qc 100000000000000000000 1, z)%Qc
  else if String.eqb name "J m^-2 kg^-1" then Some (cst "ha_to_kJmol" * qc 1000 1 / cst "n_a" / cst "amu_to_kg", z)%Qc
  else if String.eqb name "cm^-1" then Some (one, z)
  else if String.eqb name "s^-1" then Some (qc 29979245800 1, z)
  else if String.eqb name "byte" then Some (qc 1000000 1, z)
  else if String.eqb name "mb" then Some (one, z)
  else if String.eqb name "gb" then Some (qc 1 1000, z)
  else if String.eqb name "tb" then Some (qc 1 1000000, z)
  else if String.eqb name "kelvin" then Some (one, z)
  else if String.eqb name "celsius" then Some (one, qc 27315 100)
  else None.
Definition ref_tol : Qc := qc 1 1000000000.   (* 1e-9 relative: float rounding of products/quotients *)
Definition matches_reference (u : unit) : bool :=
  match expected_factor (uname u) with
  | Some (t, a) => close ref_tol (utimes u) t && close ref_tol (uadd u) a
  | None => false
  end.
