(* C20/Props.v — the property theorems for OptimiserHistory (statements; each closed by lemmas of
   Lemmas.v).  They are about the model of Model.v for EVERY operation list (induction), every
   window size maxlen >= 1, every item / parameter type.

   Vocabulary (Model.v):
     exec fs0 ml ops   the (file, object) state after running `ops` on OptimiserHistory(maxlen=ml);
                       fs0 = what an earlier run left on disk under the trajectory's name (or None)
     spec ml ops       the abstract trajectory: pushed list, opened?, saved params, closed?
     pushed ml ops     the items of the `Add`s that were accepted (those before the closing `Close`)
     proper ops        one life of one object: no clean_up, no replacement by a reloaded object
     opened (spec ..)  open() succeeded, i.e. it was called before the (maxlen+1)-th add (a later
                       open is refused: `late_open_rejected`) *)
From Coq Require Import List ZArith Bool Arith Lia.
From AV.C20 Require Import Model Lemmas.
Import ListNotations.

Section Props.
Variable item : Type.
Variable par : Type.
Notation op := (op item par).
Notation world := (world item par).

(* the trajectory reports the number pushed *)
Theorem len_is_pushed :
  forall (fs0 : option (archive item par)) ml (ops : list op), 1 <= ml -> proper ops = true ->
  len (snd (exec fs0 ml ops)) = length (pushed ml ops) /\
  step (exec fs0 ml ops) Len = (exec fs0 ml ops, OLen (length (pushed ml ops))).
Proof.
  intros fs0 ml ops Hml Hp. pose proof (@exec_inv _ _ fs0 ml ops Hml Hp) as HI.
  pose proof (inv_len HI) as E. split; [exact E|].
  destruct (exec fs0 ml ops) as [fs h]. cbn in *. now rewrite E.
Qed.

(* the invariant: what is on disk followed by what is in memory is exactly what was pushed, each
   stored entry under its own index, and the memory window never exceeds maxlen *)
Theorem disk_then_memory_is_pushed :
  forall (fs0 : option (archive item par)) ml (ops : list op), 1 <= ml -> proper ops = true ->
  opened (spec ml ops) = true -> aclosed (spec ml ops) = false ->
  exists a D, fst (exec fs0 ml ops) = Some a /\ n_coords a = length D /\
              (forall i, get_coords i a = nth_error D i) /\
              D ++ mem (snd (exec fs0 ml ops)) = pushed ml ops /\
              length (mem (snd (exec fs0 ml ops))) <= ml.
Proof. intros. now apply disk_mem_split. Qed.

(* with a file, EVERY valid index (negative ones counting from the end) returns the pushed entry,
   whether still in memory or spilled to disk; before and after close; any other index is an
   IndexError *)
Theorem getitem_spec :
  forall (fs0 : option (archive item par)) ml (ops : list op), 1 <= ml -> proper ops = true -> opened (spec ml ops) = true ->
  let P := pushed ml ops in let w := exec fs0 ml ops in
  (forall i, i < length P -> exists x, nth_error P i = Some x /\ getitem w (Z.of_nat i) = Ok (Some x)) /\
  (forall k, k < length P -> getitem w (- Z.of_nat (S k)) = getitem w (Z.of_nat (length P - S k))) /\
  (forall z, (z < - Z.of_nat (length P) \/ Z.of_nat (length P) <= z)%Z -> getitem w z = Err EIndex).
Proof.
  intros fs0 ml ops Hml Hp Ho P w. pose proof (@exec_inv _ _ fs0 ml ops Hml Hp) as HI.
  split; [|split].
  - intros i Hi. destruct (@nth_error_in_range _ P i Hi) as [x Hx]. exists x. split; [exact Hx|].
    rewrite <- Hx. now apply (getitem_opened Hml HI).
  - intros k Hk. rewrite (getitem_neg Hml HI) by (fold (pushed ml ops); fold P; lia).
    f_equal. fold (pushed ml ops). fold P. lia.
  - intros z Hz. now apply (getitem_out_of_range Hml HI).
Qed.

(* without a file the last maxlen entries are returned and the earlier ones are reported lost
   (None), as the class documents *)
Theorem getitem_without_file :
  forall (fs0 : option (archive item par)) ml (ops : list op), 1 <= ml -> proper ops = true -> opened (spec ml ops) = false ->
  let P := pushed ml ops in let w := exec fs0 ml ops in
  forall i, i < length P ->
    (length P - ml <= i -> exists x, nth_error P i = Some x /\ getitem w (Z.of_nat i) = Ok (Some x)) /\
    (i < length P - ml -> getitem w (Z.of_nat i) = Ok None).
Proof.
  intros fs0 ml ops Hml Hp Ho P w i Hi. pose proof (@exec_inv _ _ fs0 ml ops Hml Hp) as HI.
  pose proof (getitem_nofile Hml HI Ho Hi) as E. fold (pushed ml ops) in E. fold P in E. fold w in E.
  split; intros H.
  - destruct (Nat.ltb_spec i (length P - ml)); [lia|].
    destruct (@nth_error_in_range _ P i Hi) as [x Hx]. exists x. now rewrite E, Hx.
  - destruct (Nat.ltb_spec i (length P - ml)); [exact E|lia].
Qed.

(* iteration yields the pushed entries in order, reversed iteration in reverse order *)
Theorem iter_in_order_and_reversed :
  forall (fs0 : option (archive item par)) ml (ops : list op), 1 <= ml -> proper ops = true -> opened (spec ml ops) = true ->
  step (exec fs0 ml ops) Iter = (exec fs0 ml ops, OSeq (map Some (pushed ml ops)) None) /\
  step (exec fs0 ml ops) Reversed = (exec fs0 ml ops, OSeq (map Some (rev (pushed ml ops))) None).
Proof.
  intros fs0 ml ops Hml Hp Ho. pose proof (@exec_inv _ _ fs0 ml ops Hml Hp) as HI.
  destruct (iter_opened Hml HI Ho) as [E1 E2]. pose proof (inv_len HI) as EL.
  destruct (exec fs0 ml ops) as [fs h]. cbn [step snd] in *. rewrite EL.
  fold (pushed ml ops) in E1, E2. unfold pushed in *. rewrite E1, E2. split; reflexivity.
Qed.

(* close (once or several times), then load: the reloaded trajectory has the same length, the same
   entry under every index, the same final and penultimate entries and the same optimiser
   parameters - also when nothing was pushed *)
Theorem close_load_roundtrip :
  forall (fs0 : option (archive item par)) ml (ops : list op), 1 <= ml -> proper ops = true ->
  opened (spec ml ops) = true -> aclosed (spec ml ops) = true ->
  let P := pushed ml ops in let w := exec fs0 ml ops in
  exists h', load_img (img_of (fst w)) = Ok h' /\
    let w' := (fst w, h') in
    len h' = length P /\
    contents w' = (map Some P, None) /\
    snd (step w' Final) = snd (step w Final) /\
    snd (step w Final) = (if 1 <=? length P then OItem (nth_error P (length P - 1)) else OErr EIndex) /\
    snd (step w' Penultimate) =
      (if 2 <=? length P then OItem (nth_error P (length P - 2)) else OErr EIndex) /\
    snd (step w' GetParams) = snd (step w GetParams) /\
    snd (step w GetParams) =
      match asaved (spec ml ops) with Some p => OParams p | None => OErr EFileNotFound end.
Proof.
  intros fs0 ml ops Hml Hp Ho Hc P w.
  pose proof (@exec_inv _ _ fs0 ml ops Hml Hp) as HI. fold w in HI.
  pose proof (inv_fs HI) as Hfs. unfold opened in Ho.
  destruct (aopen (spec ml ops)) as [L|] eqn:EL; [|discriminate].
  destruct Hfs as (a & Ea & Hd & HL).
  assert (ED : disk ml (spec ml ops) = P) by (unfold disk; rewrite Hc; reflexivity).
  rewrite ED in Hd. rewrite Ea. cbn [img_of]. rewrite (load_repr Hd).
  eexists. split; [reflexivity|]. cbn zeta. cbn [len].
  pose proof (loaded_inv Hd) as HI2.
  split; [reflexivity|]. split; [apply (loaded_contents Hd)|].
  rewrite (@final_out _ _ _ 2 _ _ (le_S _ _ (le_n 1)) HI2), (@final_out _ _ _ ml _ _ Hml HI).
  rewrite (@penultimate_out _ _ _ 2 _ _ (le_n 2) HI2), (params_out HI2), (params_out HI), EL.
  cbn [aP aopen asaved]. fold (pushed ml ops). fold P. repeat split; reflexivity.
Qed.

(* loading the file of a trajectory that holds nothing yet (opened, perhaps closed, nothing spilled)
   gives the empty trajectory, not an exception *)
Theorem load_of_empty_archive :
  forall (a : archive item par) sv, disk_repr a [] sv ->
  load_img (IZip a) = Ok (mkHist 2 [] 0 true true).
Proof. intros a sv H. now rewrite (load_repr H). Qed.

(* misuse is rejected with the documented error and changes nothing: in ANY state *)
Theorem misuse_rejected :
  forall (w : world),
  (closed (snd w) = true -> forall x, step w (Add x) = (w, OErr ERuntime)) /\
  (fname (snd w) = true -> step w Open = (w, OErr ERuntime)) /\
  (length (mem (snd w)) < len (snd w) -> step w Open = (w, OErr ERuntime)) /\
  (fname (snd w) = true -> forall a p, fst w = Some a -> has_params a = true ->
       step w (SaveParams p) = (w, OErr EFileExists)) /\
  (fname (snd w) = false -> forall p, step w (SaveParams p) = (w, OErr ERuntime) /\
       step w GetParams = (w, OErr ERuntime) /\ step w Close = (w, OErr ERuntime)) /\
  (fname (snd w) = true -> closed (snd w) = true -> step w Close = (w, ODone)) /\
  (forall k, step w (LoadForeign k) =
       (w, OErr match k with FMissing => EFileNotFound | _ => EValue end)) /\
  (forall a : archive item par, has_header a = false -> load_img (IZip a) = Err EValue) /\
  load_img (@IGarbage item par) = Err EValue /\ load_img (@INone item par) = Err EFileNotFound.
Proof.
  intros [fs h]. cbn [fst snd]. repeat split.
  - intros H x. cbn. now rewrite H.
  - intros H. cbn. now rewrite H.
  - intros H. cbn [step]. apply Nat.ltb_lt in H. rewrite H. now destruct (fname h).
  - intros H a p -> Hp. cbn. now rewrite H, Hp.
  - cbn. now rewrite H.
  - cbn. now rewrite H.
  - cbn. now rewrite H.
  - intros H1 H2. cbn. now rewrite H1, H2.
  - intros k. destruct k; reflexivity.
  - intros a H. cbn. now rewrite H.
Qed.

(* ... and along every proper life: once closed every add is refused; once opened a second open is
   refused; once more than maxlen entries were pushed without a file, open is refused (the entries
   that left the memory window could not be stored under their index any more); once parameters are
   stored a second store is refused; a second close changes nothing *)
Theorem misuse_rejected_in_sequence :
  forall (fs0 : option (archive item par)) ml (ops : list op), 1 <= ml -> proper ops = true ->
  let w := exec fs0 ml ops in
  (aclosed (spec ml ops) = true -> forall x, step w (Add x) = (w, OErr ERuntime)) /\
  (opened (spec ml ops) = true -> step w Open = (w, OErr ERuntime)) /\
  (ml < length (pushed ml ops) -> step w Open = (w, OErr ERuntime)) /\
  (opened (spec ml ops) = true -> asaved (spec ml ops) <> None ->
      forall p, step w (SaveParams p) = (w, OErr EFileExists)) /\
  (aclosed (spec ml ops) = true -> step w Close = (w, ODone)).
Proof.
  intros fs0 ml ops Hml Hp w. pose proof (@exec_inv _ _ fs0 ml ops Hml Hp) as HI. fold w in HI.
  pose proof (inv_closed HI) as Ec. pose proof (inv_fname HI) as Ef. pose proof (inv_fs HI) as Hfs.
  pose proof (inv_len HI) as El. pose proof (inv_mem HI) as Em.
  destruct (misuse_rejected w) as (M1 & M2 & M2' & M3 & _ & M5 & _).
  split; [|split; [|split; [|split]]].
  - intros H. apply M1. now rewrite Ec.
  - intros H. apply M2. now rewrite Ef.
  - intros H. apply M2'. rewrite El, Em, skipn_length. unfold pushed in H. lia.
  - intros H Hs p. assert (Hf : fname (snd w) = true) by (now rewrite Ef).
    unfold opened in H. destruct (aopen (spec ml ops)) eqn:EL; [|discriminate].
    destruct Hfs as (a & Ea & (_ & _ & _ & Hg) & _).
    apply (M3 Hf a p Ea). rewrite has_params_get, Hg.
    destruct (asaved (spec ml ops)); [reflexivity|contradiction].
  - intros H. apply M5; [|now rewrite Ec].
    rewrite Ef. unfold opened. destruct (aopen (spec ml ops)); [reflexivity|].
    destruct Hfs as (_ & Hc & _). congruence.
Qed.

(* the file is only ever opened before the (maxlen+1)-th add *)
Theorem opened_means_nothing_was_lost :
  forall (fs0 : option (archive item par)) ml (ops : list op), 1 <= ml -> proper ops = true ->
  forall L, aopen (spec ml ops) = Some L -> L <= ml /\ L <= length (pushed ml ops).
Proof.
  intros fs0 ml ops Hml Hp L EL. pose proof (@exec_inv _ _ fs0 ml ops Hml Hp) as HI.
  pose proof (inv_fs HI) as Hfs. rewrite EL in Hfs. destruct Hfs as (a & _ & _ & H1 & H2).
  split; assumption.
Qed.

(* an operation that raises leaves object and file exactly as they were: in ANY state, for every
   operation (also after clean_up, also on a reloaded object) *)
Theorem raising_operation_changes_nothing :
  forall (w : world) (o : op) e, snd (step w o) = OErr e -> fst (step w o) = w.
Proof.
  intros [fs h] o e. destruct o; cbn [step];
    repeat match goal with
           | |- context [if ?c then _ else _] => destruct c
           | |- context [match fs with _ => _ end] => destruct fs
           | |- context [match mem h with _ => _ end] => destruct (mem h)
           | |- context [match get_params ?a with _ => _ end] => destruct (get_params a)
           | |- context [match load_img ?b with _ => _ end] => destruct (load_img b)
           | |- context [match mem_neg ?a ?b with _ => _ end] => destruct (mem_neg a b)
           | |- context [match getitem ?a ?b with _ => _ end] => destruct (getitem a b)
           end; cbn [fst snd of_res of_seq]; intros H; try discriminate H; reflexivity.
Qed.

(* len is the number of adds that returned without raising - for EVERY operation sequence on one
   object (clean_up included; only the replacement of the object by load() is excluded) *)
Theorem len_counts_accepted_adds :
  forall (fs0 : option (archive item par)) ml (ops : list op), no_load ops = true ->
  len (snd (exec fs0 ml ops)) = accepted ops (snd (run (init fs0 ml) ops)).
Proof.
  intros fs0 ml ops. unfold exec.
  assert (G : forall (ops : list op) (w : world), no_load ops = true ->
              len (snd (fst (run w ops))) = len (snd w) + accepted ops (snd (run w ops))).
  { induction ops0 as [|o r IH]; intros w Hn; [cbn; lia|].
    cbn [no_load forallb] in Hn. apply andb_true_iff in Hn. destruct Hn as [Ho Hr].
    cbn [run]. destruct (step w o) as [w1 x] eqn:E. specialize (IH w1 Hr).
    destruct (run w1 r) as [w2 xs]. cbn [fst snd] in *. rewrite IH.
    assert (S1 : len (snd w1) = len (snd w) + match o, x with Add _, ODone => 1 | _, _ => 0 end).
    { destruct w as [fs h]. destruct o; cbn [step] in E; try discriminate Ho;
        repeat match type of E with
               | context [if ?c then _ else _] => destruct c
               | context [match fs with _ => _ end] => destruct fs
               | context [match mem h with _ => _ end] => destruct (mem h)
               | context [match get_params ?a with _ => _ end] => destruct (get_params a)
               | context [match load_img ?b with _ => _ end] => destruct (load_img b)
               end; inversion E; subst; cbn [snd len]; try lia;
        match goal with |- context [match ?y with _ => _ end] => destruct y end; lia. }
    rewrite S1. destruct o; cbn [accepted]; try lia. destruct x; lia. }
  intros Hn. rewrite (G ops (init fs0 ml) Hn). reflexivity.
Qed.

(* what one operation does to the archive AS MODELLED: nothing, delete it, create it with the
   header, or append members.  (That the appended
   members are written in one ZipFile session is how Model.step was written from the code, not
   something this statement can express; it is a case split over `step`.) *)
Theorem one_commit_per_operation :
  forall (w : world) (o : op),
  let fs' := fst (fst (step w o)) in
  fs' = fst w \/ fs' = None \/ fs' = Some [MHeader] \/
  (exists a l, fst w = Some a /\ fs' = Some (a ++ l)).
Proof.
  intros [fs h] o. cbn [fst].
  destruct o; cbn [step];
    repeat match goal with
           | |- context [if ?c then _ else _] => destruct c
           | |- context [match fs with _ => _ end] => destruct fs
           | |- context [match mem h with _ => _ end] => destruct (mem h)
           | |- context [match get_params ?a with _ => _ end] => destruct (get_params a)
           | |- context [match load_img ?b with _ => _ end] => destruct (load_img b)
           end; cbn [fst snd];
    first [ now left | now (right; left) | now (right; right; left)
          | (right; right; right; eexists; eexists; split; reflexivity) ].
Qed.

(* a previous archive under the same name is never read or modified before open(); once opened, the
   archive holds exactly this life's entries (each under its own index, each name once) and this
   life's parameters - nothing of the previous archive survives *)
Theorem previous_archive_is_replaced :
  forall (fs0 : option (archive item par)) ml (ops : list op), 1 <= ml -> proper ops = true ->
  (opened (spec ml ops) = false -> fst (exec fs0 ml ops) = fs0) /\
  (opened (spec ml ops) = true ->
     exists a D, fst (exec fs0 ml ops) = Some a /\ has_header a = true /\ n_coords a = length D /\
                 (forall i, get_coords i a = nth_error D i) /\ get_params a = asaved (spec ml ops) /\
                 prefix D (pushed ml ops)).
Proof.
  intros fs0 ml ops Hml Hp. split.
  - intros Ho. pose proof (@exec_inv _ _ fs0 ml ops Hml Hp) as HI. pose proof (inv_fs HI) as Hfs.
    unfold opened in Ho. destruct (aopen (spec ml ops)); [discriminate|]. now destruct Hfs.
  - intros Ho. destruct (@archive_of_this_life _ _ fs0 ml ops Hml Hp Ho) as (a & Ea & Hh & Hn & Hg & Hpp).
    exists a, (disk ml (spec ml ops)). repeat split; auto.
    unfold disk, pushed. destruct (aclosed (spec ml ops)); [apply prefix_refl|apply prefix_firstn].
Qed.

(* a life continued on the object returned by load() (any state between two commits of a proper
   life with a file): it holds the prefix D that was on disk, closed; whatever proper operations
   follow, length and every entry stay D's, add / open are refused, a second parameter store is
   refused when parameters were stored, close changes nothing, get_opt_params returns the stored
   parameters *)
Theorem life_after_reload :
  forall (fs0 : option (archive item par)) ml (ops1 ops2 : list op), 1 <= ml ->
  proper ops1 = true -> proper ops2 = true -> opened (spec ml ops1) = true ->
  let w1 := exec fs0 ml ops1 in
  exists h' D, load_img (img_of (fst w1)) = Ok h' /\ prefix D (pushed ml ops1) /\
    let w2 := fst (run (fst w1, h') ops2) in
    len (snd w2) = length D /\
    (forall i, i < length D -> getitem w2 (Z.of_nat i) = Ok (nth_error D i)) /\
    (forall x, step w2 (Add x) = (w2, OErr ERuntime)) /\
    step w2 Open = (w2, OErr ERuntime) /\
    step w2 Close = (w2, ODone) /\
    (asaved (spec ml ops1) <> None ->
       (forall p, step w2 (SaveParams p) = (w2, OErr EFileExists)) /\
       snd (step w2 GetParams) = snd (step w1 GetParams)).
Proof.
  intros fs0 ml ops1 ops2 Hml Hp1 Hp2 Ho w1.
  destruct (@archive_of_this_life _ _ fs0 ml ops1 Hml Hp1 Ho) as (a & Ea & Hd). fold w1 in Ea.
  pose proof (@exec_inv _ _ fs0 ml ops1 Hml Hp1) as HI1. fold w1 in HI1.
  rewrite Ea. cbn [img_of]. eexists. exists (disk ml (spec ml ops1)).
  split; [apply (load_repr Hd)|]. split.
  { unfold disk, pushed. destruct (aclosed (spec ml ops1)); [apply prefix_refl|apply prefix_firstn]. }
  pose proof (loaded_inv Hd) as HI0.
  pose proof (@run_inv _ _ None 2 ops2 _ _ (le_S _ _ (le_n 1)) HI0 Hp2) as HI2.
  set (A0 := mkA (disk ml (spec ml ops1)) (Some 0) (asaved (spec ml ops1)) true) in *.
  assert (Hne : aopen A0 <> None) by discriminate.
  destruct (@arun_closed _ _ 2 ops2 A0 eq_refl Hne) as (F1 & F2 & F3 & F4).
  cbv zeta. set (w2 := fst (run _ ops2)) in *.
  destruct (misuse_under_inv HI2) as (M1 & M2 & M3 & M4).
  assert (Hop : opened (arun 2 A0 ops2) = true) by (unfold opened; rewrite F3; reflexivity).
  split; [rewrite (inv_len HI2), F1; reflexivity|].
  split.
  { intros i Hi. change (nth_error (disk ml (spec ml ops1)) i) with (nth_error (aP A0) i). rewrite <- F1.
    apply (getitem_opened (le_S _ _ (le_n 1)) HI2 Hop). rewrite F1. exact Hi. }
  split; [exact (M1 F2)|]. split; [exact (M2 Hop)|]. split; [exact (M4 F2)|].
  intros Hs. split.
  - apply (M3 Hop). rewrite (F4 Hs). exact Hs.
  - rewrite (params_out HI2), F3, (F4 Hs), (params_out HI1). cbn [A0 asaved].
    unfold opened in Ho. destruct (aopen (spec ml ops1)); [reflexivity|discriminate].
Qed.

(* PARTIAL with respect to "stops at any point": the theorem covers a stop BETWEEN two operations of
   a proper life.  A stop INSIDE an operation is not modelled: that one ZipFile session is all-or-
   unreadable (the central directory is rewritten last) is an ASSUMPTION, probed on the real zipfile
   by harness/c20.py (images after every low-level write, torn and truncated copies) and not proved;
   under it the images are exactly the states between operations, IGarbage (-> ValueError, by
   definition of load_img, see misuse_rejected) or no file.  Before open() the disk is as the
   previous life left it (no file: FileNotFoundError).  After open() `load` returns a trajectory
   whose entries are a PREFIX of what was pushed, with the stored parameters - never reordered,
   duplicated or foreign entries; if the trajectory had been closed the prefix is everything. *)
Theorem crash_prefix_partial :
  forall (fs0 : option (archive item par)) ml (ops1 ops2 : list op), 1 <= ml -> proper (ops1 ++ ops2) = true ->
  let w1 := exec fs0 ml ops1 in
  match aopen (spec ml ops1) with
  | None => fst w1 = fs0 /\ (fs0 = None -> load_img (img_of (fst w1)) = Err EFileNotFound)
  | Some _ =>
      exists h' D, load_img (img_of (fst w1)) = Ok h' /\
                   contents (fst w1, h') = (map Some D, None) /\ len h' = length D /\
                   prefix D (pushed ml (ops1 ++ ops2)) /\
                   (aclosed (spec ml ops1) = true -> D = pushed ml ops1) /\
                   snd (step (fst w1, h') GetParams) = snd (step w1 GetParams)
  end.
Proof.
  intros fs0 ml ops1 ops2 Hml Hp w1.
  pose proof (@crash_load _ _ fs0 ml ops1 ops2 Hml Hp) as H. fold w1 in H. cbv zeta in H.
  destruct (aopen (spec ml ops1)); [exact H|].
  split; [exact H|]. intros ->. rewrite H. reflexivity.
Qed.

End Props.

(* ---------------------------------------------------------------------------------------------
   Regression examples: the three inputs on which /repo violated the property before commit
   24aa35f (late open mis-indexed, load of an archive without coordinates raised KeyError, a second
   close duplicated entries), evaluated on the model of the repaired code.  harness/c20.py replays
   them on the real class on every run. *)
Example late_open_is_now_rejected :
  let ops : list (op nat nat) := [Add 0; Add 1; Add 2; Open; Add 3; GetItem 0; Iter] in
  snd (run (init None 2) ops) =
    [ODone; ODone; ODone; OErr ERuntime; ODone; OItem None; OSeq [None; None; Some 2; Some 3] None] /\
  fst (exec None 2 ops) = None.
Proof. repeat split. Qed.

Example load_of_empty_trajectory_is_empty :
  load_img (img_of (fst (exec None 2 [@Open nat nat; Close]))) = Ok (mkHist 2 [] 0 true true) /\
  load_img (img_of (fst (exec None 2 [@Open nat nat; SaveParams 7; Add 0; Add 1]))) = Ok (mkHist 2 [] 0 true true).
Proof. repeat split. Qed.

Example second_close_changes_nothing :
  let ops : list (op nat nat) := [Open; Add 0; Add 1; Add 2; Close; Close] in
  fst (exec None 2 ops) = Some [MHeader; MCoords 0 0; MCoords 1 1; MCoords 2 2] /\
  exists h', load_img (img_of (fst (exec None 2 ops))) = Ok h' /\ len h' = 3 /\
             contents (fst (exec None 2 ops), h') = (map Some [0; 1; 2], None).
Proof. split; [reflexivity|]. eexists. repeat split. Qed.

(* an archive left by an earlier run under the same name is replaced by open() *)
Example stale_archive_is_replaced :
  let stale := Some [@MHeader nat nat; MParams 60; MCoords 0 50; MCoords 1 51; MCoords 2 52] in
  fst (exec stale 2 [Add 0]) = stale /\
  fst (exec stale 2 [Add 0; Open; Add 1; Add 2; Close]) = Some [MHeader; MCoords 0 0; MCoords 1 1; MCoords 2 2].
Proof. split; reflexivity. Qed.

(* Regression examples for the two defects repaired by /repo commits 18d0995 / 975c2b4 (a life in
   which clean_up() removed the file under the live object): the add that cannot spill raises and
   is not counted; save_opt_params does not recreate the file, so no index can return another
   entry.  harness/c20.py replays both on the real class on every run. *)
Example failed_spill_is_not_counted :
  let ops : list (op nat nat) := [Open; Add 0; CleanUp; Add 1] in
  snd (run (init None 1) ops) = [ODone; ODone; ODone; OErr EFileNotFound] /\
  len (snd (exec None 1 ops)) = 1 /\ getitem (exec None 1 ops) 0 = Ok (Some 0) /\
  getitem (exec None 1 ops) 1 = Err EIndex.
Proof. repeat split. Qed.

Example removed_file_is_not_recreated :
  let ops : list (op nat nat) := [Open; Add 0; Add 1; CleanUp; SaveParams 0; Add 2] in
  snd (run (init None 1) ops) = [ODone; ODone; ODone; ODone; OErr EFileNotFound; OErr EFileNotFound] /\
  fst (exec None 1 ops) = None /\ len (snd (exec None 1 ops)) = 2 /\
  getitem (exec None 1 ops) 1 = Ok (Some 1) /\ getitem (exec None 1 ops) 0 = Err EFileNotFound.
Proof. repeat split. Qed.

(* FALSE as an unconditional statement, TRUE as documented by the class ("otherwise old coordinates
   more than the maximum number are lost"): without a file an entry that left the memory window is
   answered with None, not with the pushed entry (getitem_without_file).  The retrieval theorems
   above therefore carry the premise `opened`. *)
Theorem every_index_without_file_refuted :
  exists (ops : list (op nat nat)),
    proper ops = true /\ pushed 1 ops = [0; 1] /\ getitem (exec None 1 ops) 0 = Ok None.
Proof. exists [Add 0; Add 1]. repeat split. Qed.

(* non-vacuity: a proper life that is opened, spills, is closed, and reloads *)
Example nonvacuous :
  let ops : list (op nat nat) := [Add 0; Open; SaveParams 9; Add 1; Add 2; Add 3; GetItem (-4); Iter; Close] in
  proper ops = true /\ opened (spec 2 ops) = true /\
  aclosed (spec 2 ops) = true /\ pushed 2 ops = [0; 1; 2; 3] /\
  snd (run (init None 2) ops) =
    [ODone; ODone; ODone; ODone; ODone; ODone; OItem (Some 0);
     OSeq [Some 0; Some 1; Some 2; Some 3] None; ODone] /\
  fst (exec None 2 ops) =
    Some [MHeader; MParams 9; MCoords 0 0; MCoords 1 1; MCoords 2 2; MCoords 3 3].
Proof. repeat split. Qed.
