(* C20/Corr.v — helpers used only by the correspondence check (harness/c20.py): the model at
   item := nat (the integer tag of a coordinate set), par := nat, short names for the operations,
   and an injective encoding of everything that can be observed of a state into one number, so
   that the harness can pass the implementation's observation as a single hexadecimal literal. *)
From Coq Require Import List ZArith NArith Bool Arith.
From AV.C20 Require Import Model.
Import ListNotations.

Definition W := world nat nat.
Definition opn := op nat nat.

(* operations as written by the harness *)
Definition oO : opn := Open.
Definition oA (x : nat) : opn := Add x.
Definition oP (p : nat) : opn := SaveParams p.
Definition oC : opn := Close.
Definition oL : opn := Load.
Definition oU : opn := CleanUp.

(* every code is < 128 (tags, parameters, lengths and member counts stay below 100 in the harness) *)
Definition ecode (e : err) : nat :=
  match e with
  | ERuntime => 1 | EIndex => 2 | EFileExists => 3 | EFileNotFound => 4
  | EValue => 5 | EKey => 6 | EType => 7
  end.
Definition icode (x : option nat) : nat := match x with Some t => 16 + t | None => 9 end.
Definition rcode (r : res (option nat)) : nat := match r with Ok x => icode x | Err e => ecode e end.
Definition bcode (b : bool) : nat := if b then 1 else 0.
Definition ocode (o : out nat nat) : list nat :=
  match o with
  | ODone => [10]
  | OErr e => [ecode e]
  | OLen n => [n]
  | OItem x => [icode x]
  | OSeq l e => length l :: map icode l ++ [match e with None => 10 | Some e => ecode e end]
  | OParams p => [16 + p]
  end.

(* indices -(n+1) .. n+1 *)
Definition zrange (n : nat) : list Z :=
  map (fun k => (Z.of_nat k - Z.of_nat (S n))%Z) (seq 0 (2 * n + 3)).

(* the object: private state, then every public observer *)
Definition obs_obj (w : W) : list nat :=
  let h := snd w in
  [maxlen h; len h; bcode (fname h); bcode (closed h); length (mem h)] ++ map (fun t => 16 + t) (mem h)
  ++ ocode (snd (step w Len))
  ++ map (fun z => rcode (getitem w z)) (zrange (len h))
  ++ ocode (snd (step w Iter)) ++ ocode (snd (step w Reversed))
  ++ ocode (snd (step w Final)) ++ ocode (snd (step w Penultimate))
  ++ ocode (snd (step w GetParams)).

(* the archive: member list in order *)
Definition mcode (m : member nat nat) : list nat :=
  match m with MHeader => [11] | MParams p => [12; 16 + p] | MCoords i x => [13; i; 16 + x] end.
Definition obs_fs (fs : option (archive nat nat)) : list nat :=
  match fs with None => [14] | Some a => 15 :: length a :: flat_map mcode a end.

(* a stop right now: what load() makes of the file as it is *)
Definition obs_load (w : W) : list nat :=
  match load_img (img_of (fst w)) with
  | Err e => [ecode e]
  | Ok h' => 10 :: obs_obj (fst w, h')
  end.
Definition obs_foreign (w : W) : list nat :=
  flat_map (fun k => ocode (snd (step w (LoadForeign k)))) [FMissing; FNotZip; FZipNoHeader].

Definition obs (w : W) : list nat :=
  obs_obj w ++ obs_fs (fst w) ++ obs_load w ++ obs_foreign w.

(* = fold (acc*128 + d) from 1, written with shifts (every d < 128) *)
Definition encode (l : list nat) : N :=
  fold_left (fun acc d => N.lor (N.shiftl acc 7) (N.of_nat d)) l 1%N.

(* the result of the last operation of `ops`, followed by everything observable afterwards *)
Fixpoint last_out (w : W) (ops : list opn) (o : list nat) : W * list nat :=
  match ops with
  | [] => (w, o)
  | x :: r => let (w1, y) := step w x in last_out w1 r (ocode y)
  end.
Definition node (fs0 : option (archive nat nat)) (ml : nat) (ops : list opn) : N :=
  let (w, o) := last_out (init fs0 ml) ops [0] in encode (o ++ obs w).

(* true = model and implementation agree at this node *)
(* fs0 = the archive an earlier life left under the same name (None: nothing) *)
Definition chk (fs0 : option (archive nat nat)) (ml : nat) (ops : list opn) (expected : N) : bool :=
  N.eqb (node fs0 ml ops) expected.

(* images of interrupted writes: load must refuse them *)
Definition chk_garbage : bool :=
  match load_img (@IGarbage nat nat) with Err EValue => true | _ => false end.

(* ---- whole subtrees: all continuations of `prefix` by up to `depth` operations, in DFS preorder,
   operations in the order O, A, P, C, L, U; the k-th Add of a path pushes tag k-1, the k-th
   SaveParams stores k-1 (the harness numbers them the same way) *)
Definition ops_at (na np : nat) : list opn := [oO; oA na; oP np; oC; oL; oU].
Definition bump (o : opn) (c : nat * nat) : nat * nat :=
  match o with
  | Add _ => (S (fst c), snd c)
  | SaveParams _ => (fst c, S (snd c))
  | _ => c
  end.
Fixpoint tree (depth : nat) (w : W) (o : list nat) (c : nat * nat) : list N :=
  encode (o ++ obs w) ::
  match depth with
  | 0 => []
  | S d => flat_map (fun x => let (w1, y) := step w x in tree d w1 (ocode y) (bump x c))
                    (ops_at (fst c) (snd c))
  end.
Definition counters (ops : list opn) : nat * nat := fold_left (fun c o => bump o c) ops (0, 0).
Fixpoint list_eqbN (a b : list N) : bool :=
  match a, b with
  | [], [] => true
  | x :: a', y :: b' => N.eqb x y && list_eqbN a' b'
  | _, _ => false
  end.
(* expected observations are given as indices into a table of distinct numbers *)
Definition chk_tree (fs0 : option (archive nat nat)) (ml : nat) (prefix : list opn) (depth : nat)
           (tbl : list N) (idxs : list nat) : bool :=
  let (w, o) := last_out (init fs0 ml) prefix [0] in
  list_eqbN (tree depth w o (counters prefix)) (map (fun i => nth i tbl 0%N) idxs).
