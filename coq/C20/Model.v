(* C20/Model.v — executable state-machine model of autode.opt.optimisers.base.OptimiserHistory
   (base.py:916-1218), written by following the code line by line.  Definitions only.

   The file system is part of the state: `fs : option archive` is the trajectory .zip (None = the
   file does not exist).  An archive is the LIST of its members in write order: python's zipfile
   never overwrites, so duplicates can occur; `namelist()` shows all of them and `open(name)` /
   `getinfo(name)` resolve to the LAST member of that name (NameToInfo dict).

   `item` = one coordinate set together with its energy, gradient and Hessian (what pickle stores),
   `par`  = the optimiser-parameter dict.  Both are abstract: nothing below inspects them.

   The model follows /repo after commits 24aa35f (open refuses once coordinates have been dropped from
   memory, a second close is a no-op, load reads nothing from an archive without coordinates), 18d0995
   (add counts an entry only once it is stored) and 975c2b4 (save_opt_params does not recreate a
   removed file). *)
From Coq Require Import List ZArith Bool Arith Lia.
Import ListNotations.
Set Implicit Arguments.
Set Maximal Implicit Insertion.

(* every exception class the code can raise on the modelled paths *)
Inductive err :=
| ERuntime        (* RuntimeError: documented misuse (open twice, add after close, no file) *)
| EIndex          (* IndexError: index out of range / memory empty *)
| EFileExists     (* FileExistsError: optimiser parameters already stored *)
| EFileNotFound   (* FileNotFoundError: no file / no parameters *)
| EValue          (* ValueError: not a zip file / not an autodE trajectory *)
| EKey            (* KeyError from zipfile: "There is no item named ... in the archive" *)
| EType.          (* TypeError: os.remove(None) *)

Inductive res (A : Type) := Ok (a : A) | Err (e : err).
Arguments Ok {A} a.
Arguments Err {A} e.

(* files that are not trajectories of ours, for `load` *)
Inductive foreign := FMissing | FNotZip | FZipNoHeader.

Section Model.
Variable item : Type.
Variable par : Type.

(* zip members: 'ade_opt_trj' (base.py:1012), 'opt_params' (1086), 'coords_<i>' (1135,1155) *)
Inductive member := MHeader | MParams (p : par) | MCoords (i : nat) (x : item).
Definition archive := list member.

(* what can be found on disk when a process has stopped *)
Inductive image := INone | IGarbage | IZip (a : archive).

(* OptimiserHistory.__init__ (base.py:924-929): _memory deque(maxlen), _maxlen, _len,
   _filename (only None / not None matters), _is_closed *)
Record hist := mkHist { maxlen : nat; mem : list item; len : nat; fname : bool; closed : bool }.
Definition world := (option archive * hist)%type.

(* a fresh object; fs0 = whatever is on disk under the trajectory's name when this life starts
   (None, or the archive an earlier run left behind: open() removes it, base.py:1003-1005) *)
Definition init (fs0 : option archive) (ml : nat) : world := (fs0, mkHist ml [] 0 false false).

(* ---------------------------------------------------------------- archive readers *)
Definition is_coords (m : member) : bool := match m with MCoords _ _ => true | _ => false end.
Definition is_header (m : member) : bool := match m with MHeader => true | _ => false end.
Definition is_params (m : member) : bool := match m with MParams _ => true | _ => false end.

(* _n_stored (base.py:964-975): number of NAMES 'coords_<i>' with i >= 0, duplicates included *)
Definition n_coords (a : archive) : nat := length (filter is_coords a).
Definition has_header (a : archive) : bool := existsb is_header a.   (* "ade_opt_trj" in names *)
Definition has_params (a : archive) : bool := existsb is_params a.   (* "opt_params" in names *)

(* file.open("coords_<i>"): the LAST member of that name; None = KeyError *)
Fixpoint get_coords (i : nat) (a : archive) : option item :=
  match a with
  | [] => None
  | m :: r => match get_coords i r with
              | Some x => Some x
              | None => match m with MCoords j x => if Nat.eqb j i then Some x else None | _ => None end
              end
  end.
Fixpoint get_params (a : archive) : option par :=
  match a with
  | [] => None
  | m :: r => match get_params r with
              | Some p => Some p
              | None => match m with MParams p => Some p | _ => None end
              end
  end.

(* ---------------------------------------------------------------- deque(maxlen) *)
(* deque.append on a bounded deque drops from the left *)
Definition push (ml : nat) (m : list item) (x : item) : list item :=
  let m' := m ++ [x] in skipn (length m' - ml) m'.

(* python  m[k]  for a NEGATIVE k: IndexError when |k| > len(m) *)
Definition mem_neg (m : list item) (k : Z) : res item :=
  let j := (Z.of_nat (length m) + k)%Z in
  if (j <? 0)%Z then Err EIndex
  else match nth_error m (Z.to_nat j) with Some x => Ok x | None => Err EIndex end.

(* the members close() appends: coords_idx, coords_(idx+1), ... (base.py:1152-1157) *)
Fixpoint cmem (idx : nat) (l : list item) : archive :=
  match l with [] => [] | x :: r => MCoords idx x :: cmem (S idx) r end.

(* ---------------------------------------------------------------- __getitem__ (base.py:1162-1204) *)
Definition getitem (w : world) (z : Z) : res (option item) :=
  let (fs, h) := w in
  let L := Z.of_nat (len h) in
  let i := if (z <? 0)%Z then (z + L)%Z else z in                         (* 1187-1188 *)
  if ((i <? 0) || (L <=? i))%Z then Err EIndex                            (* 1189-1190 *)
  else if (L - Z.of_nat (maxlen h) <=? i)%Z then                          (* 1193 *)
    match mem_neg (mem h) (i - L) with Ok x => Ok (Some x) | Err e => Err e end   (* 1194 *)
  else if negb (fname h) then Ok None                                     (* 1197-1198: lost *)
  else match fs with
       | None => Err EFileNotFound                                        (* ZipFile(...,"r") *)
       | Some a => match get_coords (Z.to_nat i) a with                   (* 1200-1202 *)
                   | Some x => Ok (Some x)
                   | None => Err EKey
                   end
       end.

(* __iter__ / __reversed__ (base.py:1206-1218): generators over self[i]; an exception ends them *)
Fixpoint collect (w : world) (idxs : list nat) : list (option item) * option err :=
  match idxs with
  | [] => ([], None)
  | i :: r => match getitem w (Z.of_nat i) with
              | Ok x => let (l, e) := collect w r in (x :: l, e)
              | Err e => ([], Some e)
              end
  end.

(* ---------------------------------------------------------------- load (base.py:1016-1059) *)
(* load_idxs = list(range(max(len - 2, 0), len))   (base.py:1050) *)
Definition load_idxs (n : nat) : list nat := seq (n - 2) (n - (n - 2)).
Fixpoint load_mem (a : archive) (idxs : list nat) (acc : list item) : res (list item) :=
  match idxs with
  | [] => Ok acc
  | i :: r => match get_coords i a with
              | Some x => load_mem a r (push 2 acc x)                     (* cls(): maxlen = 2 *)
              | None => Err EKey
              end
  end.
Definition load_img (img : image) : res hist :=
  match img with
  | INone => Err EFileNotFound                                            (* 1031-1032 *)
  | IGarbage => Err EValue                                                (* 1033-1036 *)
  | IZip a =>
      if negb (has_header a) then Err EValue                              (* 1039-1042 *)
      else let n := n_coords a in                                         (* 1047 *)
           match load_mem a (load_idxs n) [] with                         (* 1050-1054 *)
           | Err e => Err e
           | Ok m => Ok (mkHist 2 m n true true)                          (* 1022,1044,1048 *)
           end
  end.
Definition img_of (fs : option archive) : image :=
  match fs with None => INone | Some a => IZip a end.
Definition foreign_img (k : foreign) : image :=
  match k with FMissing => INone | FNotZip => IGarbage | FZipNoHeader => IZip [] end.

(* ---------------------------------------------------------------- operations *)
Inductive op :=
| Open | Add (x : item) | SaveParams (p : par) | GetParams | GetItem (z : Z) | Len | Iter | Reversed
| Final | Penultimate | Close | CleanUp
| Load                      (* replace the object by OptimiserHistory.load(<its file>) *)
| LoadForeign (k : foreign).

Inductive out :=
| ODone | OErr (e : err) | OLen (n : nat) | OItem (x : option item)
| OSeq (l : list (option item)) (e : option err) | OParams (p : par).

Definition of_res (r : res (option item)) : out := match r with Ok x => OItem x | Err e => OErr e end.
Definition of_seq (r : list (option item) * option err) : out := OSeq (fst r) (snd r).

Definition step (w : world) (o : op) : world * out :=
  let (fs, h) := w in
  match o with
  | Open =>                                                               (* base.py:981-1014 *)
      if fname h then (w, OErr ERuntime)                                  (* 989-990 *)
      else if length (mem h) <? len h then (w, OErr ERuntime)             (* 992-996: entries already dropped *)
      else ((Some [MHeader], mkHist (maxlen h) (mem h) (len h) true (closed h)), ODone)  (* 1003-1013: an existing file is removed, then "w" *)
  | Add x =>                                                              (* base.py:1112-1139 *)
      if closed h then (w, OErr ERuntime)                                 (* 1124-1125 *)
      else
        let l1 := S (len h) in                                            (* counted only once stored *)
        let m1 := push (maxlen h) (mem h) x in
        if (length (mem h) <? maxlen h) || negb (fname h) then            (* 1128-1131 *)
          ((fs, mkHist (maxlen h) m1 l1 (fname h) (closed h)), ODone)
        else match fs with
             | None => (w, OErr EFileNotFound)                           (* _n_stored: nothing counted yet *)
             | Some a =>
                 match mem h with
                 | [] => (w, OErr EIndex)   (* maxlen=0: OUTSIDE the model - the real code has by then opened an empty member coords_<n> *)
                 | x0 :: _ =>                                             (* 1133-1138 *)
                     ((Some (a ++ [MCoords (n_coords a) x0]), mkHist (maxlen h) m1 l1 (fname h) (closed h)), ODone)
                 end
             end
  | SaveParams p =>                                                       (* base.py:1063-1089 *)
      if negb (fname h) then (w, OErr ERuntime)                           (* 1072-1073 *)
      else match fs with
           | None => (w, OErr EFileNotFound)                              (* 1075-1076: the file was removed *)
           | Some a => if has_params a then (w, OErr EFileExists)         (* 1081-1085 *)
                       else ((Some (a ++ [MParams p]), h), ODone)         (* 1086-1087 *)
           end
  | GetParams =>                                                          (* base.py:1091-1110 *)
      if negb (fname h) then (w, OErr ERuntime)
      else match fs with
           | None => (w, OErr EFileNotFound)
           | Some a => match get_params a with
                       | Some p => (w, OParams p)
                       | None => (w, OErr EFileNotFound)                  (* 1105-1106 *)
                       end
           end
  | GetItem z => (w, of_res (getitem w z))
  | Len => (w, OLen (len h))                                              (* 977-979 *)
  | Iter => (w, of_seq (collect w (seq 0 (len h))))
  | Reversed => (w, of_seq (collect w (rev (seq 0 (len h)))))
  | Final =>                                                              (* 931-945 *)
      (w, match mem_neg (mem h) (-1) with Ok x => OItem (Some x) | Err e => OErr e end)
  | Penultimate =>                                                        (* 947-961 *)
      (w, match mem_neg (mem h) (-2) with Ok x => OItem (Some x) | Err e => OErr e end)
  | Close =>                                                              (* base.py:1141-1160 *)
      if negb (fname h) then (w, OErr ERuntime)                           (* 1146-1147 *)
      else if closed h then (w, ODone)                                    (* 1149-1150: already flushed *)
      else match fs with
           | None => (w, OErr EFileNotFound)                              (* 1152: _n_stored *)
           | Some a => ((Some (a ++ cmem (n_coords a) (mem h)),           (* 1153-1157: ONE ZipFile session *)
                         mkHist (maxlen h) (mem h) (len h) (fname h) true), ODone)   (* 1159 *)
           end
  | CleanUp =>                                                            (* base.py:1058-1061 *)
      if negb (fname h) then (w, OErr EType)
      else match fs with
           | None => (w, OErr EFileNotFound)
           | Some _ => ((None, h), ODone)
           end
  | Load => match load_img (img_of fs) with
            | Ok h' => ((fs, h'), ODone)
            | Err e => (w, OErr e)
            end
  | LoadForeign k => (w, match load_img (foreign_img k) with Ok _ => ODone | Err e => OErr e end)
  end.

Fixpoint run (w : world) (ops : list op) : world * list out :=
  match ops with
  | [] => (w, [])
  | o :: r => let (w1, x) := step w o in
              let (w2, xs) := run w1 r in (w2, x :: xs)
  end.
(* the adds that were accepted = returned without raising, read off the outputs of a run *)
Fixpoint accepted (ops : list op) (outs : list out) : nat :=
  match ops, outs with
  | Add _ :: r, ODone :: s => S (accepted r s)
  | _ :: r, _ :: s => accepted r s
  | _, _ => 0
  end.
Definition no_load (ops : list op) : bool :=
  forallb (fun o => match o with Load => false | _ => true end) ops.

Definition exec (fs0 : option archive) (ml : nat) (ops : list op) : world := fst (run (init fs0 ml) ops).

(* ---------------------------------------------------------------- the abstract specification *)
(* What a trajectory IS: the list of pushed items, whether/when it was opened (how many had been
   pushed by then), the stored parameters, and whether it has been closed. *)
Record astate := mkA { aP : list item; aopen : option nat; asaved : option par; aclosed : bool }.
Definition ainit : astate := mkA [] None None false.
Definition astep (ml : nat) (A : astate) (o : op) : astate :=
  match o with
  | Open => match aopen A with
            | Some _ => A
            | None => if length (aP A) <=? ml           (* nothing has been dropped from memory yet *)
                      then mkA (aP A) (Some (length (aP A))) (asaved A) (aclosed A)
                      else A
            end
  | Add x => if aclosed A then A else mkA (aP A ++ [x]) (aopen A) (asaved A) (aclosed A)
  | SaveParams p => match aopen A, asaved A with
                    | Some _, None => mkA (aP A) (aopen A) (Some p) (aclosed A)
                    | _, _ => A
                    end
  | Close => match aopen A with
             | Some _ => mkA (aP A) (aopen A) (asaved A) true
             | None => A
             end
  | _ => A
  end.
Definition arun (ml : nat) (A : astate) (ops : list op) : astate := fold_left (astep ml) ops A.
Definition spec (ml : nat) (ops : list op) : astate := arun ml ainit ops.
Definition pushed (ml : nat) (ops : list op) : list item := aP (spec ml ops).

(* one life of one object: no clean_up, no replacement of the object by a reloaded one *)
Definition op_ok (o : op) : bool :=
  match o with
  | CleanUp | Load => false
  | _ => true
  end.
Definition proper (ops : list op) : bool := forallb op_ok ops.

Definition opened (A : astate) : bool := match aopen A with Some _ => true | None => false end.

(* what the trajectory holds on disk, as a list, for the abstract state A: everything once closed,
   otherwise everything that has left the memory window *)
Definition disk (ml : nat) (A : astate) : list item :=
  if aclosed A then aP A else firstn (length (aP A) - ml) (aP A).

(* all entries of a loaded trajectory, read through its own __getitem__ *)
Definition contents (w : world) : list (option item) * option err := collect w (seq 0 (len (snd w))).

Fixpoint prefix (a b : list item) : Prop :=
  match a, b with
  | [], _ => True
  | x :: a', y :: b' => x = y /\ prefix a' b'
  | _ :: _, [] => False
  end.

End Model.

Arguments MHeader {item par}.
Arguments MParams {item par} p.
Arguments MCoords {item par} i x.
Arguments INone {item par}.
Arguments IGarbage {item par}.
Arguments IZip {item par} a.
Arguments Open {item par}.
Arguments Add {item par} x.
Arguments SaveParams {item par} p.
Arguments GetParams {item par}.
Arguments GetItem {item par} z.
Arguments Len {item par}.
Arguments Iter {item par}.
Arguments Reversed {item par}.
Arguments Final {item par}.
Arguments Penultimate {item par}.
Arguments Close {item par}.
Arguments CleanUp {item par}.
Arguments Load {item par}.
Arguments LoadForeign {item par} k.
Arguments ODone {item par}.
Arguments OErr {item par} e.
Arguments OLen {item par} n.
Arguments OItem {item par} x.
Arguments OSeq {item par} l e.
Arguments OParams {item par} p.
Arguments mkHist {item} maxlen mem len fname closed.
Arguments maxlen {item} h.
Arguments mem {item} h.
Arguments len {item} h.
Arguments fname {item} h.
Arguments closed {item} h.
Arguments mkA {item par} aP aopen asaved aclosed.
Arguments aP {item par} a.
Arguments aopen {item par} a.
Arguments asaved {item par} a.
Arguments aclosed {item par} a.
Arguments ainit {item par}.
Arguments init {item par} fs0 ml.
Arguments prefix {item} a b.
Arguments push {item} ml m x.
Arguments mem_neg {item} m k.
Arguments cmem {item par} idx l.
Arguments foreign_img {item par} k.
