(* C20/Lemmas.v — refinement of the OptimiserHistory model (Model.v) to its abstract specification
   (the list of pushed items): the invariant `Inv`, its preservation by every operation of a proper
   life, and what every observer returns under it. *)
From Coq Require Import List ZArith Bool Arith Lia.
From AV.C20 Require Import Model.
Import ListNotations.

Arguments disk : simpl never.
Arguments push : simpl never.
Set Implicit Arguments.

Section Lemmas.
Variable item : Type.
Variable par : Type.
Notation world := (world item par).
Notation archive := (archive item par).
Notation astate := (astate item par).
Notation op := (op item par).

(* ------------------------------------------------------------------ lists *)
Lemma nth_error_nil (A : Type) (k : nat) : nth_error (@nil A) k = None.
Proof. destruct k; reflexivity. Qed.

Lemma nth_error_skipn' (A : Type) (n : nat) : forall (l : list A) k,
  nth_error (skipn n l) k = nth_error l (n + k).
Proof.
  induction n as [|n IH]; intros l k; [reflexivity|].
  destruct l as [|x l]; [cbn; now rewrite nth_error_nil|]. cbn. apply IH.
Qed.

Lemma skipn_skipn' (A : Type) (b : nat) : forall a (l : list A),
  skipn a (skipn b l) = skipn (a + b) l.
Proof.
  induction b as [|b IH]; intros a l.
  - now rewrite Nat.add_0_r.
  - rewrite Nat.add_succ_r. destruct l as [|x l]; cbn; [now rewrite skipn_nil|]. apply IH.
Qed.

Lemma skipn_app_le (A : Type) (n : nat) : forall (l1 l2 : list A),
  n <= length l1 -> skipn n (l1 ++ l2) = skipn n l1 ++ l2.
Proof.
  induction n as [|n IH]; intros l1 l2 H; [reflexivity|].
  destruct l1 as [|x l1]; cbn in *; [lia|]. apply IH. lia.
Qed.

Lemma skipn_cons_nth (A : Type) (d : nat) : forall (l : list A) y,
  nth_error l d = Some y -> skipn d l = y :: skipn (S d) l.
Proof.
  induction d as [|d IH]; intros l y H; destruct l as [|x l]; cbn in *; try discriminate.
  - now inversion H.
  - now apply IH.
Qed.

Lemma firstn_succ_nth (A : Type) (d : nat) : forall (l : list A) y,
  nth_error l d = Some y -> firstn (S d) l = firstn d l ++ [y].
Proof.
  induction d as [|d IH]; intros l y H; destruct l as [|x l]; cbn in *; try discriminate.
  - now inversion H.
  - f_equal. now apply IH.
Qed.

Lemma nth_error_firstn' (A : Type) (d : nat) : forall (l : list A) i,
  i < d -> nth_error (firstn d l) i = nth_error l i.
Proof.
  induction d as [|d IH]; intros l i H; [lia|].
  destruct l as [|x l]; [reflexivity|]. destruct i as [|i]; [reflexivity|]. cbn. apply IH. lia.
Qed.

Lemma nth_error_in_range (A : Type) (l : list A) i : i < length l -> exists y, nth_error l i = Some y.
Proof.
  intros H. destruct (nth_error l i) as [y|] eqn:E; [now exists y|].
  apply nth_error_None in E. lia.
Qed.

Lemma map_nth_error_seq (A : Type) (l : list A) :
  map (nth_error l) (seq 0 (length l)) = map Some l.
Proof.
  induction l as [|x l IH]; [reflexivity|].
  cbn [length seq map]. cbn [nth_error]. f_equal.
  rewrite <- seq_shift, map_map. exact IH.
Qed.

Lemma push_skipn (ml : nat) (P : list item) (x : item) :
  push ml (skipn (length P - ml) P) x = skipn (length (P ++ [x]) - ml) (P ++ [x]).
Proof.
  unfold push. rewrite <- skipn_app_le by lia.
  rewrite skipn_length, skipn_skipn'. f_equal. rewrite !app_length. cbn. lia.
Qed.

Lemma prefix_refl (l : list item) : prefix l l.
Proof. induction l; cbn; auto. Qed.
Lemma prefix_app (l r : list item) : prefix l (l ++ r).
Proof. induction l; cbn; auto. Qed.
Lemma prefix_trans (a : list item) : forall b c, prefix a b -> prefix b c -> prefix a c.
Proof.
  induction a as [|x a IH]; intros b c H1 H2; [exact I|].
  destruct b as [|y b]; [contradiction|]. destruct c as [|z c]; [cbn in H2; contradiction|].
  cbn in *. destruct H1 as [-> H1], H2 as [-> H2]. split; [reflexivity|]. eapply IH; eauto.
Qed.
Lemma prefix_firstn (n : nat) (l : list item) : prefix (firstn n l) l.
Proof. rewrite <- (firstn_skipn n l) at 2. apply prefix_app. Qed.

(* ------------------------------------------------------------------ archives *)
Lemma n_coords_app (a b : archive) : n_coords (a ++ b) = n_coords a + n_coords b.
Proof. unfold n_coords. now rewrite filter_app, app_length. Qed.

Lemma get_coords_app i (a b : archive) :
  get_coords i (a ++ b) = match get_coords i b with Some x => Some x | None => get_coords i a end.
Proof.
  induction a as [|m a IH]; cbn.
  - now destruct (get_coords i b).
  - rewrite IH. destruct (get_coords i b); [reflexivity|]. reflexivity.
Qed.

Lemma get_params_app (a b : archive) :
  get_params (a ++ b) = match get_params b with Some x => Some x | None => get_params a end.
Proof.
  induction a as [|m a IH]; cbn.
  - now destruct (get_params b).
  - rewrite IH. destruct (get_params b); reflexivity.
Qed.

Lemma has_params_get (a : archive) :
  has_params a = match get_params a with Some _ => true | None => false end.
Proof.
  induction a as [|m a IH]; [reflexivity|].
  unfold has_params in *. cbn. rewrite IH.
  destruct (get_params a); destruct m; reflexivity.
Qed.

(* the archive holds exactly the list D as coords_0 .. coords_(|D|-1) (each name once), a header,
   and the parameters sv *)
Definition disk_repr (a : archive) (D : list item) (sv : option par) : Prop :=
  has_header a = true /\ n_coords a = length D /\
  (forall i, get_coords i a = nth_error D i) /\ get_params a = sv.

Lemma disk_repr_init : disk_repr [MHeader] [] None.
Proof. repeat split. intros i. cbn. now rewrite nth_error_nil. Qed.

Lemma disk_repr_coords a D sv x :
  disk_repr a D sv -> disk_repr (a ++ [MCoords (length D) x]) (D ++ [x]) sv.
Proof.
  intros (Hh & Hn & Hg & Hp). repeat split.
  - unfold has_header in *. rewrite existsb_app, Hh. reflexivity.
  - rewrite n_coords_app, app_length, Hn. reflexivity.
  - intros i. rewrite get_coords_app. cbn.
    destruct (Nat.eqb_spec (length D) i) as [<-|Hne].
    + rewrite nth_error_app2 by lia. now rewrite Nat.sub_diag.
    + rewrite Hg. destruct (Nat.lt_ge_cases i (length D)) as [Hlt|Hge].
      * now rewrite nth_error_app1.
      * assert (E1 : nth_error D i = None) by (apply nth_error_None; lia).
        assert (E2 : nth_error (D ++ [x]) i = None)
          by (apply nth_error_None; rewrite app_length; cbn; lia).
        now rewrite E1, E2.
  - rewrite get_params_app. cbn. exact Hp.
Qed.

Lemma disk_repr_cmem (m : list item) : forall a D sv,
  disk_repr a D sv -> disk_repr (a ++ cmem (length D) m) (D ++ m) sv.
Proof.
  induction m as [|x m IH]; intros a D sv H.
  - cbn. now rewrite !app_nil_r.
  - cbn [cmem].
    replace (a ++ MCoords (length D) x :: cmem (S (length D)) m)
      with ((a ++ [MCoords (length D) x]) ++ cmem (S (length D)) m)
      by (now rewrite <- app_assoc).
    replace (D ++ x :: m) with ((D ++ [x]) ++ m) by (now rewrite <- app_assoc).
    replace (S (length D)) with (length (D ++ [x])) by (rewrite app_length; cbn; lia).
    apply IH. now apply disk_repr_coords.
Qed.

Lemma disk_repr_params a D p :
  disk_repr a D None -> disk_repr (a ++ [MParams p]) D (Some p).
Proof.
  intros (Hh & Hn & Hg & Hp). repeat split.
  - unfold has_header in *. rewrite existsb_app, Hh. reflexivity.
  - rewrite n_coords_app, Hn. cbn. lia.
  - intros i. rewrite get_coords_app. cbn. apply Hg.
  - rewrite get_params_app. reflexivity.
Qed.

(* ------------------------------------------------------------------ the refinement invariant *)
Record Inv (fs0 : option archive) (ml : nat) (A : astate) (w : world) : Prop := mkInv {
  inv_ml : maxlen (snd w) = ml;
  inv_len : len (snd w) = length (aP A);
  inv_mem : mem (snd w) = skipn (length (aP A) - ml) (aP A);
  inv_closed : closed (snd w) = aclosed A;
  inv_fname : fname (snd w) = opened A;
  inv_fs : match aopen A with
           | None => fst w = fs0 /\ aclosed A = false /\ asaved A = None     (* previous archive untouched *)
           | Some L => exists a, fst w = Some a /\ disk_repr a (disk ml A) (asaved A) /\
                                 L <= length (aP A) /\ L <= ml
           end }.

Lemma inv_init fs0 ml : Inv fs0 ml ainit (init fs0 ml).
Proof. constructor; cbn; auto. Qed.

(* operations that only look *)
Definition observer (o : op) : bool :=
  match o with
  | GetParams | GetItem _ | Len | Iter | Reversed | Final | Penultimate | LoadForeign _ => true
  | _ => false
  end.

Lemma observer_keeps_state (w : world) o : observer o = true -> fst (step w o) = w.
Proof.
  destruct w as [fs h]. destruct o; cbn; try discriminate; intros _; try reflexivity.
  destruct (negb (fname h)); [reflexivity|]. destruct fs as [a|]; [|reflexivity].
  destruct (get_params a); reflexivity.
Qed.

Lemma observer_astep ml (A : astate) o : observer o = true -> astep ml A o = A.
Proof. destruct o; cbn; try discriminate; reflexivity. Qed.

Ltac sel := cbn [fst snd maxlen mem len fname closed aP aopen asaved aclosed opened negb orb andb].

Theorem step_inv fs0 ml A (w : world) o :
  1 <= ml -> Inv fs0 ml A w -> op_ok o = true -> Inv fs0 ml (astep ml A o) (fst (step w o)).
Proof.
  intros Hml HI Hok.
  destruct (observer o) eqn:Hobs.
  { rewrite observer_keeps_state, observer_astep by exact Hobs. exact HI. }
  destruct w as [fs h]. destruct h as [hml hmem hlen hfn hcl].
  destruct A as [P ao sv cl].
  destruct HI as [I1 I2 I3 I4 I5 I6]. cbn in I1, I2, I3, I4, I5, I6. subst hml hlen hmem hcl hfn.
  destruct o; cbn in Hobs; try discriminate; cbn in Hok; try discriminate.
  - (* Open *)
    cbn [step astep]; sel. destruct ao as [L|]; sel.
    + constructor; sel; auto.
    + destruct I6 as (-> & Hc & Hs). cbn in Hc, Hs. subst cl sv.
      rewrite skipn_length.
      destruct (Nat.ltb_spec (length P - (length P - ml)) (length P)) as [Hlt|Hge];
        destruct (Nat.leb_spec (length P) ml) as [Hle|Hgt]; try lia.
      * (* entries already dropped: refused *)
        constructor; sel; auto.
      * (* nothing dropped yet: the file is created *)
        constructor; sel; auto.
        exists [MHeader]. split; [reflexivity|]. split; [|cbn; lia].
        unfold disk. cbn [aP aclosed]. replace (length P - ml) with 0 by lia. apply disk_repr_init.
  - (* Add *)
    cbn [step astep]; sel. destruct cl; [constructor; sel; auto|].
    assert (Hlen' : S (length P) = length (P ++ [x])) by (rewrite app_length; cbn; lia).
    match goal with |- context [if ?c then _ else _] => destruct c eqn:Hb end.
    + (* stays in memory *)
      constructor; sel; auto.
      * apply push_skipn.
      * destruct ao as [L|]; [|exact I6].
        destruct I6 as (a & -> & Hd & HL & HLm). cbn in HL.
        rewrite orb_false_r in Hb. apply Nat.ltb_lt in Hb. rewrite skipn_length in Hb.
        assert (HP : length P < ml) by lia.
        exists a. split; [reflexivity|]. split; [|rewrite app_length; cbn; lia].
        unfold disk in *. cbn [aP aopen asaved aclosed] in *.
        replace (length (P ++ [x]) - ml) with 0 by (rewrite app_length; cbn; lia).
        replace (length P - ml) with 0 in Hd by lia. exact Hd.
    + (* spill the oldest entry *)
      apply orb_false_iff in Hb. destruct Hb as [Hfull Hf].
      destruct ao as [L|]; [|discriminate].
      destruct I6 as (a & -> & Hd & HL & HLm). cbn in HL.
      apply Nat.ltb_ge in Hfull. rewrite skipn_length in Hfull.
      assert (HP : ml <= length P) by lia.
      destruct (@nth_error_in_range _ P (length P - ml)) as [y Hy]; [lia|].
      rewrite (@skipn_cons_nth _ _ _ _ Hy).
      constructor; sel; auto.
      * rewrite <- (@skipn_cons_nth _ _ _ _ Hy). apply push_skipn.
      * eexists. split; [reflexivity|]. split; [|rewrite app_length; cbn; lia].
        pose proof Hd as (_ & Hn & _ & _). rewrite Hn.
        unfold disk in *. cbn [aP aopen asaved aclosed] in *.
        replace (length (P ++ [x]) - ml) with (S (length P - ml)) by (rewrite app_length; cbn; lia).
        rewrite firstn_app.
        replace (S (length P - ml) - length P) with 0 by lia. rewrite firstn_O, app_nil_r.
        rewrite (@firstn_succ_nth _ _ _ _ Hy).
        apply disk_repr_coords. exact Hd.
  - (* SaveParams *)
    cbn [step astep]; sel. destruct ao as [L|]; sel.
    + destruct I6 as (a & -> & Hd & HL). cbn in HL.
      pose proof Hd as (_ & _ & _ & Hp). rewrite has_params_get, Hp.
      destruct sv as [p0|]; sel.
      * constructor; sel; auto. exists a. auto.
      * constructor; sel; auto. eexists. split; [reflexivity|]. split; [|exact HL].
        apply disk_repr_params. exact Hd.
    + constructor; sel; auto.
  - (* Close *)
    cbn [step astep]; sel. destruct ao as [L|]; sel.
    + destruct I6 as (a & -> & Hd & HL). cbn in HL.
      destruct cl.
      * (* already closed: nothing happens *)
        constructor; sel; auto. exists a. auto.
      * constructor; sel; auto.
        eexists. split; [reflexivity|]. split; [|exact HL].
        pose proof Hd as (_ & Hn & _ & _). rewrite Hn.
        unfold disk in *. cbn [aP aopen asaved aclosed] in *.
        replace (disk_repr (a ++ cmem (length (firstn (length P - ml) P)) (skipn (length P - ml) P)) P sv)
          with (disk_repr (a ++ cmem (length (firstn (length P - ml) P)) (skipn (length P - ml) P))
                          (firstn (length P - ml) P ++ skipn (length P - ml) P) sv)
          by (now rewrite firstn_skipn).
        apply disk_repr_cmem. exact Hd.
    + constructor; sel; auto.
Qed.

Lemma arun_app ml (ops1 ops2 : list op) A :
  arun ml A (ops1 ++ ops2) = arun ml (arun ml A ops1) ops2.
Proof. unfold arun. apply fold_left_app. Qed.

Lemma run_inv fs0 ml : forall (ops : list op) A (w : world),
  1 <= ml -> Inv fs0 ml A w -> proper ops = true ->
  Inv fs0 ml (arun ml A ops) (fst (run w ops)).
Proof.
  induction ops as [|o r IH]; intros A w Hml HI Hp; cbn in *; [exact HI|].
  apply andb_true_iff in Hp. destruct Hp as [H1 H2].
  pose proof (@step_inv fs0 ml A w o Hml HI H1) as HI'.
  destruct (step w o) as [w1 x] eqn:E1. cbn in HI'.
  specialize (IH _ _ Hml HI' H2).
  destruct (run w1 r) as [w2 xs]. exact IH.
Qed.

Theorem exec_inv fs0 ml (ops : list op) :
  1 <= ml -> proper ops = true -> Inv fs0 ml (spec ml ops) (exec fs0 ml ops).
Proof. intros Hml Hp. apply run_inv; auto. apply inv_init. Qed.

Lemma proper_app (ops1 ops2 : list op) :
  proper (ops1 ++ ops2) = true -> proper ops1 = true /\ proper ops2 = true.
Proof. unfold proper. rewrite forallb_app. apply andb_true_iff. Qed.

(* the abstract machine only ever extends the pushed list *)
Lemma astep_prefix ml (A : astate) o : exists r, aP (astep ml A o) = aP A ++ r.
Proof.
  destruct o; cbn; try (exists []; now rewrite app_nil_r).
  - destruct (aopen A); [|destruct (length (aP A) <=? ml)]; exists []; now rewrite app_nil_r.
  - destruct (aclosed A); [exists []; now rewrite app_nil_r|exists [x]; reflexivity].
  - destruct (aopen A), (asaved A); exists []; now rewrite app_nil_r.
  - destruct (aopen A); exists []; now rewrite app_nil_r.
Qed.
Lemma arun_prefix ml (ops : list op) : forall A, exists r, aP (arun ml A ops) = aP A ++ r.
Proof.
  induction ops as [|o ops IH]; intros A; cbn; [exists []; now rewrite app_nil_r|].
  destruct (IH (astep ml A o)) as [r Hr]. destruct (astep_prefix ml A o) as [r0 Hr0].
  exists (r0 ++ r). unfold arun in Hr. rewrite Hr, Hr0. now rewrite app_assoc.
Qed.

(* ------------------------------------------------------------------ observers under the invariant *)
Section Observers.
Variable fs0 : option archive.
Variable ml : nat.
Variable A : astate.
Variable w : world.
Hypothesis Hml : 1 <= ml.
Hypothesis HI : Inv fs0 ml A w.
Let P := aP A.

(* __getitem__ after the index normalisation of base.py:1183-1184 *)
Definition getitem_at (w0 : world) (i : Z) : res (option item) :=
  let (fs, h) := w0 in
  let L := Z.of_nat (len h) in
  if ((i <? 0) || (L <=? i))%Z then Err EIndex
  else if (L - Z.of_nat (maxlen h) <=? i)%Z then
    match mem_neg (mem h) (i - L) with Ok x => Ok (Some x) | Err e => Err e end
  else if negb (fname h) then Ok None
  else match fs with
       | None => Err EFileNotFound
       | Some a => match get_coords (Z.to_nat i) a with Some x => Ok (Some x) | None => Err EKey end
       end.
Lemma getitem_norm (w0 : world) z :
  getitem w0 z = getitem_at w0 (if (z <? 0)%Z then (z + Z.of_nat (len (snd w0)))%Z else z).
Proof. destruct w0; reflexivity. Qed.

(* negative indices count from the end *)
Lemma getitem_neg (z : Z) :
  (z < 0)%Z -> (0 <= z + Z.of_nat (length P))%Z ->
  getitem w z = getitem w (z + Z.of_nat (length P)).
Proof.
  intros H1 H2. rewrite !getitem_norm, (inv_len HI). fold P.
  destruct (Z.ltb_spec z 0); [|lia].
  destruct (Z.ltb_spec (z + Z.of_nat (length P)) 0); [lia|]. reflexivity.
Qed.

Lemma getitem_out_of_range (z : Z) :
  (z < - Z.of_nat (length P) \/ Z.of_nat (length P) <= z)%Z -> getitem w z = Err EIndex.
Proof.
  intros H. rewrite getitem_norm, (inv_len HI). fold P.
  pose proof (inv_len HI) as E. destruct w as [fs h]. cbn [snd] in E. unfold getitem_at. rewrite E. fold P.
  destruct (Z.ltb_spec z 0).
  - destruct (Z.ltb_spec (z + Z.of_nat (length P)) 0); [reflexivity|lia].
  - destruct (Z.ltb_spec z 0); [lia|].
    destruct (Z.leb_spec (Z.of_nat (length P)) z); [reflexivity|lia].
Qed.

(* still in the memory window *)
Lemma getitem_mem (i : nat) :
  i < length P -> length P - ml <= i -> getitem w (Z.of_nat i) = Ok (nth_error P i).
Proof.
  intros H1 H2. rewrite getitem_norm.
  destruct (Z.ltb_spec (Z.of_nat i) 0); [lia|].
  pose proof (inv_len HI) as E. pose proof (inv_ml HI) as E2. pose proof (inv_mem HI) as E3.
  destruct w as [fs h]. cbn [snd] in E, E2, E3. unfold getitem_at. rewrite E, E2, E3. fold P.
  destruct (Z.ltb_spec (Z.of_nat i) 0); [lia|].
  destruct (Z.leb_spec (Z.of_nat (length P)) (Z.of_nat i)); [lia|]. cbn [orb].
  destruct (Z.leb_spec (Z.of_nat (length P) - Z.of_nat ml) (Z.of_nat i)); [|lia].
  unfold mem_neg. rewrite skipn_length.
  destruct (Z.ltb_spec (Z.of_nat (length P - (length P - ml)) + (Z.of_nat i - Z.of_nat (length P))) 0); [lia|].
  rewrite nth_error_skipn'.
  replace (length P - ml + Z.to_nat (Z.of_nat (length P - (length P - ml)) + (Z.of_nat i - Z.of_nat (length P))))
    with i by lia.
  destruct (@nth_error_in_range _ _ _ H1) as [y Hy]. now rewrite Hy.
Qed.

(* spilled: read from the archive; without a file: lost (None) *)
Lemma getitem_spilled (i : nat) :
  i < length P - ml ->
  getitem w (Z.of_nat i) =
  match aopen A with
  | None => Ok None
  | Some _ => match nth_error (disk ml A) i with Some x => Ok (Some x) | None => Err EKey end
  end.
Proof.
  intros H1. rewrite getitem_norm.
  destruct (Z.ltb_spec (Z.of_nat i) 0); [lia|].
  pose proof (inv_len HI) as E. pose proof (inv_ml HI) as E2. pose proof (inv_fname HI) as E4.
  pose proof (inv_fs HI) as E5.
  destruct w as [fs h]. cbn [fst snd] in E, E2, E4, E5. unfold getitem_at. rewrite E, E2, E4. fold P.
  unfold opened.
  destruct (Z.ltb_spec (Z.of_nat i) 0); [lia|].
  destruct (Z.leb_spec (Z.of_nat (length P)) (Z.of_nat i)); [lia|]. cbn [orb].
  destruct (Z.leb_spec (Z.of_nat (length P) - Z.of_nat ml) (Z.of_nat i)); [lia|].
  destruct (aopen A) as [L|]; cbn [negb]; [|reflexivity].
  destruct E5 as (a & -> & (_ & _ & Hg & _) & _).
  rewrite Nat2Z.id, Hg. reflexivity.
Qed.

(* with a file, every valid index returns the pushed entry *)
Lemma getitem_opened (i : nat) :
  opened A = true -> i < length P -> getitem w (Z.of_nat i) = Ok (nth_error P i).
Proof.
  intros Ho Hi. destruct (Nat.lt_ge_cases i (length P - ml)) as [Hs|Hm].
  - rewrite (getitem_spilled Hs). unfold opened in Ho. destruct (aopen A) as [L|] eqn:EL; [|discriminate].
    assert (E : nth_error (disk ml A) i = nth_error P i).
    { unfold disk. fold P. destruct (aclosed A); [reflexivity|]. now apply nth_error_firstn'. }
    rewrite E. destruct (@nth_error_in_range _ _ _ Hi) as [y Hy]. now rewrite Hy.
  - now apply getitem_mem.
Qed.

Lemma getitem_nofile (i : nat) :
  opened A = false -> i < length P ->
  getitem w (Z.of_nat i) = if i <? length P - ml then Ok None else Ok (nth_error P i).
Proof.
  intros Ho Hi. destruct (Nat.ltb_spec i (length P - ml)) as [Hs|Hm].
  - rewrite (getitem_spilled Hs). unfold opened in Ho. destruct (aopen A); [discriminate|reflexivity].
  - now apply getitem_mem.
Qed.

Lemma collect_all (f : nat -> option item) (idxs : list nat) :
  (forall i, In i idxs -> getitem w (Z.of_nat i) = Ok (f i)) ->
  collect w idxs = (map f idxs, None).
Proof.
  induction idxs as [|i r IH]; intros H; [reflexivity|].
  cbn [collect map]. rewrite (H i (or_introl eq_refl)).
  rewrite IH by (intros j Hj; apply H; now right). reflexivity.
Qed.

Lemma iter_opened :
  opened A = true ->
  collect w (seq 0 (length P)) = (map Some P, None) /\
  collect w (rev (seq 0 (length P))) = (map Some (rev P), None).
Proof.
  intros Ho. split.
  - rewrite (@collect_all (nth_error P)).
    + now rewrite map_nth_error_seq.
    + intros i Hi. apply in_seq in Hi. apply getitem_opened; auto; lia.
  - rewrite (@collect_all (nth_error P)).
    + now rewrite map_rev, map_nth_error_seq, map_rev.
    + intros i Hi. apply in_rev, in_seq in Hi. apply getitem_opened; auto; lia.
Qed.

Lemma iter_nofile :
  opened A = false ->
  collect w (seq 0 (length P)) =
    (map (fun i => if i <? length P - ml then None else nth_error P i) (seq 0 (length P)), None).
Proof.
  intros Ho. rewrite (@collect_all (fun i => if i <? length P - ml then None else nth_error P i)).
  - reflexivity.
  - intros i Hi. apply in_seq in Hi. rewrite getitem_nofile by (auto; lia).
    now destruct (i <? length P - ml).
Qed.

(* final / penultimate read the memory window *)
Lemma mem_neg_window (k : nat) :
  1 <= k -> k <= ml ->
  mem_neg (mem (snd w)) (- Z.of_nat k) =
  if k <=? length P then match nth_error P (length P - k) with Some x => Ok x | None => Err EIndex end
  else Err EIndex.
Proof.
  intros H1 H2. rewrite (inv_mem HI). fold P. unfold mem_neg. rewrite skipn_length.
  destruct (Nat.leb_spec k (length P)) as [Hk|Hk].
  - destruct (Z.ltb_spec (Z.of_nat (length P - (length P - ml)) + - Z.of_nat k) 0); [lia|].
    rewrite nth_error_skipn'.
    replace (length P - ml + Z.to_nat (Z.of_nat (length P - (length P - ml)) + - Z.of_nat k))
      with (length P - k) by lia.
    reflexivity.
  - destruct (Z.ltb_spec (Z.of_nat (length P - (length P - ml)) + - Z.of_nat k) 0); [reflexivity|lia].
Qed.

End Observers.

(* ------------------------------------------------------------------ load *)
Lemma skipn_last_two (A0 : Type) (D : list A0) x1 x2 :
  2 <= length D -> nth_error D (length D - 2) = Some x1 -> nth_error D (length D - 1) = Some x2 ->
  skipn (length D - 2) D = [x1; x2].
Proof.
  intros H H1 H2. rewrite (@skipn_cons_nth _ _ _ _ H1).
  replace (S (length D - 2)) with (length D - 1) by lia.
  rewrite (@skipn_cons_nth _ _ _ _ H2).
  replace (S (length D - 1)) with (length D) by lia. now rewrite skipn_all.
Qed.

(* load of an archive that holds the list D: length |D|, the last two entries in memory
   (nothing for an empty archive) *)
Lemma load_repr (a : archive) D sv :
  disk_repr a D sv ->
  load_img (IZip a) = Ok (mkHist 2 (skipn (length D - 2) D) (length D) true true).
Proof.
  intros (Hh & Hn & Hg & Hp). unfold load_img. rewrite Hh, Hn. cbn [negb]. unfold load_idxs.
  destruct (Nat.lt_ge_cases (length D) 2) as [H2|H2].
  - destruct D as [|y [|y2 D2]]; cbn in H2; try lia.
    + reflexivity.
    + cbn [length Nat.sub seq load_mem]. rewrite Hg. reflexivity.
  - destruct (@nth_error_in_range _ D (length D - 2)) as [x1 H1]; [lia|].
    destruct (@nth_error_in_range _ D (length D - 1)) as [x2 H2']; [lia|].
    replace (length D - (length D - 2)) with 2 by lia. cbn [seq load_mem].
    replace (S (length D - 2)) with (length D - 1) by lia.
    rewrite !Hg, H1, H2'. cbn. rewrite (@skipn_last_two _ D _ _ H2 H1 H2'). reflexivity.
Qed.

(* a loaded history is in the refinement relation with the CLOSED abstract trajectory whose pushed
   list is what the archive holds (window size 2, opened at 0) *)
Lemma loaded_inv (a : archive) D sv :
  disk_repr a D sv ->
  Inv None 2 (mkA D (Some 0) sv true) (Some a, mkHist 2 (skipn (length D - 2) D) (length D) true true).
Proof.
  intros H. constructor; cbn; auto. exists a. split; [reflexivity|]. split; [|lia].
  unfold disk. cbn. exact H.
Qed.

(* ------------------------------------------------------------------ derived facts used by Props.v *)
Lemma final_out fs0 ml A (w : world) :
  1 <= ml -> Inv fs0 ml A w ->
  snd (step w Final) =
  if 1 <=? length (aP A) then OItem (nth_error (aP A) (length (aP A) - 1)) else OErr EIndex.
Proof.
  intros Hml HI. destruct w as [fs h]. cbn [step snd].
  change (-1)%Z with (- Z.of_nat 1)%Z.
  change (mem h) with (mem (snd (fs, h))). rewrite (mem_neg_window Hml HI) by lia.
  destruct (Nat.leb_spec 1 (length (aP A))) as [H|H]; [|reflexivity].
  destruct (@nth_error_in_range _ (aP A) (length (aP A) - 1)) as [y Hy]; [lia|]. now rewrite Hy.
Qed.

Lemma penultimate_out fs0 ml A (w : world) :
  2 <= ml -> Inv fs0 ml A w ->
  snd (step w Penultimate) =
  if 2 <=? length (aP A) then OItem (nth_error (aP A) (length (aP A) - 2)) else OErr EIndex.
Proof.
  intros Hml HI. destruct w as [fs h]. cbn [step snd].
  change (-2)%Z with (- Z.of_nat 2)%Z.
  change (mem h) with (mem (snd (fs, h))).
  rewrite (@mem_neg_window fs0 ml A (fs, h)) by (auto; lia).
  destruct (Nat.leb_spec 2 (length (aP A))) as [H|H]; [|reflexivity].
  destruct (@nth_error_in_range _ (aP A) (length (aP A) - 2)) as [y Hy]; [lia|]. now rewrite Hy.
Qed.

Lemma params_out fs0 ml A (w : world) :
  Inv fs0 ml A w ->
  snd (step w GetParams) =
  match aopen A with
  | None => OErr ERuntime
  | Some _ => match asaved A with Some p => OParams p | None => OErr EFileNotFound end
  end.
Proof.
  intros HI. pose proof (inv_fname HI) as E. pose proof (inv_fs HI) as E2.
  destruct w as [fs h]. cbn [fst snd] in E, E2. cbn [step]. rewrite E. unfold opened.
  destruct (aopen A) as [L|]; cbn [negb]; [|reflexivity].
  destruct E2 as (a & -> & (_ & _ & _ & Hp) & _). rewrite Hp.
  destruct (asaved A); reflexivity.
Qed.

(* everything a reloaded trajectory holds, read through its own __getitem__ *)
Lemma loaded_contents (a : archive) D sv :
  disk_repr a D sv ->
  contents (Some a, mkHist 2 (skipn (length D - 2) D) (length D) true true) = (map Some D, None).
Proof.
  intros H. pose proof (loaded_inv H) as HI. unfold contents. cbn [snd len].
  apply (@iter_opened None 2 _ _ (le_S _ _ (le_n 1)) HI); reflexivity.
Qed.

(* what is on disk after the process stopped once `ops1` had been carried out: before open() the
   file of a previous life (if any) exactly as it was; afterwards an archive that `load` accepts and
   that holds a prefix of what this life pushed, with this life's parameters *)
Lemma crash_load fs0 ml (ops1 ops2 : list op) :
  1 <= ml -> proper (ops1 ++ ops2) = true ->
  let w1 := exec fs0 ml ops1 in
  match aopen (spec ml ops1) with
  | None => fst w1 = fs0
  | Some _ =>
      exists h' D, load_img (img_of (fst w1)) = Ok h' /\
                   contents (fst w1, h') = (map Some D, None) /\ len h' = length D /\
                   prefix D (pushed ml (ops1 ++ ops2)) /\
                   (aclosed (spec ml ops1) = true -> D = pushed ml ops1) /\
                   snd (step (fst w1, h') GetParams) = snd (step w1 GetParams)
  end.
Proof.
  intros Hml Hp w1.
  destruct (proper_app _ _ Hp) as [Hp1 _].
  pose proof (@exec_inv fs0 ml ops1 Hml Hp1) as HI. fold w1 in HI.
  pose proof (inv_fs HI) as Hfs.
  destruct (aopen (spec ml ops1)) as [L|] eqn:EL.
  - destruct Hfs as (a & Ea & Hd & HL). rewrite Ea. cbn [img_of].
    eexists. exists (disk ml (spec ml ops1)). split; [apply (load_repr Hd)|].
    split; [apply (loaded_contents Hd)|]. split; [reflexivity|].
    split; [|split].
    + unfold disk, pushed, spec. rewrite arun_app.
      destruct (arun_prefix ml ops2 (arun ml ainit ops1)) as [r Hr]. rewrite Hr.
      destruct (aclosed (arun ml ainit ops1)).
      * apply prefix_app.
      * eapply prefix_trans; [apply prefix_firstn|apply prefix_app].
    + intros Hc. unfold disk. rewrite Hc. reflexivity.
    + rewrite (params_out HI), EL. destruct Hd as (_ & _ & _ & Hg).
      cbn [step fname negb]. rewrite Hg. destruct (asaved (spec ml ops1)); reflexivity.
  - destruct Hfs as (Ea & _). exact Ea.
Qed.

(* once opened, the archive holds this life's entries and parameters and nothing else *)
Lemma archive_of_this_life fs0 ml (ops : list op) :
  1 <= ml -> proper ops = true -> opened (spec ml ops) = true ->
  exists a, fst (exec fs0 ml ops) = Some a /\ disk_repr a (disk ml (spec ml ops)) (asaved (spec ml ops)).
Proof.
  intros Hml Hp Ho. pose proof (@exec_inv fs0 ml ops Hml Hp) as HI. pose proof (inv_fs HI) as Hfs.
  unfold opened in Ho. destruct (aopen (spec ml ops)); [|discriminate].
  destruct Hfs as (a & Ea & Hd & _). exists a. auto.
Qed.

(* the invariant the task names: disk ++ memory = pushed, memory within its bound *)
Lemma disk_mem_split fs0 ml (ops : list op) :
  1 <= ml -> proper ops = true -> opened (spec ml ops) = true -> aclosed (spec ml ops) = false ->
  exists a D, fst (exec fs0 ml ops) = Some a /\ n_coords a = length D /\
              (forall i, get_coords i a = nth_error D i) /\
              D ++ mem (snd (exec fs0 ml ops)) = pushed ml ops /\
              length (mem (snd (exec fs0 ml ops))) <= ml.
Proof.
  intros Hml Hp Ho Hc. pose proof (@exec_inv fs0 ml ops Hml Hp) as HI.
  pose proof (inv_fs HI) as Hfs. pose proof (inv_mem HI) as Hm.
  unfold opened in Ho. destruct (aopen (spec ml ops)) as [L|] eqn:EL; [|discriminate].
  destruct Hfs as (a & Ea & (Hh & Hn & Hg & Hpp) & HL).
  exists a, (disk ml (spec ml ops)). repeat split; auto.
  - rewrite Hm. unfold disk. rewrite Hc. apply firstn_skipn.
  - rewrite Hm, skipn_length. unfold pushed. lia.
Qed.

(* ------------------------------------------------------------------ a life continued on a reloaded object *)
Lemma astep_closed ml (A : astate) o :
  aclosed A = true -> aopen A <> None ->
  aP (astep ml A o) = aP A /\ aclosed (astep ml A o) = true /\ aopen (astep ml A o) = aopen A /\
  (asaved A <> None -> asaved (astep ml A o) = asaved A).
Proof.
  intros Hc Ho. destruct A as [P ao sv cl]. cbn in *. subst cl.
  destruct ao as [L|]; [|contradiction].
  destruct o; cbn; auto. destruct sv; cbn; auto. repeat split; auto. intros H; contradiction.
Qed.
Lemma arun_closed ml (ops : list op) : forall A,
  aclosed A = true -> aopen A <> None ->
  aP (arun ml A ops) = aP A /\ aclosed (arun ml A ops) = true /\ aopen (arun ml A ops) = aopen A /\
  (asaved A <> None -> asaved (arun ml A ops) = asaved A).
Proof.
  induction ops as [|o r IH]; intros A Hc Ho; cbn; [auto|].
  destruct (@astep_closed ml A o Hc Ho) as (E1 & E2 & E3 & E4).
  assert (Ho' : aopen (astep ml A o) <> None) by (rewrite E3; exact Ho).
  destruct (IH (astep ml A o) E2 Ho') as (F1 & F2 & F3 & F4).
  unfold arun in *. rewrite F1, F2, F3, E1, E3. repeat split; auto.
  intros H. rewrite F4 by (rewrite (E4 H); exact H). auto.
Qed.

(* what the invariant says about misuse, for any state *)
Lemma misuse_under_inv fs0 ml A (w : world) :
  Inv fs0 ml A w ->
  (aclosed A = true -> forall x, step w (Add x) = (w, OErr ERuntime)) /\
  (opened A = true -> step w Open = (w, OErr ERuntime)) /\
  (opened A = true -> asaved A <> None -> forall p, step w (SaveParams p) = (w, OErr EFileExists)) /\
  (aclosed A = true -> step w Close = (w, ODone)).
Proof.
  intros HI. pose proof (inv_closed HI) as Ec. pose proof (inv_fname HI) as Ef. pose proof (inv_fs HI) as Hfs.
  destruct w as [fs h]. cbn [fst snd] in *. repeat split.
  - intros H x. cbn. now rewrite Ec, H.
  - intros H. cbn. now rewrite Ef, H.
  - intros H Hs p. unfold opened in H. destruct (aopen A) eqn:EL; [|discriminate].
    destruct Hfs as (a & -> & (_ & _ & _ & Hg) & _). cbn [step]. rewrite Ef. unfold opened. rewrite EL. cbn [negb].
    rewrite has_params_get, Hg. destruct (asaved A); [reflexivity|contradiction].
  - intros H. cbn [step]. rewrite Ef, Ec, H. unfold opened.
    destruct (aopen A); [reflexivity|]. destruct Hfs as (_ & Hc & _). congruence.
Qed.

End Lemmas.
