(* C09/Lemmas.v — lemmas about the definitions GENERATED from hessian_update.py (gen/C09_Gen.v).
   Everything in Section Lem holds for an arbitrary field F (Leibniz equality, field_theory as in
   lib/Sums.v), arbitrary interpretations of the oracles (order test, sqrt, abs, inv, eigenvalue
   test) and EVERY dimension n: the proofs use the Sums lemmas (induction on n), never computation. *)
From Coq Require Import ZArith List Bool Arith Lia Field Ring.
From AV.lib Require Import Sums.
From AV.C09 Require Import Model.
From AV.gen Require Import C09_Gen.
Import ListNotations.

Section Lem.
Variable F : Type.
Variables (F0 F1 : F) (Fadd Fmul Fsub : F -> F -> F) (Fopp : F -> F) (Fdiv : F -> F -> F) (Finv : F -> F).
Hypothesis Fth : field_theory F0 F1 Fadd Fmul Fsub Fopp Fdiv Finv (@eq F).
Add Field FfC09 : Fth.
Variables (Fltb : F -> F -> bool) (Fsqrt Fabs : F -> F)
          (Fminv : nat -> (nat -> nat -> F) -> nat -> nat -> F) (Feig : nat -> (nat -> nat -> F) -> F -> bool).
Let E : fenv := mkFenv F F0 F1 Fadd Fmul Fsub Fopp Fdiv Finv Fltb Fsqrt Fabs Fminv Feig.

Declare Scope F_scope.
Delimit Scope F_scope with F.
Local Open Scope F_scope.
Notation "0" := F0 : F_scope.
Notation "1" := F1 : F_scope.
Infix "+" := Fadd : F_scope.
Infix "*" := Fmul : F_scope.
Infix "-" := Fsub : F_scope.
Infix "/" := Fdiv : F_scope.
Notation "- x" := (Fopp x) : F_scope.

Notation vec := (nat -> F).
Notation mat := (nat -> nat -> F).
Notation sum := (Sums.sum F F0 Fadd).
Notation dot := (Sums.dot F F0 Fadd Fmul).
Notation matvec := (Sums.matvec F F0 Fadd Fmul).
Notation vecmat := (Sums.vecmat F F0 Fadd Fmul).
Notation matmul := (Sums.matmul F F0 Fadd Fmul).
Notation outer := (Sums.outer F Fmul).
Notation vadd := (Sums.vadd F Fadd).
Notation vsub := (Sums.vsub F Fsub).
Notation vscal := (Sums.vscal F Fmul).
Notation madd := (Sums.madd F Fadd).
Notation msub := (Sums.msub F Fsub).
Notation mscal := (Sums.mscal F Fmul).
Notation mdivs := (Sums.mdivs F Fdiv).
Notation transpose := (Sums.transpose F).
Notation ident := (Sums.ident F F0 F1).
Notation symmetric := (Sums.symmetric F).
Notation veq := (Sums.veq F).
Notation meq := (Sums.meq F).

Ltac env := unfold E in *; cbn [fF f0 f1 fadd fmul fsub fopp fdiv finv fltb fsqrt fabs fminv feig_all_gt] in *.

(* Sums lemmas at this field *)
Local Notation S_sum_ext := (sum_ext F F0 Fadd).
Local Notation S_sum_add := (sum_add F F0 F1 Fadd Fmul Fsub Fopp Fdiv Finv Fth).
Local Notation S_sum_sub := (sum_sub F F0 F1 Fadd Fmul Fsub Fopp Fdiv Finv Fth).
Local Notation S_sum_scal_l := (sum_scal_l F F0 F1 Fadd Fmul Fsub Fopp Fdiv Finv Fth).
Local Notation S_sum_scal_r := (sum_scal_r F F0 F1 Fadd Fmul Fsub Fopp Fdiv Finv Fth).
Local Notation S_sum_div_r := (sum_div_r F F0 F1 Fadd Fmul Fsub Fopp Fdiv Finv Fth).
Local Notation S_sum_swap := (sum_swap F F0 F1 Fadd Fmul Fsub Fopp Fdiv Finv Fth).
Local Notation S_dot_comm := (dot_comm F F0 F1 Fadd Fmul Fsub Fopp Fdiv Finv Fth).
Local Notation S_dot_vsub_l := (dot_vsub_l F F0 F1 Fadd Fmul Fsub Fopp Fdiv Finv Fth).
Local Notation S_dot_vsub_r := (dot_vsub_r F F0 F1 Fadd Fmul Fsub Fopp Fdiv Finv Fth).
Local Notation S_dot_vadd_l := (dot_vadd_l F F0 F1 Fadd Fmul Fsub Fopp Fdiv Finv Fth).
Local Notation S_dot_vadd_r := (dot_vadd_r F F0 F1 Fadd Fmul Fsub Fopp Fdiv Finv Fth).
Local Notation S_dot_vscal_l := (dot_vscal_l F F0 F1 Fadd Fmul Fsub Fopp Fdiv Finv Fth).
Local Notation S_dot_vscal_r := (dot_vscal_r F F0 F1 Fadd Fmul Fsub Fopp Fdiv Finv Fth).
Local Notation S_dot_vneg_l := (dot_vneg_l F F0 F1 Fadd Fmul Fsub Fopp Fdiv Finv Fth).
Local Notation S_mv_outer := (matvec_outer F F0 F1 Fadd Fmul Fsub Fopp Fdiv Finv Fth).
Local Notation S_mv_madd := (matvec_madd F F0 F1 Fadd Fmul Fsub Fopp Fdiv Finv Fth).
Local Notation S_mv_msub := (matvec_msub F F0 F1 Fadd Fmul Fsub Fopp Fdiv Finv Fth).
Local Notation S_mv_mscal := (matvec_mscal F F0 F1 Fadd Fmul Fsub Fopp Fdiv Finv Fth).
Local Notation S_mv_mdivs := (matvec_mdivs F F0 F1 Fadd Fmul Fsub Fopp Fdiv Finv Fth).
Local Notation S_mv_vsub := (matvec_vsub F F0 F1 Fadd Fmul Fsub Fopp Fdiv Finv Fth).
Local Notation S_mv_ident := (matvec_ident F F0 F1 Fadd Fmul Fsub Fopp Fdiv Finv Fth).
Local Notation S_dot_mv_transpose := (dot_matvec_transpose F F0 F1 Fadd Fmul Fsub Fopp Fdiv Finv Fth).
Local Notation S_dot_mv_sym := (dot_matvec_sym F F0 F1 Fadd Fmul Fsub Fopp Fdiv Finv Fth).
Local Notation S_vm_transpose := (vecmat_is_matvec_transpose F F0 F1 Fadd Fmul Fsub Fopp Fdiv Finv Fth).
Local Notation S_vm_sym := (vecmat_sym F F0 F1 Fadd Fmul Fsub Fopp Fdiv Finv Fth).
Local Notation S_mm_mv := (matmul_matvec F F0 F1 Fadd Fmul Fsub Fopp Fdiv Finv Fth).
Local Notation S_dot_ext := (dot_ext F F0 Fadd Fmul).

(* ------------------------------------------------------------------------------------------ *)
(* literals                                                                                     *)
Lemma cst_1_1 : cst E 1 1 = 1.
Proof. unfold cst, ofZ. cbn [ofPos]. env. field. apply (F_1_neq_0 Fth). Qed.
Lemma cst_0_1 : cst E 0 1 = 0.
Proof. unfold cst, ofZ. cbn [ofPos]. env. field. apply (F_1_neq_0 Fth). Qed.
Lemma cst_2_1 : cst E 2 1 = 1 + 1.
Proof. unfold cst, ofZ. cbn [ofPos]. env. field. apply (F_1_neq_0 Fth). Qed.
Lemma ofPos_5 : ofPos E 5 = 1 + (1 + 1) * ((1 + 1) * 1).
Proof. reflexivity. Qed.
Lemma five_nonzero : char0 E -> 1 + (1 + 1) * (1 + 1) <> 0.
Proof. intros H Hc. apply (H 5%positive). rewrite ofPos_5. env. rewrite <- Hc. ring. Qed.

(* ------------------------------------------------------------------------------------------ *)
(* a few more facts about products (every n)                                                    *)
Lemma dot_vecmat_l n (v w : vec) (A : mat) : dot n (vecmat n v A) w = dot n v (matvec n A w).
Proof.
  rewrite S_dot_mv_transpose. apply S_dot_ext; [|intros i Hi; reflexivity].
  intros i Hi. rewrite S_vm_transpose.
  unfold Sums.matvec, Sums.transpose. apply S_sum_ext. intros. reflexivity.
Qed.

Lemma matmul_outer_l n (a b : vec) (M : mat) i j : matmul n (outer a b) M i j = a i * vecmat n b M j.
Proof.
  unfold Sums.matmul, Sums.outer, Sums.vecmat. rewrite <- S_sum_scal_l. apply S_sum_ext. intros. ring.
Qed.

Lemma matmul_outer_r n (a b : vec) (M : mat) i j : matmul n M (outer a b) i j = matvec n M a i * b j.
Proof.
  unfold Sums.matmul, Sums.outer, Sums.matvec. rewrite <- S_sum_scal_r. apply S_sum_ext. intros. ring.
Qed.

(* vecmat (row vector times matrix) through the matrix constructors *)
Lemma vm_madd n v (A B : mat) j : vecmat n v (madd A B) j = vecmat n v A j + vecmat n v B j.
Proof. unfold Sums.vecmat, Sums.madd. rewrite <- S_sum_add. apply S_sum_ext. intros. ring. Qed.
Lemma vm_msub n v (A B : mat) j : vecmat n v (msub A B) j = vecmat n v A j - vecmat n v B j.
Proof. unfold Sums.vecmat, Sums.msub. rewrite <- S_sum_sub. apply S_sum_ext. intros. ring. Qed.
Lemma vm_mscal n v c (A : mat) j : vecmat n v (mscal c A) j = c * vecmat n v A j.
Proof. unfold Sums.vecmat, Sums.mscal. rewrite <- S_sum_scal_l. apply S_sum_ext. intros. ring. Qed.
Lemma vm_mdivs n v c (A : mat) j : c <> 0 -> vecmat n v (mdivs A c) j = vecmat n v A j / c.
Proof.
  intros Hc. unfold Sums.vecmat, Sums.mdivs. rewrite <- S_sum_div_r by exact Hc.
  apply S_sum_ext. intros. field; exact Hc.
Qed.
Lemma vm_outer n v (a b : vec) j : vecmat n v (outer a b) j = dot n v a * b j.
Proof. unfold Sums.vecmat, Sums.outer, Sums.dot. rewrite <- S_sum_scal_r. apply S_sum_ext. intros. ring. Qed.
(* (v^T A) B = v^T (A B) *)
Lemma vm_matmul n v (A B : mat) j : vecmat n v (matmul n A B) j = vecmat n (vecmat n v A) B j.
Proof.
  unfold Sums.vecmat, Sums.matmul.
  rewrite (S_sum_ext n _ (fun i => sum n (fun k => v i * A i k * B k j)))
    by (intros; rewrite <- S_sum_scal_l; apply S_sum_ext; intros; ring).
  rewrite S_sum_swap. apply S_sum_ext. intros k Hk.
  rewrite <- S_sum_scal_r. apply S_sum_ext. intros. ring.
Qed.
Lemma vm_ident n v j : (j < n)%nat -> vecmat n v ident j = v j.
Proof.
  intros Hj. rewrite S_vm_transpose.
  rewrite <- (S_mv_ident n v j Hj). unfold Sums.matvec, Sums.transpose, Sums.ident.
  apply S_sum_ext. intros i Hi. rewrite (Nat.eqb_sym i j). reflexivity.
Qed.
Lemma vm_ext n v (A B : mat) j : meq n A B -> (j < n)%nat -> vecmat n v A j = vecmat n v B j.
Proof. intros H Hj. unfold Sums.vecmat. apply S_sum_ext. intros i Hi. rewrite H by assumption. reflexivity. Qed.
Lemma mv_ext n (A B : mat) v i : meq n A B -> (i < n)%nat -> matvec n A v i = matvec n B v i.
Proof. intros H Hi. unfold Sums.matvec. apply S_sum_ext. intros j Hj. rewrite H by assumption. reflexivity. Qed.

(* matrix product through the constructors, entrywise *)
Lemma mm_entry n (A B : mat) i j : matmul n A B i j = dot n (fun k => A i k) (fun k => B k j).
Proof. reflexivity. Qed.

Ltac mvpush :=
  repeat first
    [ rewrite S_mv_madd | rewrite S_mv_msub | rewrite S_mv_mscal
    | rewrite S_mv_mdivs by assumption | rewrite S_mv_outer | rewrite S_mm_mv ].

(* ------------------------------------------------------------------------------------------ *)
(* BFGS  (hessian_update.py:153-178)                                                            *)
Lemma bfgs_secant n (h h_inv : mat) (s y : vec) :
  dot n y s <> 0 -> dot n s (matvec n h s) <> 0 ->
  veq n (matvec n (BFGSUpdate_updated_h E n h h_inv s y) s) y.
Proof.
  intros Ha Hb i Hi. unfold BFGSUpdate_updated_h. cbv zeta. env. mvpush.
  rewrite dot_vecmat_l. field. split; assumption.
Qed.

Lemma bfgs_symmetric n (h h_inv : mat) (s y : vec) :
  symmetric n h -> dot n y s <> 0 -> dot n s (matvec n h s) <> 0 ->
  symmetric n (BFGSUpdate_updated_h E n h h_inv s y).
Proof.
  intros Hs Ha Hb i j Hi Hj. unfold BFGSUpdate_updated_h. cbv zeta. env.
  unfold Sums.msub, Sums.madd, Sums.mdivs, Sums.outer.
  rewrite !S_vm_sym by assumption. rewrite (Hs i j) by assumption. field. split; assumption.
Qed.

Lemma bfgspd_same_formula n h h_inv s y m :
  BFGSPDUpdate_updated_h E n h h_inv s y m = BFGSUpdate_updated_h E n h h_inv s y.
Proof. reflexivity. Qed.
Lemma bfgspd_inv_same_formula n h h_inv s y m :
  BFGSPDUpdate_updated_h_inv E n h h_inv s y m = BFGSUpdate_updated_h_inv E n h h_inv s y /\
  BFGSDampedUpdate_updated_h_inv E n h h_inv s y m = Fminv n (BFGSDampedUpdate_updated_h E n h h_inv s y m).
Proof. split; reflexivity. Qed.

(* ------------------------------------------------------------------------------------------ *)
(* SR1  (hessian_update.py:283-295)                                                             *)
Lemma sr1_secant n (h h_inv : mat) (s y : vec) :
  dot n (vsub y (matvec n h s)) s <> 0 ->
  veq n (matvec n (SR1Update_updated_h E n h h_inv s y) s) y.
Proof.
  intros Ha i Hi. unfold SR1Update_updated_h. cbv zeta. env. mvpush.
  set (a := dot n (vsub y (matvec n h s)) s) in *. unfold Sums.vsub. field. exact Ha.
Qed.

Lemma sr1_symmetric n (h h_inv : mat) (s y : vec) :
  symmetric n h -> dot n (vsub y (matvec n h s)) s <> 0 ->
  symmetric n (SR1Update_updated_h E n h h_inv s y).
Proof.
  intros Hs Ha i j Hi Hj. unfold SR1Update_updated_h. cbv zeta. env.
  unfold Sums.madd, Sums.mdivs, Sums.outer. rewrite (Hs i j) by assumption. field. exact Ha.
Qed.

(* ------------------------------------------------------------------------------------------ *)
(* PSB and MS (the two ingredients of Bofill, hessian_update.py:411-428) and Bofill itself     *)
Lemma dot_z_s n (h : mat) (s y : vec) :
  dot n (vsub y (matvec n h s)) s = dot n s y - dot n (vecmat n s h) s.
Proof. rewrite S_dot_vsub_l, dot_vecmat_l, (S_dot_comm n y s), (S_dot_comm n (matvec n h s) s). reflexivity. Qed.

Lemma bofill_ms_secant n (h h_inv : mat) (s y : vec) :
  dot n (vsub y (matvec n h s)) s <> 0 ->
  veq n (matvec n (BofillUpdate_updated_h__G_i_MS E n h h_inv s y) s) y.
Proof.
  intros Ha i Hi. unfold BofillUpdate_updated_h__G_i_MS. cbv zeta. env. mvpush.
  set (a := dot n (vsub y (matvec n h s)) s) in *. unfold Sums.vsub. field. exact Ha.
Qed.

Lemma bofill_ms_symmetric n (h h_inv : mat) (s y : vec) :
  symmetric n h -> dot n (vsub y (matvec n h s)) s <> 0 ->
  symmetric n (BofillUpdate_updated_h__G_i_MS E n h h_inv s y).
Proof.
  intros Hs Ha i j Hi Hj. unfold BofillUpdate_updated_h__G_i_MS. cbv zeta. env.
  unfold Sums.madd, Sums.mdivs, Sums.outer. rewrite (Hs i j) by assumption. field. exact Ha.
Qed.

Lemma mul_nonzero (a b : F) : a <> 0 -> b <> 0 -> a * b <> 0.
Proof.
  intros Ha Hb Hc. apply Ha. replace a with ((a * b) / b) by (field; exact Hb).
  rewrite Hc. field. exact Hb.
Qed.

Lemma fsq_nonzero (x : F) : x <> 0 -> fsq E x <> 0.
Proof. intros Hx. unfold fsq. env. apply mul_nonzero; exact Hx. Qed.

Lemma bofill_psb_secant n (h h_inv : mat) (s y : vec) :
  dot n s s <> 0 ->
  veq n (matvec n (BofillUpdate_updated_h__G_i_PSB E n h h_inv s y) s) y.
Proof.
  intros Hss i Hi. unfold BofillUpdate_updated_h__G_i_PSB. cbv zeta.
  pose proof (fsq_nonzero _ Hss) as Hss2. env. mvpush.
  rewrite dot_z_s. unfold fsq in *. env.
  set (b := dot n (vecmat n s h) s) in *. set (a := dot n s y) in *. set (c := dot n s s) in *.
  unfold Sums.vsub. field. exact Hss.
Qed.

Lemma bofill_psb_symmetric n (h h_inv : mat) (s y : vec) :
  symmetric n h -> dot n s s <> 0 ->
  symmetric n (BofillUpdate_updated_h__G_i_PSB E n h h_inv s y).
Proof.
  intros Hs Hss i j Hi Hj. unfold BofillUpdate_updated_h__G_i_PSB. cbv zeta. env.
  unfold Sums.msub, Sums.madd, Sums.mdivs, Sums.mscal, Sums.outer, fsq. env.
  rewrite (Hs i j) by assumption. field. exact Hss.
Qed.

(* the update is the documented mix of the two, with the generated mixing factor *)
Lemma bofill_is_mix n (h h_inv : mat) (s y : vec) :
  Fltb (vnorm E n (vsub y (matvec n h s))) (cst E 1 1000000) = false ->
  BofillUpdate_updated_h E n h h_inv s y =
  madd (mscal (1 - BofillUpdate_updated_h__phi_bofill E n h h_inv s y) (BofillUpdate_updated_h__G_i_MS E n h h_inv s y))
       (mscal (BofillUpdate_updated_h__phi_bofill E n h h_inv s y) (BofillUpdate_updated_h__G_i_PSB E n h h_inv s y)).
Proof.
  intros Hg. unfold BofillUpdate_updated_h, BofillUpdate_updated_h__phi_bofill,
    BofillUpdate_updated_h__G_i_MS, BofillUpdate_updated_h__G_i_PSB. cbv zeta.
  rewrite cst_1_1. env. rewrite Hg. reflexivity.
Qed.

Lemma bofill_skip n (h h_inv : mat) (s y : vec) :
  Fltb (vnorm E n (vsub y (matvec n h s))) (cst E 1 1000000) = true ->
  BofillUpdate_updated_h E n h h_inv s y = h.
Proof. intros Hg. unfold BofillUpdate_updated_h. cbv zeta. env. rewrite Hg. reflexivity. Qed.

Lemma mix_secant n (A B : mat) (phi : F) (s y : vec) :
  veq n (matvec n A s) y -> veq n (matvec n B s) y ->
  veq n (matvec n (madd (mscal (1 - phi) A) (mscal phi B)) s) y.
Proof. intros HA HB i Hi. mvpush. rewrite HA, HB by assumption. ring. Qed.

Lemma mix_symmetric n (A B : mat) (p q : F) :
  symmetric n A -> symmetric n B -> symmetric n (madd (mscal p A) (mscal q B)).
Proof. intros HA HB. apply symmetric_madd; apply symmetric_mscal; assumption. Qed.

Lemma bofill_secant n (h h_inv : mat) (s y : vec) :
  Fltb (vnorm E n (vsub y (matvec n h s))) (cst E 1 1000000) = false ->
  dot n (vsub y (matvec n h s)) s <> 0 -> dot n s s <> 0 ->
  veq n (matvec n (BofillUpdate_updated_h E n h h_inv s y) s) y.
Proof.
  intros Hg Ha Hss. rewrite bofill_is_mix by exact Hg.
  apply mix_secant; [apply bofill_ms_secant | apply bofill_psb_secant]; assumption.
Qed.

Lemma bofill_symmetric n (h h_inv : mat) (s y : vec) :
  symmetric n h ->
  Fltb (vnorm E n (vsub y (matvec n h s))) (cst E 1 1000000) = false ->
  dot n (vsub y (matvec n h s)) s <> 0 -> dot n s s <> 0 ->
  symmetric n (BofillUpdate_updated_h E n h h_inv s y).
Proof.
  intros Hs Hg Ha Hss. rewrite bofill_is_mix by exact Hg.
  apply mix_symmetric; [apply bofill_ms_symmetric | apply bofill_psb_symmetric]; assumption.
Qed.

(* ------------------------------------------------------------------------------------------ *)
(* Flowchart (hessian_update.py:466-516): three branches                                        *)
Notation fc_sr1 n h h_inv s y := (Fltb (FlowchartUpdate_updated_h__sr1_criteria E n h h_inv s y) (cst E (-1) 10)).
Notation fc_bfgs n h h_inv s y := (Fltb (cst E 1 10) (FlowchartUpdate_updated_h__bfgs_criteria E n h h_inv s y)).

Lemma flowchart_branch_sr1 n (h h_inv : mat) (s y : vec) :
  fc_sr1 n h h_inv s y = true ->
  FlowchartUpdate_updated_h E n h h_inv s y = SR1Update_updated_h E n h h_inv s y.
Proof.
  unfold FlowchartUpdate_updated_h__sr1_criteria. intros Hc.
  unfold FlowchartUpdate_updated_h, SR1Update_updated_h. cbv zeta in *. env. rewrite Hc. reflexivity.
Qed.

Definition flowchart_bfgs_form (n : nat) (h : mat) (s y : vec) : mat :=
  madd h (msub (mdivs (outer y y) (dot n y s))
               (mdivs (matmul n (outer (matvec n h s) s) h) (dot n (vecmat n s h) s))).

Lemma flowchart_branch_bfgs n (h h_inv : mat) (s y : vec) :
  fc_sr1 n h h_inv s y = false -> fc_bfgs n h h_inv s y = true ->
  FlowchartUpdate_updated_h E n h h_inv s y = flowchart_bfgs_form n h s y.
Proof.
  unfold FlowchartUpdate_updated_h__sr1_criteria, FlowchartUpdate_updated_h__bfgs_criteria. intros Hc1 Hc2.
  unfold FlowchartUpdate_updated_h, flowchart_bfgs_form. cbv zeta in *. env. rewrite Hc1, Hc2. reflexivity.
Qed.

Lemma flowchart_branch_psb n (h h_inv : mat) (s y : vec) :
  fc_sr1 n h h_inv s y = false -> fc_bfgs n h h_inv s y = false ->
  FlowchartUpdate_updated_h E n h h_inv s y = BofillUpdate_updated_h__G_i_PSB E n h h_inv s y.
Proof.
  unfold FlowchartUpdate_updated_h__sr1_criteria, FlowchartUpdate_updated_h__bfgs_criteria. intros Hc1 Hc2.
  unfold FlowchartUpdate_updated_h, BofillUpdate_updated_h__G_i_PSB. cbv zeta in *. env. rewrite Hc1, Hc2. reflexivity.
Qed.

Lemma bfgs_form_secant n (h : mat) (s y : vec) :
  dot n y s <> 0 -> dot n (vecmat n s h) s <> 0 ->
  veq n (matvec n (flowchart_bfgs_form n h s y) s) y.
Proof.
  intros Ha Hb i Hi. unfold flowchart_bfgs_form. mvpush.
  rewrite <- dot_vecmat_l. field. split; assumption.
Qed.

Lemma bfgs_form_symmetric n (h : mat) (s y : vec) :
  symmetric n h -> dot n y s <> 0 -> dot n (vecmat n s h) s <> 0 ->
  symmetric n (flowchart_bfgs_form n h s y).
Proof.
  intros Hs Ha Hb i j Hi Hj. unfold flowchart_bfgs_form.
  unfold Sums.madd, Sums.msub, Sums.mdivs. rewrite !matmul_outer_l.
  unfold Sums.outer. rewrite !S_vm_sym by assumption. rewrite (Hs i j) by assumption.
  field. split; assumption.
Qed.

(* ------------------------------------------------------------------------------------------ *)
(* BFGS-SR1 (hessian_update.py:543-566): any mixing value (sqrt is an oracle)                   *)
Lemma bfgs_sr1_secant n (h h_inv : mat) (s y : vec) :
  dot n y s <> 0 -> dot n (vecmat n s h) s <> 0 -> dot n (vsub y (matvec n h s)) s <> 0 ->
  veq n (matvec n (BFGSSR1Update_updated_h E n h h_inv s y) s) y.
Proof.
  intros Ha Hb Hc i Hi. unfold BFGSSR1Update_updated_h. cbv zeta. rewrite cst_1_1. env. mvpush.
  rewrite <- dot_vecmat_l.
  set (c := dot n (vsub y (matvec n h s)) s) in *.
  set (phi := Fsqrt _).
  unfold Sums.vsub. field. repeat split; assumption.
Qed.

Lemma bfgs_sr1_symmetric n (h h_inv : mat) (s y : vec) :
  symmetric n h ->
  dot n y s <> 0 -> dot n (vecmat n s h) s <> 0 -> dot n (vsub y (matvec n h s)) s <> 0 ->
  symmetric n (BFGSSR1Update_updated_h E n h h_inv s y).
Proof.
  intros Hs Ha Hb Hc i j Hi Hj. unfold BFGSSR1Update_updated_h. cbv zeta. env.
  unfold Sums.madd, Sums.msub, Sums.mscal, Sums.mdivs. rewrite !matmul_outer_l.
  unfold Sums.outer. rewrite !S_vm_sym by assumption. rewrite (Hs i j) by assumption.
  set (c := dot n (vsub y (matvec n h s)) s) in *.
  set (phi := Fsqrt _).
  field. repeat split; assumption.
Qed.

(* ------------------------------------------------------------------------------------------ *)
(* Powell-damped BFGS (hessian_update.py:253-275)                                               *)
Notation damped_guard n h s y :=
  (Fltb (dot n s y) (cst E 1 5 * dot n (vecmat n s h) s)).

Lemma damped_secant n (h h_inv : mat) (s y : vec) (m : F) :
  dot n (vecmat n s h) s <> 0 ->
  dot n (BFGSDampedUpdate_updated_h__y_ E n h h_inv s y m) s <> 0 ->
  veq n (matvec n (BFGSDampedUpdate_updated_h E n h h_inv s y m) s)
        (BFGSDampedUpdate_updated_h__y_ E n h h_inv s y m).
Proof.
  unfold BFGSDampedUpdate_updated_h__y_, BFGSDampedUpdate_updated_h. cbv zeta. env.
  intros Hb Hc i Hi. mvpush.
  field. split; assumption.
Qed.

Lemma damped_symmetric n (h h_inv : mat) (s y : vec) (m : F) :
  symmetric n h ->
  dot n (vecmat n s h) s <> 0 ->
  dot n (BFGSDampedUpdate_updated_h__y_ E n h h_inv s y m) s <> 0 ->
  symmetric n (BFGSDampedUpdate_updated_h E n h h_inv s y m).
Proof.
  unfold BFGSDampedUpdate_updated_h__y_, BFGSDampedUpdate_updated_h. cbv zeta. env.
  intros Hs Hb Hc i j Hi Hj.
  unfold Sums.madd, Sums.msub, Sums.mdivs, Sums.outer.
  rewrite !S_vm_sym by assumption. rewrite (Hs i j) by assumption.
  field. split; assumption.
Qed.

(* the damped gradient difference is Powell's  theta*y + (1-theta)*H.s  with the generated theta *)
Lemma damped_target_is_powell n (h h_inv : mat) (s y : vec) (m : F) :
  veq n (BFGSDampedUpdate_updated_h__y_ E n h h_inv s y m)
        (vadd (vscal (BFGSDampedUpdate_updated_h__theta E n h h_inv s y m) y)
              (vscal (1 - BFGSDampedUpdate_updated_h__theta E n h h_inv s y m) (matvec n h s))).
Proof.
  intros i Hi. unfold BFGSDampedUpdate_updated_h__y_, BFGSDampedUpdate_updated_h__theta. cbv zeta.
  rewrite cst_1_1. env. unfold Sums.vadd, Sums.vscal. ring.
Qed.

Lemma damped_theta_undamped n (h h_inv : mat) (s y : vec) (m : F) :
  damped_guard n h s y = false -> BFGSDampedUpdate_updated_h__theta E n h h_inv s y m = 1.
Proof.
  intros Hg. unfold BFGSDampedUpdate_updated_h__theta. cbv zeta. env. rewrite Hg. apply cst_1_1.
Qed.

Lemma damped_theta_damped n (h h_inv : mat) (s y : vec) (m : F) :
  damped_guard n h s y = true ->
  BFGSDampedUpdate_updated_h__theta E n h h_inv s y m =
  (cst E 4 5 * dot n (vecmat n s h) s) / (dot n (vecmat n s h) s - dot n s y).
Proof. intros Hg. unfold BFGSDampedUpdate_updated_h__theta. cbv zeta. env. rewrite Hg. reflexivity. Qed.

(* undamped branch: y' = y, i.e. the plain secant equation *)
Lemma damped_undamped_target n (h h_inv : mat) (s y : vec) (m : F) :
  damped_guard n h s y = false ->
  veq n (BFGSDampedUpdate_updated_h__y_ E n h h_inv s y m) y.
Proof.
  intros Hg i Hi. rewrite damped_target_is_powell by exact Hi.
  rewrite damped_theta_undamped by exact Hg. unfold Sums.vadd, Sums.vscal. ring.
Qed.

(* damped branch: s.y' = 0.2 s.H.s  (Powell's rule) *)
Lemma damped_curvature n (h h_inv : mat) (s y : vec) (m : F) :
  char0 E ->
  damped_guard n h s y = true ->
  dot n (vecmat n s h) s - dot n s y <> 0 ->
  dot n s (BFGSDampedUpdate_updated_h__y_ E n h h_inv s y m) = cst E 1 5 * dot n (vecmat n s h) s.
Proof.
  intros Hch Hg Hd.
  rewrite (S_dot_ext n s s _ _ (fun i _ => eq_refl) (damped_target_is_powell n h h_inv s y m)).
  rewrite S_dot_vadd_r, !S_dot_vscal_r, <- dot_vecmat_l.
  rewrite damped_theta_damped by exact Hg.
  pose proof (five_nonzero Hch) as H5.
  unfold cst, ofZ. cbn [ofPos]. env.
  set (b := dot n (vecmat n s h) s) in *. set (a := dot n s y) in *.
  field. split; [first [exact H5 | intro Hx; apply H5; rewrite <- Hx; ring] | exact Hd].
Qed.

(* ------------------------------------------------------------------------------------------ *)
(* Null update, guards                                                                          *)
Lemma null_identity n (h h_inv : mat) (s y : vec) :
  NullUpdate_updated_h E n h h_inv s y = h /\ NullUpdate_updated_h_inv E n h h_inv s y = h_inv /\
  NullUpdate_conditions_met E n h h_inv s y = true.
Proof. repeat split. Qed.

Lemma pd_guard n (h h_inv : mat) (s y : vec) (m : F) :
  BFGSPDUpdate_conditions_met E n h h_inv s y m = true ->
  BFGSUpdate_conditions_met E n h h_inv s y = true /\
  Feig n (BFGSPDUpdate_updated_h E n h h_inv s y m) m = true.
Proof.
  unfold BFGSPDUpdate_conditions_met, BFGSUpdate_conditions_met. cbv zeta. env.
  intros H. apply andb_true_iff in H. exact H.
Qed.

Lemma damped_pd_guard n (h h_inv : mat) (s y : vec) (m : F) :
  BFGSDampedUpdate_conditions_met E n h h_inv s y m = true ->
  BFGSUpdate_conditions_met E n h h_inv s y = true /\
  Feig n (BFGSDampedUpdate_updated_h E n h h_inv s y m) m = true.
Proof.
  unfold BFGSDampedUpdate_conditions_met, BFGSUpdate_conditions_met. cbv zeta. env.
  intros H. apply andb_true_iff in H. exact H.
Qed.

Lemma bfgs_guard n (h h_inv : mat) (s y : vec) :
  BFGSUpdate_conditions_met E n h h_inv s y = negb (Fltb (dot n y s) 0).
Proof. unfold BFGSUpdate_conditions_met. rewrite cst_0_1. env. destruct (Fltb _ _); reflexivity. Qed.

Lemma sr1_guard n (h h_inv : mat) (s y : vec) :
  SR1Update_conditions_met E n h h_inv s y =
  Fltb (cst E 1 100000000 * vnorm E n s * vnorm E n (vsub y (matvec n h s))) (Fabs (dot n s (vsub y (matvec n h s)))).
Proof. reflexivity. Qed.

Lemma always_applicable n (h h_inv : mat) (s y : vec) :
  BofillUpdate_conditions_met E n h h_inv s y = true /\ FlowchartUpdate_conditions_met E n h h_inv s y = true /\
  BFGSSR1Update_conditions_met E n h h_inv s y = true.
Proof. repeat split. Qed.

(* np.linalg.inv based inverse forms: whatever the oracle returns is declared the inverse of the
   direct update; if the oracle is a right inverse the two forms are mutual inverses by definition *)
Lemma oracle_inverse_forms n (h h_inv : mat) (s y : vec) :
  BofillUpdate_updated_h_inv E n h h_inv s y = Fminv n (BofillUpdate_updated_h E n h h_inv s y) /\
  FlowchartUpdate_updated_h_inv E n h h_inv s y = Fminv n (FlowchartUpdate_updated_h E n h h_inv s y) /\
  BFGSSR1Update_updated_h_inv E n h h_inv s y = Fminv n (BFGSSR1Update_updated_h E n h h_inv s y).
Proof. repeat split. Qed.

(* ------------------------------------------------------------------------------------------ *)
(* Sherman-Morrison: the inverse forms are the inverses of the direct forms                     *)
(* basic sums that occur when two updates are multiplied *)
Lemma sum_lin2 n (c1 c2 : F) (f1 f2 : nat -> F) :
  sum n (fun k => c1 * f1 k + c2 * f2 k) = c1 * sum n f1 + c2 * sum n f2.
Proof. rewrite S_sum_add, !S_sum_scal_l. reflexivity. Qed.

Lemma sr1_inverse n (h h_inv : mat) (s y : vec) :
  symmetric n h -> symmetric n h_inv ->
  meq n (matmul n h h_inv) ident ->
  dot n (vsub y (matvec n h s)) s <> 0 ->
  dot n (vsub s (matvec n h_inv y)) y <> 0 ->
  meq n (matmul n (SR1Update_updated_h E n h h_inv s y) (SR1Update_updated_h_inv E n h h_inv s y)) ident.
Proof.
  intros Hs Hsi Hinv Ha Hb i j Hi Hj.
  unfold SR1Update_updated_h, SR1Update_updated_h_inv. cbv zeta. env.
  set (z := vsub y (matvec n h s)) in *. set (t := vsub s (matvec n h_inv y)) in *.
  set (a := dot n z s) in *. set (b := dot n t y) in *.
  (* (H + z z^T / a) (B + t t^T / b), entry (i,j) as a sum over k *)
  unfold Sums.matmul.
  rewrite (S_sum_ext n _ (fun k => (h i k * h_inv k j + (t j / b) * (h i k * t k))
                                   + ((z i / a) * (z k * h_inv k j) + (z i * t j / (a * b)) * (z k * t k)))).
  2:{ intros k Hk. unfold Sums.madd, Sums.mdivs, Sums.outer. field. split; assumption. }
  rewrite S_sum_add, !S_sum_add, !S_sum_scal_l.
  (* the four basic sums *)
  assert (E1 : sum n (fun k => h i k * h_inv k j) = ident i j) by (apply (Hinv i j Hi Hj)).
  (* H t = H s - H B y = H s - y = - z *)
  assert (HBy : forall p, (p < n)%nat -> matvec n h (matvec n h_inv y) p = y p).
  { intros p Hp. rewrite <- S_mm_mv. rewrite (mv_ext n _ ident y p Hinv Hp). apply S_mv_ident; exact Hp. }
  assert (E2 : sum n (fun k => h i k * t k) = - z i).
  { change (matvec n h t i = - z i). unfold t. rewrite S_mv_vsub, HBy by exact Hi. unfold z, Sums.vsub. ring. }
  (* z^T B = (B z)^T = (B y - B H s)^T = (B y - s)^T = - t^T   (B symmetric, B H = (H B)^T = I) *)
  assert (BHs : forall p, (p < n)%nat -> matvec n h_inv (matvec n h s) p = s p).
  { intros p Hp. rewrite <- S_mm_mv.
    assert (Hm : meq n (matmul n h_inv h) ident).
    { intros u v Hu Hv. unfold Sums.matmul.
      rewrite (S_sum_ext n _ (fun k => h v k * h_inv k u))
        by (intros k Hk; rewrite (Hsi u k), (Hs k v) by assumption; ring).
      transitivity (ident v u); [exact (Hinv v u Hv Hu)|].
      unfold Sums.ident. rewrite (Nat.eqb_sym v u). reflexivity. }
    rewrite (mv_ext n _ ident s p Hm Hp). apply S_mv_ident; exact Hp. }
  assert (E3 : sum n (fun k => z k * h_inv k j) = - t j).
  { change (vecmat n z h_inv j = - t j). rewrite S_vm_sym by assumption.
    unfold z. rewrite S_mv_vsub, BHs by exact Hj. unfold t, Sums.vsub. ring. }
  (* z . t = a + b  *)
  assert (E4 : sum n (fun k => z k * t k) = a + b).
  { change (dot n z t = a + b). unfold t at 1. rewrite S_dot_vsub_r. fold a.
    replace (dot n z (matvec n h_inv y)) with (- b); [ring|].
    rewrite S_dot_mv_sym by exact Hsi.
    rewrite (S_dot_ext n _ (Sums.vneg F Fopp t) y y).
    - rewrite S_dot_vneg_l. reflexivity.
    - intros p Hp. unfold z. rewrite S_mv_vsub, BHs by exact Hp. unfold t, Sums.vneg, Sums.vsub. ring.
    - intros p Hp. reflexivity. }
  rewrite E1, E2, E3, E4. field. split; assumption.
Qed.

Lemma bfgs_inverse n (h h_inv : mat) (s y : vec) :
  meq n (matmul n h h_inv) ident ->
  dot n y s <> 0 -> dot n s (matvec n h s) <> 0 ->
  meq n (matmul n (BFGSUpdate_updated_h E n h h_inv s y) (BFGSUpdate_updated_h_inv E n h h_inv s y)) ident.
Proof.
  intros Hinv Ha Hb i j Hi Hj.
  unfold BFGSUpdate_updated_h, BFGSUpdate_updated_h_inv. cbv zeta. unfold fsq. env.
  rewrite (S_dot_comm n s y).
  set (a := dot n y s) in *. set (w := matvec n h s) in *. set (b := dot n s w) in *.
  set (r := vecmat n s h). set (u := matvec n h_inv y). set (v := vecmat n y h_inv).
  set (p := dot n y u).
  assert (Haa : a * a <> 0) by (apply mul_nonzero; exact Ha).
  unfold Sums.matmul at 1.
  rewrite (S_sum_ext n _ (fun k =>
      ((h i k * h_inv k j + ((a + p) / (a * a) * s j) * (h i k * s k))
       - ((s j / a) * (h i k * u k) + (v j / a) * (h i k * s k)))
      + (((y i / a) * (y k * h_inv k j) + ((a + p) / (a * a) * s j * y i / a) * (y k * s k))
         - ((s j * y i / (a * a)) * (y k * u k) + (v j * y i / (a * a)) * (y k * s k)))
      - (((w i / b) * (r k * h_inv k j) + ((a + p) / (a * a) * s j * w i / b) * (r k * s k))
         - ((s j * w i / (a * b)) * (r k * u k) + (v j * w i / (a * b)) * (r k * s k))))).
  2:{ intros k Hk. unfold Sums.msub, Sums.madd, Sums.mdivs, Sums.mscal. rewrite matmul_outer_r.
      unfold Sums.outer. fold u. fold v. fold r. field. repeat split; assumption. }
  rewrite !S_sum_sub, !S_sum_add, !S_sum_sub, !S_sum_add, !S_sum_scal_l.
  assert (HBy : forall q, (q < n)%nat -> matvec n h u q = y q).
  { intros q Hq. unfold u. rewrite <- S_mm_mv. rewrite (mv_ext n _ ident y q Hinv Hq). apply S_mv_ident; exact Hq. }
  assert (rB : forall q, (q < n)%nat -> vecmat n r h_inv q = s q).
  { intros q Hq. unfold r. rewrite <- vm_matmul. rewrite (vm_ext n s _ ident q Hinv Hq). apply vm_ident; exact Hq. }
  assert (E1 : sum n (fun k => h i k * h_inv k j) = ident i j) by (apply (Hinv i j Hi Hj)).
  assert (E2 : sum n (fun k => h i k * s k) = w i) by reflexivity.
  assert (E3 : sum n (fun k => h i k * u k) = y i) by (apply (HBy i Hi)).
  assert (E4 : sum n (fun k => y k * h_inv k j) = v j) by reflexivity.
  assert (E5 : sum n (fun k => y k * s k) = a) by reflexivity.
  assert (E6 : sum n (fun k => y k * u k) = p) by reflexivity.
  assert (E7 : sum n (fun k => r k * h_inv k j) = s j) by (apply (rB j Hj)).
  assert (E8 : sum n (fun k => r k * s k) = b).
  { change (dot n r s = b). unfold r. rewrite dot_vecmat_l. reflexivity. }
  assert (E9 : sum n (fun k => r k * u k) = a).
  { change (dot n r u = a). unfold r. rewrite dot_vecmat_l.
    rewrite (S_dot_ext n s s _ y (fun q _ => eq_refl) HBy). apply S_dot_comm. }
  rewrite E1, E2, E3, E4, E5, E6, E7, E8, E9.
  field. repeat split; assumption.
Qed.

(* symmetry of the closed inverse forms *)
Lemma bfgs_inv_symmetric n (h h_inv : mat) (s y : vec) :
  symmetric n h_inv -> dot n s y <> 0 ->
  symmetric n (BFGSUpdate_updated_h_inv E n h h_inv s y).
Proof.
  intros Hs Ha i j Hi Hj. unfold BFGSUpdate_updated_h_inv. cbv zeta.
  pose proof (fsq_nonzero _ Ha) as Ha2. unfold fsq in *. env.
  unfold Sums.msub, Sums.madd, Sums.mdivs, Sums.mscal. rewrite !matmul_outer_r.
  unfold Sums.outer. rewrite !S_vm_sym by assumption. rewrite (Hs i j) by assumption.
  field; repeat split; assumption.
Qed.

Lemma sr1_inv_symmetric n (h h_inv : mat) (s y : vec) :
  symmetric n h_inv -> dot n (vsub s (matvec n h_inv y)) y <> 0 ->
  symmetric n (SR1Update_updated_h_inv E n h h_inv s y).
Proof.
  intros Hs Ha i j Hi Hj. unfold SR1Update_updated_h_inv. cbv zeta. env.
  unfold Sums.madd, Sums.mdivs, Sums.outer. rewrite (Hs i j) by assumption. field. exact Ha.
Qed.

(* ------------------------------------------------------------------------------------------ *)
(* sub-space embedding (hessian_update.py:67-81)                                                *)
Lemma ensure_hermitian_entry (m : mat) i j : ensure_hermitian E m i j = (m i j + m j i) / (1 + 1).
Proof. unfold ensure_hermitian. rewrite cst_2_1. reflexivity. Qed.

Lemma ensure_hermitian_symmetric n (m : mat) : symmetric n (ensure_hermitian E m).
Proof.
  intros i j _ _. rewrite !ensure_hermitian_entry. f_equal. ring.
Qed.

Lemma ensure_hermitian_of_symmetric n (m : mat) i j :
  1 + 1 <> 0 -> symmetric n m -> (i < n)%nat -> (j < n)%nat -> ensure_hermitian E m i j = m i j.
Proof. intros H2 Hs Hi Hj. rewrite ensure_hermitian_entry, (Hs j i) by assumption. env. field. exact H2. Qed.

End Lem.

(* ---- the enumerate loops (no field needed; any element type) ---- *)
Section Scatter.
Context {A : Type}.
Notation matA := (nat -> nat -> A).

(* inner loop: for j, idx_j in enumerate(l): m[r, idx_j] = g j *)
Definition inner_loop (k : nat) (l : list nat) (r : nat) (g : nat -> A) (m : matA) : matA :=
  fold_enum_from k l (fun j idx_j m => mupd m r idx_j (g j)) m.

Lemma inner_cons k x l r g (m : matA) :
  inner_loop k (x :: l) r g m = inner_loop (S k) l r g (mupd m r x (g k)).
Proof. reflexivity. Qed.

Lemma inner_untouched l : forall k r g (m : matA) p q,
  (p <> r \/ ~ In q l) -> inner_loop k l r g m p q = m p q.
Proof.
  induction l as [|x l IH]; intros k r g m p q H; [reflexivity|].
  rewrite inner_cons, IH.
  - unfold mupd. destruct (Nat.eqb p r) eqn:E1; [|reflexivity].
    destruct (Nat.eqb q x) eqn:E2; [|reflexivity].
    apply Nat.eqb_eq in E1, E2. subst. destruct H as [H|H]; [congruence|]. exfalso. apply H. left. reflexivity.
  - destruct H as [H|H]; [left; exact H|right]. intro Hc. apply H. right. exact Hc.
Qed.

Lemma inner_written l : forall k r g (m : matA) b,
  NoDup l -> (b < length l)%nat -> inner_loop k l r g m r (nth b l 0%nat) = g (k + b)%nat.
Proof.
  induction l as [|x l IH]; intros k r g m b Hnd Hb; [cbn in Hb; lia|].
  inversion Hnd as [|? ? Hx Hnd']; subst. rewrite inner_cons.
  destruct b as [|b].
  - cbn [nth]. rewrite (inner_untouched l (S k) r g _ r x) by (right; exact Hx).
    unfold mupd. rewrite !Nat.eqb_refl. cbn. f_equal. lia.
  - cbn [nth]. rewrite IH by (try assumption; cbn in Hb; lia). f_equal. lia.
Qed.

(* outer loop: for i, idx_i in enumerate(l): inner loop over all of idxs with row idx_i *)
Definition outer_loop (k : nat) (l idxs : list nat) (g : nat -> nat -> A) (m : matA) : matA :=
  fold_enum_from k l (fun i idx_i m => inner_loop 0 idxs idx_i (g i) m) m.

Lemma outer_cons k x l idxs g (m : matA) :
  outer_loop k (x :: l) idxs g m = outer_loop (S k) l idxs g (inner_loop 0 idxs x (g k) m).
Proof. reflexivity. Qed.

Lemma outer_untouched l : forall k idxs g (m : matA) p q,
  (~ In p l \/ ~ In q idxs) -> outer_loop k l idxs g m p q = m p q.
Proof.
  induction l as [|x l IH]; intros k idxs g m p q H; [reflexivity|].
  rewrite outer_cons, IH.
  - apply inner_untouched. destruct H as [H|H]; [left|right; exact H].
    intro Hc. apply H. left. symmetry. exact Hc.
  - destruct H as [H|H]; [left|right; exact H]. intro Hc. apply H. right. exact Hc.
Qed.

Lemma outer_written l : forall k idxs g (m : matA) a b,
  NoDup l -> NoDup idxs -> (a < length l)%nat -> (b < length idxs)%nat ->
  outer_loop k l idxs g m (nth a l 0%nat) (nth b idxs 0%nat) = g (k + a)%nat b.
Proof.
  induction l as [|x l IH]; intros k idxs g m a b Hnd Hnd2 Ha Hb; [cbn in Ha; lia|].
  inversion Hnd as [|? ? Hx Hnd']; subst. rewrite outer_cons.
  destruct a as [|a].
  - cbn [nth]. rewrite (outer_untouched l (S k) idxs g _ x _) by (left; exact Hx).
    rewrite inner_written by assumption. f_equal. lia.
  - cbn [nth]. rewrite IH by (try assumption; cbn in Ha; lia). f_equal. lia.
Qed.
End Scatter.

Section Embed.
Variable F : Type.
Variables (F0 F1 : F) (Fadd Fmul Fsub : F -> F -> F) (Fopp : F -> F) (Fdiv : F -> F -> F) (Finv : F -> F).
Hypothesis Fth : field_theory F0 F1 Fadd Fmul Fsub Fopp Fdiv Finv (@eq F).
Variables (Fltb : F -> F -> bool) (Fsqrt Fabs : F -> F)
          (Fminv : nat -> (nat -> nat -> F) -> nat -> nat -> F) (Feig : nat -> (nat -> nat -> F) -> F -> bool).
Let E : fenv := mkFenv F F0 F1 Fadd Fmul Fsub Fopp Fdiv Finv Fltb Fsqrt Fabs Fminv Feig.
Notation mat := (nat -> nat -> F).

Lemma full_space_is_loops (idxs : list nat) (m m_sub : mat) :
  matrix_in_full_space E idxs m m_sub = ensure_hermitian E (outer_loop 0 idxs idxs m_sub m).
Proof. reflexivity. Qed.

Lemma full_space_untouched (idxs : list nat) (m m_sub : mat) i j :
  ~ (In i idxs /\ In j idxs) ->
  matrix_in_full_space E idxs m m_sub i j = Fdiv (Fadd (m i j) (m j i)) (Fadd F1 F1).
Proof.
  intros H. rewrite full_space_is_loops.
  rewrite (ensure_hermitian_entry F F0 F1 Fadd Fmul Fsub Fopp Fdiv Finv Fth Fltb Fsqrt Fabs Fminv Feig).
  assert (Hd : ~ In i idxs \/ ~ In j idxs).
  { destruct (in_dec Nat.eq_dec i idxs) as [Hi|Hi]; [|left; exact Hi].
    right. intro Hj. apply H. split; assumption. }
  rewrite !outer_untouched; [reflexivity| |exact Hd]. destruct Hd as [Hd|Hd]; [right|left]; exact Hd.
Qed.

Lemma full_space_block (idxs : list nat) (m m_sub : mat) a b :
  NoDup idxs -> (a < length idxs)%nat -> (b < length idxs)%nat ->
  matrix_in_full_space E idxs m m_sub (nth a idxs 0%nat) (nth b idxs 0%nat) =
  Fdiv (Fadd (m_sub a b) (m_sub b a)) (Fadd F1 F1).
Proof.
  intros Hnd Ha Hb. rewrite full_space_is_loops.
  rewrite (ensure_hermitian_entry F F0 F1 Fadd Fmul Fsub Fopp Fdiv Finv Fth Fltb Fsqrt Fabs Fminv Feig).
  rewrite !outer_written by assumption. reflexivity.
Qed.

Add Field FfEmbed : Fth.

Lemma half_double (x : F) : Fadd F1 F1 <> F0 -> Fdiv (Fadd x x) (Fadd F1 F1) = x.
Proof. intros H2. field. exact H2. Qed.

Lemma full_space_untouched_sym (idxs : list nat) N (m m_sub : mat) i j :
  Fadd F1 F1 <> F0 -> Sums.symmetric F N m -> (i < N)%nat -> (j < N)%nat ->
  ~ (In i idxs /\ In j idxs) -> matrix_in_full_space E idxs m m_sub i j = m i j.
Proof.
  intros H2 Hs Hi Hj Hout. rewrite full_space_untouched by exact Hout.
  rewrite (Hs j i) by assumption. apply half_double. exact H2.
Qed.

Lemma full_space_block_sym (idxs : list nat) (m m_sub : mat) a b :
  Fadd F1 F1 <> F0 -> NoDup idxs -> Sums.symmetric F (length idxs) m_sub ->
  (a < length idxs)%nat -> (b < length idxs)%nat ->
  matrix_in_full_space E idxs m m_sub (nth a idxs 0%nat) (nth b idxs 0%nat) = m_sub a b.
Proof.
  intros H2 Hnd Hs Ha Hb. rewrite full_space_block by assumption.
  rewrite (Hs b a) by assumption. apply half_double. exact H2.
Qed.

Lemma full_space_symmetric N (idxs : list nat) (m m_sub : mat) :
  Sums.symmetric F N (matrix_in_full_space E idxs m m_sub).
Proof.
  rewrite full_space_is_loops.
  apply (ensure_hermitian_symmetric F F0 F1 Fadd Fmul Fsub Fopp Fdiv Finv Fth Fltb Fsqrt Fabs Fminv Feig).
Qed.

Lemma sub_m_entry (idxs : list nat) (x : mat) a b :
  sub_m E idxs x a b = x (nth a idxs 0%nat) (nth b idxs 0%nat).
Proof. reflexivity. Qed.
Lemma sub_v_entry (idxs : list nat) (x : nat -> F) a : sub_v E idxs x a = x (nth a idxs 0%nat).
Proof. reflexivity. Qed.
End Embed.

(* ---- first applicable updater (coordinates/base.py:233-251) ---- *)
Lemma first_applicable_from_spec {M : Type} (l : list (bool * M)) : forall k,
  match first_applicable_from k l with
  | Chosen j m => exists i, j = (k + i)%nat /\ nth_error l i = Some (true, m) /\
                            forall i', (i' < i)%nat -> exists m', nth_error l i' = Some (false, m')
  | NoSuitableStrategy => forall c m, In (c, m) l -> c = false
  end.
Proof.
  induction l as [|[c m] l IH]; intros k; cbn [first_applicable_from].
  - intros c m [].
  - destruct c.
    + exists 0%nat. repeat split; [lia|]. intros i' Hi'. lia.
    + specialize (IH (S k)). destruct (first_applicable_from (S k) l) as [j m'|].
      * destruct IH as [i [Hj [Hn Hlt]]]. exists (S i). repeat split; [lia|exact Hn|].
        intros i' Hi'. destruct i' as [|i']; [exists m; reflexivity|]. apply Hlt. lia.
      * intros c' m'' [Heq|Hin]; [congruence|]. exact (IH c' m'' Hin).
Qed.

(* ---- the public properties updated_h / updated_h_inv of HessianUpdater, composed from the generated
   pieces by the hand model Model.full_update ---- *)
Definition impl_updated_h (E : fenv) (upd : nat -> Mat E -> Mat E -> Vec E -> Vec E -> Mat E)
    (subspace : option (list nat)) (n : nat) (h h_inv : Mat E) (s y : Vec E) : Mat E :=
  full_update (sub_m E) (sub_v E) (matrix_in_full_space E) upd subspace n h h h_inv s y.
Definition impl_updated_h_inv (E : fenv) (upd : nat -> Mat E -> Mat E -> Vec E -> Vec E -> Mat E)
    (subspace : option (list nat)) (n : nat) (h h_inv : Mat E) (s y : Vec E) : Mat E :=
  full_update (sub_m E) (sub_v E) (matrix_in_full_space E) upd subspace n h_inv h h_inv s y.

Ltac open_env E :=
  destruct E; cbn [fF f0 f1 fadd fmul fsub fopp fdiv finv fltb fsqrt fabs fminv feig_all_gt] in *.

(* ------------------------------------------------------------------------------------------ *)
(* degenerate step information, decided on the model at exact rationals                         *)
From Coq Require Import QArith Qcanon Lqa.
From AV.lib Require Import QcInst.

Section QcDegenerate.
Variable sq : Qc -> Qc.
Variable mi : nat -> (nat -> nat -> Qc) -> nat -> nat -> Qc.
Variable eg : nat -> (nat -> nat -> Qc) -> Qc -> bool.
Let QE := QcEnv sq mi eg.
Local Open Scope Qc_scope.

Lemma Qcltb_true a b : Qcltb a b = true -> a < b.
Proof.
  unfold Qcltb. intros H. apply negb_true_iff in H.
  apply Qcnot_le_lt. intro Hle. unfold Qcle in Hle. apply Qle_bool_iff in Hle. congruence.
Qed.

Lemma Qc_mul_nonneg a b : 0 <= a -> 0 <= b -> 0 <= a * b.
Proof.
  intros Ha Hb. replace 0 with (0 * b) by ring. apply Qcmult_le_compat_r; assumption.
Qed.

Lemma Qcabs_0 : Qcabs 0 = 0.
Proof. reflexivity. Qed.

(* SR1: the guard |s.(y-Hs)| > r |s| |y-Hs| excludes a zero denominator (hessian_update.py:293, 341) *)
Lemma sr1_guard_nonzero n (h h_inv : nat -> nat -> Qc) (s y : nat -> Qc) :
  (forall x, 0 <= sq x) ->
  SR1Update_conditions_met QE n h h_inv s y = true ->
  all_nonzero QE (SR1Update_updated_h_denoms QE n h h_inv s y).
Proof.
  intros Hsq Hc. unfold SR1Update_updated_h_denoms. cbv zeta.
  unfold all_nonzero. constructor; [|constructor].
  unfold SR1Update_conditions_met in Hc. cbv zeta in Hc. unfold vnorm in Hc.
  unfold QE, QcEnv in *. cbn [fF f0 f1 fadd fmul fsub fopp fdiv finv fltb fsqrt fabs] in *.
  intro Hz.
  rewrite (dot_comm Qc 0 1 Qcplus Qcmult Qcminus Qcopp Qcdiv Qcinv Qcft n s (vsub _ _ _ _)) in Hc.
  rewrite Hz, Qcabs_0 in Hc.
  set (r := cst _ 1 100000000) in *.
  assert (Hr : 0 <= r) by (subst r; unfold Qcle; vm_compute; discriminate).
  clearbody r. apply Qcltb_true in Hc.
  apply (Qclt_not_le _ _ Hc).
  apply Qc_mul_nonneg; [apply Qc_mul_nonneg|]; [exact Hr | apply Hsq | apply Hsq].
Qed.

Definition one1 : nat -> nat -> Qc := fun _ _ => 1.
Definition v0 : nat -> Qc := fun _ => 0.
Definition v1 : nat -> Qc := fun _ => 1.

Definition has_zero (l : list Qc) : Prop := Exists (fun d => d = 0) l.

(* BFGS: a zero step passes conditions_met (y.s < 0 is false) and both divisors of _updated_h are 0 *)
Lemma bfgs_zero_step :
  BFGSUpdate_conditions_met QE 1 one1 one1 v0 v1 = true /\
  BFGSUpdate_updated_h_denoms QE 1 one1 one1 v0 v1 = [0; 0].
Proof. split; vm_compute; reflexivity. Qed.

(* ... and so does a non-zero step orthogonal to the gradient change (n = 2) *)
Definition e1 : nat -> Qc := fun i => match i with O => 1 | _ => 0 end.
Definition e2 : nat -> Qc := fun i => match i with S O => 1 | _ => 0 end.
Definition id2 : nat -> nat -> Qc := fun i j => if Nat.eqb i j then 1 else 0.
Lemma bfgs_orthogonal_step :
  BFGSUpdate_conditions_met QE 2 id2 id2 e1 e2 = true /\
  has_zero (BFGSUpdate_updated_h_denoms QE 2 id2 id2 e1 e2).
Proof. split; [vm_compute; reflexivity|]. constructor. vm_compute. reflexivity. Qed.

(* the positive-definite variants evaluate _updated_h inside conditions_met: the guard itself divides by 0 *)
Lemma bfgspd_zero_step m :
  has_zero (BFGSPDUpdate_conditions_met_denoms QE 1 one1 one1 v0 v1 m) /\
  has_zero (BFGSDampedUpdate_conditions_met_denoms QE 1 one1 one1 v0 v1 m).
Proof.
  split.
  - constructor. vm_compute. reflexivity.
  - unfold BFGSDampedUpdate_conditions_met_denoms, BFGSDampedUpdate_updated_h_denoms. cbv zeta.
    apply Exists_exists. exists 0. split; [|reflexivity].
    apply in_or_app. left. apply in_or_app. right. left. vm_compute. reflexivity.
Qed.

(* Bofill: zero step with a gradient change: the |dE| < 1e-6 guard does not fire, conditions_met = true *)
Lemma bofill_zero_step :
  sq 1 = 1 ->
  BofillUpdate_conditions_met QE 1 one1 one1 v0 v1 = true /\
  has_zero (BofillUpdate_updated_h_denoms QE 1 one1 one1 v0 v1).
Proof.
  intros H1. split; [reflexivity|].
  unfold BofillUpdate_updated_h_denoms. cbv zeta. unfold vnorm.
  unfold QE, QcEnv. cbn [fF f0 f1 fadd fmul fsub fopp fdiv finv fltb fsqrt fabs].
  replace (dot Qc 0 Qcplus Qcmult 1 (vsub Qc Qcminus v1 (matvec Qc 0 Qcplus Qcmult 1 one1 v0))
               (vsub Qc Qcminus v1 (matvec Qc 0 Qcplus Qcmult 1 one1 v0))) with 1 by (vm_compute; reflexivity).
  rewrite H1.
  match goal with |- context [Qcltb 1 ?c] => replace (Qcltb 1 c) with false by (vm_compute; reflexivity) end.
  cbn [app]. constructor. vm_compute. reflexivity.
Qed.

(* Flowchart: zero step: both criteria are 0/0 (NaN in IEEE: every comparison false; x/0 = 0 here: also
   false against -0.1 and 0.1), so the PSB branch is taken and its divisor s.s is 0.  The first two
   entries of the divisor list are the criteria divisors; skipn 2 = divisors of the selected branch. *)
Lemma flowchart_zero_step :
  sq 0 = 0 -> sq 1 = 1 ->
  FlowchartUpdate_conditions_met QE 1 one1 one1 v0 v1 = true /\
  has_zero (skipn 2 (FlowchartUpdate_updated_h_denoms QE 1 one1 one1 v0 v1)).
Proof.
  intros H0 H1. split; [reflexivity|].
  unfold FlowchartUpdate_updated_h_denoms. cbv zeta. cbn [app skipn].
  unfold vnorm, QE, QcEnv. cbn [fF f0 f1 fadd fmul fsub fopp fdiv finv fltb fsqrt fabs].
  replace (dot Qc 0 Qcplus Qcmult 1 v0 v0) with 0 by (vm_compute; reflexivity).
  replace (dot Qc 0 Qcplus Qcmult 1 v1 v1) with 1 by (vm_compute; reflexivity).
  replace (dot Qc 0 Qcplus Qcmult 1 (vsub Qc Qcminus v1 (matvec Qc 0 Qcplus Qcmult 1 one1 v0))
               (vsub Qc Qcminus v1 (matvec Qc 0 Qcplus Qcmult 1 one1 v0))) with 1 by (vm_compute; reflexivity).
  rewrite H0, H1.
  match goal with |- context [Qcltb ?a ?b] =>
    replace (Qcltb a b) with false by (vm_compute; reflexivity) end.
  match goal with |- context [Qcltb ?a ?b] =>
    replace (Qcltb a b) with false by (vm_compute; reflexivity) end.
  constructor. vm_compute. reflexivity.
Qed.

(* BFGS-SR1: zero step, and also the exactly quadratic case y = H s (z = 0) *)
Lemma bfgs_sr1_zero_step :
  BFGSSR1Update_conditions_met QE 1 one1 one1 v0 v1 = true /\
  has_zero (BFGSSR1Update_updated_h_denoms QE 1 one1 one1 v0 v1).
Proof.
  split; [reflexivity|]. unfold BFGSSR1Update_updated_h_denoms. cbv zeta. cbn [app].
  constructor. vm_compute. reflexivity.
Qed.
Lemma bfgs_sr1_exact_quadratic :
  BFGSSR1Update_conditions_met QE 1 one1 one1 v1 v1 = true /\
  has_zero (BFGSSR1Update_updated_h_denoms QE 1 one1 one1 v1 v1).
Proof.
  split; [reflexivity|]. unfold BFGSSR1Update_updated_h_denoms. cbv zeta. cbn [app].
  do 2 apply Exists_cons_tl. constructor. vm_compute. reflexivity.
Qed.

(* SR1's guard does not protect the INVERSE form: gradient unchanged (y = 0) with s <> 0 passes
   conditions_met and makes the divisor (s - Hinv y).y of _updated_h_inv zero (hessian_update.py:309-312) *)
Lemma sr1_inverse_unguarded :
  sq 1 = 1 ->
  SR1Update_conditions_met QE 1 one1 one1 v1 v0 = true /\
  SR1Update_updated_h_denoms QE 1 one1 one1 v1 v0 = [Q2Qc (-1)] /\
  SR1Update_updated_h_inv_denoms QE 1 one1 one1 v1 v0 = [0].
Proof.
  intros H1. split; [|split; vm_compute; reflexivity].
  unfold SR1Update_conditions_met. cbv zeta. unfold vnorm, QE, QcEnv.
  cbn [fF f0 f1 fadd fmul fsub fopp fdiv finv fltb fsqrt fabs].
  replace (dot Qc 0 Qcplus Qcmult 1 v1 v1) with 1 by (vm_compute; reflexivity).
  match goal with |- context [sq (dot Qc 0 Qcplus Qcmult 1 ?z ?z)] =>
    replace (dot Qc 0 Qcplus Qcmult 1 z z) with 1 by (vm_compute; reflexivity) end.
  rewrite H1. vm_compute. reflexivity.
Qed.

(* SR1 rejects the zero step *)
Lemma sr1_zero_step_rejected : sq 0 = 0 -> SR1Update_conditions_met QE 1 one1 one1 v0 v1 = false.
Proof.
  intros H0. unfold SR1Update_conditions_met. cbv zeta. unfold vnorm, QE, QcEnv.
  cbn [fF f0 f1 fadd fmul fsub fopp fdiv finv fltb fsqrt fabs].
  replace (dot Qc 0 Qcplus Qcmult 1 v0 v0) with 0 by (vm_compute; reflexivity).
  rewrite H0.
  match goal with |- context [Qcabs ?d] => replace d with 0 by (vm_compute; reflexivity) end.
  rewrite Qcabs_0.
  match goal with |- Qcltb ?a 0 = false => replace a with 0 by ring end. reflexivity.
Qed.
End QcDegenerate.

(* the rational environment has characteristic 0 *)
Lemma QcEnv_ofPos_pos sq mi eg p : (0 < ofPos (QcEnv sq mi eg) p)%Qc.
Proof.
  induction p as [q IH|q IH|]; cbn [ofPos]; [| |reflexivity];
  set (x := ofPos _ q) in *; cbn [QcEnv f1 fadd fmul fF] in *; unfold Qclt in *;
  cbn [this Qcplus Qcmult Q2Qc] in *; rewrite !Qred_correct.
  all: change (this (Q2Qc 0)) with (Qred 0) in *; change (Qred 1) with 1%Q; rewrite ?Qred_correct in *; nra.
Qed.
Lemma QcEnv_char0 sq mi eg : char0 (QcEnv sq mi eg).
Proof.
  intros p Hc. pose proof (QcEnv_ofPos_pos sq mi eg p) as H. rewrite Hc in H.
  apply (Qclt_not_le _ _ H). cbn [QcEnv f0]. apply Qcle_refl.
Qed.
