(* C09/Props.v — the property theorems.  Every definition named  <Class>_updated_h, ..._updated_h_inv,
   ..._conditions_met, ..._denoms, ...__<local variable>, ensure_hermitian, matrix_in_full_space,
   sub_m, sub_v  is GENERATED from /repo's autode/opt/optimisers/hessian_update.py on every run
   (tr/translate_c09.py -> gen/C09_Gen.v).

   Unless stated otherwise a theorem holds for EVERY environment E whose arithmetic is a field
   (Leibniz equality; in particular Q and R), every interpretation of the oracles (float order
   test, sqrt, abs, numpy.linalg.inv, eigenvalue test), EVERY dimension n, every matrix h / h_inv
   and all vectors s (step) and y (gradient change).  "Denominators non-zero" premises are exactly
   the divisors the generated formula evaluates; what the code does when they vanish is the subject
   of the last group of theorems. *)
From Coq Require Import ZArith QArith Qcanon List Bool Arith Lia.
From AV.lib Require Import Sums QcInst.
From AV.C09 Require Import Model Lemmas.
From AV.gen Require Import C09_Gen.
Import ListNotations.

(* BFGS (also the formula used by BFGSPDUpdate): secant equation and symmetry. *)
Theorem bfgs_secant_symmetric :
  forall (E : fenv), is_field E ->
  forall n (h h_inv : Mat E) (s y : Vec E),
    Dot E n y s <> f0 E -> Dot E n s (Matvec E n h s) <> f0 E ->
    Veq E n (Matvec E n (BFGSUpdate_updated_h E n h h_inv s y) s) y /\
    (Symmetric E n h -> Symmetric E n (BFGSUpdate_updated_h E n h h_inv s y)) /\
    (forall m, BFGSPDUpdate_updated_h E n h h_inv s y m = BFGSUpdate_updated_h E n h h_inv s y).
Proof.
  intros E Eth. open_env E. intros n h h_inv s y Ha Hb. split; [|split].
  - eapply bfgs_secant; eauto.
  - intros Hs. eapply bfgs_symmetric; eauto.
  - reflexivity.
Qed.

(* BFGS: the Sherman-Morrison inverse form is the inverse of the direct form whenever h_inv is the
   inverse of h (the positive-definite class inherits the same inverse formula; the damped class has its own,
   see damped_inverse_form_is_inverse). *)
Theorem bfgs_inverse_form_is_inverse :
  forall (E : fenv), is_field E ->
  forall n (h h_inv : Mat E) (s y : Vec E),
    Meq E n (Matmul E n h h_inv) (Ident E) ->
    Dot E n y s <> f0 E -> Dot E n s (Matvec E n h s) <> f0 E ->
    Meq E n (Matmul E n (BFGSUpdate_updated_h E n h h_inv s y) (BFGSUpdate_updated_h_inv E n h h_inv s y))
          (Ident E) /\
    (forall m, BFGSPDUpdate_updated_h_inv E n h h_inv s y m = BFGSUpdate_updated_h_inv E n h h_inv s y).
Proof.
  intros E Eth. open_env E. intros n h h_inv s y Hinv Ha Hb. split.
  - eapply bfgs_inverse; eauto.
  - intros m. reflexivity.
Qed.

(* SR1: secant equation and symmetry. *)
Theorem sr1_secant_symmetric :
  forall (E : fenv), is_field E ->
  forall n (h h_inv : Mat E) (s y : Vec E),
    Dot E n (Vsub E y (Matvec E n h s)) s <> f0 E ->
    Veq E n (Matvec E n (SR1Update_updated_h E n h h_inv s y) s) y /\
    (Symmetric E n h -> Symmetric E n (SR1Update_updated_h E n h h_inv s y)).
Proof.
  intros E Eth. open_env E. intros n h h_inv s y Ha. split.
  - eapply sr1_secant; eauto.
  - intros Hs. eapply sr1_symmetric; eauto.
Qed.

(* SR1: inverse form is the inverse of the direct form (symmetric h, h_inv with h.h_inv = I). *)
Theorem sr1_inverse_form_is_inverse :
  forall (E : fenv), is_field E ->
  forall n (h h_inv : Mat E) (s y : Vec E),
    Symmetric E n h -> Symmetric E n h_inv ->
    Meq E n (Matmul E n h h_inv) (Ident E) ->
    Dot E n (Vsub E y (Matvec E n h s)) s <> f0 E ->
    Dot E n (Vsub E s (Matvec E n h_inv y)) y <> f0 E ->
    Meq E n (Matmul E n (SR1Update_updated_h E n h h_inv s y) (SR1Update_updated_h_inv E n h h_inv s y))
          (Ident E).
Proof. intros E Eth. open_env E. intros. eapply sr1_inverse; eauto. Qed.

(* Bofill: outside the |dg - H dx| < 1e-6 skip branch the update is (1-phi).MS + phi.PSB with the
   generated mixing factor phi_bofill; MS and PSB each satisfy the secant equation and are symmetric,
   hence so does the mix — for ANY value of phi. *)
Theorem bofill_secant_symmetric :
  forall (E : fenv), is_field E ->
  forall n (h h_inv : Mat E) (s y : Vec E),
    fltb E (vnorm E n (Vsub E y (Matvec E n h s))) (cst E 1 1000000) = false ->
    Dot E n (Vsub E y (Matvec E n h s)) s <> f0 E -> Dot E n s s <> f0 E ->
    BofillUpdate_updated_h E n h h_inv s y =
      Madd E (Mscal E (fsub E (f1 E) (BofillUpdate_updated_h__phi_bofill E n h h_inv s y))
                      (BofillUpdate_updated_h__G_i_MS E n h h_inv s y))
             (Mscal E (BofillUpdate_updated_h__phi_bofill E n h h_inv s y)
                      (BofillUpdate_updated_h__G_i_PSB E n h h_inv s y)) /\
    Veq E n (Matvec E n (BofillUpdate_updated_h__G_i_MS E n h h_inv s y) s) y /\
    Veq E n (Matvec E n (BofillUpdate_updated_h__G_i_PSB E n h h_inv s y) s) y /\
    Veq E n (Matvec E n (BofillUpdate_updated_h E n h h_inv s y) s) y /\
    (Symmetric E n h -> Symmetric E n (BofillUpdate_updated_h E n h h_inv s y)).
Proof.
  intros E Eth. open_env E. intros n h h_inv s y Hg Ha Hss. repeat split.
  - eapply bofill_is_mix; eauto.
  - eapply bofill_ms_secant; eauto.
  - eapply bofill_psb_secant; eauto.
  - eapply bofill_secant; eauto.
  - intros Hs. eapply bofill_symmetric; eauto.
Qed.

(* Bofill: when |dg - H dx| < min_update_tol the Hessian is returned unchanged (the one degenerate
   case the code guards). *)
Theorem bofill_degenerate_identity :
  forall (E : fenv), is_field E ->
  forall n (h h_inv : Mat E) (s y : Vec E),
    fltb E (vnorm E n (Vsub E y (Matvec E n h s))) (cst E 1 1000000) = true ->
    BofillUpdate_updated_h E n h h_inv s y = h.
Proof. intros E Eth. open_env E. intros. eapply bofill_skip; eauto. Qed.

(* Flowchart: each of the three branches (SR1 / BFGS / PSB, selected by the generated criteria)
   satisfies the secant equation and is symmetric. *)
Theorem flowchart_secant_symmetric :
  forall (E : fenv), is_field E ->
  forall n (h h_inv : Mat E) (s y : Vec E),
    let c1 := fltb E (FlowchartUpdate_updated_h__sr1_criteria E n h h_inv s y) (cst E (-1) 10) in
    let c2 := fltb E (cst E 1 10) (FlowchartUpdate_updated_h__bfgs_criteria E n h h_inv s y) in
    let H' := FlowchartUpdate_updated_h E n h h_inv s y in
    (c1 = true -> Dot E n (Vsub E y (Matvec E n h s)) s <> f0 E ->
       H' = SR1Update_updated_h E n h h_inv s y /\
       Veq E n (Matvec E n H' s) y /\ (Symmetric E n h -> Symmetric E n H')) /\
    (c1 = false -> c2 = true -> Dot E n y s <> f0 E -> Dot E n (Vecmat E n s h) s <> f0 E ->
       Veq E n (Matvec E n H' s) y /\ (Symmetric E n h -> Symmetric E n H')) /\
    (c1 = false -> c2 = false -> Dot E n s s <> f0 E ->
       H' = BofillUpdate_updated_h__G_i_PSB E n h h_inv s y /\
       Veq E n (Matvec E n H' s) y /\ (Symmetric E n h -> Symmetric E n H')).
Proof.
  intros E Eth. open_env E. intros n h h_inv s y. cbv zeta. repeat split.
  - eapply flowchart_branch_sr1; eauto.
  - erewrite flowchart_branch_sr1 by eauto. eapply sr1_secant; eauto.
  - intros Hs. erewrite flowchart_branch_sr1 by eauto. eapply sr1_symmetric; eauto.
  - erewrite flowchart_branch_bfgs by eauto. eapply bfgs_form_secant; eauto.
  - intros Hs. erewrite flowchart_branch_bfgs by eauto. eapply bfgs_form_symmetric; eauto.
  - eapply flowchart_branch_psb; eauto.
  - erewrite flowchart_branch_psb by eauto. eapply bofill_psb_secant; eauto.
  - intros Hs. erewrite flowchart_branch_psb by eauto. eapply bofill_psb_symmetric; eauto.
Qed.

(* BFGS-SR1: secant equation and symmetry, for any value the sqrt oracle returns. *)
Theorem bfgs_sr1_secant_symmetric :
  forall (E : fenv), is_field E ->
  forall n (h h_inv : Mat E) (s y : Vec E),
    Dot E n y s <> f0 E -> Dot E n (Vecmat E n s h) s <> f0 E ->
    Dot E n (Vsub E y (Matvec E n h s)) s <> f0 E ->
    Veq E n (Matvec E n (BFGSSR1Update_updated_h E n h h_inv s y) s) y /\
    (Symmetric E n h -> Symmetric E n (BFGSSR1Update_updated_h E n h h_inv s y)).
Proof.
  intros E Eth. open_env E. intros n h h_inv s y Ha Hb Hc. split.
  - eapply bfgs_sr1_secant; eauto.
  - intros Hs. eapply bfgs_sr1_symmetric; eauto.
Qed.

(* Powell-damped BFGS: H' s = y' (the generated y_), y' is Powell's theta*y + (1-theta)*H s with the
   generated theta, and H' is symmetric. *)
Theorem damped_target_symmetric :
  forall (E : fenv), is_field E ->
  forall n (h h_inv : Mat E) (s y : Vec E) (m : fF E),
    let y' := BFGSDampedUpdate_updated_h__y_ E n h h_inv s y m in
    let theta := BFGSDampedUpdate_updated_h__theta E n h h_inv s y m in
    Veq E n y' (Vadd E (Vscal E theta y) (Vscal E (fsub E (f1 E) theta) (Matvec E n h s))) /\
    (Dot E n (Vecmat E n s h) s <> f0 E -> Dot E n y' s <> f0 E ->
       Veq E n (Matvec E n (BFGSDampedUpdate_updated_h E n h h_inv s y m) s) y' /\
       (Symmetric E n h -> Symmetric E n (BFGSDampedUpdate_updated_h E n h h_inv s y m))).
Proof.
  intros E Eth. open_env E. intros n h h_inv s y m. cbv zeta. split.
  - eapply damped_target_is_powell; eauto.
  - intros Hb Hc. split.
    + eapply damped_secant; eauto.
    + intros Hs. eapply damped_symmetric; eauto.
Qed.

(* Powell's rule: when s.y < 0.2 s.H.s (theta < 1) the damped curvature is s.y' = 0.2 s.H.s with
   theta = 0.8 sHs / (sHs - s.y); otherwise theta = 1 and y' = y.   (Needs 5 <> 0: characteristic 0.)
   With the sign of hessian_update.py:267 flipped (the defect repaired by e77c452) this is false. *)
Theorem damped_curvature_powell :
  forall (E : fenv), is_field E -> char0 E ->
  forall n (h h_inv : Mat E) (s y : Vec E) (m : fF E),
    let shs := Dot E n (Vecmat E n s h) s in
    let guard := fltb E (Dot E n s y) (fmul E (cst E 1 5) shs) in
    let y' := BFGSDampedUpdate_updated_h__y_ E n h h_inv s y m in
    let theta := BFGSDampedUpdate_updated_h__theta E n h h_inv s y m in
    (guard = true -> fsub E shs (Dot E n s y) <> f0 E ->
       theta = fdiv E (fmul E (cst E 4 5) shs) (fsub E shs (Dot E n s y)) /\
       Dot E n s y' = fmul E (cst E 1 5) shs) /\
    (guard = false -> theta = f1 E /\ Veq E n y' y).
Proof.
  intros E Eth Hch. open_env E. intros n h h_inv s y m. cbv zeta. split.
  - intros Hg Hd. split.
    + eapply damped_theta_damped; eauto.
    + eapply damped_curvature; eauto.
  - intros Hg. split.
    + eapply damped_theta_undamped; eauto.
    + eapply damped_undamped_target; eauto.
Qed.

(* The null update returns its inputs and is always applicable. *)
Theorem null_update_identity :
  forall (E : fenv) n (h h_inv : Mat E) (s y : Vec E),
    NullUpdate_updated_h E n h h_inv s y = h /\ NullUpdate_updated_h_inv E n h h_inv s y = h_inv /\
    NullUpdate_conditions_met E n h h_inv s y = true.
Proof. intros. repeat split. Qed.

(* Sub-space embedding (updated_h / updated_h_inv with subspace_idxs = idxs, ANY updater formula upd,
   any index list): every entry outside idxs x idxs is the symmetrised input entry (the input entry
   itself for symmetric input and 2 <> 0); for duplicate-free idxs the idxs x idxs block holds the
   symmetrised update computed from the reduced h, h_inv, s, y; the result is symmetric; and with
   no subspace the update is returned as is. *)
Theorem subspace_embedding :
  forall (E : fenv), is_field E ->
  forall (upd : nat -> Mat E -> Mat E -> Vec E -> Vec E -> Mat E) (idxs : list nat) N (h h_inv : Mat E) (s y : Vec E),
    let U := upd (length idxs) (sub_m E idxs h) (sub_m E idxs h_inv) (sub_v E idxs s) (sub_v E idxs y) in
    let R := impl_updated_h E upd (Some idxs) N h h_inv s y in
    let Rinv := impl_updated_h_inv E upd (Some idxs) N h h_inv s y in
    let two := fadd E (f1 E) (f1 E) in
    (forall i j, ~ (In i idxs /\ In j idxs) ->
        R i j = fdiv E (fadd E (h i j) (h j i)) two /\ Rinv i j = fdiv E (fadd E (h_inv i j) (h_inv j i)) two) /\
    (forall i j, two <> f0 E -> Symmetric E N h -> (i < N)%nat -> (j < N)%nat -> ~ (In i idxs /\ In j idxs) ->
        R i j = h i j) /\
    (NoDup idxs -> forall a b, (a < length idxs)%nat -> (b < length idxs)%nat ->
        R (nth a idxs 0%nat) (nth b idxs 0%nat) = fdiv E (fadd E (U a b) (U b a)) two /\
        (two <> f0 E -> Symmetric E (length idxs) U -> sub_m E idxs R a b = U a b)) /\
    Symmetric E N R /\ Symmetric E N Rinv /\
    impl_updated_h E upd None N h h_inv s y = upd N h h_inv s y /\
    impl_updated_h_inv E upd None N h h_inv s y = upd N h h_inv s y /\
    (forall i, sub_v E idxs s i = s (nth i idxs 0%nat)) /\
    (forall i j, sub_m E idxs h i j = h (nth i idxs 0%nat) (nth j idxs 0%nat)).
Proof.
  intros E Eth. open_env E. intros upd idxs N h h_inv s y. cbv zeta.
  unfold impl_updated_h, impl_updated_h_inv, full_update.
  split; [|split; [|split; [|split; [|split; [|split; [|split; [|split]]]]]]].
  - intros i j Hout. split; eapply full_space_untouched; eauto.
  - intros i j H2 Hs Hi Hj Hout. eapply full_space_untouched_sym; eauto.
  - intros Hnd a b Ha Hb. split.
    + eapply full_space_block; eauto.
    + intros H2 HU. rewrite sub_m_entry. eapply full_space_block_sym; eauto.
  - eapply full_space_symmetric; eauto.
  - eapply full_space_symmetric; eauto.
  - reflexivity.
  - reflexivity.
  - reflexivity.
  - reflexivity.
Qed.

(* PARTIAL ("advertised positive definite => only applicable when the result is positive definite").
   What is proved: conditions_met of the PD classes is the BFGS guard AND the eigenvalue ORACLE
   "all eigenvalues of A > min_eigenvalue" applied to the update the class itself computes on the REDUCED
   problem (the damped class tests the damped update).  What is missing: feig_all_gt is uninterpreted, so no
   statement about definiteness is proved (numpy.linalg.eigvals is trusted; cross-checked on generated inputs
   by eigvalsh and by Sylvester's criterion); and with a subspace the test concerns the idxs x idxs block only
   - the entries outside are the untouched input, which may be indefinite (README "PD with a subspace"). *)
Theorem pd_guard_partial :
  forall (E : fenv) n (h h_inv : Mat E) (s y : Vec E) (m : fF E),
    (BFGSPDUpdate_conditions_met E n h h_inv s y m = true ->
       BFGSUpdate_conditions_met E n h h_inv s y = true /\
       feig_all_gt E n (BFGSPDUpdate_updated_h E n h h_inv s y m) m = true) /\
    (BFGSDampedUpdate_conditions_met E n h h_inv s y m = true ->
       BFGSUpdate_conditions_met E n h h_inv s y = true /\
       feig_all_gt E n (BFGSDampedUpdate_updated_h E n h h_inv s y m) m = true).
Proof.
  intros E n h h_inv s y m.
  unfold BFGSPDUpdate_conditions_met, BFGSDampedUpdate_conditions_met, BFGSUpdate_conditions_met. cbv zeta.
  split; intros H; apply andb_true_iff in H; exact H.
Qed.

(* PARTIAL (mutual inverses for Bofill / Flowchart / BFGS-SR1).  These classes have no closed inverse form:
   updated_h_inv IS numpy.linalg.inv applied to the direct update.  Proved: exactly that, and hence the two
   forms are mutual inverses whenever the oracle's answer FOR THAT MATRIX is a right inverse.  Missing: that
   numpy.linalg.inv returns an inverse (trusted; the returned matrix is multiplied with the model's update in
   the correspondence stream, streams IOracle / IOracleSub). *)
Theorem oracle_inverse_forms_partial :
  forall (E : fenv) n (h h_inv : Mat E) (s y : Vec E),
    let inv_ok A := Meq E n (Matmul E n A (fminv E n A)) (Ident E) in
    (BofillUpdate_updated_h_inv E n h h_inv s y = fminv E n (BofillUpdate_updated_h E n h h_inv s y) /\
     FlowchartUpdate_updated_h_inv E n h h_inv s y = fminv E n (FlowchartUpdate_updated_h E n h h_inv s y) /\
     BFGSSR1Update_updated_h_inv E n h h_inv s y = fminv E n (BFGSSR1Update_updated_h E n h h_inv s y)) /\
    (inv_ok (BofillUpdate_updated_h E n h h_inv s y) ->
     Meq E n (Matmul E n (BofillUpdate_updated_h E n h h_inv s y) (BofillUpdate_updated_h_inv E n h h_inv s y)) (Ident E)) /\
    (inv_ok (FlowchartUpdate_updated_h E n h h_inv s y) ->
     Meq E n (Matmul E n (FlowchartUpdate_updated_h E n h h_inv s y) (FlowchartUpdate_updated_h_inv E n h h_inv s y)) (Ident E)) /\
    (inv_ok (BFGSSR1Update_updated_h E n h h_inv s y) ->
     Meq E n (Matmul E n (BFGSSR1Update_updated_h E n h h_inv s y) (BFGSSR1Update_updated_h_inv E n h h_inv s y)) (Ident E)).
Proof. intros E n h h_inv s y inv_ok. repeat split; intros H; exact H. Qed.

(* The closed inverse forms (BFGS family, SR1) are symmetric when h_inv is. *)
Theorem inverse_forms_symmetric :
  forall (E : fenv), is_field E ->
  forall n (h h_inv : Mat E) (s y : Vec E),
    Symmetric E n h_inv ->
    (Dot E n s y <> f0 E -> Symmetric E n (BFGSUpdate_updated_h_inv E n h h_inv s y)) /\
    (Dot E n (Vsub E s (Matvec E n h_inv y)) y <> f0 E -> Symmetric E n (SR1Update_updated_h_inv E n h h_inv s y)).
Proof.
  intros E Eth. open_env E. intros n h h_inv s y Hs. split; intros Ha.
  - eapply bfgs_inv_symmetric; eauto.
  - eapply sr1_inv_symmetric; eauto.
Qed.

(* Powell-damped BFGS (after fix f804bb7): the inverse form IS numpy.linalg.inv of the DAMPED direct update, so
   the two forms are mutual inverses whenever the inverse oracle's answer for that matrix is a right inverse
   (same partiality as oracle_inverse_forms_partial: numpy.linalg.inv is trusted, checked by the IOracle stream).
   Before the fix the class inherited the undamped Sherman-Morrison formula and this was refuted (n = 1,
   H = Hinv = 1, s = 1, y = 1/10: product 2); finding key inverse-mismatch:BFGSDampedUpdate|damping-active. *)
Theorem damped_inverse_form_is_inverse :
  forall (E : fenv) n (h h_inv : Mat E) (s y : Vec E) (m : fF E),
    BFGSDampedUpdate_updated_h_inv E n h h_inv s y m = fminv E n (BFGSDampedUpdate_updated_h E n h h_inv s y m) /\
    (Meq E n (Matmul E n (BFGSDampedUpdate_updated_h E n h h_inv s y m)
                         (fminv E n (BFGSDampedUpdate_updated_h E n h h_inv s y m))) (Ident E) ->
     Meq E n (Matmul E n (BFGSDampedUpdate_updated_h E n h h_inv s y m)
                         (BFGSDampedUpdate_updated_h_inv E n h h_inv s y m)) (Ident E)).
Proof. intros E n h h_inv s y m. split; [reflexivity|intros H; exact H]. Qed.

(* The documented guards: BFGS (and, conjoined with the eigenvalue test, its PD variants) declines exactly
   when y.s < 0 ("must meet the secant condition"); SR1 requires |s.(y-Hs)| > r |s| |y-Hs| with r = 1e-8. *)
Theorem documented_guards :
  forall (E : fenv), is_field E ->
  forall n (h h_inv : Mat E) (s y : Vec E),
    BFGSUpdate_conditions_met E n h h_inv s y = negb (fltb E (Dot E n y s) (f0 E)) /\
    SR1Update_conditions_met E n h h_inv s y =
      fltb E (fmul E (fmul E (cst E 1 100000000) (vnorm E n s)) (vnorm E n (Vsub E y (Matvec E n h s))))
             (fabs E (Dot E n s (Vsub E y (Matvec E n h s)))).
Proof.
  intros E Eth. open_env E. intros n h h_inv s y. split.
  - eapply bfgs_guard; eauto.
  - eapply sr1_guard; eauto.
Qed.

(* Guards that never reject. *)
Theorem unconditional_updaters :
  forall (E : fenv) n (h h_inv : Mat E) (s y : Vec E),
    BofillUpdate_conditions_met E n h h_inv s y = true /\ FlowchartUpdate_conditions_met E n h h_inv s y = true /\
    BFGSSR1Update_conditions_met E n h h_inv s y = true.
Proof. intros. repeat split. Qed.

(* Degenerate step information — decided on the model at exact rationals (any sqrt oracle >= 0).
   SR1 is the one update whose guard excludes a vanishing divisor of the DIRECT form: *)
Theorem sr1_direct_guard_excludes_zero_denominator :
  forall sq mi eg, (forall x, (0 <= sq x)%Qc) ->
  forall n (h h_inv : nat -> nat -> Qc) (s y : nat -> Qc),
    SR1Update_conditions_met (QcEnv sq mi eg) n h h_inv s y = true ->
    all_nonzero (QcEnv sq mi eg) (SR1Update_updated_h_denoms (QcEnv sq mi eg) n h h_inv s y).
Proof. intros. eapply sr1_guard_nonzero; eauto. Qed.

(* ... but REFUTED for its INVERSE form: an unchanged gradient (y = 0, s <> 0) passes conditions_met, the
   direct divisor is non-zero and the inverse form's divisor (s - Hinv y).y is zero (inf/nan entries).
   Finding key degenerate-step:SR1Update|zero-gradient-change|inverse. *)
Theorem sr1_inverse_guard_refuted :
  forall sq mi eg, sq (Q2Qc 1) = Q2Qc 1 -> let QE := QcEnv sq mi eg in
  exists (h h_inv : nat -> nat -> Qc) (s y : nat -> Qc),
    s 0%nat <> Q2Qc 0 /\ SR1Update_conditions_met QE 1 h h_inv s y = true /\
    all_nonzero QE (SR1Update_updated_h_denoms QE 1 h h_inv s y) /\
    has_zero (SR1Update_updated_h_inv_denoms QE 1 h h_inv s y).
Proof.
  intros sq mi eg H1 QE. exists one1, one1, v1, v0. subst QE.
  destruct (sr1_inverse_unguarded sq mi eg H1) as [Hc [Hd Hi]].
  split; [cbn; discriminate|]. split; [exact Hc|]. split.
  - rewrite Hd. constructor; [cbn; discriminate|constructor].
  - rewrite Hi. constructor. reflexivity.
Qed.

(* ... whereas "degenerate step information leaves the Hessian unchanged" is FALSE of the code for the
   other updaters: a zero step s = 0 (n = 1, h = 1, y = 1) passes conditions_met of BFGS, Bofill,
   Flowchart and BFGS-SR1 and makes a divisor of _updated_h zero (IEEE: 0/0 or x/0, i.e. non-finite
   entries, confirmed on the implementation by the correspondence check); for BFGS the same happens for
   a non-zero step orthogonal to y; for BFGS-SR1 also on an exactly quadratic surface (y = H s); and the
   positive-definite classes divide by zero inside conditions_met itself (numpy raises LinAlgError). *)
Theorem degenerate_step_unchanged_refuted :
  forall sq mi eg, sq (Q2Qc 0) = Q2Qc 0 -> sq (Q2Qc 1) = Q2Qc 1 ->
  let QE := QcEnv sq mi eg in
  exists (h : nat -> nat -> Qc) (s0 y s1 : nat -> Qc),
    (forall i, s0 i = Q2Qc 0) /\
    (BFGSUpdate_conditions_met QE 1 h h s0 y = true /\ has_zero (BFGSUpdate_updated_h_denoms QE 1 h h s0 y)) /\
    (BofillUpdate_conditions_met QE 1 h h s0 y = true /\ has_zero (BofillUpdate_updated_h_denoms QE 1 h h s0 y)) /\
    (FlowchartUpdate_conditions_met QE 1 h h s0 y = true /\
       has_zero (skipn 2 (FlowchartUpdate_updated_h_denoms QE 1 h h s0 y))) /\
    (BFGSSR1Update_conditions_met QE 1 h h s0 y = true /\ has_zero (BFGSSR1Update_updated_h_denoms QE 1 h h s0 y)) /\
    (BFGSSR1Update_conditions_met QE 1 h h s1 y = true /\ has_zero (BFGSSR1Update_updated_h_denoms QE 1 h h s1 y) /\
       (forall i, (i < 1)%nat -> y i = matvec Qc (Q2Qc 0) Qcplus Qcmult 1 h s1 i)) /\
    (forall m, has_zero (BFGSPDUpdate_conditions_met_denoms QE 1 h h s0 y m) /\
               has_zero (BFGSDampedUpdate_conditions_met_denoms QE 1 h h s0 y m)) /\
    SR1Update_conditions_met QE 1 h h s0 y = false.
Proof.
  intros sq mi eg H0 H1 QE. exists one1, v0, v1, v1. subst QE.
  destruct (bfgs_zero_step sq mi eg) as [Hb1 Hb2].
  split; [reflexivity|].
  split; [split; [exact Hb1|rewrite Hb2; constructor; reflexivity]|].
  split; [exact (bofill_zero_step sq mi eg H1)|].
  split; [exact (flowchart_zero_step sq mi eg H0 H1)|].
  split; [exact (bfgs_sr1_zero_step sq mi eg)|].
  split.
  { destruct (bfgs_sr1_exact_quadratic sq mi eg) as [Hq1 Hq2]. split; [exact Hq1|split; [exact Hq2|]].
    intros i Hi. destruct i; [vm_compute; reflexivity|lia]. }
  split; [intros m; exact (bfgspd_zero_step sq mi eg m)|].
  exact (sr1_zero_step_rejected sq mi eg H0).
Qed.

(* A non-zero step orthogonal to the gradient change does the same to BFGS (n = 2). *)
Theorem bfgs_orthogonal_step_refuted :
  forall sq mi eg, let QE := QcEnv sq mi eg in
  exists (h : nat -> nat -> Qc) (s y : nat -> Qc),
    symmetric Qc 2 h /\ s 0%nat <> Q2Qc 0 /\
    BFGSUpdate_conditions_met QE 2 h h s y = true /\ has_zero (BFGSUpdate_updated_h_denoms QE 2 h h s y).
Proof.
  intros sq mi eg QE. exists id2, e1, e2. subst QE.
  split; [|split; [|exact (bfgs_orthogonal_step sq mi eg)]].
  - intros i j _ _. unfold id2. rewrite (Nat.eqb_sym i j). reflexivity.
  - cbn. discriminate.
Qed.

(* update_h_from_old_h: the first updater of the list whose conditions are met supplies the Hessian;
   the error is raised exactly when none is applicable. *)
Theorem first_applicable_updater :
  forall (M : Type) (l : list (bool * M)),
    match first_applicable l with
    | Chosen k m => nth_error l k = Some (true, m) /\
                    forall i, (i < k)%nat -> exists m', nth_error l i = Some (false, m')
    | NoSuitableStrategy => forall c m, In (c, m) l -> c = false
    end.
Proof.
  intros M l. unfold first_applicable. pose proof (first_applicable_from_spec l 0) as H.
  destruct (first_applicable_from 0 l) as [k m|]; [|exact H].
  destruct H as [i [Hk [Hn Hlt]]]. cbn in Hk. subst k. split; assumption.
Qed.

(* Non-vacuity: the hypotheses of the secant theorems are satisfiable (n = 2, exact rationals). *)
Example hypotheses_satisfiable :
  let E := QcEnv (fun x => x) (fun _ A => A) (fun _ _ _ => true) in
  let h : nat -> nat -> Qc := fun i j => if Nat.eqb i j then Q2Qc 2 else Q2Qc 1 in
  let s : nat -> Qc := fun i => match i with O => Q2Qc 1 | _ => Q2Qc 0 end in
  let y : nat -> Qc := fun i => match i with O => Q2Qc 1 | _ => Q2Qc 3 end in
  is_field E /\ char0 E /\ Symmetric E 2 h /\
  Dot E 2 y s <> f0 E /\ Dot E 2 s (Matvec E 2 h s) <> f0 E /\ Dot E 2 (Vsub E y (Matvec E 2 h s)) s <> f0 E /\
  Dot E 2 s s <> f0 E /\ Dot E 2 (Vecmat E 2 s h) s <> f0 E /\
  fltb E (Dot E 2 s y) (fmul E (cst E 1 5) (Dot E 2 (Vecmat E 2 s h) s)) = false /\
  matvec Qc (Q2Qc 0) Qcplus Qcmult 2 (BFGSUpdate_updated_h E 2 h h s y) s 0%nat = y 0%nat.
Proof.
  cbv zeta.
  split; [exact Qcft|]. split; [apply QcEnv_char0|].
  split; [intros i j _ _; rewrite (Nat.eqb_sym i j); reflexivity|].
  repeat split; try (vm_compute; discriminate); vm_compute; reflexivity.
Qed.
