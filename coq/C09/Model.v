(* C09/Model.v — vocabulary of the C09 model (definitions only).

   The formulas of autode/opt/optimisers/hessian_update.py are NOT written here: they are
   regenerated from the Python source on every run by tr/translate_c09.py into gen/C09_Gen.v,
   as Gallina terms over the vocabulary below.  This file fixes
     - [fenv]: the arithmetic environment the generated terms are parameterised over (an arbitrary
       field + the external numerics that are oracles: order test, sqrt, abs, numpy.linalg.inv,
       "all eigenvalues greater than c");
     - abbreviations specialising coq/lib/Sums.v to an environment;
     - decimal literals ([cst E p q] = p/q built from 0, 1, +, *, /);
     - the index vocabulary of HessianUpdater._apply_subspace / _matrix_in_full_space
       (hessian_update.py:38-81): fancy-index selection, point update, `for i, x in enumerate(l)`;
     - the hand model of HessianUpdater.__init__ / updated_h / updated_h_inv (control flow only;
       hessian_update.py:29-36, 83-127; its text is pinned by the translator) and of
       OptCoordinates.update_h_from_old_h's "first applicable updater" loop (base.py:233-251). *)
From Coq Require Import ZArith QArith Qcanon List Bool Arith.
From AV.lib Require Import Sums QcInst.
Import ListNotations.

Record fenv : Type := mkFenv {
  fF : Type;
  f0 : fF; f1 : fF;
  fadd : fF -> fF -> fF; fmul : fF -> fF -> fF; fsub : fF -> fF -> fF; fopp : fF -> fF;
  fdiv : fF -> fF -> fF; finv : fF -> fF;
  fltb : fF -> fF -> bool;                    (* a < b  (Python float comparison)            *)
  fsqrt : fF -> fF;                           (* np.sqrt; np.linalg.norm v = fsqrt (v . v)    *)
  fabs : fF -> fF;                            (* np.abs                                        *)
  fminv : nat -> (nat -> nat -> fF) -> nat -> nat -> fF;    (* np.linalg.inv  (oracle)          *)
  feig_all_gt : nat -> (nat -> nat -> fF) -> fF -> bool     (* np.all(np.linalg.eigvals(A) > c) *)
}.

Notation is_field E :=
  (Field_theory.field_theory (f0 E) (f1 E) (fadd E) (fmul E) (fsub E) (fopp E) (fdiv E) (finv E)
                             (@eq (fF E))).

(* ---- Sums.v at an environment ---- *)
Notation Vec E := (nat -> fF E).
Notation Mat E := (nat -> nat -> fF E).
Notation Sum E := (sum (fF E) (f0 E) (fadd E)).
Notation Vadd E := (vadd (fF E) (fadd E)).
Notation Vsub E := (vsub (fF E) (fsub E)).
Notation Vscal E := (vscal (fF E) (fmul E)).
Notation Vdivs E := (vdivs (fF E) (fdiv E)).
Notation Vneg E := (vneg (fF E) (fopp E)).
Notation Dot E := (dot (fF E) (f0 E) (fadd E) (fmul E)).
Notation Outer E := (outer (fF E) (fmul E)).
Notation Matvec E := (matvec (fF E) (f0 E) (fadd E) (fmul E)).
Notation Vecmat E := (vecmat (fF E) (f0 E) (fadd E) (fmul E)).
Notation Matmul E := (matmul (fF E) (f0 E) (fadd E) (fmul E)).
Notation Madd E := (madd (fF E) (fadd E)).
Notation Msub E := (msub (fF E) (fsub E)).
Notation Mscal E := (mscal (fF E) (fmul E)).
Notation Mdivs E := (mdivs (fF E) (fdiv E)).
Notation Mneg E := (mneg (fF E) (fopp E)).
Notation Transpose E := (transpose (fF E)).
Notation Ident E := (ident (fF E) (f0 E) (f1 E)).
Notation Symmetric E := (symmetric (fF E)).
Notation Veq E := (veq (fF E)).
Notation Meq E := (meq (fF E)).

(* ---- literals: the decimal constant p/q written in the source ---- *)
Fixpoint ofPos (E : fenv) (p : positive) : fF E :=
  match p with
  | xH => f1 E
  | xO q => fmul E (fadd E (f1 E) (f1 E)) (ofPos E q)
  | xI q => fadd E (f1 E) (fmul E (fadd E (f1 E) (f1 E)) (ofPos E q))
  end.
Definition ofZ (E : fenv) (z : Z) : fF E :=
  match z with Z0 => f0 E | Zpos p => ofPos E p | Zneg p => fopp E (ofPos E p) end.
Definition cst (E : fenv) (z : Z) (d : positive) : fF E := fdiv E (ofZ E z) (ofPos E d).

(* characteristic 0 (needed only where a theorem divides by a literal) *)
Definition char0 (E : fenv) : Prop := forall p : positive, ofPos E p <> f0 E.

(* x ** 2 *)
Definition fsq (E : fenv) (x : fF E) : fF E := fmul E x x.
(* np.linalg.norm of a vector *)
Definition vnorm (E : fenv) (n : nat) (v : Vec E) : fF E := fsqrt E (Dot E n v v).

Definition all_nonzero (E : fenv) (l : list (fF E)) : Prop := Forall (fun d => d <> f0 E) l.

(* ---- index vocabulary (hessian_update.py:38-81) ---- *)
Section Index.
Context {A : Type}.
(* m[:, idxs] , m[idxs, :] , v[idxs]   (indices assumed in range, as numpy would raise otherwise) *)
Definition msel_cols (idxs : list nat) (m : nat -> nat -> A) : nat -> nat -> A :=
  fun i j => m i (nth j idxs 0%nat).
Definition msel_rows (idxs : list nat) (m : nat -> nat -> A) : nat -> nat -> A :=
  fun i j => m (nth i idxs 0%nat) j.
Definition vsel (idxs : list nat) (v : nat -> A) : nat -> A := fun i => v (nth i idxs 0%nat).
(* m[r, c] = x *)
Definition mupd (m : nat -> nat -> A) (r c : nat) (x : A) : nat -> nat -> A :=
  fun i j => if Nat.eqb i r && Nat.eqb j c then x else m i j.
End Index.

(* for k, x in enumerate(l): acc = f k x acc *)
Fixpoint fold_enum_from {B : Type} (k : nat) (l : list nat) (f : nat -> nat -> B -> B) (acc : B) : B :=
  match l with
  | [] => acc
  | x :: r => fold_enum_from (S k) r f (f k x acc)
  end.
Definition fold_enum {B : Type} (l : list nat) (f : nat -> nat -> B -> B) (acc : B) : B :=
  fold_enum_from 0 l f acc.

(* ---- hand model of the control flow of HessianUpdater (text pinned by the translator) ----
   __init__ (hessian_update.py:29-36) stores h, h_inv, s, y, subspace_idxs and calls
   _apply_subspace; updated_h (108-127) returns _updated_h when no subspace was given
   (_h_init is None) and otherwise _matrix_in_full_space(_h_init, _updated_h), where _updated_h
   is evaluated on the REDUCED h, h_inv, s, y.  [sub_m sub_v] are the generated reductions,
   [embed] the generated _matrix_in_full_space, [upd] a generated _updated_h / _updated_h_inv. *)
Definition full_update {M V : Type}
    (sub_m : list nat -> M -> M) (sub_v : list nat -> V -> V) (embed : list nat -> M -> M -> M)
    (upd : nat -> M -> M -> V -> V -> M)
    (subspace : option (list nat)) (n : nat) (target h h_inv : M) (s y : V) : M :=
  match subspace with
  | None => upd n h h_inv s y
  | Some idxs =>
      embed idxs target (upd (length idxs) (sub_m idxs h) (sub_m idxs h_inv) (sub_v idxs s) (sub_v idxs y))
  end.

(* ---- hand model of OptCoordinates.update_h_from_old_h (coordinates/base.py:233-251):
   the first updater of the list whose conditions_met is true supplies the new Hessian;
   none -> RuntimeError.  Each element is (conditions_met, updated_h). ---- *)
Inductive upd_choice (M : Type) : Type :=
| Chosen (k : nat) (m : M)
| NoSuitableStrategy.
Arguments Chosen {M} k m.
Arguments NoSuitableStrategy {M}.
Fixpoint first_applicable_from {M : Type} (k : nat) (l : list (bool * M)) : upd_choice M :=
  match l with
  | [] => NoSuitableStrategy
  | (c, m) :: r => if c then Chosen k m else first_applicable_from (S k) r
  end.
Definition first_applicable {M : Type} (l : list (bool * M)) : upd_choice M := first_applicable_from 0 l.

(* ---- the environment at canonical rationals (exact arithmetic; sqrt / inv / eigenvalue test stay
   parameters: Corr.v supplies executable ones for the correspondence check) ---- *)
Definition QcEnv (sq : Qc -> Qc) (minv : nat -> (nat -> nat -> Qc) -> nat -> nat -> Qc)
                 (eig : nat -> (nat -> nat -> Qc) -> Qc -> bool) : fenv :=
  mkFenv Qc (Q2Qc 0) (Q2Qc 1) Qcplus Qcmult Qcminus Qcopp Qcdiv Qcinv Qcltb sq Qcabs minv eig.
