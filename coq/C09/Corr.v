(* C09/Corr.v — helpers used only by the correspondence check (model at exact rationals vs the
   implementation's floats).  Nothing here is used by a property theorem.
   Executable oracles: qsqrt (integer square root, relative error < 2^-60), the "all eigenvalues > c"
   test by Sylvester's criterion (pivots of A - c I, symmetric A), and numpy.linalg.inv as the matrix
   the implementation returned (checked by multiplying it with the model's direct update). *)
From Coq Require Import ZArith QArith Qcanon List Bool Arith.
From AV.lib Require Import Sums QcInst.
From AV.C09 Require Import Model Lemmas.
From AV.gen Require Import C09_Gen.
Import ListNotations.

Definition tol : Qc := qc 1 1000000000.      (* 1e-9 relative (absolute below 1) *)
Definition tol_inv : Qc := qc 1 1000000.     (* products with an implementation-side inverse *)

(* sqrt(p/q) = sqrt(p q) / q ;  sqrt(p q) ~ Z.sqrt(p q 4^k) / 2^k *)
Definition qsqrt (x : Qc) : Qc :=
  let p := Qnum (this x) in
  let q := Zpos (Qden (this x)) in
  if Z.leb p 0 then Q2Qc 0
  else
    let bits := Z.log2 (p * q) in
    let k := Z.max 0 (64 - bits / 2) in
    let sc := Z.pow 2 k in
    Q2Qc (Z.sqrt (p * q * sc * sc) # Z.to_pos (q * sc)).

(* all pivots of Gaussian elimination (no pivoting) positive  <=> symmetric matrix positive definite *)
Fixpoint sub_rows (p : Qc) (rt : list Qc) (rows : list (list Qc)) : list (list Qc) :=
  match rows with
  | [] => []
  | [] :: r => sub_rows p rt r
  | (a :: at_) :: r =>
      let f := (a / p)%Qc in
      (map (fun xt => (fst xt - f * snd xt)%Qc) (combine at_ rt)) :: sub_rows p rt r
  end.
Fixpoint pivots_pos (fuel : nat) (M : list (list Qc)) : bool :=
  match fuel with
  | O => false
  | S f =>
    match M with
    | [] => true
    | [] :: _ => true
    | (p :: rt) :: rest => if Qcltb (Q2Qc 0) p then pivots_pos f (sub_rows p rt rest) else false
    end
  end.
Definition eig_all_gt (n : nat) (A : nat -> nat -> Qc) (c : Qc) : bool :=
  pivots_pos (S n) (list_of_mat n (fun i j => if Nat.eqb i j then (A i j - c)%Qc else A i j)).

Definition QE (given_inv : list (list Qc)) : fenv :=
  QcEnv qsqrt (fun _ _ => mat_of_list given_inv) eig_all_gt.

Inductive cls := BFGS | BFGSPD | BFGSDamped | SR1 | Null | Bofill | Flowchart | BFGSSR1.

Section Dispatch.
Variable E : fenv.
Variable m : fF E.       (* min_eigenvalue of the positive-definite classes *)
Definition upd_h (c : cls) : nat -> Mat E -> Mat E -> Vec E -> Vec E -> Mat E :=
  fun n h hi s y =>
  match c with
  | BFGS => BFGSUpdate_updated_h E n h hi s y
  | BFGSPD => BFGSPDUpdate_updated_h E n h hi s y m
  | BFGSDamped => BFGSDampedUpdate_updated_h E n h hi s y m
  | SR1 => SR1Update_updated_h E n h hi s y
  | Null => NullUpdate_updated_h E n h hi s y
  | Bofill => BofillUpdate_updated_h E n h hi s y
  | Flowchart => FlowchartUpdate_updated_h E n h hi s y
  | BFGSSR1 => BFGSSR1Update_updated_h E n h hi s y
  end.
Definition upd_hinv (c : cls) : nat -> Mat E -> Mat E -> Vec E -> Vec E -> Mat E :=
  fun n h hi s y =>
  match c with
  | BFGS => BFGSUpdate_updated_h_inv E n h hi s y
  | BFGSPD => BFGSPDUpdate_updated_h_inv E n h hi s y m
  | BFGSDamped => BFGSDampedUpdate_updated_h_inv E n h hi s y m
  | SR1 => SR1Update_updated_h_inv E n h hi s y
  | Null => NullUpdate_updated_h_inv E n h hi s y
  | Bofill => BofillUpdate_updated_h_inv E n h hi s y
  | Flowchart => FlowchartUpdate_updated_h_inv E n h hi s y
  | BFGSSR1 => BFGSSR1Update_updated_h_inv E n h hi s y
  end.
Definition cond (c : cls) (n : nat) (h hi : Mat E) (s y : Vec E) : bool :=
  match c with
  | BFGS => BFGSUpdate_conditions_met E n h hi s y
  | BFGSPD => BFGSPDUpdate_conditions_met E n h hi s y m
  | BFGSDamped => BFGSDampedUpdate_conditions_met E n h hi s y m
  | SR1 => SR1Update_conditions_met E n h hi s y
  | Null => NullUpdate_conditions_met E n h hi s y
  | Bofill => BofillUpdate_conditions_met E n h hi s y
  | Flowchart => FlowchartUpdate_conditions_met E n h hi s y
  | BFGSSR1 => BFGSSR1Update_conditions_met E n h hi s y
  end.
Definition h_denoms (c : cls) (n : nat) (h hi : Mat E) (s y : Vec E) : list (fF E) :=
  match c with
  | BFGS => BFGSUpdate_updated_h_denoms E n h hi s y
  | BFGSPD => BFGSPDUpdate_updated_h_denoms E n h hi s y m
  | BFGSDamped => BFGSDampedUpdate_updated_h_denoms E n h hi s y m
  | SR1 => SR1Update_updated_h_denoms E n h hi s y
  | Null => NullUpdate_updated_h_denoms E n h hi s y
  | Bofill => BofillUpdate_updated_h_denoms E n h hi s y
  | Flowchart => FlowchartUpdate_updated_h_denoms E n h hi s y
  | BFGSSR1 => BFGSSR1Update_updated_h_denoms E n h hi s y
  end.
Definition hinv_denoms (c : cls) (n : nat) (h hi : Mat E) (s y : Vec E) : list (fF E) :=
  match c with
  | BFGS => BFGSUpdate_updated_h_inv_denoms E n h hi s y
  | BFGSPD => BFGSPDUpdate_updated_h_inv_denoms E n h hi s y m
  | BFGSDamped => BFGSDampedUpdate_updated_h_inv_denoms E n h hi s y m
  | SR1 => SR1Update_updated_h_inv_denoms E n h hi s y
  | Null => NullUpdate_updated_h_inv_denoms E n h hi s y
  | Bofill => BofillUpdate_updated_h_inv_denoms E n h hi s y
  | Flowchart => FlowchartUpdate_updated_h_inv_denoms E n h hi s y
  | BFGSSR1 => BFGSSR1Update_updated_h_inv_denoms E n h hi s y
  end.
Definition cond_denoms (c : cls) (n : nat) (h hi : Mat E) (s y : Vec E) : list (fF E) :=
  match c with
  | BFGS => BFGSUpdate_conditions_met_denoms E n h hi s y
  | BFGSPD => BFGSPDUpdate_conditions_met_denoms E n h hi s y m
  | BFGSDamped => BFGSDampedUpdate_conditions_met_denoms E n h hi s y m
  | SR1 => SR1Update_conditions_met_denoms E n h hi s y
  | Null => NullUpdate_conditions_met_denoms E n h hi s y
  | Bofill => BofillUpdate_conditions_met_denoms E n h hi s y
  | Flowchart => FlowchartUpdate_conditions_met_denoms E n h hi s y
  | BFGSSR1 => BFGSSR1Update_conditions_met_denoms E n h hi s y
  end.
End Dispatch.

Definition has_zero_b (l : list Qc) : bool := existsb (fun d => Qc_eq_bool d (Q2Qc 0)) l.

(* divisors whose vanishing makes the RESULT non-finite.  The first two divisors of the Flowchart update
   only feed the criteria comparisons: 0/0 = NaN compares false in IEEE, and x/0 = 0 in Qc compares false
   against -0.1 / 0.1 as well, so both sides select the same branch (see Lemmas.flowchart_zero_step). *)
Definition eff (c : cls) (l : list Qc) : list Qc :=
  match c with Flowchart => skipn 2 l | _ => l end.

(* the reduced problem on which the updater formula is evaluated *)
Definition red_n (sub : option (list nat)) (N : nat) : nat :=
  match sub with None => N | Some idxs => length idxs end.
Definition red_m (sub : option (list nat)) (A : nat -> nat -> Qc) : nat -> nat -> Qc :=
  match sub with None => A | Some idxs => sub_m (QE []) idxs A end.
Definition red_v (sub : option (list nat)) (v : nat -> Qc) : nat -> Qc :=
  match sub with None => v | Some idxs => sub_v (QE []) idxs v end.

Section Checks.
Variables (c : cls) (sub : option (list nat)) (N : nat).
Variables (hl hil : list (list Qc)) (sl yl : list Qc) (mineig : Qc).
Let H := mat_of_list hl.
Let HI := mat_of_list hil.
Let S := vec_of_list sl.
Let Y := vec_of_list yl.
Let E0 := QE [].

(* Updater(h=, h_inv=, s=, y=, subspace_idxs=).updated_h == expect *)
Definition check_h (expect : list (list Qc)) : bool :=
  negb (has_zero_b (eff c (h_denoms E0 mineig c (red_n sub N) (red_m sub H) (red_m sub HI) (red_v sub S) (red_v sub Y)))) &&
  closeM tol (list_of_mat N (impl_updated_h E0 (upd_h E0 mineig c) sub N H HI S Y)) expect.

(* .updated_h_inv == expect   (closed-form inverse updates: BFGS, BFGS-PD, SR1, Null) *)
Definition check_hinv (expect : list (list Qc)) : bool :=
  negb (has_zero_b (hinv_denoms E0 mineig c (red_n sub N) (red_m sub H) (red_m sub HI) (red_v sub S) (red_v sub Y))) &&
  closeM tol (list_of_mat N (impl_updated_h_inv E0 (upd_hinv E0 mineig c) sub N H HI S Y)) expect.

(* .updated_h_inv for the np.linalg.inv based classes (no subspace): the matrix the implementation
   returned is what the generated definition returns under that oracle, and multiplied with the
   model's direct update it gives the identity *)
Definition check_hinv_oracle (given : list (list Qc)) : bool :=
  let Eg := QE given in
  let U := mtab N (upd_h Eg mineig c N H HI S Y) in
  let V := mtab N (upd_hinv Eg mineig c N H HI S Y) in
  negb (has_zero_b (eff c (h_denoms Eg mineig c N H HI S Y))) &&
  closeM tol (list_of_mat N V) given &&
  closeM tol_inv (list_of_mat N (matmul Qc (Q2Qc 0) Qcplus Qcmult N U V)) (list_of_mat N (ident Qc (Q2Qc 0) (Q2Qc 1))).

(* the same with a subspace (h and h_inv both given): `given` is the sub-block of the returned matrix, i.e.
   what np.linalg.inv produced for the reduced update; the full result must be the embedding of that block
   into the input h_inv (not into h), and block x reduced direct update = I *)
Definition check_hinv_oracle_sub (given expect : list (list Qc)) : bool :=
  let Eg := QE given in
  let k := red_n sub N in
  let U := mtab k (upd_h Eg mineig c k (red_m sub H) (red_m sub HI) (red_v sub S) (red_v sub Y)) in
  negb (has_zero_b (eff c (h_denoms Eg mineig c k (red_m sub H) (red_m sub HI) (red_v sub S) (red_v sub Y)))) &&
  closeM tol (list_of_mat N (impl_updated_h_inv Eg (upd_hinv Eg mineig c) sub N H HI S Y)) expect &&
  closeM tol_inv (list_of_mat k (matmul Qc (Q2Qc 0) Qcplus Qcmult k U (mat_of_list given)))
                 (list_of_mat k (ident Qc (Q2Qc 0) (Q2Qc 1))).

(* .conditions_met == expect *)
Definition check_cond (expect : bool) : bool :=
  negb (has_zero_b (cond_denoms E0 mineig c (red_n sub N) (red_m sub H) (red_m sub HI) (red_v sub S) (red_v sub Y))) &&
  Bool.eqb (cond E0 mineig c (red_n sub N) (red_m sub H) (red_m sub HI) (red_v sub S) (red_v sub Y)) expect.

(* the model says a divisor of _updated_h (resp. of conditions_met) is exactly zero; the harness passes
   whether the implementation produced a non-finite entry / raised *)
Definition check_h_undefined (impl_nonfinite : bool) : bool :=
  Bool.eqb (has_zero_b (eff c (h_denoms E0 mineig c (red_n sub N) (red_m sub H) (red_m sub HI) (red_v sub S) (red_v sub Y))))
           impl_nonfinite.
Definition check_cond_undefined (impl_raised : bool) : bool :=
  Bool.eqb (has_zero_b (cond_denoms E0 mineig c (red_n sub N) (red_m sub H) (red_m sub HI) (red_v sub S) (red_v sub Y)))
           impl_raised.
End Checks.

Definition check_hinv_undefined_ (c : cls) (sub : option (list nat)) (N : nat) (hl hil : list (list Qc)) (sl yl : list Qc)
    (mineig : Qc) (impl_nonfinite : bool) : bool :=
  let H := mat_of_list hl in let HI := mat_of_list hil in let S := vec_of_list sl in let Y := vec_of_list yl in
  Bool.eqb (has_zero_b (hinv_denoms (QE []) mineig c (red_n sub N) (red_m sub H) (red_m sub HI) (red_v sub S) (red_v sub Y)))
           impl_nonfinite.

(* the constructor default of min_eigenvalue, as generated from BFGSPDUpdate.__init__ (inherited by the damped class) *)
Definition default_mineig : Qc := BFGSPDUpdate_default_min_eigenvalue (QE []).
Definition check_defaults : bool :=
  Qc_eq_bool (BFGSPDUpdate_default_min_eigenvalue (QE [])) (BFGSDampedUpdate_default_min_eigenvalue (QE [])).

(* compact literal for an IEEE double  m * 2^e *)
Definition fl (m e : Z) : Qc :=
  if Z.leb 0 e then Q2Qc (m * Z.pow 2 e # 1) else Q2Qc (m # Z.to_pos (Z.pow 2 (- e))).

(* one generated input, all classes: three verdicts (updated_h, conditions_met, updated_h_inv) per class *)
Inductive exp_h := HSkip | HMat (m : list (list Qc)) | HUndef (nonfinite : bool) | HBad.
Inductive exp_c := CSkip | CVal (b : bool) | CUndef (raised : bool) | CBad.
Inductive exp_i := ISkip | IMat (m : list (list Qc)) | IOracle (m : list (list Qc))
  | IOracleSub (given expect : list (list Qc)) | IUndef (nonfinite : bool) | IBad.

Definition class_checks (sub : option (list nat)) (N : nat) (hl hil : list (list Qc)) (sl yl : list Qc) (mineig : Qc)
    (e : cls * exp_h * exp_c * exp_i) : list bool :=
  let '(c, eh, ec, ei) := e in
  [ match eh with
    | HSkip => true
    | HMat m => check_h c sub N hl hil sl yl mineig m
    | HUndef b => check_h_undefined c sub N hl hil sl yl mineig b
    | HBad => false
    end;
    match ec with
    | CSkip => true
    | CVal b => check_cond c sub N hl hil sl yl mineig b
    | CUndef b => check_cond_undefined c sub N hl hil sl yl mineig b
    | CBad => false
    end;
    match ei with
    | ISkip => true
    | IMat m => check_hinv c sub N hl hil sl yl mineig m
    | IOracle m => check_hinv_oracle c N hl hil sl yl mineig m
    | IOracleSub g m => check_hinv_oracle_sub c sub N hl hil sl yl mineig g m
    | IUndef b => check_hinv_undefined_ c sub N hl hil sl yl mineig b
    | IBad => false
    end ].
Definition case_checks (sub : option (list nat)) (N : nat) (hl hil : list (list Qc)) (sl yl : list Qc) (mineig : Qc)
    (l : list (cls * exp_h * exp_c * exp_i)) : list bool :=
  flat_map (class_checks sub N hl hil sl yl mineig) l.

(* update_h_from_old_h: the model's choice from the updaters' conditions_met values vs what the
   implementation did: `matches` = indexes of the updaters whose updated_h equals the Hessian the implementation
   stored (several may coincide), `raised` = it raised "no suitable update strategies" *)
Definition check_first_applicable (conds : list bool) (matches : list nat) (raised : bool) : bool :=
  match first_applicable (map (fun b => (b, tt)) conds) with
  | Chosen k _ => negb raised && existsb (Nat.eqb k) matches
  | NoSuitableStrategy => raised
  end.
