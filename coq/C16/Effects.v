(* C16/Effects.v — the small effect language into which tr/translate_c16.py turns the bodies of
   autode/utils.py::work_in, work_in_tmp_dir, run_in_tmp_environment, temporary_config,
   check_sufficient_memory, and its big-step semantics.

   State  = process-wide state {cwd; env; dirs; files; config} + three oracles that make the
            wrapper's OWN fallible steps fail at any point:
              tape    : list bool   — every fallible step (os.mkdir, mkdtemp, each shutil.copy/move,
                                      the memory check) consumes one entry; true = that step fails
              names   : list string — the basenames successive mkdtemp calls return
              tmproot : path        — tempfile.gettempdir()
   Frame  = the local variables of one wrapped_function activation (here, dir_path, tmpdir_path,
            base_dir, prev_vals, original_config_data).  The wrapped function cannot touch it.
   Callee = the wrapped function: an ARBITRARY  state -> outcome * state  (it may raise, chdir,
            create or delete anything, set variables, change the config, eat the tape).

   Definitions and the basic algebra of the primitives only; nothing here depends on /repo. *)
From Coq Require Import List String Bool Arith Lia.
Import ListNotations.
Open Scope string_scope.
Open Scope list_scope.

(* ------------------------------------------------------------------ paths *)
Definition path := list string.          (* absolute path as its components *)

Fixpoint path_eqb (a b : path) : bool :=
  match a, b with
  | [], [] => true
  | x :: a', y :: b' => String.eqb x y && path_eqb a' b'
  | _, _ => false
  end.

(* p is a prefix of q (p = q included): q is p itself or lies below p *)
Fixpoint prefixb (p q : path) : bool :=
  match p, q with
  | [], _ => true
  | x :: p', y :: q' => String.eqb x y && prefixb p' q'
  | _ :: _, [] => false
  end.

Definition belowb (p q : path) : bool := prefixb p q && negb (path_eqb p q).
Definition mem_path (p : path) (l : list path) : bool := existsb (path_eqb p) l.
Definition add_path (p : path) (l : list path) : list path := if mem_path p l then l else p :: l.
Definition remove_path (p : path) (l : list path) : list path := filter (fun q => negb (path_eqb p q)) l.
Definition remove_tree (p : path) (l : list path) : list path := filter (fun q => negb (prefixb p q)) l.

(* name of q inside directory p, when q is a direct child of p *)
Fixpoint child_name (p q : path) : option string :=
  match p, q with
  | [], [n] => Some n
  | x :: p', y :: q' => if String.eqb x y then child_name p' q' else None
  | _, _ => None
  end.

Definition ends_with (suf s : string) : bool :=
  let ls := String.length suf in let l := String.length s in
  Nat.leb ls l && String.eqb (substring (l - ls) ls s) suf.

(* ------------------------------------------------------------------ environment / config *)
Definition envt := list (string * string).
Fixpoint env_get (k : string) (e : envt) : option string :=
  match e with [] => None | (k', v) :: r => if String.eqb k k' then Some v else env_get k r end.
Definition env_del (k : string) (e : envt) : envt := filter (fun kv => negb (String.eqb k (fst kv))) e.
Definition env_set (k v : string) (e : envt) : envt := (k, v) :: env_del k e.

Inductive cval :=
| CLeaf (s : string)                       (* canonical text of a leaf value *)
| CPathV (p : path)                        (* a directory path (Config.ll_tmp_dir) *)
| CNode (kids : list (string * cval)).     (* nested option group (Config.ORCA, ...) *)
Definition cfgt := list (string * cval).
Fixpoint cfg_get (k : string) (c : cfgt) : option cval :=
  match c with [] => None | (k', v) :: r => if String.eqb k k' then Some v else cfg_get k r end.
Definition cfg_del (k : string) (c : cfgt) : cfgt := filter (fun kv => negb (String.eqb k (fst kv))) c.
Definition cfg_set (k : string) (v : cval) (c : cfgt) : cfgt := (k, v) :: cfg_del k c.
(* dict.update(saved): every key of saved is (re)assigned; keys not in saved are left alone.
   fold_right: the first binding of a key in `saved` (the one cfg_get sees) is applied last. *)
Definition cfg_update (cur saved : cfgt) : cfgt :=
  fold_right (fun kv c => cfg_set (fst kv) (snd kv) c) cur saved.

(* ------------------------------------------------------------------ state, frame, outcomes *)
Record state := mkState {
  cwd : path; env : envt; dirs : list path; files : list path; config : cfgt;
  tmproot : path; names : list string; tape : list bool }.

Definition set_cwd (s : state) (p : path) :=
  mkState p (env s) (dirs s) (files s) (config s) (tmproot s) (names s) (tape s).
Definition set_env (s : state) (e : envt) :=
  mkState (cwd s) e (dirs s) (files s) (config s) (tmproot s) (names s) (tape s).
Definition set_dirs (s : state) (d : list path) :=
  mkState (cwd s) (env s) d (files s) (config s) (tmproot s) (names s) (tape s).
Definition set_files (s : state) (f : list path) :=
  mkState (cwd s) (env s) (dirs s) f (config s) (tmproot s) (names s) (tape s).
Definition set_config (s : state) (c : cfgt) :=
  mkState (cwd s) (env s) (dirs s) (files s) c (tmproot s) (names s) (tape s).
Definition set_names (s : state) (n : list string) :=
  mkState (cwd s) (env s) (dirs s) (files s) (config s) (tmproot s) n (tape s).
Definition set_tape (s : state) (t : list bool) :=
  mkState (cwd s) (env s) (dirs s) (files s) (config s) (tmproot s) (names s) t.

(* consume one entry of the fault tape; an exhausted tape means "no further faults" *)
Definition pop_fault (s : state) : bool * state :=
  match tape s with [] => (false, s) | b :: t => (b, set_tape s t) end.

Inductive fkind := FMkdir | FMkdtemp | FCopy | FMem.
Inductive exn :=
| EFault (k : fkind)       (* an injected failure of the wrapper's own step *)
| ENoSource                (* shutil.copy / move of a file that is not there: FileNotFoundError *)
| EExists                  (* os.mkdir of an existing directory *)
| EAssert                  (* assert os.path.exists(base_dir) *)
| EKey                     (* os.environ.pop(name) without default on an absent variable *)
| EIsDir                   (* shutil.copy of a directory *)
| EUnbound                 (* a local variable read before assignment *)
| ENoNames                 (* model artefact: mkdtemp name supply exhausted *)
| ECallee (n : nat).       (* raised by the wrapped function *)
Inductive outcome := Ok | Raise (e : exn).

Definition callee_t := state -> outcome * state.

Record frame := mkFrame {
  v_here : option path; v_dir : option path; v_tmp : option path;
  v_base : option (option path);           (* base_dir: unset | None | a directory *)
  v_prev : option (list (option string));  (* prev_vals *)
  v_cfg : option cfgt }.                   (* original_config_data *)
Definition frame0 : frame := mkFrame None None None None None None.

Inductive pvar := VHere | VDir | VTmp.
Definition getv (f : frame) (v : pvar) : option path :=
  match v with VHere => v_here f | VDir => v_dir f | VTmp => v_tmp f end.

(* ------------------------------------------------------------------ the language *)
Inductive stmt :=
| Skip                                    (* logging, `pass`, pure local assignments *)
| Seq (a b : stmt)
| TryFinally (body fin : stmt)            (* try: body  finally: fin   (no except clauses) *)
| Call                                    (* result = func(..)  |  yield *)
| SaveCwd                                 (* here = os.getcwd() *)
| Join (ext : string)                     (* dir_path = os.path.join(here, dir_ext) *)
| IfNotIsdir (v : pvar) (body : stmt)     (* if not os.path.isdir(v): body *)
| Mkdir (v : pvar)                        (* os.mkdir(v)                         — may fail *)
| Chdir (v : pvar)                        (* os.chdir(v) *)
| IfEmpty (v : pvar) (body : stmt)        (* if len(os.listdir(v)) == 0: body *)
| Rmdir (v : pvar)                        (* os.rmdir(v) *)
| SetBase (use_ll : bool)                 (* base_dir = Config.ll_tmp_dir if use_ll_tmp else None *)
| AssertBase                              (* if base_dir is not None: assert os.path.exists(base_dir) *)
| Mkdtemp                                 (* tmpdir_path = mkdtemp(dir=base_dir) — may fail *)
| CopyIn (fns : list string)              (* for filename in filenames_to_copy: move/copy — each may fail *)
| CopyBack (abs files_only : bool) (kept : list string)
      (* for filename in os.listdir(tmpdir_path): if kept: shutil.copy(SRC, here)   with
         SRC = filename (abs = false: resolved against the CURRENT directory) or
         SRC = os.path.join(tmpdir_path, filename) (abs = true);
         files_only = the loop skips entries that are not regular files (`if not os.path.isfile(..): continue`);
         without that guard a DIRECTORY with a kept extension makes shutil.copy raise IsADirectoryError *)
| Rmtree (v : pvar)                       (* shutil.rmtree(v) *)
| SaveEnv (vars : list (string * string)) (* prev_vals = [os.getenv(name, None) for ...] *)
| SetEnv (vars : list (string * string))  (* for env_var in env_vars: os.environ[name] = new_val *)
| RestoreEnv (strict : bool) (vars : list (string * string))
      (* for env_var, prev_val in zip(env_vars, prev_vals): pop(name[, None]) | environ[name] = prev_val;
         strict = the pop has no default and raises KeyError on an absent variable *)
| SaveConfig                              (* original_config_data = copy.deepcopy(Config.__dict__) *)
| RestoreConfig                           (* Config.__dict__.update(original_config_data) *)
| MemoryCheck.                            (* insufficient physical memory -> raise RuntimeError *)

(* ------------------------------------------------------------------ primitive loops *)
Definition is_empty_dir (s : state) (p : path) : bool :=
  negb (existsb (belowb p) (dirs s)) && negb (existsb (belowb p) (files s)).

(* utils.py work_in_tmp_dir, copy-in loop (l. 299-308) — `_mol.in` files are MOVED to <tmp>/mol.in, everything else is copied *)
Fixpoint do_copy_in (fns : list string) (tmp : path) (s : state) : outcome * state :=
  match fns with
  | [] => (Ok, s)
  | fn :: r =>
      let '(flt, s1) := pop_fault s in
      if flt then (Raise (EFault FCopy), s1)
      else let src := cwd s1 ++ [fn] in
        if negb (mem_path src (files s1)) then (Raise ENoSource, s1)
        else if ends_with "_mol.in" fn
             then do_copy_in r tmp (set_files s1 (add_path (tmp ++ ["mol.in"]) (remove_path src (files s1))))
             else do_copy_in r tmp (set_files s1 (add_path (tmp ++ [fn]) (files s1)))
  end.

Definition kept_name (kept : list string) (n : string) : bool := existsb (fun e => ends_with e n) kept.
(* names of the plain files directly inside tmp that carry a kept extension *)
Definition kept_candidates (kept : list string) (tmp : path) (fs : list path) : list string :=
  flat_map (fun q => match child_name tmp q with
                     | Some n => if kept_name kept n then [n] else []
                     | None => [] end) fs.
(* utils.py work_in_tmp_dir, copy-back loop (l. 316-322) — src = None: the bare file name is resolved against the CURRENT cwd *)
Definition src_dir (src : option path) (s : state) : path :=
  match src with Some p => p | None => cwd s end.
Fixpoint do_copy_back (cands : list string) (src : option path) (here : path) (s : state) : outcome * state :=
  match cands with
  | [] => (Ok, s)
  | n :: r =>
      let '(flt, s1) := pop_fault s in
      if flt then (Raise (EFault FCopy), s1)
      else if negb (mem_path (src_dir src s1 ++ [n]) (files s1)) then (Raise ENoSource, s1)
      else do_copy_back r src here (set_files s1 (add_path (here ++ [n]) (files s1)))
  end.

Definition do_set_env (vars : list (string * string)) (e : envt) : envt :=
  fold_left (fun e kv => env_set (fst kv) (snd kv) e) vars e.

Fixpoint do_restore_env (strict : bool) (ks : list string) (prev : list (option string)) (e : envt)
  : outcome * envt :=
  match ks, prev with
  | k :: ks', p :: prev' =>
      match p with
      | Some v => do_restore_env strict ks' prev' (env_set k v e)
      | None => match env_get k e with
                | None => if strict then (Raise EKey, e) else do_restore_env strict ks' prev' e
                | Some _ => do_restore_env strict ks' prev' (env_del k e)
                end
      end
  | _, _ => (Ok, e)        (* zip stops at the shorter list *)
  end.

Definition base_of_config (c : cfgt) : option path :=
  match cfg_get "ll_tmp_dir" c with Some (CPathV p) => Some p | _ => None end.

(* ------------------------------------------------------------------ big-step semantics *)
Section Exec.
Variable callee : callee_t.

Definition with_var (f : frame) (v : pvar) (s : state) (k : path -> outcome * frame * state)
  : outcome * frame * state :=
  match getv f v with Some p => k p | None => (Raise EUnbound, f, s) end.

Fixpoint exec (t : stmt) (f : frame) (s : state) : outcome * frame * state :=
  match t with
  | Skip => (Ok, f, s)
  | Seq a b =>
      let '(o, f1, s1) := exec a f s in
      match o with Ok => exec b f1 s1 | Raise e => (Raise e, f1, s1) end
  | TryFinally b fin =>
      let '(o, f1, s1) := exec b f s in
      let '(o2, f2, s2) := exec fin f1 s1 in
      (match o2 with Ok => o | Raise e => Raise e end, f2, s2)
  | Call => let '(o, s1) := callee s in (o, f, s1)
  | SaveCwd => (Ok, mkFrame (Some (cwd s)) (v_dir f) (v_tmp f) (v_base f) (v_prev f) (v_cfg f), s)
  | Join ext =>
      with_var f VHere s (fun h =>
        (Ok, mkFrame (v_here f) (Some (h ++ [ext])) (v_tmp f) (v_base f) (v_prev f) (v_cfg f), s))
  | IfNotIsdir v body =>
      with_var f v s (fun p => if mem_path p (dirs s) then (Ok, f, s) else exec body f s)
  | Mkdir v =>
      with_var f v s (fun p =>
        let '(flt, s1) := pop_fault s in
        if flt then (Raise (EFault FMkdir), f, s1)
        else if mem_path p (dirs s1) || mem_path p (files s1) then (Raise EExists, f, s1)   (* FileExistsError: a directory or a regular file is there *)
        else (Ok, f, set_dirs s1 (p :: dirs s1)))
  | Chdir v => with_var f v s (fun p => (Ok, f, set_cwd s p))
  | IfEmpty v body =>
      with_var f v s (fun p => if is_empty_dir s p then exec body f s else (Ok, f, s))
  | Rmdir v => with_var f v s (fun p => (Ok, f, set_dirs s (remove_path p (dirs s))))
  | SetBase use_ll =>
      (Ok, mkFrame (v_here f) (v_dir f) (v_tmp f)
             (Some (if use_ll then base_of_config (config s) else None)) (v_prev f) (v_cfg f), s)
  | AssertBase =>
      match v_base f with
      | None => (Raise EUnbound, f, s)
      | Some None => (Ok, f, s)
      | Some (Some b) => if mem_path b (dirs s) then (Ok, f, s) else (Raise EAssert, f, s)
      end
  | Mkdtemp =>
      match v_base f with
      | None => (Raise EUnbound, f, s)
      | Some b =>
          let root := match b with Some p => p | None => tmproot s end in
          let '(flt, s1) := pop_fault s in
          if flt then (Raise (EFault FMkdtemp), f, s1)
          else match names s1 with
               | [] => (Raise ENoNames, f, s1)
               | n :: ns =>
                   let p := root ++ [n] in
                   (Ok, mkFrame (v_here f) (v_dir f) (Some p) (v_base f) (v_prev f) (v_cfg f),
                    set_names (set_dirs s1 (p :: dirs s1)) ns)
               end
      end
  | CopyIn fns =>
      with_var f VTmp s (fun tmp => let '(o, s1) := do_copy_in fns tmp s in (o, f, s1))
  | CopyBack abs files_only kept =>
      with_var f VTmp s (fun tmp => with_var f VHere s (fun h =>
        if negb files_only && existsb (fun q => match child_name tmp q with Some n => kept_name kept n | None => false end) (dirs s)
        then (Raise EIsDir, f, s)     (* os.listdir order is arbitrary: the directory is met first *)
        else
        let '(o, s1) := do_copy_back (kept_candidates kept tmp (files s)) (if abs then Some tmp else None) h s in
        (o, f, s1)))
  | Rmtree v =>
      with_var f v s (fun p =>
        (Ok, f, set_files (set_dirs s (remove_tree p (dirs s))) (remove_tree p (files s))))
  | SaveEnv vars =>
      (Ok, mkFrame (v_here f) (v_dir f) (v_tmp f) (v_base f)
             (Some (map (fun kv => env_get (fst kv) (env s)) vars)) (v_cfg f), s)
  | SetEnv vars => (Ok, f, set_env s (do_set_env vars (env s)))
  | RestoreEnv strict vars =>
      match v_prev f with
      | None => (Raise EUnbound, f, s)
      | Some prev => let '(o, e) := do_restore_env strict (map fst vars) prev (env s) in (o, f, set_env s e)
      end
  | SaveConfig =>
      (Ok, mkFrame (v_here f) (v_dir f) (v_tmp f) (v_base f) (v_prev f) (Some (config s)), s)
  | RestoreConfig =>
      match v_cfg f with
      | None => (Raise EUnbound, f, s)
      | Some saved => (Ok, f, set_config s (cfg_update (config s) saved))
      end
  | MemoryCheck =>
      let '(flt, s1) := pop_fault s in
      if flt then (Raise (EFault FMem), f, s1) else (Ok, f, s1)
  end.

(* one activation of a decorated function: fresh locals, run the term *)
Definition run (t : stmt) (s : state) : outcome * state :=
  let '(o, _, s1) := exec t frame0 s in (o, s1).
End Exec.

(* ------------------------------------------------------------------ decorator stacks of the
   per-program `execute` closures (recorded by the translator) *)
Inductive deco :=
| DTmpDir (kept : option (list string)) (use_ll : bool)
      (* @work_in_tmp_dir(filenames_to_copy=calc.input.filenames, kept_file_exts=<literal tuple> |
         None = read from Config at run time, use_ll_tmp=<literal>) *)
| DEnv (names : list string)               (* @run_in_tmp_environment(NAME=<run-time value>, ...) *)
| DMem.                                    (* @check_sufficient_memory *)
Inductive bstmt :=
| BSetEnvRaw (k : string)                  (* os.environ["K"] = ...  with no restoration *)
| BExternal (entry : string)               (* run_external(...) | run_external_monitored(...) *)
| BMoveIfExists (src dst_suffix : string)  (* if os.path.exists(src): shutil.move(src, f"{calc.name}<suffix>") *)
| BRemoveIfExists (name : string).         (* if os.path.exists(name): os.remove(name) *)
Record program := mkProgram { p_name : string; p_stack : list deco; p_body : list bstmt }.
