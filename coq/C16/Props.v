(* C16/Props.v — the property theorems.  Every term mentioned (work_in_term, work_in_tmp_dir_term,
   run_in_tmp_environment_term, temporary_config_term, check_sufficient_memory_term, programs,
   externals) is GENERATED from /repo's autode/utils.py and autode/wrappers/*.py on every run.
   `wrap w c s` runs the translated body of wrapper w around the wrapped function c from state s.
   All theorems hold for EVERY wrapped function c : state -> outcome * state (it may raise, change
   directory, create or delete files, set variables, edit the configuration), EVERY fault tape (any
   subset of the wrapper's own fallible steps fails) and EVERY initial state. *)
From Coq Require Import List String Bool Arith.
From AV.C16 Require Import Effects Model Lemmas.
From AV.gen Require Import C16_Gen.
Import ListNotations.
Open Scope string_scope.
Open Scope list_scope.

(* work_in: whatever the wrapped function does and however the call ends, the working directory
   afterwards is the one at call time (utils.py:231-242). *)
Theorem work_in_restores_cwd :
  forall ext (c : callee_t) s, cwd (snd (wrap (WWorkIn ext) c s)) = cwd s.
Proof. intros ext c s. apply work_in_cwd. Qed.

(* work_in removes nothing but its own directory, and that only when it is empty: either os.mkdir
   failed (injected fault, or a regular file of that name exists: nothing changed), or the wrapped function ran in <cwd>/<ext> and the final directory set is
   the one it left, minus <cwd>/<ext> exactly when that directory has no entries; files are untouched. *)
Theorem work_in_removes_only_empty_dir :
  forall ext (c : callee_t) s,
  let d := cwd s ++ [ext] in let r := wrap (WWorkIn ext) c s in
  ((fst r = Raise (EFault FMkdir) \/ fst r = Raise EExists) /\ dirs (snd r) = dirs s /\ files (snd r) = files s) \/
  (exists s0 s1, cwd s0 = d /\ In d (dirs s0) /\ incl (dirs s0) (d :: dirs s) /\ c s0 = (fst r, s1) /\
     files (snd r) = files s1 /\
     dirs (snd r) = if is_empty_dir s1 d then remove_path d (dirs s1) else dirs s1).
Proof. intros ext c s. apply work_in_only_empty. Qed.

(* work_in_tmp_dir: the working directory is restored on every path (utils.py:285-327). *)
Theorem tmpdir_restores_cwd :
  forall fns kept ll (c : callee_t) s, cwd (snd (wrap (WTmpDir fns kept ll) c s)) = cwd s.
Proof. intros fns kept ll c s. apply tmpdir_cwd. Qed.

(* The scratch directory never survives the call: either the steps before mkdtemp returned failed
   (assert / mkdtemp itself: nothing was created, directories and files are as before), or NOTHING at
   or below the scratch path exists afterwards — whether copying an input failed, the wrapped function
   raised, a copy-back failed, or everything succeeded. *)
Theorem tmpdir_removed_always :
  forall fns kept ll (c : callee_t) s,
  let r := wrap (WTmpDir fns kept ll) c s in
  (failed_before_mkdtemp (fst r) /\ dirs (snd r) = dirs s /\ files (snd r) = files s) \/
  (forall p, In p (dirs (snd r)) \/ In p (files (snd r)) -> prefixb (tmp_path_of ll s) p = false).
Proof. intros fns kept ll c s. apply tmpdir_removed. Qed.

(* Files requested to be kept are copied back on success: when the decorated call returns normally,
   the wrapped function was run (in the scratch directory) and returned normally, and every file it
   left directly in the scratch directory whose name ends with a kept extension is, afterwards, in the
   directory the call was made from (premise: that destination is not itself inside the scratch
   directory — mkdtemp returns a fresh directory). *)
Theorem kept_files_copied_on_success :
  forall fns kept ll (c : callee_t) s,
  let r := wrap (WTmpDir fns kept ll) c s in let tmp := tmp_path_of ll s in
  fst r = Ok ->
  exists s0 s1, c s0 = (Ok, s1) /\ cwd s0 = tmp /\ In tmp (dirs s0) /\
    forall n, In (tmp ++ [n]) (files s1) -> kept_name kept n = true ->
      prefixb tmp (cwd s ++ [n]) = false -> In (cwd s ++ [n]) (files (snd r)).
Proof. intros fns kept ll c s. apply tmpdir_kept_files. Qed.

(* ... for EVERY wrapped function that succeeds, including one that returns from another directory
   (utils.py:319-321 copies by full path): if the wrapped function returns normally whenever it is
   called and no fault is injected afterwards (every remaining entry of the fault tape is `false`: no
   copy-back fails), the decorated call returns normally too - so by kept_files_copied_on_success the
   kept files are in the calling directory - or it failed before the wrapped function was reached, in
   which case its result does not depend on the wrapped function at all. *)
Theorem kept_files_copied_wherever_callee_returns :
  forall fns kept ll (c : callee_t) s,
  (forall s0, fst (c s0) = Ok /\ no_more_faults (snd (c s0))) ->
  let r := wrap (WTmpDir fns kept ll) c s in
  fst r = Ok \/ (forall c', wrap (WTmpDir fns kept ll) c' s = r).
Proof. intros fns kept ll c s. apply tmpdir_succeeds_wherever. Qed.

(* run_in_tmp_environment: every variable named by the decorator has, after the call, exactly the
   value it had when the call was made — when the wrapped function returns ... *)
Theorem tmp_env_restored_on_return :
  forall vars (c : callee_t) s k, fst (wrap (WEnv vars) c s) = Ok -> In k (map fst vars) ->
  env_get k (env (snd (wrap (WEnv vars) c s))) = env_get k (env s).
Proof. intros vars c s k _ Hk. apply env_restored. exact Hk. Qed.

(* ... and when it raises (utils.py:623-639: the restoration is in a finally block). *)
Theorem tmp_env_restored_on_raise :
  forall vars (c : callee_t) s k e, fst (wrap (WEnv vars) c s) = Raise e -> In k (map fst vars) ->
  env_get k (env (snd (wrap (WEnv vars) c s))) = env_get k (env s).
Proof. intros vars c s k e _ Hk. apply env_restored. exact Hk. Qed.

(* The values restored are those present at CALL time: a variable that was absent is absent again
   (even if the wrapped function set or deleted it), a variable that was set has its call-time value;
   the restoring loop itself never raises. *)
Theorem tmp_env_restores_call_time_values :
  forall vars (c : callee_t) s k, In k (map fst vars) ->
  (env_get k (env s) = None -> env_get k (env (snd (wrap (WEnv vars) c s))) = None) /\
  (forall v, env_get k (env s) = Some v -> env_get k (env (snd (wrap (WEnv vars) c s))) = Some v) /\
  (exists s0, fst (wrap (WEnv vars) c s) = fst (c s0)).
Proof.
  intros vars c s k Hk. pose proof (env_restored vars c s k Hk) as E. split; [|split].
  - intros H. rewrite E. exact H.
  - intros v H. rewrite E. exact H.
  - destruct (wenv_shape vars c s) as [e' [R _]]. eexists. rewrite R. reflexivity.
Qed.

(* temporary_config: every key present on entry has its entry value on exit, on return and on raise
   (utils.py:60-65); keys that did not exist on entry are NOT removed by the update (stated). *)
Theorem temporary_config_restores :
  forall (c : callee_t) s,
  cfg_kept (config s) (config (snd (wrap WConfig c s))) /\
  (forall k, cfg_get k (config s) = None ->
     cfg_get k (config (snd (wrap WConfig c s))) = cfg_get k (config (snd (c s)))).
Proof.
  intros c s. split; [apply config_restored|].
  intros k H. destruct (config_added_keys_stay c s k H) as [s1 [E1 E2]]. rewrite E2, E1. reflexivity.
Qed.

(* check_sufficient_memory: when the memory check fails the wrapped function is not executed at all —
   the result is the RuntimeError and the state is the call-time state (only the fault oracle
   advanced), for every wrapped function; otherwise the call IS the wrapped function. *)
Theorem memory_check_precedes_execution :
  forall (c : callee_t) s,
  (forall t, tape s = true :: t -> wrap WMem c s = (Raise (EFault FMem), set_tape s t)) /\
  (forall t, tape s = false :: t -> wrap WMem c s = c (set_tape s t)) /\
  (tape s = [] -> wrap WMem c s = c s).
Proof.
  intros c s. split; [intros t H; apply mem_check_fails; exact H|].
  split; [intros t H|intros H]; rewrite mem_check_passes, H; reflexivity.
Qed.

(* Nesting, any depth, any mixture of the five wrappers (incl. one decorated function recursing into
   itself = the stack [w; w; ...]): if the innermost function leaves cwd / environment / configuration
   as it found them, so does the whole stack — by induction on the stack. *)
Theorem nesting :
  forall ws (c : callee_t), restores c -> restores (run_stack ws c).
Proof. intros ws c H. apply stack_restores. exact H. Qed.

(* Nesting with an ARBITRARY innermost function: one restoring wrapper anywhere in the stack is
   enough for "its" piece of state, whatever is inside and outside it. *)
Theorem nesting_any_callee :
  forall ws (c : callee_t),
  (existsb restores_cwd_always ws = true -> restores_cwd (run_stack ws c)) /\
  (forall vars k, In (WEnv vars) ws -> In k (map fst vars) -> restores_env_at k (run_stack ws c)) /\
  (In WConfig ws -> restores_cfg (run_stack ws c)).
Proof.
  intros ws c. split; [apply stack_restores_cwd_always|]. split.
  - intros vars k H1 H2. eapply stack_restores_env_var; eassumption.
  - apply stack_restores_cfg_always.
Qed.

(* No scratch directory is left behind by nested use: a stack of scratch wrappers (no work_in) around
   a function that leaves no new directory leaves no new directory; work_in adds at most its own. *)
Theorem nesting_no_scratch_left :
  forall ws (c : callee_t), no_new_dirs c ->
  (forallb (fun w => negb (is_work_in w)) ws = true -> no_new_dirs (run_stack ws c)) /\
  (forall ext s, incl (dirs (snd (wrap (WWorkIn ext) c s))) ((cwd s ++ [ext]) :: dirs s)).
Proof.
  intros ws c H. split; [intros W; apply stack_keeps_no_new_dirs; assumption|].
  intros ext s. apply work_in_at_most_its_dir. exact H.
Qed.

(* Nesting with an ARBITRARY innermost function and scratch directories: a work_in_tmp_dir layer below
   any number of run_in_tmp_environment / temporary_config layers and above ANY stack: cwd is restored,
   the scratch directory and everything below it is gone on every path, and if the call returns the kept
   files the inner stack left in the scratch directory are in the calling directory. *)
Theorem nesting_scratch_removed_any_callee :
  forall outer fns kept ll inner (c : callee_t) s,
  forallb transparent outer = true ->
  let r := run_stack (outer ++ WTmpDir fns kept ll :: inner) c s in
  let tmp := tmp_path_of ll s in
  cwd (snd r) = cwd s /\
  ((failed_before_mkdtemp (fst r) /\ dirs (snd r) = dirs s /\ files (snd r) = files s) \/
   (forall p, In p (dirs (snd r)) \/ In p (files (snd r)) -> prefixb tmp p = false)) /\
  (fst r = Ok -> exists s0 s1, run_stack inner c s0 = (Ok, s1) /\ cwd s0 = tmp /\
     forall n, In (tmp ++ [n]) (files s1) -> kept_name kept n = true ->
       prefixb tmp (cwd s ++ [n]) = false -> In (cwd s ++ [n]) (files (snd r))).
Proof. intros outer fns kept ll inner c s T. apply through_transparent. exact T. Qed.

(* The per-program execute closures (XTB, ORCA, G09, NWChem, MOPAC, QChem), as recorded from the
   source: for every program, every run-time argument, EVERY behaviour of the external program:
   (1) cwd is restored;
   (2) the scratch directory (in the program's own base: use_ll_tmp as written in its decorator) is gone;
   (3) if execute returns, every file with one of the program's kept extensions that the closure left in
       the scratch directory is in the calling directory;
   (4) every variable named by a run_in_tmp_environment decorator is restored;
   (5) if the external program does not disturb cwd/env/config, neither does execute (no closure
       assigns os.environ itself);
   (6) the external program is only ever started behind the memory check.
   The only shape assumed of a stack (checked on the generated table) is: run_in_tmp_environment layers, if
   any, outside or inside work_in_tmp_dir - the order of the two is immaterial. *)
Theorem execute_closures_restore :
  forall p, In p programs -> forall rt (ext : callee_t),
  (forall s, cwd (snd (run_program rt ext p s)) = cwd s) /\
  (forall s, let r := run_program rt ext p s in
     (failed_before_mkdtemp (fst r) /\ dirs (snd r) = dirs s /\ files (snd r) = files s) \/
     (forall q, In q (dirs (snd r)) \/ In q (files (snd r)) -> prefixb (tmp_path_of (prog_ll p) s) q = false)) /\
  (forall s, let r := run_program rt ext p s in let tmp := tmp_path_of (prog_ll p) s in
     fst r = Ok -> exists s0 s1, prog_inner rt ext p s0 = (Ok, s1) /\ cwd s0 = tmp /\
       forall n, In (tmp ++ [n]) (files s1) -> kept_name (prog_kept rt p) n = true ->
         prefixb tmp (cwd s ++ [n]) = false -> In (cwd s ++ [n]) (files (snd r))) /\
  (forall ks k, In (DEnv ks) (p_stack p) -> In k ks -> restores_env_at k (run_program rt ext p)) /\
  (restores ext -> restores (run_program rt ext p)) /\
  (exists e, In (BExternal e) (p_body p)) /\
  (forall e s t, In (BExternal e) (p_body p) -> tape s = true :: t ->
     entry_callee rt ext e s = (Raise (EFault FMem), set_tape s t)).
Proof.
  intros p Hp rt ext. destruct (program_in_shape p Hp) as [S1 [S2 [S3 S4]]].
  destruct (run_program_shape rt ext p S1) as [outer [fns [T E]]].
  split; [intros s; rewrite E; apply (through_transparent outer fns _ _ [] _ s T)|].
  split; [intros s; cbv zeta; rewrite E; apply (through_transparent outer fns _ _ [] _ s T)|].
  split; [intros s; cbv zeta; rewrite E; apply (through_transparent outer fns _ _ [] _ s T)|].
  split; [intros ks k H1 H2; eapply run_program_env_named; eassumption|].
  split; [apply run_program_restores; exact S3|].
  split.
  - unfold has_external in S4. apply existsb_exists in S4 as [b [Hb B]]. destruct b; try discriminate.
    eexists; exact Hb.
  - intros e s t Hin Ht. eapply run_program_mem; eassumption.
Qed.

(* non-vacuity: the hypotheses used above are satisfiable and the generated objects are not trivial:
   six programs; a wrapped function that raises after changing directory inside three nested wrappers
   leaves cwd and the variable restored and no scratch directory, under an injected copy-in fault too. *)
Example nonvacuous :
  List.length programs = 6 /\
  restores (fun s => (Raise (ECallee 0), s)) /\
  (let c : callee_t := fun s => (Raise (ECallee 1), set_env (set_cwd s ["away"]) (env_set "V" "x" (env s))) in
   let s := mkState ["w"] [("V", "old")] [["w"]; ["tmp"]; ["away"]] [["w"; "in.xyz"]] [] ["tmp"] ["t0"] [] in
   let r := run_stack [WTmpDir ["in.xyz"] [".out"] false; WWorkIn "d"; WEnv [("V", "new")]] c s in
   fst r = Raise (ECallee 1) /\ cwd (snd r) = ["w"] /\ env_get "V" (env (snd r)) = Some "old" /\
   dirs (snd r) = dirs s) /\
  (let s := mkState ["w"] [] [["w"]; ["tmp"]] [["w"; "in.xyz"]] [] ["tmp"] ["t0"] [false; true] in
   let r := wrap (WTmpDir ["in.xyz"] [] false) (fun s => (Ok, s)) s in
   fst r = Raise (EFault FCopy) /\ dirs (snd r) = dirs s).
Proof.
  split; [reflexivity|]. split.
  - split; [intros s; reflexivity|]. split; [intros s k; reflexivity|intros s; apply cfg_kept_refl].
  - split; vm_compute; repeat split; reflexivity.
Qed.
