(* C16/Model.v — executable model (definitions only): the decorators of autode/utils.py as wrappers
   whose bodies are the TRANSLATED terms of gen/C16_Gen.v, stacks of wrappers (nesting), and the
   per-program `execute` closures as stack + closure body.  The restoration predicates the theorems
   speak about are defined here as well. *)
From Coq Require Import List String Bool Arith.
From AV.C16 Require Import Effects.
From AV.gen Require Import C16_Gen.
Import ListNotations.
Open Scope string_scope.
Open Scope list_scope.

(* ------------------------------------------------------------------ wrappers and stacks *)
Inductive wrapper :=
| WWorkIn (ext : string)                                   (* @work_in(ext) *)
| WTmpDir (fns kept : list string) (use_ll : bool)         (* @work_in_tmp_dir(fns, kept, use_ll) *)
| WEnv (vars : list (string * string))                     (* @run_in_tmp_environment(k=v, ...) *)
| WConfig                                                  (* with temporary_config(): *)
| WMem.                                                    (* @check_sufficient_memory *)

Definition term_of (w : wrapper) : stmt :=
  match w with
  | WWorkIn ext => work_in_term ext
  | WTmpDir fns kept ll => work_in_tmp_dir_term fns kept ll
  | WEnv vars => run_in_tmp_environment_term vars
  | WConfig => temporary_config_term
  | WMem => check_sufficient_memory_term
  end.

(* the decorated function: one activation of the wrapper body around the wrapped function *)
Definition wrap (w : wrapper) (c : callee_t) : callee_t := fun s => run c (term_of w) s.

(* nesting: ws = outermost first.  Recursion of one decorated function to depth n is the stack
   [w; w; ...; w] around the base case. *)
Fixpoint run_stack (ws : list wrapper) (c : callee_t) : callee_t :=
  match ws with
  | [] => c
  | w :: r => wrap w (run_stack r c)
  end.

(* ------------------------------------------------------------------ restoration predicates *)
Definition env_same (e1 e2 : envt) : Prop := forall k, env_get k e1 = env_get k e2.
(* every key present before keeps (regains) its value; keys added meanwhile may remain *)
Definition cfg_kept (before after : cfgt) : Prop :=
  forall k v, cfg_get k before = Some v -> cfg_get k after = Some v.

(* a callee that leaves cwd / environment / configuration as it found them, whatever its outcome *)
Definition restores_cwd (c : callee_t) : Prop := forall s, cwd (snd (c s)) = cwd s.
Definition restores_env_at (k : string) (c : callee_t) : Prop :=
  forall s, env_get k (env (snd (c s))) = env_get k (env s).
Definition restores_env (c : callee_t) : Prop := forall s, env_same (env (snd (c s))) (env s).
Definition restores_cfg (c : callee_t) : Prop := forall s, cfg_kept (config s) (config (snd (c s))).
Definition no_new_dirs (c : callee_t) : Prop := forall s, incl (dirs (snd (c s))) (dirs s).
Definition restores (c : callee_t) : Prop := restores_cwd c /\ restores_env c /\ restores_cfg c.

Definition restores_cwd_always (w : wrapper) : bool :=
  match w with WWorkIn _ | WTmpDir _ _ _ => true | _ => false end.
Definition is_work_in (w : wrapper) : bool := match w with WWorkIn _ => true | _ => false end.

(* the scratch directory work_in_tmp_dir will create in state s (if it gets that far) *)
Definition tmp_path_of (use_ll : bool) (s : state) : path :=
  (match (if use_ll then base_of_config (config s) else None) with Some b => b | None => tmproot s end)
  ++ [hd "" (names s)].
(* the steps of work_in_tmp_dir before its try block failed: nothing was created *)
Definition failed_before_mkdtemp (o : outcome) : Prop :=
  o = Raise EAssert \/ o = Raise (EFault FMkdtemp) \/ o = Raise ENoNames.

(* ------------------------------------------------------------------ per-program execute closures *)
Record runtime := mkRuntime {
  r_fns : list string;            (* calc.input.filenames *)
  r_kept_cfg : list string;       (* Config.<PROG>.copied_output_exts when the decorator reads it *)
  r_envval : string -> string;    (* str(value) of each run_in_tmp_environment keyword *)
  r_calcname : string }.          (* calc.name *)

Definition wrapper_of_deco (rt : runtime) (d : deco) : wrapper :=
  match d with
  | DTmpDir k ll => WTmpDir (r_fns rt) (match k with Some l => l | None => r_kept_cfg rt end) ll
  | DEnv ks => WEnv (map (fun k => (k, r_envval rt k)) ks)
  | DMem => WMem
  end.

Fixpoint lookup_ext (e : string) (l : list (string * list deco)) : option (list deco) :=
  match l with [] => None | (k, v) :: r => if String.eqb e k then Some v else lookup_ext e r end.

Section Program.
Variable rt : runtime.
Variable external : callee_t.      (* the external program run by Popen: arbitrary *)

(* run_external / run_external_monitored: the external program under the decorators utils.py gives it *)
Definition entry_callee (e : string) : callee_t :=
  match lookup_ext e externals with
  | Some ds => run_stack (map (wrapper_of_deco rt) ds) external
  | None => external
  end.

Definition exec_bstmt (b : bstmt) (s : state) : outcome * state :=
  match b with
  | BSetEnvRaw k => (Ok, set_env s (env_set k (r_envval rt k) (env s)))
  | BExternal e => entry_callee e s
  | BMoveIfExists src suf =>
      let p := cwd s ++ [src] in
      if mem_path p (files s)
      then (Ok, set_files s (add_path (cwd s ++ [String.append (r_calcname rt) suf]) (remove_path p (files s))))
      else (Ok, s)
  | BRemoveIfExists n => (Ok, set_files s (remove_path (cwd s ++ [n]) (files s)))
  end.

Fixpoint exec_body (b : list bstmt) (s : state) : outcome * state :=
  match b with
  | [] => (Ok, s)
  | st :: r => let '(o, s1) := exec_bstmt st s in
               match o with Ok => exec_body r s1 | Raise e => (Raise e, s1) end
  end.

Definition run_program (p : program) : callee_t :=
  run_stack (map (wrapper_of_deco rt) (p_stack p)) (exec_body (p_body p)).
End Program.

(* table checks over the finite generated `programs` / `externals` tables *)
Definition raw_setenv_free (p : program) : bool :=
  forallb (fun b => match b with BSetEnvRaw _ => false | _ => true end) (p_body p).
(* wrappers that never touch cwd / directories / files: state passes through them *)
Definition transparent (w : wrapper) : bool := match w with WEnv _ | WConfig => true | _ => false end.

(* shape of an execute closure's stack: run_in_tmp_environment layers (if any) OUTSIDE, then work_in_tmp_dir,
   then anything.  (The order of the two decorators of XTB / MOPAC is immaterial for the property.) *)
Fixpoint split_stack (st : list deco) : option (list deco * (option (list string) * bool) * list deco) :=
  match st with
  | DTmpDir k ll :: r => Some ([], (k, ll), r)
  | DEnv ks :: r => match split_stack r with
                    | Some (pre, x, post) => Some (DEnv ks :: pre, x, post)
                    | None => None end
  | _ => None
  end.
Definition stack_ok (p : program) : bool := match split_stack (p_stack p) with Some _ => true | None => false end.
Definition prog_ll (p : program) : bool :=
  match split_stack (p_stack p) with Some (_, (_, ll), _) => ll | None => false end.
Definition prog_kept (rt : runtime) (p : program) : list string :=
  match split_stack (p_stack p) with
  | Some (_, (Some l, _), _) => l
  | Some (_, (None, _), _) => r_kept_cfg rt
  | None => [] end.
(* what runs inside the scratch directory: the decorators below work_in_tmp_dir around the closure body *)
Definition prog_inner (rt : runtime) (external : callee_t) (p : program) : callee_t :=
  match split_stack (p_stack p) with
  | Some (_, _, post) => run_stack (map (wrapper_of_deco rt) post) (exec_body rt external (p_body p))
  | None => exec_body rt external (p_body p) end.
Definition externals_guarded (p : program) : bool :=
  forallb (fun b => match b with
                    | BExternal e => match lookup_ext e externals with Some (DMem :: _) => true | _ => false end
                    | _ => true end) (p_body p).
Definition has_external (p : program) : bool :=
  existsb (fun b => match b with BExternal _ => true | _ => false end) (p_body p).
