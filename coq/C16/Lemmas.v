(* C16/Lemmas.v — lemmas about the primitives of Effects.v and, by symbolic execution of the
   TRANSLATED terms of gen/C16_Gen.v, the facts Props.v exports.  Every statement is for an arbitrary
   callee, an arbitrary fault tape and an arbitrary initial state. *)
From Coq Require Import List String Bool Arith Lia.
From AV.C16 Require Import Effects Model.
From AV.gen Require Import C16_Gen.
Import ListNotations.
Open Scope string_scope.
Open Scope list_scope.

(* ------------------------------------------------------------------ paths *)
Lemma path_eqb_refl p : path_eqb p p = true.
Proof. induction p as [|x p IH]; cbn; [reflexivity|]. rewrite String.eqb_refl, IH. reflexivity. Qed.

Lemma path_eqb_eq p q : path_eqb p q = true <-> p = q.
Proof.
  split; [|intros ->; apply path_eqb_refl].
  revert q. induction p as [|x p IH]; destruct q as [|y q]; cbn; try discriminate; [reflexivity|].
  intros H. apply andb_true_iff in H as [H1 H2]. apply String.eqb_eq in H1. f_equal; [exact H1|apply IH; exact H2].
Qed.

Lemma prefixb_refl p : prefixb p p = true.
Proof. induction p as [|x p IH]; cbn; [reflexivity|]. rewrite String.eqb_refl, IH. reflexivity. Qed.

Lemma prefixb_app p q : prefixb p (p ++ q) = true.
Proof. induction p as [|x p IH]; cbn; [reflexivity|]. rewrite String.eqb_refl, IH. reflexivity. Qed.

Lemma mem_path_In p l : mem_path p l = true <-> In p l.
Proof.
  unfold mem_path. rewrite existsb_exists. split.
  - intros [q [Hq E]]. apply path_eqb_eq in E. subst. exact Hq.
  - intros H. exists p. split; [exact H|apply path_eqb_refl].
Qed.

Lemma In_add_path p q l : In q (add_path p l) <-> q = p \/ In q l.
Proof.
  unfold add_path. destruct (mem_path p l) eqn:E.
  - apply mem_path_In in E. split; [tauto|]. intros [->|H]; assumption.
  - cbn. split; intros [H|H]; auto.
Qed.

Lemma In_remove_path p q l : In q (remove_path p l) <-> In q l /\ q <> p.
Proof.
  unfold remove_path. rewrite filter_In. split; intros [H1 H2]; split; try exact H1.
  - intros ->. rewrite path_eqb_refl in H2. discriminate.
  - destruct (path_eqb p q) eqn:E; [|reflexivity]. apply path_eqb_eq in E. congruence.
Qed.

Lemma In_remove_tree p q l : In q (remove_tree p l) <-> In q l /\ prefixb p q = false.
Proof.
  unfold remove_tree. rewrite filter_In. split; intros [H1 H2]; split; try exact H1.
  - destruct (prefixb p q); [discriminate|reflexivity].
  - rewrite H2. reflexivity.
Qed.

Lemma child_name_app p n : child_name p (p ++ [n]) = Some n.
Proof. induction p as [|x p IH]; cbn; [reflexivity|]. rewrite String.eqb_refl. exact IH. Qed.

(* ------------------------------------------------------------------ environment *)
Lemma env_get_del_same k e : env_get k (env_del k e) = None.
Proof.
  induction e as [|[k' v] e IH]; cbn; [reflexivity|].
  destruct (String.eqb k k') eqn:E; cbn; [exact IH|]. rewrite E. exact IH.
Qed.
Lemma env_get_del_other k k' e : k <> k' -> env_get k (env_del k' e) = env_get k e.
Proof.
  intros N. induction e as [|[k2 v] e IH]; cbn; [reflexivity|].
  destruct (String.eqb k' k2) eqn:E; cbn.
  - apply String.eqb_eq in E. subst k2. destruct (String.eqb k k') eqn:E2; [apply String.eqb_eq in E2; congruence|exact IH].
  - destruct (String.eqb k k2); [reflexivity|exact IH].
Qed.
Lemma env_get_set_same k v e : env_get k (env_set k v e) = Some v.
Proof. unfold env_set. cbn. rewrite String.eqb_refl. reflexivity. Qed.
Lemma env_get_set_other k k' v e : k <> k' -> env_get k (env_set k' v e) = env_get k e.
Proof.
  intros N. unfold env_set. cbn. destruct (String.eqb k k') eqn:E; [apply String.eqb_eq in E; congruence|].
  apply env_get_del_other. exact N.
Qed.

Lemma do_set_env_other vars : forall e k, ~ In k (map fst vars) ->
  env_get k (do_set_env vars e) = env_get k e.
Proof.
  unfold do_set_env. induction vars as [|[k' v] vars IH]; intros e k N; cbn; [reflexivity|].
  cbn in N. rewrite IH by tauto. apply env_get_set_other. intros ->. tauto.
Qed.

(* the restoring loop, non-strict (pop with default): never raises; every listed variable gets the
   value it had in e0 (None = removed), everything else is untouched *)
Lemma do_restore_env_spec ks : forall (e0 e : envt) (P : string -> Prop),
  (forall k, P k -> env_get k e = env_get k e0) ->
  exists e', do_restore_env false ks (map (fun k => env_get k e0) ks) e = (Ok, e') /\
    (forall k, P k \/ In k ks -> env_get k e' = env_get k e0) /\
    (forall k, ~ In k ks -> env_get k e' = env_get k e).
Proof.
  induction ks as [|k0 ks IH]; intros e0 e P HP; cbn.
  - exists e. split; [reflexivity|]. split; [intros k [H|[]]; apply HP; exact H|reflexivity].
  - destruct (env_get k0 e0) as [v|] eqn:E0.
    + destruct (IH e0 (env_set k0 v e) (fun k => P k \/ k = k0)) as [e' [R [A B]]].
      { intros k [H| ->]; [|rewrite env_get_set_same; symmetry; exact E0].
        destruct (String.eqb k k0) eqn:E; [apply String.eqb_eq in E; subst; rewrite env_get_set_same; symmetry; exact E0|].
        apply String.eqb_neq in E. rewrite env_get_set_other by exact E. apply HP; exact H. }
      exists e'. split; [exact R|]. split.
      * intros k [H|[H|H]]; apply A; auto.
      * intros k N. rewrite B by tauto. apply env_get_set_other. intros ->. tauto.
    + assert (Hdel : forall k, P k \/ k = k0 -> env_get k (env_del k0 e) = env_get k e0).
      { intros k [H| ->]; [|rewrite env_get_del_same; symmetry; exact E0].
        destruct (String.eqb k k0) eqn:E; [apply String.eqb_eq in E; subst; rewrite env_get_del_same; symmetry; exact E0|].
        apply String.eqb_neq in E. rewrite env_get_del_other by exact E. apply HP; exact H. }
      destruct (env_get k0 e) as [w|] eqn:E1.
      * destruct (IH e0 (env_del k0 e) (fun k => P k \/ k = k0) Hdel) as [e' [R [A B]]].
        exists e'. split; [exact R|]. split.
        -- intros k [H|[H|H]]; apply A; auto.
        -- intros k N. rewrite B by tauto. apply env_get_del_other. intros ->. tauto.
      * destruct (IH e0 e (fun k => P k \/ k = k0)) as [e' [R [A B]]].
        { intros k [H| ->]; [apply HP; exact H|congruence]. }
        exists e'. split; [exact R|]. split.
        -- intros k [H|[H|H]]; apply A; auto.
        -- intros k N. apply B. tauto.
Qed.

(* ------------------------------------------------------------------ configuration *)
Lemma cfg_get_del_other k k' c : k <> k' -> cfg_get k (cfg_del k' c) = cfg_get k c.
Proof.
  intros N. induction c as [|[k2 v] c IH]; cbn; [reflexivity|].
  destruct (String.eqb k' k2) eqn:E; cbn.
  - apply String.eqb_eq in E. subst k2. destruct (String.eqb k k') eqn:E2; [apply String.eqb_eq in E2; congruence|exact IH].
  - destruct (String.eqb k k2); [reflexivity|exact IH].
Qed.
Lemma cfg_get_set_same k v c : cfg_get k (cfg_set k v c) = Some v.
Proof. unfold cfg_set. cbn. rewrite String.eqb_refl. reflexivity. Qed.
Lemma cfg_get_set_other k k' v c : k <> k' -> cfg_get k (cfg_set k' v c) = cfg_get k c.
Proof.
  intros N. unfold cfg_set. cbn. destruct (String.eqb k k') eqn:E; [apply String.eqb_eq in E; congruence|].
  apply cfg_get_del_other. exact N.
Qed.

(* dict.update(saved): every key of `saved` ends with its saved value *)
Lemma cfg_update_kept saved : forall cur, cfg_kept saved (cfg_update cur saved).
Proof.
  unfold cfg_kept, cfg_update. induction saved as [|[k' v'] saved IH]; intros cur k v H; cbn [fold_right fst snd cfg_get] in *; [discriminate|].
  destruct (String.eqb k k') eqn:E.
  - apply String.eqb_eq in E. subst k'. rewrite cfg_get_set_same. exact H.
  - apply String.eqb_neq in E. rewrite cfg_get_set_other by exact E. apply IH. exact H.
Qed.
(* ... and keys that are not in `saved` (added meanwhile) keep their current value *)
Lemma cfg_update_other saved : forall cur k, cfg_get k saved = None ->
  cfg_get k (cfg_update cur saved) = cfg_get k cur.
Proof.
  unfold cfg_update. induction saved as [|[k' v'] saved IH]; intros cur k H; cbn [fold_right fst snd cfg_get] in *; [reflexivity|].
  destruct (String.eqb k k') eqn:E; [discriminate|].
  apply String.eqb_neq in E. rewrite cfg_get_set_other by exact E. apply IH. exact H.
Qed.

Lemma cfg_kept_refl c : cfg_kept c c.
Proof. intros k v H. exact H. Qed.

(* ------------------------------------------------------------------ fallible primitives: frames *)
Definition same_but_files_tape (a b : state) : Prop :=
  cwd a = cwd b /\ env a = env b /\ dirs a = dirs b /\ config a = config b /\
  tmproot a = tmproot b /\ names a = names b.

Lemma pop_fault_frame s b s' : pop_fault s = (b, s') ->
  same_but_files_tape s' s /\ files s' = files s.
Proof.
  unfold pop_fault, same_but_files_tape. destruct (tape s); intros H; inversion H; subst; cbn; repeat split; reflexivity.
Qed.

Lemma pop_fault_tape s : pop_fault s =
  match tape s with [] => (false, s) | b :: t => (b, set_tape s t) end.
Proof. reflexivity. Qed.

Lemma do_copy_in_frame fns tmp : forall s o s', do_copy_in fns tmp s = (o, s') -> same_but_files_tape s' s.
Proof.
  unfold same_but_files_tape.
  induction fns as [|fn r IH]; intros s o s' H; cbn in H.
  - inversion H; subst. repeat split; reflexivity.
  - destruct (pop_fault s) as [flt s1] eqn:Ep. apply pop_fault_frame in Ep as [[A1 [A2 [A3 [A4 [A5 A6]]]]] _].
    destruct flt; [inversion H; subst; repeat split; assumption|].
    destruct (negb (mem_path (cwd s1 ++ [fn]) (files s1))); [inversion H; subst; repeat split; assumption|].
    destruct (ends_with "_mol.in" fn); apply IH in H; cbn in H;
      destruct H as [B1 [B2 [B3 [B4 [B5 B6]]]]]; repeat split; congruence.
Qed.

(* files created by copy-in all lie in the scratch directory; nothing else appears *)
Lemma do_copy_in_files fns tmp : forall s o s' p, do_copy_in fns tmp s = (o, s') ->
  In p (files s') -> In p (files s) \/ prefixb tmp p = true.
Proof.
  induction fns as [|fn r IH]; intros s o s' p H Hp; cbn in H.
  - inversion H; subst. left; exact Hp.
  - destruct (pop_fault s) as [flt s1] eqn:Ep. apply pop_fault_frame in Ep as [_ Ef].
    destruct flt; [inversion H; subst; left; congruence|].
    destruct (negb (mem_path (cwd s1 ++ [fn]) (files s1))); [inversion H; subst; left; congruence|].
    destruct (ends_with "_mol.in" fn); destruct (IH _ _ _ p H Hp) as [Q|Q]; try (right; exact Q); cbn in Q;
      apply In_add_path in Q as [->|Q]; try (right; apply prefixb_app).
    + apply In_remove_path in Q as [Q _]. left; congruence.
    + left; congruence.
Qed.

Lemma do_copy_back_frame cands src here : forall s o s', do_copy_back cands src here s = (o, s') ->
  same_but_files_tape s' s.
Proof.
  unfold same_but_files_tape.
  induction cands as [|n r IH]; intros s o s' H; cbn in H.
  - inversion H; subst. repeat split; reflexivity.
  - destruct (pop_fault s) as [flt s1] eqn:Ep. apply pop_fault_frame in Ep as [[A1 [A2 [A3 [A4 [A5 A6]]]]] _].
    destruct flt; [inversion H; subst; repeat split; assumption|].
    destruct (negb (mem_path (src_dir src s1 ++ [n]) (files s1))); [inversion H; subst; repeat split; assumption|].
    apply IH in H; cbn in H. destruct H as [B1 [B2 [B3 [B4 [B5 B6]]]]]. repeat split; congruence.
Qed.

(* a copy-back loop that finishes normally has put every candidate into `here`, and never removes *)
Lemma do_copy_back_ok cands src here : forall s s', do_copy_back cands src here s = (Ok, s') ->
  (forall n, In n cands -> In (here ++ [n]) (files s')) /\ (forall p, In p (files s) -> In p (files s')).
Proof.
  induction cands as [|n r IH]; intros s s' H; cbn in H.
  - inversion H; subst. split; [intros n []|auto].
  - destruct (pop_fault s) as [flt s1] eqn:Ep. apply pop_fault_frame in Ep as [_ Ef].
    destruct flt; [discriminate|].
    destruct (negb (mem_path (src_dir src s1 ++ [n]) (files s1))); [discriminate|].
    apply IH in H as [A B]. cbn in B. split.
    + intros m [<-|Hm]; [apply B, In_add_path; left; reflexivity|apply A; exact Hm].
    + intros p Hp. apply B, In_add_path. right. congruence.
Qed.

(* no injected fault and the callee is (back) in the scratch directory: copy-back cannot fail *)
Definition no_more_faults (s : state) : Prop := Forall (fun b => b = false) (tape s).

Lemma do_copy_back_succeeds cands src here tmp : forall s,
  src_dir src s = tmp -> no_more_faults s -> (forall n, In n cands -> In (tmp ++ [n]) (files s)) ->
  exists s', do_copy_back cands src here s = (Ok, s').
Proof.
  unfold no_more_faults.
  induction cands as [|n r IH]; intros s Hc Ht Hin; cbn [do_copy_back].
  - eexists; reflexivity.
  - assert (M : mem_path (src_dir src s ++ [n]) (files s) = true) by (apply mem_path_In; rewrite Hc; apply Hin; left; reflexivity).
    rewrite pop_fault_tape. destruct (tape s) as [|b t] eqn:Et.
    + rewrite M. cbn [negb]. apply IH.
      * destruct src; exact Hc.
      * cbn. rewrite Et. constructor.
      * intros m Hm. cbn. apply In_add_path. right. apply Hin. right; exact Hm.
    + apply Forall_cons_iff in Ht as [Hb Htl]. subst b.
      assert (M' : mem_path (src_dir src (set_tape s t) ++ [n]) (files (set_tape s t)) = true) by (destruct src; exact M).
      rewrite M'. cbn [negb]. apply IH.
      * destruct src; exact Hc.
      * cbn. exact Htl.
      * intros m Hm. cbn. apply In_add_path. right. apply Hin. right; exact Hm.
Qed.

Lemma In_kept_candidates kept tmp fs n :
  In (tmp ++ [n]) fs -> kept_name kept n = true -> In n (kept_candidates kept tmp fs).
Proof.
  intros H K. unfold kept_candidates. apply in_flat_map. exists (tmp ++ [n]). split; [exact H|].
  rewrite child_name_app, K. left; reflexivity.
Qed.

Lemma kept_candidates_sound kept tmp fs n :
  In n (kept_candidates kept tmp fs) -> exists q, In q fs /\ child_name tmp q = Some n.
Proof.
  unfold kept_candidates. intros H. apply in_flat_map in H as [q [Hq H]]. exists q. split; [exact Hq|].
  destruct (child_name tmp q) as [m|]; [|destruct H]. destruct (kept_name kept m); [|destruct H].
  destruct H as [<-|[]]. reflexivity.
Qed.

Lemma child_name_eq p : forall q n, child_name p q = Some n -> q = p ++ [n].
Proof.
  induction p as [|x p IH]; intros q n H; cbn in H.
  - destruct q as [|m [|? ?]]; try discriminate. inversion H; reflexivity.
  - destruct q as [|y q]; [discriminate|]. destruct (String.eqb x y) eqn:E; [|discriminate].
    apply String.eqb_eq in E. subst y. cbn. f_equal. apply IH. exact H.
Qed.

Lemma is_empty_dir_ext a b d : dirs a = dirs b -> files a = files b -> is_empty_dir a d = is_empty_dir b d.
Proof. unfold is_empty_dir. intros -> ->. reflexivity. Qed.

(* ------------------------------------------------------------------ symbolic execution *)
Arguments pop_fault : simpl never.
Arguments mem_path : simpl never.
Arguments is_empty_dir : simpl never.
Arguments remove_path : simpl never.
Arguments remove_tree : simpl never.
Arguments do_copy_in : simpl never.
Arguments do_copy_back : simpl never.
Arguments do_restore_env : simpl never.
Arguments do_set_env : simpl never.
Arguments cfg_update : simpl never.
Arguments kept_candidates : simpl never.
Arguments base_of_config : simpl never.
Arguments env_get : simpl never.
Arguments cfg_get : simpl never.
Arguments prefixb : simpl never.

(* destruct the innermost stuck scrutinee of the goal, remembering the equation *)
Ltac step :=
  match goal with
  | |- context [match ?x with _ => _ end] =>
      lazymatch x with
      | context [match _ with _ => _ end] => fail
      | _ => destruct x eqn:?
      end
  end; cbn.
Ltac run_term := unfold wrap, run, term_of; cbn; repeat step.
Ltac frames :=
  repeat match goal with
  | H : pop_fault _ = _ |- _ => apply pop_fault_frame in H; destruct H as [[? [? [? [? [? ?]]]]] ?]
  | H : do_copy_in _ _ _ = _ |- _ =>
      let F := fresh "F" in pose proof (do_copy_in_frame _ _ _ _ _ H) as F; destruct F as [? [? [? [? [? ?]]]]];
      generalize dependent H; intro
  end.

(* ---- work_in (utils.py:225-256) ---- *)
Lemma work_in_cwd ext c : restores_cwd (wrap (WWorkIn ext) c).
Proof.
  intros s. unfold work_in_term. run_term; try reflexivity.
  all: match goal with H : pop_fault _ = _ |- _ => apply pop_fault_frame in H; unfold same_but_files_tape in H; tauto end.
Qed.
Lemma is_empty_dir_set_cwd s p d : is_empty_dir (set_cwd s p) d = is_empty_dir s d.
Proof. reflexivity. Qed.

Ltac pf := repeat match goal with H : pop_fault _ = _ |- _ =>
  apply pop_fault_frame in H; unfold same_but_files_tape in H; destruct H as [[? [? [? [? [? ?]]]]] ?] end.

(* work_in: the only thing the finally block can remove is dir_path, and only when it is empty *)
Lemma work_in_only_empty ext c s :
  let d := cwd s ++ [ext] in let r := wrap (WWorkIn ext) c s in
  ((fst r = Raise (EFault FMkdir) \/ fst r = Raise EExists) /\ dirs (snd r) = dirs s /\ files (snd r) = files s) \/
  (exists s0 s1, cwd s0 = d /\ In d (dirs s0) /\ incl (dirs s0) (d :: dirs s) /\ c s0 = (fst r, s1) /\
     files (snd r) = files s1 /\
     dirs (snd r) = if is_empty_dir s1 d then remove_path d (dirs s1) else dirs s1).
Proof.
  cbv zeta. unfold work_in_term. run_term.
  all: try (right; eexists _, _; split; [|split; [|split; [|split; [eassumption|]]]]; cbn;
            [reflexivity| first [apply mem_path_In; assumption | left; reflexivity]
            | first [apply incl_tl, incl_refl
                    | pf; match goal with H : dirs ?x = _ |- context [dirs ?x] => rewrite H end; apply incl_refl]|];
            rewrite ?is_empty_dir_set_cwd in *;
            match goal with H : is_empty_dir _ _ = _ |- _ => rewrite H end; split; reflexivity).
  all: left; pf; intuition congruence.
Qed.

(* ---- work_in_tmp_dir (utils.py:259-333) ---- *)
Lemma tmpdir_cwd fns kept ll c : restores_cwd (wrap (WTmpDir fns kept ll) c).
Proof.
  intros s. unfold work_in_tmp_dir_term. run_term; try reflexivity.
  all: pf; try congruence.
Qed.

Lemma tmpdir_removed fns kept ll c s :
  let r := wrap (WTmpDir fns kept ll) c s in
  (failed_before_mkdtemp (fst r) /\ dirs (snd r) = dirs s /\ files (snd r) = files s) \/
  (forall p, In p (dirs (snd r)) \/ In p (files (snd r)) -> prefixb (tmp_path_of ll s) p = false).
Proof.
  cbv zeta. unfold work_in_tmp_dir_term, tmp_path_of, failed_before_mkdtemp. run_term.
  all: try (left; split; [tauto|pf; split; congruence]).
  all: right; intros q [Hq|Hq]; apply In_remove_tree in Hq as [_ Hq]; pf;
       match goal with H1 : names ?a = ?n :: _, H2 : names ?a = names ?b |- context [names ?b] =>
         rewrite <- H2, H1 end; exact Hq.
Qed.

Lemma tmpdir_kept_files fns kept ll c s :
  let r := wrap (WTmpDir fns kept ll) c s in let tmp := tmp_path_of ll s in
  fst r = Ok ->
  exists s0 s1, c s0 = (Ok, s1) /\ cwd s0 = tmp /\ In tmp (dirs s0) /\
    forall n, In (tmp ++ [n]) (files s1) -> kept_name kept n = true ->
      prefixb tmp (cwd s ++ [n]) = false -> In (cwd s ++ [n]) (files (snd r)).
Proof.
  cbv zeta. unfold work_in_tmp_dir_term, tmp_path_of. run_term; intros HOk; try discriminate.
  all: subst.
  all: match goal with H : do_copy_in _ _ _ = _ |- _ =>
         let F := fresh "F" in pose proof (do_copy_in_frame _ _ _ _ _ H) as F; unfold same_but_files_tape in F; cbn in F;
         destruct F as [_ [_ [FD _]]] end.
  all: pf.
  all: match goal with H1 : names ?a = ?n :: _, H2 : names ?a = names ?b |- context [names ?b] =>
         rewrite <- H2, H1 end; cbn [hd].
  all: eexists _, _; split; [eassumption|]; split; [reflexivity|]; split; [cbn; rewrite FD; left; reflexivity|].
  all: intros n Hin Hk Hpre; apply In_remove_tree; split; [|exact Hpre].
  all: match goal with H : do_copy_back _ _ _ _ = (Ok, _) |- _ => apply do_copy_back_ok in H as [A _] end.
  all: apply A, In_kept_candidates; assumption.
Qed.

(* a wrapped function that succeeds (and leaves the fault tape empty) makes the whole call succeed,
   WHEREVER it returns from: either the call returns normally, or it failed before the wrapped function
   was reached (its result does not depend on the wrapped function at all) *)
Lemma tmpdir_succeeds_wherever fns kept ll c s :
  (forall s0, fst (c s0) = Ok /\ no_more_faults (snd (c s0))) ->
  let r := wrap (WTmpDir fns kept ll) c s in
  fst r = Ok \/ (forall c', wrap (WTmpDir fns kept ll) c' s = r).
Proof.
  intros Hc. cbv zeta. unfold work_in_tmp_dir_term. run_term.
  all: try (left; reflexivity).
  all: try (right; intros c'; reflexivity).
  all: match goal with Hcall : ?f ?a = (_, ?b), Hc' : forall s0, fst (?f s0) = Ok /\ _ |- _ =>
         let Q := fresh "Q" in pose proof (Hc' a) as Q; rewrite Hcall in Q; cbn in Q; destruct Q as [Q1 Q2] end;
       try discriminate.
  all: left.
  all: match goal with Hb : do_copy_back ?cands (Some ?tmp) ?h ?st = (?o, _) |- _ =>
         let E := fresh "E" in
         assert (E : exists s', do_copy_back cands (Some tmp) h st = (Ok, s')) by
           (apply (do_copy_back_succeeds cands (Some tmp) h tmp st eq_refl Q2);
            intros n Hn; apply kept_candidates_sound in Hn as [q [Hq Hn]]; apply child_name_eq in Hn; subst q; exact Hq);
         destruct E as [s' Es]; pose proof (eq_trans (eq_sym Hb) Es) as X; inversion X; reflexivity end.
Qed.

(* ---- run_in_tmp_environment (utils.py:604-645) ---- *)
Lemma env_restored vars c s k : In k (map fst vars) ->
  env_get k (env (snd (wrap (WEnv vars) c s))) = env_get k (env s).
Proof.
  intros Hk. unfold wrap, run, term_of, run_in_tmp_environment_term. cbn.
  destruct (c (set_env s (do_set_env vars (env s)))) as [o s1] eqn:Ec. cbn.
  destruct (do_restore_env_spec (map fst vars) (env s) (env s1) (fun _ => False)) as [e' [R [A _]]]; [tauto|].
  rewrite map_map in R. rewrite R. destruct o; cbn; apply A; right; exact Hk.
Qed.

Lemma env_untouched_elsewhere vars c s k : ~ In k (map fst vars) ->
  exists s0 s1, c s0 = (fst (wrap (WEnv vars) c s), s1) /\ env_get k (env s0) = env_get k (env s) /\
    env_get k (env (snd (wrap (WEnv vars) c s))) = env_get k (env s1) /\
    cwd s0 = cwd s /\ config s0 = config s /\ dirs s0 = dirs s /\
    cwd (snd (wrap (WEnv vars) c s)) = cwd s1 /\ config (snd (wrap (WEnv vars) c s)) = config s1 /\
    dirs (snd (wrap (WEnv vars) c s)) = dirs s1.
Proof.
  intros Hk. unfold wrap, run, term_of, run_in_tmp_environment_term. cbn.
  destruct (c (set_env s (do_set_env vars (env s)))) as [o s1] eqn:Ec. cbn.
  destruct (do_restore_env_spec (map fst vars) (env s) (env s1) (fun _ => False)) as [e' [R [_ B]]]; [tauto|].
  rewrite map_map in R. rewrite R.
  exists (set_env s (do_set_env vars (env s))), s1. split; [destruct o; exact Ec|].
  split; [cbn; apply do_set_env_other; exact Hk|].
  destruct o; cbn; repeat split; apply B; exact Hk.
Qed.

(* ---- temporary_config (utils.py:35-67) ---- *)
Lemma config_restored c s : cfg_kept (config s) (config (snd (wrap WConfig c s))).
Proof.
  unfold wrap, run, term_of, temporary_config_term. cbn.
  destruct (c s) as [o s1]. destruct o; cbn; apply cfg_update_kept.
Qed.

Lemma config_added_keys_stay c s k : cfg_get k (config s) = None ->
  exists s1, c s = (fst (wrap WConfig c s), s1) /\
    cfg_get k (config (snd (wrap WConfig c s))) = cfg_get k (config s1).
Proof.
  intros H. unfold wrap, run, term_of, temporary_config_term. cbn.
  destruct (c s) as [o s1]. exists s1. destruct o; cbn; (split; [reflexivity|apply cfg_update_other; exact H]).
Qed.

(* ---- check_sufficient_memory (utils.py:122-144) ---- *)
Lemma mem_check_fails c s t : tape s = true :: t -> wrap WMem c s = (Raise (EFault FMem), set_tape s t).
Proof.
  intros H. unfold wrap, run, term_of, check_sufficient_memory_term. cbn. rewrite pop_fault_tape, H. reflexivity.
Qed.
Lemma mem_check_passes c s : wrap WMem c s =
  match tape s with [] => c s | true :: t => (Raise (EFault FMem), set_tape s t) | false :: t => c (set_tape s t) end.
Proof.
  unfold wrap, run, term_of, check_sufficient_memory_term. cbn. rewrite pop_fault_tape.
  destruct (tape s) as [|[|] t]; cbn; try reflexivity.
  - destruct (c s); reflexivity.
  - destruct (c (set_tape s t)); reflexivity.
Qed.
(* ------------------------------------------------------------------ what each wrapper lets through *)
Lemma wenv_shape vars c s :
  let s0 := set_env s (do_set_env vars (env s)) in
  exists e', wrap (WEnv vars) c s = (fst (c s0), set_env (snd (c s0)) e') /\
    (forall k, In k (map fst vars) -> env_get k e' = env_get k (env s)) /\
    (forall k, ~ In k (map fst vars) -> env_get k e' = env_get k (env (snd (c s0)))).
Proof.
  cbv zeta. unfold wrap, run, term_of, run_in_tmp_environment_term. cbn.
  destruct (c (set_env s (do_set_env vars (env s)))) as [o s1] eqn:Ec. cbn.
  destruct (do_restore_env_spec (map fst vars) (env s) (env s1) (fun _ => False)) as [e' [R [A B]]]; [tauto|].
  rewrite map_map in R. rewrite R. exists e'. split; [destruct o; reflexivity|]. split; [intros k Hk; apply A; right; exact Hk|exact B].
Qed.

Lemma wcfg_shape c s :
  wrap WConfig c s = (fst (c s), set_config (snd (c s)) (cfg_update (config (snd (c s))) (config s))).
Proof.
  unfold wrap, run, term_of, temporary_config_term. cbn. destruct (c s) as [o s1]. destruct o; reflexivity.
Qed.

Lemma workin_passthrough ext c s :
  let r := wrap (WWorkIn ext) c s in
  (env (snd r) = env s /\ config (snd r) = config s) \/
  (exists s0 o1 s1, c s0 = (o1, s1) /\ env s0 = env s /\ config s0 = config s /\
     env (snd r) = env s1 /\ config (snd r) = config s1).
Proof.
  cbv zeta. unfold work_in_term. run_term.
  all: try (right; eexists _, _, _; split; [eassumption|]; cbn; pf; repeat split; congruence).
  all: left; pf; split; congruence.
Qed.

Lemma tmpdir_passthrough fns kept ll c s :
  let r := wrap (WTmpDir fns kept ll) c s in
  (env (snd r) = env s /\ config (snd r) = config s /\ incl (dirs (snd r)) (dirs s)) \/
  (exists s0 o1 s1 tmp, c s0 = (o1, s1) /\ env s0 = env s /\ config s0 = config s /\ dirs s0 = tmp :: dirs s /\
     env (snd r) = env s1 /\ config (snd r) = config s1 /\ dirs (snd r) = remove_tree tmp (dirs s1)).
Proof.
  cbv zeta. unfold work_in_tmp_dir_term. run_term.
  all: repeat match goal with H : do_copy_in _ _ _ = _ |- _ =>
         apply do_copy_in_frame in H; unfold same_but_files_tape in H; cbn in H; destruct H as [? [? [? [? [? ?]]]]] end.
  all: repeat match goal with H : do_copy_back _ _ _ _ = _ |- _ =>
         apply do_copy_back_frame in H; unfold same_but_files_tape in H; cbn in H; destruct H as [? [? [? [? [? ?]]]]] end.
  all: pf.
  all: try (match goal with Hc : ?f (set_cwd ?a ?t) = (?o, ?b) |- _ =>
              right; exists (set_cwd a t), o, b, t; split; [exact Hc|]; cbn; repeat split;
              first [congruence | repeat (match goal with H : dirs ?x = _ |- context [dirs ?x] => rewrite H end); reflexivity] end).
  all: left; cbn; (split; [congruence|]); (split; [congruence|]).
  all: try (intros q Hq; congruence).
  all: intros q Hq; apply In_remove_tree in Hq as [Hq Hp];
       match goal with H : dirs _ = _ :: dirs _ |- _ => rewrite H in Hq end;
       destruct Hq as [<-|Hq]; [rewrite prefixb_refl in Hp; discriminate|congruence].
Qed.

(* ------------------------------------------------------------------ nesting: one layer *)
Lemma wrap_keeps_cwd w c : restores_cwd c -> restores_cwd (wrap w c).
Proof.
  intros H s. destruct w as [ext|fns kept ll|vars| |].
  - apply work_in_cwd.
  - apply tmpdir_cwd.
  - destruct (wenv_shape vars c s) as [e' [E _]]. rewrite E. cbn. apply (H (set_env s _)).
  - rewrite wcfg_shape. cbn. apply H.
  - rewrite mem_check_passes. destruct (tape s) as [|[|] t]; [apply H|reflexivity|apply (H (set_tape s t))].
Qed.

Lemma wrap_keeps_env_at k w c : restores_env_at k c -> restores_env_at k (wrap w c).
Proof.
  intros H s. destruct w as [ext|fns kept ll|vars| |].
  - destruct (workin_passthrough ext c s) as [[E _]|[s0 [o1 [s1 [Ec [E0 [_ [E1 _]]]]]]]]; [rewrite E; reflexivity|].
    rewrite E1, <- E0. specialize (H s0). rewrite Ec in H. exact H.
  - destruct (tmpdir_passthrough fns kept ll c s) as [[E _]|[s0 [o1 [s1 [tmp [Ec [E0 [_ [_ [E1 _]]]]]]]]]]; [rewrite E; reflexivity|].
    rewrite E1, <- E0. specialize (H s0). rewrite Ec in H. exact H.
  - destruct (wenv_shape vars c s) as [e' [E [A B]]]. rewrite E. cbn.
    destruct (in_dec string_dec k (map fst vars)) as [I|N]; [apply A; exact I|].
    rewrite (B k N). rewrite (H (set_env s _)). cbn. apply do_set_env_other. exact N.
  - rewrite wcfg_shape. cbn. apply H.
  - rewrite mem_check_passes. destruct (tape s) as [|[|] t]; [apply H|reflexivity|apply (H (set_tape s t))].
Qed.

Lemma wrap_keeps_cfg w c : restores_cfg c -> restores_cfg (wrap w c).
Proof.
  intros H s. destruct w as [ext|fns kept ll|vars| |].
  - destruct (workin_passthrough ext c s) as [[_ E]|[s0 [o1 [s1 [Ec [_ [E0 [_ E1]]]]]]]]; [rewrite E; apply cfg_kept_refl|].
    rewrite E1, <- E0. specialize (H s0). rewrite Ec in H. exact H.
  - destruct (tmpdir_passthrough fns kept ll c s) as [[_ [E _]]|[s0 [o1 [s1 [tmp [Ec [_ [E0 [_ [_ [E1 _]]]]]]]]]]]; [rewrite E; apply cfg_kept_refl|].
    rewrite E1, <- E0. specialize (H s0). rewrite Ec in H. exact H.
  - destruct (wenv_shape vars c s) as [e' [E _]]. rewrite E. cbn. apply (H (set_env s _)).
  - apply config_restored.
  - rewrite mem_check_passes. destruct (tape s) as [|[|] t]; [apply H|apply cfg_kept_refl|apply (H (set_tape s t))].
Qed.

Lemma wrap_keeps_no_new_dirs w c : is_work_in w = false -> no_new_dirs c -> no_new_dirs (wrap w c).
Proof.
  intros W H s. destruct w as [ext|fns kept ll|vars| |]; [discriminate| | | |].
  - destruct (tmpdir_passthrough fns kept ll c s) as [[_ [_ E]]|[s0 [o1 [s1 [tmp [Ec [_ [_ [D0 [_ [_ D1]]]]]]]]]]]; [exact E|].
    rewrite D1. intros q Hq. apply In_remove_tree in Hq as [Hq Hp].
    specialize (H s0). rewrite Ec in H. cbn in H. apply H in Hq. rewrite D0 in Hq.
    destruct Hq as [<-|Hq]; [rewrite prefixb_refl in Hp; discriminate|exact Hq].
  - destruct (wenv_shape vars c s) as [e' [E _]]. rewrite E. cbn. apply (H (set_env s _)).
  - rewrite wcfg_shape. cbn. apply H.
  - rewrite mem_check_passes. destruct (tape s) as [|[|] t]; [apply H|apply incl_refl|apply (H (set_tape s t))].
Qed.

(* work_in leaves at most its own (named, non-scratch) directory *)
Lemma work_in_at_most_its_dir ext c s : no_new_dirs c ->
  incl (dirs (snd (wrap (WWorkIn ext) c s))) ((cwd s ++ [ext]) :: dirs s).
Proof.
  intros H. destruct (work_in_only_empty ext c s) as [[_ [E _]]|[s0 [s1 [C0 [D0 [I0 [Ec [_ E]]]]]]]].
  - rewrite E. apply incl_tl, incl_refl.
  - cbv zeta in E. rewrite E. specialize (H s0). rewrite Ec in H. cbn in H.
    destruct (is_empty_dir s1 (cwd s ++ [ext])).
    + intros q Hq. apply In_remove_path in Hq as [Hq _]. apply I0, H, Hq.
    + intros q Hq. apply I0, H, Hq.
Qed.

(* ------------------------------------------------------------------ nesting: any depth *)
Lemma stack_keeps_cwd ws c : restores_cwd c -> restores_cwd (run_stack ws c).
Proof. intros H. induction ws as [|w r IH]; cbn; [exact H|apply wrap_keeps_cwd; exact IH]. Qed.

Lemma stack_restores_cwd_always ws c :
  existsb restores_cwd_always ws = true -> restores_cwd (run_stack ws c).
Proof.
  induction ws as [|w r IH]; cbn; [discriminate|]. intros H.
  destruct (restores_cwd_always w) eqn:E.
  - destruct w; try discriminate; [apply work_in_cwd|apply tmpdir_cwd].
  - cbn in H. apply wrap_keeps_cwd, IH, H.
Qed.

Lemma stack_keeps_env_at k ws c : restores_env_at k c -> restores_env_at k (run_stack ws c).
Proof. intros H. induction ws as [|w r IH]; cbn; [exact H|apply wrap_keeps_env_at; exact IH]. Qed.

Lemma stack_restores_env_var ws c vars k :
  In (WEnv vars) ws -> In k (map fst vars) -> restores_env_at k (run_stack ws c).
Proof.
  induction ws as [|w r IH]; cbn; [tauto|]. intros [->|H] Hk.
  - intros s. apply env_restored. exact Hk.
  - apply wrap_keeps_env_at, IH; assumption.
Qed.

Lemma stack_keeps_cfg ws c : restores_cfg c -> restores_cfg (run_stack ws c).
Proof. intros H. induction ws as [|w r IH]; cbn; [exact H|apply wrap_keeps_cfg; exact IH]. Qed.

Lemma cfg_kept_trans a b c : cfg_kept a b -> cfg_kept b c -> cfg_kept a c.
Proof. intros H1 H2 k v H. apply H2, H1, H. Qed.

Lemma stack_restores_cfg_always ws c : In WConfig ws -> restores_cfg (run_stack ws c).
Proof.
  induction ws as [|w r IH]; cbn; [tauto|]. intros [->|H].
  - intros s. apply config_restored.
  - apply wrap_keeps_cfg, IH, H.
Qed.

Lemma stack_keeps_no_new_dirs ws c :
  forallb (fun w => negb (is_work_in w)) ws = true -> no_new_dirs c -> no_new_dirs (run_stack ws c).
Proof.
  intros W H. induction ws as [|w r IH]; cbn; [exact H|]. cbn in W. apply andb_true_iff in W as [W1 W2].
  apply wrap_keeps_no_new_dirs; [destruct (is_work_in w); [discriminate|reflexivity]|apply IH; exact W2].
Qed.

Lemma stack_restores ws c : restores c -> restores (run_stack ws c).
Proof.
  intros [H1 [H2 H3]]. split; [apply stack_keeps_cwd; exact H1|]. split; [|apply stack_keeps_cfg; exact H3].
  intros s k. apply (stack_keeps_env_at k ws c (fun s' => H2 s' k)).
Qed.
(* ------------------------------------------------------------------ transparent outer layers *)
(* s0 is s as far as directories are concerned *)
Definition same_fs_inputs (s0 s : state) : Prop :=
  cwd s0 = cwd s /\ dirs s0 = dirs s /\ files s0 = files s /\ config s0 = config s /\
  tmproot s0 = tmproot s /\ names s0 = names s /\ tape s0 = tape s.

Lemma transparent_prefix ws c : forallb transparent ws = true -> forall s,
  exists s0 sf, run_stack ws c s = (fst (c s0), sf) /\ same_fs_inputs s0 s /\
    cwd sf = cwd (snd (c s0)) /\ dirs sf = dirs (snd (c s0)) /\ files sf = files (snd (c s0)).
Proof.
  unfold same_fs_inputs.
  induction ws as [|w r IH]; intros T s; cbn [run_stack].
  - exists s, (snd (c s)). split; [destruct (c s); reflexivity|]. repeat split; reflexivity.
  - cbn in T. apply andb_true_iff in T as [Tw Tr]. destruct w as [ext|fns kept ll|vars| |]; try discriminate.
    + destruct (wenv_shape vars (run_stack r c) s) as [e' [E _]]. cbv zeta in E.
      destruct (IH Tr (set_env s (do_set_env vars (env s)))) as [s0 [sf [R [[A1 [A2 [A3 [A4 [A5 [A6 A7]]]]]] [B1 [B2 B3]]]]]].
      exists s0, (set_env sf e'). rewrite E, R. cbn. repeat split; assumption.
    + rewrite wcfg_shape. destruct (IH Tr s) as [s0 [sf [R [A [B1 [B2 B3]]]]]].
      exists s0, (set_config sf (cfg_update (config sf) (config s))). rewrite R. cbn. repeat split; try assumption; apply A.
Qed.

Lemma tmp_path_of_same ll s0 s : same_fs_inputs s0 s -> tmp_path_of ll s0 = tmp_path_of ll s.
Proof. unfold same_fs_inputs, tmp_path_of. intros [_ [_ [_ [C [T [N _]]]]]]. rewrite C, T, N. reflexivity. Qed.

(* scratch directory gone / cwd restored / kept files copied, seen through transparent outer layers *)
Lemma through_transparent outer fns kept ll inner c s :
  forallb transparent outer = true ->
  let r := run_stack (outer ++ WTmpDir fns kept ll :: inner) c s in
  let tmp := tmp_path_of ll s in
  cwd (snd r) = cwd s /\
  ((failed_before_mkdtemp (fst r) /\ dirs (snd r) = dirs s /\ files (snd r) = files s) \/
   (forall p, In p (dirs (snd r)) \/ In p (files (snd r)) -> prefixb tmp p = false)) /\
  (fst r = Ok -> exists s0 s1, run_stack inner c s0 = (Ok, s1) /\ cwd s0 = tmp /\
     forall n, In (tmp ++ [n]) (files s1) -> kept_name kept n = true ->
       prefixb tmp (cwd s ++ [n]) = false -> In (cwd s ++ [n]) (files (snd r))).
Proof.
  intros T. cbv zeta.
  assert (RS : forall ws1 ws2 c', run_stack (ws1 ++ ws2) c' = run_stack ws1 (run_stack ws2 c')).
  { induction ws1 as [|w r IH]; intros; cbn; [reflexivity|rewrite IH; reflexivity]. }
  rewrite RS. cbn [run_stack].
  destruct (transparent_prefix outer (wrap (WTmpDir fns kept ll) (run_stack inner c)) T s)
    as [s0 [sf [R [S0 [B1 [B2 B3]]]]]].
  rewrite R. cbn [fst snd]. rewrite B1, B2, B3.
  pose proof S0 as S0'. destruct S0' as [C0 [D0 [F0 _]]].
  rewrite <- (tmp_path_of_same ll s0 s S0), <- C0, <- D0, <- F0.
  split; [apply tmpdir_cwd|]. split; [apply tmpdir_removed|].
  intros HOk. destruct (tmpdir_kept_files fns kept ll (run_stack inner c) s0 HOk) as [a [b [E1 [E2 [_ E3]]]]].
  exists a, b. split; [exact E1|]. split; [exact E2|exact E3].
Qed.

(* ------------------------------------------------------------------ per-program execute closures *)
Definition program_ok (p : program) : bool :=
  stack_ok p && externals_guarded p && raw_setenv_free p && has_external p.

(* a finite sweep over the GENERATED table: every execute closure has work_in_tmp_dir outermost, runs
   the external program only through a memory-checked entry point, and never assigns os.environ itself *)
Lemma programs_shape : forallb program_ok programs = true.
Proof. vm_compute. reflexivity. Qed.

Lemma program_in_shape p : In p programs ->
  stack_ok p = true /\ externals_guarded p = true /\ raw_setenv_free p = true /\ has_external p = true.
Proof.
  intros H. pose proof programs_shape as S. rewrite forallb_forall in S. specialize (S p H).
  unfold program_ok in S. repeat (apply andb_true_iff in S as [S ?]). tauto.
Qed.

Lemma entry_callee_keeps (P : callee_t -> Prop) rt ext e :
  (forall ws c, P c -> P (run_stack ws c)) -> P ext -> P (entry_callee rt ext e).
Proof. intros K H. unfold entry_callee. destruct (lookup_ext e externals); [apply K; exact H|exact H]. Qed.

Lemma exec_body_env_at rt ext k b :
  forallb (fun b => match b with BSetEnvRaw _ => false | _ => true end) b = true ->
  restores_env_at k ext -> restores_env_at k (exec_body rt ext b).
Proof.
  intros F H. induction b as [|st r IH]; intros s; cbn; [reflexivity|].
  cbn in F. apply andb_true_iff in F as [F1 F2].
  destruct (exec_bstmt rt ext st s) as [o s1] eqn:E.
  assert (E1 : env_get k (env s1) = env_get k (env s)).
  { destruct st as [k'|e|src suf|n]; cbn in E; try discriminate.
    - pose proof (entry_callee_keeps (restores_env_at k) rt ext e (stack_keeps_env_at k) H s) as Q. rewrite E in Q. exact Q.
    - destruct (mem_path (cwd s ++ [src]) (files s)); inversion E; subst; reflexivity.
    - inversion E; subst; reflexivity. }
  destruct o; cbn; [rewrite (IH F2 s1); exact E1|exact E1].
Qed.

Lemma exec_body_cwd rt ext b : restores_cwd ext -> restores_cwd (exec_body rt ext b).
Proof.
  intros H. induction b as [|st r IH]; intros s; cbn; [reflexivity|].
  destruct (exec_bstmt rt ext st s) as [o s1] eqn:E.
  assert (E1 : cwd s1 = cwd s).
  { destruct st as [k'|e|src suf|n]; cbn in E.
    - inversion E; subst; reflexivity.
    - pose proof (entry_callee_keeps restores_cwd rt ext e stack_keeps_cwd H s) as Q. rewrite E in Q. exact Q.
    - destruct (mem_path (cwd s ++ [src]) (files s)); inversion E; subst; reflexivity.
    - inversion E; subst; reflexivity. }
  destruct o; cbn; [rewrite (IH s1); exact E1|exact E1].
Qed.

Lemma exec_body_cfg rt ext b : restores_cfg ext -> restores_cfg (exec_body rt ext b).
Proof.
  intros H. induction b as [|st r IH]; intros s; cbn; [apply cfg_kept_refl|].
  destruct (exec_bstmt rt ext st s) as [o s1] eqn:E.
  assert (E1 : cfg_kept (config s) (config s1)).
  { destruct st as [k'|e|src suf|n]; cbn in E.
    - inversion E; subst; apply cfg_kept_refl.
    - pose proof (entry_callee_keeps restores_cfg rt ext e stack_keeps_cfg H s) as Q. rewrite E in Q. exact Q.
    - destruct (mem_path (cwd s ++ [src]) (files s)); inversion E; subst; apply cfg_kept_refl.
    - inversion E; subst; apply cfg_kept_refl. }
  destruct o; cbn; [eapply cfg_kept_trans; [exact E1|apply IH]|exact E1].
Qed.

Lemma split_stack_app st : forall pre k ll post, split_stack st = Some (pre, (k, ll), post) ->
  st = pre ++ DTmpDir k ll :: post /\ forallb (fun d => match d with DEnv _ => true | _ => false end) pre = true.
Proof.
  induction st as [|d r IH]; intros pre k ll post H; cbn in H; [discriminate|].
  destruct d as [k' ll'|ks|]; [inversion H; subst; split; reflexivity| |discriminate].
  destruct (split_stack r) as [[[pre' [k' ll']] post']|] eqn:E; [|discriminate]. inversion H; subst.
  destruct (IH _ _ _ _ eq_refl) as [A B]. split; [cbn; rewrite A; reflexivity|cbn; exact B].
Qed.

(* the program as: transparent env layers, work_in_tmp_dir with the program's own kept list and use_ll_tmp, inner part *)
Lemma run_program_shape rt ext p : stack_ok p = true ->
  exists outer fns, forallb transparent outer = true /\
    run_program rt ext p = run_stack (outer ++ WTmpDir fns (prog_kept rt p) (prog_ll p) :: []) (prog_inner rt ext p).
Proof.
  unfold stack_ok, run_program, prog_kept, prog_ll, prog_inner.
  destruct (split_stack (p_stack p)) as [[[pre [k ll]] post]|] eqn:E; [|discriminate]. intros _.
  destruct (split_stack_app _ _ _ _ _ E) as [A B]. rewrite A.
  exists (map (wrapper_of_deco rt) pre), (r_fns rt). split.
  - clear -B. induction pre as [|d r IH]; [reflexivity|]. cbn in *. destruct d; try discriminate. cbn. apply IH. exact B.
  - rewrite map_app. cbn [map wrapper_of_deco].
    assert (RS : forall ws1 ws2 c', run_stack (ws1 ++ ws2) c' = run_stack ws1 (run_stack ws2 c')).
    { induction ws1 as [|w r IH]; intros; cbn; [reflexivity|rewrite IH; reflexivity]. }
    rewrite !RS. cbn [run_stack]. destruct k; reflexivity.
Qed.

Lemma run_program_restores rt ext p : raw_setenv_free p = true -> restores ext -> restores (run_program rt ext p).
Proof.
  intros F [H1 [H2 H3]]. unfold run_program. apply stack_restores. split; [apply exec_body_cwd; exact H1|].
  split; [|apply exec_body_cfg; exact H3].
  intros s k. apply (exec_body_env_at rt ext k (p_body p) F (fun s' => H2 s' k)).
Qed.

Lemma run_program_env_named rt ext p ks k :
  In (DEnv ks) (p_stack p) -> In k ks -> restores_env_at k (run_program rt ext p).
Proof.
  intros Hd Hk. unfold run_program.
  apply (stack_restores_env_var _ _ (map (fun k => (k, r_envval rt k)) ks) k).
  - change (WEnv (map (fun k0 => (k0, r_envval rt k0)) ks)) with (wrapper_of_deco rt (DEnv ks)). apply in_map. exact Hd.
  - rewrite map_map. cbn. rewrite map_id. exact Hk.
Qed.

Lemma run_program_mem rt ext p e s t : externals_guarded p = true -> In (BExternal e) (p_body p) ->
  tape s = true :: t -> entry_callee rt ext e s = (Raise (EFault FMem), set_tape s t).
Proof.
  intros G Hin Ht. unfold externals_guarded in G. rewrite forallb_forall in G. specialize (G _ Hin). cbv beta iota in G.
  unfold entry_callee. destruct (lookup_ext e externals) as [[|[| |] r]|]; try discriminate.
  cbn. apply mem_check_fails. exact Ht.
Qed.
