(* C16/Lemmas.v — lemmas about the primitives of Effects.v and, by symbolic execution of the
   TRANSLATED terms of gen/C16_Gen.v, the facts Props.v exports.  Every statement is for an arbitrary
   callee, an arbitrary fault tape and an arbitrary initial state. *)
From Coq Require Import List String Bool Arith Lia.
From AV.C16 Require Import Effects Model.
From AV.gen Require Import C16_Gen.
Import ListNotations.
Open Scope string_scope.
Open Scope list_scope.

(* ------------------------------------------------------------------ paths *)
Lemma path_eqb_refl p : path_eqb p p = true.
Proof. induction p as [|x p IH]; cbn; [reflexivity|]. rewrite String.eqb_refl, IH. reflexivity. Qed.

Lemma path_eqb_eq p q : path_eqb p q = true <-> p = q.
Proof.
  split; [|intros ->; apply path_eqb_refl].
  revert q. induction p as [|x p IH]; destruct q as [|y q]; cbn; try discriminate; [reflexivity|].
  intros H. apply andb_true_iff in H as [H1 H2]. apply String.eqb_eq in H1. f_equal; [exact H1|apply IH; exact H2].
Qed.

Lemma prefixb_refl p : prefixb p p = true.
Proof. induction p as [|x p IH]; cbn; [reflexivity|]. rewrite String.eqb_refl, IH. reflexivity. Qed.

Lemma prefixb_app p q : prefixb p (p ++ q) = true.
Proof. induction p as [|x p IH]; cbn; [reflexivity|]. rewrite String.eqb_refl, IH. reflexivity. Qed.

Lemma mem_path_In p l : mem_path p l = true <-> In p l.
Proof.
  unfold mem_path. rewrite existsb_exists. split.
  - intros [q [Hq E]]. apply path_eqb_eq in E. subst. exact Hq.
  - intros H. exists p. split; [exact H|apply path_eqb_refl].
Qed.

Lemma In_add_path p q l : In q (add_path p l) <-> q = p \/ In q l.
Proof.
  unfold add_path. destruct (mem_path p l) eqn:E.
  - apply mem_path_In in E. split; [tauto|]. intros [->|H]; assumption.
  - cbn. split; intros [H|H]; auto.
Qed.

Lemma In_remove_path p q l : In q (remove_path p l) <-> In q l /\ q <> p.
Proof.
  unfold remove_path. rewrite filter_In. split; intros [H1 H2]; split; try exact H1.
  - intros ->. rewrite path_eqb_refl in H2. discriminate.
  - destruct (path_eqb p q) eqn:E; [|reflexivity]. apply path_eqb_eq in E. congruence.
Qed.

Lemma In_remove_tree p q l : In q (remove_tree p l) <-> In q l /\ prefixb p q = false.
Proof.
  unfold remove_tree. rewrite filter_In. split; intros [H1 H2]; split; try exact H1.
  - destruct (prefixb p q); [discriminate|reflexivity].
  - rewrite H2. reflexivity.
Qed.

Lemma child_name_app p n : child_name p (p ++ [n]) = Some n.
Proof. induction p as [|x p IH]; cbn; [reflexivity|]. rewrite String.eqb_refl. exact IH. Qed.

(* ------------------------------------------------------------------ environment *)
Lemma env_get_del_same k e : env_get k (env_del k e) = None.
Proof.
  induction e as [|[k' v] e IH]; cbn; [reflexivity|].
  destruct (String.eqb k k') eqn:E; cbn; [exact IH|]. rewrite E. exact IH.
Qed.
Lemma env_get_del_other k k' e : k <> k' -> env_get k (env_del k' e) = env_get k e.
Proof.
  intros N. induction e as [|[k2 v] e IH]; cbn; [reflexivity|].
  destruct (String.eqb k' k2) eqn:E; cbn.
  - apply String.eqb_eq in E. subst k2. destruct (String.eqb k k') eqn:E2; [apply String.eqb_eq in E2; congruence|exact IH].
  - destruct (String.eqb k k2); [reflexivity|exact IH].
Qed.
Lemma env_get_set_same k v e : env_get k (env_set k v e) = Some v.
Proof. unfold env_set. cbn. rewrite String.eqb_refl. reflexivity. Qed.
Lemma env_get_set_other k k' v e : k <> k' -> env_get k (env_set k' v e) = env_get k e.
Proof.
  intros N. unfold env_set. cbn. destruct (String.eqb k k') eqn:E; [apply String.eqb_eq in E; congruence|].
  apply env_get_del_other. exact N.
Qed.

Lemma do_set_env_other vars : forall e k, ~ In k (map fst vars) ->
  env_get k (do_set_env vars e) = env_get k e.
Proof.
  unfold do_set_env. induction vars as [|[k' v] vars IH]; intros e k N; cbn; [reflexivity|].
  cbn in N. rewrite IH by tauto. apply env_get_set_other. intros ->. tauto.
Qed.

(* the restoring loop, non-strict (pop with default): never raises; every listed variable gets the
   value it had in e0 (None = removed), everything else is untouched *)
Lemma do_restore_env_spec ks : forall (e0 e : envt) (P : string -> Prop),
  (forall k, P k -> env_get k e = env_get k e0) ->
  exists e', do_restore_env false ks (map (fun k => env_get k e0) ks) e = (Ok, e') /\
    (forall k, P k \/ In k ks -> env_get k e' = env_get k e0) /\
    (forall k, ~ In k ks -> env_get k e' = env_get k e).
Proof.
  induction ks as [|k0 ks IH]; intros e0 e P HP; cbn.
  - exists e. split; [reflexivity|]. split; [intros k [H|[]]; apply HP; exact H|reflexivity].
  - destruct (env_get k0 e0) as [v|] eqn:E0.
    + destruct (IH e0 (env_set k0 v e) (fun k => P k \/ k = k0)) as [e' [R [A B]]].
      { intros k [H| ->]; [|rewrite env_get_set_same; symmetry; exact E0].
        destruct (String.eqb k k0) eqn:E; [apply String.eqb_eq in E; subst; rewrite env_get_set_same; symmetry; exact E0|].
        apply String.eqb_neq in E. rewrite env_get_set_other by exact E. apply HP; exact H. }
      exists e'. split; [exact R|]. split.
      * intros k [H|[H|H]]; apply A; auto.
      * intros k N. rewrite B by tauto. apply env_get_set_other. intros ->. tauto.
    + assert (Hdel : forall k, P k \/ k = k0 -> env_get k (env_del k0 e) = env_get k e0).
      { intros k [H| ->]; [|rewrite env_get_del_same; symmetry; exact E0].
        destruct (String.eqb k k0) eqn:E; [apply String.eqb_eq in E; subst; rewrite env_get_del_same; symmetry; exact E0|].
        apply String.eqb_neq in E. rewrite env_get_del_other by exact E. apply HP; exact H. }
      destruct (env_get k0 e) as [w|] eqn:E1.
      * destruct (IH e0 (env_del k0 e) (fun k => P k \/ k = k0) Hdel) as [e' [R [A B]]].
        exists e'. split; [exact R|]. split.
        -- intros k [H|[H|H]]; apply A; auto.
        -- intros k N. rewrite B by tauto. apply env_get_del_other. intros ->. tauto.
      * destruct (IH e0 e (fun k => P k \/ k = k0)) as [e' [R [A B]]].
        { intros k [H| ->]; [apply HP; exact H|congruence]. }
        exists e'. split; [exact R|]. split.
        -- intros k [H|[H|H]]; apply A; auto.
        -- intros k N. apply B. tauto.
Qed.

(* ------------------------------------------------------------------ configuration *)
Lemma cfg_get_del_other k k' c : k <> k' -> cfg_get k (cfg_del k' c) = cfg_get k c.
Proof.
  intros N. induction c as [|[k2 v] c IH]; cbn; [reflexivity|].
  destruct (String.eqb k' k2) eqn:E; cbn.
  - apply String.eqb_eq in E. subst k2. destruct (String.eqb k k') eqn:E2; [apply String.eqb_eq in E2; congruence|exact IH].
  - destruct (String.eqb k k2); [reflexivity|exact IH].
Qed.
Lemma cfg_get_set_same k v c : cfg_get k (cfg_set k v c) = Some v.
Proof. unfold cfg_set. cbn. rewrite String.eqb_refl. reflexivity. Qed.
Lemma cfg_get_set_other k k' v c : k <> k' -> cfg_get k (cfg_set k' v c) = cfg_get k c.
Proof.
  intros N. unfold cfg_set. cbn. destruct (String.eqb k k') eqn:E; [apply String.eqb_eq in E; congruence|].
  apply cfg_get_del_other. exact N.
Qed.

(* dict.update(saved): every key of `saved` ends with its saved value *)
Lemma cfg_update_kept saved : forall cur, cfg_kept saved (cfg_update cur saved).
Proof.
  unfold cfg_kept, cfg_update. induction saved as [|[k' v'] saved IH]; intros cur k v H; cbn [fold_right fst snd cfg_get] in *; [discriminate|].
  destruct (String.eqb k k') eqn:E.
  - apply String.eqb_eq in E. subst k'. rewrite cfg_get_set_same. exact H.
  - apply String.eqb_neq in E. rewrite cfg_get_set_other by exact E. apply IH. exact H.
Qed.
(* ... and keys that are not in `saved` (added meanwhile) keep their current value *)
Lemma cfg_update_other saved : forall cur k, cfg_get k saved = None ->
  cfg_get k (cfg_update cur saved) = cfg_get k cur.
Proof.
  unfold cfg_update. induction saved as [|[k' v'] saved IH]; intros cur k H; cbn [fold_right fst snd cfg_get] in *; [reflexivity|].
  destruct (String.eqb k k') eqn:E; [discriminate|].
  apply String.eqb_neq in E. rewrite cfg_get_set_other by exact E. apply IH. exact H.
Qed.

Lemma cfg_kept_refl c : cfg_kept c c.
Proof. intros k v H. exact H. Qed.

(* ------------------------------------------------------------------ fallible primitives: frames *)
Definition same_but_files_tape (a b : state) : Prop :=
  cwd a = cwd b /\ env a = env b /\ dirs a = dirs b /\ config a = config b /\
  tmproot a = tmproot b /\ names a = names b.

Lemma pop_fault_frame s b s' : pop_fault s = (b, s') ->
  same_but_files_tape s' s /\ files s' = files s.
Proof.
  unfold pop_fault, same_but_files_tape. destruct (tape s); intros H; inversion H; subst; cbn; repeat split; reflexivity.
Qed.

Lemma pop_fault_tape s : pop_fault s =
  match tape s with [] => (false, s) | b :: t => (b, set_tape s t) end.
Proof. reflexivity. Qed.

Lemma do_copy_in_frame fns tmp : forall s o s', do_copy_in fns tmp s = (o, s') -> same_but_files_tape s' s.
Proof.
  unfold same_but_files_tape.
  induction fns as [|fn r IH]; intros s o s' H; cbn in H.
  - inversion H; subst. repeat split; reflexivity.
  - destruct (pop_fault s) as [flt s1] eqn:Ep. apply pop_fault_frame in Ep as [[A1 [A2 [A3 [A4 [A5 A6]]]]] _].
    destruct flt; [inversion H; subst; repeat split; assumption|].
    destruct (negb (mem_path (cwd s1 ++ [fn]) (files s1))); [inversion H; subst; repeat split; assumption|].
    destruct (ends_with "_mol.in" fn); apply IH in H; cbn in H;
      destruct H as [B1 [B2 [B3 [B4 [B5 B6]]]]]; repeat split; congruence.
Qed.

(* files created by copy-in all lie in the scratch directory; nothing else appears *)
Lemma do_copy_in_files fns tmp : forall s o s' p, do_copy_in fns tmp s = (o, s') ->
  In p (files s') -> In p (files s) \/ prefixb tmp p = true.
Proof.
  induction fns as [|fn r IH]; intros s o s' p H Hp; cbn in H.
  - inversion H; subst. left; exact Hp.
  - destruct (pop_fault s) as [flt s1] eqn:Ep. apply pop_fault_frame in Ep as [_ Ef].
    destruct flt; [inversion H; subst; left; congruence|].
    destruct (negb (mem_path (cwd s1 ++ [fn]) (files s1))); [inversion H; subst; left; congruence|].
    destruct (ends_with "_mol.in" fn); destruct (IH _ _ _ p H Hp) as [Q|Q]; try (right; exact Q); cbn in Q;
      apply In_add_path in Q as [->|Q]; try (right; apply prefixb_app).
    + apply In_remove_path in Q as [Q _]. left; congruence.
    + left; congruence.
Qed.

Lemma do_copy_back_frame cands here : forall s o s', do_copy_back cands here s = (o, s') ->
  same_but_files_tape s' s.
Proof.
  unfold same_but_files_tape.
  induction cands as [|n r IH]; intros s o s' H; cbn in H.
  - inversion H; subst. repeat split; reflexivity.
  - destruct (pop_fault s) as [flt s1] eqn:Ep. apply pop_fault_frame in Ep as [[A1 [A2 [A3 [A4 [A5 A6]]]]] _].
    destruct flt; [inversion H; subst; repeat split; assumption|].
    destruct (negb (mem_path (cwd s1 ++ [n]) (files s1))); [inversion H; subst; repeat split; assumption|].
    apply IH in H; cbn in H. destruct H as [B1 [B2 [B3 [B4 [B5 B6]]]]]. repeat split; congruence.
Qed.

(* a copy-back loop that finishes normally has put every candidate into `here`, and never removes *)
Lemma do_copy_back_ok cands here : forall s s', do_copy_back cands here s = (Ok, s') ->
  (forall n, In n cands -> In (here ++ [n]) (files s')) /\ (forall p, In p (files s) -> In p (files s')).
Proof.
  induction cands as [|n r IH]; intros s s' H; cbn in H.
  - inversion H; subst. split; [intros n []|auto].
  - destruct (pop_fault s) as [flt s1] eqn:Ep. apply pop_fault_frame in Ep as [_ Ef].
    destruct flt; [discriminate|].
    destruct (negb (mem_path (cwd s1 ++ [n]) (files s1))); [discriminate|].
    apply IH in H as [A B]. cbn in B. split.
    + intros m [<-|Hm]; [apply B, In_add_path; left; reflexivity|apply A; exact Hm].
    + intros p Hp. apply B, In_add_path. right. congruence.
Qed.

(* no injected fault and the callee is (back) in the scratch directory: copy-back cannot fail *)
Lemma do_copy_back_succeeds cands here tmp : forall s,
  cwd s = tmp -> tape s = [] -> (forall n, In n cands -> In (tmp ++ [n]) (files s)) ->
  exists s', do_copy_back cands here s = (Ok, s').
Proof.
  induction cands as [|n r IH]; intros s Hc Ht Hin; cbn.
  - eexists; reflexivity.
  - rewrite pop_fault_tape, Ht.
    assert (M : mem_path (cwd s ++ [n]) (files s) = true) by (apply mem_path_In; rewrite Hc; apply Hin; left; reflexivity).
    rewrite M. cbn. apply IH; cbn; try assumption.
    intros m Hm. apply In_add_path. right. apply Hin. right; exact Hm.
Qed.

Lemma In_kept_candidates kept tmp fs n :
  In (tmp ++ [n]) fs -> kept_name kept n = true -> In n (kept_candidates kept tmp fs).
Proof.
  intros H K. unfold kept_candidates. apply in_flat_map. exists (tmp ++ [n]). split; [exact H|].
  rewrite child_name_app, K. left; reflexivity.
Qed.

Lemma kept_candidates_sound kept tmp fs n :
  In n (kept_candidates kept tmp fs) -> exists q, In q fs /\ child_name tmp q = Some n.
Proof.
  unfold kept_candidates. intros H. apply in_flat_map in H as [q [Hq H]]. exists q. split; [exact Hq|].
  destruct (child_name tmp q) as [m|]; [|destruct H]. destruct (kept_name kept m); [|destruct H].
  destruct H as [<-|[]]. reflexivity.
Qed.

Lemma child_name_eq p : forall q n, child_name p q = Some n -> q = p ++ [n].
Proof.
  induction p as [|x p IH]; intros q n H; cbn in H.
  - destruct q as [|m [|? ?]]; try discriminate. inversion H; reflexivity.
  - destruct q as [|y q]; [discriminate|]. destruct (String.eqb x y) eqn:E; [|discriminate].
    apply String.eqb_eq in E. subst y. cbn. f_equal. apply IH. exact H.
Qed.

Lemma is_empty_dir_ext a b d : dirs a = dirs b -> files a = files b -> is_empty_dir a d = is_empty_dir b d.
Proof. unfold is_empty_dir. intros -> ->. reflexivity. Qed.

(* ------------------------------------------------------------------ symbolic execution *)
Arguments pop_fault : simpl never.
Arguments mem_path : simpl never.
Arguments is_empty_dir : simpl never.
Arguments remove_path : simpl never.
Arguments remove_tree : simpl never.
Arguments do_copy_in : simpl never.
Arguments do_copy_back : simpl never.
Arguments do_restore_env : simpl never.
Arguments do_set_env : simpl never.
Arguments cfg_update : simpl never.
Arguments kept_candidates : simpl never.
Arguments base_of_config : simpl never.
Arguments env_get : simpl never.
Arguments cfg_get : simpl never.
Arguments prefixb : simpl never.

(* destruct the innermost stuck scrutinee of the goal, remembering the equation *)
Ltac step :=
  match goal with
  | |- context [match ?x with _ => _ end] =>
      lazymatch x with
      | context [match _ with _ => _ end] => fail
      | _ => destruct x eqn:?
      end
  end; cbn.
Ltac run_term := unfold wrap, run, term_of; cbn; repeat step.
Ltac frames :=
  repeat match goal with
  | H : pop_fault _ = _ |- _ => apply pop_fault_frame in H; destruct H as [[? [? [? [? [? ?]]]]] ?]
  | H : do_copy_in _ _ _ = _ |- _ =>
      let F := fresh "F" in pose proof (do_copy_in_frame _ _ _ _ _ H) as F; destruct F as [? [? [? [? [? ?]]]]];
      generalize dependent H; intro
  end.

(* ---- work_in (utils.py:224-255) ---- *)
Lemma work_in_cwd ext c : restores_cwd (wrap (WWorkIn ext) c).
Proof.
  intros s. unfold work_in_term. run_term; try reflexivity.
  all: match goal with H : pop_fault _ = _ |- _ => apply pop_fault_frame in H; unfold same_but_files_tape in H; tauto end.
Qed.
