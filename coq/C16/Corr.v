(* C16/Corr.v — helpers used only by the correspondence check (harness/c16.py): scripted wrapped
   functions (what the harness's callee does, step by step), and the comparison of the model's final
   state with what was observed on the real wrappers. *)
From Coq Require Import List String Bool Arith.
From AV.C16 Require Import Effects Model.
From AV.gen Require Import C16_Gen.
Import ListNotations.
Open Scope string_scope.
Open Scope list_scope.

(* what the harness's wrapped function does *)
Inductive act :=
| AChdir (p : path)                    (* os.chdir(<absolute dir>) *)
| AMkfile (n : string)                 (* open(n, "w") in the current directory *)
| AMkdirRel (n : string)               (* os.mkdir(n) in the current directory *)
| ASetenv (k v : string)
| ADelenv (k : string)
| ASetcfg (k : string) (v : cval)      (* top-level Config key k becomes v (whole subtree) *)
| ARaise (n : nat).                    (* raise the n-th exception type *)

Fixpoint run_script (a : list act) (s : state) : outcome * state :=
  match a with
  | [] => (Ok, s)
  | AChdir p :: r => run_script r (set_cwd s p)
  | AMkfile n :: r => run_script r (set_files s (add_path (cwd s ++ [n]) (files s)))
  | AMkdirRel n :: r => run_script r (set_dirs s (add_path (cwd s ++ [n]) (dirs s)))
  | ASetenv k v :: r => run_script r (set_env s (env_set k v (env s)))
  | ADelenv k :: r => run_script r (set_env s (env_del k (env s)))
  | ASetcfg k v :: r => run_script r (set_config s (cfg_set k v (config s)))
  | ARaise n :: _ => (Raise (ECallee n), s)
  end.

(* ------------------------------------------------------------------ comparison *)
Definition fkind_eqb (a b : fkind) : bool :=
  match a, b with FMkdir, FMkdir | FMkdtemp, FMkdtemp | FCopy, FCopy | FMem, FMem => true | _, _ => false end.
Definition exn_eqb (a b : exn) : bool :=
  match a, b with
  | EFault x, EFault y => fkind_eqb x y
  | ENoSource, ENoSource | EExists, EExists | EAssert, EAssert | EKey, EKey
  | EUnbound, EUnbound | ENoNames, ENoNames | EIsDir, EIsDir => true
  | ECallee n, ECallee m => Nat.eqb n m
  | _, _ => false
  end.
Definition outcome_eqb (a b : outcome) : bool :=
  match a, b with Ok, Ok => true | Raise x, Raise y => exn_eqb x y | _, _ => false end.

Fixpoint cval_eqb (a b : cval) : bool :=
  match a, b with
  | CLeaf x, CLeaf y => String.eqb x y
  | CPathV p, CPathV q => path_eqb p q
  | CNode ka, CNode kb =>
      (fix go (l1 l2 : list (string * cval)) : bool :=
         match l1, l2 with
         | [], [] => true
         | (k1, v1) :: r1, (k2, v2) :: r2 => String.eqb k1 k2 && cval_eqb v1 v2 && go r1 r2
         | _, _ => false
         end) ka kb
  | _, _ => false
  end.

Definition same_paths (a b : list path) : bool :=
  forallb (fun p => mem_path p b) a && forallb (fun p => mem_path p a) b.

Definition ostr_eqb (a b : option string) : bool :=
  match a, b with Some x, Some y => String.eqb x y | None, None => true | _, _ => false end.

(* the two configurations are the same finite map *)
Definition same_cfg (a b : cfgt) : bool :=
  forallb (fun kv => match cfg_get (fst kv) b with Some v => cval_eqb (snd kv) v | None => false end) a &&
  forallb (fun kv => match cfg_get (fst kv) a with Some _ => true | None => false end) b.

(* expected configuration = base with some top-level keys replaced *)
Definition cfg_with (base : cfgt) (diff : list (string * cval)) : cfgt :=
  fold_left (fun c kv => cfg_set (fst kv) (snd kv) c) diff base.

(* r: what the model computes;  the rest: what the implementation did *)
Definition check_case (r : outcome * state) (o : outcome) (c : path) (e : list (string * option string))
           (d f : list path) (cfg : cfgt) : bool :=
  outcome_eqb (fst r) o && path_eqb (cwd (snd r)) c &&
  forallb (fun kv => ostr_eqb (env_get (fst kv) (env (snd r))) (snd kv)) e &&
  same_paths (dirs (snd r)) d && same_paths (files (snd r)) f && same_cfg (config (snd r)) cfg.
(* same, ignoring files (copy-back order depends on os.listdir order when a copy-back fault is injected
   among several kept files) *)
Definition check_case_nofiles (r : outcome * state) (o : outcome) (c : path) (e : list (string * option string))
           (d : list path) (cfg : cfgt) : bool :=
  outcome_eqb (fst r) o && path_eqb (cwd (snd r)) c &&
  forallb (fun kv => ostr_eqb (env_get (fst kv) (env (snd r))) (snd kv)) e &&
  same_paths (dirs (snd r)) d && same_cfg (config (snd r)) cfg.

Fixpoint assoc_str (k : string) (l : list (string * string)) : string :=
  match l with [] => "" | (k', v) :: r => if String.eqb k k' then v else assoc_str k r end.
Definition prog (n : string) : program :=
  match find (fun p => String.eqb (p_name p) n) programs with Some p => p | None => mkProgram "" [] [] end.
Definition rt_of (fns kept_cfg : list string) (envvals : list (string * string)) (calcname : string) : runtime :=
  mkRuntime fns kept_cfg (fun k => assoc_str k envvals) calcname.

