(* C08/Model.v — executable hand model of the discrete and algebraic pieces of autodE's internal
   coordinates (definitions only; proofs in Lemmas.v, property theorems in Props.v).

     A. _connect_graph_for_species            autode/opt/coordinates/internals.py:535-581
     B. PIC.close_to (dihedral unwrapping)    autode/opt/coordinates/internals.py:134-152
     C. _schmidt_orthogonalise + geom.proj    autode/opt/coordinates/dic.py:516-547, autode/geom.py:56
     D. DICWithConstraints index layout, g/h  autode/opt/coordinates/dic.py:384-408, 443-497
     E. OptCoordinates clear_tensors machine  autode/opt/coordinates/base.py:69-173, 382-434
     F. DIC pull-back of gradient / Hessian   autode/opt/coordinates/dic.py:146-183

   External numerics are oracles: distances / vdW radii (A), the value of pi (B, parameter pi_),
   sqrt (C, parameter fsqrt), the pseudo-inverse B_T_inv = pinv(B) (F, an argument). *)
From Coq Require Import Arith ZArith QArith Qabs Qcanon List Bool Lia Relations.
From AV.lib Require Import Sums QcInst.
Import ListNotations.
Local Open Scope nat_scope.

(* ================================================================================================
   A. graph connection
   ================================================================================================ *)
Definition edge := (nat * nat)%type.

Definition edge_is (i j : nat) (e : edge) : bool :=
  ((fst e =? i) && (snd e =? j)) || ((fst e =? j) && (snd e =? i)).
(* networkx Graph.has_edge (undirected) *)
Definition has_edge (es : list edge) (i j : nat) : bool := existsb (edge_is i j) es.
(* networkx Graph.add_edge: an existing edge only has its attributes updated *)
Definition add_edge (es : list edge) (i j : nat) : list edge :=
  if has_edge es i j then es else es ++ [(i, j)].

Definition nbrs (es : list edge) (v : nat) : list nat :=
  flat_map (fun e => if fst e =? v then [snd e] else if snd e =? v then [fst e] else []) es.
Definition mem (x : nat) (l : list nat) : bool := existsb (Nat.eqb x) l.
Definition add_new (acc : list nat) (w : nat) : list nat := if mem w acc then acc else acc ++ [w].
(* one breadth-first round: every neighbour of a visited node becomes visited *)
Definition grow (es : list edge) (vis : list nat) : list nat :=
  fold_left add_new (flat_map (nbrs es) vis) vis.
(* fuelled BFS; None = out of fuel (Lemmas.bfs_fuel_suffices: impossible with fuel = node count) *)
Fixpoint bfs (fuel : nat) (es : list edge) (vis : list nat) : option (list nat) :=
  match fuel with
  | O => None
  | S f => let vis' := grow es vis in
           if length vis' =? length vis then Some vis else bfs f es vis'
  end.

Inductive cres : Type :=
| COk (es : list edge)
| CErrPointless        (* networkx.is_connected on a graph without nodes raises *)
| CErrFuel             (* model artefact: BFS fuel exhausted (proved impossible) *)
| CErrNoPair           (* min_pair stayed (-1,-1): empty component (proved impossible) *)
| CErrAssert.          (* internals.py:573  assert mol.graph.is_connected *)

(* MolecularGraph.is_connected = networkx.is_connected: BFS from the first node reaches len(G) nodes *)
Definition is_connected (n : nat) (es : list edge) : option (option bool) :=
  match n with
  | O => None
  | S _ => match bfs n es [0%nat] with None => Some None | Some r => Some (Some (length r =? n)) end
  end.

(* networkx.connected_components: for v in G (node order 0..n-1): if v not seen: BFS from v *)
Fixpoint comps_from (n : nat) (es : list edge) (todo : list nat) (acc : list (list nat))
  : option (list (list nat)) :=
  match todo with
  | [] => Some acc
  | v :: t => if existsb (mem v) acc then comps_from n es t acc
              else match bfs n es [v] with
                   | None => None
                   | Some c => comps_from n es t (acc ++ [c])
                   end
  end.
Definition components (n : nat) (es : list edge) : option (list (list nat)) :=
  comps_from n es (seq 0 n) [].

(* itertools.combinations(l, r=2) *)
Fixpoint pairs {A} (l : list A) : list (A * A) :=
  match l with [] => [] | x :: t => map (pair x) t ++ pairs t end.

(* internals.py:565-570: min_dist = inf; for i, j in product(comp_i, comp_j): if d(i,j) < min_dist …
   (strict <: the first minimal pair in product order is kept) *)
Definition min_pair (dist : nat -> nat -> Qc) (ci cj : list nat) : option (nat * nat) :=
  fold_left (fun best ij =>
               match best with
               | None => Some ij
               | Some b => if Qcltb (dist (fst ij) (snd ij)) (dist (fst b) (snd b)) then Some ij else best
               end) (list_prod ci cj) None.

Record atominfo := mkInfo {
  is_x : nat -> bool;      (* label in ["N","O","F","P","S","Cl"]   internals.py:548 *)
  is_h : nat -> bool;      (* label == "H" *)
  vdw : nat -> Qc          (* Atom.vdw_radius *)
}.

(* internals.py:549-559 *)
Definition hb_pair (a : atominfo) (i j : nat) : bool :=
  (is_x a i && is_h a j) || (is_x a j && is_h a i).
Definition hbond_step (c09 : Qc) (a : atominfo) (dist : nat -> nat -> Qc) (n : nat) (es : list edge) : list edge :=
  fold_left (fun es ij =>
               let i := fst ij in let j := snd ij in
               if hb_pair a i j && Qcltb (dist i j) (c09 * (vdw a i + vdw a j))%Qc
               then add_edge es i j else es) (pairs (seq 0 n)) es.

(* internals.py:562-571: components are computed ONCE, then one edge is added for EVERY pair *)
Definition join_step (dist : nat -> nat -> Qc) (acc : option (list edge)) (cc : list nat * list nat)
  : option (list edge) :=
  match acc with
  | None => None
  | Some es => match min_pair dist (fst cc) (snd cc) with
               | None => None
               | Some ij => Some (add_edge es (fst ij) (snd ij))
               end
  end.
Definition join (dist : nat -> nat -> Qc) (cs : list (list nat)) (es : list edge) : option (list edge) :=
  fold_left (join_step dist) (pairs cs) (Some es).

(* internals.py:573-579: assert connected, then constraints become edges *)
Definition add_constraints (cons : list edge) (es : list edge) : list edge :=
  fold_left (fun es ij => add_edge es (fst ij) (snd ij)) cons es.
Definition finish (n : nat) (cons : list edge) (es : list edge) : cres :=
  match is_connected n es with
  | None => CErrPointless
  | Some None => CErrFuel
  | Some (Some false) => CErrAssert
  | Some (Some true) => COk (add_constraints cons es)
  end.

Definition connect_graph (c09 : Qc) (a : atominfo) (dist : nat -> nat -> Qc) (n : nat)
           (cons : list edge) (es : list edge) : cres :=
  let es1 := hbond_step c09 a dist n es in
  match is_connected n es1 with
  | None => CErrPointless
  | Some None => CErrFuel
  | Some (Some true) => finish n cons es1
  | Some (Some false) =>
      match components n es1 with
      | None => CErrFuel
      | Some cs => match join dist cs es1 with
                   | None => CErrNoPair
                   | Some es2 => finish n cons es2
                   end
      end
  end.

(* specification vocabulary for part A *)
Definition adj (es : list edge) (a b : nat) : Prop := has_edge es a b = true.
Definition reach (es : list edge) : nat -> nat -> Prop := Relation_Operators.clos_refl_trans nat (adj es).
(* every two atoms are joined by a path *)
Definition connected (n : nat) (es : list edge) : Prop := forall i j, i < n -> j < n -> reach es i j.
Definition bounded_es (n : nat) (es : list edge) : Prop := forall e, In e es -> fst e < n /\ snd e < n.
Definition bounded_l (n : nat) (l : list nat) : Prop := forall v, In v l -> v < n.

(* ================================================================================================
   B. close_to  (rationals; pi_ stands for numpy.pi)
   ================================================================================================ *)
Definition Qltb (a b : Q) : bool := negb (Qle_bool b a).
(* numpy.sign *)
Definition Qsign (x : Q) : Q := if Qltb 0 x then 1%Q else if Qltb x 0 then (-1)%Q else 0%Q.
(* internals.py:147-150:  dq = q[i] - other[i];  if |dq| > pi: q[i] -= sign(dq) * 2 * pi   (ONE shift) *)
Definition close1 (pi_ q other : Q) : Q :=
  let dq := (q - other)%Q in
  if Qltb pi_ (Qabs dq) then (q - Qsign dq * 2 * pi_)%Q else q.
(* is_dih i = isinstance(primitive_i, PrimitiveDihedralAngle) (improper dihedrals are a subclass) *)
Fixpoint close_to (pi_ : Q) (is_dih : list bool) (q other : list Q) : list Q :=
  match is_dih, q, other with
  | d :: ds, x :: qs, o :: os => (if d then close1 pi_ x o else x) :: close_to pi_ ds qs os
  | _, _, _ => []
  end.

(* ================================================================================================
   E. clear_tensors state machine of one OptCoordinates variable
   ================================================================================================
   A tensor is represented by the coordinate VERSION at which it was stored, so that staleness is
   visible: a stored tensor with tag t is stale iff t <> ver. *)
Record cstate := mkC {
  ver : nat;                 (* number of coordinate changes so far *)
  t_e : option nat;          (* _e *)
  t_g : option nat;          (* _g *)
  t_h : option nat;          (* _h *)
  t_hinv : option nat        (* _h_inv  — cleared by clear_tensors too, base.py:430 *)
}.
Inductive ckind : Type := KCart | KDic.     (* CartesianCoordinates / DIC (incl. DICWithConstraints) *)
Inductive cop : Type :=
| OSetItem            (* c[k] = v                base.py:382-391: clear_tensors, then the write *)
| OAdd | OSub         (* c = c + d / c = c - d   base.py:393-413: copy; clear_tensors; iadd; name rebound *)
| OAddDiscard         (* _ = c + d : c itself is untouched *)
| OIAdd | OISub       (* c += d / c -= d         base.py:415-422: clear self, then __add__; name rebound *)
| OIaddCall           (* c.iadd(d) called directly (no dunder): the primitive in-place step *)
| OClear              (* c.clear_tensors() *)
| OCopy               (* c = c.copy(): a new object carrying the same tensors (the attributes are taken over
                         by reference through __array_finalize__; the machine only tracks the tags) *)
| OSetE (some : bool) (* c.e = value / None *)
| OSetG (some : bool) (* c.g = value / None   (= update_g_from_cart_g for Cartesian coordinates) *)
| OSetH (some : bool) (* c.h = value / None   (= update_h_from_cart_h) *)
| OSetHinv (some : bool)
| OGetH               (* reading c.h    : base.py:126-130 fills _h from _h_inv when _h is None *)
| OGetHinv.           (* reading c.h_inv: base.py:155-162 fills _h_inv from _h when _h_inv is None *)

(* base.py:430  self._e, self._g, self._h, self._h_inv = None, None, None, None *)
Definition cleared (s : cstate) : cstate := mkC (ver s) None None None None.
(* the bare write of new coordinate values (ndarray.__setitem__ / ndarray.__iadd__): tensors untouched *)
Definition moved (s : cstate) : cstate := mkC (S (ver s)) (t_e s) (t_g s) (t_h s) (t_hinv s).
(* base.py:390-391  __setitem__ = clear_tensors(); super().__setitem__() *)
Definition changed (s : cstate) : cstate := moved (cleared s).
Definition tag (s : cstate) (b : bool) : option nat := if b then Some (ver s) else None.
(* the primitive in-place step `iadd`:
     CartesianCoordinates.iadd = self.clear_tensors(); np.ndarray.__iadd__(self, value)   cartesian.py:79-81
     DIC.iadd ends with  self[:] = s_k  -> __setitem__               dic.py:294 (converged and fallback branch alike) *)
Definition raw_iadd (k : ckind) (s : cstate) : cstate :=
  match k with KCart => moved (cleared s) | KDic => changed s end.
(* base.py:405-407  new = self.copy(); new.clear_tensors(); new.iadd(other) — composed, not postulated *)
Definition cadd (k : ckind) (s : cstate) : cstate := raw_iadd k (cleared s).

Definition cstep (k : ckind) (s : cstate) (o : cop) : cstate :=
  match o with
  | OSetItem => changed s
  | OAdd | OSub => cadd k s
  | OIAdd | OISub => cadd k (cleared s)          (* base.py:417-418: self.clear_tensors(); return self.__add__(other) *)
  | OIaddCall => raw_iadd k s
  | OAddDiscard | OCopy => s
  | OClear => cleared s
  | OSetE b => mkC (ver s) (tag s b) (t_g s) (t_h s) (t_hinv s)
  | OSetG b => mkC (ver s) (t_e s) (tag s b) (t_h s) (t_hinv s)
  | OSetH b => mkC (ver s) (t_e s) (t_g s) (tag s b) (t_hinv s)
  | OSetHinv b => mkC (ver s) (t_e s) (t_g s) (t_h s) (tag s b)
  | OGetH => match t_h s, t_hinv s with
             | None, Some t => mkC (ver s) (t_e s) (t_g s) (Some t) (t_hinv s)
             | _, _ => s end
  | OGetHinv => match t_hinv s, t_h s with
                | None, Some t => mkC (ver s) (t_e s) (t_g s) (t_h s) (Some t)
                | _, _ => s end
  end.
Definition crun (k : ckind) (s : cstate) (ops : list cop) : cstate := fold_left (cstep k) ops s.
(* the coordinate changes made through the operators of OptCoordinates *)
Definition is_change (o : cop) : bool :=
  match o with OSetItem | OAdd | OSub | OIAdd | OISub => true | _ => false end.
(* what the public getter `c.h` returns (base.py:108-130) *)
Definition obs_h (s : cstate) : option nat :=
  match t_h s with Some t => Some t | None => t_hinv s end.
Definition fresh_tag (s : cstate) (t : option nat) : Prop :=
  match t with None => True | Some k => k = ver s end.
Definition cinit : cstate := mkC 0 None None None None.

(* ================================================================================================
   D (index part). DICWithConstraints.inactive_indexes / active_indexes   dic.py:384-408
   ================================================================================================
   n = len(self), m = n_constraints, flags_i = constrained_primitives[i].is_satisfied(x).
   Python computes n - m + i over the integers; the model uses nat, hence is faithful for m <= n
   (for m > n _schmidt_orthogonalise already raised IndexError: see schmidt below). *)
Fixpoint sat_from (k : nat) (flags : list bool) : list nat :=
  match flags with
  | [] => []
  | b :: r => if b then k :: sat_from (S k) r else sat_from (S k) r
  end.
Definition sat_idxs (flags : list bool) : list nat := sat_from 0 flags.
Definition inactive_indexes (n : nat) (flags : list bool) : list nat :=
  let m := length flags in
  map (fun i => n - m + i) (sat_idxs flags) ++ map (fun i => n + i) (sat_idxs flags).
Definition active_indexes (n : nat) (flags : list bool) : list nat :=
  let m := length flags in
  filter (fun i => negb (mem i (inactive_indexes n flags))) (seq 0 (n + m)).

(* ================================================================================================
   C, D (assembly part), F: algebra over an arbitrary field
   ================================================================================================ *)
Section Alg.
Variable F : Type.
Variables (F0 F1 : F) (Fadd Fmul Fsub : F -> F -> F) (Fopp : F -> F) (Fdiv : F -> F -> F).
Variable fsqrt : F -> F.

Notation vec := (nat -> F).
Notation mat := (nat -> nat -> F).
Notation dot := (dot F F0 Fadd Fmul).
Notation matmul := (matmul F F0 Fadd Fmul).
Notation matvec := (matvec F F0 Fadd Fmul).
Notation transpose := (transpose F).

(* ---- C. Schmidt ---- *)
Definition unitv (k : nat) : vec := fun r => if r =? k then F1 else F0.
(* v - proj(u, v),  proj(u, v) = (dot(u, v) / dot(u, u)) * u      geom.py:56
   dic.py:537-539: u_i is a VIEW of arr[:, i], so `proj(u[:, j], arr[:, i])` sees the already
   updated u_i: the loop is MODIFIED Gram-Schmidt, modelled literally. *)
Definition proj_sub (np : nat) (v u : vec) : vec :=
  let c := Fdiv (dot np u v) (dot np u u) in fun r => Fsub (v r) (Fmul c (u r)).
Definition mgs (np : nat) (us : list vec) (a : vec) : vec := fold_left (proj_sub np) us a.
(* dic.py:541  u_i /= np.linalg.norm(u_i) *)
Definition normalize (np : nat) (w : vec) : vec :=
  let s := fsqrt (dot np w w) in fun r => Fdiv (w r) s.
Definition schmidt_step (np : nat) (us : list vec) (a : vec) : list vec :=
  us ++ [normalize np (mgs np us a)].
(* columns 0..m-1 of u are the unit vectors (dic.py:532-533), columns m..n-1 are built from
   columns m..n-1 of arr (dic.py:536-543); columns 0..m-1 of arr are never read. *)
Definition schmidt_raw (np : nat) (cols : list vec) (idxs : list nat) : list vec :=
  fold_left (schmidt_step np) (skipn (length idxs) cols) (map unitv idxs).
(* None = IndexError (u[index, i] with i >= n or index >= number of primitives).
   dic.py:546-547: permutation = range(m, n) + range(m): the unit vectors go LAST. *)
Definition schmidt (np : nat) (cols : list vec) (idxs : list nat) : option (list vec) :=
  let m := length idxs in
  let n := length cols in
  if (n <? m) || existsb (fun k => np <=? k) idxs then None
  else let u := schmidt_raw np cols idxs in Some (skipn m u ++ firstn m u).
(* premise "no zero vector arises": every vector that gets normalised has non-zero length *)
Fixpoint no_zero (np : nat) (us : list vec) (todo : list vec) : Prop :=
  match todo with
  | [] => True
  | a :: t => dot np (mgs np us a) (mgs np us a) <> F0 /\ no_zero np (schmidt_step np us a) t
  end.

(* pointwise exactness of the sqrt oracle on the squared lengths that actually occur (implied by
   "sqrt x * sqrt x = x for 0 <= x", and satisfiable over Qc on Pythagorean inputs) *)
Fixpoint sqrt_exact (np : nat) (us : list vec) (todo : list vec) : Prop :=
  match todo with
  | [] => True
  | a :: t => let w := mgs np us a in
              Fmul (fsqrt (dot np w w)) (fsqrt (dot np w w)) = dot np w w /\
              sqrt_exact np (schmidt_step np us a) t
  end.

(* ---- D. g / h of DICWithConstraints ---- *)
Definition upd (v : vec) (k : nat) (x : F) : vec := fun r => if r =? k then x else v r.
Definition upd2 (A : mat) (i j : nat) (x : F) : mat :=
  fun r c => if (r =? i) && (c =? j) then x else A r c.
(* dic.py:452-465 *)
Definition g_full (n m : nat) (g lam delta : vec) : vec :=
  let arr0 : vec := fun r => if r <? n then g r else F0 in                                 (* zeros; arr[:n] = _g *)
  let arr1 := fold_left (fun a i => upd a (n - m + i) (Fsub (a (n - m + i)) (Fmul (lam i) F1)))
                        (seq 0 m) arr0 in                                                  (* arr[n-m+i] -= lam_i * 1 *)
  fold_left (fun a i => upd a (n + i) (Fopp (delta i))) (seq 0 m) arr1.                    (* arr[n+i] = -delta_i *)
(* dic.py:483-497 *)
Definition zero_rowcol (A : mat) (k : nat) : mat :=
  fun r c => if (r =? k) || (c =? k) then F0 else A r c.
Definition h_full (n m : nat) (h : mat) : mat :=
  let arr0 : mat := fun r c => if (r <? n) && (c <? n) then h r c else F0 in
  let arr1 := fold_left (fun A i => zero_rowcol A (n + i)) (seq 0 m) arr0 in
  fold_left (fun A i => upd2 (upd2 A (n + i) (n - m + i) (Fopp F1)) (n - m + i) (n + i) (Fopp F1))
            (seq 0 m) arr1.

(* ---- F. pull-back: k = 3N Cartesians, n DICs; B : n x k, A = B_T_inv : k x n ---- *)
(* dic.py:159   _g = matmul(B_T_inv.T, g_x) *)
Definition pull_g (k : nat) (A : mat) (gx : vec) : vec := matvec k (transpose A) gx.
(* dic.py:179   multi_dot((B_T_inv.T, H_x, B_T_inv)) *)
Definition pull_h (k : nat) (A : mat) (Hx : mat) : mat := matmul k (matmul k (transpose A) Hx) A.
(* P = A B : k x k, the projector on the internal (non rigid-body) displacements *)
Definition projP (n : nat) (A B : mat) : mat := matmul n A B.

End Alg.
